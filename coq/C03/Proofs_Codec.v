(* C03 — the observation codec round-trips, hence the end-to-end statement over the wire format:
   the property's decision procedure accepts what the extracted model prints, for every input. *)
From Coq Require Import List ZArith Bool Lia.
From Verif Require Import Lib.Wire C03.Model C03.Spec C03.Codec C03.Entry C03.Proofs_Check C03.Proofs_NP.
Import ListNotations.
Open Scope Z_scope.

Lemma decode_many_flat {A} (dec : list Z -> A * list Z) (enc : A -> list Z) :
  (forall a r, dec (enc a ++ r) = (a, r)) ->
  forall l r, decode_many dec (length l) (flat_map enc l ++ r) = (l, r).
Proof.
  intros H l. induction l as [|a t IH]; intro r; [reflexivity|].
  cbn [length flat_map decode_many]. rewrite <- app_assoc, H, IH. reflexivity.
Qed.

Lemma decode_seq_flat {A} (dec : list Z -> A * list Z) (enc : A -> list Z) :
  (forall a r, dec (enc a ++ r) = (a, r)) ->
  forall l r, decode_seq dec (Z.of_nat (length l) :: flat_map enc l ++ r) = (l, r).
Proof.
  intros H l r. unfold decode_seq. rewrite Nat2Z.id. apply decode_many_flat. exact H.
Qed.

Lemma dec_lim_enc (e : Z * vec) r : dec_lim ((fst e :: enc_vec (snd e)) ++ r) = (e, r).
Proof. destruct e as [i [a b c]]. reflexivity. Qed.

Lemma dec_dmp_enc (e : Z * (vec * vec)) r :
  dec_dmp ((fst e :: enc_vec (fst (snd e)) ++ enc_vec (snd (snd e))) ++ r) = (e, r).
Proof. destruct e as [i [[a b c] [x y z]]]. reflexivity. Qed.

Lemma dec_obs_enc o r : dec_obs (enc_obs o ++ r) = (o, r).
Proof.
  destruct o as [s ls ds]. unfold enc_obs, dec_obs. cbn [o_status o_limits o_dump app].
  rewrite <- app_assoc.
  rewrite (decode_seq_flat dec_lim (fun e => fst e :: enc_vec (snd e)) dec_lim_enc).
  cbn [app].
  rewrite (decode_seq_flat dec_dmp
             (fun e => fst e :: enc_vec (fst (snd e)) ++ enc_vec (snd (snd e))) dec_dmp_enc).
  reflexivity.
Qed.

Lemma parse_obs_enc os : parse_obs (length os) (flat_map enc_obs os) = os.
Proof.
  unfold parse_obs. rewrite <- (app_nil_r (flat_map enc_obs os)).
  rewrite (decode_many_flat dec_obs enc_obs dec_obs_enc). reflexivity.
Qed.

Lemma run_length cfg : forall ops st, length (run cfg st ops) = length ops.
Proof.
  induction ops as [|o t IH]; intro st; [reflexivity|].
  cbn [run]. destruct (step cfg st o). cbn [length]. rewrite IH. reflexivity.
Qed.

Lemma enc_obs_length o : (3 <= length (enc_obs o))%nat.
Proof.
  unfold enc_obs. cbn [length]. rewrite app_length. cbn [length]. lia.
Qed.

Lemma is_crash_enc os : is_crash (flat_map enc_obs os) = false.
Proof.
  destruct os as [|o t]; [reflexivity|]. cbn [flat_map].
  pose proof (enc_obs_length o) as H.
  destruct (enc_obs o) as [|a [|b [|c l]]]; cbn [length] in H; try lia. reflexivity.
Qed.

(* for EVERY input (well-formed or not): the decision procedure accepts the model's output, except
   possibly for clause 3 (the known finding about dimensions missing from min) ... *)
Theorem prop_case_run_case inp : prop_case inp (run_case inp) = 0 \/ prop_case inp (run_case inp) = 3.
Proof.
  unfold prop_case, run_case. destruct (decode inp) as [cfg ops].
  rewrite is_crash_enc.
  replace (length ops) with (length (run cfg init_state ops)) by apply run_length.
  rewrite parse_obs_enc.
  apply prop_code_full_run.
Qed.

(* ... and entirely when every quota object gives a min for every key of its max *)
Theorem prop_case_run_case_mc inp :
  mc_hist (fst (decode inp)) init_state (snd (decode inp)) = true ->
  prop_case inp (run_case inp) = 0.
Proof.
  unfold prop_case, run_case. destruct (decode inp) as [cfg ops]. cbn [fst snd]. intro H.
  rewrite is_crash_enc.
  replace (length ops) with (length (run cfg init_state ops)) by apply run_length.
  rewrite parse_obs_enc.
  apply prop_code_full_run_mc. exact H.
Qed.
