(* C12 — proofs about the model (see Properties.v for the exported statements). *)
From Coq Require Import List ZArith Bool Lia.
From Verif Require Import C12.Model C12.Spec.
Import ListNotations.
Open Scope Z_scope.

Lemma lookup_set m k v k' : lookup (set m k v) k' = if k =? k' then Some v else lookup m k'.
Proof. reflexivity. Qed.
