(* C12 — wire decoding shared by the two streams (Extract.v, be/Extract.v); no proofs. *)
From Coq Require Import List ZArith Bool.
From Verif Require Import Lib.Wire C12.Model C12.Spec C12.Reconcile.
Import ListNotations.
Open Scope Z_scope.

Definition mk_fs (l : list Z) : fmap := combine (map Z.of_nat (seq 0 (length l))) l.

Record case := mkCase { c_env : env; c_fs : fmap; c_ops : list op; c_nf : nat }.
Definition empty_case : case := mkCase (mkEnv 0 [] []) [] [] 0.

Definition snapshot (nf : nat) (fs : fmap) : list Z := map (fun i => get fs (Z.of_nat i)) (seq 0 nf).

Definition enc_bobs (nf : nat) (b : bobs) : list Z :=
  Z.of_nat (length (fst b)) :: flat_map (fun w => [fst w; snd w]) (fst b) ++ snapshot nf (snd b).

Definition run_obs (c : case) : list Z :=
  flat_map (enc_bobs (c_nf c)) (run_hist (c_env c) (mkSt (c_fs c) []) (c_ops c)).

(* observable -> one (writes, final files) per call; [None] when it is malformed *)
Fixpoint dec_writes (n : nat) (l : list Z) : option (list write * list Z) :=
  match n with
  | O => Some ([], l)
  | S n' =>
      match l with
      | k :: v :: t => match dec_writes n' t with Some (ws, r) => Some ((k, v) :: ws, r) | None => None end
      | _ => None
      end
  end.

Fixpoint dec_obs (nf : nat) (nb : nat) (l : list Z) : option (list bobs) :=
  match nb with
  | O => match l with [] => Some [] | _ => None end
  | S nb' =>
      match l with
      | nw :: t =>
          if (nw <? 0) || (Z.of_nat (length t) <? 2 * nw) then None else
          match dec_writes (Z.to_nat nw) t with
          | Some (ws, r) =>
              if (length r <? nf)%nat then None else
              match dec_obs nf nb' (skipn nf r) with
              | Some bs => Some ((ws, mk_fs (firstn nf r)) :: bs)
              | None => None
              end
          | None => None
          end
      | [] => None
      end
  end.

Definition n_calls (ops : list op) : nat :=
  length (filter (fun o => match o with OExpire _ => false | _ => true end) ops).

Definition prop_of (c : case) (obs : list Z) : Z :=
  match dec_obs (c_nf c) (n_calls (c_ops c)) obs with
  | Some bs => hist_code (c_env c) (c_fs c) (c_ops c) bs
  | None => 9
  end.

(* non-trivial: a hierarchy with at least one edge, every call meets the hypotheses of the
   property, and the rewrite needs at least two writes *)
Fixpoint hyps_all (e : env) (st : state) (ops : list op) : bool :=
  match ops with
  | [] => true
  | o :: r =>
      (match o with
       | OBatch ls => hyps_ok e (sfs st) ls
       | OBe paths old new => be_hyps e (sfs st) paths (be_old (sfs st) paths old) new
       | ORec paths new => rec_hyps e (sfs st) paths new
       | OAdj paths procs milli =>
           be_hyps e (sfs st) paths (get (sfs st) (hd 0 paths)) (adj_new procs milli (get (sfs st) (hd 0 paths)))
       | OExpire _ => true
       | OCall ls => hyps_call e (sfs st) ls
       end)
      && hyps_all e (fst (step_op e st o)) r
  end.

Definition nontrivial_of (c : case) : bool :=
  let st := mkSt (c_fs c) [] in
  negb (match ehier (c_env c) with [] => true | _ => false end)
  && hyps_all (c_env c) st (c_ops c)
  && (2 <=? Z.of_nat (length (flat_map fst (run_hist (c_env c) st (c_ops c))))).

(* ---------- shapes of the known findings ----------
     (1 is retired: the literal "-1" written to cpu.max by the merge pass on cgroup v2 is not a
        violation of the property's text; finding_sig never returns 1)
     2  cgroup v2: cpu.max is rewritten although its quota is unchanged
     3  BE cpuset: a cgroup that already holds the target cpuset is rewritten (to old ∪ new and back)
     (calls of the modelled caller cgreconcile, [OCall], have no known shape) *)
Fixpoint offenders3 (e : env) (fs0 fs : fmap) (us : list updater) (ws : list write) : list (write * bool) :=
  match ws with
  | [] => []
  | w :: r => (if needed_write fs0 us w && negb (get fs (fst w) =? norm_at e (fst w) (snd w)) then []
               else [(w, negb (get fs (fst w) =? norm_at e (fst w) (snd w)))])
              ++ offenders3 e fs0 (apply_write e fs w) us r
  end.

Definition known_shape (e : env) (fs : fmap) (us : list updater) (ws : list write) (c : Z) : Z :=
  let off3 := map fst (offenders3 e fs fs us ws) in
  if (c =? 3) && forallb (fun w => on_q e (fst w)) off3 then 2 else 0.

Definition known_shape_be (e : env) (fs : fmap) (us : list updater) (ws : list write) (c : Z) : Z :=
  let off3 := offenders3 e fs fs us ws in
  (* every offending write changes the content of a file of the batch whose start value is the target *)
  if (c =? 3) && forallb (fun wb => snd wb && inb (fst (fst wb)) (map ukey us)) off3 then 3 else 0.

Fixpoint hist_sig (e : env) (fs : fmap) (ops : list op) (obs : list bobs) : Z :=
  match ops with
  | [] => 0
  | OExpire _ :: r => hist_sig e fs r obs
  | OBatch ls :: r =>
      match obs with
      | [] => 0
      | (ws, fin) :: obs' =>
          if hyps_ok e fs ls then
            let c := prop_code e fs ls ws fin in
            if c =? 0 then hist_sig e fin r obs' else known_shape e fs (concat ls) ws c
          else 0
      end
  | OBe paths old new :: r =>
      match obs with
      | [] => 0
      | (ws, fin) :: obs' =>
          if be_hyps e fs paths (be_old fs paths old) new then
            let c := prop_code e fs [be_updaters paths new] ws fin in
            if c =? 0 then hist_sig e fin r obs' else known_shape_be e fs (be_updaters paths new) ws c
          else 0
      end
  | ORec paths new :: r =>
      match obs with
      | [] => 0
      | (ws, fin) :: obs' =>
          if rec_hyps e fs paths new then
            let c := prop_code e fs [rec_updaters paths new] ws fin in
            if c =? 0 then hist_sig e fin r obs' else 0
          else 0
      end
  | OAdj paths procs milli :: r =>
      match obs with
      | [] => 0
      | (ws, fin) :: obs' =>
          let o := get fs (hd 0 paths) in
          let new := adj_new procs milli o in
          if be_hyps e fs paths o new then
            let c := prop_code e fs [be_updaters paths new] ws fin in
            if c =? 0 then hist_sig e fin r obs' else known_shape_be e fs (be_updaters paths new) ws c
          else 0
      end
  | OCall ls :: r =>
      match obs with
      | [] => 0
      | (ws, fin) :: obs' =>
          if hyps_call e fs ls then
            let c := prop_code e fs ls ws fin in
            if c =? 0 then hist_sig e fin r obs' else 0
          else 0
      end
  end.

Fixpoint eq_listZ (a b : list Z) : bool :=
  match a, b with
  | [], [] => true
  | x :: a', y :: b' => (x =? y) && eq_listZ a' b'
  | _, _ => false
  end.

(* a known-finding signature is only returned when the implementation's WHOLE observable of the
   case equals the faithful model's (so nothing else can hide behind a recorded shape) *)
Definition sig_of (c : case) (obs : list Z) : Z :=
  if eq_listZ (run_obs c) obs then
    match dec_obs (c_nf c) (n_calls (c_ops c)) obs with
    | Some bs => hist_sig (c_env c) (c_fs c) (c_ops c) bs
    | None => 0
    end
  else 0.

(* ---------- stream "leveled" ----------
   input : ver nd par[1..nd-1] nk kinds[nk] start[nd*nk] nops ops...
           op 0 = batch : 0 nl { nu { dir kindIndex value }*nu }*nl
           op 1 = expire: 1 dir kindIndex how *)
Fixpoint dec_updaters (nk : Z) (n : nat) (l : list Z) : list updater * list Z :=
  match n with
  | O => ([], l)
  | S n' =>
      match l with
      | d :: ki :: v :: t => let '(us, r) := dec_updaters nk n' t in (mkU (d * nk + ki) v :: us, r)
      | _ => ([], [])
      end
  end.

Fixpoint dec_levels (nk : Z) (n : nat) (l : list Z) : list (list updater) * list Z :=
  match n with
  | O => ([], l)
  | S n' =>
      match l with
      | nu :: t => let '(us, r) := dec_updaters nk (Z.to_nat nu) t in
                   let '(ls, r') := dec_levels nk n' r in (us :: ls, r')
      | [] => ([], [])
      end
  end.

Fixpoint dec_ops (nk : Z) (n : nat) (l : list Z) : list op :=
  match n with
  | O => []
  | S n' =>
      match l with
      | tag :: t =>
          if tag =? 0 then
            match t with
            | nl :: t' => let '(ls, r) := dec_levels nk (Z.to_nat nl) t' in OBatch ls :: dec_ops nk n' r
            | [] => []
            end
          else
            match t with
            | d :: ki :: _ :: t' => OExpire (d * nk + ki) :: dec_ops nk n' t'
            | _ => []
            end
      | [] => []
      end
  end.

Definition mk_env (ver nd nk : Z) (par kinds : list Z) : env :=
  let dirs := map Z.of_nat (seq 0 (Z.to_nat nd)) in
  let kis := map Z.of_nat (seq 0 (Z.to_nat nk)) in
  mkEnv ver
    (flat_map (fun d => map (fun ki => (d * nk + ki, nth (Z.to_nat ki) kinds 0)) kis) dirs)
    (flat_map (fun d => if d =? 0 then [] else
        map (fun ki => (d * nk + ki, nth (Z.to_nat d - 1) par 0 * nk + ki)) kis) dirs).

Definition decode_leveled (inp : list Z) : case :=
  match inp with
  | ver :: nd :: t =>
      let '(par, t1) := take_n (Z.to_nat nd - 1) t in
      match t1 with
      | nk :: t2 =>
          let '(kinds, t3) := take_n (Z.to_nat nk) t2 in
          let nf := (Z.to_nat nd * Z.to_nat nk)%nat in
          let '(start, t4) := take_n nf t3 in
          mkCase (mk_env ver nd nk par kinds) (mk_fs start)
                 (match t4 with nops :: t5 => dec_ops nk (Z.to_nat nops) t5 | [] => [] end) nf
      | [] => empty_case
      end
  | _ => empty_case
  end.

(* ---------- stream "be" ----------
   input : ver nd par[1..nd-1] start[nd] nops ops...     (directories numbered in walk order)
           op 0 = apply : 0 newset oldflag oldset
           op 1 = expire: 1 dir how
           op 2 = recover: 2 newset variant nex ex[nex]
                  variant 0: recoverCPUSetForBECPUManager — root and pods (depth <= 1) in walk order,
                             then the containers (depth 2) whose pod is not in ex (pods with a
                             specified cpuset), in walk order
                  variant 1: recoverCPUSetIfNeed(container depth) — every directory of depth <= 2
                  variant 2: recoverCPUSetIfNeed(pod depth) — every directory of depth <= 1
           op 3 = adjust: 3 procs milli   (adjustByCPUSet: processors = cpu ids of procs, each on its own
                  core; wanted = milli cpus; old and new are computed by the code from the files)
           op 4 = restart: 4             (fresh executor = every cache entry gone) *)
(* depth of every directory (par[d] < d) *)
Definition depths (nd : nat) (par : list Z) : list Z :=
  fold_left (fun ds d => ds ++ [if (d =? 0)%nat then 0 else nth (Z.to_nat (nth (d - 1) par 0)) ds 0 + 1])
            (seq 0 nd) [].

Definition rec_paths (nd : nat) (par : list Z) (variant : Z) (ex : list Z) : list Z :=
  let ds := depths nd par in
  let dirs := map Z.of_nat (seq 0 nd) in
  let dep d := nth (Z.to_nat d) ds 0 in
  let parent d := nth (Z.to_nat d - 1) par 0 in
  if variant =? 0 then
    filter (fun d => dep d <=? 1) dirs
    ++ filter (fun d => (dep d =? 2) && negb (existsb (Z.eqb (parent d)) ex)) dirs
  else if variant =? 1 then filter (fun d => dep d <=? 2) dirs
  else filter (fun d => dep d <=? 1) dirs.

Fixpoint dec_be_ops (nd : nat) (par : list Z) (paths : list Z) (n : nat) (l : list Z) : list op :=
  match n with
  | O => []
  | S n' =>
      match l with
      | tag :: t =>
          if tag =? 0 then
            match t with
            | new :: oldflag :: old :: t' =>
                OBe paths (if oldflag =? 0 then None else Some old) new :: dec_be_ops nd par paths n' t'
            | _ => []
            end
          else if tag =? 1 then
            match t with
            | d :: _ :: t' => OExpire d :: dec_be_ops nd par paths n' t'
            | _ => []
            end
          else if tag =? 2 then
            match t with
            | new :: variant :: nex :: t' =>
                ORec (rec_paths nd par variant (firstn (Z.to_nat nex) t')) new
                  :: dec_be_ops nd par paths n' (skipn (Z.to_nat nex) t')
            | _ => []
            end
          else if tag =? 3 then
            match t with
            | procs :: milli :: t' => OAdj paths procs milli :: dec_be_ops nd par paths n' t'
            | _ => []
            end
          else map OExpire paths ++ dec_be_ops nd par paths n' t
      | [] => []
      end
  end.

Definition decode_be (inp : list Z) : case :=
  match inp with
  | ver :: nd :: t =>
      let '(par, t1) := take_n (Z.to_nat nd - 1) t in
      let '(start, t2) := take_n (Z.to_nat nd) t1 in
      let paths := map Z.of_nat (seq 0 (Z.to_nat nd)) in
      mkCase (mk_env ver nd 1 par [0]) (mk_fs start)
             (match t2 with nops :: t3 => dec_be_ops (Z.to_nat nd) par paths (Z.to_nat nops) t3 | [] => [] end)
             (Z.to_nat nd)
  | _ => empty_case
  end.

(* ---------- stream "reconcile" ----------
   input : ver np {type nc}*np start[nd*3] nops ops...        (directories and files: see Reconcile.v)
           op 0 = round  : 0 nodeMem cfg[9] {active {req lim}*nc}*np
           op 1 = expire : 1 fileIndex how
           op 2 = restart: 2 *)
Fixpoint dec_shape (n : nat) (l : list Z) : shape * list Z :=
  match n with
  | O => ([], l)
  | S n' =>
      match l with
      | typ :: nc :: t => let '(sh, r) := dec_shape n' t in ((typ, Z.to_nat nc) :: sh, r)
      | _ => ([], [])
      end
  end.

Fixpoint dec_pairs (n : nat) (l : list Z) : list (Z * Z) * list Z :=
  match n with
  | O => ([], l)
  | S n' =>
      match l with
      | a :: b :: t => let '(ps, r) := dec_pairs n' t in ((a, b) :: ps, r)
      | _ => ([], [])
      end
  end.

Fixpoint dec_rpods (sh : shape) (l : list Z) : list rpod * list Z :=
  match sh with
  | [] => ([], l)
  | (_, nc) :: sh' =>
      match l with
      | act :: t =>
          let '(cs, r) := dec_pairs nc t in
          let '(ps, r') := dec_rpods sh' r in (mkRPod (act =? 1) cs :: ps, r')
      | [] => ([], [])
      end
  end.

Fixpoint dec_rc_ops (sh : shape) (files : list Z) (n : nat) (l : list Z) : list op :=
  match n with
  | O => []
  | S n' =>
      match l with
      | tag :: t =>
          if tag =? 0 then
            match t with
            | node :: t1 =>
                let '(cfg, t2) := take_n 9 t1 in
                let '(pods, t3) := dec_rpods sh t2 in
                OCall (rc_levels sh (mkRRound node cfg pods)) :: dec_rc_ops sh files n' t3
            | [] => []
            end
          else if tag =? 1 then
            match t with
            | f :: _ :: t' => OExpire f :: dec_rc_ops sh files n' t'
            | _ => []
            end
          else map OExpire files ++ dec_rc_ops sh files n' t
      | [] => []
      end
  end.

Definition decode_rc (inp : list Z) : case :=
  match inp with
  | ver :: np :: t =>
      let '(sh, t1) := dec_shape (Z.to_nat np) t in
      let nf := (rc_ndirs sh * 3)%nat in
      let '(start, t2) := take_n nf t1 in
      let files := map Z.of_nat (seq 0 nf) in
      mkCase (rc_env ver sh) (mk_fs start)
             (match t2 with nops :: t3 => dec_rc_ops sh files (Z.to_nat nops) t3 | [] => [] end) nf
  | _ => empty_case
  end.
