(* C12, stream "reconcile" — the four entry points of the generic OCaml driver
   (wire formats: see Codec.v). *)
From Coq Require Import List ZArith Bool.
From Verif Require Import C12.Model C12.Spec C12.Codec.

Definition run_case (inp : list Z) : list Z := run_obs (decode_rc inp).
Definition prop_case (inp obs : list Z) : Z := prop_of (decode_rc inp) obs.
Definition nontrivial_case (inp : list Z) : bool := nontrivial_of (decode_rc inp).
Definition finding_sig (inp obs : list Z) : Z := sig_of (decode_rc inp) obs.

Require Extraction.
Require Import ExtrOcamlBasic.
Extraction "model.ml" run_case prop_case nontrivial_case finding_sig.
