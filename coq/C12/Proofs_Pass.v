(* C12 — the two-pass argument, independent of what the first pass writes:
     pass 1 raises the files one by one, parents before children, to an intermediate value J
            that lies above both the old and the new value and is monotone along the hierarchy;
     pass 2 lowers them one by one, children before parents, to the new value.
   Every intermediate file system is a valid hierarchy ([mid1], [mid2]); [two_pass] lifts this to
   the write trace of [run step1 ; run exact_step]. *)
From Coq Require Import List ZArith Bool Lia ZifyBool.
From Verif Require Import C12.Model C12.Spec C12.Proofs_Lattice C12.Proofs_Steps.
Import ListNotations.
Open Scope Z_scope.

(* validity as a Prop over the content function *)
Definition validF (e : env) (F : Z -> Z) : Prop :=
  forall c p, In (c, p) (ehier e) -> vle (kindof e c) (F c) (F p) = true.

Lemma validb_validF e fs : validb e fs = true <-> validF e (get fs).
Proof.
  unfold validb, validF. rewrite forallb_forall. split.
  - intros H c p Hin. apply (H (c, p) Hin).
  - intros H [c p] Hin. apply (H c p Hin).
Qed.

Lemma validF_ext e F G : (forall k, F k = G k) -> validF e F -> validF e G.
Proof. intros HE HF c p Hin. rewrite <- !HE. apply HF. exact Hin. Qed.

Definition kinds_ok (e : env) : Prop := forall c p, In (c, p) (ehier e) -> kindof e c = kindof e p.

Lemma env_ok_kinds e : env_ok e = true -> kinds_ok e.
Proof.
  unfold env_ok, kinds_ok. rewrite forallb_forall. intros H c p Hin.
  specialize (H (c, p) Hin). cbn [fst snd] in H. lia.
Qed.

Section Mid.
  Variable e : env.
  Variables old new J : Z -> Z.
  Hypothesis Hk : kinds_ok e.
  Hypothesis Hold : validF e old.
  Hypothesis Hnew : validF e new.
  Hypothesis HoJ : forall k, vle (kindof e k) (old k) (J k) = true.
  Hypothesis HnJ : forall k, vle (kindof e k) (new k) (J k) = true.
  Hypothesis HJm : validF e J.

  (* pass 1: the raised set D is closed towards the root (or the parent is not raised at all) *)
  Lemma mid1 (D : Z -> bool) :
    (forall c p, In (c, p) (ehier e) -> D c = true -> D p = true \/ J p = old p) ->
    validF e (fun k => if D k then J k else old k).
  Proof.
    intros HD c p Hin. specialize (HD c p Hin).
    destruct (D c) eqn:Dc, (D p) eqn:Dp.
    - apply HJm; exact Hin.
    - destruct (HD eq_refl) as [H|H]; [discriminate|]. rewrite <- H. apply HJm; exact Hin.
    - apply vle_trans with (old p); [apply Hold; exact Hin|]. rewrite (Hk _ _ Hin). apply HoJ.
    - apply Hold; exact Hin.
  Qed.

  (* pass 2: the lowered set E is closed towards the leaves (or the child is not lowered at all) *)
  Lemma mid2 (E : Z -> bool) :
    (forall c p, In (c, p) (ehier e) -> E p = true -> E c = true \/ J c = new c) ->
    validF e (fun k => if E k then new k else J k).
  Proof.
    intros HE c p Hin. specialize (HE c p Hin).
    destruct (E c) eqn:Ec, (E p) eqn:Ep.
    - apply Hnew; exact Hin.
    - apply vle_trans with (new p); [apply Hnew; exact Hin|]. rewrite (Hk _ _ Hin). apply HnJ.
    - destruct (HE eq_refl) as [H|H]; [discriminate|]. rewrite H. apply Hnew; exact Hin.
    - apply HJm; exact Hin.
  Qed.
End Mid.

Section TwoPass.
  Variable e : env.
  Variable step1 : state -> updater -> state * list write.
  Variables us1 us2 : list updater.
  Variables old new J : Z -> Z.
  Variable st : state.

  Hypothesis Hk : kinds_ok e.
  Hypothesis Hold : validF e old.
  Hypothesis Hnew : validF e new.
  Hypothesis HoJ : forall k, vle (kindof e k) (old k) (J k) = true.
  Hypothesis HnJ : forall k, vle (kindof e k) (new k) (J k) = true.
  Hypothesis HJm : validF e J.
  Hypothesis Hst : forall k, get (sfs st) k = old k.
  Hypothesis Hcoh : coherent_st st.
  Hypothesis Hnd1 : NoDup (map ukey us1).
  Hypothesis Hnd2 : NoDup (map ukey us2).
  Hypothesis Hsame : forall k, In k (map ukey us1) <-> In k (map ukey us2).
  Hypothesis Hout : forall k, ~ In k (map ukey us1) -> J k = old k /\ new k = old k.
  Hypothesis Hstep1 : forall s u, coherent_st s -> In u us1 /\ get (sfs s) (ukey u) = old (ukey u) ->
                                  step_rel e J s u (step1 s u).
  Hypothesis Hus2 : forall u, In u us2 -> uval u = new (ukey u) /\ -1 <= uval u.
  (* order of the two passes relative to the hierarchy *)
  Hypothesis Hord1 : forall c p, In (c, p) (ehier e) -> In p (map ukey us1) ->
    forall a b, map ukey us1 = a ++ b -> In c a -> In p a.
  Hypothesis Hord2 : forall c p, In (c, p) (ehier e) -> In c (map ukey us2) ->
    forall a b, map ukey us2 = a ++ b -> In p a -> In c a.

  Let r1 := run step1 st us1.
  Let s1 := fst r1.
  Let r2 := run (exact_step e) s1 us2.
  Let ws := snd r1 ++ snd r2.

  Lemma pass1_spec :
    coherent_st s1
    /\ (forall k, get (sfs s1) k = J k)
    /\ (forall k, inb k (map ukey us1) = false -> lookup (scache s1) k = lookup (scache st) k)
    /\ sfs s1 = apply_writes e (snd r1) (sfs st)
    /\ (forall pre w suf, snd r1 = pre ++ w :: suf ->
          exists a u b, us1 = a ++ u :: b /\ fst w = ukey u
            /\ (forall k, get (apply_writes e pre (sfs st)) k = if inb k (map ukey a) then J k else old k)
            /\ norm_at e (ukey u) (snd w) = J (ukey u)
            /\ (on_q e (ukey u) = false -> J (ukey u) <> old (ukey u))
            /\ (snd w = J (ukey u) \/ (on_q e (ukey u) = true /\ snd w = -2))).
  Proof.
    destruct (run_spec e step1 J (fun u v => In u us1 /\ v = old (ukey u)) Hstep1 us1 st Hnd1 Hcoh)
      as (Hc & Hfs & Hcf & Happ & Hpos).
    { intros u Hin. split; [exact Hin|apply Hst]. }
    split; [exact Hc|]. split; [|split; [exact Hcf|split; [exact Happ|]]].
    - intros k. fold r1 s1 in Hfs. rewrite Hfs. unfold after.
      destruct (inb k (map ukey us1)) eqn:E; [reflexivity|].
      rewrite Hst. symmetry. apply Hout. apply inb_false. exact E.
    - intros pre w suf Hsplit. destruct (Hpos _ _ _ Hsplit) as (a & u & b & Hus & Hw & Hpre & Hn & Hne & Hcode).
      exists a, u, b. split; [exact Hus|]. split; [exact Hw|]. split; [|split; [exact Hn|split; [|exact Hcode]]].
      + intros k. rewrite Hpre. unfold after. rewrite Hst. reflexivity.
      + intros Q. rewrite <- Hst. apply Hne. exact Q.
  Qed.

  Lemma pass2_spec :
    coherent_st (fst r2)
    /\ (forall k, get (sfs (fst r2)) k = new k)
    /\ (forall k, inb k (map ukey us1) = false -> lookup (scache (fst r2)) k = lookup (scache st) k)
    /\ sfs (fst r2) = apply_writes e ws (sfs st)
    /\ (forall pre w suf, snd r2 = pre ++ w :: suf ->
          exists a u b, us2 = a ++ u :: b /\ fst w = ukey u
            /\ (forall k, get (apply_writes e (snd r1 ++ pre) (sfs st)) k
                          = if inb k (map ukey a) then new k else J k)
            /\ norm_at e (ukey u) (snd w) = new (ukey u)
            /\ (on_q e (ukey u) = false -> new (ukey u) <> J (ukey u))
            /\ (snd w = new (ukey u) \/ (on_q e (ukey u) = true /\ snd w = -2))).
  Proof.
    destruct pass1_spec as (Hc1 & Hfs1 & Hcf1 & Happ1 & _).
    assert (Hstep2 : forall s u, coherent_st s -> In u us2 -> step_rel e new s u (exact_step e s u)).
    { intros s u Hc Hin. destruct (Hus2 u Hin) as [Hv Hge]. apply exact_step_rel; auto. }
    destruct (run_spec e (exact_step e) new (fun u _ => In u us2) Hstep2 us2 s1 Hnd2 Hc1)
      as (Hc & Hfs & Hcf & Happ & Hpos).
    { intros u Hin. exact Hin. }
    fold r2 in Hc, Hfs, Hcf, Happ, Hpos.
    assert (Hmem : forall k, inb k (map ukey us2) = inb k (map ukey us1)).
    { intros k. destruct (inb k (map ukey us1)) eqn:E.
      - apply inb_In. apply Hsame. apply inb_In. exact E.
      - apply inb_false. intros H. apply Hsame in H. apply inb_false in E. contradiction. }
    split; [exact Hc|]. split; [|split; [|split]].
    - intros k. rewrite Hfs. unfold after. rewrite Hmem.
      destruct (inb k (map ukey us1)) eqn:E; [reflexivity|].
      rewrite Hfs1. apply inb_false in E. destruct (Hout k E) as [H1 H2]. congruence.
    - intros k Hki. rewrite Hcf by (rewrite Hmem; exact Hki). apply Hcf1. exact Hki.
    - unfold ws. rewrite apply_writes_app, <- Happ1. exact Happ.
    - intros pre w suf Hsplit. destruct (Hpos _ _ _ Hsplit) as (a & u & b & Hus & Hw & Hpre & Hn & Hne & Hcode).
      exists a, u, b. split; [exact Hus|]. split; [exact Hw|]. split; [|split; [exact Hn|split; [|exact Hcode]]].
      + intros k. rewrite apply_writes_app, <- Happ1, Hpre. unfold after. rewrite Hfs1. reflexivity.
      + intros Q. rewrite <- Hfs1. apply Hne. exact Q.
  Qed.

  (* the file system in front of every single write is a valid hierarchy *)
  Lemma before_write_valid pre w suf :
    ws = pre ++ w :: suf -> validF e (get (apply_writes e pre (sfs st))).
  Proof.
    intros Hsplit. unfold ws in Hsplit.
    destruct pass1_spec as (_ & _ & _ & _ & Hpos1).
    destruct pass2_spec as (_ & _ & _ & _ & Hpos2).
    apply app_eq_app in Hsplit. destruct Hsplit as [l [[H1 H2]|[H1 H2]]].
    - (* snd r1 = pre ++ l *)
      destruct l as [|x l'].
      + (* the write is the first one of pass 2 *)
        cbn [app] in H2. rewrite app_nil_r in H1. symmetry in H2.
        destruct (Hpos2 [] w suf H2) as (a & u & b & Hus & _ & Hpre & _).
        rewrite app_nil_r, H1 in Hpre.
        apply validF_ext with (fun k => if inb k (map ukey a) then new k else J k); [intros; symmetry; apply Hpre|].
        apply mid2; auto. intros c p Hin Ep. apply inb_In in Ep.
        destruct (in_dec Z.eq_dec c (map ukey us2)) as [Hc|Hc].
        * left. apply inb_In. apply (Hord2 c p Hin Hc (map ukey a) (map ukey (u :: b))); [|exact Ep].
          rewrite Hus, map_app. reflexivity.
        * right. rewrite <- Hsame in Hc. destruct (Hout c Hc). congruence.
      + cbn [app] in H2. inversion H2; subst x.
        destruct (Hpos1 pre w l' H1) as (a & u & b & Hus & _ & Hpre & _).
        apply validF_ext with (fun k => if inb k (map ukey a) then J k else old k); [intros; symmetry; apply Hpre|].
        apply mid1; auto. intros c p Hin Dc. apply inb_In in Dc.
        destruct (in_dec Z.eq_dec p (map ukey us1)) as [Hp|Hp].
        * left. apply inb_In. apply (Hord1 c p Hin Hp (map ukey a) (map ukey (u :: b))); [|exact Dc].
          rewrite Hus, map_app. reflexivity.
        * right. apply Hout. exact Hp.
    - (* pre = snd r1 ++ l, the write belongs to pass 2 *)
      destruct (Hpos2 l w suf H2) as (a & u & b & Hus & _ & Hpre & _).
      rewrite <- H1 in Hpre.
      apply validF_ext with (fun k => if inb k (map ukey a) then new k else J k); [intros; symmetry; apply Hpre|].
      apply mid2; auto. intros c p Hin Ep. apply inb_In in Ep.
      destruct (in_dec Z.eq_dec c (map ukey us2)) as [Hc|Hc].
      + left. apply inb_In. apply (Hord2 c p Hin Hc (map ukey a) (map ukey (u :: b))); [|exact Ep].
        rewrite Hus, map_app. reflexivity.
      + right. rewrite <- Hsame in Hc. destruct (Hout c Hc). congruence.
  Qed.

  Theorem two_pass_prefix_valid : every_prefix_valid e (sfs st) ws.
  Proof.
    intros pre suf Hsplit. apply validb_validF. destruct suf as [|w suf'].
    - rewrite app_nil_r in Hsplit. subst pre.
      destruct pass2_spec as (_ & Hfs & _ & Happ & _). rewrite <- Happ.
      apply validF_ext with new; [intros; symmetry; apply Hfs|exact Hnew].
    - apply (before_write_valid pre w suf'). exact Hsplit.
  Qed.

  Theorem two_pass_final : forall k, get (sfs (fst r2)) k = new k.
  Proof. apply pass2_spec. Qed.

  Theorem two_pass_coherent : coherent_st (fst r2).
  Proof. apply pass2_spec. Qed.

  Theorem two_pass_cache_frame :
    forall k, inb k (map ukey us1) = false -> lookup (scache (fst r2)) k = lookup (scache st) k.
  Proof. apply pass2_spec. Qed.

  Theorem two_pass_apply : sfs (fst r2) = apply_writes e ws (sfs st).
  Proof. apply pass2_spec. Qed.

  (* every write: which file, what it held just before, what was written *)
  Theorem two_pass_writes pre w suf :
    ws = pre ++ w :: suf ->
    In (fst w) (map ukey us1)
    /\ (on_q e (fst w) = false ->
          get (apply_writes e pre (sfs st)) (fst w) <> norm_at e (fst w) (snd w)
          /\ (J (fst w) <> old (fst w) \/ new (fst w) <> J (fst w)))
    /\ (snd w = J (fst w) \/ snd w = new (fst w) \/ (on_q e (fst w) = true /\ snd w = -2)).
  Proof.
    intros Hsplit. unfold ws in Hsplit.
    destruct pass1_spec as (_ & _ & _ & _ & Hpos1).
    destruct pass2_spec as (_ & _ & _ & _ & Hpos2).
    assert (Hcase : (exists l', snd r1 = pre ++ w :: l') \/ (exists l, pre = snd r1 ++ l /\ snd r2 = l ++ w :: suf)).
    { apply app_eq_app in Hsplit. destruct Hsplit as [l [[H1 H2]|[H1 H2]]].
      - destruct l as [|x l'].
        + right. exists []. rewrite app_nil_r in H1. cbn [app] in *. split; [rewrite app_nil_r; congruence|congruence].
        + left. cbn [app] in H2. inversion H2; subst x. exists l'. exact H1.
      - right. exists l. split; congruence. }
    destruct Hcase as [[l' H1]|[l [H1 H2]]].
    - destruct (Hpos1 pre w l' H1) as (a & u & b & Hus & Hw & Hpre & Hn & Hne & Hcode).
      assert (Hnotin : ~ In (ukey u) (map ukey a)).
      { rewrite Hus, map_app in Hnd1. cbn [map] in Hnd1. apply NoDup_remove_2 in Hnd1.
        intros H. apply Hnd1. apply in_or_app. left. exact H. }
      rewrite Hw. split; [|split].
      + rewrite Hus, map_app. apply in_or_app. right. left. reflexivity.
      + intros Q. split; [|left; apply Hne; exact Q].
        rewrite Hpre, Hn. apply inb_false in Hnotin. rewrite Hnotin.
        intros E. apply (Hne Q). congruence.
      + destruct Hcode as [H|H]; [left; exact H|right; right; exact H].
    - destruct (Hpos2 l w suf H2) as (a & u & b & Hus & Hw & Hpre & Hn & Hne & Hcode).
      assert (Hnotin : ~ In (ukey u) (map ukey a)).
      { rewrite Hus, map_app in Hnd2. cbn [map] in Hnd2. apply NoDup_remove_2 in Hnd2.
        intros H. apply Hnd2. apply in_or_app. left. exact H. }
      rewrite Hw. split; [|split].
      + apply Hsame. rewrite Hus, map_app. apply in_or_app. right. left. reflexivity.
      + intros Q. split; [|right; apply Hne; exact Q].
        rewrite H1, Hpre, Hn. apply inb_false in Hnotin. rewrite Hnotin.
        intros E. apply (Hne Q). congruence.
      + destruct Hcode as [H|H]; [right; left; exact H|right; right; exact H].
  Qed.
  (* everything at once (so that the statement depends on every hypothesis of the section) *)
  Theorem two_pass_all :
    every_prefix_valid e (sfs st) ws
    /\ (forall k, get (sfs (fst r2)) k = new k)
    /\ coherent_st (fst r2)
    /\ (forall k, inb k (map ukey us1) = false -> lookup (scache (fst r2)) k = lookup (scache st) k)
    /\ sfs (fst r2) = apply_writes e ws (sfs st)
    /\ (forall pre w suf, ws = pre ++ w :: suf ->
          In (fst w) (map ukey us1)
          /\ (on_q e (fst w) = false ->
                get (apply_writes e pre (sfs st)) (fst w) <> norm_at e (fst w) (snd w)
                /\ (J (fst w) <> old (fst w) \/ new (fst w) <> J (fst w)))
          /\ (snd w = J (fst w) \/ snd w = new (fst w) \/ (on_q e (fst w) = true /\ snd w = -2))).
  Proof.
    split; [exact two_pass_prefix_valid|]. split; [exact two_pass_final|].
    split; [exact two_pass_coherent|]. split; [exact two_pass_cache_frame|].
    split; [exact two_pass_apply|]. exact two_pass_writes.
  Qed.
End TwoPass.
