(* C12 — recoverCPUSetForBECPUManager / recoverCPUSetIfNeed: a single top-down pass that grows
   every walked cgroup to the recovered cpuset. Every intermediate file system is [mid1] with
   J = the recovered set on the walked paths. *)
From Coq Require Import List ZArith Bool Lia ZifyBool.
From Verif Require Import C12.Model C12.Spec C12.Proofs_Lattice C12.Proofs_Steps C12.Proofs_Pass
  C12.Proofs_Leveled C12.Proofs_Be.
Import ListNotations.
Open Scope Z_scope.

Record rhyps (e : env) (fs : fmap) (paths : list Z) (new : Z) : Prop := mkRHyps {
  r_kinds : kinds_ok e;
  r_start : validF e (get fs);
  r_nodup : NoDup paths;
  r_edges : forall c p, In (c, p) (ehier e) -> In c paths ->
              (In p paths /\ (pos p paths < pos c paths)%nat)
              \/ (~ In p paths /\ vle (kindof e c) new (get fs p) = true);
  r_paths : forall p, In p paths -> kindof e p = 0 /\ vle 0 (get fs p) new = true /\ In p (files_of e);
  r_new : 0 <= new }.

Lemma rec_hyps_rhyps e fs paths new : rec_hyps e fs paths new = true -> rhyps e fs paths new.
Proof.
  unfold rec_hyps. rewrite !andb_true_iff. intros [[[[[H1 H2] H3] H4] H5] H6].
  constructor.
  - apply env_ok_kinds; exact H1.
  - apply validb_validF; exact H2.
  - apply nodupb_NoDup; exact H3.
  - rewrite forallb_forall in H4. intros c p Hin Hc. specialize (H4 (c, p) Hin). cbn [fst snd] in H4.
    apply inb_In in Hc. rewrite Hc in H4. cbn [negb orb] in H4.
    destruct (inb p paths) eqn:Ep.
    + left. split; [apply inb_In; exact Ep|apply Nat.ltb_lt; exact H4].
    + right. split; [apply inb_false; exact Ep|exact H4].
  - rewrite forallb_forall in H5. intros p Hin. specialize (H5 p Hin).
    rewrite !andb_true_iff in H5. destruct H5 as [[Ha Hb] Hc].
    split; [lia|]. split; [exact Hb|apply inb_In; exact Hc].
  - lia.
Qed.

Section Rec.
  Variable e : env.
  Variable st : state.
  Variable paths : list Z.
  Variable newset : Z.
  Hypothesis H : rhyps e (sfs st) paths newset.
  Hypothesis Hcoh : coherent_st st.

  Let us := rec_updaters paths newset.
  Let old := get (sfs st).
  Let J := fun k => if inb k paths then newset else old k.

  Lemma rc_keys : map ukey us = paths.
  Proof. unfold us, rec_updaters. rewrite map_map. cbn [ukey]. apply map_id. Qed.

  Lemma rc_kind k : In k paths -> kindof e k = 0.
  Proof. intros Hk. apply (r_paths _ _ _ _ H k Hk). Qed.

  Lemma rc_oJ k : vle (kindof e k) (old k) (J k) = true.
  Proof.
    unfold J. destruct (inb k paths) eqn:E; [|apply vle_refl].
    apply inb_In in E. rewrite (rc_kind k E). apply (r_paths _ _ _ _ H k E).
  Qed.

  Lemma rc_Jm : validF e J.
  Proof.
    intros c p Hin. pose proof (r_kinds _ _ _ _ H c p Hin) as Hkp.
    unfold J. destruct (inb c paths) eqn:Ec.
    - apply inb_In in Ec. destruct (r_edges _ _ _ _ H c p Hin Ec) as [[Hp _]|[Hp Hv]].
      + apply inb_In in Hp. rewrite Hp. apply vle_refl.
      + apply inb_false in Hp. rewrite Hp. exact Hv.
    - destruct (inb p paths) eqn:Ep.
      + apply inb_In in Ep. apply vle_trans with (old p); [apply (r_start _ _ _ _ H c p Hin)|].
        rewrite Hkp, (rc_kind p Ep). apply (r_paths _ _ _ _ H p Ep).
      + apply (r_start _ _ _ _ H c p Hin).
  Qed.

  Lemma rc_step s u : coherent_st s -> In u us -> step_rel e J s u (exact_step e s u).
  Proof.
    intros Hc Hu. unfold us, rec_updaters in Hu. apply in_map_iff in Hu. destruct Hu as [p [<- Hp]].
    apply exact_step_rel; cbn [ukey uval]; [exact Hc|pose proof (r_new _ _ _ _ H); lia|].
    unfold J. apply inb_In in Hp. rewrite Hp. reflexivity.
  Qed.

  Let res := rec_apply e st paths newset.

  Lemma rc_run :
    coherent_st (fst res)
    /\ (forall k, get (sfs (fst res)) k = J k)
    /\ sfs (fst res) = apply_writes e (snd res) (sfs st)
    /\ (forall pre w suf, snd res = pre ++ w :: suf ->
          exists a u b, us = a ++ u :: b /\ fst w = ukey u
            /\ (forall k, get (apply_writes e pre (sfs st)) k = if inb k (map ukey a) then J k else old k)
            /\ norm_at e (ukey u) (snd w) = J (ukey u)
            /\ (on_q e (ukey u) = false -> J (ukey u) <> old (ukey u))).
  Proof.
    assert (Hnd : NoDup (map ukey us)) by (rewrite rc_keys; apply (r_nodup _ _ _ _ H)).
    destruct (run_spec e (exact_step e) J (fun u _ => In u us) rc_step us st Hnd Hcoh (fun u Hu => Hu))
      as (Hc & Hfs & _ & Happ & Hpos).
    split; [exact Hc|]. split; [|split; [exact Happ|]].
    - intros k. unfold res, rec_apply. fold us. rewrite Hfs. unfold after. rewrite rc_keys.
      unfold J. destruct (inb k paths); reflexivity.
    - intros pre w suf Hs. destruct (Hpos pre w suf Hs) as (a & u & b & Hus & Hw & Hpre & Hn & Hne & _).
      exists a, u, b. split; [exact Hus|]. split; [exact Hw|]. split; [|split; [exact Hn|exact Hne]].
      intros k. rewrite Hpre. reflexivity.
  Qed.

  Lemma rc_noq k : In k paths -> on_q e k = false.
  Proof. intros Hk. unfold on_q, is_q. rewrite (rc_kind k Hk). lia. Qed.

  Theorem rec_prefix_valid : every_prefix_valid e (sfs st) (snd res).
  Proof.
    destruct rc_run as (_ & Hfs & Happ & Hpos).
    intros pre suf Hs. apply validb_validF. destruct suf as [|w suf'].
    - rewrite app_nil_r in Hs. subst pre. rewrite <- Happ.
      apply validF_ext with J; [intros; symmetry; apply Hfs|apply rc_Jm].
    - destruct (Hpos pre w suf' Hs) as (a & u & b & Hus & _ & Hpre & _).
      apply validF_ext with (fun k => if inb k (map ukey a) then J k else old k); [intros; symmetry; apply Hpre|].
      apply (mid1 e old J (r_kinds _ _ _ _ H) (r_start _ _ _ _ H) rc_oJ rc_Jm).
      intros c p Hin Dc. apply inb_In in Dc.
      assert (Hsplit : paths = map ukey a ++ map ukey (u :: b)) by (rewrite <- rc_keys, Hus, map_app; reflexivity).
      assert (Hc : In c paths) by (rewrite Hsplit; apply in_or_app; left; exact Dc).
      destruct (r_edges _ _ _ _ H c p Hin Hc) as [[_ Hlt]|[Hp _]].
      + left. apply inb_In. apply (pos_prefix_closed paths p c _ _ Hlt Hsplit Dc).
      + right. unfold J. apply inb_false in Hp. rewrite Hp. reflexivity.
  Qed.

  Theorem rec_final : forall k, get (sfs (fst res)) k = if inb k paths then newset else get (sfs st) k.
  Proof. apply rc_run. Qed.

  Theorem rec_coherent : coherent_st (fst res).
  Proof. apply rc_run. Qed.

  Theorem rec_apply_writes : sfs (fst res) = apply_writes e (snd res) (sfs st).
  Proof. apply rc_run. Qed.

  Theorem rec_valid_after : validb e (sfs (fst res)) = true.
  Proof.
    apply validb_validF. apply validF_ext with J; [intros k; symmetry; apply rec_final|apply rc_Jm].
  Qed.

  (* only walked cgroups whose cpuset differs from the recovered one are written, once, and every
     write changes the content *)
  Theorem rec_no_redundant : no_redundant e (sfs st) (rec_updaters paths newset) (snd res).
  Proof.
    destruct rc_run as (_ & _ & _ & Hpos).
    assert (Hw : forall pre w suf, snd res = pre ++ w :: suf ->
               In (fst w) paths /\ get (sfs st) (fst w) <> newset
               /\ get (apply_writes e pre (sfs st)) (fst w) <> norm_at e (fst w) (snd w)).
    { intros pre w suf Hs. destruct (Hpos pre w suf Hs) as (a & u & b & Hus & Hk & Hpre & Hn & Hne).
      assert (Hin : In (ukey u) paths).
      { rewrite <- rc_keys, Hus, map_app. apply in_or_app. right. left. reflexivity. }
      assert (Hnotin : ~ In (ukey u) (map ukey a)).
      { pose proof (r_nodup _ _ _ _ H) as Hnd. rewrite <- rc_keys, Hus, map_app in Hnd. cbn [map] in Hnd.
        apply NoDup_remove_2 in Hnd. intros Hx. apply Hnd. apply in_or_app. left. exact Hx. }
      specialize (Hne (rc_noq _ Hin)). unfold J, old in Hne, Hn.
      pose proof Hin as Hin'. apply inb_In in Hin'. rewrite Hin' in Hne, Hn.
      rewrite Hk. split; [exact Hin|]. split; [congruence|].
      rewrite Hpre, Hn. apply inb_false in Hnotin. rewrite Hnotin. unfold old. congruence. }
    split.
    - intros w Hin. apply in_split in Hin. destruct Hin as (pre & suf & Hs).
      destruct (Hw pre w suf Hs) as (Hp & Hne & _). fold us. rewrite rc_keys. split; [exact Hp|].
      unfold target_val. fold us.
      assert (Hu : In (mkU (fst w) newset) us) by (unfold us, rec_updaters; apply in_map_iff; exists (fst w); auto).
      pose proof (target_of_in us (sfs st) _ (eq_ind_r (fun l => NoDup l) (r_nodup _ _ _ _ H) rc_keys) Hu) as Ht.
      cbn [ukey uval] in Ht. rewrite Ht. exact Hne.
    - intros pre w suf Hs. apply (Hw pre w suf Hs).
  Qed.
End Rec.
