(* C12 — finite-map lemmas, the relational specification of one executor step, and the
   characterisation of a whole pass ([run]) including every intermediate file system. *)
From Coq Require Import List ZArith Bool Lia ZifyBool.
From Verif Require Import C12.Model C12.Spec C12.Proofs_Lattice.
Import ListNotations.
Open Scope Z_scope.

(* ---------- maps ---------- *)
Lemma lookup_set m k v k' : lookup (set m k v) k' = if k =? k' then Some v else lookup m k'.
Proof. reflexivity. Qed.

Lemma get_set m k v k' : get (set m k v) k' = if k =? k' then v else get m k'.
Proof. unfold get. rewrite lookup_set. destruct (k =? k'); reflexivity. Qed.

Lemma lookup_del m k k' : lookup (del m k) k' = if k =? k' then None else lookup m k'.
Proof.
  induction m as [|[a v] m IH]; cbn [del filter lookup fst].
  - destruct (k =? k'); reflexivity.
  - destruct (a =? k) eqn:E1; cbn [negb].
    + fold (del m k). rewrite IH. apply Z.eqb_eq in E1. subst a.
      destruct (k =? k'); reflexivity.
    + cbn [lookup]. fold (del m k). rewrite IH.
      destruct (a =? k') eqn:E2; [|reflexivity].
      apply Z.eqb_eq in E2. subst a. rewrite Z.eqb_sym, E1. reflexivity.
Qed.

Lemma get_apply_write e fs w k :
  get (apply_write e fs w) k = if fst w =? k then norm_at e (fst w) (snd w) else get fs k.
Proof. unfold apply_write. apply get_set. Qed.

Lemma apply_writes_app e a b fs : apply_writes e (a ++ b) fs = apply_writes e b (apply_writes e a fs).
Proof. unfold apply_writes. apply fold_left_app. Qed.

Lemma apply_writes_cons e w r fs : apply_writes e (w :: r) fs = apply_writes e r (apply_write e fs w).
Proof. reflexivity. Qed.

Lemma inb_In x l : inb x l = true <-> In x l.
Proof.
  unfold inb. rewrite existsb_exists. split.
  - intros [y [Hy E]]. apply Z.eqb_eq in E. subst. exact Hy.
  - intros H. exists x. split; [exact H|apply Z.eqb_refl].
Qed.

Lemma inb_false x l : inb x l = false <-> ~ In x l.
Proof.
  rewrite <- inb_In. destruct (inb x l); split; intros; try congruence; try reflexivity.
Qed.

Lemma inb_cons x y l : inb x (y :: l) = (x =? y) || inb x l.
Proof. reflexivity. Qed.

Lemma inb_app x a b : inb x (a ++ b) = inb x a || inb x b.
Proof. unfold inb. apply existsb_app. Qed.

Lemma nodupb_NoDup l : nodupb l = true <-> NoDup l.
Proof.
  induction l as [|x l IH]; cbn [nodupb].
  - split; [constructor|reflexivity].
  - rewrite andb_true_iff, negb_true_iff, inb_false, IH. split.
    + intros [H1 H2]. constructor; assumption.
    + intros H. inversion H. split; assumption.
Qed.

(* norm_at is the identity except for the literal "-1" in cpu.max *)
Lemma on_q_not_set e k : on_q e k = true -> is_set (kindof e k) = false.
Proof. unfold on_q, is_q, is_set. lia. Qed.

Lemma norm_at_id e k v : (on_q e k = true -> v <> -2) -> norm_at e k v = v.
Proof. unfold norm_at. intros H. destruct (on_q e k); cbn [andb]; [|reflexivity].
  destruct (v =? -2) eqn:E; [|reflexivity]. apply Z.eqb_eq in E. exfalso. apply H; auto. Qed.

(* ---------- one step ---------- *)
Definition coherent_st (st : state) : Prop := coherent (scache st) (sfs st).

(* [g k] is the value file [k] holds after the step on its updater *)
Definition step_rel (e : env) (g : Z -> Z) (st : state) (u : updater) (r : state * list write) : Prop :=
  (forall k', get (sfs (fst r)) k' = if ukey u =? k' then g (ukey u) else get (sfs st) k')
  /\ (forall k', k' <> ukey u -> lookup (scache (fst r)) k' = lookup (scache st) k')
  /\ (forall c, lookup (scache (fst r)) (ukey u) = Some c -> -1 <= c -> c = g (ukey u))
  /\ sfs (fst r) = apply_writes e (snd r) (sfs st)
  /\ (snd r = [] \/
      exists code, snd r = [(ukey u, code)]
        /\ norm_at e (ukey u) code = g (ukey u)
        /\ (on_q e (ukey u) = false -> g (ukey u) <> get (sfs st) (ukey u))
        /\ (code = g (ukey u) \/ (on_q e (ukey u) = true /\ code = -2))).

Lemma need_update_false c u :
  need_update c u = false -> lookup c (ukey u) = Some (uval u).
Proof.
  unfold need_update. destruct (lookup c (ukey u)) as [v|]; [|discriminate].
  intros H. f_equal. lia.
Qed.

(* a cache hit: nothing happens and, the cache being coherent, the file already holds the value *)
Lemma step_rel_skip e g st u :
  coherent_st st -> -1 <= uval u -> need_update (scache st) u = false ->
  g (ukey u) = uval u -> step_rel e g st u (st, []).
Proof.
  intros Hc Hv Hn Hg. apply need_update_false in Hn.
  pose proof (Hc _ _ Hn Hv) as Hf. unfold step_rel. cbn [fst snd].
  repeat split.
  - intros k'. destruct (ukey u =? k') eqn:E; [|reflexivity].
    apply Z.eqb_eq in E. subst k'. congruence.
  - intros c Hl _. rewrite Hn in Hl. congruence.
  - left. reflexivity.
Qed.

Lemma merge_step_rel e g st u :
  coherent_st st -> -1 <= uval u ->
  g (ukey u) = vjoin (kindof e (ukey u)) (get (sfs st) (ukey u)) (uval u) ->
  step_rel e g st u (merge_step e st u).
Proof.
  intros Hc Hv Hg. unfold merge_step.
  destruct (need_update (scache st) u) eqn:Hn.
  2:{ apply step_rel_skip; auto.
      apply need_update_false in Hn. rewrite (Hc _ _ Hn Hv) in Hg. rewrite Hg. apply vjoin_diag. }
  set (k := kindof e (ukey u)) in *. set (old := get (sfs st) (ukey u)) in *.
  destruct (vle k (uval u) old) eqn:Hle.
  - (* merge condition not met *)
    assert (Hg' : g (ukey u) = old) by (rewrite Hg; apply vjoin_abs; exact Hle).
    unfold step_rel. cbn [fst snd sfs scache]. repeat split.
    + intros k'. destruct (ukey u =? k') eqn:E; [|reflexivity].
      apply Z.eqb_eq in E. subst k'. symmetry. exact Hg'.
    + intros k' Hk. rewrite lookup_set. destruct (ukey u =? k') eqn:E; [|reflexivity].
      apply Z.eqb_eq in E. congruence.
    + intros c. rewrite lookup_set, Z.eqb_refl. intros Hl Hc1. inversion Hl as [Hc2].
      destruct (is_q e k); [lia|]. congruence.
    + left. reflexivity.
  - (* the join is written *)
    assert (Hm : merged_value k old (uval u) = g (ukey u)) by (rewrite Hg; apply merged_is_join; exact Hle).
    rewrite Hm.
    assert (Hnorm : norm_at e (ukey u) (if is_q e k && (g (ukey u) =? -1) then -2 else g (ukey u)) = g (ukey u)).
    { change (is_q e k) with (on_q e (ukey u)). destruct (on_q e (ukey u)) eqn:Q; cbn [andb].
      - destruct (g (ukey u) =? -1) eqn:E1.
        + unfold norm_at. rewrite Q. cbn. lia.
        + apply norm_at_id. intros _. rewrite <- Hm. unfold merged_value, k.
          rewrite (on_q_not_set _ _ Q). lia.
      - apply norm_at_id. congruence. }
    unfold step_rel. cbn [fst snd sfs scache]. repeat split.
    + intros k'. rewrite get_apply_write. cbn [fst snd]. rewrite Hnorm. reflexivity.
    + intros k' Hk. rewrite lookup_set. destruct (ukey u =? k') eqn:E; [|reflexivity].
      apply Z.eqb_eq in E. congruence.
    + intros c. rewrite lookup_set, Z.eqb_refl. congruence.
    + right. eexists. split; [reflexivity|]. split; [exact Hnorm|]. split.
      * intros _. rewrite Hg. apply vjoin_ne_old. exact Hle.
      * change (is_q e k) with (on_q e (ukey u)). destruct (on_q e (ukey u)); cbn [andb]; [|left; reflexivity].
        destruct (g (ukey u) =? -1); [right; split; reflexivity|left; reflexivity].
Qed.

Lemma exact_step_rel e g st u :
  coherent_st st -> -1 <= uval u -> g (ukey u) = uval u ->
  step_rel e g st u (exact_step e st u).
Proof.
  intros Hc Hv Hg. unfold exact_step.
  destruct (need_update (scache st) u) eqn:Hn.
  2:{ apply step_rel_skip; auto. }
  set (k := kindof e (ukey u)) in *. change (is_q e k) with (on_q e (ukey u)).
  destruct (on_q e (ukey u)) eqn:Q; cbn [negb andb].
  - (* cpu.max on v2: always written *)
    assert (Hnorm : norm_at e (ukey u) (uval u) = g (ukey u)).
    { rewrite Hg. apply norm_at_id. lia. }
    unfold step_rel. cbn [fst snd sfs scache]. repeat split.
    + intros k'. rewrite get_apply_write. cbn [fst snd]. rewrite Hnorm. reflexivity.
    + intros k' Hk. rewrite lookup_set. destruct (ukey u =? k') eqn:E; [|reflexivity].
      apply Z.eqb_eq in E. congruence.
    + intros c. rewrite lookup_set, Z.eqb_refl. intros Hl Hc1. inversion Hl.
      destruct (uval u =? -1); lia.
    + right. exists (uval u). split; [reflexivity|]. split; [exact Hnorm|]. split; [congruence|].
      left. congruence.
  - destruct (get (sfs st) (ukey u) =? uval u) eqn:Hcur.
    + (* write-if-different: same content, no write *)
      apply Z.eqb_eq in Hcur. unfold step_rel. cbn [fst snd sfs scache]. repeat split.
      * intros k'. destruct (ukey u =? k') eqn:E; [|reflexivity].
        apply Z.eqb_eq in E. subst k'. congruence.
      * intros k' Hk. rewrite lookup_set. destruct (ukey u =? k') eqn:E; [|reflexivity].
        apply Z.eqb_eq in E. congruence.
      * intros c. rewrite lookup_set, Z.eqb_refl. congruence.
      * left. reflexivity.
    + apply Z.eqb_neq in Hcur.
      assert (Hnorm : norm_at e (ukey u) (uval u) = g (ukey u)).
      { rewrite Hg. apply norm_at_id. congruence. }
      unfold step_rel. cbn [fst snd sfs scache]. repeat split.
      * intros k'. rewrite get_apply_write. cbn [fst snd]. rewrite Hnorm. reflexivity.
      * intros k' Hk. rewrite lookup_set. destruct (ukey u =? k') eqn:E; [|reflexivity].
        apply Z.eqb_eq in E. congruence.
      * intros c. rewrite lookup_set, Z.eqb_refl. congruence.
      * right. exists (uval u). split; [reflexivity|]. split; [exact Hnorm|]. split.
        -- intros _. congruence.
        -- left. congruence.
Qed.

Lemma step_rel_coherent e g st u r : coherent_st st -> step_rel e g st u r -> coherent_st (fst r).
Proof.
  intros Hc (Hfs & Hcf & Hck & _). intros k v Hl Hv.
  rewrite Hfs. destruct (ukey u =? k) eqn:E.
  - apply Z.eqb_eq in E. subst k. symmetry. apply Hck; assumption.
  - apply Z.eqb_neq in E. rewrite Hcf in Hl by congruence. apply Hc; assumption.
Qed.

(* ---------- a whole pass ---------- *)
Definition after (g : Z -> Z) (ks : list Z) (F : Z -> Z) : Z -> Z :=
  fun k => if inb k ks then g k else F k.

Section Run.
  Variable e : env.
  Variable step : state -> updater -> state * list write.
  Variable g : Z -> Z.
  Variable Pre : updater -> Z -> Prop.
  Hypothesis Hstep : forall st u, coherent_st st -> Pre u (get (sfs st) (ukey u)) ->
                                  step_rel e g st u (step st u).

  Lemma run_cons st u r :
    run step st (u :: r) =
    (fst (run step (fst (step st u)) r), snd (step st u) ++ snd (run step (fst (step st u)) r)).
  Proof.
    cbn [run]. destruct (step st u) as [st1 w1]. cbn [fst snd].
    destruct (run step st1 r) as [st2 w2]. reflexivity.
  Qed.

  Lemma run_spec : forall us st,
    NoDup (map ukey us) -> coherent_st st ->
    (forall u, In u us -> Pre u (get (sfs st) (ukey u))) ->
    coherent_st (fst (run step st us))
    /\ (forall k, get (sfs (fst (run step st us))) k = after g (map ukey us) (get (sfs st)) k)
    /\ (forall k, inb k (map ukey us) = false ->
                  lookup (scache (fst (run step st us))) k = lookup (scache st) k)
    /\ sfs (fst (run step st us)) = apply_writes e (snd (run step st us)) (sfs st)
    /\ (forall pre w suf, snd (run step st us) = pre ++ w :: suf ->
          exists us1 u us2, us = us1 ++ u :: us2 /\ fst w = ukey u
            /\ (forall k, get (apply_writes e pre (sfs st)) k = after g (map ukey us1) (get (sfs st)) k)
            /\ norm_at e (ukey u) (snd w) = g (ukey u)
            /\ (on_q e (ukey u) = false -> g (ukey u) <> get (sfs st) (ukey u))
            /\ (snd w = g (ukey u) \/ (on_q e (ukey u) = true /\ snd w = -2))).
  Proof.
    induction us as [|u r IH]; intros st Hnd Hc Hpre.
    - cbn [run fst snd map]. repeat split; auto.
      intros pre w suf H. destruct pre; discriminate.
    - rewrite run_cons. cbn [fst snd].
      cbn [map] in Hnd. inversion Hnd as [|? ? Hnotin Hnd']. subst.
      assert (Hs : step_rel e g st u (step st u)) by (apply Hstep; [exact Hc|apply Hpre; left; reflexivity]).
      pose proof (step_rel_coherent _ _ _ _ _ Hc Hs) as Hc1.
      destruct Hs as (Hfs & Hcf & Hck & Happ & Hws).
      set (st1 := fst (step st u)) in *. set (w1 := snd (step st u)) in *.
      assert (Hpre1 : forall u', In u' r -> Pre u' (get (sfs st1) (ukey u'))).
      { intros u' Hin. rewrite Hfs. destruct (ukey u =? ukey u') eqn:E.
        - apply Z.eqb_eq in E. exfalso. apply Hnotin. rewrite E. apply in_map. exact Hin.
        - apply Hpre. right. exact Hin. }
      destruct (IH st1 Hnd' Hc1 Hpre1) as (IHc & IHfs & IHcf & IHapp & IHpos).
      split; [exact IHc|]. split; [|split; [|split]].
      + intros k. rewrite IHfs. unfold after. cbn [map]. rewrite inb_cons.
        destruct (inb k (map ukey r)) eqn:Ein; [rewrite orb_true_r; reflexivity|].
        rewrite orb_false_r. rewrite Hfs. rewrite (Z.eqb_sym k).
        destruct (ukey u =? k) eqn:E; [|reflexivity].
        apply Z.eqb_eq in E. subst k. reflexivity.
      + intros k. cbn [map]. rewrite inb_cons. intros Hk.
        apply orb_false_iff in Hk. destruct Hk as [Hk1 Hk2].
        rewrite IHcf by exact Hk2. apply Hcf. lia.
      + rewrite apply_writes_app, <- Happ. exact IHapp.
      + intros pre w suf Hsplit.
        destruct Hws as [Hnil | [code (Hw1 & Hnorm & Hne & Hcode)]].
        * (* the step wrote nothing *)
          rewrite Hnil in Hsplit. cbn [app] in Hsplit.
          destruct (IHpos _ _ _ Hsplit) as (us1 & u' & us2 & Hr & Hk & Hpref & Hn' & Hne' & Hc').
          exists (u :: us1), u', us2.
          assert (Hsame : sfs st1 = sfs st) by (rewrite Happ, Hnil; reflexivity).
          assert (Hdiff : ukey u <> ukey u').
          { intros E. apply Hnotin. rewrite E, Hr, map_app. apply in_or_app. right. left. reflexivity. }
          split; [rewrite Hr; reflexivity|]. split; [exact Hk|]. split; [|split; [exact Hn'|split]].
          -- intros k. rewrite <- Hsame, Hpref. unfold after. cbn [map]. rewrite inb_cons.
             destruct (inb k (map ukey us1)); [rewrite orb_true_r; reflexivity|].
             rewrite orb_false_r. destruct (k =? ukey u) eqn:E; [|reflexivity].
             apply Z.eqb_eq in E. subst k. rewrite Hfs, Z.eqb_refl. reflexivity.
          -- intros Q. rewrite <- Hsame. apply Hne'. exact Q.
          -- exact Hc'.
        * rewrite Hw1 in Hsplit. destruct pre as [|p pre'].
          -- (* the write of this very step *)
             cbn [app] in Hsplit. inversion Hsplit as [[Hw Hsuf]].
             exists [], u, r. cbn [fst snd app map].
             split; [reflexivity|]. split; [reflexivity|]. split; [|split; [exact Hnorm|split; [exact Hne|exact Hcode]]].
             intros k. reflexivity.
          -- cbn [app] in Hsplit. inversion Hsplit as [[Hp Hrest]].
             destruct (IHpos _ _ _ Hrest) as (us1 & u' & us2 & Hr & Hk & Hpref & Hn' & Hne' & Hc').
             exists (u :: us1), u', us2.
             assert (Hdiff : ukey u <> ukey u').
             { intros E. apply Hnotin. rewrite E, Hr, map_app. apply in_or_app. right. left. reflexivity. }
             assert (Hst1 : apply_write e (sfs st) (ukey u, code) = sfs st1).
             { rewrite Happ, Hw1. reflexivity. }
             split; [rewrite Hr; reflexivity|]. split; [exact Hk|]. split; [|split; [exact Hn'|split]].
             ++ intros k. rewrite apply_writes_cons, Hst1, Hpref. unfold after. cbn [map]. rewrite inb_cons.
                destruct (inb k (map ukey us1)); [rewrite orb_true_r; reflexivity|].
                rewrite orb_false_r, Hfs, (Z.eqb_sym k).
                destruct (ukey u =? k) eqn:E; [|reflexivity].
                apply Z.eqb_eq in E. subst k. reflexivity.
             ++ intros Q. specialize (Hne' Q). rewrite Hfs in Hne'.
                destruct (ukey u =? ukey u') eqn:E; [apply Z.eqb_eq in E; contradiction|exact Hne'].
             ++ exact Hc'.
  Qed.
End Run.
