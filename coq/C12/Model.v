(* C12 — model of the hierarchical cgroup rewrite of the koordlet resource executor:
     ResourceUpdateExecutorImpl.LeveledUpdateBatch / needUpdate      (resourceexecutor/executor.go)
     MergeFuncUpdateCgroup, MergeConditionIf{CPUSetIsLooser,ValueIsLarger,CFSQuotaIsLarger},
     CommonCgroupUpdateFunc / CgroupUpdateWithUnlimitedFunc           (resourceexecutor/updater.go)
     cgroupFileWriteIfDifferent                                       (resourceexecutor/cgroup.go)
     CPUSuppress.applyCPUSetWithNonePolicy / writeBECgroupsCPUSet     (cpusuppress/cpu_suppress.go)
   Executable, total, no proofs in this file.

   A cgroup FILE is identified by an integer key; [ekinds] gives its kind, [ehier] the
   (child file, parent file) edges of the directory tree restricted to files of one kind.
   Values are integers:
     kind 0  cpuset.cpus          bit mask of the cpu ids (bit i = cpu i), 0 = empty
     kind 1  cpu.cfs_quota_us     -1 = unlimited ("-1" on v1, "max" in cpu.max on v2), else the quota
     kind 2,3,4 memory.min/low/high   -1 = "max", else bytes
   Strings only matter where the code compares them: every value the harness produces has
   ONE canonical rendering except on cgroup v2 for kind 1 (file cpu.max reads back as
   "<quota> <period>", the updater's "-1" is turned into "max" by update()); the three extra
   cache codes -2 ("max"), -3 (a whole "q p" file content) and the written-value code -2 (the
   literal "-1" written to cpu.max by the merge pass) model exactly these cases. *)
From Coq Require Import List ZArith Bool.
Import ListNotations.
Open Scope Z_scope.

(* ---------- values, containment order, merge ---------- *)
Definition is_set (k : Z) : bool := k =? 0.

(* a ⊑ b : cpu set containment / "limit a is no larger than limit b" *)
Definition vle (k a b : Z) : bool :=
  if is_set k then Z.land a b =? a
  else (b =? -1) || (negb (a =? -1) && (a <=? b)).

Definition vjoin (k a b : Z) : Z :=
  if is_set k then Z.lor a b
  else if (a =? -1) || (b =? -1) then -1 else Z.max a b.

Definition vok (k a : Z) : bool := if is_set k then 0 <=? a else -1 <=? a.

(* what MergeFuncUpdateCgroup writes when the merge condition asks for a write:
   old ∪ new for cpu sets (MergeConditionIfCPUSetIsLooser), the new value for limits *)
Definition merged_value (k old new : Z) : Z := if is_set k then Z.lor new old else new.

(* ---------- finite maps ---------- *)
Notation fmap := (list (Z * Z)).

Fixpoint lookup (m : fmap) (k : Z) : option Z :=
  match m with
  | [] => None
  | (k', v) :: t => if k' =? k then Some v else lookup t k
  end.
Definition get (m : fmap) (k : Z) : Z := match lookup m k with Some v => v | None => 0 end.
Definition set (m : fmap) (k v : Z) : fmap := (k, v) :: m.
Definition del (m : fmap) (k : Z) : fmap := filter (fun e => negb (fst e =? k)) m.

(* ---------- environment, state ---------- *)
Record updater := mkU { ukey : Z; uval : Z }.
Record env := mkEnv { ever : Z;             (* 0 = cgroup v1, 1 = cgroup v2 *)
                      ekinds : fmap;        (* file key -> kind *)
                      ehier : list (Z * Z)  (* (child file, parent file) *) }.
Record state := mkSt { sfs : fmap;          (* file key -> content *)
                       scache : fmap        (* ResourceCache: file key -> Value() of the cached updater *) }.
Notation write := (Z * Z)%type.             (* (file key, content right after the write) *)

Definition kindof (e : env) (key : Z) : Z := get (ekinds e) key.
(* cpu.max on cgroup v2: the only file whose content never equals an updater's Value() *)
Definition is_q (e : env) (k : Z) : bool := (ever e =? 1) && (k =? 1).

(* executor.go needUpdate (the forced refresh after ResourceForceUpdateSeconds and the cache
   expiry are history operations, see [OExpire]) *)
Definition need_update (c : fmap) (u : updater) : bool :=
  match lookup c (ukey u) with
  | Some v => negb (v =? uval u)
  | None => true
  end.

(* a write as the harness sees it: (file, content read right after the call). On cpu.max of
   cgroup v2 the content code -2 is the literal "-1", which the kernel emulation of the harness
   reads back as "max". *)
Definition on_q (e : env) (key : Z) : bool := is_q e (kindof e key).
Definition norm_at (e : env) (key v : Z) : Z := if on_q e key && (v =? -2) then -1 else v.
Definition apply_write (e : env) (fs : fmap) (w : write) : fmap :=
  set fs (fst w) (norm_at e (fst w) (snd w)).

(* one iteration of the first (top-down) loop of LeveledUpdateBatch on a mergeable updater *)
Definition merge_step (e : env) (st : state) (u : updater) : state * list write :=
  let k := kindof e (ukey u) in
  if need_update (scache st) u then
    let old := get (sfs st) (ukey u) in
    if vle k (uval u) old
    then (* merge condition not met: nothing written, the clone holding the file content is cached *)
      (mkSt (sfs st) (set (scache st) (ukey u) (if is_q e k then -3 else old)), [])
    else
      let m := merged_value k old (uval u) in
      let w := (ukey u, if is_q e k && (m =? -1) then -2 else m) in
      (mkSt (apply_write e (sfs st) w) (set (scache st) (ukey u) m), [w])
  else (st, []).

(* one iteration of the second (bottom-up) loop of LeveledUpdateBatch, which is also
   updateByCache (UpdateBatch(cacheable=true)): needUpdate, update() = write-if-different, cache *)
Definition exact_step (e : env) (st : state) (u : updater) : state * list write :=
  let k := kindof e (ukey u) in
  if need_update (scache st) u then
    let cur := get (sfs st) (ukey u) in
    let c' := set (scache st) (ukey u) (if is_q e k && (uval u =? -1) then -2 else uval u) in
    if negb (is_q e k) && (cur =? uval u)
    then (mkSt (sfs st) c', [])
    else let w := (ukey u, uval u) in (mkSt (apply_write e (sfs st) w) c', [w])
  else (st, []).

Fixpoint run (step : state -> updater -> state * list write) (st : state) (us : list updater)
  : state * list write :=
  match us with
  | [] => (st, [])
  | u :: r => let '(st1, w1) := step st u in
              let '(st2, w2) := run step st1 r in (st2, w1 ++ w2)
  end.

(* LeveledUpdateBatch: the levels top-down with the merge step (inside a level: slice order), then
   the levels bottom-up with the exact step, every level BACKWARDS (executor.go as repaired by
   ce7ebc1); the second list is the flattened batch reversed (Proofs_Leveled.concat_map_rev_rev) *)
Definition leveled_update (e : env) (st : state) (levels : list (list updater)) : state * list write :=
  let '(s1, t1) := run (merge_step e) st (concat levels) in
  let '(s2, t2) := run (exact_step e) s1 (concat (map (@rev updater) (rev levels))) in
  (s2, t1 ++ t2).

(* the bottom-up pass before ce7ebc1: every level in slice order (regression witness only) *)
Definition leveled_update_fwd (e : env) (st : state) (levels : list (list updater)) : state * list write :=
  let '(s1, t1) := run (merge_step e) st (concat levels) in
  let '(s2, t2) := run (exact_step e) s1 (concat (rev levels)) in
  (s2, t1 ++ t2).

(* applyCPUSetWithNonePolicy: paths from upper to lower (filepath.Walk order); old ∪ new to all of
   them top-down, then new bottom-up, both through UpdateBatch(cacheable = true) *)
Definition be_apply (e : env) (st : state) (paths : list Z) (oldset newset : Z) : state * list write :=
  if newset =? 0 then (st, [])
  else
    let m := Z.lor oldset newset in
    let '(s1, t1) := run (exact_step e) st (map (fun p => mkU p m) paths) in
    let '(s2, t2) := run (exact_step e) s1 (map (fun p => mkU p newset) (rev paths)) in
    (s2, t1 ++ t2).

(* recoverCPUSetForBECPUManager / recoverCPUSetIfNeed: ONE pass, the recovered besteffort cpuset
   to every path in list order (besteffort root, pods, then containers) through
   UpdateBatch(cacheable = true) *)
Definition rec_apply (e : env) (st : state) (paths : list Z) (newset : Z) : state * list write :=
  run (exact_step e) st (map (fun p => mkU p newset) paths).

(* adjustByCPUSet in the configuration the harness fixes (every listed processor on its own core,
   one NUMA node, nothing reserved, no LSR/LSE pods, kubelet policy none): the new BE cpuset is the
   [k] lowest cpu ids of the node's processors [procs], k = max(ceil(milli/1000), 2) capped at
   |old| + ceil(0.1 * n); more cpus wanted than available, or no processor: nothing is applied.
   [old] is the cpuset of the besteffort root. *)
Definition cpu_ids (m : Z) : list Z := filter (Z.testbit m) (map Z.of_nat (seq 0 63)).
Definition mask_of (ids : list Z) : Z := fold_left (fun a i => Z.lor a (Z.shiftl 1 i)) ids 0.
Definition adj_new (procs milli old : Z) : Z :=
  let n := Z.of_nat (length (cpu_ids procs)) in
  let no := Z.of_nat (length (cpu_ids old)) in
  let c0 := Z.max ((milli + 999) / 1000) 2 in
  let inc := (n + 9) / 10 in
  let k := if inc <? c0 - no then no + inc else c0 in
  if (n =? 0) || (n <? k) then 0 else mask_of (firstn (Z.to_nat k) (cpu_ids procs)).

(* ---------- histories ---------- *)
Inductive op :=
| OBatch (levels : list (list updater))   (* one LeveledUpdateBatch call *)
| OExpire (key : Z)                       (* the cache entry expires / is older than the force-update interval *)
| OBe (paths : list Z) (old : option Z) (new : Z)
    (* one applyCPUSetWithNonePolicy call; [old = None]: oldCPUSet is the current cpuset of the
       first path (the BE root), which is what adjustByCPUSet passes *)
| ORec (paths : list Z) (new : Z)
    (* one recoverCPUSetForBECPUManager / recoverCPUSetIfNeed call *)
| OAdj (paths : list Z) (procs milli : Z)
    (* one adjustByCPUSet call: old = the BE root's cpuset, new = [adj_new], then
       applyCPUSetWithNonePolicy *)
| OCall (levels : list (list updater)).
    (* one LeveledUpdateBatch call issued by a production caller that is itself modelled
       (cgroupResourcesReconcile.calculateAndUpdateResources, see Reconcile.v): the arrangement of
       the updaters into levels and their order are part of the code under test, not an input *)

Definition be_old (fs : fmap) (paths : list Z) (old : option Z) : Z :=
  match old with Some o => o | None => get fs (hd 0 paths) end.

Definition step_op (e : env) (st : state) (o : op) : state * list write :=
  match o with
  | OBatch ls => leveled_update e st ls
  | OExpire k => (mkSt (sfs st) (del (scache st) k), [])
  | OBe paths old new => be_apply e st paths (be_old (sfs st) paths old) new
  | ORec paths new => rec_apply e st paths new
  | OAdj paths procs milli =>
      let o := get (sfs st) (hd 0 paths) in be_apply e st paths o (adj_new procs milli o)
  | OCall ls => leveled_update e st ls
  end.

(* ---------- what the property speaks about ---------- *)
Definition apply_writes (e : env) (ws : list write) (fs : fmap) : fmap := fold_left (apply_write e) ws fs.

Definition edge_ok (e : env) (fs : fmap) (cp : Z * Z) : bool :=
  vle (kindof e (fst cp)) (get fs (fst cp)) (get fs (snd cp)).
Definition validb (e : env) (fs : fmap) : bool := forallb (edge_ok e fs) (ehier e).

Definition set_updater (fs : fmap) (u : updater) : fmap := set fs (ukey u) (uval u).
Definition target_of (fs : fmap) (us : list updater) : fmap := fold_left set_updater us fs.
