(* C12 — applyCPUSetWithNonePolicy as an instance of the two-pass argument:
   pass 1 = exact steps with M = old ∪ new over the walked paths (parents first),
   pass 2 = exact steps with new over the reversed paths. J is the constant M on the paths. *)
From Coq Require Import List ZArith Bool Lia ZifyBool Permutation.
From Verif Require Import C12.Model C12.Spec C12.Proofs_Lattice C12.Proofs_Steps C12.Proofs_Pass.
Import ListNotations.
Open Scope Z_scope.

(* ---------- positions ---------- *)
Lemma pos_app_in x a b : In x a -> pos x (a ++ b) = pos x a /\ (pos x a < length a)%nat.
Proof.
  induction a as [|y a IH]; intros Hin; [contradiction|].
  cbn [app pos length]. destruct (x =? y) eqn:E; [split; [reflexivity|lia]|].
  destruct Hin as [->|Hin]; [rewrite Z.eqb_refl in E; discriminate|].
  destruct (IH Hin) as [H1 H2]. rewrite H1. split; [reflexivity|lia].
Qed.

Lemma pos_app_notin x a b : ~ In x a -> pos x (a ++ b) = (length a + pos x b)%nat.
Proof.
  induction a as [|y a IH]; intros Hnin; [reflexivity|].
  cbn [app pos length]. destruct (x =? y) eqn:E.
  - apply Z.eqb_eq in E. exfalso. apply Hnin. left. auto.
  - rewrite IH by (intros H; apply Hnin; right; exact H). reflexivity.
Qed.

(* x strictly before y in a duplicate-free list: every prefix containing y contains x *)
Lemma pos_prefix_closed l x y a b :
  (pos x l < pos y l)%nat -> l = a ++ b -> In y a -> In x a.
Proof.
  intros Hlt -> Hy. destruct (in_dec Z.eq_dec x a) as [Hx|Hx]; [exact Hx|exfalso].
  destruct (pos_app_in y a b Hy) as [H1 H2]. rewrite (pos_app_notin x a b Hx), H1 in Hlt. lia.
Qed.

Lemma nodup_app_disj {A} (a b : list A) x : NoDup (a ++ b) -> In x a -> In x b -> False.
Proof.
  induction a as [|y a IH]; intros Hnd Ha Hb; [contradiction|].
  cbn [app] in Hnd. inversion Hnd as [|? ? Hnotin Hnd']. subst. destruct Ha as [->|Ha].
  - apply Hnotin. apply in_or_app. right. exact Hb.
  - apply IH; assumption.
Qed.

(* ... and every suffix-complement: a prefix of the reversed list containing x contains y *)
Lemma pos_rev_prefix_closed l x y a b :
  NoDup l -> In y l -> (pos x l < pos y l)%nat -> rev l = a ++ b -> In x a -> In y a.
Proof.
  intros Hnd Hyl Hlt Hrev Hx.
  assert (Hl : l = rev b ++ rev a) by (rewrite <- rev_app_distr, <- Hrev, rev_involutive; reflexivity).
  destruct (in_dec Z.eq_dec y a) as [Hy|Hy]; [exact Hy|exfalso].
  assert (Hyb : In y (rev b)).
  { rewrite Hl in Hyl. apply in_app_or in Hyl. destruct Hyl as [Hb|Ha]; [exact Hb|].
    apply in_rev in Ha. contradiction. }
  assert (Hxb : ~ In x (rev b)).
  { rewrite Hl in Hnd. intros Hb. apply (nodup_app_disj _ _ x Hnd Hb). apply -> in_rev. exact Hx. }
  rewrite Hl in Hlt. destruct (pos_app_in y (rev b) (rev a) Hyb) as [H1 H2].
  rewrite (pos_app_notin x _ _ Hxb), H1 in Hlt. lia.
Qed.

(* ---------- hypotheses, unpacked ---------- *)
Record bhyps (e : env) (fs : fmap) (paths : list Z) (old new : Z) : Prop := mkBHyps {
  b_kinds : kinds_ok e;
  b_start : validF e (get fs);
  b_nodup : NoDup paths;
  b_edges : forall c p, In (c, p) (ehier e) -> In c paths /\ In p paths /\ (pos p paths < pos c paths)%nat;
  b_paths : forall p, In p paths -> kindof e p = 0 /\ 0 <= get fs p
                                    /\ vle 0 (get fs p) (Z.lor old new) = true /\ In p (files_of e);
  b_old : 0 <= old;
  b_new : 0 <= new }.

Lemma be_hyps_bhyps e fs paths old new : be_hyps e fs paths old new = true -> bhyps e fs paths old new.
Proof.
  unfold be_hyps. rewrite !andb_true_iff. intros [[[[[[H1 H2] H3] H4] H5] H6] H7].
  constructor.
  - apply env_ok_kinds; exact H1.
  - apply validb_validF; exact H2.
  - apply nodupb_NoDup; exact H3.
  - rewrite forallb_forall in H4. intros c p Hin. specialize (H4 (c, p) Hin). cbn [fst snd] in H4.
    rewrite !andb_true_iff in H4. destruct H4 as [[Ha Hb] Hc].
    split; [apply inb_In; exact Ha|]. split; [apply inb_In; exact Hb|]. apply Nat.ltb_lt. exact Hc.
  - rewrite forallb_forall in H5. intros p Hin. specialize (H5 p Hin).
    rewrite !andb_true_iff in H5. destruct H5 as [[[Ha Hb] Hc] Hd].
    split; [lia|]. split; [lia|]. split; [exact Hc|apply inb_In; exact Hd].
  - lia.
  - lia.
Qed.

Section Be.
  Variable e : env.
  Variable st : state.
  Variable paths : list Z.
  Variables oldset newset : Z.
  Hypothesis H : bhyps e (sfs st) paths oldset newset.
  Hypothesis Hcoh : coherent_st st.
  Hypothesis Hnz : newset <> 0.

  Let M := Z.lor oldset newset.
  Let us1 := map (fun p => mkU p M) paths.
  Let us2 := map (fun p => mkU p newset) (rev paths).
  Let old := get (sfs st).
  Let new := fun k => if inb k paths then newset else old k.
  Let J := fun k => if inb k paths then M else old k.

  Lemma be_keys1 : map ukey us1 = paths.
  Proof. unfold us1. rewrite map_map. cbn [ukey]. apply map_id. Qed.

  Lemma be_keys2 : map ukey us2 = rev paths.
  Proof. unfold us2. rewrite map_map. cbn [ukey]. apply map_id. Qed.

  Lemma be_M_nonneg : 0 <= M.
  Proof. unfold M. apply Z.lor_nonneg. split; [apply (b_old _ _ _ _ _ H)|apply (b_new _ _ _ _ _ H)]. Qed.

  Lemma be_path_kind k : In k paths -> kindof e k = 0.
  Proof. intros Hk. apply (b_paths _ _ _ _ _ H k Hk). Qed.

  Lemma be_new : validF e new.
  Proof.
    intros c p Hin. destruct (b_edges _ _ _ _ _ H c p Hin) as (Hc & Hp & _).
    unfold new. apply inb_In in Hc. apply inb_In in Hp. rewrite Hc, Hp. apply vle_refl.
  Qed.

  Lemma be_oJ k : vle (kindof e k) (old k) (J k) = true.
  Proof.
    unfold J. destruct (inb k paths) eqn:E; [|apply vle_refl].
    apply inb_In in E. rewrite (be_path_kind k E). apply (b_paths _ _ _ _ _ H k E).
  Qed.

  Lemma be_nJ k : vle (kindof e k) (new k) (J k) = true.
  Proof.
    unfold J, new. destruct (inb k paths) eqn:E; [|apply vle_refl].
    apply inb_In in E. rewrite (be_path_kind k E). unfold vle, M. cbn. apply Z.eqb_eq, subset_lor_r.
  Qed.

  Lemma be_Jm : validF e J.
  Proof.
    intros c p Hin. destruct (b_edges _ _ _ _ _ H c p Hin) as (Hc & Hp & _).
    unfold J. apply inb_In in Hc. apply inb_In in Hp. rewrite Hc, Hp. apply vle_refl.
  Qed.

  Lemma be_same k : In k (map ukey us1) <-> In k (map ukey us2).
  Proof. rewrite be_keys1, be_keys2. apply in_rev. Qed.

  Lemma be_out k : ~ In k (map ukey us1) -> J k = old k /\ new k = old k.
  Proof. rewrite be_keys1. intros Hk. apply inb_false in Hk. unfold J, new. rewrite Hk. auto. Qed.

  Lemma be_step1 s u :
    coherent_st s -> In u us1 /\ get (sfs s) (ukey u) = old (ukey u) -> step_rel e J s u (exact_step e s u).
  Proof.
    intros Hc [Hu _]. unfold us1 in Hu. apply in_map_iff in Hu. destruct Hu as [p [<- Hp]]. cbn [ukey uval].
    apply exact_step_rel; cbn [ukey uval]; [exact Hc|pose proof be_M_nonneg; lia|].
    unfold J. apply inb_In in Hp. rewrite Hp. reflexivity.
  Qed.

  Lemma be_us2 u : In u us2 -> uval u = new (ukey u) /\ -1 <= uval u.
  Proof.
    intros Hu. unfold us2 in Hu. apply in_map_iff in Hu. destruct Hu as [p [<- Hp]]. cbn [ukey uval].
    apply in_rev in Hp. unfold new. apply inb_In in Hp. rewrite Hp.
    split; [reflexivity|]. pose proof (b_new _ _ _ _ _ H). lia.
  Qed.

  Lemma be_ord1 : forall c p, In (c, p) (ehier e) -> In p (map ukey us1) ->
    forall a b, map ukey us1 = a ++ b -> In c a -> In p a.
  Proof.
    intros c p Hin _ a b Hsplit Hc. rewrite be_keys1 in Hsplit.
    destruct (b_edges _ _ _ _ _ H c p Hin) as (_ & _ & Hlt).
    apply (pos_prefix_closed paths p c a b Hlt Hsplit Hc).
  Qed.

  Lemma be_ord2 : forall c p, In (c, p) (ehier e) -> In c (map ukey us2) ->
    forall a b, map ukey us2 = a ++ b -> In p a -> In c a.
  Proof.
    intros c p Hin _ a b Hsplit Hp. rewrite be_keys2 in Hsplit.
    destruct (b_edges _ _ _ _ _ H c p Hin) as (Hc & _ & Hlt).
    apply (pos_rev_prefix_closed paths p c a b (b_nodup _ _ _ _ _ H) Hc Hlt Hsplit Hp).
  Qed.

  Lemma be_apply_eq :
    be_apply e st paths oldset newset =
    (fst (run (exact_step e) (fst (run (exact_step e) st us1)) us2),
     snd (run (exact_step e) st us1) ++ snd (run (exact_step e) (fst (run (exact_step e) st us1)) us2)).
  Proof.
    unfold be_apply. destruct (newset =? 0) eqn:E; [lia|]. fold M us1 us2.
    destruct (run (exact_step e) st us1) as [s1 t1]. cbn [fst snd].
    destruct (run (exact_step e) s1 us2) as [s2 t2]. reflexivity.
  Qed.

  Let res := be_apply e st paths oldset newset.

  Lemma be_all :
    every_prefix_valid e (sfs st) (snd res)
    /\ (forall k, get (sfs (fst res)) k = new k)
    /\ coherent_st (fst res)
    /\ (forall k, inb k (map ukey us1) = false -> lookup (scache (fst res)) k = lookup (scache st) k)
    /\ sfs (fst res) = apply_writes e (snd res) (sfs st)
    /\ (forall pre w suf, snd res = pre ++ w :: suf ->
          In (fst w) (map ukey us1)
          /\ (on_q e (fst w) = false ->
                get (apply_writes e pre (sfs st)) (fst w) <> norm_at e (fst w) (snd w)
                /\ (J (fst w) <> old (fst w) \/ new (fst w) <> J (fst w)))
          /\ (snd w = J (fst w) \/ snd w = new (fst w) \/ (on_q e (fst w) = true /\ snd w = -2))).
  Proof.
    unfold res. rewrite be_apply_eq. cbn [fst snd].
    assert (Hnd1 : NoDup (map ukey us1)) by (rewrite be_keys1; apply (b_nodup _ _ _ _ _ H)).
    assert (Hnd2 : NoDup (map ukey us2)).
    { rewrite be_keys2. apply Permutation_NoDup with paths; [apply Permutation_rev|apply (b_nodup _ _ _ _ _ H)]. }
    apply (two_pass_all e (exact_step e) us1 us2 old new J st
             (b_kinds _ _ _ _ _ H) (b_start _ _ _ _ _ H) be_new be_oJ be_nJ be_Jm
             (fun k => eq_refl) Hcoh Hnd1 Hnd2 be_same be_out be_step1 be_us2 be_ord1 be_ord2).
  Qed.

  Lemma be_path_noq k : In k paths -> on_q e k = false.
  Proof. intros Hk. unfold on_q, is_q. rewrite (be_path_kind k Hk). lia. Qed.

  Theorem be_prefix_valid : every_prefix_valid e (sfs st) (snd res).
  Proof. apply be_all. Qed.

  (* every walked cgroup ends with the new cpuset, nothing else is touched *)
  Theorem be_final : forall k, get (sfs (fst res)) k = if inb k paths then newset else get (sfs st) k.
  Proof. apply be_all. Qed.

  Theorem be_coherent : coherent_st (fst res).
  Proof. apply be_all. Qed.

  Theorem be_apply_writes : sfs (fst res) = apply_writes e (snd res) (sfs st).
  Proof. apply be_all. Qed.

  (* only walked cgroups are written, every write changes the content, and what is written is
     old ∪ new or new *)
  Theorem be_writes pre w suf :
    snd res = pre ++ w :: suf ->
    In (fst w) paths
    /\ get (apply_writes e pre (sfs st)) (fst w) <> snd w
    /\ (snd w = Z.lor oldset newset \/ snd w = newset).
  Proof.
    intros Hs. destruct be_all as (_ & _ & _ & _ & _ & Hw).
    destruct (Hw pre w suf Hs) as (Hin & Hch & Hcode). rewrite be_keys1 in Hin.
    pose proof (be_path_noq _ Hin) as Q. split; [exact Hin|]. split.
    - destruct (Hch Q) as [Hne _]. rewrite norm_at_id in Hne by congruence. exact Hne.
    - unfold J, new in Hcode. apply inb_In in Hin. rewrite Hin in Hcode.
      destruct Hcode as [Hc|[Hc|[Hc _]]]; [left; exact Hc|right; exact Hc|congruence].
  Qed.

  (* nothing to do: every walked cgroup already holds the new cpuset and old ⊆ new *)
  Theorem be_idle :
    Z.lor oldset newset = newset -> (forall p, In p paths -> get (sfs st) p = newset) -> snd res = [].
  Proof.
    intros HM Hall. destruct (snd res) as [|w r] eqn:E; [reflexivity|exfalso].
    destruct be_all as (_ & _ & _ & _ & _ & Hw).
    destruct (Hw [] w r) as (Hin & Hch & _); [rewrite <- E; reflexivity|].
    rewrite be_keys1 in Hin. destruct (Hch (be_path_noq _ Hin)) as [_ Hd].
    unfold J, new, old, M in Hd. pose proof Hin as Hin'. apply inb_In in Hin'.
    rewrite Hin', HM, (Hall _ Hin) in Hd. destruct Hd; congruence.
  Qed.

  Theorem be_valid_after : validb e (sfs (fst res)) = true.
  Proof.
    apply validb_validF. apply validF_ext with new; [intros k; symmetry; apply be_final|apply be_new].
  Qed.
End Be.
