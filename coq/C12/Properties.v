(* C12 — exported theorems only: each is closed by [exact] and followed by Print Assumptions.
   Reading aid:  e = (cgroup version, kind of every file, (child file, parent file) edges)
                 st = (files, ResourceCache);  hyps_ok = hierarchy valid at start and at target,
                 no file twice in the batch, the flattened batch lists every parent before its
                 children (topo_ok; a level MAY hold a cgroup together with its children), values
                 well-formed;  hyps_call = hyps_ok without the order condition;  coherent = every cache entry that can equal a target equals the file
                 (true of a fresh executor and preserved, see c12_invariant);
                 on_q = the file is cpu.max on cgroup v2. *)
From Coq Require Import List ZArith Bool.
From Verif Require Import C12.Model C12.Spec C12.Reconcile C12.Proofs_Lattice C12.Proofs_Hist C12.Proofs_Rc C12.Proofs_Main.
Import ListNotations.
Open Scope Z_scope.

(* crash points: after every prefix of the write sequence of LeveledUpdateBatch (merge pass over the
   levels top-down, exact pass over the levels bottom-up with every level walked backwards) the
   hierarchy is valid — all kinds of files, both cgroup versions, any tree, any coherent cache *)
Theorem c12_every_prefix_valid : forall e st levels,
  hyps_ok e (sfs st) levels = true -> coherent (scache st) (sfs st) ->
  forall pre suf, snd (leveled_update e st levels) = pre ++ suf ->
                  validb e (apply_writes e pre (sfs st)) = true.
Proof. exact main_every_prefix_valid. Qed.
Print Assumptions c12_every_prefix_valid.

(* completion: every file holds its target value, every other file is untouched, and the final
   files are exactly the start files with the logged writes applied *)
Theorem c12_final : forall e st levels,
  hyps_ok e (sfs st) levels = true -> coherent (scache st) (sfs st) ->
  (forall k, get (sfs (fst (leveled_update e st levels))) k = get (target_of (sfs st) (concat levels)) k)
  /\ final_ok (sfs (fst (leveled_update e st levels))) (concat levels)
  /\ (forall k, ~ In k (map ukey (concat levels)) ->
        get (sfs (fst (leveled_update e st levels))) k = get (sfs st) k)
  /\ sfs (fst (leveled_update e st levels)) = apply_writes e (snd (leveled_update e st levels)) (sfs st).
Proof. exact main_final. Qed.
Print Assumptions c12_final.

(* the hypotheses on the state are an invariant: valid hierarchy, coherent cache, cache frame *)
Theorem c12_invariant : forall e st levels,
  hyps_ok e (sfs st) levels = true -> coherent (scache st) (sfs st) ->
  validb e (sfs (fst (leveled_update e st levels))) = true
  /\ coherent (scache (fst (leveled_update e st levels))) (sfs (fst (leveled_update e st levels)))
  /\ (forall k, ~ In k (map ukey (concat levels)) ->
        lookup (scache (fst (leveled_update e st levels))) k = lookup (scache st) k).
Proof. exact main_invariant. Qed.
Print Assumptions c12_invariant.

(* unchanged files are not rewritten and no write is a no-op (files other than cpu.max on v2) *)
Theorem c12_no_redundant_write : forall e st levels,
  hyps_ok e (sfs st) levels = true -> coherent (scache st) (sfs st) ->
  (forall u, In u (concat levels) -> on_q e (ukey u) = false) ->
  no_redundant e (sfs st) (concat levels) (snd (leveled_update e st levels)).
Proof. exact main_no_redundant_write. Qed.
Print Assumptions c12_no_redundant_write.

(* about the model only (not a clause of the property's text, not checked by prop_code): every
   written content is acceptable for its file (files other than cpu.max on v2) *)
Theorem c12_legal_writes : forall e st levels,
  hyps_ok e (sfs st) levels = true -> coherent (scache st) (sfs st) ->
  (forall u, In u (concat levels) -> on_q e (ukey u) = false) ->
  legal e (snd (leveled_update e st levels)).
Proof. exact main_legal_writes. Qed.
Print Assumptions c12_legal_writes.

(* the decision procedure run on the implementation's observables decides the property *)
Theorem c12_prop_code_spec : forall e fs levels ws fin,
  validb e fs = true -> (prop_code e fs levels ws fin = 0 <-> C12_batch e fs levels ws fin).
Proof. exact prop_code_spec. Qed.
Print Assumptions c12_prop_code_spec.

Theorem c12_batch_code : forall e st levels,
  hyps_ok e (sfs st) levels = true -> coherent (scache st) (sfs st) ->
  (forall u, In u (concat levels) -> on_q e (ukey u) = false) ->
  prop_code e (sfs st) levels (snd (leveled_update e st levels)) (sfs (fst (leveled_update e st levels))) = 0.
Proof. exact main_batch_code. Qed.
Print Assumptions c12_batch_code.

(* all finite histories of LeveledUpdateBatch calls (arranged by the harness or by the modelled
   caller cgreconcile), BE cpuset recoveries and cache expiries on a fresh executor: the
   property's code, as Extract.v computes it on the model's own observable, is 0 *)
Theorem c12_history_holds : forall e fs ops,
  validb e fs = true -> hist_hyps e (mkSt fs []) ops -> Forall (plain_op e) ops ->
  hist_code e fs ops (run_hist e (mkSt fs []) ops) = 0.
Proof. exact main_history_holds. Qed.
Print Assumptions c12_history_holds.

(* all histories, including cpu.max on v2 and the BE cpuset calls (applyCPUSetWithNonePolicy,
   adjustByCPUSet, recover): crash points, final state and
   frame never fail (the code is 0 or 3) *)
Theorem c12_history_hard : forall e fs ops,
  validb e fs = true -> hist_hyps e (mkSt fs []) ops ->
  soft (hist_code e fs ops (run_hist e (mkSt fs []) ops)) = true.
Proof. exact main_history_hard. Qed.
Print Assumptions c12_history_hard.

(* applyCPUSetWithNonePolicy (old ∪ new top-down, then new bottom-up) *)
Theorem c12_be_two_phase : forall e st paths oldset newset,
  be_hyps e (sfs st) paths oldset newset = true -> coherent (scache st) (sfs st) -> newset <> 0 ->
  let res := be_apply e st paths oldset newset in
  every_prefix_valid e (sfs st) (snd res)
  /\ (forall k, get (sfs (fst res)) k = if inb k paths then newset else get (sfs st) k)
  /\ (forall pre w suf, snd res = pre ++ w :: suf ->
        In (fst w) paths /\ get (apply_writes e pre (sfs st)) (fst w) <> snd w
        /\ (snd w = Z.lor oldset newset \/ snd w = newset))
  /\ validb e (sfs (fst res)) = true
  /\ coherent (scache (fst res)) (sfs (fst res)).
Proof. exact main_be_two_phase. Qed.
Print Assumptions c12_be_two_phase.

Theorem c12_be_idle : forall e st paths oldset newset,
  be_hyps e (sfs st) paths oldset newset = true -> coherent (scache st) (sfs st) -> newset <> 0 ->
  Z.lor oldset newset = newset -> (forall p, In p paths -> get (sfs st) p = newset) ->
  snd (be_apply e st paths oldset newset) = [].
Proof. exact main_be_idle. Qed.
Print Assumptions c12_be_idle.

(* recoverCPUSetForBECPUManager / recoverCPUSetIfNeed (one top-down pass growing every walked
   cgroup to the recovered cpuset): every prefix valid, walked cgroups end at the recovered set,
   only cgroups whose cpuset differs are written, the property's code on the model is 0 *)
Theorem c12_recover : forall e st paths newset,
  rec_hyps e (sfs st) paths newset = true -> coherent (scache st) (sfs st) ->
  let res := rec_apply e st paths newset in
  every_prefix_valid e (sfs st) (snd res)
  /\ (forall k, get (sfs (fst res)) k = if inb k paths then newset else get (sfs st) k)
  /\ no_redundant e (sfs st) (rec_updaters paths newset) (snd res)
  /\ prop_code e (sfs st) [rec_updaters paths newset] (snd res) (sfs (fst res)) = 0
  /\ validb e (sfs (fst res)) = true
  /\ coherent (scache (fst res)) (sfs (fst res)).
Proof. exact main_recover. Qed.
Print Assumptions c12_recover.

(* the order condition is the only difference between the two sets of hypotheses *)
Theorem c12_hyps_split : forall e fs ls,
  hyps_ok e fs ls = true <-> hyps_call e fs ls = true /\ topo_ok e (concat ls) = true.
Proof. exact hyps_ok_split. Qed.
Print Assumptions c12_hyps_split.

(* a fact about the caller, proved instead of assumed: whatever the pods and the NodeSLO, the batch
   cgroupResourcesReconcile builds ([qos dirs with kubepods first]; [pods]; [containers]) lists
   every parent file before its children *)
Theorem c12_reconcile_topo : forall ver sh rd,
  topo_ok (rc_env ver sh) (concat (rc_levels sh rd)) = true.
Proof. exact rc_topo. Qed.
Print Assumptions c12_reconcile_topo.

(* the whole property for one cgreconcile round, with the property's own hypotheses only (valid at
   start and at target, values well-formed): every crash point valid, every file at its target,
   nothing rewritten needlessly; the invariant is kept *)
Theorem c12_reconcile_call : forall ver sh rd st,
  let e := rc_env ver sh in
  let ls := rc_levels sh rd in
  hyps_call e (sfs st) ls = true -> coherent (scache st) (sfs st) ->
  let res := leveled_update e st ls in
  prop_code e (sfs st) ls (snd res) (sfs (fst res)) = 0
  /\ every_prefix_valid e (sfs st) (snd res)
  /\ final_ok (sfs (fst res)) (concat ls)
  /\ no_redundant e (sfs st) (concat ls) (snd res)
  /\ validb e (sfs (fst res)) = true
  /\ coherent (scache (fst res)) (sfs (fst res)).
Proof. exact main_reconcile_call. Qed.
Print Assumptions c12_reconcile_call.

(* the order on cpu sets is containment of cpu ids *)
Theorem c12_cpuset_containment : forall a b,
  Z.land a b = a <-> (forall n, Z.testbit a n = true -> Z.testbit b n = true).
Proof. exact subset_spec. Qed.
Print Assumptions c12_cpuset_containment.

(* ---- false of the faithful model: shapes 2 and 3 of Codec.known_shape are findings
   (no_redundant_write); legal_writes_cfs_v2 is a documented observation only ---- *)
Theorem c12_no_redundant_write_cfs_v2_refuted :
  exists e st levels, hyps_ok e (sfs st) levels = true /\ coherent (scache st) (sfs st)
    /\ ~ no_redundant e (sfs st) (concat levels) (snd (leveled_update e st levels)).
Proof. exact refuted_no_redundant_cfs_v2. Qed.
Print Assumptions c12_no_redundant_write_cfs_v2_refuted.

Theorem c12_legal_writes_cfs_v2_refuted :
  exists e st levels, hyps_ok e (sfs st) levels = true /\ coherent (scache st) (sfs st)
    /\ ~ legal e (snd (leveled_update e st levels)).
Proof. exact refuted_legal_cfs_v2. Qed.
Print Assumptions c12_legal_writes_cfs_v2_refuted.

Theorem c12_be_unchanged_not_rewritten_refuted :
  exists e st paths new,
    be_hyps e (sfs st) paths (be_old (sfs st) paths None) new = true /\ coherent (scache st) (sfs st)
    /\ ~ no_redundant e (sfs st) (be_updaters paths new)
           (snd (be_apply e st paths (be_old (sfs st) paths None) new)).
Proof. exact refuted_be_unchanged. Qed.
Print Assumptions c12_be_unchanged_not_rewritten_refuted.

(* regression for the repaired defect D3 (fix 93eb6d9): the old merge step ends at 0-3, the
   current one at 2-3 through [0-3, 0-3, 2-3, 2-3] *)
Theorem c12_d3_regression :
  hyps_ok d3_env (sfs d3_st) d3_levels = true
  /\ get (sfs (fst (leveled_update_old d3_env d3_st d3_levels))) 0 = 15
  /\ get (sfs (fst (leveled_update d3_env d3_st d3_levels))) 0 = 12
  /\ snd (leveled_update d3_env d3_st d3_levels) = [(0, 15); (1, 15); (1, 12); (0, 12)].
Proof. exact d3_old_variant_refuted. Qed.
Print Assumptions c12_d3_regression.

(* regression for the repaired defect (fix ce7ebc1): with the bottom-up pass walking a level
   forwards, a batch that satisfies every hypothesis (parent before child inside ONE level) passes
   through an invalid hierarchy; the current pass writes the child first *)
Theorem c12_level_forward_refuted :
  hyps_ok fw_env (sfs fw_st) fw_levels = true /\ coherent (scache fw_st) (sfs fw_st)
  /\ levels_ok fw_env fw_levels = false
  /\ snd (leveled_update_fwd fw_env fw_st fw_levels) = [(0, 4); (1, 3)]
  /\ ~ every_prefix_valid fw_env (sfs fw_st) (snd (leveled_update_fwd fw_env fw_st fw_levels))
  /\ snd (leveled_update fw_env fw_st fw_levels) = [(1, 3); (0, 4)].
Proof. exact level_forward_refuted. Qed.
Print Assumptions c12_level_forward_refuted.

(* ---- non-vacuity of the hypotheses ---- *)
Example c12_hyps_nonvacuous :
  validb ex_env ex_fs = true /\ hist_hyps ex_env (mkSt ex_fs []) ex_ops /\ Forall (plain_op ex_env) ex_ops.
Proof. exact ex_history_hyps. Qed.

Example c12_trace_nonvacuous :
  map fst (run_hist ex_env (mkSt ex_fs []) ex_ops) =
  [ [(0, 15); (1, 300); (2, 15); (3, 200); (4, 5); (5, 100); (4, 4); (2, 12); (0, 12)];
    [(1, -1); (4, 12); (5, 20); (4, 8); (2, 8)] ].
Proof. exact ex_history_trace. Qed.

(* the recover hypotheses hold after a suppression; writing the container first (the order of the
   seeded mutant C12-m4) would pass through an invalid hierarchy *)
Example c12_rec_hyps_nonvacuous :
  let e := mkEnv 0 [(0, 0); (1, 0); (2, 0)] [(1, 0); (2, 1)] in
  rec_hyps e [(0, 12); (1, 12); (2, 12)] [0; 1; 2] 15 = true
  /\ snd (rec_apply e (mkSt [(0, 12); (1, 12); (2, 12)] []) [0; 1; 2] 15) = [(0, 15); (1, 15); (2, 15)]
  /\ validb e (apply_writes e [(2, 15)] [(0, 12); (1, 12); (2, 12)]) = false.
Proof. exact ex_rec_hyps. Qed.

(* adjustByCPUSet (history op OAdj = applyCPUSetWithNonePolicy with old = the BE root's cpuset and
   new = adj_new, both recomputed from the files; covered by c12_history_hard / c12_be_two_phase) *)
Example c12_adjust_nonvacuous :
  let e := mkEnv 0 [(0, 0); (1, 0); (2, 0)] [(1, 0); (2, 1)] in
  let fs := [(0, 255); (1, 255); (2, 3)] in
  adj_new 255 2000 255 = 3
  /\ be_hyps e fs [0; 1; 2] 255 3 = true
  /\ snd (step_op e (mkSt fs []) (OAdj [0; 1; 2] 255 2000)) = [(2, 255); (2, 3); (1, 3); (0, 3)]
  /\ validb e (apply_writes e [(0, 3)] fs) = false.
Proof. exact ex_adj. Qed.

Example c12_be_hyps_nonvacuous :
  be_hyps (mkEnv 1 [(0, 0); (1, 0); (2, 0)] [(1, 0); (2, 1)]) [(0, 3); (1, 3); (2, 1)] [0; 1; 2] 3 12 = true
  /\ snd (be_apply (mkEnv 1 [(0, 0); (1, 0); (2, 0)] [(1, 0); (2, 1)]) (mkSt [(0, 3); (1, 3); (2, 1)] []) [0; 1; 2] 3 12)
     = [(0, 15); (1, 15); (2, 15); (2, 12); (1, 12); (0, 12)].
Proof. exact ex_be_hyps. Qed.

(* cgreconcile: one burstable pod, request 10 -> 4 with MinLimitPercent 100: kubepods and
   kubepods/burstable share the qos level; the forward pass (before ce7ebc1) wrote kubepods first *)
Example c12_reconcile_nonvacuous :
  rc_levels rcx_sh rcx_rd = [[mkU 0 4; mkU 3 4]; [mkU 9 4]; [mkU 12 4]]
  /\ hyps_call (rc_env 1 rcx_sh) rcx_fs (rc_levels rcx_sh rcx_rd) = true
  /\ levels_ok (rc_env 1 rcx_sh) (rc_levels rcx_sh rcx_rd) = false
  /\ snd (leveled_update (rc_env 1 rcx_sh) (mkSt rcx_fs []) (rc_levels rcx_sh rcx_rd))
     = [(12, 4); (9, 4); (3, 4); (0, 4)]
  /\ snd (leveled_update_fwd (rc_env 1 rcx_sh) (mkSt rcx_fs []) (rc_levels rcx_sh rcx_rd))
     = [(12, 4); (9, 4); (0, 4); (3, 4)]
  /\ validb (rc_env 1 rcx_sh) (apply_writes (rc_env 1 rcx_sh) [(12, 4); (9, 4); (0, 4)] rcx_fs) = false.
Proof. exact ex_reconcile. Qed.
