(* C12 — exported theorems only: each is closed by [exact] and followed by Print Assumptions. *)
From Coq Require Import List ZArith Bool.
From Verif Require Import C12.Model C12.Spec C12.Proofs.
Open Scope Z_scope.

Theorem c12_lookup_set : forall m k v k', lookup (set m k v) k' = if k =? k' then Some v else lookup m k'.
Proof. exact lookup_set. Qed.
Print Assumptions c12_lookup_set.
