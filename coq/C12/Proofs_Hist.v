(* C12 — the decision procedure [prop_code] decides the Prop [C12_batch]; the model satisfies it
   for every batch of every history (induction over the op list with the invariant "valid
   hierarchy + coherent cache"); witnesses for the three clauses that are false of the faithful
   model (cpu.max on cgroup v2, BE cgroup already at the target). *)
From Coq Require Import List ZArith Bool Lia ZifyBool.
From Verif Require Import C12.Model C12.Spec C12.Proofs_Lattice C12.Proofs_Steps C12.Proofs_Pass
  C12.Proofs_Leveled C12.Proofs_Be C12.Proofs_Rec.
Import ListNotations.
Open Scope Z_scope.

(* ---------- reflection ---------- *)
Lemma prefixes_validb_spec e ws : forall fs, validb e fs = true ->
  (prefixes_validb e fs ws = true <-> every_prefix_valid e fs ws).
Proof.
  induction ws as [|a ws IH]; intros fs Hv.
  - cbn [prefixes_validb]. split; [|reflexivity]. intros _ pre suf Hs.
    symmetry in Hs. apply app_eq_nil in Hs. destruct Hs as [-> _]. exact Hv.
  - cbn [prefixes_validb]. rewrite andb_true_iff. split.
    + intros [H1 H2] pre suf Hs. destruct pre as [|p pre']; [exact Hv|].
      cbn [app] in Hs. inversion Hs; subst. rewrite apply_writes_cons.
      apply (proj1 (IH _ H1) H2 pre' suf eq_refl).
    + intros Hall.
      assert (H1 : validb e (apply_write e fs a) = true) by (apply (Hall [a] ws eq_refl)).
      split; [exact H1|]. apply (IH _ H1). intros pre suf Hs.
      rewrite <- apply_writes_cons. apply (Hall (a :: pre) suf). rewrite Hs. reflexivity.
Qed.

Lemma final_okb_spec fin us : final_okb fin us = true <-> final_ok fin us.
Proof.
  unfold final_okb, final_ok. rewrite forallb_forall. split; intros H u Hu; specialize (H u Hu); lia.
Qed.

Lemma same_onb_spec ks a b : same_onb ks a b = true <-> same_on ks a b.
Proof.
  unfold same_onb, same_on. rewrite forallb_forall. split; intros H k Hk; specialize (H k Hk); lia.
Qed.

Lemma legalb_spec e ws : legalb e ws = true <-> legal e ws.
Proof. unfold legalb, legal. apply forallb_forall. Qed.

Lemma writes_changeb_spec e ws : forall fs,
  writes_changeb e fs ws = true <->
  (forall pre w suf, ws = pre ++ w :: suf -> get (apply_writes e pre fs) (fst w) <> norm_at e (fst w) (snd w)).
Proof.
  induction ws as [|a ws IH]; intros fs.
  - cbn [writes_changeb]. split; [|reflexivity]. intros _ pre w suf Hs. destruct pre; discriminate.
  - cbn [writes_changeb]. rewrite andb_true_iff, IH. split.
    + intros [H1 H2] pre w suf Hs. destruct pre as [|p pre'].
      * cbn [app] in Hs. inversion Hs; subst. cbn [apply_writes fold_left]. lia.
      * cbn [app] in Hs. inversion Hs; subst. rewrite apply_writes_cons. apply (H2 pre' w suf eq_refl).
    + intros Hall. split.
      * specialize (Hall [] a ws eq_refl). cbn [apply_writes fold_left] in Hall. lia.
      * intros pre w suf Hs. rewrite <- apply_writes_cons. apply (Hall (a :: pre) w suf). rewrite Hs. reflexivity.
Qed.

Lemma no_redundantb_spec e fs us ws : no_redundantb e fs us ws = true <-> no_redundant e fs us ws.
Proof.
  unfold no_redundantb, no_redundant. rewrite andb_true_iff, writes_changeb_spec, forallb_forall.
  unfold needed_write. split; intros [H1 H2]; (split; [|exact H2]); intros w Hw; specialize (H1 w Hw).
  - apply andb_true_iff in H1. destruct H1 as [Ha Hb]. split; [apply inb_In; exact Ha|lia].
  - destruct H1 as [Ha Hb]. apply andb_true_iff. split; [apply inb_In; exact Ha|lia].
Qed.

Theorem prop_code_spec e fs levels ws fin :
  validb e fs = true ->
  (prop_code e fs levels ws fin = 0 <-> C12_batch e fs levels ws fin).
Proof.
  intros Hv. unfold prop_code, C12_batch.
  rewrite <- (prefixes_validb_spec e ws fs Hv), <- final_okb_spec, <- same_onb_spec,
          <- no_redundantb_spec.
  destruct (prefixes_validb e fs ws), (final_okb fin (concat levels)),
           (same_onb (files_of e) fin (apply_writes e ws fs)),
           (no_redundantb e fs (concat levels) ws); cbn; intuition congruence.
Qed.

(* clauses 1, 2, 4 (crash points, final state, frame) hold: the code is 0 or 3 *)
Definition soft (c : Z) : bool := (c =? 0) || (c =? 3).

Lemma prop_code_soft e fs levels ws fin :
  validb e fs = true -> every_prefix_valid e fs ws -> final_ok fin (concat levels) ->
  same_on (files_of e) fin (apply_writes e ws fs) -> soft (prop_code e fs levels ws fin) = true.
Proof.
  intros Hv H1 H2 H3. unfold prop_code.
  apply (prefixes_validb_spec e ws fs Hv) in H1. apply final_okb_spec in H2. apply same_onb_spec in H3.
  rewrite H1, H2, H3. cbn [negb].
  destruct (no_redundantb e fs (concat levels) ws); reflexivity.
Qed.

(* ---------- one batch of the model ---------- *)
Lemma coherent_nil fs : coherent [] fs.
Proof. intros k v Hl. discriminate. Qed.

Lemma coherent_del c fs k : coherent c fs -> coherent (del c k) fs.
Proof.
  intros Hc k' v Hl Hv. rewrite lookup_del in Hl. destruct (k =? k'); [discriminate|]. apply Hc; assumption.
Qed.

Definition noq_batch (e : env) (levels : list (list updater)) : Prop :=
  forall u, In u (concat levels) -> on_q e (ukey u) = false.

Lemma leveled_hard e st levels :
  hyps_ok e (sfs st) levels = true -> coherent_st st ->
  let res := leveled_update e st levels in
  every_prefix_valid e (sfs st) (snd res)
  /\ final_ok (sfs (fst res)) (concat levels)
  /\ same_on (files_of e) (sfs (fst res)) (apply_writes e (snd res) (sfs st)).
Proof.
  intros Hh Hc res. apply hyps_ok_hyps in Hh. split; [|split].
  - apply leveled_prefix_valid; assumption.
  - intros u Hu. unfold res. rewrite (leveled_final e st levels Hh Hc).
    apply target_of_in; [apply (h_nodup _ _ _ Hh)|exact Hu].
  - intros k _. unfold res. rewrite <- (leveled_apply e st levels Hh Hc). reflexivity.
Qed.

Theorem leveled_batch_holds e st levels :
  hyps_ok e (sfs st) levels = true -> coherent_st st -> noq_batch e levels ->
  let res := leveled_update e st levels in
  C12_batch e (sfs st) levels (snd res) (sfs (fst res)).
Proof.
  intros Hh Hc Hq res. destruct (leveled_hard e st levels Hh Hc) as (H1 & H2 & H3).
  apply hyps_ok_hyps in Hh. unfold C12_batch.
  split; [exact H1|]. split; [exact H2|]. split; [exact H3|].
  exact (leveled_no_redundant e st levels Hh Hc Hq).
Qed.

(* ---------- one applyCPUSetWithNonePolicy call of the model ---------- *)
Lemma be_updaters_keys paths new : new <> 0 -> map ukey (be_updaters paths new) = paths.
Proof.
  intros Hn. unfold be_updaters. destruct (new =? 0) eqn:E; [lia|].
  rewrite map_map. cbn [ukey]. apply map_id.
Qed.

Lemma be_hard e st paths oldset newset :
  be_hyps e (sfs st) paths oldset newset = true -> coherent_st st ->
  let res := be_apply e st paths oldset newset in
  every_prefix_valid e (sfs st) (snd res)
  /\ final_ok (sfs (fst res)) (concat [be_updaters paths newset])
  /\ same_on (files_of e) (sfs (fst res)) (apply_writes e (snd res) (sfs st)).
Proof.
  intros Hh Hc res. pose proof Hh as Hb. apply be_hyps_bhyps in Hb.
  destruct (Z.eq_dec newset 0) as [Hz|Hnz].
  - (* empty cpuset: the call does nothing *)
    assert (Hres : res = (st, [])) by (unfold res, be_apply; subst newset; reflexivity).
    rewrite Hres. cbn [fst snd]. split; [|split].
    + intros pre suf Hs. symmetry in Hs. apply app_eq_nil in Hs. destruct Hs as [-> _].
      apply validb_validF. apply (b_start _ _ _ _ _ Hb).
    + unfold be_updaters. subst newset. cbn. intros u [].
    + intros k _. reflexivity.
  - split; [|split].
    + apply be_prefix_valid; assumption.
    + cbn [concat]. rewrite app_nil_r. intros u Hu. unfold res.
      rewrite (be_final e st paths oldset newset Hb Hc Hnz).
      unfold be_updaters in Hu. destruct (newset =? 0) eqn:E; [lia|].
      apply in_map_iff in Hu. destruct Hu as [p [<- Hp]]. cbn [ukey uval].
      apply inb_In in Hp. rewrite Hp. reflexivity.
    + intros k _. unfold res. rewrite <- (be_apply_writes e st paths oldset newset Hb Hc Hnz). reflexivity.
Qed.

(* ---------- one recover call of the model: the whole property ---------- *)
Lemma rec_batch_holds e st paths newset :
  rec_hyps e (sfs st) paths newset = true -> coherent_st st ->
  let res := rec_apply e st paths newset in
  C12_batch e (sfs st) [rec_updaters paths newset] (snd res) (sfs (fst res)).
Proof.
  intros Hh Hc res. apply rec_hyps_rhyps in Hh. unfold C12_batch. cbn [concat]. rewrite app_nil_r.
  split; [apply rec_prefix_valid; assumption|]. split; [|split].
  - intros u Hu. unfold res. rewrite (rec_final e st paths newset Hh Hc).
    unfold rec_updaters in Hu. apply in_map_iff in Hu. destruct Hu as [p [<- Hp]]. cbn [ukey uval].
    apply inb_In in Hp. rewrite Hp. reflexivity.
  - intros k _. unfold res. rewrite <- (rec_apply_writes e st paths newset Hh Hc). reflexivity.
  - apply rec_no_redundant; assumption.
Qed.

(* ---------- histories ---------- *)
Definition inv (e : env) (st : state) : Prop := validb e (sfs st) = true /\ coherent_st st.

Definition op_hyps (e : env) (st : state) (o : op) : Prop :=
  match o with
  | OBatch ls => hyps_ok e (sfs st) ls = true
  | OBe paths old new => be_hyps e (sfs st) paths (be_old (sfs st) paths old) new = true
  | ORec paths new => rec_hyps e (sfs st) paths new = true
  | OAdj paths procs milli =>
      be_hyps e (sfs st) paths (get (sfs st) (hd 0 paths))
              (adj_new procs milli (get (sfs st) (hd 0 paths))) = true
  | OExpire _ => True
  | OCall ls => hyps_ok e (sfs st) ls = true
  end.

(* every call of the history meets the hypotheses of the property in the state it starts from *)
Fixpoint hist_hyps (e : env) (st : state) (ops : list op) : Prop :=
  match ops with
  | [] => True
  | o :: r => op_hyps e st o /\ hist_hyps e (fst (step_op e st o)) r
  end.

(* histories of LeveledUpdateBatch calls, cache expiries and BE cpuset recoveries that do not
   touch cpu.max on v2 *)
Definition plain_op (e : env) (o : op) : Prop :=
  match o with
  | OBatch ls => noq_batch e ls
  | OExpire _ => True
  | ORec _ _ => True
  | OBe _ _ _ => False
  | OAdj _ _ _ => False
  | OCall ls => noq_batch e ls
  end.

(* the hypotheses judged for a call of a modelled caller are those of [hyps_ok] minus the order *)
Lemma hyps_ok_call e fs ls : hyps_ok e fs ls = true -> hyps_call e fs ls = true.
Proof.
  unfold hyps_ok, hyps_call. rewrite !andb_true_iff. intros [[[[[H1 H2] H3] H4] H5] H6]. auto.
Qed.

Local Opaque adj_new.

Lemma step_inv e st o : inv e st -> op_hyps e st o -> inv e (fst (step_op e st o)).
Proof.
  intros [Hv Hc] Ho. destruct o as [ls|k|paths old new|paths new|paths procs milli|ls]; cbn [step_op op_hyps] in *.
  - apply hyps_ok_hyps in Ho. split.
    + apply leveled_valid_after; assumption.
    + apply leveled_coherent; assumption.
  - cbn [fst sfs]. split; [exact Hv|]. unfold coherent_st. cbn [scache sfs]. apply coherent_del. exact Hc.
  - apply be_hyps_bhyps in Ho. destruct (Z.eq_dec new 0) as [Hz|Hnz].
    + unfold be_apply. subst new. cbn [Z.eqb fst]. split; assumption.
    + split.
      * apply be_valid_after; assumption.
      * apply be_coherent; assumption.
  - apply rec_hyps_rhyps in Ho. split.
    + apply rec_valid_after; assumption.
    + apply rec_coherent; assumption.
  - apply be_hyps_bhyps in Ho.
    destruct (Z.eq_dec (adj_new procs milli (get (sfs st) (hd 0 paths))) 0) as [Hz|Hnz].
    + unfold be_apply. rewrite Hz. cbn [Z.eqb fst]. split; assumption.
    + split.
      * apply be_valid_after; assumption.
      * apply be_coherent; assumption.
  - apply hyps_ok_hyps in Ho. split.
    + apply leveled_valid_after; assumption.
    + apply leveled_coherent; assumption.
Qed.

Lemma run_hist_cons e st o r :
  run_hist e st (o :: r) =
  match o with
  | OExpire _ => run_hist e (fst (step_op e st o)) r
  | _ => (snd (step_op e st o), sfs (fst (step_op e st o))) :: run_hist e (fst (step_op e st o)) r
  end.
Proof. cbn [run_hist]. destruct (step_op e st o) as [st' ws]. reflexivity. Qed.

(* clauses 1, 2, 4 hold for every call of every history, whatever the files are *)
Theorem history_hard e : forall ops st,
  inv e st -> hist_hyps e st ops -> soft (hist_code e (sfs st) ops (run_hist e st ops)) = true.
Proof.
  induction ops as [|o r IH]; intros st Hinv Hh; [reflexivity|].
  destruct Hh as [Ho Hr]. pose proof (step_inv e st o Hinv Ho) as Hinv'.
  specialize (IH _ Hinv' Hr). destruct Hinv as [Hv Hc].
  rewrite run_hist_cons. destruct o as [ls|k|paths old new|paths new|paths procs milli|ls]; cbn [hist_code].
  - cbn [op_hyps] in Ho. rewrite Ho.
    destruct (leveled_hard e st ls Ho Hc) as (H1 & H2 & H3). cbn [step_op] in *.
    pose proof (prop_code_soft e (sfs st) ls _ _ Hv H1 H2 H3) as Hs.
    destruct (prop_code e (sfs st) ls (snd (leveled_update e st ls)) (sfs (fst (leveled_update e st ls))) =? 0);
      [exact IH|exact Hs].
  - exact IH.
  - cbn [op_hyps] in Ho. rewrite Ho.
    destruct (be_hard e st paths _ new Ho Hc) as (H1 & H2 & H3). cbn [step_op] in *.
    pose proof (prop_code_soft e (sfs st) [be_updaters paths new] _ _ Hv H1 H2 H3) as Hs.
    match goal with |- context [if ?c =? 0 then _ else _] => destruct (c =? 0) end; [exact IH|exact Hs].
  - cbn [op_hyps] in Ho. rewrite Ho.
    pose proof (rec_batch_holds e st paths new Ho Hc) as Hb. cbn [step_op] in *.
    apply (prop_code_spec e (sfs st) [rec_updaters paths new] _ _ Hv) in Hb. rewrite Hb. cbn [Z.eqb]. exact IH.
  - cbn [op_hyps] in Ho. cbn zeta. rewrite Ho.
    destruct (be_hard e st paths _ _ Ho Hc) as (H1 & H2 & H3). cbn [step_op] in *. cbn zeta in *.
    pose proof (prop_code_soft e (sfs st) [be_updaters paths (adj_new procs milli (get (sfs st) (hd 0 paths)))] _ _ Hv H1 H2 H3) as Hs.
    match goal with |- context [if ?c =? 0 then _ else _] => destruct (c =? 0) end; [exact IH|exact Hs].
  - cbn [op_hyps] in Ho. rewrite (hyps_ok_call _ _ _ Ho).
    destruct (leveled_hard e st ls Ho Hc) as (H1 & H2 & H3). cbn [step_op] in *.
    pose proof (prop_code_soft e (sfs st) ls _ _ Hv H1 H2 H3) as Hs.
    destruct (prop_code e (sfs st) ls (snd (leveled_update e st ls)) (sfs (fst (leveled_update e st ls))) =? 0);
      [exact IH|exact Hs].
Qed.

(* the whole property for histories that do not touch cpu.max on cgroup v2 *)
Theorem history_holds e : forall ops st,
  inv e st -> hist_hyps e st ops -> Forall (plain_op e) ops ->
  hist_code e (sfs st) ops (run_hist e st ops) = 0.
Proof.
  induction ops as [|o r IH]; intros st Hinv Hh Hp; [reflexivity|].
  destruct Hh as [Ho Hr]. pose proof (step_inv e st o Hinv Ho) as Hinv'.
  inversion Hp as [|? ? Hpo Hpr]. subst.
  specialize (IH _ Hinv' Hr Hpr). destruct Hinv as [Hv Hc].
  rewrite run_hist_cons. destruct o as [ls|k|paths old new|paths new|paths procs milli|ls]; cbn [hist_code].
  - cbn [op_hyps plain_op] in *. rewrite Ho.
    pose proof (leveled_batch_holds e st ls Ho Hc Hpo) as Hb. cbn [step_op] in *.
    apply (prop_code_spec e (sfs st) ls _ _ Hv) in Hb. rewrite Hb. cbn [Z.eqb]. exact IH.
  - exact IH.
  - contradiction.
  - cbn [op_hyps] in Ho. rewrite Ho.
    pose proof (rec_batch_holds e st paths new Ho Hc) as Hb. cbn [step_op] in *.
    apply (prop_code_spec e (sfs st) [rec_updaters paths new] _ _ Hv) in Hb. rewrite Hb. cbn [Z.eqb]. exact IH.
  - contradiction.
  - cbn [op_hyps plain_op] in *. rewrite (hyps_ok_call _ _ _ Ho).
    pose proof (leveled_batch_holds e st ls Ho Hc Hpo) as Hb. cbn [step_op] in *.
    apply (prop_code_spec e (sfs st) ls _ _ Hv) in Hb. rewrite Hb. cbn [Z.eqb]. exact IH.
Qed.

(* ---------- what is false of the faithful model ---------- *)
(* cgroup v2, one directory, cpu.max = "max 100000", target -1 (unchanged): rewritten *)
Definition w_env_q : env := mkEnv 1 [(0, 1)] [].
Lemma refuted_no_redundant_cfs_v2 :
  exists e st levels, hyps_ok e (sfs st) levels = true /\ coherent_st st
    /\ ~ no_redundant e (sfs st) (concat levels) (snd (leveled_update e st levels)).
Proof.
  exists w_env_q, (mkSt [(0, -1)] []), [[mkU 0 (-1)]].
  split; [vm_compute; reflexivity|]. split; [apply coherent_nil|].
  intros Hn. apply no_redundantb_spec in Hn. vm_compute in Hn. discriminate.
Qed.

(* an observation about the model, not a clause of the property: cgroup v2, one directory,
   cpu.max = "0 100000", target -1: the literal "-1" is written by the merge pass *)
Lemma refuted_legal_cfs_v2 :
  exists e st levels, hyps_ok e (sfs st) levels = true /\ coherent_st st
    /\ ~ legal e (snd (leveled_update e st levels)).
Proof.
  exists w_env_q, (mkSt [(0, 0)] []), [[mkU 0 (-1)]].
  split; [vm_compute; reflexivity|]. split; [apply coherent_nil|].
  intros Hn. apply legalb_spec in Hn. vm_compute in Hn. discriminate.
Qed.

(* BE root {0,1,2}, pod {1,2}, new {1,2}: the pod already holds the target and is rewritten twice *)
Lemma refuted_be_unchanged :
  exists e st paths new,
    be_hyps e (sfs st) paths (be_old (sfs st) paths None) new = true /\ coherent_st st
    /\ ~ no_redundant e (sfs st) (be_updaters paths new) (snd (be_apply e st paths (be_old (sfs st) paths None) new)).
Proof.
  exists (mkEnv 0 [(0, 0); (1, 0)] [(1, 0)]), (mkSt [(0, 7); (1, 6)] []), [0; 1], 6.
  split; [vm_compute; reflexivity|]. split; [apply coherent_nil|].
  intros Hn. apply no_redundantb_spec in Hn. vm_compute in Hn. discriminate.
Qed.

(* regression for the defect fixed by 93eb6d9: the old merge step cached the TARGET after writing
   the union, so the second pass skipped the file; parent 0-1 / child 0-1 -> 2-3 ended at 0-3 *)
Definition merge_step_old (e : env) (st : state) (u : updater) : state * list write :=
  let k := kindof e (ukey u) in
  if need_update (scache st) u then
    let old := get (sfs st) (ukey u) in
    if vle k (uval u) old
    then (mkSt (sfs st) (set (scache st) (ukey u) old), [])
    else
      let m := merged_value k old (uval u) in
      let w := (ukey u, m) in
      (mkSt (apply_write e (sfs st) w) (set (scache st) (ukey u) (uval u)), [w])
  else (st, []).

Definition leveled_update_old (e : env) (st : state) (levels : list (list updater)) : state * list write :=
  let '(s1, t1) := run (merge_step_old e) st (concat levels) in
  let '(s2, t2) := run (exact_step e) s1 (concat (map (@rev updater) (rev levels))) in
  (s2, t1 ++ t2).

Definition d3_env : env := mkEnv 0 [(0, 0); (1, 0)] [(1, 0)].
Definition d3_st : state := mkSt [(0, 3); (1, 3)] [].
Definition d3_levels : list (list updater) := [[mkU 0 12]; [mkU 1 12]].

Lemma d3_old_variant_refuted :
  hyps_ok d3_env (sfs d3_st) d3_levels = true
  /\ get (sfs (fst (leveled_update_old d3_env d3_st d3_levels))) 0 = 15
  /\ get (sfs (fst (leveled_update d3_env d3_st d3_levels))) 0 = 12
  /\ snd (leveled_update d3_env d3_st d3_levels) = [(0, 15); (1, 15); (1, 12); (0, 12)].
Proof. vm_compute. repeat split. Qed.
