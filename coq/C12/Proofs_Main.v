(* C12 — the exported statements, over the boolean hypotheses that Extract.v evaluates. *)
From Coq Require Import List ZArith Bool Lia.
From Verif Require Import C12.Model C12.Spec C12.Proofs_Lattice C12.Proofs_Steps C12.Proofs_Pass
  C12.Proofs_Leveled C12.Proofs_Be C12.Proofs_Rec C12.Proofs_Hist C12.Reconcile C12.Proofs_Rc.
Import ListNotations.
Open Scope Z_scope.

Lemma main_every_prefix_valid e st levels :
  hyps_ok e (sfs st) levels = true -> coherent (scache st) (sfs st) ->
  every_prefix_valid e (sfs st) (snd (leveled_update e st levels)).
Proof. intros Hh Hc. apply leveled_prefix_valid; [apply hyps_ok_hyps; exact Hh|exact Hc]. Qed.

Lemma main_final e st levels :
  hyps_ok e (sfs st) levels = true -> coherent (scache st) (sfs st) ->
  (forall k, get (sfs (fst (leveled_update e st levels))) k = get (target_of (sfs st) (concat levels)) k)
  /\ final_ok (sfs (fst (leveled_update e st levels))) (concat levels)
  /\ (forall k, ~ In k (map ukey (concat levels)) ->
        get (sfs (fst (leveled_update e st levels))) k = get (sfs st) k)
  /\ sfs (fst (leveled_update e st levels)) = apply_writes e (snd (leveled_update e st levels)) (sfs st).
Proof.
  intros Hh Hc. pose proof (hyps_ok_hyps _ _ _ Hh) as H. split; [|split; [|split]].
  - apply leveled_final; assumption.
  - apply (leveled_hard e st levels Hh Hc).
  - intros k Hk. rewrite (leveled_final e st levels H Hc). apply target_of_notin. exact Hk.
  - apply leveled_apply; assumption.
Qed.

Lemma main_invariant e st levels :
  hyps_ok e (sfs st) levels = true -> coherent (scache st) (sfs st) ->
  validb e (sfs (fst (leveled_update e st levels))) = true
  /\ coherent (scache (fst (leveled_update e st levels))) (sfs (fst (leveled_update e st levels)))
  /\ (forall k, ~ In k (map ukey (concat levels)) ->
        lookup (scache (fst (leveled_update e st levels))) k = lookup (scache st) k).
Proof.
  intros Hh Hc. pose proof (hyps_ok_hyps _ _ _ Hh) as H. split; [|split].
  - apply leveled_valid_after; assumption.
  - apply leveled_coherent; assumption.
  - intros k Hk. apply leveled_cache_frame; try assumption. apply inb_false. exact Hk.
Qed.

Lemma main_no_redundant_write e st levels :
  hyps_ok e (sfs st) levels = true -> coherent (scache st) (sfs st) ->
  (forall u, In u (concat levels) -> on_q e (ukey u) = false) ->
  no_redundant e (sfs st) (concat levels) (snd (leveled_update e st levels)).
Proof. intros Hh Hc Hq. apply leveled_no_redundant; [apply hyps_ok_hyps; exact Hh|exact Hc|exact Hq]. Qed.

Lemma main_legal_writes e st levels :
  hyps_ok e (sfs st) levels = true -> coherent (scache st) (sfs st) ->
  (forall u, In u (concat levels) -> on_q e (ukey u) = false) ->
  legal e (snd (leveled_update e st levels)).
Proof. intros Hh Hc Hq. apply leveled_legal; [apply hyps_ok_hyps; exact Hh|exact Hc|exact Hq]. Qed.

Lemma main_batch_code e st levels :
  hyps_ok e (sfs st) levels = true -> coherent (scache st) (sfs st) ->
  (forall u, In u (concat levels) -> on_q e (ukey u) = false) ->
  prop_code e (sfs st) levels (snd (leveled_update e st levels)) (sfs (fst (leveled_update e st levels))) = 0.
Proof.
  intros Hh Hc Hq. apply prop_code_spec.
  - unfold hyps_ok in Hh. rewrite !andb_true_iff in Hh. tauto.
  - apply leveled_batch_holds; assumption.
Qed.

(* a fresh executor (empty cache) on a valid hierarchy *)
Lemma main_history_holds e fs ops :
  validb e fs = true -> hist_hyps e (mkSt fs []) ops -> Forall (plain_op e) ops ->
  hist_code e fs ops (run_hist e (mkSt fs []) ops) = 0.
Proof.
  intros Hv Hh Hp. apply (history_holds e ops (mkSt fs [])); try assumption.
  split; [exact Hv|apply coherent_nil].
Qed.

Lemma main_history_hard e fs ops :
  validb e fs = true -> hist_hyps e (mkSt fs []) ops ->
  soft (hist_code e fs ops (run_hist e (mkSt fs []) ops)) = true.
Proof.
  intros Hv Hh. apply (history_hard e ops (mkSt fs [])); try assumption.
  split; [exact Hv|apply coherent_nil].
Qed.

Lemma main_be_two_phase e st paths oldset newset :
  be_hyps e (sfs st) paths oldset newset = true -> coherent (scache st) (sfs st) -> newset <> 0 ->
  let res := be_apply e st paths oldset newset in
  every_prefix_valid e (sfs st) (snd res)
  /\ (forall k, get (sfs (fst res)) k = if inb k paths then newset else get (sfs st) k)
  /\ (forall pre w suf, snd res = pre ++ w :: suf ->
        In (fst w) paths /\ get (apply_writes e pre (sfs st)) (fst w) <> snd w
        /\ (snd w = Z.lor oldset newset \/ snd w = newset))
  /\ validb e (sfs (fst res)) = true
  /\ coherent (scache (fst res)) (sfs (fst res)).
Proof.
  intros Hh Hc Hnz res. pose proof (be_hyps_bhyps _ _ _ _ _ Hh) as H.
  split; [apply be_prefix_valid; assumption|].
  split; [apply be_final; assumption|].
  split; [intros pre w suf; apply be_writes; assumption|].
  split; [apply be_valid_after; assumption|apply be_coherent; assumption].
Qed.

Lemma main_be_idle e st paths oldset newset :
  be_hyps e (sfs st) paths oldset newset = true -> coherent (scache st) (sfs st) -> newset <> 0 ->
  Z.lor oldset newset = newset -> (forall p, In p paths -> get (sfs st) p = newset) ->
  snd (be_apply e st paths oldset newset) = [].
Proof. intros Hh Hc Hnz. apply be_idle; try assumption. apply be_hyps_bhyps; exact Hh. Qed.

Lemma main_recover e st paths newset :
  rec_hyps e (sfs st) paths newset = true -> coherent (scache st) (sfs st) ->
  let res := rec_apply e st paths newset in
  every_prefix_valid e (sfs st) (snd res)
  /\ (forall k, get (sfs (fst res)) k = if inb k paths then newset else get (sfs st) k)
  /\ no_redundant e (sfs st) (rec_updaters paths newset) (snd res)
  /\ prop_code e (sfs st) [rec_updaters paths newset] (snd res) (sfs (fst res)) = 0
  /\ validb e (sfs (fst res)) = true
  /\ coherent (scache (fst res)) (sfs (fst res)).
Proof.
  intros Hh Hc res. pose proof (rec_hyps_rhyps _ _ _ _ Hh) as H.
  split; [apply rec_prefix_valid; assumption|].
  split; [apply rec_final; assumption|].
  split; [apply rec_no_redundant; assumption|].
  split; [|split; [apply rec_valid_after; assumption|apply rec_coherent; assumption]].
  apply prop_code_spec; [apply validb_validF, (r_start _ _ _ _ H)|apply rec_batch_holds; assumption].
Qed.

(* suppress 0-3 -> {2,3}, then recover to 0-3: root, pod, container grow top-down *)
Lemma ex_rec_hyps :
  let e := mkEnv 0 [(0, 0); (1, 0); (2, 0)] [(1, 0); (2, 1)] in
  rec_hyps e [(0, 12); (1, 12); (2, 12)] [0; 1; 2] 15 = true
  /\ snd (rec_apply e (mkSt [(0, 12); (1, 12); (2, 12)] []) [0; 1; 2] 15) = [(0, 15); (1, 15); (2, 15)]
  /\ validb e (apply_writes e [(2, 15)] [(0, 12); (1, 12); (2, 12)]) = false.
Proof. vm_compute. repeat split. Qed.

(* adjustByCPUSet on a valid, NON-homogeneous subtree with a fresh executor (root 0-7, pod 0-7,
   container 0-1, 8 processors, 2 cpus wanted): old is the root's cpuset, so the loosening pass never
   narrows anything; taking old from the narrowest container (seeded mutant C12-m6) would first write
   0-1 into the root *)
Lemma ex_adj :
  let e := mkEnv 0 [(0, 0); (1, 0); (2, 0)] [(1, 0); (2, 1)] in
  let fs := [(0, 255); (1, 255); (2, 3)] in
  adj_new 255 2000 255 = 3
  /\ be_hyps e fs [0; 1; 2] 255 3 = true
  /\ snd (step_op e (mkSt fs []) (OAdj [0; 1; 2] 255 2000)) = [(2, 255); (2, 3); (1, 3); (0, 3)]
  /\ validb e (apply_writes e [(0, 3)] fs) = false.
Proof. vm_compute. repeat split. Qed.

(* non-vacuity: the hypotheses hold on concrete histories with merges, narrowing, an expiry *)
Definition ex_env : env := mkEnv 0 [(0, 0); (1, 2); (2, 0); (3, 2); (4, 0); (5, 2)] [(2, 0); (3, 1); (4, 2); (5, 3)].
Definition ex_fs : fmap := [(0, 3); (1, 100); (2, 3); (3, 50); (4, 1); (5, 50)].
Definition ex_ops : list op :=
  [ OBatch [[mkU 0 12; mkU 1 300]; [mkU 2 12; mkU 3 200]; [mkU 4 4; mkU 5 100]];
    OExpire 2;
    OBatch [[mkU 0 12; mkU 1 (-1)]; [mkU 2 8; mkU 3 200]; [mkU 4 8; mkU 5 20]] ].

Lemma ex_history_hyps : validb ex_env ex_fs = true /\ hist_hyps ex_env (mkSt ex_fs []) ex_ops
                        /\ Forall (plain_op ex_env) ex_ops.
Proof.
  split; [vm_compute; reflexivity|]. split; [vm_compute; repeat split|].
  repeat constructor; intros u Hu; unfold on_q, is_q; reflexivity.
Qed.

Lemma ex_history_trace :
  map fst (run_hist ex_env (mkSt ex_fs []) ex_ops) =
  [ [(0, 15); (1, 300); (2, 15); (3, 200); (4, 5); (5, 100); (4, 4); (2, 12); (0, 12)];
    [(1, -1); (4, 12); (5, 20); (4, 8); (2, 8)] ].
Proof. vm_compute. reflexivity. Qed.

Lemma ex_be_hyps :
  be_hyps (mkEnv 1 [(0, 0); (1, 0); (2, 0)] [(1, 0); (2, 1)]) [(0, 3); (1, 3); (2, 1)] [0; 1; 2] 3 12 = true
  /\ snd (be_apply (mkEnv 1 [(0, 0); (1, 0); (2, 0)] [(1, 0); (2, 1)]) (mkSt [(0, 3); (1, 3); (2, 1)] []) [0; 1; 2] 3 12)
     = [(0, 15); (1, 15); (2, 15); (2, 12); (1, 12); (0, 12)].
Proof. vm_compute. split; reflexivity. Qed.

(* ---------- callers whose arrangement is their own ---------- *)
Lemma hyps_ok_split e fs ls :
  hyps_ok e fs ls = true <-> hyps_call e fs ls = true /\ topo_ok e (concat ls) = true.
Proof. unfold hyps_ok, hyps_call. rewrite !andb_true_iff. tauto. Qed.

(* cgroupResourcesReconcile: no hypothesis on the order, it is [rc_topo]; none on cpu.max, it is [rc_noq] *)
Lemma main_reconcile_call ver sh rd st :
  let e := rc_env ver sh in
  let ls := rc_levels sh rd in
  hyps_call e (sfs st) ls = true -> coherent (scache st) (sfs st) ->
  let res := leveled_update e st ls in
  prop_code e (sfs st) ls (snd res) (sfs (fst res)) = 0
  /\ every_prefix_valid e (sfs st) (snd res)
  /\ final_ok (sfs (fst res)) (concat ls)
  /\ no_redundant e (sfs st) (concat ls) (snd res)
  /\ validb e (sfs (fst res)) = true
  /\ coherent (scache (fst res)) (sfs (fst res)).
Proof.
  intros e ls Hh Hc res.
  assert (Hok : hyps_ok e (sfs st) ls = true) by (apply hyps_ok_split; split; [exact Hh|apply rc_topo]).
  assert (Hq : forall u, In u (concat ls) -> on_q e (ukey u) = false) by (intros u _; apply rc_noq).
  split; [apply main_batch_code; assumption|].
  split; [apply main_every_prefix_valid; assumption|].
  split; [apply (main_final e st ls Hok Hc)|].
  split; [apply main_no_redundant_write; assumption|].
  split; apply (main_invariant e st ls Hok Hc).
Qed.

(* regression for the defect fixed by ce7ebc1 (the bottom-up pass walked a level forwards): parent and
   child in ONE level, memory.min 10/8 -> 4/3; the forward pass writes the parent first *)
Definition fw_env : env := mkEnv 1 [(0, 2); (1, 2)] [(1, 0)].
Definition fw_st : state := mkSt [(0, 10); (1, 8)] [].
Definition fw_levels : list (list updater) := [[mkU 0 4; mkU 1 3]].

Lemma level_forward_refuted :
  hyps_ok fw_env (sfs fw_st) fw_levels = true /\ coherent (scache fw_st) (sfs fw_st)
  /\ levels_ok fw_env fw_levels = false
  /\ snd (leveled_update_fwd fw_env fw_st fw_levels) = [(0, 4); (1, 3)]
  /\ ~ every_prefix_valid fw_env (sfs fw_st) (snd (leveled_update_fwd fw_env fw_st fw_levels))
  /\ snd (leveled_update fw_env fw_st fw_levels) = [(1, 3); (0, 4)].
Proof.
  split; [vm_compute; reflexivity|]. split; [apply coherent_nil|]. split; [vm_compute; reflexivity|].
  split; [vm_compute; reflexivity|]. split; [|vm_compute; reflexivity].
  intros Hn. apply (prefixes_validb_spec fw_env _ (sfs fw_st)) in Hn; [|vm_compute; reflexivity].
  vm_compute in Hn. discriminate.
Qed.

(* the same through the modelled caller: one burstable pod with one container, MinLimitPercent 100 for
   the LS class, request 10 -> 4. The batch is [[kubepods; burstable]; [pod]; [container]]; the
   forward pass tightened kubepods while burstable still held 10 *)
Definition rcx_sh : shape := [(2, 1%nat)].
Definition rcx_rd : rround := mkRRound 1073741824 [-1; -1; -1; 100; -1; -1; -1; -1; -1] [mkRPod true [(4, -1)]].
Definition rcx_fs : fmap := [(0, 10); (1, 0); (2, -1); (3, 10); (4, 0); (5, -1); (6, 0); (7, 0); (8, -1);
                             (9, 10); (10, 0); (11, -1); (12, 10); (13, 0); (14, -1)].

Lemma ex_reconcile :
  rc_levels rcx_sh rcx_rd = [[mkU 0 4; mkU 3 4]; [mkU 9 4]; [mkU 12 4]]
  /\ hyps_call (rc_env 1 rcx_sh) rcx_fs (rc_levels rcx_sh rcx_rd) = true
  /\ levels_ok (rc_env 1 rcx_sh) (rc_levels rcx_sh rcx_rd) = false
  /\ snd (leveled_update (rc_env 1 rcx_sh) (mkSt rcx_fs []) (rc_levels rcx_sh rcx_rd))
     = [(12, 4); (9, 4); (3, 4); (0, 4)]
  /\ snd (leveled_update_fwd (rc_env 1 rcx_sh) (mkSt rcx_fs []) (rc_levels rcx_sh rcx_rd))
     = [(12, 4); (9, 4); (0, 4); (3, 4)]
  /\ validb (rc_env 1 rcx_sh) (apply_writes (rc_env 1 rcx_sh) [(12, 4); (9, 4); (0, 4)] rcx_fs) = false.
Proof. vm_compute. repeat split. Qed.
