(* C12 — model of the production caller of LeveledUpdateBatch for memory.min / memory.low /
   memory.high:
     cgroupResourcesReconcile.calculateAndUpdateResources / calculateResources /
     calculatePodResources / calculateContainerResources / updateCgroupSummaryForQoS /
     completeCgroupSummaryForQoS / makeCgroupResources        (qosmanager/plugins/cgreconcile)
   restricted to the three hierarchical memory files (every other MemoryQOS field is nil, so no
   other updater is produced). Executable, total, no proofs in this file.

   Directories:  0 kubepods (the Guaranteed QoS dir, parent of everything)
                 1 kubepods/burstable     2 kubepods/besteffort
                 then, per pod in GetAllPods order: the pod directory followed by its containers.
   A pod has a type:  0 kube Guaranteed / koord LSR     1 kube Guaranteed / koord LS
                      2 kube Burstable  / koord LS      3 kube BestEffort / koord BE
   (type mod 4; the pod's directory lies below the QoS dir of its kube class, its memory-QoS
   percentages come from the NodeSLO class of its koord class).
   Files: dir * 3 + {0 memory.min, 1 memory.low, 2 memory.high}, kinds 2, 3, 4 of Model.v;
   value -1 = unlimited (the code writes MaxInt64, the kernel shows "max"). *)
From Coq Require Import List ZArith Bool.
From Verif Require Import C12.Model.
Import ListNotations.
Open Scope Z_scope.

Record rpod := mkRPod { rp_active : bool; rp_cs : list (Z * Z) (* (request, limit), -1 = not set *) }.
Record rround := mkRRound { rr_node : Z;          (* node allocatable memory *)
                            rr_cfg : list Z;      (* (min%, low%, throttling%) of LSRClass, LSClass, BEClass; -1 = nil *)
                            rr_pods : list rpod }.
Notation shape := (list (Z * nat)).     (* (type, number of containers) per pod *)

Definition class_of (typ : Z) : Z := let t := typ mod 4 in if t =? 0 then 0 else if t =? 3 then 2 else 1.
Definition kube_of (typ : Z) : Z := let t := typ mod 4 in if t <=? 1 then 0 else t - 1.
Definition pod_parent (typ : Z) : Z := kube_of typ.

Definition cfg_at (cfg : list Z) (i : Z) : option Z :=
  let v := nth (Z.to_nat i) cfg (-1) in if v <? 0 then None else Some v.

Definition pct (v : Z) (p : option Z) : option Z :=
  match p with Some q => Some (Z.quot (v * q) 100) | None => None end.

(* "values improved": x is no less than memory.min *)
Definition improve (x mn : option Z) : option Z :=
  match x, mn with
  | Some a, Some m => if (0 <? a) && (a <? m) then Some m else Some a
  | _, _ => x
  end.

Definition pos_req (r : Z) : Z := if r <? 0 then 0 else r.
Definition pod_request (cs : list (Z * Z)) : Z := fold_left (fun a c => a + pos_req (fst c)) cs 0.

Definition page : Z := 4096.
Definition high_of (r l node : Z) (th : option Z) : option Z :=
  match th with
  | None => None
  | Some t =>
      if t =? 0 then Some (-1)
      else if 0 <? l then Some (Z.quot (r + Z.quot ((l - r) * t) 100) page * page)
      else Some (Z.quot (r + Z.quot ((node - r) * t) 100) page * page)
  end.

Definition improve_high (h mn : option Z) : option Z :=
  match h, mn with
  | Some a, Some m => if (0 <? a) && (a <? m) then Some m else Some a
  | _, _ => h
  end.

(* makeCgroupResources: min, low, high in this order, nil values skipped *)
Definition mk_res (dir : Z) (mn lw hi : option Z) : list updater :=
  (match mn with Some v => [mkU (dir * 3) v] | None => [] end)
  ++ (match lw with Some v => [mkU (dir * 3 + 1) v] | None => [] end)
  ++ (match hi with Some v => [mkU (dir * 3 + 2) v] | None => [] end).

Fixpoint container_res (dir : Z) (node : Z) (mnp lwp thp : option Z) (cs : list (Z * Z)) : list updater :=
  match cs with
  | [] => []
  | (r0, l) :: t =>
      let r := pos_req r0 in
      let mn := pct r mnp in
      let lw := improve (pct r lwp) mn in
      let hi := improve_high (high_of r l node thp) mn in
      mk_res dir mn lw hi ++ container_res (dir + 1) node mnp lwp thp t
  end.

(* one pass over the pods: (pod-level updaters, container-level updaters, per kube class the sums
   of memory.min and memory.low contributions as options) *)
Definition oadd (a : option Z) (b : option Z) : option Z :=
  match b with
  | None => a
  | Some y => match a with Some x => Some (x + y) | None => Some y end
  end.

Record acc := mkAcc { a_pods : list updater; a_conts : list updater; a_min : list (option Z); a_low : list (option Z) }.

Definition upd_nth {A} (n : nat) (f : A -> A) (l : list A) : list A :=
  firstn n l ++ (match nth_error l n with Some x => [f x] | None => [] end) ++ skipn (S n) l.

Fixpoint walk (sh : shape) (pods : list rpod) (dir : Z) (node : Z) (cfg : list Z) (a : acc) : acc :=
  match sh, pods with
  | (typ, nc) :: sh', p :: pods' =>
      let next := dir + 1 + Z.of_nat nc in
      if rp_active p then
        let c := class_of typ in
        let mnp := cfg_at cfg (3 * c) in
        let lwp := cfg_at cfg (3 * c + 1) in
        let thp := cfg_at cfg (3 * c + 2) in
        let cs := firstn nc (rp_cs p) in
        let req := pod_request cs in
        let pm := pct req mnp in
        let pl := pct req lwp in
        let q := Z.to_nat (kube_of typ) in
        walk sh' pods' next node cfg
             (mkAcc (a_pods a ++ mk_res dir pm (improve pl pm) None)
                    (a_conts a ++ container_res (dir + 1) node mnp lwp thp cs)
                    (upd_nth q (fun s => oadd s pm) (a_min a))
                    (upd_nth q (fun s => oadd s pl) (a_low a)))
      else walk sh' pods' next node cfg a
  | _, _ => a
  end.

Definition osum (l : list (option Z)) : option Z := fold_left oadd l None.

(* the three levels handed to LeveledUpdateBatch: [qos; pods; containers]; the qos level lists
   Guaranteed (= kubepods, whose values are the sums over all three classes), Burstable, BestEffort *)
Definition rc_levels (sh : shape) (rd : rround) : list (list updater) :=
  let a := walk sh (rr_pods rd) 3 (rr_node rd) (rr_cfg rd) (mkAcc [] [] [None; None; None] [None; None; None]) in
  let qmin := a_min a in
  let qlow := a_low a in
  [ mk_res 0 (osum qmin) (osum qlow) None
    ++ mk_res 1 (nth 1 qmin None) (nth 1 qlow None) None
    ++ mk_res 2 (nth 2 qmin None) (nth 2 qlow None) None;
    a_pods a;
    a_conts a ].

(* the environment: kinds and (child file, parent file) edges *)
Fixpoint dir_parents (sh : shape) (dir : Z) : list (Z * Z) :=
  match sh with
  | [] => []
  | (typ, nc) :: sh' =>
      (dir, pod_parent typ) :: map (fun i => (dir + 1 + Z.of_nat i, dir)) (seq 0 nc)
      ++ dir_parents sh' (dir + 1 + Z.of_nat nc)
  end.

Definition rc_parents (sh : shape) : list (Z * Z) := (1, 0) :: (2, 0) :: dir_parents sh 3.
Definition rc_ndirs (sh : shape) : nat := (3 + fold_left (fun a s => a + 1 + snd s) sh 0)%nat.

Definition rc_env (ver : Z) (sh : shape) : env :=
  let dirs := map Z.of_nat (seq 0 (rc_ndirs sh)) in
  mkEnv ver
    (flat_map (fun d => [(d * 3, 2); (d * 3 + 1, 3); (d * 3 + 2, 4)]) dirs)
    (flat_map (fun cp => [(fst cp * 3, snd cp * 3); (fst cp * 3 + 1, snd cp * 3 + 1); (fst cp * 3 + 2, snd cp * 3 + 2)])
              (rc_parents sh)).
