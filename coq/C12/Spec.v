(* C12 — the property as Props over (environment, start files, batch, write sequence, final
   files) and its decision procedure [prop_code] (0 = holds, otherwise the clause number):
     1  some prefix of the write sequence leaves an invalid hierarchy (a crash point)
     2  after the rewrite an updated file does not hold its target value
     3  a redundant write: a file outside the batch or whose value was already the target was
        written, or a write did not change the content
     4  the final files are not the start files with the writes applied (unobserved write)
   ([legal], "every written content is acceptable for its file", is NOT part of the property's
   text and not a clause of [prop_code]; it is kept as a statement about the model only.) *)
From Coq Require Import List ZArith Bool.
From Verif Require Import C12.Model.
Import ListNotations.
Open Scope Z_scope.

Definition inb (x : Z) (l : list Z) : bool := existsb (Z.eqb x) l.

Fixpoint nodupb (l : list Z) : bool :=
  match l with
  | [] => true
  | x :: t => negb (inb x t) && nodupb t
  end.

(* ---------- hypotheses of the property ("hierarchy-valid at start and at target",
   batch ordered like the tree) ---------- *)

(* updaters tagged with the index of their level *)
Fixpoint tag_levels (i : nat) (levels : list (list updater)) : list (list (nat * updater)) :=
  match levels with
  | [] => []
  | l :: ls => map (pair i) l :: tag_levels (S i) ls
  end.
Definition tagged (levels : list (list updater)) : list (nat * updater) := concat (tag_levels 0 levels).

(* for every edge (child, parent) of the hierarchy: whenever both files are in the batch the
   parent's level is strictly above the child's *)
Definition edge_levels_ok (tg : list (nat * updater)) (cp : Z * Z) : bool :=
  forallb (fun a => forallb (fun b =>
     negb ((ukey (snd a) =? fst cp) && (ukey (snd b) =? snd cp)) || (fst b <? fst a)%nat) tg) tg.
Definition levels_ok (e : env) (levels : list (list updater)) : bool :=
  forallb (edge_levels_ok (tagged levels)) (ehier e).

Fixpoint pos (x : Z) (l : list Z) : nat :=
  match l with
  | [] => O
  | y :: t => if x =? y then O else S (pos x t)
  end.

(* the order hypothesis of a batch whose arrangement is an INPUT (stream "leveled", where the
   harness plays the caller): the flattened batch lists every parent before its children (both
   being in the batch). A level may hold a cgroup together with its children, as the qos level of
   cgreconcile does. ([levels_ok] above, "the parent sits in a strictly upper level", is the
   stronger condition the bottom-up pass needed before ce7ebc1; see c12_level_forward_refuted.) *)
Definition topo_ok (e : env) (us : list updater) : bool :=
  let ks := map ukey us in
  forallb (fun cp => negb (inb (fst cp) ks && inb (snd cp) ks)
                     || (pos (snd cp) ks <? pos (fst cp) ks)%nat) (ehier e).

(* both ends of an edge are files of the same kind *)
Definition env_ok (e : env) : bool :=
  forallb (fun cp => kindof e (fst cp) =? kindof e (snd cp)) (ehier e).

Definition files_of (e : env) : list Z := map fst (ekinds e).

Definition vals_ok (e : env) (fs : fmap) (us : list updater) : bool :=
  forallb (fun k => vok (kindof e k) (get fs k)) (files_of e)
  && forallb (fun u => vok (kindof e (ukey u)) (uval u) && inb (ukey u) (files_of e)) us.

Definition hyps_ok (e : env) (fs : fmap) (levels : list (list updater)) : bool :=
  env_ok e
  && validb e fs
  && validb e (target_of fs (concat levels))
  && nodupb (map ukey (concat levels))
  && topo_ok e (concat levels)
  && vals_ok e fs (concat levels).

(* ---------- hypotheses for one applyCPUSetWithNonePolicy call ---------- *)
Definition be_updaters (paths : list Z) (new : Z) : list updater :=
  if new =? 0 then [] else map (fun p => mkU p new) paths.

(* ---------- hypotheses for a call whose level arrangement is the caller's own ([OCall]) ----------
   what the property assumes and nothing else: hierarchy valid at start and at target, one updater
   per file, well-formed values. How the updaters are arranged and ordered is NOT assumed: for the
   modelled caller it is proved (Proofs_Rc.rc_topo). *)
Definition hyps_call (e : env) (fs : fmap) (levels : list (list updater)) : bool :=
  env_ok e
  && validb e fs
  && validb e (target_of fs (concat levels))
  && nodupb (map ukey (concat levels))
  && vals_ok e fs (concat levels).

(* the walked paths are exactly the files of the hierarchy, every directory after its parent,
   all of them cpuset files whose current value is inside old ∪ new *)
Definition be_hyps (e : env) (fs : fmap) (paths : list Z) (old new : Z) : bool :=
  env_ok e
  && validb e fs
  && nodupb paths
  && forallb (fun cp => inb (fst cp) paths && inb (snd cp) paths
                        && (pos (snd cp) paths <? pos (fst cp) paths)%nat) (ehier e)
  && forallb (fun p => (kindof e p =? 0) && (0 <=? get fs p) && vle 0 (get fs p) (Z.lor old new)
                       && inb p (files_of e)) paths
  && (0 <=? old) && (0 <=? new).

(* ---------- hypotheses for one recover call (single top-down pass) ----------
   a pure growth: every walked cgroup currently holds a subset of the recovered cpuset; inside the
   walked list every directory comes after its parent; a walked cgroup whose parent is not walked
   stays inside that parent *)
Definition rec_updaters (paths : list Z) (new : Z) : list updater := map (fun p => mkU p new) paths.

Definition rec_hyps (e : env) (fs : fmap) (paths : list Z) (new : Z) : bool :=
  env_ok e
  && validb e fs
  && nodupb paths
  && forallb (fun cp => negb (inb (fst cp) paths)
                        || (if inb (snd cp) paths then (pos (snd cp) paths <? pos (fst cp) paths)%nat
                            else vle (kindof e (fst cp)) new (get fs (snd cp)))) (ehier e)
  && forallb (fun p => (kindof e p =? 0) && vle 0 (get fs p) new && inb p (files_of e)) paths
  && (0 <=? new).

(* the cache only remembers what the files hold (codes below -1 never equal a target) *)
Definition coherent (c fs : fmap) : Prop :=
  forall k v, lookup c k = Some v -> -1 <= v -> get fs k = v.

(* ---------- clauses ---------- *)
(* 1: every prefix of the write sequence is a possible crash point *)
Definition every_prefix_valid (e : env) (fs : fmap) (ws : list write) : Prop :=
  forall pre suf, ws = pre ++ suf -> validb e (apply_writes e pre fs) = true.
Fixpoint prefixes_validb (e : env) (fs : fmap) (ws : list write) : bool :=
  match ws with
  | [] => true
  | w :: r => validb e (apply_write e fs w) && prefixes_validb e (apply_write e fs w) r
  end.

(* 2: every updated file holds its target value *)
Definition final_ok (fin : fmap) (us : list updater) : Prop :=
  forall u, In u us -> get fin (ukey u) = uval u.
Definition final_okb (fin : fmap) (us : list updater) : bool :=
  forallb (fun u => get fin (ukey u) =? uval u) us.

(* 3: only files of the batch whose target differs from their start value are written, and
   every write changes the content *)
Definition target_val (fs : fmap) (us : list updater) (k : Z) : Z := get (target_of fs us) k.
Definition needed_write (fs : fmap) (us : list updater) (w : write) : bool :=
  inb (fst w) (map ukey us) && negb (get fs (fst w) =? target_val fs us (fst w)).
Fixpoint writes_changeb (e : env) (fs : fmap) (ws : list write) : bool :=
  match ws with
  | [] => true
  | w :: r => negb (get fs (fst w) =? norm_at e (fst w) (snd w)) && writes_changeb e (apply_write e fs w) r
  end.
Definition no_redundant (e : env) (fs : fmap) (us : list updater) (ws : list write) : Prop :=
  (forall w, In w ws -> In (fst w) (map ukey us) /\ get fs (fst w) <> target_val fs us (fst w))
  /\ (forall pre w suf, ws = pre ++ w :: suf ->
        get (apply_writes e pre fs) (fst w) <> norm_at e (fst w) (snd w)).
Definition no_redundantb (e : env) (fs : fmap) (us : list updater) (ws : list write) : bool :=
  forallb (needed_write fs us) ws && writes_changeb e fs ws.

(* 4: nothing else happened to the files *)
Definition same_on (ks : list Z) (a b : fmap) : Prop := forall k, In k ks -> get a k = get b k.
Definition same_onb (ks : list Z) (a b : fmap) : bool := forallb (fun k => get a k =? get b k) ks.

(* not a clause of the property: every written content is one the kernel accepts for that file *)
Definition legal_write (e : env) (w : write) : bool := vok (kindof e (fst w)) (snd w).
Definition legal (e : env) (ws : list write) : Prop := forall w, In w ws -> legal_write e w = true.
Definition legalb (e : env) (ws : list write) : bool := forallb (legal_write e) ws.


(* ---------- the property of one batch ---------- *)
Definition C12_batch (e : env) (fs : fmap) (levels : list (list updater)) (ws : list write) (fin : fmap) : Prop :=
  every_prefix_valid e fs ws
  /\ final_ok fin (concat levels)
  /\ same_on (files_of e) fin (apply_writes e ws fs)
  /\ no_redundant e fs (concat levels) ws.

Definition prop_code (e : env) (fs : fmap) (levels : list (list updater)) (ws : list write) (fin : fmap) : Z :=
  if negb (prefixes_validb e fs ws) then 1
  else if negb (final_okb fin (concat levels)) then 2
  else if negb (same_onb (files_of e) fin (apply_writes e ws fs)) then 4
  else if negb (no_redundantb e fs (concat levels) ws) then 3
  else 0.

(* ---------- histories: the observable of a batch is (writes, final files) ---------- *)
Notation bobs := (list write * fmap)%type.

(* decided on an observed history; a call whose hypotheses fail ends the judgement (the
   property says nothing about it nor about what follows) *)
Fixpoint hist_code (e : env) (fs : fmap) (ops : list op) (obs : list bobs) : Z :=
  match ops with
  | [] => 0
  | OExpire _ :: r => hist_code e fs r obs
  | OBatch ls :: r =>
      match obs with
      | [] => 9
      | (ws, fin) :: obs' =>
          if hyps_ok e fs ls then
            let c := prop_code e fs ls ws fin in
            if c =? 0 then hist_code e fin r obs' else c
          else 0
      end
  | OBe paths old new :: r =>
      match obs with
      | [] => 9
      | (ws, fin) :: obs' =>
          if be_hyps e fs paths (be_old fs paths old) new then
            let c := prop_code e fs [be_updaters paths new] ws fin in
            if c =? 0 then hist_code e fin r obs' else c
          else 0
      end
  | ORec paths new :: r =>
      match obs with
      | [] => 9
      | (ws, fin) :: obs' =>
          if rec_hyps e fs paths new then
            let c := prop_code e fs [rec_updaters paths new] ws fin in
            if c =? 0 then hist_code e fin r obs' else c
          else 0
      end
  | OAdj paths procs milli :: r =>
      (* old and new are recomputed from the files the history left, never taken from the call *)
      match obs with
      | [] => 9
      | (ws, fin) :: obs' =>
          let o := get fs (hd 0 paths) in
          let new := adj_new procs milli o in
          if be_hyps e fs paths o new then
            let c := prop_code e fs [be_updaters paths new] ws fin in
            if c =? 0 then hist_code e fin r obs' else c
          else 0
      end
  | OCall ls :: r =>
      match obs with
      | [] => 9
      | (ws, fin) :: obs' =>
          if hyps_call e fs ls then
            let c := prop_code e fs ls ws fin in
            if c =? 0 then hist_code e fin r obs' else c
          else 0
      end
  end.

(* the model's observable history *)
Fixpoint run_hist (e : env) (st : state) (ops : list op) : list bobs :=
  match ops with
  | [] => []
  | o :: r =>
      let '(st', ws) := step_op e st o in
      match o with
      | OExpire _ => run_hist e st' r
      | _ => (ws, sfs st') :: run_hist e st' r
      end
  end.
