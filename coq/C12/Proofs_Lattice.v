(* C12 — the containment order of cgroup values is a join-semilattice for every kind, and the
   value written by the merge pass is the join of old and new. No side conditions on the integers:
   cpu sets are bit masks under land/lor, limits are Z with -1 moved to the top. *)
From Coq Require Import List ZArith Bool Lia ZifyBool.
From Verif Require Import C12.Model.
Import ListNotations.
Open Scope Z_scope.

Lemma land_pointwise a b :
  Z.land a b = a -> forall n, Z.testbit a n && Z.testbit b n = Z.testbit a n.
Proof. intros H n. rewrite <- Z.land_spec, H. reflexivity. Qed.

Lemma subset_refl a : Z.land a a = a.
Proof. apply Z.land_diag. Qed.

Lemma subset_trans a b c : Z.land a b = a -> Z.land b c = b -> Z.land a c = a.
Proof.
  intros Hab Hbc. rewrite <- Hab at 1. rewrite <- Z.land_assoc, Hbc. exact Hab.
Qed.

Lemma subset_antisym a b : Z.land a b = a -> Z.land b a = b -> a = b.
Proof. intros Hab Hba. rewrite <- Hab, Z.land_comm. exact Hba. Qed.

Lemma subset_lor_l a b : Z.land a (Z.lor a b) = a.
Proof.
  apply Z.bits_inj'. intros n _. rewrite Z.land_spec, Z.lor_spec.
  destruct (Z.testbit a n), (Z.testbit b n); reflexivity.
Qed.

Lemma subset_lor_r a b : Z.land b (Z.lor a b) = b.
Proof. rewrite Z.lor_comm. apply subset_lor_l. Qed.

Lemma subset_lor_lub a b c : Z.land a c = a -> Z.land b c = b -> Z.land (Z.lor a b) c = Z.lor a b.
Proof. intros Ha Hb. rewrite Z.land_lor_distr_l, Ha, Hb. reflexivity. Qed.

Lemma subset_lor_abs a b : Z.land b a = b -> Z.lor a b = a.
Proof.
  intros H. apply Z.bits_inj'. intros n _. rewrite Z.lor_spec.
  pose proof (land_pointwise _ _ H n) as Hn.
  destruct (Z.testbit a n), (Z.testbit b n); cbn in *; congruence.
Qed.

(* ---------- the order ---------- *)
Lemma vle_refl k a : vle k a a = true.
Proof.
  unfold vle. destruct (is_set k).
  - apply Z.eqb_eq, subset_refl.
  - lia.
Qed.

Lemma vle_trans k a b c : vle k a b = true -> vle k b c = true -> vle k a c = true.
Proof.
  unfold vle. destruct (is_set k).
  - rewrite !Z.eqb_eq. apply subset_trans.
  - lia.
Qed.

Lemma vle_antisym k a b : vle k a b = true -> vle k b a = true -> a = b.
Proof.
  unfold vle. destruct (is_set k).
  - rewrite !Z.eqb_eq. apply subset_antisym.
  - lia.
Qed.

Lemma vjoin_ub_l k a b : vle k a (vjoin k a b) = true.
Proof.
  unfold vle, vjoin. destruct (is_set k).
  - apply Z.eqb_eq, subset_lor_l.
  - destruct ((a =? -1) || (b =? -1)) eqn:E; lia.
Qed.

Lemma vjoin_ub_r k a b : vle k b (vjoin k a b) = true.
Proof.
  unfold vle, vjoin. destruct (is_set k).
  - apply Z.eqb_eq, subset_lor_r.
  - destruct ((a =? -1) || (b =? -1)) eqn:E; lia.
Qed.

Lemma vjoin_lub k a b c : vle k a c = true -> vle k b c = true -> vle k (vjoin k a b) c = true.
Proof.
  unfold vle, vjoin. destruct (is_set k).
  - rewrite !Z.eqb_eq. apply subset_lor_lub.
  - destruct ((a =? -1) || (b =? -1)) eqn:E; lia.
Qed.

(* new ⊑ old: the merge condition is not met and the join is the old value *)
Lemma vjoin_abs k a b : vle k b a = true -> vjoin k a b = a.
Proof.
  unfold vle, vjoin. destruct (is_set k).
  - rewrite Z.eqb_eq. apply subset_lor_abs.
  - destruct ((a =? -1) || (b =? -1)) eqn:E; lia.
Qed.

Lemma vjoin_diag k a : vjoin k a a = a.
Proof. apply vjoin_abs, vle_refl. Qed.

(* the merge pass writes the join *)
Lemma merged_is_join k old new : vle k new old = false -> merged_value k old new = vjoin k old new.
Proof.
  unfold vle, vjoin, merged_value. destruct (is_set k).
  - intros _. apply Z.lor_comm.
  - destruct ((old =? -1) || (new =? -1)) eqn:E; lia.
Qed.

Lemma vjoin_ne_old k old new : vle k new old = false -> vjoin k old new <> old.
Proof.
  intros H E. pose proof (vjoin_ub_r k old new) as U. rewrite E in U. congruence.
Qed.

(* values the kernel accepts stay acceptable under join *)
Lemma vok_join k a b : vok k a = true -> vok k b = true -> vok k (vjoin k a b) = true.
Proof.
  unfold vok, vjoin. destruct (is_set k).
  - intros Ha Hb. apply Z.leb_le. apply Z.lor_nonneg. lia.
  - destruct ((a =? -1) || (b =? -1)) eqn:E; lia.
Qed.

(* the Prop reading of containment for non-negative masks: every cpu of a is a cpu of b *)
Lemma subset_spec a b :
  Z.land a b = a <-> (forall n, Z.testbit a n = true -> Z.testbit b n = true).
Proof.
  split.
  - intros H n Ha. pose proof (land_pointwise _ _ H n) as Hn. rewrite Ha in Hn. exact Hn.
  - intros H. apply Z.bits_inj'. intros n _. rewrite Z.land_spec.
    destruct (Z.testbit a n) eqn:Ha; [rewrite (H n Ha)|]; reflexivity.
Qed.
