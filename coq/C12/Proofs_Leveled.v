(* C12 — LeveledUpdateBatch as an instance of the two-pass argument:
   pass 1 = merge steps over [concat levels] with J = old ⊔ new, pass 2 = exact steps over the
   levels from the last to the first, each level backwards (as repaired by ce7ebc1), which is
   [rev (concat levels)]. The only order fact needed is [topo_ok]: the flattened batch lists every
   parent before its children — levels may hold a cgroup together with its children. *)
From Coq Require Import List ZArith Bool Lia ZifyBool Permutation Sorting.Sorted.
From Verif Require Import C12.Model C12.Spec C12.Proofs_Lattice C12.Proofs_Steps C12.Proofs_Pass C12.Proofs_Be.
Import ListNotations.
Open Scope Z_scope.

(* ---------- target_of ---------- *)
Lemma target_of_notin us : forall fs k, ~ In k (map ukey us) -> get (target_of fs us) k = get fs k.
Proof.
  induction us as [|a r IH]; intros fs k Hk; [reflexivity|].
  cbn [target_of fold_left]. fold (target_of (set_updater fs a) r).
  cbn [map] in Hk. rewrite IH by (intros H; apply Hk; right; exact H).
  unfold set_updater. rewrite get_set. destruct (ukey a =? k) eqn:E; [|reflexivity].
  apply Z.eqb_eq in E. exfalso. apply Hk. left. exact E.
Qed.

Lemma target_of_in us : forall fs u, NoDup (map ukey us) -> In u us -> get (target_of fs us) (ukey u) = uval u.
Proof.
  induction us as [|a r IH]; intros fs u Hnd Hin; [contradiction|].
  cbn [target_of fold_left]. fold (target_of (set_updater fs a) r).
  cbn [map] in Hnd. inversion Hnd as [|? ? Hnotin Hnd']. subst.
  destruct Hin as [->|Hin].
  - rewrite target_of_notin by exact Hnotin. unfold set_updater. rewrite get_set, Z.eqb_refl. reflexivity.
  - apply IH; assumption.
Qed.

(* ---------- the two orders ---------- *)
Lemma concat_map_rev_rev {A} (l : list (list A)) : concat (map (@rev A) (rev l)) = rev (concat l).
Proof.
  induction l as [|a l IH]; [reflexivity|].
  cbn [rev concat]. rewrite map_app, concat_app, IH. cbn [map concat]. rewrite app_nil_r, rev_app_distr. reflexivity.
Qed.

Lemma topo_ok_spec e us :
  topo_ok e us = true ->
  forall c p, In (c, p) (ehier e) -> In c (map ukey us) -> In p (map ukey us) ->
              (pos p (map ukey us) < pos c (map ukey us))%nat.
Proof.
  unfold topo_ok. rewrite forallb_forall. intros H c p Hin Hc Hp.
  specialize (H (c, p) Hin). cbn [fst snd] in H.
  apply inb_In in Hc. apply inb_In in Hp. rewrite Hc, Hp in H. cbn in H. apply Nat.ltb_lt. exact H.
Qed.

Lemma topo_ord1 e us :
  topo_ok e us = true ->
  forall c p, In (c, p) (ehier e) -> In p (map ukey us) ->
  forall a b, map ukey us = a ++ b -> In c a -> In p a.
Proof.
  intros Ht c p Hin Hp a b Hsplit Hc.
  apply (pos_prefix_closed (map ukey us) p c a b); [|exact Hsplit|exact Hc].
  apply (topo_ok_spec e us Ht c p Hin); [|exact Hp]. rewrite Hsplit. apply in_or_app. left. exact Hc.
Qed.

Lemma topo_ord2 e us :
  topo_ok e us = true -> NoDup (map ukey us) ->
  forall c p, In (c, p) (ehier e) -> In c (map ukey (rev us)) ->
  forall a b, map ukey (rev us) = a ++ b -> In p a -> In c a.
Proof.
  intros Ht Hnd c p Hin Hc a b Hsplit Hp. rewrite map_rev in Hsplit, Hc. apply in_rev in Hc.
  apply (pos_rev_prefix_closed (map ukey us) p c a b Hnd Hc); [|exact Hsplit|exact Hp].
  apply (topo_ok_spec e us Ht c p Hin Hc). apply in_rev. rewrite Hsplit. apply in_or_app. left. exact Hp.
Qed.

(* ---------- hypotheses, unpacked ---------- *)
Lemma vok_ge k v : vok k v = true -> -1 <= v.
Proof. unfold vok. destruct (is_set k); lia. Qed.

Record hyps (e : env) (fs : fmap) (levels : list (list updater)) : Prop := mkHyps {
  h_kinds : kinds_ok e;
  h_start : validF e (get fs);
  h_target : validF e (get (target_of fs (concat levels)));
  h_nodup : NoDup (map ukey (concat levels));
  h_topo : topo_ok e (concat levels) = true;
  h_vals_fs : forall k, In k (files_of e) -> vok (kindof e k) (get fs k) = true;
  h_vals_us : forall u, In u (concat levels) -> vok (kindof e (ukey u)) (uval u) = true /\ In (ukey u) (files_of e) }.

Lemma hyps_ok_hyps e fs levels : hyps_ok e fs levels = true -> hyps e fs levels.
Proof.
  unfold hyps_ok, vals_ok. rewrite !andb_true_iff. intros [[[[[H1 H2] H3] H4] H5] [H6 H7]].
  constructor.
  - apply env_ok_kinds; exact H1.
  - apply validb_validF; exact H2.
  - apply validb_validF; exact H3.
  - apply nodupb_NoDup; exact H4.
  - exact H5.
  - rewrite forallb_forall in H6. exact H6.
  - rewrite forallb_forall in H7. intros u Hu. specialize (H7 u Hu).
    apply andb_true_iff in H7. destruct H7 as [Ha Hb]. split; [exact Ha|apply inb_In; exact Hb].
Qed.

(* ---------- the instance ---------- *)
Section Leveled.
  Variable e : env.
  Variable st : state.
  Variable levels : list (list updater).
  Hypothesis H : hyps e (sfs st) levels.
  Hypothesis Hcoh : coherent_st st.

  Let us1 := concat levels.
  Let us2 := rev (concat levels).
  Let old := get (sfs st).
  Let new := get (target_of (sfs st) us1).
  Let J := fun k => if inb k (map ukey us1) then vjoin (kindof e k) (old k) (new k) else old k.

  Lemma lv_new_in u : In u us1 -> new (ukey u) = uval u.
  Proof. intros Hu. apply target_of_in; [apply (h_nodup _ _ _ H)|exact Hu]. Qed.

  Lemma lv_new_out k : ~ In k (map ukey us1) -> new k = old k.
  Proof. intros Hk. apply target_of_notin. exact Hk. Qed.

  Lemma lv_oJ k : vle (kindof e k) (old k) (J k) = true.
  Proof. unfold J. destruct (inb k (map ukey us1)); [apply vjoin_ub_l|apply vle_refl]. Qed.

  Lemma lv_nJ k : vle (kindof e k) (new k) (J k) = true.
  Proof.
    unfold J. destruct (inb k (map ukey us1)) eqn:E; [apply vjoin_ub_r|].
    apply inb_false in E. rewrite lv_new_out by exact E. apply vle_refl.
  Qed.

  Lemma lv_Jm : validF e J.
  Proof.
    intros c p Hin. pose proof (h_kinds _ _ _ H c p Hin) as Hkp.
    pose proof (h_start _ _ _ H c p Hin) as Ho. pose proof (h_target _ _ _ H c p Hin) as Hn.
    fold old in Ho. fold us1 new in Hn.
    pose proof (lv_oJ p) as HoJp. pose proof (lv_nJ p) as HnJp. rewrite <- Hkp in HoJp, HnJp.
    unfold J at 1. destruct (inb c (map ukey us1)).
    - apply vjoin_lub; [apply vle_trans with (old p)|apply vle_trans with (new p)]; assumption.
    - apply vle_trans with (old p); assumption.
  Qed.

  Lemma lv_same k : In k (map ukey us1) <-> In k (map ukey us2).
  Proof. unfold us2. fold us1. rewrite map_rev. apply in_rev. Qed.

  Lemma lv_nd2 : NoDup (map ukey us2).
  Proof.
    apply Permutation_NoDup with (map ukey us1); [|apply (h_nodup _ _ _ H)].
    apply Permutation_map. unfold us2. fold us1. apply Permutation_rev.
  Qed.

  Lemma lv_step1 s u :
    coherent_st s -> In u us1 /\ get (sfs s) (ukey u) = old (ukey u) -> step_rel e J s u (merge_step e s u).
  Proof.
    intros Hc [Hu Hv]. apply merge_step_rel; [exact Hc| |].
    - apply vok_ge with (kindof e (ukey u)). apply (h_vals_us _ _ _ H u Hu).
    - unfold J. assert (Hin : inb (ukey u) (map ukey us1) = true) by (apply inb_In, in_map, Hu).
      rewrite Hin, Hv, (lv_new_in u Hu). reflexivity.
  Qed.

  Lemma lv_us2 u : In u us2 -> uval u = new (ukey u) /\ -1 <= uval u.
  Proof.
    intros Hu. unfold us2 in Hu. apply in_rev in Hu. fold us1 in Hu. split.
    - symmetry. apply lv_new_in. exact Hu.
    - apply vok_ge with (kindof e (ukey u)). apply (h_vals_us _ _ _ H u Hu).
  Qed.

  Lemma lv_out k : ~ In k (map ukey us1) -> J k = old k /\ new k = old k.
  Proof.
    intros Hk. split; [|apply lv_new_out; exact Hk].
    unfold J. apply inb_false in Hk. rewrite Hk. reflexivity.
  Qed.

  Lemma leveled_update_eq :
    leveled_update e st levels =
    (fst (run (exact_step e) (fst (run (merge_step e) st us1)) us2),
     snd (run (merge_step e) st us1) ++ snd (run (exact_step e) (fst (run (merge_step e) st us1)) us2)).
  Proof.
    unfold leveled_update. rewrite concat_map_rev_rev.
    change (rev (concat levels)) with us2. change (concat levels) with us1.
    destruct (run (merge_step e) st us1) as [s1 t1]. cbn [fst snd].
    destruct (run (exact_step e) s1 us2) as [s2 t2]. reflexivity.
  Qed.

  Let res := leveled_update e st levels.

  Lemma leveled_all :
    every_prefix_valid e (sfs st) (snd res)
    /\ (forall k, get (sfs (fst res)) k = new k)
    /\ coherent_st (fst res)
    /\ (forall k, inb k (map ukey us1) = false -> lookup (scache (fst res)) k = lookup (scache st) k)
    /\ sfs (fst res) = apply_writes e (snd res) (sfs st)
    /\ (forall pre w suf, snd res = pre ++ w :: suf ->
          In (fst w) (map ukey us1)
          /\ (on_q e (fst w) = false ->
                get (apply_writes e pre (sfs st)) (fst w) <> norm_at e (fst w) (snd w)
                /\ (J (fst w) <> old (fst w) \/ new (fst w) <> J (fst w)))
          /\ (snd w = J (fst w) \/ snd w = new (fst w) \/ (on_q e (fst w) = true /\ snd w = -2))).
  Proof.
    unfold res. rewrite leveled_update_eq. cbn [fst snd].
    apply (two_pass_all e (merge_step e) us1 us2 old new J st
             (h_kinds _ _ _ H) (h_start _ _ _ H) (h_target _ _ _ H) lv_oJ lv_nJ lv_Jm
             (fun k => eq_refl) Hcoh (h_nodup _ _ _ H) lv_nd2 lv_same lv_out lv_step1 lv_us2
             (topo_ord1 e us1 (h_topo _ _ _ H)) (topo_ord2 e us1 (h_topo _ _ _ H) (h_nodup _ _ _ H))).
  Qed.

  Theorem leveled_prefix_valid : every_prefix_valid e (sfs st) (snd res).
  Proof. apply leveled_all. Qed.

  Theorem leveled_final : forall k, get (sfs (fst res)) k = get (target_of (sfs st) (concat levels)) k.
  Proof. apply leveled_all. Qed.

  Theorem leveled_coherent : coherent_st (fst res).
  Proof. apply leveled_all. Qed.

  Theorem leveled_cache_frame :
    forall k, inb k (map ukey (concat levels)) = false -> lookup (scache (fst res)) k = lookup (scache st) k.
  Proof. apply leveled_all. Qed.

  Theorem leveled_apply : sfs (fst res) = apply_writes e (snd res) (sfs st).
  Proof. apply leveled_all. Qed.

  Lemma leveled_writes pre w suf :
    snd res = pre ++ w :: suf ->
    In (fst w) (map ukey us1)
    /\ (on_q e (fst w) = false ->
          get (apply_writes e pre (sfs st)) (fst w) <> norm_at e (fst w) (snd w)
          /\ (J (fst w) <> old (fst w) \/ new (fst w) <> J (fst w)))
    /\ (snd w = J (fst w) \/ snd w = new (fst w) \/ (on_q e (fst w) = true /\ snd w = -2)).
  Proof. revert pre w suf. apply leveled_all. Qed.

  Theorem leveled_valid_after : validb e (sfs (fst res)) = true.
  Proof.
    apply validb_validF. apply validF_ext with (get (target_of (sfs st) (concat levels))).
    - intros k. symmetry. apply leveled_final.
    - apply (h_target _ _ _ H).
  Qed.

  (* files that are not cpu.max on cgroup v2 *)
  Hypothesis Hnoq : forall u, In u (concat levels) -> on_q e (ukey u) = false.

  Lemma lv_key_noq k : In k (map ukey us1) -> on_q e k = false.
  Proof. intros Hk. apply in_map_iff in Hk. destruct Hk as [u [<- Hu]]. apply Hnoq. exact Hu. Qed.

  Theorem leveled_no_redundant : no_redundant e (sfs st) (concat levels) (snd res).
  Proof.
    split.
    - intros w Hw. apply in_split in Hw. destruct Hw as (pre & suf & Hs).
      destruct (leveled_writes pre w suf Hs) as (Hin & Hch & _).
      split; [exact Hin|]. destruct (Hch (lv_key_noq _ Hin)) as [_ Hd].
      unfold target_val. fold us1 new old. intros E.
      assert (HJ : J (fst w) = old (fst w)).
      { unfold J. apply inb_In in Hin. rewrite Hin, <- E. apply vjoin_diag. }
      destruct Hd as [Hd|Hd]; apply Hd; congruence.
    - intros pre w suf Hs. destruct (leveled_writes pre w suf Hs) as (Hin & Hch & _).
      apply (Hch (lv_key_noq _ Hin)).
  Qed.

  Theorem leveled_legal : legal e (snd res).
  Proof.
    intros w Hw. apply in_split in Hw. destruct Hw as (pre & suf & Hs).
    destruct (leveled_writes pre w suf Hs) as (Hin & _ & Hcode).
    pose proof (lv_key_noq _ Hin) as Q.
    apply in_map_iff in Hin. destruct Hin as [u [Hk Hu]].
    destruct (h_vals_us _ _ _ H u Hu) as [Hvu Hfile].
    assert (Hvnew : vok (kindof e (fst w)) (new (fst w)) = true).
    { rewrite <- Hk, (lv_new_in u Hu). exact Hvu. }
    assert (Hvold : vok (kindof e (fst w)) (old (fst w)) = true).
    { rewrite <- Hk. apply (h_vals_fs _ _ _ H). exact Hfile. }
    unfold legal_write. destruct Hcode as [Hc|[Hc|[Hc _]]]; [| |congruence]; rewrite Hc; [|exact Hvnew].
    unfold J. destruct (inb (fst w) (map ukey us1)); [apply vok_join; assumption|exact Hvold].
  Qed.
End Leveled.
