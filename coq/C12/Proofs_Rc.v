(* C12 — facts about the modelled caller cgroupResourcesReconcile (Reconcile.v):
   [rc_topo]: whatever the pods and the configuration, the batch it hands to LeveledUpdateBatch
   lists every parent file before its children — kubepods first inside the qos level, the qos level
   before the pod level before the container level. This is the order hypothesis [topo_ok] of the
   batch theorems, PROVED for this caller instead of assumed. *)
From Coq Require Import List ZArith Bool Lia ZifyBool Sorting.Sorted.
From Verif Require Import C12.Model C12.Spec C12.Reconcile C12.Proofs_Steps C12.Proofs_Be.
Import ListNotations.
Open Scope Z_scope.

(* ---------- rank-sorted lists ---------- *)
Section Rank.
  Variable rank : Z -> Z.
  Let le_rank (a b : Z) : Prop := rank a <= rank b.

  Lemma SS_app_intro l1 l2 :
    StronglySorted le_rank l1 -> StronglySorted le_rank l2 ->
    (forall a b, In a l1 -> In b l2 -> le_rank a b) -> StronglySorted le_rank (l1 ++ l2).
  Proof.
    induction l1 as [|x l1 IH]; intros H1 H2 Hc; [exact H2|].
    inversion H1 as [|? ? Hs Hf]. subst. cbn [app]. constructor.
    - apply IH; auto. intros a b Ha Hb. apply Hc; [right; exact Ha|exact Hb].
    - apply Forall_app. split; [exact Hf|]. apply Forall_forall. intros b Hb. apply Hc; [left; reflexivity|exact Hb].
  Qed.

  Lemma SS_const l r : (forall a, In a l -> rank a = r) -> StronglySorted le_rank l.
  Proof.
    induction l as [|x l IH]; intros H; constructor.
    - apply IH. intros a Ha. apply H. right. exact Ha.
    - apply Forall_forall. intros y Hy. unfold le_rank. rewrite (H x), (H y); [lia|right; exact Hy|left; reflexivity].
  Qed.

  Lemma sorted_pos l x y :
    StronglySorted le_rank l -> In x l -> In y l -> rank x < rank y -> (pos x l < pos y l)%nat.
  Proof.
    induction l as [|h t IH]; intros Hs Hx Hy Hlt; [contradiction|].
    inversion Hs as [|? ? Hs' Hf]. subst. cbn [pos].
    destruct (x =? h) eqn:Ex.
    - apply Z.eqb_eq in Ex. subst h. destruct (y =? x) eqn:Ey; [apply Z.eqb_eq in Ey; subst y; lia|lia].
    - apply Z.eqb_neq in Ex. destruct Hx as [Hx|Hx]; [congruence|].
      destruct (y =? h) eqn:Ey.
      + apply Z.eqb_eq in Ey. subst h. rewrite Forall_forall in Hf. specialize (Hf x Hx). unfold le_rank in Hf. lia.
      + apply Z.eqb_neq in Ey. destruct Hy as [Hy|Hy]; [congruence|]. specialize (IH Hs' Hx Hy Hlt). lia.
  Qed.
End Rank.

(* ---------- directories of a key ---------- *)
Lemma key_div d i : 0 <= i < 3 -> (d * 3 + i) / 3 = d.
Proof. intros Hi. Z.div_mod_to_equations. lia. Qed.

Lemma keys_mk_res dir mn lw hi k : In k (map ukey (mk_res dir mn lw hi)) -> k / 3 = dir.
Proof.
  unfold mk_res. rewrite !map_app, !in_app_iff. intros [H|[H|H]].
  - destruct mn; cbn [map ukey In] in H; [destruct H as [H|[]]; subst k|contradiction].
    replace (dir * 3) with (dir * 3 + 0) by lia. apply key_div; lia.
  - destruct lw; cbn [map ukey In] in H; [destruct H as [H|[]]; subst k|contradiction]. apply key_div; lia.
  - destruct hi; cbn [map ukey In] in H; [destruct H as [H|[]]; subst k|contradiction]. apply key_div; lia.
Qed.

Lemma keys_container_res node mnp lwp thp cs : forall dir k,
  In k (map ukey (container_res dir node mnp lwp thp cs)) -> dir <= k / 3 < dir + Z.of_nat (length cs).
Proof.
  induction cs as [|[r0 l] t IH]; intros dir k H; [contradiction|].
  cbn [container_res] in H. rewrite map_app, in_app_iff in H. cbn [length]. destruct H as [H|H].
  - apply keys_mk_res in H. lia.
  - apply IH in H. lia.
Qed.

(* ---------- rank of a directory: 0 kubepods, 1 the other QoS dirs, 2 pods, 3 containers ---------- *)
Fixpoint drank (sh : shape) (dir d : Z) : Z :=
  match sh with
  | [] => 0
  | (typ, nc) :: sh' =>
      if d =? dir then 2
      else if (dir <? d) && (d <=? dir + Z.of_nat nc) then 3
      else drank sh' (dir + 1 + Z.of_nat nc) d
  end.

Definition rankd (sh : shape) (d : Z) : Z := if d =? 0 then 0 else if d <? 3 then 1 else drank sh 3 d.
Definition rankk (sh : shape) (k : Z) : Z := rankd sh (k / 3).

Lemma drank_skip typ nc sh dir d :
  dir + 1 + Z.of_nat nc <= d -> drank ((typ, nc) :: sh) dir d = drank sh (dir + 1 + Z.of_nat nc) d.
Proof.
  intros H. cbn [drank]. destruct (d =? dir) eqn:E1; [lia|].
  destruct ((dir <? d) && (d <=? dir + Z.of_nat nc)) eqn:E2; [lia|reflexivity].
Qed.

(* what one walk over the pods appends *)
Lemma walk_spec node cfg : forall sh pods dir a,
  exists P C,
    a_pods (walk sh pods dir node cfg a) = a_pods a ++ P
    /\ a_conts (walk sh pods dir node cfg a) = a_conts a ++ C
    /\ (forall k, In k (map ukey P) -> drank sh dir (k / 3) = 2 /\ dir <= k / 3)
    /\ (forall k, In k (map ukey C) -> drank sh dir (k / 3) = 3 /\ dir <= k / 3).
Proof.
  induction sh as [|[typ nc] sh IH]; intros pods dir a.
  - exists [], []. cbn [walk]. rewrite !app_nil_r. split; [reflexivity|]. split; [reflexivity|]. split; intros k [].
  - destruct pods as [|p pods].
    + exists [], []. cbn [walk]. rewrite !app_nil_r. split; [reflexivity|]. split; [reflexivity|]. split; intros k [].
    + cbn [walk]. destruct (rp_active p).
      * match goal with |- context [walk sh pods ?d node cfg ?a1] => destruct (IH pods d a1) as (P & C & HP & HC & HkP & HkC) end.
        cbn [a_pods a_conts] in HP, HC.
        match type of HP with _ = (_ ++ ?p0) ++ _ => set (P0 := p0) in * end.
        match type of HC with _ = (_ ++ ?c0) ++ _ => set (C0 := c0) in * end.
        exists (P0 ++ P), (C0 ++ C). rewrite HP, HC, <- !app_assoc. split; [reflexivity|]. split; [reflexivity|].
        split; intros k Hk; rewrite map_app, in_app_iff in Hk; destruct Hk as [Hk|Hk].
        -- apply keys_mk_res in Hk. rewrite Hk. cbn [drank]. rewrite Z.eqb_refl. lia.
        -- destruct (HkP k Hk) as [H1 H2]. rewrite drank_skip by lia. lia.
        -- apply keys_container_res in Hk. rewrite firstn_length in Hk. cbn [drank].
           destruct (k / 3 =? dir) eqn:E1; [lia|].
           destruct ((dir <? k / 3) && (k / 3 <=? dir + Z.of_nat nc)) eqn:E2; lia.
        -- destruct (HkC k Hk) as [H1 H2]. rewrite drank_skip by lia. lia.
      * destruct (IH pods (dir + 1 + Z.of_nat nc) a) as (P & C & HP & HC & HkP & HkC).
        exists P, C. split; [exact HP|]. split; [exact HC|].
        split; intros k Hk; [destruct (HkP k Hk)|destruct (HkC k Hk)]; rewrite drank_skip by lia; lia.
Qed.

(* the directory edges *)
Lemma kube_of_range typ : 0 <= kube_of typ < 3.
Proof.
  unfold kube_of. pose proof (Z.mod_pos_bound typ 4 ltac:(lia)) as H.
  destruct (typ mod 4 <=? 1) eqn:E; lia.
Qed.

Lemma dir_parents_rank : forall sh dir c p,
  In (c, p) (dir_parents sh dir) ->
  (drank sh dir c = 2 /\ 0 <= p < 3 /\ dir <= c)
  \/ (drank sh dir c = 3 /\ drank sh dir p = 2 /\ dir <= p /\ dir <= c).
Proof.
  induction sh as [|[typ nc] sh IH]; intros dir c p H; [contradiction|].
  cbn [dir_parents] in H. destruct H as [H|H].
  - inversion H; subst c p. left. cbn [drank]. rewrite Z.eqb_refl. unfold pod_parent.
    pose proof (kube_of_range typ). lia.
  - rewrite in_app_iff in H. destruct H as [H|H].
    + apply in_map_iff in H. destruct H as [i [Hi Hin]]. inversion Hi; subst c p.
      apply in_seq in Hin. right. cbn [drank]. rewrite Z.eqb_refl.
      destruct (dir + 1 + Z.of_nat i =? dir) eqn:E1; [lia|].
      destruct ((dir <? dir + 1 + Z.of_nat i) && (dir + 1 + Z.of_nat i <=? dir + Z.of_nat nc)) eqn:E2; lia.
    + destruct (IH _ _ _ H) as [(H1 & H2 & H3)|(H1 & H2 & H3 & H4)]; [left|right]; rewrite !drank_skip by lia; lia.
Qed.

Lemma rc_parents_rank sh c p : In (c, p) (rc_parents sh) -> rankd sh p < rankd sh c.
Proof.
  unfold rc_parents. intros [H|[H|H]]; [inversion H; subst; reflexivity|inversion H; subst; reflexivity|].
  unfold rankd. destruct (dir_parents_rank sh 3 c p H) as [(H1 & H2 & H3)|(H1 & H2 & H3 & H4)].
  - destruct (c =? 0) eqn:E1; [lia|]. destruct (c <? 3) eqn:E2; [lia|]. rewrite H1.
    destruct (p =? 0); [lia|]. destruct (p <? 3) eqn:E3; lia.
  - destruct (c =? 0) eqn:E1; [lia|]. destruct (c <? 3) eqn:E2; [lia|].
    destruct (p =? 0) eqn:E3; [lia|]. destruct (p <? 3) eqn:E4; [lia|]. lia.
Qed.

(* ---------- the batch is rank-sorted ---------- *)
Lemma rc_keys_sorted sh rd :
  StronglySorted (fun a b => rankk sh a <= rankk sh b) (map ukey (concat (rc_levels sh rd))).
Proof.
  unfold rc_levels.
  destruct (walk_spec (rr_node rd) (rr_cfg rd) sh (rr_pods rd) 3
              (mkAcc [] [] [None; None; None] [None; None; None])) as (P & C & HP & HC & HkP & HkC).
  cbn [a_pods a_conts app] in HP, HC. rewrite HP, HC.
  cbn [concat]. rewrite app_nil_r, !map_app.
  assert (R0 : forall mn lw hi k, In k (map ukey (mk_res 0 mn lw hi)) -> rankk sh k = 0).
  { intros mn lw hi k Hk. apply keys_mk_res in Hk. unfold rankk, rankd. rewrite Hk. reflexivity. }
  assert (R1 : forall d mn lw hi k, d = 1 \/ d = 2 -> In k (map ukey (mk_res d mn lw hi)) -> rankk sh k = 1).
  { intros d mn lw hi k Hd Hk. apply keys_mk_res in Hk. unfold rankk, rankd. rewrite Hk. destruct Hd; subst d; reflexivity. }
  assert (R2 : forall k, In k (map ukey P) -> rankk sh k = 2).
  { intros k Hk. destruct (HkP k Hk) as [H1 H2]. unfold rankk, rankd.
    destruct (k / 3 =? 0) eqn:E1; [lia|]. destruct (k / 3 <? 3) eqn:E2; [lia|exact H1]. }
  assert (R3 : forall k, In k (map ukey C) -> rankk sh k = 3).
  { intros k Hk. destruct (HkC k Hk) as [H1 H2]. unfold rankk, rankd.
    destruct (k / 3 =? 0) eqn:E1; [lia|]. destruct (k / 3 <? 3) eqn:E2; [lia|exact H1]. }
  repeat apply SS_app_intro.
  - apply SS_const with 0. apply R0.
  - apply SS_const with 1. intros a Ha. apply (R1 1 _ _ _ a (or_introl eq_refl) Ha).
  - apply SS_const with 1. intros a Ha. apply (R1 2 _ _ _ a (or_intror eq_refl) Ha).
  - intros a b Ha Hb. rewrite (R1 1 _ _ _ a (or_introl eq_refl) Ha), (R1 2 _ _ _ b (or_intror eq_refl) Hb). lia.
  - intros a b Ha Hb. rewrite (R0 _ _ _ a Ha). rewrite in_app_iff in Hb.
    destruct Hb as [Hb|Hb]; [rewrite (R1 1 _ _ _ b (or_introl eq_refl) Hb)|rewrite (R1 2 _ _ _ b (or_intror eq_refl) Hb)]; lia.
  - apply SS_const with 2. exact R2.
  - apply SS_const with 3. exact R3.
  - intros a b Ha Hb. rewrite (R2 a Ha), (R3 b Hb). lia.
  - intros a b Ha Hb.
    assert (Hra : rankk sh a <= 1).
    { rewrite !in_app_iff in Ha. destruct Ha as [Ha|[Ha|Ha]];
        [rewrite (R0 _ _ _ a Ha)|rewrite (R1 1 _ _ _ a (or_introl eq_refl) Ha)|rewrite (R1 2 _ _ _ a (or_intror eq_refl) Ha)]; lia. }
    rewrite in_app_iff in Hb. destruct Hb as [Hb|Hb]; [rewrite (R2 b Hb)|rewrite (R3 b Hb)]; lia.
Qed.

Theorem rc_topo ver sh rd : topo_ok (rc_env ver sh) (concat (rc_levels sh rd)) = true.
Proof.
  unfold topo_ok. apply forallb_forall. intros [ck pk] Hin. cbn [fst snd].
  destruct (inb ck (map ukey (concat (rc_levels sh rd))) && inb pk (map ukey (concat (rc_levels sh rd)))) eqn:E;
    [|reflexivity].
  cbn [negb orb]. apply andb_true_iff in E. destruct E as [Ec Ep]. apply inb_In in Ec. apply inb_In in Ep.
  apply Nat.ltb_lt. apply (sorted_pos (rankk sh)); [apply rc_keys_sorted|exact Ep|exact Ec|].
  unfold rc_env in Hin. cbn [ehier] in Hin. apply in_flat_map in Hin. destruct Hin as [[c p] [Hcp Hin]].
  pose proof (rc_parents_rank sh c p Hcp) as Hr. cbn [fst snd In] in Hin. unfold rankk.
  destruct Hin as [H|[H|[H|[]]]]; inversion H; subst ck pk.
  - replace (p * 3) with (p * 3 + 0) by lia. replace (c * 3) with (c * 3 + 0) by lia. rewrite !key_div by lia. exact Hr.
  - rewrite !key_div by lia. exact Hr.
  - rewrite !key_div by lia. exact Hr.
Qed.

(* no file of this caller is cpu.max *)
Lemma get_ind (P : Z -> Prop) (m : fmap) k : P 0 -> (forall x, In x m -> P (snd x)) -> P (get m k).
Proof.
  intros H0 Hall. unfold get. induction m as [|[a b] m IH]; cbn [lookup]; [exact H0|].
  destruct (a =? k).
  - apply (Hall (a, b)). left. reflexivity.
  - apply IH. intros x Hx. apply Hall. right. exact Hx.
Qed.

Lemma rc_noq ver sh k : on_q (rc_env ver sh) k = false.
Proof.
  unfold on_q, is_q, kindof, rc_env. cbn [ekinds ever].
  apply (get_ind (fun v => (ver =? 1) && (v =? 1) = false)).
  - apply andb_false_r.
  - intros x Hx. apply in_flat_map in Hx. destruct Hx as [d [_ Hx]].
    cbn [In] in Hx. destruct Hx as [Hx|[Hx|[Hx|[]]]]; subst x; cbn [snd]; apply andb_false_r.
Qed.
