(* C10 — proofs about [pick] (calculateBESuppressCPUSetPolicy): distinct, existing, never more
   than asked for, exactly as many as asked for when enough exist, fuel is irrelevant. *)
From Coq Require Import List ZArith Bool Lia Permutation.
From Verif Require Import Gen.Gen_consts C10.Model C10.Spec.
Import ListNotations.
Open Scope Z_scope.

(* ---------------------------------------------------------------- small facts *)

Lemma memZ_In x l : memZ x l = true <-> In x l.
Proof.
  unfold memZ. rewrite existsb_exists. split.
  - intros [y [H1 H2]]. apply Z.eqb_eq in H2. subst. exact H1.
  - intros H. exists x. split; [exact H | apply Z.eqb_refl].
Qed.

Lemma memZ_nIn x l : memZ x l = false <-> ~ In x l.
Proof.
  rewrite <- memZ_In. destruct (memZ x l); split; intros H.
  - discriminate.
  - exfalso. apply H. reflexivity.
  - intros H'. discriminate.
  - reflexivity.
Qed.

Lemma lenZ_nil {A} : lenZ (@nil A) = 0.
Proof. reflexivity. Qed.
Lemma lenZ_cons {A} (x : A) l : lenZ (x :: l) = lenZ l + 1.
Proof. unfold lenZ. cbn [length]. lia. Qed.
Lemma lenZ_nonneg {A} (l : list A) : 0 <= lenZ l.
Proof. unfold lenZ. lia. Qed.
Lemma lenZ_app {A} (a b : list A) : lenZ (a ++ b) = lenZ a + lenZ b.
Proof. unfold lenZ. rewrite app_length. lia. Qed.
Lemma lenZ_rev {A} (l : list A) : lenZ (rev l) = lenZ l.
Proof. unfold lenZ. rewrite rev_length. reflexivity. Qed.
Lemma lenZ_map {A B} (f : A -> B) l : lenZ (map f l) = lenZ l.
Proof. unfold lenZ. rewrite map_length. reflexivity. Qed.
Lemma lenZ_perm {A} (a b : list A) : Permutation a b -> lenZ a = lenZ b.
Proof. intros H. unfold lenZ. rewrite (Permutation_length H). reflexivity. Qed.

Lemma NoDup_app_disj {A} (a b : list A) x : NoDup (a ++ b) -> In x a -> In x b -> False.
Proof.
  induction a as [|y a IH]; cbn [app In]; intros Hnd Ha Hb.
  - exact Ha.
  - inversion Hnd as [|? ? Hn Hnd']; subst. destruct Ha as [->|Ha].
    + apply Hn. apply in_or_app. right. exact Hb.
    + exact (IH Hnd' Ha Hb).
Qed.
Lemma NoDup_app_l {A} (a b : list A) : NoDup (a ++ b) -> NoDup a.
Proof.
  induction a as [|y a IH]; cbn [app]; intros Hnd; [constructor|].
  inversion Hnd as [|? ? Hn Hnd']; subst. constructor.
  - intros H. apply Hn. apply in_or_app. left. exact H.
  - exact (IH Hnd').
Qed.
Lemma NoDup_app_r {A} (a b : list A) : NoDup (a ++ b) -> NoDup b.
Proof.
  induction a as [|y a IH]; cbn [app]; intros Hnd; [exact Hnd|].
  inversion Hnd; subst. auto.
Qed.

(* ---------------------------------------------------------------- sorting and bucketing permute *)

Lemma insert_by_perm {A} (leb : A -> A -> bool) x l : Permutation (insert_by leb x l) (x :: l).
Proof.
  induction l as [|y t IH]; cbn [insert_by]; [apply Permutation_refl|].
  destruct (leb x y); [apply Permutation_refl|].
  eapply Permutation_trans; [apply perm_skip; exact IH | apply perm_swap].
Qed.
Lemma sort_by_perm {A} (leb : A -> A -> bool) l : Permutation (sort_by leb l) l.
Proof.
  induction l as [|y t IH]; cbn [sort_by fold_right]; [apply Permutation_refl|].
  eapply Permutation_trans; [apply insert_by_perm | apply perm_skip; exact IH].
Qed.

Lemma concat_perm {A} (l l' : list (list A)) : Permutation l l' -> Permutation (concat l) (concat l').
Proof.
  induction 1; cbn [concat].
  - apply Permutation_refl.
  - apply Permutation_app_head. assumption.
  - rewrite !app_assoc. apply Permutation_app_tail. apply Permutation_app_comm.
  - eapply Permutation_trans; eassumption.
Qed.
Lemma concat_map_perm {A B} (f g : A -> list B) l :
  (forall x, Permutation (f x) (g x)) -> Permutation (concat (map f l)) (concat (map g l)).
Proof.
  intros H. induction l as [|x t IH]; cbn [map concat]; [apply Permutation_refl|].
  apply Permutation_app; [apply H | exact IH].
Qed.

Definition flat (bs : list (Z * list proc)) : list proc := concat (map snd bs).

Lemma add_bucket_perm k p bs : Permutation (flat (add_bucket k p bs)) (p :: flat bs).
Proof.
  induction bs as [|[k' l] t IH]; cbn [add_bucket].
  - unfold flat. cbn. apply Permutation_refl.
  - destruct (k =? k').
    + unfold flat. cbn [map snd concat]. rewrite <- app_assoc. cbn [app].
      apply Permutation_sym. apply Permutation_middle.
    + unfold flat in *. cbn [map snd concat].
      eapply Permutation_trans; [apply Permutation_app_head; exact IH|].
      apply Permutation_sym. apply Permutation_middle.
Qed.

Lemma fold_add_perm (f : proc -> Z) ps : forall bs,
  Permutation (flat (fold_left (fun bs p => add_bucket (f p) p bs) ps bs)) (ps ++ flat bs).
Proof.
  induction ps as [|a t IH]; intros bs; cbn [fold_left app]; [apply Permutation_refl|].
  eapply Permutation_trans; [apply IH|].
  eapply Permutation_trans; [apply Permutation_app_head; apply add_bucket_perm|].
  apply Permutation_sym. apply Permutation_middle.
Qed.

Lemma buckets_perm ps : Permutation (concat (buckets_of ps)) ps.
Proof.
  unfold buckets_of.
  eapply Permutation_trans; [apply concat_perm; apply sort_by_perm|].
  eapply Permutation_trans; [apply (concat_map_perm _ snd); intros x; apply sort_by_perm|].
  eapply Permutation_trans; [apply (fold_add_perm (node_index (lenZ ps)))|].
  unfold flat. cbn. rewrite app_nil_r. apply Permutation_refl.
Qed.

Lemma rot_perm {A} k (l : list A) : Permutation (rot k l) l.
Proof.
  unfold rot. eapply Permutation_trans; [apply Permutation_app_comm|].
  rewrite firstn_skipn. apply Permutation_refl.
Qed.

(* ---------------------------------------------------------------- invariants *)

Definition cpus_of (bs : list (list proc)) : list Z := map cpu (concat bs).
Definition all_used (bs : list (list proc)) (acc : list Z) : Prop :=
  forall c, In c (cpus_of bs) -> In c acc.

Lemma cpus_of_cons b t : cpus_of (b :: t) = map cpu b ++ cpus_of t.
Proof. unfold cpus_of. cbn [concat]. apply map_app. Qed.
Lemma cpus_of_app a b : cpus_of (a ++ b) = cpus_of a ++ cpus_of b.
Proof. unfold cpus_of. rewrite concat_app. apply map_app. Qed.
Lemma cpus_of_in b bs x : In b bs -> In x b -> In (cpu x) (cpus_of bs).
Proof.
  intros Hb Hx. unfold cpus_of. apply in_map. apply in_concat. exists b. split; assumption.
Qed.

(* "if the first of two neighbours on the same core is unused, so is the second" *)
Fixpoint pinv (acc : list Z) (b : list proc) : Prop :=
  match b with
  | [] => True
  | p :: t =>
      match t with
      | [] => True
      | q :: _ => core p = core q -> ~ In (cpu p) acc -> ~ In (cpu q) acc
      end /\ pinv acc t
  end.

Lemma pinv_add_fresh c acc b : ~ In c (map cpu b) -> pinv acc b -> pinv (c :: acc) b.
Proof.
  induction b as [|p t IH]; cbn [pinv map]; intros Hf Hp; [exact I|].
  destruct Hp as [Hh Ht]. split.
  - destruct t as [|q t']; [exact I|].
    intros Hc Hn Hin. cbn [In] in Hin. destruct Hin as [Heq|Hin].
    + apply Hf. right. cbn [map]. left. symmetry. exact Heq.
    + apply (Hh Hc); [|exact Hin]. intros H. apply Hn. right. exact H.
  - apply IH; [|exact Ht]. intros H. apply Hf. right. exact H.
Qed.

Lemma find_pair_spec acc b p q :
  NoDup (map cpu b) -> pinv acc b -> find_pair acc b = Some (p, q) ->
  In p b /\ In q b /\ ~ In (cpu p) acc /\ ~ In (cpu q) acc /\ cpu p <> cpu q
  /\ pinv (cpu q :: cpu p :: acc) b.
Proof.
  induction b as [|x t IH]; cbn [find_pair]; intros Hnd Hp Hf; [discriminate|].
  destruct t as [|y t']; [discriminate|].
  cbn [pinv] in Hp. destruct Hp as [Hh Ht].
  cbn [map] in Hnd. inversion Hnd as [|? ? Hnx Hnd']; subst.
  destruct (negb (memZ (cpu x) acc) && (core x =? core y)) eqn:E.
  - inversion Hf; subst p q. clear Hf.
    apply andb_true_iff in E. destruct E as [E1 E2].
    apply negb_true_iff in E1. apply memZ_nIn in E1. apply Z.eqb_eq in E2.
    assert (Hy : ~ In (cpu y) acc) by (apply Hh; assumption).
    assert (Hxy : cpu x <> cpu y).
    { intros Heq. apply Hnx. left. symmetry. exact Heq. }
    split; [left; reflexivity|]. split; [right; left; reflexivity|].
    split; [exact E1|]. split; [exact Hy|]. split; [exact Hxy|].
    cbn [pinv]. split; [intros _ Hn; exfalso; apply Hn; right; left; reflexivity|].
    inversion Hnd' as [|? ? Hny Hnd'']; subst.
    split.
    + destruct t' as [|z t'']; [exact I|].
      intros _ Hn. exfalso. apply Hn. left. reflexivity.
    + cbn [pinv] in Ht. destruct Ht as [_ Ht'].
      apply pinv_add_fresh; [exact Hny|].
      apply pinv_add_fresh; [|exact Ht'].
      intros H. apply Hnx. right. exact H.
  - destruct (IH Hnd' Ht Hf) as [Hip [Hiq [Hnp [Hnq [Hne Hpi]]]]].
    split; [right; exact Hip|]. split; [right; exact Hiq|].
    split; [exact Hnp|]. split; [exact Hnq|]. split; [exact Hne|].
    cbn [pinv]. split; [|exact Hpi].
    intros Hc Hn. exfalso.
    apply andb_false_iff in E. destruct E as [E|E].
    + apply negb_false_iff in E. apply memZ_In in E. apply Hn. right. right. exact E.
    + apply Z.eqb_neq in E. apply E. exact Hc.
Qed.

Lemma find_single_some acc b p : find_single acc b = Some p -> In p b /\ ~ In (cpu p) acc.
Proof.
  induction b as [|x t IH]; cbn [find_single]; intros H; [discriminate|].
  destruct (memZ (cpu x) acc) eqn:E.
  - destruct (IH H) as [H1 H2]. split; [right; exact H1 | exact H2].
  - inversion H; subst. split; [left; reflexivity | apply memZ_nIn; exact E].
Qed.
Lemma find_single_none acc b : find_single acc b = None -> forall x, In x b -> In (cpu x) acc.
Proof.
  induction b as [|y t IH]; cbn [find_single]; intros H x Hx; [destruct Hx|].
  destruct (memZ (cpu y) acc) eqn:E; [|discriminate].
  destruct Hx as [->|Hx]; [apply memZ_In; exact E | exact (IH H x Hx)].
Qed.

(* state invariant shared by both loops; [n] is the number of cpus asked for *)
Definition SInv (all : list (list proc)) (n need : Z) (acc : list Z) : Prop :=
  NoDup acc /\ incl acc (cpus_of all) /\ lenZ acc + need = n /\ Z.min n 0 <= need.
Definition PInv (all : list (list proc)) (n need : Z) (acc : list Z) : Prop :=
  SInv all n need acc /\ Forall (pinv acc) all.

Lemma pair_round_inv n : forall todo done idx need acc need' acc' r,
  NoDup (cpus_of (done ++ todo)) ->
  PInv (done ++ todo) n need acc ->
  pair_round todo idx need acc = (need', acc', r) ->
  PInv (done ++ todo) n need' acc' /\ need' <= need.
Proof.
  induction todo as [|b t IH]; intros done idx need acc need' acc' r Hnd Hinv Hr; cbn [pair_round] in Hr.
  - inversion Hr; subst. split; [exact Hinv | lia].
  - destruct (need <=? 1) eqn:En.
    + inversion Hr; subst. split; [exact Hinv | lia].
    + apply Z.leb_gt in En.
      assert (Happ : done ++ b :: t = (done ++ [b]) ++ t) by (rewrite <- app_assoc; reflexivity).
      destruct (find_pair acc b) as [[p q]|] eqn:F.
      * destruct Hinv as [[Hnda [Hincl [Hlen Hmin]]] Hall].
        assert (Hbin : In b (done ++ b :: t)) by (apply in_or_app; right; left; reflexivity).
        assert (Hndb : NoDup (map cpu b)).
        { rewrite cpus_of_app, cpus_of_cons in Hnd.
          apply NoDup_app_r in Hnd. apply NoDup_app_l in Hnd. exact Hnd. }
        assert (Hpb : pinv acc b) by (rewrite Forall_forall in Hall; apply Hall; exact Hbin).
        destruct (find_pair_spec acc b p q Hndb Hpb F) as [Hip [Hiq [Hnp [Hnq [Hne Hpi]]]]].
        assert (Hnew : PInv (done ++ b :: t) n (need - 2) (cpu q :: cpu p :: acc)).
        { split; [split; [|split; [|split]]|].
          - constructor.
            + intros [H|H]; [apply Hne; exact H | exact (Hnq H)].
            + constructor; assumption.
          - intros c [<-|[<-|Hc]].
            + exact (cpus_of_in b _ q Hbin Hiq).
            + exact (cpus_of_in b _ p Hbin Hip).
            + exact (Hincl c Hc).
          - rewrite !lenZ_cons. lia.
          - lia.
          - rewrite cpus_of_app, cpus_of_cons in Hnd.
            apply Forall_forall. intros b' Hb'.
            apply in_app_or in Hb'. destruct Hb' as [Hb'|[<-|Hb']].
            + rewrite Forall_forall in Hall.
              assert (Hfr : forall x, In x b -> ~ In (cpu x) (map cpu b')).
              { intros x Hx Hc. apply (NoDup_app_disj _ _ (cpu x) Hnd).
                - apply in_map_iff in Hc. destruct Hc as [x' [He Hx']].
                  rewrite <- He. apply (cpus_of_in b' done x' Hb' Hx').
                - apply in_or_app. left. apply in_map. exact Hx. }
              apply pinv_add_fresh; [apply Hfr; exact Hiq|].
              apply pinv_add_fresh; [apply Hfr; exact Hip|].
              apply Hall. apply in_or_app. left. exact Hb'.
            + exact Hpi.
            + rewrite Forall_forall in Hall.
              apply NoDup_app_r in Hnd.
              assert (Hfr : forall x, In x b -> ~ In (cpu x) (map cpu b')).
              { intros x Hx Hc. apply (NoDup_app_disj _ _ (cpu x) Hnd).
                - apply in_map. exact Hx.
                - apply in_map_iff in Hc. destruct Hc as [x' [He Hx']].
                  rewrite <- He. apply (cpus_of_in b' t x' Hb' Hx'). }
              apply pinv_add_fresh; [apply Hfr; exact Hiq|].
              apply pinv_add_fresh; [apply Hfr; exact Hip|].
              apply Hall. apply in_or_app. right. right. exact Hb'. }
        rewrite Happ in Hnd, Hnew |- *.
        destruct (IH (done ++ [b]) (S idx) (need - 2) _ need' acc' r Hnd Hnew Hr) as [H1 H2].
        split; [exact H1 | lia].
      * rewrite Happ in Hnd, Hinv |- *.
        exact (IH (done ++ [b]) (S idx) need acc need' acc' r Hnd Hinv Hr).
Qed.

Lemma pair_loop_inv n all : NoDup (cpus_of all) ->
  forall fuel pre need acc need' acc' k,
  PInv all n need acc ->
  pair_loop fuel all pre need acc = (need', acc', k) ->
  PInv all n need' acc' /\ need' <= need.
Proof.
  intros Hnd. induction fuel as [|f IH]; intros pre need acc need' acc' k Hinv Hl; cbn [pair_loop] in Hl.
  - inversion Hl; subst. split; [exact Hinv | lia].
  - destruct (need <=? 1); [inversion Hl; subst; split; [exact Hinv | lia]|].
    destruct (pre =? need); [inversion Hl; subst; split; [exact Hinv | lia]|].
    destruct (pair_round all 0 need acc) as [[need1 acc1] r] eqn:R.
    destruct (pair_round_inv n all [] 0%nat need acc need1 acc1 r Hnd Hinv R) as [H1 H2].
    destruct r as [k'|].
    + inversion Hl; subst. split; [exact H1 | exact H2].
    + destruct (IH need need1 acc1 need' acc' k H1 Hl) as [H3 H4]. split; [exact H3 | lia].
Qed.

Lemma single_round_inv all n : forall bs need acc need' acc' st,
  (forall c, In c (cpus_of bs) -> In c (cpus_of all)) ->
  SInv all n need acc ->
  single_round bs need acc = (need', acc', st) ->
  SInv all n need' acc' /\ need' <= need /\ incl acc acc'
  /\ (st = true -> need' <= 0)
  /\ (st = false -> need' = need -> all_used bs acc').
Proof.
  induction bs as [|b t IH]; intros need acc need' acc' st Hsub Hinv Hr; cbn [single_round] in Hr.
  - inversion Hr; subst. split; [exact Hinv|]. split; [lia|]. split; [apply incl_refl|].
    split; [intros H; discriminate|]. intros _ _ c Hc. destruct Hc.
  - destruct (need <=? 0) eqn:En.
    + inversion Hr; subst. apply Z.leb_le in En.
      split; [exact Hinv|]. split; [lia|]. split; [apply incl_refl|].
      split; [intros _; exact En|]. intros H; discriminate.
    + apply Z.leb_gt in En.
      assert (Hsubt : forall c, In c (cpus_of t) -> In c (cpus_of all)).
      { intros c Hc. apply Hsub. rewrite cpus_of_cons. apply in_or_app. right. exact Hc. }
      destruct (find_single acc b) as [p|] eqn:F.
      * destruct (find_single_some acc b p F) as [Hip Hnp].
        destruct Hinv as [Hnda [Hincl [Hlen Hmin]]].
        assert (Hnew : SInv all n (need - 1) (cpu p :: acc)).
        { split; [|split; [|split]].
          - constructor; assumption.
          - intros c [<-|Hc]; [|exact (Hincl c Hc)].
            apply Hsub. rewrite cpus_of_cons. apply in_or_app. left. apply in_map. exact Hip.
          - rewrite lenZ_cons. lia.
          - lia. }
        destruct (IH (need - 1) _ need' acc' st Hsubt Hnew Hr) as [H1 [H2 [H3 [H4 H5]]]].
        split; [exact H1|]. split; [lia|].
        split; [intros c Hc; apply H3; right; exact Hc|].
        split; [exact H4|]. intros _ Heq. exfalso. lia.
      * destruct (IH need acc need' acc' st Hsubt Hinv Hr) as [H1 [H2 [H3 [H4 H5]]]].
        split; [exact H1|]. split; [exact H2|]. split; [exact H3|]. split; [exact H4|].
        intros Hst Heq c Hc. rewrite cpus_of_cons in Hc. apply in_app_or in Hc.
        destruct Hc as [Hc|Hc].
        -- apply in_map_iff in Hc. destruct Hc as [x [<- Hx]].
           apply H3. exact (find_single_none acc b F x Hx).
        -- exact (H5 Hst Heq c Hc).
Qed.

Lemma single_loop_inv all n : forall fuel pre need acc,
  SInv all n need acc ->
  exists need', SInv all n need' (single_loop fuel all pre need acc) /\ need' <= need.
Proof.
  induction fuel as [|f IH]; intros pre need acc Hinv; cbn [single_loop].
  - exists need. split; [exact Hinv | lia].
  - destruct (need <=? 0); [exists need; split; [exact Hinv | lia]|].
    destruct (pre =? need); [exists need; split; [exact Hinv | lia]|].
    destruct (single_round all need acc) as [[need1 acc1] st] eqn:R.
    destruct (single_round_inv all n all need acc need1 acc1 st (fun c H => H) Hinv R) as [H1 [H2 _]].
    destruct st.
    + exists need1. split; assumption.
    + destruct (IH need need1 acc1 H1) as [need' [H3 H4]]. exists need'. split; [exact H3 | lia].
Qed.

Lemma single_loop_final all n : forall fuel pre need acc,
  SInv all n need acc ->
  (pre = need -> need <= 0 \/ all_used all acc) ->
  ((Z.to_nat need + 2 <= fuel)%nat \/ (pre = need /\ (1 <= fuel)%nat)) ->
  exists need', SInv all n need' (single_loop fuel all pre need acc)
                /\ (need' <= 0 \/ all_used all (single_loop fuel all pre need acc)).
Proof.
  induction fuel as [|f IH]; intros pre need acc Hinv Hpre Hfuel; [exfalso; lia|].
  cbn [single_loop].
  destruct (need <=? 0) eqn:En.
  - apply Z.leb_le in En. exists need. split; [exact Hinv | left; exact En].
  - apply Z.leb_gt in En. destruct (pre =? need) eqn:Ep.
    + apply Z.eqb_eq in Ep. exists need. split; [exact Hinv | exact (Hpre Ep)].
    + apply Z.eqb_neq in Ep.
      destruct (single_round all need acc) as [[need1 acc1] st] eqn:R.
      destruct (single_round_inv all n all need acc need1 acc1 st (fun c H => H) Hinv R)
        as [H1 [H2 [H3 [H4 H5]]]].
      destruct st.
      * exists need1. split; [exact H1 | left; apply H4; reflexivity].
      * apply IH; [exact H1 | |].
        -- intros Heq. right. apply H5; [reflexivity | symmetry; exact Heq].
        -- destruct Hfuel as [Hf|[Hf _]]; [|exfalso; exact (Ep Hf)].
           destruct (Z.eq_dec need1 need) as [Heq|Hne].
           ++ right. split; [symmetry; exact Heq | lia].
           ++ left. lia.
Qed.

(* ---------------------------------------------------------------- the theorems about pick *)

Lemma buckets_nodup ps : NoDup (map cpu ps) -> NoDup (cpus_of (buckets_of ps)).
Proof.
  intros H. unfold cpus_of.
  eapply Permutation_NoDup; [|exact H].
  apply Permutation_sym. apply Permutation_map. apply buckets_perm.
Qed.

Lemma pinv_nil b : pinv [] b.
Proof.
  induction b as [|p t IH]; cbn [pinv]; [exact I|]. split; [|exact IH].
  destruct t; [exact I|]. intros _ _ H. destruct H.
Qed.

Lemma PInv_init all n : PInv all n n [].
Proof.
  split; [split; [|split; [|split]]|].
  - constructor.
  - intros c H. destruct H.
  - rewrite lenZ_nil. lia.
  - lia.
  - apply Forall_forall. intros b _. apply pinv_nil.
Qed.

Lemma SInv_rot all n need acc k : SInv all n need acc -> SInv (rot k all) n need acc.
Proof.
  intros [H1 [H2 [H3 H4]]]. split; [|split; [|split]]; try assumption.
  intros c Hc. unfold cpus_of.
  eapply Permutation_in; [|exact (H2 c Hc)].
  apply Permutation_map. apply concat_perm. apply Permutation_sym. apply rot_perm.
Qed.

(* what [pick_with] returns for any fuel *)
Lemma pick_with_inv fuel n ps : NoDup (map cpu ps) ->
  NoDup (pick_with fuel n ps) /\ incl (pick_with fuel n ps) (map cpu ps)
  /\ lenZ (pick_with fuel n ps) <= Z.max n 0.
Proof.
  intros Hnd. unfold pick_with.
  destruct (lenZ ps <? n).
  - split; [constructor | split; [intros c H; destruct H | rewrite lenZ_nil; lia]].
  - pose proof (buckets_nodup ps Hnd) as Hb.
    destruct (pair_loop fuel (buckets_of ps) (-1) n []) as [[need acc] k] eqn:L.
    destruct (pair_loop_inv n _ Hb fuel (-1) n [] need acc k (PInv_init _ n) L) as [[Hs _] _].
    destruct (single_loop_inv (rot k (buckets_of ps)) n fuel (-1) need acc (SInv_rot _ _ _ _ k Hs))
      as [need' [[H1 [H2 [H3 H4]]] _]].
    split; [|split].
    + apply NoDup_rev. exact H1.
    + intros c Hc. apply in_rev in Hc. apply H2 in Hc. unfold cpus_of in Hc.
      eapply Permutation_in; [|exact Hc]. apply Permutation_map.
      eapply Permutation_trans; [apply concat_perm; apply rot_perm | apply buckets_perm].
    + rewrite lenZ_rev. lia.
Qed.

Lemma pick_distinct n ps : NoDup (map cpu ps) -> NoDup (pick n ps).
Proof. intros H. exact (proj1 (pick_with_inv _ n ps H)). Qed.
Lemma pick_subset n ps : NoDup (map cpu ps) -> incl (pick n ps) (map cpu ps).
Proof. intros H. exact (proj1 (proj2 (pick_with_inv _ n ps H))). Qed.
Lemma pick_count_le n ps : NoDup (map cpu ps) -> lenZ (pick n ps) <= Z.max n 0.
Proof. intros H. exact (proj2 (proj2 (pick_with_inv _ n ps H))). Qed.

Lemma pick_with_exact fuel n ps : NoDup (map cpu ps) -> 0 <= n <= lenZ ps ->
  (Z.to_nat n + 2 <= fuel)%nat -> lenZ (pick_with fuel n ps) = n.
Proof.
  intros Hnd Hn Hfuel. unfold pick_with.
  destruct (lenZ ps <? n) eqn:E; [apply Z.ltb_lt in E; lia|].
  pose proof (buckets_nodup ps Hnd) as Hb.
  destruct (pair_loop fuel (buckets_of ps) (-1) n []) as [[need acc] k] eqn:L.
  destruct (pair_loop_inv n _ Hb fuel (-1) n [] need acc k (PInv_init _ n) L) as [[Hs _] Hle].
  assert (Hs' := SInv_rot _ _ _ _ k Hs).
  assert (Hneed0 : 0 <= need) by (destruct Hs as [_ [_ [_ H]]]; lia).
  destruct (single_loop_final (rot k (buckets_of ps)) n fuel (-1) need acc Hs')
    as [need' [[H1 [H2 [H3 H4]]] Hfin]].
  - intros Heq. lia.
  - left. lia.
  - rewrite lenZ_rev.
    destruct Hfin as [Hfin|Hfin]; [lia|].
    (* every cpu is used: the result is at least as long as the processor list *)
    assert (Hlen : lenZ ps <= lenZ (single_loop fuel (rot k (buckets_of ps)) (-1) need acc)).
    { assert (Hp : Permutation (cpus_of (rot k (buckets_of ps))) (map cpu ps)).
      { unfold cpus_of. apply Permutation_map.
        eapply Permutation_trans; [apply concat_perm; apply rot_perm | apply buckets_perm]. }
      rewrite <- (lenZ_map cpu ps). rewrite <- (lenZ_perm _ _ Hp).
      unfold lenZ. apply inj_le. apply NoDup_incl_length.
      - eapply Permutation_NoDup; [apply Permutation_sym; exact Hp | exact Hnd].
      - exact Hfin. }
    lia.
Qed.

Lemma pick_exact n ps : NoDup (map cpu ps) -> 0 <= n <= lenZ ps -> lenZ (pick n ps) = n.
Proof.
  intros Hnd Hn. apply pick_with_exact; try assumption. unfold pick_fuel. lia.
Qed.

Lemma pick_holds_model n ps : NoDup (map cpu ps) -> pick_holds n ps (pick n ps).
Proof.
  intros H. split; [apply pick_distinct; exact H|].
  split; [apply pick_subset; exact H|].
  split; [apply pick_count_le; exact H|].
  intros Hn. apply pick_exact; assumption.
Qed.

(* ---------------------------------------------------------------- fuel is irrelevant *)

Lemma pair_round_le : forall bs idx need acc need' acc' r,
  pair_round bs idx need acc = (need', acc', r) -> need' <= need.
Proof.
  induction bs as [|b t IH]; intros idx need acc need' acc' r H; cbn [pair_round] in H.
  - inversion H; subst. lia.
  - destruct (need <=? 1) eqn:En; [inversion H; subst; lia|].
    destruct (find_pair acc b) as [[p q]|].
    + apply IH in H. lia.
    + apply IH in H. lia.
Qed.

Lemma pair_loop_le bs : forall fuel pre need acc need' acc' k,
  pair_loop fuel bs pre need acc = (need', acc', k) -> need' <= need.
Proof.
  induction fuel as [|f IH]; intros pre need acc need' acc' k H; cbn [pair_loop] in H.
  - inversion H; subst. lia.
  - destruct (need <=? 1); [inversion H; subst; lia|].
    destruct (pre =? need); [inversion H; subst; lia|].
    destruct (pair_round bs 0 need acc) as [[need1 acc1] r] eqn:R.
    apply pair_round_le in R.
    destruct r; [inversion H; subst; lia|].
    apply IH in H. lia.
Qed.

Definition fuel_enough (pre need : Z) (f : nat) : Prop :=
  if pre =? need then (1 <= f)%nat else (Z.to_nat need + 2 <= f)%nat.

Lemma pair_loop_fuel bs : forall f1 f2 pre need acc,
  fuel_enough pre need f1 -> fuel_enough pre need f2 ->
  pair_loop f1 bs pre need acc = pair_loop f2 bs pre need acc.
Proof.
  unfold fuel_enough.
  induction f1 as [|a IH]; intros f2 pre need acc H1 H2.
  - destruct (pre =? need); lia.
  - destruct f2 as [|b]; [destruct (pre =? need); lia|].
    cbn [pair_loop].
    destruct (need <=? 1) eqn:En; [reflexivity|]. apply Z.leb_gt in En.
    destruct (pre =? need) eqn:Ep; [reflexivity|].
    destruct (pair_round bs 0 need acc) as [[need1 acc1] r] eqn:R.
    apply pair_round_le in R.
    destruct r; [reflexivity|].
    apply IH; destruct (need =? need1) eqn:E; try lia;
      apply Z.eqb_neq in E; lia.
Qed.

Lemma single_round_le : forall bs need acc need' acc' st,
  single_round bs need acc = (need', acc', st) -> need' <= need.
Proof.
  induction bs as [|b t IH]; intros need acc need' acc' st H; cbn [single_round] in H.
  - inversion H; subst. lia.
  - destruct (need <=? 0); [inversion H; subst; lia|].
    destruct (find_single acc b); apply IH in H; lia.
Qed.

Lemma single_loop_fuel bs : forall f1 f2 pre need acc,
  fuel_enough pre need f1 -> fuel_enough pre need f2 ->
  single_loop f1 bs pre need acc = single_loop f2 bs pre need acc.
Proof.
  unfold fuel_enough.
  induction f1 as [|a IH]; intros f2 pre need acc H1 H2.
  - destruct (pre =? need); lia.
  - destruct f2 as [|b]; [destruct (pre =? need); lia|].
    cbn [single_loop].
    destruct (need <=? 0) eqn:En; [reflexivity|]. apply Z.leb_gt in En.
    destruct (pre =? need) eqn:Ep; [reflexivity|].
    destruct (single_round bs need acc) as [[need1 acc1] st] eqn:R.
    apply single_round_le in R.
    destruct st; [reflexivity|].
    apply IH; destruct (need =? need1) eqn:E; try lia;
      apply Z.eqb_neq in E; lia.
Qed.

(* more fuel than [pick_fuel n] never changes the result: the fuel bound of the model is
   unreachable, the recursion always ends through one of the loop exits of the source *)
Lemma pick_fuel_irrelevant f n ps : (pick_fuel n <= f)%nat -> pick_with f n ps = pick n ps.
Proof.
  intros Hf. unfold pick, pick_with.
  destruct (lenZ ps <? n); [reflexivity|].
  assert (Hfe : forall g, (pick_fuel n <= g)%nat -> fuel_enough (-1) n g).
  { intros g Hg. unfold fuel_enough, pick_fuel in *. destruct (-1 =? n); lia. }
  rewrite (pair_loop_fuel (buckets_of ps) f (pick_fuel n) (-1) n []) by (apply Hfe; lia).
  destruct (pair_loop (pick_fuel n) (buckets_of ps) (-1) n []) as [[need acc] k] eqn:L.
  apply pair_loop_le in L.
  f_equal. apply single_loop_fuel; unfold fuel_enough, pick_fuel in *; destruct (-1 =? need); lia.
Qed.
