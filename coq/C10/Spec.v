(* C10 — the property as Props over (input, observable) and its decision procedures.
   Clause numbers (returned by the *_code functions, 0 = holds):
     1xx budget, 2xx pick, 3xx cpuset written by adjustByCPUSet, 4xx cfs quota. *)
From Coq Require Import List ZArith Bool.
From Verif Require Import Gen.Gen_consts C10.Model.
Import ListNotations.
Open Scope Z_scope.

Fixpoint nodupb (l : list Z) : bool :=
  match l with [] => true | x :: t => negb (memZ x t) && nodupb t end.
Definition inclb (a b : list Z) : bool := forallb (fun x => memZ x b) a.
Fixpoint eq_listZ (a b : list Z) : bool :=
  match a, b with
  | [], [] => true
  | x :: a', y :: b' => (x =? y) && eq_listZ a' b'
  | _, _ => false
  end.

(* ================================================================ budget *)

(* "node capacity times the threshold minus what non-BE pods, host applications and the
   system (at least the node reservation) use, floored by the configured minimum";
   [r] is the value the reservation contributes to the system term *)
Definition budget_spec_with (r : Z) (i : binput) : Z :=
  let free := Z.quot (b_cap i * b_thr i) 100
              - to_milli (pods_nonbe (b_pods i)) - to_milli (hosts_nonbe (b_hosts i))
              - Z.max (to_milli (sys_raw i)) r in
  match b_min i with
  | None => free
  | Some mp => Z.max free (Z.quot (b_cap i * mp) 100)
  end.
(* "the node reservation", read off the node object: what the kubelet keeps back (capacity minus
   allocatable) or what the reservation annotation declares, whichever is larger.  The annotation
   declares the cpus it lists (reservedCPUs, counted once each) or else its resources.cpu amount,
   WHATEVER its applyPolicy says (the policy only tells the scheduler how to account the
   allocatable); an annotation that cannot be read declares nothing. *)
Definition kubelet_reservation (i : binput) : Z :=
  Z.max (b_cap i - match b_alloc i with Some a => a | None => 0 end) 0.
Definition anno_declared (a : nodeanno) : Z :=
  if negb (an_state a =? 3) then 0
  else match an_cpus a with
       | [] => match an_rescpu a with Some u => Z.max (milli_of_micro u) 0 | None => 0 end
       | _ => if an_cpus_ok a then 1000 * dedup_len (an_cpus a) else 0
       end.
Definition reservation_spec (i : binput) : Z := Z.max (kubelet_reservation i) (anno_declared (b_anno i)).

Definition budget_spec (i : binput) : Z := budget_spec_with (reservation_spec i) i.

(* the float64 round trip milli -> cores -> milli of the reservation is exact / loses at most
   one milli-CPU *)
Definition rt_exact (i : binput) : bool := rt_milli (reservation_spec i) =? reservation_spec i.
Definition rt_ok (i : binput) : bool :=
  (reservation_spec i - 1 <=? rt_milli (reservation_spec i)) && (rt_milli (reservation_spec i) <=? reservation_spec i).

(* The budget equals the formula; where the float64 round trip of the reservation is lossy the
   reservation may count one milli-CPU less. *)
Definition budget_holds (i : binput) (b : Z) : Prop :=
  b = budget_spec i \/ (rt_exact i = false /\ b = budget_spec_with (reservation_spec i - 1) i).
Definition budget_holdsb (i : binput) (b : Z) : bool :=
  (b =? budget_spec i) || (negb (rt_exact i) && (b =? budget_spec_with (reservation_spec i - 1) i)).

(* growth of non-BE consumption (metamorphic part of the property) *)
Definition pod_le (p p' : pod) : Prop :=
  p_lab p = p_lab p' /\ p_kubebe p = p_kubebe p' /\ p_inmeta p = p_inmeta p' /\
  p_hasmetric p = p_hasmetric p' /\ p_use p <= p_use p'.
Definition happ_le (h h' : happ) : Prop :=
  h_qos h = h_qos h' /\ h_base h = h_base h' /\ h_hasmetric h = h_hasmetric h' /\ h_use h <= h_use h'.
(* same capacity and configuration, the node reservation is not smaller, every pod / host
   application uses at least as much as before and the rest of the node (system) does not use less *)
Definition grows (i i' : binput) : Prop :=
  b_cap i = b_cap i' /\ reservation_spec i <= reservation_spec i' /\ b_thr i = b_thr i' /\
  b_min i = b_min i' /\ Forall2 pod_le (b_pods i) (b_pods i') /\ Forall2 happ_le (b_hosts i) (b_hosts i') /\
  sys_raw i <= sys_raw i'.

(* perturbations the harness applies: kind 1 pod [idx] uses d more and so does the node,
   2 the same for a host application, 3 only the node (system) uses d more,
   4 pod [idx] uses d more while the node total stays (the system part shrinks; checked for
     non-BE pods only, up to the one milli-CPU the separate truncations can cost),
   5 the reservation annotation's applyPolicy becomes [idx] (nothing else changes: same budget),
   6 the kubelet keeps d more back (allocatable shrinks by d: the budget does not grow) *)
Definition with_policy (p : Z) (a : nodeanno) : nodeanno :=
  mkAnno (an_state a) p (an_rescpu a) (an_cpus_ok a) (an_cpus a).
Fixpoint bump_pod (idx : nat) (d : Z) (ps : list pod) : list pod :=
  match ps, idx with
  | [], _ => []
  | p :: t, O => mkPod (p_lab p) (p_kubebe p) (p_inmeta p) (p_hasmetric p) (p_use p + d) :: t
  | p :: t, S k => p :: bump_pod k d t
  end.
Fixpoint bump_host (idx : nat) (d : Z) (hs : list happ) : list happ :=
  match hs, idx with
  | [], _ => []
  | h :: t, O => mkHapp (h_qos h) (h_base h) (h_hasmetric h) (h_use h + d) :: t
  | h :: t, S k => h :: bump_host k d t
  end.
Definition with_node_pods_hosts (i : binput) (n : Z) (ps : list pod) (hs : list happ) : binput :=
  mkB (b_cap i) (b_alloc i) (b_anno i) (b_thr i) (b_min i) n ps hs.
Definition perturb (kind idx d : Z) (i : binput) : binput :=
  let k := Z.to_nat idx in
  if kind =? 1 then
    let counted := match nth_error (b_pods i) k with Some p => p_hasmetric p | None => false end in
    with_node_pods_hosts i (b_node i + (if counted then d else 0)) (bump_pod k d (b_pods i)) (b_hosts i)
  else if kind =? 2 then
    let counted := match nth_error (b_hosts i) k with Some h => h_hasmetric h | None => false end in
    with_node_pods_hosts i (b_node i + (if counted then d else 0)) (b_pods i) (bump_host k d (b_hosts i))
  else if kind =? 3 then with_node_pods_hosts i (b_node i + d) (b_pods i) (b_hosts i)
  else if kind =? 4 then with_node_pods_hosts i (b_node i) (bump_pod k d (b_pods i)) (b_hosts i)
  else if kind =? 5 then
    mkB (b_cap i) (b_alloc i) (with_policy idx (b_anno i)) (b_thr i) (b_min i) (b_node i) (b_pods i) (b_hosts i)
  else if kind =? 6 then
    mkB (b_cap i) (option_map (fun a => a - d) (b_alloc i)) (b_anno i) (b_thr i) (b_min i) (b_node i)
        (b_pods i) (b_hosts i)
  else i.

(* observable: [b1; b2], the budgets of the input and of the perturbed input *)
Definition budget_code (kind idx d : Z) (i : binput) (obs : list Z) : Z :=
  match obs with
  | [b1; b2] =>
      if negb (budget_holdsb i b1) then 101
      else if negb (budget_holdsb (perturb kind idx d i) b2) then 102
      else if (1 <=? kind) && (kind <=? 3) && (0 <=? d) && negb (b2 <=? b1) then 103
      else if (kind =? 4) && (0 <=? d)
              && match nth_error (b_pods i) (Z.to_nat idx) with Some p => pod_nonbe p | None => true end
              && negb (b2 <=? b1 + 1) then 104
      else if (kind =? 5) && negb (b2 =? b1) then 105
      else if (kind =? 6) && (0 <=? d) && negb (b2 <=? b1) then 106
      else 0
  | _ => 109
  end.

(* ================================================================ pick *)

(* distinct existing CPUs, never more than asked for, exactly that many when enough exist *)
Definition pick_holds (n : Z) (ps : list proc) (out : list Z) : Prop :=
  NoDup out /\ incl out (map cpu ps) /\ lenZ out <= Z.max n 0 /\
  (0 <= n <= lenZ ps -> lenZ out = n).
Definition pick_code (n : Z) (ps : list proc) (out : list Z) : Z :=
  if negb (nodupb out) then 201
  else if negb (inclb out (map cpu ps)) then 202
  else if negb (lenZ out <=? Z.max n 0) then 203
  else if (0 <=? n) && (n <=? lenZ ps) && negb (lenZ out =? n) then 204
  else 0.

(* ================================================================ cpuset *)

(* protected: owned by an LSE pod (whatever the pod order), reserved for the node, or
   exclusive to system QoS *)
Definition protected (i : ainput) (c : Z) : bool :=
  lse_owned (a_pods i) c || memZ c (a_reserved i) || memZ c (a_sysexcl i).
Definition free_cpus (i : ainput) : list Z :=
  filter (fun c => negb (protected i c)) (nodup Z.eq_dec (map cpu (a_procs i))).
Definition target (i : ainput) : Z :=
  target_count (a_budget i) (dedup_len (a_old i)) (lenZ (a_procs i)).

Definition unprotected_existing (i : ainput) (s : list Z) : Prop :=
  forall c, In c s -> In c (map cpu (a_procs i)) /\ protected i c = false.
Definition unprotected_existingb (i : ainput) (s : list Z) : bool :=
  forallb (fun c => memZ c (map cpu (a_procs i)) && negb (protected i c)) s.

Definition set_ok (i : ainput) (s : list Z) : Prop :=
  NoDup s /\ unprotected_existing i s /\ lenZ s <= target i.

(* observable: contents of cpuset.cpus of the besteffort dir, a pod dir, a container dir *)
Definition adjust_holds (i : ainput) (o : list Z * list Z * list Z) : Prop :=
  let '(root, podd, ctr) := o in
  let old := to_set (a_old i) in
  (ctr = old \/ set_ok i ctr) /\
  (target i <= lenZ (free_cpus i) -> set_ok i ctr /\ lenZ ctr = target i) /\
  (* "at least two" (literal of the property text) whenever the step limit leaves room for two *)
  (target i <= lenZ (free_cpus i) -> 2 <= dedup_len (a_old i) + ceil_div (lenZ (a_procs i)) 10 ->
   2 <= lenZ ctr) /\
  podd = root /\
  (if a_static i then root = old \/ unprotected_existing i root else root = ctr).

Definition set_code (i : ainput) (s : list Z) : Z :=
  if negb (nodupb s) then 301
  else if negb (forallb (fun c => memZ c (map cpu (a_procs i))) s) then 302
  else if negb (forallb (fun c => negb (protected i c)) s) then 303
  else if negb (lenZ s <=? target i) then 304
  else 0.

Definition adjust_code (i : ainput) (o : list Z * list Z * list Z) : Z :=
  let '(root, podd, ctr) := o in
  let old := to_set (a_old i) in
  let enough := target i <=? lenZ (free_cpus i) in
  let c := set_code i ctr in
  if (enough || negb (eq_listZ ctr old)) && negb (c =? 0) then c
  else if enough && negb (lenZ ctr =? target i) then 305
  else if enough && (2 <=? dedup_len (a_old i) + ceil_div (lenZ (a_procs i)) 10) && negb (2 <=? lenZ ctr) then 310
  else if negb (eq_listZ podd root) then 307
  else if a_static i then
    (if eq_listZ root old || unprotected_existingb i root then 0 else 306)
  else if eq_listZ root ctr then 0 else 308.

(* ================================================================ quota *)

Definition quota_holds (budget_milli cap_milli cur obs : Z) : Prop :=
  let q := quota_target budget_milli in
  let win := cap_cores cap_milli * DefaultCPUCFSPeriod in
  let small := Z.abs (q - cur) * snd suppressBypassQuotaDeltaRatio < win * fst suppressBypassQuotaDeltaRatio
               /\ q <> beMinQuota in
  let big := win * fst beMaxIncreaseCPUPercent < (q - cur) * snd beMaxIncreaseCPUPercent /\ cur <> -1 in
  (small -> obs = cur) /\
  (~ small -> big -> obs = cur + Z.quot (win * fst beMaxIncreaseCPUPercent) (snd beMaxIncreaseCPUPercent)) /\
  (~ small -> ~ big -> obs = q).

Definition quota_code (budget_milli cap_milli cur obs : Z) : Z :=
  let q := quota_target budget_milli in
  let win := cap_cores cap_milli * DefaultCPUCFSPeriod in
  let small := (Z.abs (q - cur) * snd suppressBypassQuotaDeltaRatio <? win * fst suppressBypassQuotaDeltaRatio)
               && negb (q =? beMinQuota) in
  let big := (win * fst beMaxIncreaseCPUPercent <? (q - cur) * snd beMaxIncreaseCPUPercent)
             && negb (cur =? -1) in
  if small then (if obs =? cur then 0 else 401)
  else if big then
    (if obs =? cur + Z.quot (win * fst beMaxIncreaseCPUPercent) (snd beMaxIncreaseCPUPercent) then 0 else 402)
  else if obs =? q then 0 else 403.

(* ================================================================ quota mode over a history *)

(* [prev] is the content of the file before the step, [o] after it *)
Definition qstep_ok (cap prev : Z) (op : qop) (o : Z) : Prop :=
  match op with
  | QAdjust b => quota_holds b cap prev o      (* after EVERY quota round the formula value is in force *)
  | QRecover => o = prev \/ o = -1
  | QReset v => o = v
  | QCpuset => o = prev
  end.
Fixpoint hist_holds (cap prev : Z) (ops : list qop) (obs : list Z) : Prop :=
  match ops, obs with
  | [], [] => True
  | op :: t, o :: u => qstep_ok cap prev op o /\ hist_holds cap o t u
  | _, _ => False
  end.

Definition qstep_code (cap prev : Z) (op : qop) (o : Z) : Z :=
  match op with
  | QAdjust b => let c := quota_code b cap prev o in if c =? 0 then 0 else c + 100   (* 501..503 *)
  | QRecover => if (o =? prev) || (o =? -1) then 0 else 511
  | QReset v => if o =? v then 0 else 512
  | QCpuset => if o =? prev then 0 else 513
  end.
Fixpoint hist_code (cap prev : Z) (ops : list qop) (obs : list Z) : Z :=
  match ops, obs with
  | [], [] => 0
  | op :: t, o :: u => let c := qstep_code cap prev op o in if c =? 0 then hist_code cap o t u else c
  | _, _ => 519
  end.

