(* C10 — proofs about adjustByCPUSet: target count, pools, no protected cpu, exact count,
   what ends up in the cgroup files. *)
From Coq Require Import List ZArith Bool Lia Permutation Sorted.
From Verif Require Import Gen.Gen_consts C10.Model C10.Spec C10.Proofs_Pick.
Import ListNotations.
Open Scope Z_scope.

(* ---------------------------------------------------------------- ceilings and the target count *)

Lemma ceil_div_spec a d : 0 < d -> a <= ceil_div a d * d < a + d.
Proof.
  intros Hd. unfold ceil_div.
  pose proof (Z.div_mod (- a) d ltac:(lia)) as H1.
  pose proof (Z.mod_pos_bound (- a) d Hd) as H2. nia.
Qed.
Lemma ceil_div_nonneg a d : 0 < d -> 0 <= a -> 0 <= ceil_div a d.
Proof. intros Hd Ha. pose proof (ceil_div_spec a d Hd). nia. Qed.

Lemma max_increase_eq np : max_increase np = ceil_div np 10.
Proof. unfold max_increase, beMaxIncreaseCPUPercent. cbn [fst snd]. f_equal. lia. Qed.

Lemma target_count_eq b o np :
  target_count b o np = Z.min (Z.max (ceil_div b 1000) 2) (o + ceil_div np 10).
Proof.
  unfold target_count. rewrite max_increase_eq. unfold beMinCPUSetCores.
  destruct (ceil_div b 1000 <? 2) eqn:E1; [apply Z.ltb_lt in E1|apply Z.ltb_ge in E1].
  - destruct (ceil_div np 10 <? 2 - o) eqn:E2; [apply Z.ltb_lt in E2|apply Z.ltb_ge in E2]; lia.
  - destruct (ceil_div np 10 <? ceil_div b 1000 - o) eqn:E2; [apply Z.ltb_lt in E2|apply Z.ltb_ge in E2]; lia.
Qed.

(* "at least two, growing by at most the step limit per round" *)
Lemma target_count_bounds b o np :
  target_count b o np <= o + ceil_div np 10
  /\ target_count b o np <= Z.max (ceil_div b 1000) 2
  /\ (2 <= o + ceil_div np 10 -> 2 <= target_count b o np)
  /\ (Z.max (ceil_div b 1000) 2 <= o + ceil_div np 10 ->
      target_count b o np = Z.max (ceil_div b 1000) 2).
Proof. rewrite target_count_eq. lia. Qed.

Lemma target_count_nonneg b o np : 0 <= o -> 0 <= np -> 0 <= target_count b o np.
Proof.
  intros Ho Hnp. rewrite target_count_eq.
  pose proof (ceil_div_nonneg np 10 ltac:(lia) Hnp). lia.
Qed.

(* enough for "at least two": the besteffort cgroup currently has a cpu, or the node has more
   than ten *)
Lemma target_count_two b o np : 0 <= o -> 0 <= np -> (1 <= o /\ 1 <= np) \/ 10 < np ->
  2 <= target_count b o np.
Proof.
  intros Ho Hnp H. apply target_count_bounds.
  pose proof (ceil_div_spec np 10 ltac:(lia)). lia.
Qed.

Lemma target_zero_old b o np : 0 <= o -> 0 <= np -> target_count b o np <= 0 -> o = 0.
Proof.
  intros Ho Hnp. rewrite target_count_eq.
  pose proof (ceil_div_nonneg np 10 ltac:(lia) Hnp). lia.
Qed.

(* ---------------------------------------------------------------- cpuset files are sets *)

Lemma set_insert_in x l y : In y (set_insert x l) <-> y = x \/ In y l.
Proof.
  induction l as [|z t IH]; cbn [set_insert In].
  - split; intros [H|H]; auto.
  - destruct (x <? z) eqn:E1.
    + cbn [In]. split; intros H; [destruct H as [H|H]; auto | destruct H as [H|H]; auto].
    + destruct (x =? z) eqn:E2.
      * apply Z.eqb_eq in E2. subst z. cbn [In]. split; intros H; [right; exact H|].
        destruct H as [H|H]; [left; symmetry; exact H | exact H].
      * cbn [In]. rewrite IH. split; intros H.
        -- destruct H as [H|[H|H]]; auto.
        -- destruct H as [H|[H|H]]; auto.
Qed.

Lemma set_insert_sorted x l : Sorted Z.lt l -> Sorted Z.lt (set_insert x l).
Proof.
  induction l as [|z t IH]; cbn [set_insert]; intros Hs.
  - constructor; constructor.
  - destruct (x <? z) eqn:E1.
    + apply Z.ltb_lt in E1. constructor; [exact Hs | constructor; exact E1].
    + apply Z.ltb_ge in E1. destruct (x =? z) eqn:E2; [exact Hs|].
      apply Z.eqb_neq in E2. inversion Hs as [|? ? Hs' Hh]; subst.
      constructor; [apply IH; exact Hs'|].
      destruct t as [|w t']; cbn [set_insert].
      * constructor. lia.
      * inversion Hh; subst. destruct (x <? w); [constructor; lia|].
        destruct (x =? w); constructor; assumption.
Qed.

Lemma to_set_sorted l : Sorted Z.lt (to_set l).
Proof.
  induction l as [|x t IH]; cbn [to_set fold_right]; [constructor|].
  apply set_insert_sorted. exact IH.
Qed.
Lemma to_set_in l y : In y (to_set l) <-> In y l.
Proof.
  induction l as [|x t IH]; cbn [to_set fold_right In]; [tauto|].
  fold (to_set t). rewrite set_insert_in, IH. split; intros [H|H]; auto.
Qed.

Lemma sorted_lt_nodup l : Sorted Z.lt l -> NoDup l.
Proof.
  intros Hs. apply Sorted_StronglySorted in Hs; [|intros a b c; lia].
  induction Hs as [|x t Hs IH Hf]; constructor; [|exact IH].
  intros Hin. rewrite Forall_forall in Hf. specialize (Hf x Hin). lia.
Qed.
Lemma to_set_nodup l : NoDup (to_set l).
Proof. apply sorted_lt_nodup. apply to_set_sorted. Qed.

Lemma set_insert_len x l : ~ In x l -> lenZ (set_insert x l) = lenZ l + 1.
Proof.
  induction l as [|z t IH]; cbn [set_insert]; intros Hn.
  - reflexivity.
  - destruct (x <? z); [rewrite !lenZ_cons; reflexivity|].
    destruct (x =? z) eqn:E; [apply Z.eqb_eq in E; exfalso; apply Hn; left; symmetry; exact E|].
    rewrite !lenZ_cons. rewrite IH; [reflexivity|]. intros H. apply Hn. right. exact H.
Qed.
Lemma to_set_len l : NoDup l -> lenZ (to_set l) = lenZ l.
Proof.
  induction l as [|x t IH]; intros Hnd; [reflexivity|].
  inversion Hnd; subst. cbn [to_set fold_right]. fold (to_set t).
  rewrite set_insert_len; [rewrite lenZ_cons, IH; auto|].
  rewrite to_set_in. assumption.
Qed.

(* ---------------------------------------------------------------- pools *)

Lemma NoDup_map_filter {A} (f : A -> Z) (g : A -> bool) l : NoDup (map f l) -> NoDup (map f (filter g l)).
Proof.
  induction l as [|x t IH]; cbn [map filter]; intros H; [constructor|].
  inversion H as [|? ? Hn Hnd]; subst. destruct (g x); [|exact (IH Hnd)].
  cbn [map]. constructor; [|exact (IH Hnd)].
  intros Hin. apply Hn. apply in_map_iff in Hin. destruct Hin as [y [He Hy]].
  apply filter_In in Hy. rewrite <- He. apply in_map. exact (proj1 Hy).
Qed.

Lemma NoDup_app_intro {A} (a b : list A) :
  NoDup a -> NoDup b -> (forall x, In x a -> In x b -> False) -> NoDup (a ++ b).
Proof.
  induction a as [|y a IH]; cbn [app]; intros Ha Hb Hd; [exact Hb|].
  inversion Ha; subst. constructor.
  - intros Hin. apply in_app_or in Hin. destruct Hin as [Hin|Hin]; [contradiction|].
    apply (Hd y); [left; reflexivity | exact Hin].
  - apply IH; try assumption. intros x Hx. apply Hd. right. exact Hx.
Qed.

Lemma filter_split_len {A} (f g h : A -> bool) l :
  (forall x, In x l -> h x = f x || g x) -> (forall x, In x l -> f x && g x = false) ->
  lenZ (filter f l) + lenZ (filter g l) = lenZ (filter h l).
Proof.
  induction l as [|x t IH]; intros H1 H2; [reflexivity|].
  cbn [filter].
  pose proof (H1 x (or_introl eq_refl)) as E1. pose proof (H2 x (or_introl eq_refl)) as E2.
  rewrite E1. assert (IH' := IH (fun y Hy => H1 y (or_intror Hy)) (fun y Hy => H2 y (or_intror Hy))).
  destruct (f x), (g x); cbn [orb andb] in *; try discriminate; rewrite ?lenZ_cons; lia.
Qed.

Lemma filter_map_len {A B} (f : A -> B) (g : B -> bool) l :
  lenZ (filter g (map f l)) = lenZ (filter (fun x => g (f x)) l).
Proof.
  induction l as [|x t IH]; [reflexivity|]. cbn [map filter].
  destruct (g (f x)); rewrite ?lenZ_cons, IH; reflexivity.
Qed.

(* the repaired map: a cpu is classified LSE exactly when some LSE pod lists it, whatever the
   order of the pods *)
Lemma pool_fold_lse c : forall pods cur,
  fold_left (pool_step c) pods cur = Q_LSE <-> cur = Q_LSE \/ lse_owned pods c = true.
Proof.
  unfold lse_owned. induction pods as [|p t IH]; intros cur; cbn [fold_left existsb].
  - split; [intros H; left; exact H | intros [H|H]; [exact H | discriminate]].
  - rewrite IH. unfold pool_step, pool_entry.
    destruct (memZ c (c_cpus p)) eqn:Em.
    + destruct (cur =? Q_LSE) eqn:Ec.
      * apply Z.eqb_eq in Ec. split; intros _; [left; exact Ec | left; exact Ec].
      * apply Z.eqb_neq in Ec. rewrite andb_true_r.
        destruct (c_lab p =? Q_NONE) eqn:El.
        -- apply Z.eqb_eq in El. rewrite El. cbn [Z.eqb Q_NONE Q_LSE orb].
           split; [intros [H|H]; [discriminate | right; exact H] | intros [H|H]; [contradiction | right; exact H]].
        -- destruct (c_lab p =? Q_LSE) eqn:E1; cbn [orb].
           ++ apply Z.eqb_eq in E1. split; intros _; [right; reflexivity | left; exact E1].
           ++ apply Z.eqb_neq in E1.
              split; [intros [H|H]; [contradiction | right; exact H] | intros [H|H]; [contradiction | right; exact H]].
    + rewrite andb_false_r. cbn [orb]. reflexivity.
Qed.

Lemma pool_lse_iff pods c : (pool_of pods c =? Q_LSE) = lse_owned pods c.
Proof.
  unfold pool_of. pose proof (pool_fold_lse c pods Q_NONE) as H.
  destruct (fold_left (pool_step c) pods Q_NONE =? Q_LSE) eqn:E.
  - apply Z.eqb_eq in E. apply H in E. destruct E as [E|E]; [discriminate | symmetry; exact E].
  - apply Z.eqb_neq in E. destruct (lse_owned pods c) eqn:L; [|reflexivity].
    exfalso. apply E. apply H. right. reflexivity.
Qed.

(* well-formed input of adjustByCPUSet: processor ids are distinct *)
Definition adjust_wf (i : ainput) : Prop := NoDup (map cpu (a_procs i)).

Lemma pool_unprotected i p :
  eligible i p && negb (pool_of (a_pods i) (cpu p) =? Q_LSE) = negb (protected i (cpu p)).
Proof.
  rewrite pool_lse_iff. unfold eligible, protected.
  destruct (lse_owned (a_pods i) (cpu p)), (memZ (cpu p) (a_reserved i)), (memZ (cpu p) (a_sysexcl i));
    reflexivity.
Qed.

Lemma pools_count i : adjust_wf i -> lenZ (lsr_pool i) + lenZ (ls_pool i) = lenZ (free_cpus i).
Proof.
  intros Hnd. unfold adjust_wf in Hnd. unfold free_cpus. rewrite (nodup_fixed_point Z.eq_dec Hnd).
  rewrite filter_map_len. unfold lsr_pool, ls_pool.
  apply filter_split_len; intros p Hp.
  - rewrite <- (pool_unprotected i p).
    destruct (eligible i p), (pool_of (a_pods i) (cpu p) =? Q_LSR) eqn:E1,
             (pool_of (a_pods i) (cpu p) =? Q_LSE) eqn:E2; try reflexivity.
    apply Z.eqb_eq in E1. apply Z.eqb_eq in E2. rewrite E1 in E2. discriminate.
  - destruct (eligible i p), (pool_of (a_pods i) (cpu p) =? Q_LSR); reflexivity.
Qed.

Lemma lsr_pool_in i p : In p (lsr_pool i) ->
  In p (a_procs i) /\ eligible i p = true /\ pool_of (a_pods i) (cpu p) = Q_LSR.
Proof.
  unfold lsr_pool. rewrite filter_In. intros [H1 H2].
  apply andb_true_iff in H2. destruct H2 as [H2 H3]. apply Z.eqb_eq in H3. auto.
Qed.
Lemma ls_pool_in i p : In p (ls_pool i) ->
  In p (a_procs i) /\ eligible i p = true /\ pool_of (a_pods i) (cpu p) <> Q_LSR
  /\ pool_of (a_pods i) (cpu p) <> Q_LSE.
Proof.
  unfold ls_pool. rewrite filter_In. intros [H1 H2].
  apply andb_true_iff in H2. destruct H2 as [H2 H4].
  apply andb_true_iff in H2. destruct H2 as [H2 H3].
  apply negb_true_iff in H3. apply negb_true_iff in H4.
  apply Z.eqb_neq in H3. apply Z.eqb_neq in H4. auto.
Qed.

(* every cpu of either pool exists and is not protected *)
Lemma pool_cpu_ok i c :
  In c (map cpu (lsr_pool i)) \/ In c (map cpu (ls_pool i)) ->
  In c (map cpu (a_procs i)) /\ protected i c = false.
Proof.
  intros [H|H]; apply in_map_iff in H; destruct H as [p [<- Hp]].
  - destruct (lsr_pool_in i p Hp) as [H1 [H2 H3]]. split; [apply in_map; exact H1|].
    apply negb_true_iff. rewrite <- (pool_unprotected i p). rewrite H2, H3. reflexivity.
  - destruct (ls_pool_in i p Hp) as [H1 [H2 [H3 H4]]]. split; [apply in_map; exact H1|].
    apply negb_true_iff. rewrite <- (pool_unprotected i p). rewrite H2.
    apply Z.eqb_neq in H4. rewrite H4. reflexivity.
Qed.

(* ---------------------------------------------------------------- the split across the pools *)

Lemma split_bounds cpus a b : 0 <= a -> 0 <= b -> 0 < a + b -> 0 <= cpus ->
  let n := Z.quot (cpus * a) (a + b) in
  0 <= n <= cpus /\ (cpus <= a + b -> n <= a /\ cpus - n <= b).
Proof.
  intros Ha Hb Hab Hc n. subst n.
  rewrite Z.quot_div_nonneg by nia.
  assert (H0 : 0 <= cpus * a / (a + b)) by (apply Z.div_pos; nia).
  assert (H1 : cpus * a / (a + b) <= cpus) by (apply Z.div_le_upper_bound; nia).
  split; [lia|]. intros Hle. split.
  - apply Z.div_le_upper_bound; nia.
  - assert (cpus - b <= cpus * a / (a + b)); [|lia].
    apply Z.div_le_lower_bound; nia.
Qed.

(* what adjustByCPUSet hands to applyBESuppressCPUSet *)
Lemma be_cpuset_spec i be : adjust_wf i -> be_cpuset i = Some be ->
  NoDup be /\ unprotected_existing i be /\ lenZ be <= target i
  /\ (target i <= lenZ (free_cpus i) -> lenZ be = target i).
Proof.
  intros Hwf Hbe. pose proof Hwf as Hnd. unfold adjust_wf in Hnd.
  pose proof (pools_count i Hwf) as Hcount.
  unfold be_cpuset in Hbe.
  destruct (lenZ (lsr_pool i) + lenZ (ls_pool i) =? 0) eqn:E0; [discriminate|].
  apply Z.eqb_neq in E0. inversion Hbe as [Hbe']. clear Hbe.
  fold (target i) in *.
  set (a := lenZ (lsr_pool i)) in *. set (b := lenZ (ls_pool i)) in *.
  assert (Ha : 0 <= a) by apply lenZ_nonneg. assert (Hb : 0 <= b) by apply lenZ_nonneg.
  assert (Ht : 0 <= target i).
  { unfold target. apply target_count_nonneg; [unfold dedup_len|]; apply lenZ_nonneg. }
  destruct (split_bounds (target i) a b Ha Hb ltac:(lia) Ht) as [Hn Hn'].
  set (n := Z.quot (target i * a) (a + b)) in *.
  assert (Hndl : NoDup (map cpu (lsr_pool i))) by (apply NoDup_map_filter; exact Hnd).
  assert (Hnds : NoDup (map cpu (ls_pool i))) by (apply NoDup_map_filter; exact Hnd).
  set (fl := if 0 <? n then pick n (lsr_pool i) else []) in *.
  set (fs := if 0 <? target i - n then pick (target i - n) (ls_pool i) else []) in *.
  assert (Hfl : NoDup fl /\ incl fl (map cpu (lsr_pool i)) /\ lenZ fl <= n
                /\ (n <= a -> lenZ fl = n)).
  { subst fl. destruct (0 <? n) eqn:E; [apply Z.ltb_lt in E|apply Z.ltb_ge in E].
    - split; [apply pick_distinct; exact Hndl|]. split; [apply pick_subset; exact Hndl|].
      split; [pose proof (pick_count_le n _ Hndl); lia|].
      intros Hle. apply pick_exact; [exact Hndl | fold a; lia].
    - split; [constructor|]. split; [intros c H; destruct H|]. rewrite lenZ_nil. split; lia. }
  assert (Hfs : NoDup fs /\ incl fs (map cpu (ls_pool i)) /\ lenZ fs <= target i - n
                /\ (target i - n <= b -> lenZ fs = target i - n)).
  { subst fs. destruct (0 <? target i - n) eqn:E; [apply Z.ltb_lt in E|apply Z.ltb_ge in E].
    - split; [apply pick_distinct; exact Hnds|]. split; [apply pick_subset; exact Hnds|].
      split; [pose proof (pick_count_le (target i - n) _ Hnds); lia|].
      intros Hle. apply pick_exact; [exact Hnds | fold b; lia].
    - split; [constructor|]. split; [intros c H; destruct H|]. rewrite lenZ_nil. split; lia. }
  destruct Hfl as [Hl1 [Hl2 [Hl3 Hl4]]]. destruct Hfs as [Hs1 [Hs2 [Hs3 Hs4]]].
  split; [|split; [|split]].
  - apply NoDup_app_intro; try assumption.
    intros c H1 H2. apply Hl2 in H1. apply Hs2 in H2.
    apply in_map_iff in H1. destruct H1 as [p [Hp1 Hp2]].
    apply in_map_iff in H2. destruct H2 as [q [Hq1 Hq2]].
    destruct (lsr_pool_in i p Hp2) as [_ [_ H3]]. destruct (ls_pool_in i q Hq2) as [_ [_ [H4 _]]].
    apply H4. rewrite Hq1, <- Hp1. exact H3.
  - intros c Hin. apply in_app_or in Hin. apply (pool_cpu_ok i c).
    destruct Hin as [H|H]; [left; exact (Hl2 c H) | right; exact (Hs2 c H)].
  - rewrite lenZ_app. lia.
  - intros Hle. rewrite lenZ_app. rewrite <- Hcount in Hle.
    destruct (Hn' Hle) as [H1 H2]. rewrite (Hl4 H1), (Hs4 H2). lia.
Qed.

Lemma dedup_len_zero l : dedup_len l = 0 -> l = [].
Proof.
  unfold dedup_len, lenZ. destruct l as [|x t]; [reflexivity|]. intros H. exfalso.
  assert (Hin : In x (nodup Z.eq_dec (x :: t))) by (apply nodup_In; left; reflexivity).
  destruct (nodup Z.eq_dec (x :: t)); [destruct Hin | cbn [length] in H; lia].
Qed.

Lemma recover_set_ok i : unprotected_existing i (recover_set i).
Proof.
  intros c Hc. unfold recover_set in Hc. apply filter_In in Hc. destruct Hc as [H1 H2].
  split; [exact H1|]. unfold protected.
  destruct (lse_owned (a_pods i) c), (memZ c (a_reserved i)), (memZ c (a_sysexcl i));
    try reflexivity; discriminate.
Qed.

Lemma unprotected_existing_to_set i s : unprotected_existing i s -> unprotected_existing i (to_set s).
Proof. intros H c Hc. apply H. apply to_set_in. exact Hc. Qed.

(* main theorem about the cgroup files after adjustByCPUSet *)
Lemma adjust_holds_model i : adjust_wf i -> adjust_holds i (adjust i).
Proof.
  intros Hwf. unfold adjust.
  assert (Ht : 0 <= target i).
  { unfold target. apply target_count_nonneg; [unfold dedup_len|]; apply lenZ_nonneg. }
  assert (Hold0 : target i <= 0 -> to_set (a_old i) = []).
  { intros H. unfold target in H. apply target_zero_old in H;
      [|unfold dedup_len; apply lenZ_nonneg | apply lenZ_nonneg].
    rewrite (dedup_len_zero _ H). reflexivity. }
  destruct (be_cpuset i) as [be|] eqn:Ebe.
  - destruct (be_cpuset_spec i be Hwf Ebe) as [H1 [H2 [H3 H4]]].
    set (new := match be with [] => to_set (a_old i) | _ :: _ => to_set be end).
    assert (Hnew1 : new = to_set (a_old i) \/ set_ok i new).
    { subst new. destruct be as [|x t]; [left; reflexivity|]. right.
      split; [apply to_set_nodup|]. split; [apply unprotected_existing_to_set; exact H2|].
      rewrite to_set_len; assumption. }
    assert (Hnew2 : target i <= lenZ (free_cpus i) -> set_ok i new /\ lenZ new = target i).
    { intros Hle. specialize (H4 Hle). subst new. destruct be as [|x t].
      - rewrite lenZ_nil in H4. rewrite Hold0 by lia.
        split; [|rewrite lenZ_nil; exact H4].
        split; [constructor|]. split; [intros c Hc; destruct Hc | rewrite lenZ_nil; lia].
      - split; [|rewrite to_set_len; assumption].
        split; [apply to_set_nodup|]. split; [apply unprotected_existing_to_set; exact H2|].
        rewrite to_set_len; assumption. }
    assert (Hnew3 : target i <= lenZ (free_cpus i) ->
                    2 <= dedup_len (a_old i) + ceil_div (lenZ (a_procs i)) 10 -> 2 <= lenZ new).
    { intros Hle H2'. destruct (Hnew2 Hle) as [_ Hl]. rewrite Hl. unfold target.
      apply target_count_bounds. exact H2'. }
    destruct (a_static i) eqn:Es; cbn [adjust_holds]; rewrite Es.
    + split; [exact Hnew1|]. split; [exact Hnew2|]. split; [exact Hnew3|]. split; [reflexivity|].
      right. apply unprotected_existing_to_set. apply recover_set_ok.
    + split; [exact Hnew1|]. split; [exact Hnew2|]. split; [exact Hnew3|]. split; reflexivity.
  - (* no eligible cpu: nothing is written *)
    unfold be_cpuset in Ebe.
    destruct (lenZ (lsr_pool i) + lenZ (ls_pool i) =? 0) eqn:E0; [|discriminate].
    apply Z.eqb_eq in E0. rewrite (pools_count i Hwf) in E0.
    cbn [adjust_holds]. split; [left; reflexivity|]. split.
    + intros Hle. rewrite Hold0 by lia. split; [|rewrite lenZ_nil; lia].
      split; [constructor|]. split; [intros c Hc; destruct Hc | rewrite lenZ_nil; lia].
    + split.
      * intros Hle H2'. exfalso.
        assert (2 <= target i) by (unfold target; apply target_count_bounds; exact H2'). lia.
      * split; [reflexivity|]. destruct (a_static i); [left|]; reflexivity.
Qed.

(* totality on the degenerate input "no cpu is eligible": the files keep their contents *)
Lemma adjust_no_eligible i : lsr_pool i = [] -> ls_pool i = [] ->
  adjust i = (to_set (a_old i), to_set (a_old i), to_set (a_old i)).
Proof.
  intros H1 H2. unfold adjust, be_cpuset. rewrite H1, H2. reflexivity.
Qed.

(* no cpu handed to BE is protected *)
Lemma no_protected i be c : adjust_wf i -> be_cpuset i = Some be -> In c be ->
  In c (map cpu (a_procs i)) /\ lse_owned (a_pods i) c = false
  /\ ~ In c (a_reserved i) /\ ~ In c (a_sysexcl i).
Proof.
  intros Hwf Hbe Hc. destruct (be_cpuset_spec i be Hwf Hbe) as [_ [H _]].
  destruct (H c Hc) as [H1 H2]. split; [exact H1|].
  unfold protected in H2. apply orb_false_iff in H2. destruct H2 as [H2 H3].
  apply orb_false_iff in H2. destruct H2 as [H2 H4].
  split; [exact H2|]. split; apply memZ_nIn; assumption.
Qed.
