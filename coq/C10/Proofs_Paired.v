(* C10 — the "core-paired" part of calculateBESuppressCPUSetPolicy: the first loop hands out
   hyper-thread siblings two at a time, and it only stops while two or more cpus are still needed
   when no bucket has a free sibling pair left. *)
From Coq Require Import List ZArith Bool Lia.
From Verif Require Import Gen.Gen_consts C10.Model C10.Spec C10.Proofs_Pick.
Import ListNotations.
Open Scope Z_scope.

Definition sib_pairs (bs : list (list proc)) (prs : list (proc * proc)) : Prop :=
  Forall (fun pq => core (fst pq) = core (snd pq)
                    /\ exists b, In b bs /\ In (fst pq) b /\ In (snd pq) b) prs.
(* the accumulator is in reverse order: latest pair first, second sibling first *)
Definition flat_pairs (prs : list (proc * proc)) : list Z :=
  flat_map (fun pq => [cpu (snd pq); cpu (fst pq)]) prs.
Definition no_free_pair (bs : list (list proc)) (acc : list Z) : Prop :=
  Forall (fun b => find_pair acc b = None) bs.

Lemma find_pair_in acc b p q : find_pair acc b = Some (p, q) -> In p b /\ In q b /\ core p = core q.
Proof.
  induction b as [|x t IH]; cbn [find_pair]; intros H; [discriminate|].
  destruct t as [|y t']; [discriminate|].
  destruct (negb (memZ (cpu x) acc) && (core x =? core y)) eqn:E.
  - inversion H; subst. apply andb_true_iff in E. destruct E as [_ E]. apply Z.eqb_eq in E.
    split; [left; reflexivity|]. split; [right; left; reflexivity | exact E].
  - destruct (IH H) as [H1 [H2 H3]]. split; [right; exact H1|]. split; [right; exact H2 | exact H3].
Qed.

Lemma pair_round_pairs all : forall bs idx need acc need' acc' r,
  incl bs all -> pair_round bs idx need acc = (need', acc', r) ->
  exists prs, acc' = flat_pairs prs ++ acc /\ sib_pairs all prs /\ need' = need - 2 * lenZ prs
              /\ (r = None -> need' = need -> no_free_pair bs acc')
              /\ (r <> None -> need' <= 1).
Proof.
  induction bs as [|b t IH]; intros idx need acc need' acc' r Hin H; cbn [pair_round] in H.
  - inversion H; subst. exists []. cbn. split; [reflexivity|]. split; [constructor|].
    split; [lia|]. split; [intros _ _; constructor | intros Hn; exfalso; apply Hn; reflexivity].
  - destruct (need <=? 1) eqn:En.
    + inversion H; subst. apply Z.leb_le in En. exists []. cbn.
      split; [reflexivity|]. split; [constructor|]. split; [lia|].
      split; [intros Hd; discriminate | intros _; exact En].
    + apply Z.leb_gt in En.
      assert (Hint : incl t all) by (intros x Hx; apply Hin; right; exact Hx).
      destruct (find_pair acc b) as [[p q]|] eqn:F.
      * destruct (find_pair_in acc b p q F) as [Hp [Hq Hc]].
        destruct (IH (S idx) (need - 2) _ need' acc' r Hint H) as [prs [H1 [H2 [H3 [H4 H5]]]]].
        exists (prs ++ [(p, q)]). split; [|split; [|split; [|split]]].
        -- unfold flat_pairs in *. rewrite flat_map_app. cbn [flat_map fst snd app].
           rewrite H1. rewrite <- app_assoc. reflexivity.
        -- apply Forall_app. split; [exact H2|]. constructor; [|constructor].
           cbn [fst snd]. split; [exact Hc|]. exists b. split; [apply Hin; left; reflexivity|].
           split; assumption.
        -- rewrite lenZ_app, lenZ_cons, lenZ_nil. lia.
        -- intros _ Heq. exfalso. pose proof (lenZ_nonneg prs). lia.
        -- exact H5.
      * destruct (IH (S idx) need acc need' acc' r Hint H) as [prs [H1 [H2 [H3 [H4 H5]]]]].
        exists prs. split; [exact H1|]. split; [exact H2|]. split; [exact H3|]. split; [|exact H5].
        intros Hr Heq. constructor; [|exact (H4 Hr Heq)].
        assert (Hz : lenZ prs = 0) by lia.
        destruct prs as [|x prs']; [|rewrite lenZ_cons in Hz; pose proof (lenZ_nonneg prs'); lia].
        cbn in H1. subst acc'. exact F.
Qed.

Lemma pair_loop_pairs all : forall fuel pre need acc need' acc' k,
  fuel_enough pre need fuel ->
  (pre = need -> need <= 1 \/ no_free_pair all acc) ->
  pair_loop fuel all pre need acc = (need', acc', k) ->
  exists prs, acc' = flat_pairs prs ++ acc /\ sib_pairs all prs /\ need' = need - 2 * lenZ prs
              /\ (need' <= 1 \/ no_free_pair all acc').
Proof.
  unfold fuel_enough.
  induction fuel as [|f IH]; intros pre need acc need' acc' k Hf Hpre H.
  - destruct (pre =? need); lia.
  - cbn [pair_loop] in H. destruct (need <=? 1) eqn:En.
    + inversion H; subst. apply Z.leb_le in En. exists []. cbn.
      split; [reflexivity|]. split; [constructor|]. split; [lia | left; exact En].
    + apply Z.leb_gt in En. destruct (pre =? need) eqn:Ep.
      * inversion H; subst. apply Z.eqb_eq in Ep. exists []. cbn.
        split; [reflexivity|]. split; [constructor|]. split; [lia | exact (Hpre Ep)].
      * destruct (pair_round all 0 need acc) as [[need1 acc1] r] eqn:R.
        destruct (pair_round_pairs all all 0%nat need acc need1 acc1 r (incl_refl _) R)
          as [prs1 [H1 [H2 [H3 [H4 H5]]]]].
        destruct r as [k'|].
        -- inversion H; subst. exists prs1. split; [reflexivity|]. split; [exact H2|].
           split; [reflexivity|]. left. apply H5. discriminate.
        -- pose proof (lenZ_nonneg prs1) as Hl.
           destruct (IH need need1 acc1 need' acc' k) as [prs2 [G1 [G2 [G3 G4]]]].
           ++ destruct (need =? need1) eqn:E; [lia|]. apply Z.eqb_neq in E. lia.
           ++ intros Heq. right. apply H4; [reflexivity | symmetry; exact Heq].
           ++ exact H.
           ++ exists (prs2 ++ prs1). split; [|split; [|split]].
              ** unfold flat_pairs in *. rewrite flat_map_app. rewrite G1, H1. rewrite app_assoc. reflexivity.
              ** apply Forall_app. split; assumption.
              ** rewrite lenZ_app. lia.
              ** exact G4.
Qed.

Lemma single_round_prefix : forall bs need acc need' acc' st,
  single_round bs need acc = (need', acc', st) -> exists extra, acc' = extra ++ acc.
Proof.
  induction bs as [|b t IH]; intros need acc need' acc' st H; cbn [single_round] in H.
  - inversion H; subst. exists []. reflexivity.
  - destruct (need <=? 0); [inversion H; subst; exists []; reflexivity|].
    destruct (find_single acc b) as [p|].
    + destruct (IH _ _ _ _ _ H) as [e He]. exists (e ++ [cpu p]). rewrite <- app_assoc. exact He.
    + exact (IH _ _ _ _ _ H).
Qed.
Lemma single_loop_prefix bs : forall fuel pre need acc,
  exists extra, single_loop fuel bs pre need acc = extra ++ acc.
Proof.
  induction fuel as [|f IH]; intros pre need acc; cbn [single_loop]; [exists []; reflexivity|].
  destruct (need <=? 0); [exists []; reflexivity|].
  destruct (pre =? need); [exists []; reflexivity|].
  destruct (single_round bs need acc) as [[need1 acc1] st] eqn:R.
  destruct (single_round_prefix _ _ _ _ _ _ R) as [e1 He1].
  destruct st; [exists e1; exact He1|].
  destruct (IH need need1 acc1) as [e2 He2]. exists (e2 ++ e1). rewrite He2, He1. apply app_assoc.
Qed.

Lemma rev_flat_pairs prs :
  rev (flat_pairs prs) = flat_map (fun pq => [cpu (fst pq); cpu (snd pq)]) (rev prs).
Proof.
  unfold flat_pairs. induction prs as [|[p q] t IH]; [reflexivity|].
  cbn [flat_map fst snd rev]. rewrite rev_app_distr, IH, flat_map_app. cbn [flat_map fst snd rev app].
  reflexivity.
Qed.

(* pick returns sibling pairs first, then single cpus; while two or more cpus were still needed
   at the end of the pair phase, no bucket had a free sibling pair left *)
Theorem pick_core_paired n ps : n <= lenZ ps ->
  exists prs singles,
    pick n ps = flat_map (fun pq => [cpu (fst pq); cpu (snd pq)]) prs ++ singles
    /\ sib_pairs (buckets_of ps) prs
    /\ (n - 2 * lenZ prs <= 1
        \/ no_free_pair (buckets_of ps) (flat_pairs (rev prs))).
Proof.
  intros Hn. unfold pick, pick_with.
  destruct (lenZ ps <? n) eqn:E; [apply Z.ltb_lt in E; lia|].
  destruct (pair_loop (pick_fuel n) (buckets_of ps) (-1) n []) as [[need acc] k] eqn:L.
  destruct (pair_loop_pairs (buckets_of ps) (pick_fuel n) (-1) n [] need acc k) as [prs [H1 [H2 [H3 H4]]]].
  - unfold fuel_enough, pick_fuel. destruct (-1 =? n); lia.
  - intros Heq. left. lia.
  - exact L.
  - rewrite app_nil_r in H1.
    destruct (single_loop_prefix (rot k (buckets_of ps)) (pick_fuel n) (-1) need acc) as [extra He].
    exists (rev prs), (rev extra). rewrite He, rev_app_distr. split; [|split].
    + f_equal. rewrite H1. apply rev_flat_pairs.
    + unfold sib_pairs in *. apply Forall_rev. exact H2.
    + rewrite lenZ_rev. destruct H4 as [H4|H4]; [left; lia|]. right. rewrite rev_involutive.
      rewrite <- H1. exact H4.
Qed.
