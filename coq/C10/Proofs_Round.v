(* C10 — proofs about whole suppression rounds over a history (Round.v). *)
From Coq Require Import List ZArith Bool Lia.
From Verif Require Import Gen.Gen_consts C10.Model C10.Spec C10.Proofs_Pick C10.Proofs_Adjust
  C10.Proofs_Budget C10.Proofs_Float C10.Proofs C10.Round.
Import ListNotations.
Open Scope Z_scope.

(* ---------------------------------------------------------------- small facts *)

Lemma to_set_nil_inv l : to_set l = [] -> l = [].
Proof.
  destruct l as [|x t]; [reflexivity|]. intros H. exfalso.
  assert (Hin : In x (to_set (x :: t))) by (apply to_set_in; left; reflexivity).
  rewrite H in Hin. destruct Hin.
Qed.

Lemma clean_setb_spec i s : clean_setb i s = true <-> clean_set i s.
Proof.
  unfold clean_setb, clean_set. rewrite andb_true_iff, nodupb_spec, unprotected_existingb_spec. tauto.
Qed.

Lemma clean_recover i : clean_set i (to_set (recover_set i)).
Proof. split; [apply to_set_nodup | apply unprotected_existing_to_set; apply recover_set_ok]. Qed.

(* when some cpu is eligible, calcBECPUSet is not empty *)
Lemma recover_nonempty i : lenZ (lsr_pool i) + lenZ (ls_pool i) <> 0 -> to_set (recover_set i) <> [].
Proof.
  intros Hne Hnil. apply to_set_nil_inv in Hnil.
  assert (Hex : exists c, In c (map cpu (lsr_pool i)) \/ In c (map cpu (ls_pool i))).
  { destruct (lsr_pool i) as [|p t] eqn:E1.
    - destruct (ls_pool i) as [|q u] eqn:E2; [unfold lenZ in Hne; cbn in Hne; lia|].
      exists (cpu q). right. left. reflexivity.
    - exists (cpu p). left. left. reflexivity. }
  destruct Hex as [c Hc]. destruct (pool_cpu_ok i c Hc) as [H1 H2].
  assert (Hin : In c (recover_set i)).
  { unfold recover_set. apply filter_In. split; [exact H1|].
    unfold protected in H2. apply orb_false_iff in H2. destruct H2 as [H2 H3].
    apply orb_false_iff in H2. destruct H2 as [H2 H4]. rewrite H2, H3, H4. reflexivity. }
  rewrite Hnil in Hin. destruct Hin.
Qed.

Lemma target_nonneg i : 0 <= target i.
Proof. unfold target. apply target_count_nonneg; [unfold dedup_len|]; apply lenZ_nonneg. Qed.

Lemma target_zero_root i : target i <= 0 -> a_old i = [].
Proof.
  intros H. unfold target in H. apply target_zero_old in H;
    [|unfold dedup_len; apply lenZ_nonneg | apply lenZ_nonneg].
  apply dedup_len_zero. exact H.
Qed.

Lemma set_ok_nil i : set_ok i [].
Proof.
  split; [constructor|]. split; [intros c Hc; destruct Hc|]. rewrite lenZ_nil. apply target_nonneg.
Qed.

(* ---------------------------------------------------------------- adjustByCPUSet on files that differ *)

Lemma adjust3_spec i root0 pod0 ctr0 :
  adjust_wf i -> a_old i = root0 -> pod0 = root0 -> (a_static i = false -> ctr0 = root0) ->
  (root0 = [] -> ctr0 = []) ->
  let '(r, p, k) := adjust3 i (root0, pod0, ctr0) in
  (k = ctr0 \/ set_ok i k) /\
  (target i <= lenZ (free_cpus i) -> set_ok i k /\ lenZ k = target i) /\
  p = r /\
  (if a_static i then r = root0 \/ clean_set i r else r = k) /\
  (a_static i = false -> k = r) /\ (r = [] -> k = []).
Proof.
  intros Hwf Hold Hp Hs He.
  pose proof (target_nonneg i) as Ht.
  assert (Hzero : target i <= 0 -> ctr0 = [] /\ target i = 0).
  { intros H. split; [|lia]. apply He. rewrite <- Hold. apply target_zero_root. exact H. }
  unfold adjust3. destruct (be_cpuset i) as [be|] eqn:Ebe.
  - destruct (be_cpuset_spec i be Hwf Ebe) as [H1 [H2 [H3 H4]]].
    assert (Hne : to_set (recover_set i) <> []).
    { apply recover_nonempty. unfold be_cpuset in Ebe.
      destruct (lenZ (lsr_pool i) + lenZ (ls_pool i) =? 0) eqn:E0; [discriminate|].
      apply Z.eqb_neq. exact E0. }
    assert (Hbe : forall x t, be = x :: t -> set_ok i (to_set be) /\ lenZ (to_set be) = lenZ be).
    { intros x t Hb. split; [|apply to_set_len; exact H1].
      split; [apply to_set_nodup|]. split; [apply unprotected_existing_to_set; exact H2|].
      rewrite to_set_len; assumption. }
    destruct (a_static i) eqn:Es.
    + destruct be as [|x t].
      * split; [left; reflexivity|]. split.
        { intros Hle. specialize (H4 Hle). rewrite lenZ_nil in H4.
          destruct (Hzero ltac:(lia)) as [Hc0 Ht0]. rewrite Hc0.
          split; [apply set_ok_nil | rewrite lenZ_nil; lia]. }
        split; [reflexivity|]. split; [right; apply clean_recover|].
        split; [intros H; discriminate|]. intros H. contradiction.
      * destruct (Hbe x t eq_refl) as [Hok Hlen].
        split; [right; exact Hok|]. split.
        { intros Hle. split; [exact Hok|]. rewrite Hlen. apply H4. exact Hle. }
        split; [reflexivity|]. split; [right; apply clean_recover|].
        split; [intros H; discriminate|]. intros H. contradiction.
    + specialize (Hs eq_refl). destruct be as [|x t].
      * split; [left; reflexivity|]. split.
        { intros Hle. specialize (H4 Hle). rewrite lenZ_nil in H4.
          destruct (Hzero ltac:(lia)) as [Hc0 Ht0]. rewrite Hc0.
          split; [apply set_ok_nil | rewrite lenZ_nil; lia]. }
        split; [exact Hp|]. split; [symmetry; exact Hs|]. split; [intros _; exact Hs | exact He].
      * destruct (Hbe x t eq_refl) as [Hok Hlen].
        split; [right; exact Hok|]. split.
        { intros Hle. split; [exact Hok|]. rewrite Hlen. apply H4. exact Hle. }
        split; [reflexivity|]. split; [reflexivity|]. split; [reflexivity|]. intros H; exact H.
  - (* no eligible cpu: nothing is written *)
    unfold be_cpuset in Ebe.
    destruct (lenZ (lsr_pool i) + lenZ (ls_pool i) =? 0) eqn:E0; [|discriminate].
    apply Z.eqb_eq in E0. rewrite (pools_count i Hwf) in E0.
    split; [left; reflexivity|]. split.
    { intros Hle. destruct (Hzero ltac:(lia)) as [Hc0 Ht0]. rewrite Hc0.
      split; [apply set_ok_nil | rewrite lenZ_nil; lia]. }
    split; [exact Hp|]. split.
    { destruct (a_static i) eqn:Es; [left; reflexivity | symmetry; apply Hs; reflexivity]. }
    split; [exact Hs | exact He].
Qed.

(* adjust3 on files that all hold the old set is the single-step model of Model.v *)
Lemma adjust3_uniform i :
  adjust3 i (to_set (a_old i), to_set (a_old i), to_set (a_old i)) = adjust i.
Proof.
  unfold adjust3, adjust. destruct (be_cpuset i) as [be|]; [|reflexivity].
  destruct (a_static i); destruct be; reflexivity.
Qed.

(* ---------------------------------------------------------------- one round *)

Lemma round_reserved c nodeu pu hu :
  node_reserved (round_binput c nodeu pu hu)
  = node_reserved (mkB (rc_cap c) (rc_alloc c) (rc_anno c) (rc_thr c) (rc_min c) 0 [] []).
Proof. reflexivity. Qed.

Lemma round_ainput_wf c b root : rcfg_wf c -> adjust_wf (round_ainput c b root).
Proof. intros [H _]. exact H. Qed.

Lemma rinv_recover_quota c st : rinv c st -> rinv c (recover_quota st).
Proof. unfold recover_quota. destruct (rs_qrec st); intros H; exact H. Qed.
Lemma rinv_recover_cpusets c st : rinv c (recover_cpusets c st).
Proof. unfold rinv, recover_cpusets. cbn. repeat split; auto. Qed.

Lemma recover_quota_obs st :
  obs_of (recover_quota st) = (rs_root st, rs_pod st, rs_ctr st, rs_quota st)
  \/ obs_of (recover_quota st) = (rs_root st, rs_pod st, rs_ctr st, -1).
Proof. unfold recover_quota. destruct (rs_qrec st); [left|right]; reflexivity. Qed.

(* a round keeps the invariant and its observation satisfies the specification *)
Lemma rround_spec c st mode fail nodeu pu hu : rcfg_wf c -> rinv c st ->
  rinv c (rround c st mode fail nodeu pu hu)
  /\ rround_ok c (obs_of st) mode fail nodeu pu hu (obs_of (rround c st mode fail nodeu pu hu)).
Proof.
  intros Hwf Hinv. unfold rround, rround_ok.
  destruct (mode =? 2) eqn:E2.
  { split; [apply rinv_recover_cpusets|].
    unfold recover_cpusets. cbn [obs_of rs_root rs_pod rs_ctr rs_quota].
    split; [reflexivity|]. split; [reflexivity|]. split.
    - apply (clean_recover (round_ainput c 0 (rs_root (recover_quota st)))).
    - unfold recover_quota. destruct (rs_qrec st); cbn; [left|right]; reflexivity. }
  destruct (match rc_pods c with [] => true | _ => fail end) eqn:Esk.
  { split; [exact Hinv | reflexivity]. }
  set (bi := round_binput c nodeu pu hu).
  assert (Hb : budget_holds bi (budget bi)).
  { apply budget_formula_any. unfold bi. rewrite round_reserved. exact (proj2 Hwf). }
  destruct (mode =? 1) eqn:E1.
  - split; [apply rinv_recover_cpusets|].
    exists (budget bi). split; [exact Hb|].
    unfold recover_cpusets, quota_round_holds. cbn [obs_of rs_root rs_pod rs_ctr rs_quota].
    split; [apply quota_holds_model|]. split; [reflexivity|]. split; [reflexivity|].
    apply (clean_recover (round_ainput c (budget bi) (rs_root st))).
  - destruct Hinv as [Hi1 [Hi2 Hi3]].
    pose proof (adjust3_spec (round_ainput c (budget bi) (rs_root st)) (rs_root st) (rs_pod st) (rs_ctr st)
                  (round_ainput_wf c _ _ Hwf) eq_refl Hi1 Hi2 Hi3) as Ha.
    destruct (adjust3 (round_ainput c (budget bi) (rs_root st)) (rs_root st, rs_pod st, rs_ctr st))
      as [[r p] k] eqn:Ea.
    destruct Ha as [A1 [A2 [A3 [A4 [A5 A6]]]]].
    split.
    + apply rinv_recover_quota. unfold rinv. cbn [rs_root rs_pod rs_ctr]. auto.
    + exists (budget bi). split; [exact Hb|].
      set (st1 := mkRS r p k (rs_quota st) (rs_qrec st)).
      assert (Hq : exists q, obs_of (recover_quota st1) = (r, p, k, q) /\ (q = rs_quota st \/ q = -1)).
      { destruct (recover_quota_obs st1) as [H|H]; rewrite H; cbn [st1 rs_root rs_pod rs_ctr rs_quota];
          eexists; (split; [reflexivity|]); [left|right]; reflexivity. }
      destruct Hq as [q [Hq1 Hq2]]. rewrite Hq1.
      unfold cpuset_round_holds. cbn [obs_of].
      split; [exact A1|]. split; [exact A2|]. split.
      { intros Hle H2'. destruct (A2 Hle) as [_ Hl]. rewrite Hl. unfold target.
        apply target_count_bounds. exact H2'. }
      split; [exact A3|]. split; [exact A4 | exact Hq2].
Qed.

Lemma round_cfg_wf c pu : rcfg_wf c -> rcfg_wf (round_cfg c pu).
Proof. intros H. exact H. Qed.
Lemma round_cfg_inv c pu st : rinv c st <-> rinv (round_cfg c pu) st.
Proof. split; intros H; exact H. Qed.

(* the step keeps the invariant and its observation satisfies the specification *)
Lemma rstep_spec c st op : rcfg_wf c -> rinv c st ->
  rinv c (rstep c st op) /\ rstep_ok c (obs_of st) op (obs_of (rstep c st op)).
Proof.
  intros Hwf Hinv. destruct op as [mode fail nodeu pu hu|v]; cbn [rstep rstep_ok].
  - destruct (rround_spec (round_cfg c pu) st mode fail nodeu (present_uses (rc_pods c) pu) hu
                (round_cfg_wf c pu Hwf) (proj1 (round_cfg_inv c pu st) Hinv)) as [H1 H2].
    split; [apply (round_cfg_inv c pu); exact H1 | exact H2].
  - split; [exact Hinv | reflexivity].
Qed.

(* MAIN THEOREM for whole rounds: over any history of rounds (any interleaving of cpuset-policy,
   cfsQuota-policy and disabled rounds, rounds without pods or without metrics, external rewrites
   of the quota file), from any files satisfying the invariant, every step satisfies the
   specification with respect to the files just before it *)
Theorem rhist_holds_model c : rcfg_wf c -> forall ops st, rinv c st ->
  rhist_holds c (obs_of st) ops (rhist c st ops).
Proof.
  intros Hwf. induction ops as [|op t IH]; intros st Hinv; cbn [rhist rhist_holds]; [exact I|].
  destruct (rstep_spec c st op Hwf Hinv) as [Hinv' Hok]. split; [exact Hok | apply IH; exact Hinv'].
Qed.

(* corollary in the words of the property: after every cpuset-policy round that had pods and
   metrics, no cpu in the container-level cpuset is protected unless the file was left alone *)
Corollary round_no_protected c st mode nodeu pu hu : rcfg_wf c -> rinv c st ->
  mode <> 2 -> mode <> 1 -> rc_pods c <> [] ->
  let st' := rround c st mode false nodeu pu hu in
  rs_ctr st' = rs_ctr st \/
  forall x, In x (rs_ctr st') ->
    In x (map cpu (rc_procs c)) /\ protected (round_ainput c 0 []) x = false.
Proof.
  intros Hwf Hinv Hm2 Hm1 Hp st'.
  destruct (rround_spec c st mode false nodeu pu hu Hwf Hinv) as [_ Hok].
  unfold rround_ok in Hok.
  apply Z.eqb_neq in Hm2. apply Z.eqb_neq in Hm1. rewrite Hm2 in Hok.
  destruct (rc_pods c) as [|p0 t0] eqn:Ep; [contradiction|]. rewrite Hm1 in Hok.
  destruct Hok as [b [_ Hok]]. fold st' in Hok.
  unfold cpuset_round_holds, obs_of in Hok. destruct Hok as [[H|H] _]; [left; exact H|].
  right. intros x Hx. destruct H as [_ [H _]]. exact (H x Hx).
Qed.

(* ---------------------------------------------------------------- growth per round *)

Lemma dedup_len_le l : dedup_len l <= lenZ l.
Proof.
  unfold dedup_len. induction l as [|x t IH]; [cbn; lia|]. cbn [nodup].
  destruct (in_dec Z.eq_dec x t); rewrite ?lenZ_cons; lia.
Qed.

(* under the none kubelet policy the cpuset BE runs on grows by at most the step limit per round *)
Lemma round_growth_none c st mode fail nodeu pu hu : rcfg_wf c -> rinv c st -> rc_static c = false ->
  mode <> 1 -> mode <> 2 ->
  lenZ (rs_ctr (rround c st mode fail nodeu pu hu)) <= lenZ (rs_ctr st) + ceil_div (lenZ (rc_procs c)) 10.
Proof.
  intros Hwf Hinv Hs Hm1 Hm2.
  assert (Hstep : 0 <= ceil_div (lenZ (rc_procs c)) 10) by (apply ceil_div_nonneg; [lia | apply lenZ_nonneg]).
  destruct (rround_spec c st mode fail nodeu pu hu Hwf Hinv) as [_ Hok].
  unfold rround_ok in Hok. apply Z.eqb_neq in Hm1. apply Z.eqb_neq in Hm2. rewrite Hm2 in Hok.
  destruct (match rc_pods c with [] => true | _ => fail end).
  { assert (He : rs_ctr (rround c st mode fail nodeu pu hu) = rs_ctr st).
    { unfold obs_of in Hok. injection Hok as _ _ H _. exact H. }
    rewrite He. lia. }
  rewrite Hm1 in Hok. destruct Hok as [b [_ Hok]].
  unfold cpuset_round_holds, obs_of in Hok. destruct Hok as [[H|H] _]; [rewrite H; lia|].
  destruct H as [_ [_ H]]. unfold target in H.
  pose proof (target_count_bounds b (dedup_len (rs_root st)) (lenZ (rc_procs c))) as [Hb _].
  cbn [round_ainput a_budget a_old a_procs] in H.
  pose proof (dedup_len_le (rs_root st)) as Hd.
  destruct Hinv as [_ [Hi _]]. rewrite (Hi Hs). lia.
Qed.

(* under the static kubelet policy it does not: the step limit is taken from the besteffort-level
   file, which recoverCPUSetIfNeed resets to every unprotected cpu in each round.  8 cpus (step 1),
   first round a busy LS pod (budget 700 -> 2 cpus), second round idle (budget 5200 -> 6 cpus) *)
Definition w_procs8 : list proc :=
  [mkProc 0 0 0 0; mkProc 1 0 0 0; mkProc 2 1 0 0; mkProc 3 1 0 0;
   mkProc 4 2 0 0; mkProc 5 2 0 0; mkProc 6 3 0 0; mkProc 7 3 0 0].
Definition w_static : rcfg :=
  mkRC 8000 (Some 8000) anno_none 65 None true [] w_procs8 [mkRpod Q_LS false true []] [].
Definition w_static_st : rstate := mkRS [0;1;2;3;4;5;6;7] [0;1;2;3;4;5;6;7] [0;1;2;3;4;5;6;7] (-1) false.
Lemma round_growth_static_refuted :
  rcfg_wf w_static /\ rinv w_static w_static_st /\
  let st1 := rstep w_static w_static_st (RRound 0 false 288 [256] []) in
  let st2 := rstep w_static st1 (RRound 0 false 0 [0] []) in
  lenZ (rs_ctr st1) = 2 /\ lenZ (rs_ctr st2) = 6 /\ ceil_div (lenZ (rc_procs w_static)) 10 = 1.
Proof.
  split; [split; [apply nodupb_spec; vm_compute; reflexivity | vm_compute; reflexivity]|].
  split; [unfold rinv; cbn; repeat split; intros; try reflexivity; discriminate|].
  vm_compute. repeat split; reflexivity.
Qed.

(* ---------------------------------------------------------------- decision procedures *)

Lemma budget_candidates_spec bi b : In b (budget_candidates bi) <-> budget_holds bi b.
Proof.
  unfold budget_candidates, budget_holds. destruct (rt_exact bi); cbn [In].
  - split; [intros [H|[]]; left; symmetry; exact H|]. intros [H|[H _]]; [left; symmetry; exact H | discriminate].
  - split.
    + intros [H|[H|[]]]; [left | right; split; [reflexivity|]]; symmetry; exact H.
    + intros [H|[_ H]]; [left | right; left]; symmetry; exact H.
Qed.

Lemma first_ok_spec f l : l <> [] -> (first_ok f l = 0 <-> exists b, In b l /\ f b = 0).
Proof.
  intros Hne. destruct l as [|x t]; [contradiction|]. unfold first_ok.
  destruct (existsb (fun y => f y =? 0) (x :: t)) eqn:E.
  - split; [intros _|reflexivity]. apply existsb_exists in E. destruct E as [b [H1 H2]].
    exists b. split; [exact H1 | apply Z.eqb_eq; exact H2].
  - split.
    + intros H. exfalso. assert (Hx : existsb (fun y => f y =? 0) (x :: t) = true).
      { apply existsb_exists. exists x. split; [left; reflexivity | apply Z.eqb_eq; exact H]. }
      rewrite Hx in E. discriminate.
    + intros [b [H1 H2]]. exfalso.
      assert (Hx : existsb (fun y => f y =? 0) (x :: t) = true).
      { apply existsb_exists. exists b. split; [exact H1 | apply Z.eqb_eq; exact H2]. }
      rewrite Hx in E. discriminate.
Qed.

Lemma budget_candidates_ne bi : budget_candidates bi <> [].
Proof. unfold budget_candidates. discriminate. Qed.

Lemma set_code_nonneg i s : 0 <= set_code i s.
Proof. unfold set_code. repeat match goal with |- context [if ?c then _ else _] => destruct c end; lia. Qed.
Lemma quota_code_nonneg b cap cur o : 0 <= quota_code b cap cur o.
Proof. unfold quota_code. repeat match goal with |- context [if ?c then _ else _] => destruct c end; lia. Qed.

Lemma cpuset_round_code_spec c b prev o : cpuset_round_code c b prev o = 0 <-> cpuset_round_holds c b prev o.
Proof.
  destruct prev as [[[root0 pod0] ctr0] q0]. destruct o as [[[root podd] ctr] q].
  unfold cpuset_round_code, cpuset_round_holds.
  set (i := round_ainput c b root0). set (enough := target i <=? lenZ (free_cpus i)).
  pose proof (set_code_spec i ctr) as Hset. pose proof (set_code_nonneg i ctr) as Hnn.
  pose proof (eq_listZ_spec ctr ctr0) as Hsame.
  pose proof (eq_listZ_spec podd root) as Hpr.
  pose proof (eq_listZ_spec root root0) as Hro.
  pose proof (eq_listZ_spec root ctr) as Hrc.
  pose proof (clean_setb_spec i root) as Hcl.
  assert (Hen : enough = true <-> target i <= lenZ (free_cpus i)) by (unfold enough; apply Z.leb_le).
  split.
  - intros H.
    destruct ((enough || negb (eq_listZ ctr ctr0)) && negb (set_code i ctr =? 0)) eqn:A; [lia|].
    destruct (enough && negb (lenZ ctr =? target i)) eqn:B; [discriminate|].
    destruct (enough && (2 <=? dedup_len root0 + ceil_div (lenZ (rc_procs c)) 10) && negb (2 <=? lenZ ctr)) eqn:T;
      [discriminate|].
    destruct (eq_listZ podd root) eqn:C; cbn [negb] in H; [|discriminate].
    split.
    { destruct (eq_listZ ctr ctr0) eqn:S; [left; apply Hsame; reflexivity|].
      right. apply Hset. rewrite orb_true_r in A. cbn [andb] in A.
      apply negb_false_iff in A. apply Z.eqb_eq. exact A. }
    split.
    { intros Hle. apply Hen in Hle. rewrite Hle in A, B. cbn [orb andb] in A, B.
      apply negb_false_iff in A. apply negb_false_iff in B.
      split; [apply Hset; apply Z.eqb_eq; exact A | apply Z.eqb_eq; exact B]. }
    split.
    { intros Hle H2'. apply Hen in Hle. apply Z.leb_le in H2'. rewrite Hle, H2' in T. cbn [andb] in T.
      apply negb_false_iff in T. apply Z.leb_le. exact T. }
    split; [apply Hpr; reflexivity|].
    destruct (rc_static c).
    + destruct (eq_listZ root root0 || clean_setb i root) eqn:D; cbn [negb] in H; [|discriminate].
      destruct ((q =? q0) || (q =? -1)) eqn:Q; cbn [negb] in H; [|discriminate].
      split.
      * apply orb_true_iff in D. destruct D as [D|D]; [left; apply Hro; exact D | right; apply Hcl; exact D].
      * apply orb_true_iff in Q. destruct Q as [Q|Q]; apply Z.eqb_eq in Q; [left|right]; exact Q.
    + destruct (eq_listZ root ctr) eqn:D; cbn [negb] in H; [|discriminate].
      destruct ((q =? q0) || (q =? -1)) eqn:Q; cbn [negb] in H; [|discriminate].
      split; [apply Hrc; reflexivity|].
      apply orb_true_iff in Q. destruct Q as [Q|Q]; apply Z.eqb_eq in Q; [left|right]; exact Q.
  - intros [H1 [H2 [H2t [H3 [H4 H5]]]]].
    assert (A : (enough || negb (eq_listZ ctr ctr0)) && negb (set_code i ctr =? 0) = false).
    { destruct enough eqn:E.
      - destruct (H2 (proj1 Hen eq_refl)) as [Hok _]. apply Hset in Hok. rewrite Hok. reflexivity.
      - destruct H1 as [H1|H1].
        + apply Hsame in H1. rewrite H1. reflexivity.
        + apply Hset in H1. rewrite H1. apply andb_false_r. }
    rewrite A.
    assert (B : enough && negb (lenZ ctr =? target i) = false).
    { destruct enough eqn:E; [|reflexivity].
      destruct (H2 (proj1 Hen eq_refl)) as [_ Hl]. rewrite Hl, Z.eqb_refl. reflexivity. }
    rewrite B.
    assert (T : enough && (2 <=? dedup_len root0 + ceil_div (lenZ (rc_procs c)) 10) && negb (2 <=? lenZ ctr) = false).
    { destruct enough eqn:E; [|reflexivity]. cbn [andb].
      destruct (2 <=? dedup_len root0 + ceil_div (lenZ (rc_procs c)) 10) eqn:E2; [|reflexivity]. cbn [andb].
      apply Z.leb_le in E2. specialize (H2t (proj1 Hen eq_refl) E2). apply Z.leb_le in H2t. rewrite H2t. reflexivity. }
    rewrite T. apply Hpr in H3. rewrite H3. cbn [negb].
    assert (Q : (q =? q0) || (q =? -1) = true).
    { apply orb_true_iff. destruct H5 as [H5|H5]; [left|right]; apply Z.eqb_eq; exact H5. }
    destruct (rc_static c).
    + assert (D : eq_listZ root root0 || clean_setb i root = true).
      { apply orb_true_iff. destruct H4 as [H4|H4]; [left; apply Hro | right; apply Hcl]; exact H4. }
      rewrite D, Q. reflexivity.
    + apply Hrc in H4. rewrite H4, Q. reflexivity.
Qed.

Lemma quota_round_code_spec c b prev o : quota_round_code c b prev o = 0 <-> quota_round_holds c b prev o.
Proof.
  destruct prev as [[[root0 pod0] ctr0] q0]. destruct o as [[[root podd] ctr] q].
  unfold quota_round_code, quota_round_holds.
  set (i := round_ainput c b root0).
  pose proof (quota_code_spec b (rc_cap c) q0 q) as Hq. pose proof (quota_code_nonneg b (rc_cap c) q0 q) as Hnn.
  pose proof (eq_listZ_spec podd root) as Hpr. pose proof (eq_listZ_spec ctr root) as Hcr.
  pose proof (clean_setb_spec i root) as Hcl.
  split.
  - intros H. destruct (quota_code b (rc_cap c) q0 q =? 0) eqn:A; cbn [negb] in H; [|lia].
    destruct (eq_listZ podd root && eq_listZ ctr root) eqn:B; cbn [negb] in H; [|discriminate].
    destruct (clean_setb i root) eqn:C; cbn [negb] in H; [|discriminate].
    apply andb_true_iff in B. destruct B as [B1 B2].
    split; [apply Hq; apply Z.eqb_eq; exact A|]. split; [apply Hpr; exact B1|].
    split; [apply Hcr; exact B2 | apply Hcl; reflexivity].
  - intros [H1 [H2 [H3 H4]]]. apply Hq in H1. rewrite H1. cbn [Z.eqb negb].
    apply Hpr in H2. apply Hcr in H3. apply Hcl in H4. rewrite H2, H3, H4. reflexivity.
Qed.

Lemma eq_obs_cpusets_spec a b : eq_obs_cpusets a b = true <-> fst a = fst b.
Proof.
  destruct a as [[[r1 p1] k1] q1]. destruct b as [[[r2 p2] k2] q2]. unfold eq_obs_cpusets. cbn [fst].
  rewrite !andb_true_iff, !eq_listZ_spec. split.
  - intros [[-> ->] ->]. reflexivity.
  - intros H. inversion H. auto.
Qed.

Lemma rround_code_spec c prev mode fail nodeu pu hu o :
  rround_code c prev mode fail nodeu pu hu o = 0 <-> rround_ok c prev mode fail nodeu pu hu o.
Proof.
  unfold rround_code, rround_ok.
  destruct o as [[[root podd] ctr] q].
  destruct (mode =? 2).
  { pose proof (eq_listZ_spec podd root) as Hpr. pose proof (eq_listZ_spec ctr root) as Hcr.
    pose proof (clean_setb_spec (round_ainput c 0 []) root) as Hcl.
    split.
    - intros H.
      destruct (eq_listZ podd root && eq_listZ ctr root) eqn:B; cbn [negb] in H; [|discriminate].
      destruct (clean_setb (round_ainput c 0 []) root) eqn:C; cbn [negb] in H; [|discriminate].
      destruct ((q =? snd prev) || (q =? -1)) eqn:Q; cbn [negb] in H; [|discriminate].
      apply andb_true_iff in B. destruct B as [B1 B2].
      split; [apply Hpr; exact B1|]. split; [apply Hcr; exact B2|]. split; [apply Hcl; reflexivity|].
      apply orb_true_iff in Q. destruct Q as [Q|Q]; apply Z.eqb_eq in Q; [left|right]; exact Q.
    - intros [H1 [H2 [H3 H4]]]. apply Hpr in H1. apply Hcr in H2. apply Hcl in H3. rewrite H1, H2, H3.
      cbn [andb negb].
      assert (Q : (q =? snd prev) || (q =? -1) = true).
      { apply orb_true_iff. destruct H4 as [H4|H4]; [left|right]; apply Z.eqb_eq; exact H4. }
      rewrite Q. reflexivity. }
  destruct (match rc_pods c with [] => true | _ => fail end).
  { pose proof (eq_obs_cpusets_spec (root, podd, ctr, q) prev) as He.
    destruct prev as [[[r0 p0] k0] q0]. cbn [snd fst] in *.
    split.
    - intros H. destruct (eq_obs_cpusets (root, podd, ctr, q) (r0, p0, k0, q0)) eqn:E; cbn [andb] in H; [|discriminate].
      destruct (q =? q0) eqn:Q; [|discriminate]. apply Z.eqb_eq in Q. subst q.
      destruct He as [He _]. specialize (He eq_refl). rewrite He. reflexivity.
    - intros H. inversion H. subst.
      destruct He as [_ He]. rewrite (He eq_refl). rewrite Z.eqb_refl. reflexivity. }
  rewrite first_ok_spec by apply budget_candidates_ne.
  split.
  + intros [b [Hb Hc]]. exists b. split; [apply budget_candidates_spec; exact Hb|].
    destruct (mode =? 1); [apply quota_round_code_spec | apply cpuset_round_code_spec]; exact Hc.
  + intros [b [Hb Hc]]. exists b. split; [apply budget_candidates_spec; exact Hb|].
    destruct (mode =? 1); [apply quota_round_code_spec | apply cpuset_round_code_spec]; exact Hc.
Qed.

Lemma rstep_code_spec c prev op o : rstep_code c prev op o = 0 <-> rstep_ok c prev op o.
Proof.
  destruct op as [mode fail nodeu pu hu|v]; cbn [rstep_code rstep_ok].
  - apply rround_code_spec.
  - destruct o as [[[root podd] ctr] q].
    pose proof (eq_obs_cpusets_spec (root, podd, ctr, q) prev) as He. cbn [fst] in He.
    split.
    + intros H. destruct (eq_obs_cpusets (root, podd, ctr, q) prev) eqn:E; cbn [negb] in H; [|discriminate].
      destruct (q =? v) eqn:Q; [|discriminate]. apply Z.eqb_eq in Q. subst q.
      destruct He as [He _]. rewrite (He eq_refl). reflexivity.
    + intros H. injection H as H1 H2. subst q.
      destruct He as [_ He]. rewrite (He H1). cbn [negb]. rewrite Z.eqb_refl. reflexivity.
Qed.

Lemma rhist_code_spec c : forall ops prev obs, rhist_code c prev ops obs = 0 <-> rhist_holds c prev ops obs.
Proof.
  induction ops as [|op t IH]; intros prev obs; destruct obs as [|o u]; cbn [rhist_code rhist_holds];
    try (split; [discriminate | intros H; destruct H]); try (split; reflexivity || auto; fail).
  pose proof (rstep_code_spec c prev op o) as Hs.
  destruct (rstep_code c prev op o =? 0) eqn:E.
  - apply Z.eqb_eq in E. rewrite IH. split.
    + intros H. split; [apply Hs; exact E | exact H].
    + intros [_ H]. exact H.
  - apply Z.eqb_neq in E. split.
    + intros H. exfalso. exact (E H).
    + intros [H _]. exfalso. apply E. apply Hs. exact H.
Qed.

Lemma rinvb_spec c st : rinvb c st = true -> rinv c st.
Proof.
  unfold rinvb, rinv. intros H. apply andb_true_iff in H. destruct H as [H H3].
  apply andb_true_iff in H. destruct H as [H1 H2]. apply eq_listZ_spec in H1.
  split; [exact H1|]. split.
  - intros Hs. rewrite Hs in H2. cbn [orb] in H2. apply eq_listZ_spec. exact H2.
  - intros Hr. rewrite Hr in H3. rewrite lenZ_nil in H3. cbn in H3.
    apply Z.eqb_eq in H3. destruct (rs_ctr st); [reflexivity|]. rewrite lenZ_cons in H3.
    pose proof (lenZ_nonneg l). lia.
Qed.
Lemma rcfg_wfb_spec c : rcfg_wfb c = true -> rcfg_wf c.
Proof.
  unfold rcfg_wfb, rcfg_wf. intros H. apply andb_true_iff in H. destruct H as [H1 H2].
  split; [apply nodupb_spec; exact H1 | apply Z.ltb_lt; exact H2].
Qed.

Lemma rhist_code_model c st ops : rcfg_wfb c = true -> rinvb c st = true ->
  rhist_code c (obs_of st) ops (rhist c st ops) = 0.
Proof.
  intros H1 H2. apply rhist_code_spec. apply rhist_holds_model; [apply rcfg_wfb_spec | apply rinvb_spec]; assumption.
Qed.
