(* C10 — proofs about the budget (calculateBESuppressCPU) and the cfs quota (adjustByCfsQuota). *)
From Coq Require Import List ZArith Bool Lia.
From Verif Require Import Gen.Gen_consts C10.Model C10.Spec.
Import ListNotations.
Open Scope Z_scope.

(* ---------------------------------------------------------------- basic monotonicity *)

Lemma sumZ_cons x l : sumZ (x :: l) = x + sumZ l.
Proof. reflexivity. Qed.

Lemma to_milli_mono a b : a <= b -> to_milli a <= to_milli b.
Proof.
  intros H. unfold to_milli, USCALE. apply Z.quot_le_mono; lia.
Qed.
Lemma to_milli_div a : 0 <= a -> to_milli a = a * 1000 / 64.
Proof. intros H. unfold to_milli, USCALE. apply Z.quot_div_nonneg; lia. Qed.

Lemma sys_raw_nonneg i : 0 <= sys_raw i.
Proof. unfold sys_raw. lia. Qed.
Lemma kube_reserved_nonneg i : 0 <= kube_reserved i.
Proof. unfold kube_reserved. lia. Qed.
Lemma kube_reserved_eq i : kube_reserved i = kubelet_reservation i.
Proof. unfold kube_reserved, kubelet_reservation. destruct (b_alloc i); f_equal; lia. Qed.
Lemma max_entry_max k o : max_entry k o = Z.max k (match o with Some v => v | None => k end).
Proof.
  unfold max_entry. destruct o as [v|]; [|lia].
  destruct (k <=? v) eqn:E; [apply Z.leb_le in E|apply Z.leb_gt in E]; lia.
Qed.

(* the code's reservation (presence-aware maximum over resource lists, reservedCPUs overriding
   resources.cpu, fail-open on errors) is the declarative one of the specification *)
Lemma reservation_spec_eq i : reservation_spec i = node_reserved i.
Proof.
  unfold reservation_spec, node_reserved, anno_declared, anno_reserved, anno_resources.
  rewrite <- kube_reserved_eq. pose proof (kube_reserved_nonneg i) as Hk.
  destruct (an_state (b_anno i) =? 0) eqn:E0.
  - apply Z.eqb_eq in E0. rewrite E0. cbn. lia.
  - rewrite max_entry_max.
    destruct (an_state (b_anno i) =? 3); cbn [negb]; [|lia].
    destruct (an_cpus (b_anno i)) as [|c t].
    + destruct (an_rescpu (b_anno i)) as [u|]; cbn [option_map]; lia.
    + destruct (an_cpus_ok (b_anno i)); lia.
Qed.

Lemma node_reserved_nonneg i : 0 <= node_reserved i.
Proof. rewrite <- reservation_spec_eq. unfold reservation_spec, kubelet_reservation. lia. Qed.

(* the applyPolicy of the annotation plays no part *)
Lemma node_reserved_policy p i :
  node_reserved (mkB (b_cap i) (b_alloc i) (with_policy p (b_anno i)) (b_thr i) (b_min i) (b_node i)
                     (b_pods i) (b_hosts i)) = node_reserved i.
Proof. reflexivity. Qed.

(* it is at least what the kubelet keeps back and at least one core per listed reserved cpu *)
Lemma node_reserved_ge_kubelet i : Z.max (b_cap i - match b_alloc i with Some a => a | None => 0 end) 0 <= node_reserved i.
Proof. rewrite <- reservation_spec_eq. unfold reservation_spec, kubelet_reservation. lia. Qed.
Lemma node_reserved_ge_cpus i : an_state (b_anno i) = 3 -> an_cpus_ok (b_anno i) = true ->
  an_cpus (b_anno i) <> [] -> 1000 * dedup_len (an_cpus (b_anno i)) <= node_reserved i.
Proof.
  intros Hs Hok Hne. rewrite <- reservation_spec_eq. unfold reservation_spec, anno_declared.
  rewrite Hs, Hok. cbn. destruct (an_cpus (b_anno i)); [contradiction|lia].
Qed.

Lemma apply_min_max cap mn b :
  apply_min cap mn b = match mn with None => b | Some mp => Z.max b (Z.quot (cap * mp) 100) end.
Proof.
  unfold apply_min. destruct mn as [mp|]; [|reflexivity].
  destruct (b <? Z.quot (cap * mp) 100) eqn:E; [apply Z.ltb_lt in E|apply Z.ltb_ge in E]; lia.
Qed.
Lemma apply_min_mono cap mn a b : a <= b -> apply_min cap mn a <= apply_min cap mn b.
Proof. intros H. rewrite !apply_min_max. destruct mn; lia. Qed.

(* the system term: the larger of the measured rest and the reservation *)
Lemma sys_milli_cases i :
  (sys_raw i * 1000 < node_reserved i * 64 /\ sys_milli i = rt_milli (node_reserved i)
   /\ to_milli (sys_raw i) < node_reserved i)
  \/ (node_reserved i * 64 <= sys_raw i * 1000 /\ sys_milli i = to_milli (sys_raw i)
      /\ node_reserved i <= to_milli (sys_raw i)).
Proof.
  unfold sys_milli, USCALE. pose proof (sys_raw_nonneg i) as H0.
  destruct (sys_raw i * 1000 <? node_reserved i * 64) eqn:E; [apply Z.ltb_lt in E; left|apply Z.ltb_ge in E; right].
  - split; [exact E|]. split; [reflexivity|]. rewrite to_milli_div by exact H0.
    apply Z.div_lt_upper_bound; lia.
  - split; [exact E|]. split; [reflexivity|]. rewrite to_milli_div by exact H0.
    apply Z.div_le_lower_bound; lia.
Qed.

(* ---------------------------------------------------------------- the formula *)

Lemma budget_formula i : rt_ok i = true -> budget_holds i (budget i).
Proof.
  unfold budget_holds, rt_ok, rt_exact, budget_spec, budget, budget_spec_with.
  rewrite !reservation_spec_eq. intros Hok.
  apply andb_true_iff in Hok. destruct Hok as [H1 H2]. apply Z.leb_le in H1. apply Z.leb_le in H2.
  rewrite apply_min_max.
  destruct (sys_milli_cases i) as [[Ha [Hb Hc]]|[Ha [Hb Hc]]]; rewrite Hb.
  - destruct (rt_milli (node_reserved i) =? node_reserved i) eqn:E;
      [apply Z.eqb_eq in E|apply Z.eqb_neq in E].
    + left. rewrite E. rewrite (Z.max_r _ _ (Z.lt_le_incl _ _ Hc)). reflexivity.
    + right. split; [reflexivity|].
      assert (Hr : rt_milli (node_reserved i) = node_reserved i - 1) by lia.
      rewrite Hr. rewrite Z.max_r by lia. reflexivity.
  - left. rewrite (Z.max_l _ _ Hc). reflexivity.
Qed.

Lemma budget_formula_exact i : rt_exact i = true -> budget i = budget_spec i.
Proof.
  intros He. assert (Hok : rt_ok i = true).
  { unfold rt_ok, rt_exact in *. rewrite !reservation_spec_eq in *. apply Z.eqb_eq in He. rewrite He.
    apply andb_true_iff. split; apply Z.leb_le; lia. }
  destruct (budget_formula i Hok) as [H|[H _]]; [exact H | rewrite He in H; discriminate].
Qed.

(* the system term is never below the reservation (minus the float round-trip loss) *)
Lemma sys_at_least_reserved i : rt_ok i = true -> node_reserved i - 1 <= sys_milli i.
Proof.
  unfold rt_ok. rewrite !reservation_spec_eq. intros Hok. apply andb_true_iff in Hok. destruct Hok as [H1 _]. apply Z.leb_le in H1.
  destruct (sys_milli_cases i) as [[_ [Hb _]]|[_ [Hb Hc]]]; rewrite Hb; lia.
Qed.

(* ---------------------------------------------------------------- antitone *)

Lemma pods_nonbe_mono ps ps' : Forall2 pod_le ps ps' -> pods_nonbe ps <= pods_nonbe ps'.
Proof.
  unfold pods_nonbe. induction 1 as [|p p' t t' Hp _ IH]; [cbn; lia|].
  destruct Hp as [H1 [H2 [H3 [H4 H5]]]]. cbn [filter]. unfold pod_nonbe in *.
  rewrite <- H1, <- H2, <- H3, <- H4.
  destruct (p_hasmetric p && (negb (p_inmeta p) || negb (p_lab p =? Q_BE) && negb (p_kubebe p)));
    cbn [map]; rewrite ?sumZ_cons; lia.
Qed.
Lemma pods_all_mono ps ps' : Forall2 pod_le ps ps' -> pods_all ps <= pods_all ps'.
Proof.
  unfold pods_all. induction 1 as [|p p' t t' Hp _ IH]; [cbn; lia|].
  destruct Hp as [H1 [H2 [H3 [H4 H5]]]]. cbn [filter]. rewrite <- H4.
  destruct (p_hasmetric p); cbn [map]; rewrite ?sumZ_cons; lia.
Qed.
Lemma hosts_nonbe_mono hs hs' : Forall2 happ_le hs hs' -> hosts_nonbe hs <= hosts_nonbe hs'.
Proof.
  unfold hosts_nonbe. induction 1 as [|h h' t t' Hh _ IH]; [cbn; lia|].
  destruct Hh as [H1 [H2 [H3 H4]]]. cbn [filter]. unfold happ_nonbe in *.
  rewrite <- H1, <- H2, <- H3.
  destruct (h_hasmetric h && (negb (h_qos h =? Q_BE) || negb (h_base h =? 1)));
    cbn [map]; rewrite ?sumZ_cons; lia.
Qed.

Lemma sys_milli_mono i i' : node_reserved i <= node_reserved i' ->
  rt_milli (node_reserved i) <= node_reserved i ->
  node_reserved i' - 1 <= rt_milli (node_reserved i') ->
  sys_raw i <= sys_raw i' -> sys_milli i <= sys_milli i'.
Proof.
  intros Hr Hrt Hrt' Hle. pose proof (to_milli_mono _ _ Hle) as Hm.
  destruct (sys_milli_cases i) as [[Ha [Hb Hc]]|[Ha [Hb Hc]]];
  destruct (sys_milli_cases i') as [[Ha' [Hb' Hc']]|[Ha' [Hb' Hc']]]; rewrite Hb, Hb'.
  - destruct (Z.eq_dec (node_reserved i) (node_reserved i')) as [E|E]; [rewrite E; lia|lia].
  - lia.
  - lia.
  - exact Hm.
Qed.

(* the budget does not grow when any non-BE consumption (or the node reservation) grows *)
Lemma budget_antitone i i' : rt_ok i = true -> rt_ok i' = true ->
  grows i i' -> budget i' <= budget i.
Proof.
  unfold rt_ok. rewrite !reservation_spec_eq. intros Hok Hok'.
  apply andb_true_iff in Hok. destruct Hok as [_ Hrt]. apply Z.leb_le in Hrt.
  apply andb_true_iff in Hok'. destruct Hok' as [Hrt' _]. apply Z.leb_le in Hrt'.
  intros [H1 [H3 [H4 [H5 [H6 [H7 H8]]]]]]. rewrite !reservation_spec_eq in H3. unfold budget.
  rewrite <- H1, <- H4, <- H5. apply apply_min_mono.
  pose proof (to_milli_mono _ _ (pods_nonbe_mono _ _ H6)).
  pose proof (to_milli_mono _ _ (hosts_nonbe_mono _ _ H7)).
  pose proof (sys_milli_mono i i' H3 Hrt Hrt' H8). lia.
Qed.

(* antitone in the three consumption figures themselves *)
Definition budget_of (cap thr : Z) (mn : option Z) (pods hosts sys : Z) : Z :=
  apply_min cap mn (Z.quot (cap * thr) 100 - pods - hosts - sys).
Lemma budget_of_eq i :
  budget i = budget_of (b_cap i) (b_thr i) (b_min i) (to_milli (pods_nonbe (b_pods i)))
                       (to_milli (hosts_nonbe (b_hosts i))) (sys_milli i).
Proof. reflexivity. Qed.
Lemma budget_of_antitone cap thr mn p h s p' h' s' :
  p <= p' -> h <= h' -> s <= s' -> budget_of cap thr mn p' h' s' <= budget_of cap thr mn p h s.
Proof. intros. unfold budget_of. apply apply_min_mono. lia. Qed.

(* the perturbations 1..3 of the harness are instances of [grows] *)
Lemma pod_le_refl p : pod_le p p.
Proof. unfold pod_le. repeat split; lia. Qed.
Lemma happ_le_refl h : happ_le h h.
Proof. unfold happ_le. repeat split; lia. Qed.
Lemma Forall2_refl {A} (R : A -> A -> Prop) l : (forall x, R x x) -> Forall2 R l l.
Proof. intros H. induction l; constructor; auto. Qed.

Lemma bump_pod_spec d : 0 <= d -> forall ps k,
  Forall2 pod_le ps (bump_pod k d ps)
  /\ pods_all (bump_pod k d ps)
     = pods_all ps + (if match nth_error ps k with Some p => p_hasmetric p | None => false end then d else 0).
Proof.
  intros Hd. induction ps as [|p t IH]; intros k.
  - destruct k; cbn; split; try constructor; lia.
  - destruct k as [|k]; cbn [bump_pod nth_error].
    + split.
      * constructor; [|apply Forall2_refl; apply pod_le_refl].
        unfold pod_le. cbn. repeat split; lia.
      * unfold pods_all. cbn [filter p_hasmetric]. destruct (p_hasmetric p); cbn [map p_use]; rewrite ?sumZ_cons; lia.
    + destruct (IH k) as [H1 H2]. split; [constructor; [apply pod_le_refl | exact H1]|].
      unfold pods_all in *. cbn [filter]. destruct (p_hasmetric p); cbn [map]; rewrite ?sumZ_cons; lia.
Qed.
Lemma bump_host_spec d : 0 <= d -> forall hs k,
  Forall2 happ_le hs (bump_host k d hs)
  /\ hosts_all (bump_host k d hs)
     = hosts_all hs + (if match nth_error hs k with Some h => h_hasmetric h | None => false end then d else 0).
Proof.
  intros Hd. induction hs as [|h t IH]; intros k.
  - destruct k; cbn; split; try constructor; lia.
  - destruct k as [|k]; cbn [bump_host nth_error].
    + split.
      * constructor; [|apply Forall2_refl; apply happ_le_refl].
        unfold happ_le. cbn. repeat split; lia.
      * unfold hosts_all. cbn [filter h_hasmetric]. destruct (h_hasmetric h); cbn [map h_use]; rewrite ?sumZ_cons; lia.
    + destruct (IH k) as [H1 H2]. split; [constructor; [apply happ_le_refl | exact H1]|].
      unfold hosts_all in *. cbn [filter]. destruct (h_hasmetric h); cbn [map]; rewrite ?sumZ_cons; lia.
Qed.

Lemma perturb_grows kind idx d i : 1 <= kind <= 3 -> 0 <= d -> grows i (perturb kind idx d i).
Proof.
  intros Hk Hd. unfold perturb.
  destruct (kind =? 1) eqn:E1; [|destruct (kind =? 2) eqn:E2; [|destruct (kind =? 3) eqn:E3]].
  - destruct (bump_pod_spec d Hd (b_pods i) (Z.to_nat idx)) as [H1 H2].
    unfold grows, with_node_pods_hosts, sys_raw. cbn [b_cap b_alloc b_anno b_thr b_min b_node b_pods b_hosts].
    split; [reflexivity|]. split; [apply Z.le_refl|]. repeat (split; [reflexivity|]). split; [exact H1|].
    split; [apply Forall2_refl; apply happ_le_refl|]. rewrite H2. lia.
  - destruct (bump_host_spec d Hd (b_hosts i) (Z.to_nat idx)) as [H1 H2].
    unfold grows, with_node_pods_hosts, sys_raw. cbn [b_cap b_alloc b_anno b_thr b_min b_node b_pods b_hosts].
    split; [reflexivity|]. split; [apply Z.le_refl|]. repeat (split; [reflexivity|]). split; [apply Forall2_refl; apply pod_le_refl|].
    split; [exact H1|]. rewrite H2. lia.
  - unfold grows, with_node_pods_hosts, sys_raw. cbn [b_cap b_alloc b_anno b_thr b_min b_node b_pods b_hosts].
    split; [reflexivity|]. split; [apply Z.le_refl|]. repeat (split; [reflexivity|]). split; [apply Forall2_refl; apply pod_le_refl|].
    split; [apply Forall2_refl; apply happ_le_refl|]. lia.
  - apply Z.eqb_neq in E1. apply Z.eqb_neq in E2. apply Z.eqb_neq in E3. lia.
Qed.

(* perturbation 5: only the applyPolicy of the reservation annotation changes: the same budget *)
Lemma budget_policy_irrelevant idx d i : budget (perturb 5 idx d i) = budget i.
Proof. reflexivity. Qed.

(* perturbation 6: the kubelet keeps d more back: an instance of [grows] *)
Lemma perturb6_grows idx d i : 0 <= d -> grows i (perturb 6 idx d i).
Proof.
  intros Hd. unfold grows, perturb. cbn [Z.eqb Pos.eqb].
  cbn [b_cap b_alloc b_anno b_thr b_min b_node b_pods b_hosts].
  split; [reflexivity|]. split.
  - unfold reservation_spec, kubelet_reservation. cbn [b_cap b_alloc b_anno].
    destruct (b_alloc i) as [a|]; cbn [option_map]; lia.
  - repeat (split; [reflexivity|]). split; [apply Forall2_refl; apply pod_le_refl|].
    split; [apply Forall2_refl; apply happ_le_refl|]. unfold sys_raw. cbn [b_node b_pods b_hosts]. lia.
Qed.

(* ---------------------------------------------------------------- quota *)

Lemma quota_holds_model b cap cur : quota_holds b cap cur (quota_new b cap cur).
Proof.
  unfold quota_holds, quota_new, ratio_lt.
  set (q := quota_target b). set (w := cap_cores cap * DefaultCPUCFSPeriod).
  set (sb := (Z.abs (q - cur) * snd suppressBypassQuotaDeltaRatio <? w * fst suppressBypassQuotaDeltaRatio)
             && negb (q =? beMinQuota)).
  set (bb := (w * fst beMaxIncreaseCPUPercent <? (q - cur) * snd beMaxIncreaseCPUPercent)
             && negb (cur =? -1)).
  assert (Hs : sb = true <->
               (Z.abs (q - cur) * snd suppressBypassQuotaDeltaRatio < w * fst suppressBypassQuotaDeltaRatio
                /\ q <> beMinQuota)).
  { unfold sb. rewrite andb_true_iff, Z.ltb_lt, negb_true_iff, Z.eqb_neq. tauto. }
  assert (Hb : bb = true <->
               (w * fst beMaxIncreaseCPUPercent < (q - cur) * snd beMaxIncreaseCPUPercent /\ cur <> -1)).
  { unfold bb. rewrite andb_true_iff, Z.ltb_lt, negb_true_iff, Z.eqb_neq. tauto. }
  destruct sb eqn:Es.
  - split; [intros _; reflexivity|]. split; intros Hn; exfalso; apply Hn; apply Hs; reflexivity.
  - assert (Hns : ~ (Z.abs (q - cur) * snd suppressBypassQuotaDeltaRatio < w * fst suppressBypassQuotaDeltaRatio
                     /\ q <> beMinQuota)).
    { intros H. apply Hs in H. discriminate. }
    split; [intros H; exfalso; exact (Hns H)|].
    destruct bb eqn:Eb.
    + split; [intros _ _; reflexivity|]. intros _ Hn. exfalso. apply Hn. apply Hb. reflexivity.
    + split; [|intros _ _; reflexivity]. intros _ H. apply Hb in H. discriminate.
Qed.

Lemma quota_target_floor b : beMinQuota <= quota_target b.
Proof. unfold quota_target. lia. Qed.

(* the quota written never exceeds both the target and the current value *)
Lemma quota_new_bound b cap cur : 0 <= cap -> quota_new b cap cur <= Z.max (quota_target b) cur.
Proof.
  intros Hcap. unfold quota_new, ratio_lt.
  unfold suppressBypassQuotaDeltaRatio, beMaxIncreaseCPUPercent. cbn [fst snd].
  set (q := quota_target b).
  assert (Hw : 0 <= cap_cores cap * DefaultCPUCFSPeriod).
  { unfold cap_cores, ceil_div, DefaultCPUCFSPeriod.
    assert (- (- cap / 1000) >= 0); [|lia].
    pose proof (Z.div_mod (- cap) 1000 ltac:(lia)). pose proof (Z.mod_pos_bound (- cap) 1000 ltac:(lia)). lia. }
  set (w := cap_cores cap * DefaultCPUCFSPeriod) in *.
  destruct ((Z.abs (q - cur) * 100 <? w * 1) && negb (q =? beMinQuota)); [lia|].
  destruct ((w * 1 <? (q - cur) * 10) && negb (cur =? -1)) eqn:E; [|lia].
  apply andb_true_iff in E. destruct E as [E _]. apply Z.ltb_lt in E.
  rewrite Z.quot_div_nonneg by lia.
  assert (w * 1 / 10 < q - cur) by (apply Z.div_lt_upper_bound; lia). lia.
Qed.

Lemma node_reserved_perturb_4 idx d i : node_reserved (perturb 4 idx d i) = node_reserved i.
Proof. reflexivity. Qed.

(* ---------------------------------------------------------------- perturbation 4: a non-BE pod
   uses more while the node total stays, so the inferred system part shrinks.  The two parts are
   truncated to milli-CPU separately, which can cost one milli-CPU. *)

Lemma bump_pod_nonbe d : forall ps k,
  pods_nonbe (bump_pod k d ps)
  = pods_nonbe ps + (if match nth_error ps k with Some p => p_hasmetric p && pod_nonbe p | None => false end
                     then d else 0).
Proof.
  induction ps as [|p t IH]; intros k.
  - destruct k; cbn; lia.
  - destruct k as [|k]; cbn [bump_pod nth_error].
    + unfold pods_nonbe. cbn [filter]. unfold pod_nonbe. cbn [p_hasmetric p_inmeta p_lab p_kubebe].
      destruct (p_hasmetric p && (negb (p_inmeta p) || negb (p_lab p =? Q_BE) && negb (p_kubebe p)));
        cbn [map p_use]; rewrite ?sumZ_cons; lia.
    + specialize (IH k). unfold pods_nonbe in *. cbn [filter].
      destruct (p_hasmetric p && pod_nonbe p); cbn [map]; rewrite ?sumZ_cons; lia.
Qed.

Lemma pods_nonbe_nonneg ps : Forall (fun p => 0 <= p_use p) ps -> 0 <= pods_nonbe ps.
Proof.
  unfold pods_nonbe. induction 1 as [|p t Hp _ IH]; [cbn; lia|].
  cbn [filter]. destruct (p_hasmetric p && pod_nonbe p); cbn [map]; rewrite ?sumZ_cons; lia.
Qed.

Lemma budget_slack idx d i : rt_ok i = true -> 0 <= d ->
  Forall (fun p => 0 <= p_use p) (b_pods i) ->
  match nth_error (b_pods i) (Z.to_nat idx) with Some p => pod_nonbe p = true | None => True end ->
  budget (perturb 4 idx d i) <= budget i + 1.
Proof.
  intros Hok Hd Hnn Hnb.
  unfold rt_ok in Hok. rewrite !reservation_spec_eq in Hok. apply andb_true_iff in Hok. destruct Hok as [Hr1 Hr2].
  apply Z.leb_le in Hr1. apply Z.leb_le in Hr2.
  set (i' := perturb 4 idx d i).
  assert (Hres : node_reserved i' = node_reserved i) by apply node_reserved_perturb_4.
  pose proof (pods_nonbe_nonneg _ Hnn) as HA.
  pose proof (sys_raw_nonneg i) as Hraw. pose proof (sys_raw_nonneg i') as Hraw'.
  pose proof (node_reserved_nonneg i) as Hresn.
  destruct (bump_pod_spec d Hd (b_pods i) (Z.to_nat idx)) as [_ Hall].
  pose proof (bump_pod_nonbe d (b_pods i) (Z.to_nat idx)) as Hnbe.
  assert (Hb : budget i' = apply_min (b_cap i) (b_min i)
             (Z.quot (b_cap i * b_thr i) 100 - to_milli (pods_nonbe (bump_pod (Z.to_nat idx) d (b_pods i)))
              - to_milli (hosts_nonbe (b_hosts i)) - sys_milli i')) by reflexivity.
  assert (Hraw'eq : sys_raw i' = Z.max (b_node i - pods_all (bump_pod (Z.to_nat idx) d (b_pods i)) - hosts_all (b_hosts i)) 0)
    by reflexivity.
  rewrite Hb. unfold budget. rewrite !apply_min_max.
  assert (Hmain : to_milli (pods_nonbe (b_pods i)) + sys_milli i - 1
                  <= to_milli (pods_nonbe (bump_pod (Z.to_nat idx) d (b_pods i))) + sys_milli i').
  { destruct (nth_error (b_pods i) (Z.to_nat idx)) as [p|] eqn:En.
    - rewrite Hnb in Hnbe. rewrite andb_true_r in Hnbe.
      destruct (p_hasmetric p).
      + (* counted non-BE pod: both sums grow by d *)
        rewrite Hnbe. rewrite Hall in Hraw'eq.
        set (R := b_node i - pods_all (b_pods i) - hosts_all (b_hosts i)) in *.
        assert (Hq : sys_raw i = Z.max R 0) by reflexivity.
        assert (Hq' : sys_raw i' = Z.max (R - d) 0) by (rewrite Hraw'eq; f_equal; lia).
        destruct (sys_milli_cases i) as [[Ha [Hs Hc]]|[Ha [Hs Hc]]];
        destruct (sys_milli_cases i') as [[Ha' [Hs' Hc']]|[Ha' [Hs' Hc']]];
          rewrite Hs, Hs'; rewrite ?Hres in *;
          rewrite ?to_milli_div in * by lia;
          rewrite Hq in *; rewrite Hq' in *;
          clear Hs Hs' Hq Hq' Hraw'eq Hb;
          generalize dependent (pods_nonbe (b_pods i)); intros A HA;
          generalize dependent (node_reserved i); intros res; intros;
          generalize dependent (rt_milli res); intros rt; intros;
          Z.div_mod_to_equations; lia.
      + rewrite Hnbe. rewrite Hall in Hraw'eq. rewrite !Z.add_0_r in *.
        assert (Hse : sys_milli i' = sys_milli i).
        { unfold sys_milli. rewrite Hres. rewrite Hraw'eq. reflexivity. }
        rewrite Hse. lia.
    - rewrite Hnbe. rewrite Hall in Hraw'eq. rewrite !Z.add_0_r in *.
      assert (Hse : sys_milli i' = sys_milli i).
      { unfold sys_milli. rewrite Hres. rewrite Hraw'eq. reflexivity. }
      rewrite Hse. lia. }
  destruct (b_min i); lia.
Qed.
