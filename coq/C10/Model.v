(* C10 — model of best-effort CPU suppression
   (pkg/koordlet/qosmanager/plugins/cpusuppress/cpu_suppress.go, helpers/calculator.go,
   pkg/util/cpuset).  Executable, total, no proofs in this file.

   Part 1  budget        calculateBESuppressCPU + helpers.CalculateFilterPodsUsed + GetNodeResourceReserved
   Part 2  pick          calculateBESuppressCPUSetPolicy
   Part 3  adjust        adjustByCPUSet (pools, target count, split, apply) and calcBECPUSet
   Part 4  quota         adjustByCfsQuota

   Constants come from the generated Gen_consts.v (regenerated from the source on every run). *)
From Coq Require Import List ZArith Bool.
From Verif Require Import Gen.Gen_consts.
Import ListNotations.
Open Scope Z_scope.

Definition sumZ (l : list Z) : Z := fold_right Z.add 0 l.
Definition memZ (x : Z) (l : list Z) : bool := existsb (Z.eqb x) l.
Definition lenZ {A} (l : list A) : Z := Z.of_nat (length l).

(* koordinator QoS classes as small integers (harness maps the label strings) *)
Definition Q_NONE : Z := 0.
Definition Q_LSE : Z := 1.
Definition Q_LSR : Z := 2.
Definition Q_LS : Z := 3.
Definition Q_BE : Z := 4.
Definition Q_SYSTEM : Z := 5.

(* ceil (a * num / den) for den > 0 *)
Definition ceil_div (a d : Z) : Z := - ((- a) / d).

(* ================================================================ Part 1: budget *)

(* Usage metrics are float64 CPU cores in the code.  The model takes them as integers in
   1/64-core units (dyadic, so every float64 sum and the product by 1000 is exact) and
   [to_milli] is int64(x * 1000) on such a value. *)
Definition USCALE : Z := 64.
Definition to_milli (u : Z) : Z := Z.quot (u * 1000) USCALE.

(* round-to-nearest-even of the positive rational n/d to a 53-bit significand: (m, e) stands
   for m * 2^e.  Used only for the one non-dyadic float of the computation,
   nodeReservedCPU = float64(milli) / 1000, when it is turned back into milli-CPU. *)
Definition scale2 (n d e : Z) : Z * Z := if 0 <=? e then (n, d * 2 ^ e) else (n * 2 ^ (- e), d).
Definition round53 (n d : Z) : Z * Z :=
  let e0 := Z.log2 n - Z.log2 d - 53 in
  let '(a0, b0) := scale2 n d e0 in
  let e := if a0 / b0 <? 2 ^ 53 then e0 else e0 + 1 in
  let '(a, b) := scale2 n d e in
  let q := a / b in
  let r := a mod b in
  let q' := if 2 * r <? b then q else if b <? 2 * r then q + 1 else if Z.even q then q else q + 1 in
  (q', e).
(* int64( (float64(m) / 1000) * 1000 ) *)
Definition rt_milli (m : Z) : Z :=
  if m <=? 0 then 0 else
  let '(q1, e1) := round53 m 1000 in
  let '(n2, d2) := if 0 <=? e1 then (q1 * 1000 * 2 ^ e1, 1) else (q1 * 1000, 2 ^ (- e1)) in
  let '(q2, e2) := round53 n2 d2 in
  if 0 <=? e2 then q2 * 2 ^ e2 else q2 / 2 ^ (- e2).

Record pod := mkPod {
  p_lab : Z;            (* koordinator QoS label *)
  p_kubebe : bool;      (* kubernetes QoS class is BestEffort *)
  p_inmeta : bool;      (* present in podMetas *)
  p_hasmetric : bool;   (* present in podMetrics *)
  p_use : Z }.          (* usage, 1/64 cores *)

Record happ := mkHapp {
  h_qos : Z;
  h_base : Z;           (* 0 = no cgroup path, 1 = KubepodsBesteffort, 2 = another base *)
  h_hasmetric : bool;
  h_use : Z }.

(* Quantity.MilliValue() of a quantity given in micro-CPU: rounded away from zero *)
Definition milli_of_micro (u : Z) : Z := if 0 <=? u then ceil_div u 1000 else - ceil_div (- u) 1000.

Definition dedup_len (l : list Z) : Z := lenZ (nodup Z.eq_dec l).

(* the node reservation annotation (node.koordinator.sh/reservation) as the code reads it *)
Record nodeanno := mkAnno {
  an_state : Z;          (* 0 node.Annotations == nil, 1 no reservation entry (absent or ""),
                            2 an entry that does not unmarshal into a NodeReservation, 3 a JSON object *)
  an_policy : Z;         (* applyPolicy: 0 unset, 1 Default, 2 ReservedCPUsOnly, 3 any other string *)
  an_rescpu : option Z;  (* resources.cpu in micro-CPU; None = no cpu entry *)
  an_cpus_ok : bool;     (* reservedCPUs is a parseable cpu list *)
  an_cpus : list Z }.    (* reservedCPUs expanded in written order (repeats allowed); [] = absent or "" *)
Definition anno_none : nodeanno := mkAnno 0 0 None true [].

Record binput := mkB {
  b_cap : Z;            (* node.Status.Capacity cpu, milli *)
  b_alloc : option Z;   (* node.Status.Allocatable cpu, milli; None = no cpu entry *)
  b_anno : nodeanno;    (* the node reservation annotation *)
  b_thr : Z;            (* CPUSuppressThresholdPercent *)
  b_min : option Z;     (* CPUSuppressMinPercent *)
  b_node : Z;           (* node usage, 1/64 cores *)
  b_pods : list pod;
  b_hosts : list happ }.

(* helpers.NonBEPodFilter; a metric whose pod is not in podMetas counts as non-BE *)
Definition pod_nonbe (p : pod) : bool :=
  negb (p_inmeta p) || (negb (p_lab p =? Q_BE) && negb (p_kubebe p)).
(* helpers.NonBEHostAppFilter *)
Definition happ_nonbe (h : happ) : bool := negb (h_qos h =? Q_BE) || negb (h_base h =? 1).

Definition pods_all (ps : list pod) : Z := sumZ (map p_use (filter p_hasmetric ps)).
Definition pods_nonbe (ps : list pod) : Z :=
  sumZ (map p_use (filter (fun p => p_hasmetric p && pod_nonbe p) ps)).
Definition hosts_all (hs : list happ) : Z := sumZ (map h_use (filter h_hasmetric hs)).
Definition hosts_nonbe (hs : list happ) : Z :=
  sumZ (map h_use (filter (fun h => h_hasmetric h && happ_nonbe h) hs)).

(* util.GetNodeReservationFromKubelet: max(capacity - allocatable, 0) on the cpu entry; a missing
   allocatable entry leaves the capacity *)
Definition kube_reserved (i : binput) : Z :=
  Z.max (match b_alloc i with Some a => b_cap i - a | None => b_cap i end) 0.

(* util.GetNodeReservationResources: the resource list's cpu entry.  None = error (reservedCPUs does
   not parse), Some None = a list without cpu entry.  reservedCPUs, when given, overrides
   resources.cpu with the number of distinct cpus it lists. *)
Definition anno_resources (a : nodeanno) : option (option Z) :=
  match an_cpus a with
  | [] => Some (option_map milli_of_micro (an_rescpu a))
  | _ => if an_cpus_ok a then Some (Some (1000 * dedup_len (an_cpus a))) else None
  end.

(* util.GetNodeReservationFromAnnotation: the cpu entry of the returned list (None = nil list or no
   cpu entry).  applyPolicy is not consulted: it only tells the scheduler how to account. *)
Definition anno_reserved (a : nodeanno) : option Z :=
  if an_state a =? 3 then
    match anno_resources a with Some r => r | None => None end
  else None.

(* quotav1.Max on the cpu key: the left list always has the entry *)
Definition max_entry (k : Z) (o : option Z) : Z :=
  match o with Some v => if k <=? v then v else k | None => k end.

(* helpers.GetNodeResourceReserved: max(kubelet reservation, annotation reservation) *)
Definition node_reserved (i : binput) : Z :=
  if an_state (b_anno i) =? 0 then kube_reserved i
  else max_entry (kube_reserved i) (anno_reserved (b_anno i)).

(* systemUsed before the reservation floor, 1/64 cores *)
Definition sys_raw (i : binput) : Z :=
  Z.max (b_node i - pods_all (b_pods i) - hosts_all (b_hosts i)) 0.

(* int64(systemUsedCPU * 1000) with systemUsed = max(raw, float64(reserved)/1000) *)
Definition sys_milli (i : binput) : Z :=
  let res := node_reserved i in
  if sys_raw i * 1000 <? res * USCALE then rt_milli res else to_milli (sys_raw i).

Definition apply_min (cap : Z) (mn : option Z) (b : Z) : Z :=
  match mn with
  | None => b
  | Some mp => let mm := Z.quot (cap * mp) 100 in if b <? mm then mm else b
  end.

(* calculateBESuppressCPU, milli-CPU *)
Definition budget (i : binput) : Z :=
  apply_min (b_cap i) (b_min i)
    (Z.quot (b_cap i * b_thr i) 100
     - to_milli (pods_nonbe (b_pods i)) - to_milli (hosts_nonbe (b_hosts i)) - sys_milli i).

(* ================================================================ Part 2: pick *)

Record proc := mkProc { cpu : Z; core : Z; socket : Z; numa : Z }.

Fixpoint insert_by {A} (leb : A -> A -> bool) (x : A) (l : list A) : list A :=
  match l with
  | [] => [x]
  | y :: t => if leb x y then x :: l else y :: insert_by leb x t
  end.
Definition sort_by {A} (leb : A -> A -> bool) (l : list A) : list A :=
  fold_right (insert_by leb) [] l.

(* (nodeId, socketId) => nodeIndex *)
Definition node_index (np : Z) (p : proc) : Z := (numa p + np) * (socket p + 1).

(* cpuBucketOfNode as an association list *)
Fixpoint add_bucket (k : Z) (p : proc) (bs : list (Z * list proc)) : list (Z * list proc) :=
  match bs with
  | [] => [(k, [p])]
  | (k', l) :: t => if k =? k' then (k', l ++ [p]) :: t else (k', l) :: add_bucket k p t
  end.

(* inside a bucket: by core id, then cpu id *)
Definition proc_leb (a b : proc) : bool :=
  if core a =? core b then cpu a <=? cpu b else core a <? core b.
Definition hd_cpu (b : list proc) : Z := match b with p :: _ => cpu p | [] => 0 end.
(* between buckets: larger first, ties by the first cpu id *)
Definition bucket_leb (a b : list proc) : bool :=
  if lenZ a =? lenZ b then hd_cpu a <=? hd_cpu b else lenZ b <? lenZ a.

Definition buckets_of (ps : list proc) : list (list proc) :=
  let np := lenZ ps in
  let raw := fold_left (fun bs p => add_bucket (node_index np p) p bs) ps [] in
  sort_by bucket_leb (map (fun kb => sort_by proc_leb (snd kb)) raw).

(* The accumulator [acc] is CPUSets in reverse; usedCpu has exactly the same elements. *)
Fixpoint find_pair (acc : list Z) (b : list proc) : option (proc * proc) :=
  match b with
  | p :: ((q :: _) as t) =>
      if negb (memZ (cpu p) acc) && (core p =? core q) then Some (p, q) else find_pair acc t
  | _ => None
  end.
Fixpoint find_single (acc : list Z) (b : list proc) : option proc :=
  match b with
  | [] => None
  | p :: t => if memZ (cpu p) acc then find_single acc t else Some p
  end.

(* one sweep i = idx .. len-1 of the "same core" loop; Some k = broke out at bucket k *)
Fixpoint pair_round (bs : list (list proc)) (idx : nat) (need : Z) (acc : list Z)
  : Z * list Z * option nat :=
  match bs with
  | [] => (need, acc, None)
  | b :: t =>
      if need <=? 1 then (need, acc, Some idx)
      else match find_pair acc b with
           | Some (p, q) => pair_round t (S idx) (need - 2) (cpu q :: cpu p :: acc)
           | None => pair_round t (S idx) need acc
           end
  end.
Fixpoint pair_loop (fuel : nat) (bs : list (list proc)) (pre need : Z) (acc : list Z)
  : Z * list Z * nat :=
  match fuel with
  | O => (need, acc, O)
  | S f =>
      if need <=? 1 then (need, acc, O)
      else if pre =? need then (need, acc, O)
      else match pair_round bs O need acc with
           | (need', acc', Some k) => (need', acc', k)
           | (need', acc', None) => pair_loop f bs need need' acc'
           end
  end.

(* one sweep of the "single cpu" loop; true = broke out because nothing more is needed *)
Fixpoint single_round (bs : list (list proc)) (need : Z) (acc : list Z) : Z * list Z * bool :=
  match bs with
  | [] => (need, acc, false)
  | b :: t =>
      if need <=? 0 then (need, acc, true)
      else match find_single acc b with
           | Some p => single_round t (need - 1) (cpu p :: acc)
           | None => single_round t need acc
           end
  end.
Fixpoint single_loop (fuel : nat) (bs : list (list proc)) (pre need : Z) (acc : list Z) : list Z :=
  match fuel with
  | O => acc
  | S f =>
      if need <=? 0 then acc
      else if pre =? need then acc
      else match single_round bs need acc with
           | (_, acc', true) => acc'
           | (need', acc', false) => single_loop f bs need need' acc'
           end
  end.

Definition rot {A} (k : nat) (l : list A) : list A := skipn k l ++ firstn k l.
Definition pick_fuel (n : Z) : nat := S (S (Z.to_nat n)).

Definition pick_with (fuel : nat) (n : Z) (ps : list proc) : list Z :=
  if lenZ ps <? n then []
  else
    let bs := buckets_of ps in
    let '(need, acc, k) := pair_loop fuel bs (-1) n [] in
    rev (single_loop fuel (rot k bs) (-1) need acc).

(* calculateBESuppressCPUSetPolicy *)
Definition pick (n : Z) (ps : list proc) : list Z := pick_with (pick_fuel n) n ps.

(* ================================================================ Part 3: adjustByCPUSet *)

Record cpod := mkCpod { c_lab : Z; c_cpus : list Z }.   (* QoS label, cpuset annotation *)

Record ainput := mkA {
  a_budget : Z;               (* milli *)
  a_static : bool;            (* kubelet cpu manager policy is static *)
  a_old : list Z;             (* current cpuset of the besteffort cgroup *)
  a_procs : list proc;
  a_pods : list cpod;
  a_reserved : list Z;        (* reservedCPUs of the node reservation annotation *)
  a_sysexcl : list Z }.       (* system-QoS cpuset when it is exclusive, else [] *)

(* cpuIdToPool: pods are visited in podMetas order; an entry that is LSE stays LSE, otherwise the
   last pod that lists the cpu wins (repaired behaviour, fix 62333f7).  -1 stands for "listed by
   a pod without QoS label" (map entry present with value ""), which the code treats like any
   class other than LSR / LSE. *)
Definition pool_entry (p : cpod) : Z := if c_lab p =? Q_NONE then -1 else c_lab p.
Definition pool_step (c : Z) (cur : Z) (p : cpod) : Z :=
  if memZ c (c_cpus p) then (if cur =? Q_LSE then cur else pool_entry p) else cur.
Definition pool_of (pods : list cpod) (c : Z) : Z := fold_left (pool_step c) pods Q_NONE.

(* the map as it was before the fix: plain last-writer-wins (kept for the regression examples) *)
Fixpoint pool_of_old (pods : list cpod) (c : Z) : Z :=
  match pods with
  | [] => Q_NONE
  | p :: t => let r := pool_of_old t c in
              if negb (r =? Q_NONE) then r
              else if memZ c (c_cpus p) then pool_entry p else Q_NONE
  end.

Definition eligible (i : ainput) (p : proc) : bool :=
  negb (memZ (cpu p) (a_reserved i)) && negb (memZ (cpu p) (a_sysexcl i)).
Definition lsr_pool (i : ainput) : list proc :=
  filter (fun p => eligible i p && (pool_of (a_pods i) (cpu p) =? Q_LSR)) (a_procs i).
Definition ls_pool (i : ainput) : list proc :=
  filter (fun p => eligible i p && negb (pool_of (a_pods i) (cpu p) =? Q_LSR)
                   && negb (pool_of (a_pods i) (cpu p) =? Q_LSE)) (a_procs i).

(* number of cpus for BE: ceil(budget/1000), at least beMinCPUSetCores, growing by at most
   ceil(nprocs * beMaxIncreaseCPUPercent) over the current size *)
Definition max_increase (nprocs : Z) : Z :=
  ceil_div (nprocs * fst beMaxIncreaseCPUPercent) (snd beMaxIncreaseCPUPercent).
Definition target_count (budget_milli oldn nprocs : Z) : Z :=
  let c := ceil_div budget_milli 1000 in
  let c := if c <? beMinCPUSetCores then beMinCPUSetCores else c in
  if max_increase nprocs <? c - oldn then oldn + max_increase nprocs else c.

(* the list handed to applyBESuppressCPUSet; None = returned before (no eligible cpu) *)
Definition be_cpuset (i : ainput) : option (list Z) :=
  let lsr := lsr_pool i in
  let ls := ls_pool i in
  if lenZ lsr + lenZ ls =? 0 then None
  else
    let cpus := target_count (a_budget i) (dedup_len (a_old i)) (lenZ (a_procs i)) in
    let nlsr := Z.quot (cpus * lenZ lsr) (lenZ lsr + lenZ ls) in
    let from_lsr := if 0 <? nlsr then pick nlsr lsr else [] in
    let from_ls := if 0 <? cpus - nlsr then pick (cpus - nlsr) ls else [] in
    Some (from_lsr ++ from_ls).

(* calcBECPUSet: every cpu except LSE-owned (any pod order), reserved, system-exclusive *)
Definition lse_owned (pods : list cpod) (c : Z) : bool :=
  existsb (fun p => (c_lab p =? Q_LSE) && memZ c (c_cpus p)) pods.
Definition recover_set (i : ainput) : list Z :=
  filter (fun c => negb (lse_owned (a_pods i) c) && negb (memZ c (a_reserved i))
                   && negb (memZ c (a_sysexcl i)))
         (map cpu (a_procs i)).

(* a cpuset.cpus file holds a set: sorted ascending, no duplicates *)
Fixpoint set_insert (x : Z) (l : list Z) : list Z :=
  match l with
  | [] => [x]
  | y :: t => if x <? y then x :: l else if x =? y then l else y :: set_insert x t
  end.
Definition to_set (l : list Z) : list Z := fold_right set_insert [] l.

(* contents of cpuset.cpus of (besteffort dir, a pod dir, a container dir) after
   adjustByCPUSet; all three held [a_old] before *)
Definition adjust (i : ainput) : list Z * list Z * list Z :=
  let old := to_set (a_old i) in
  match be_cpuset i with
  | None => (old, old, old)
  | Some be =>
      let new := match be with [] => old | _ => to_set be end in
      if a_static i then
        let up := to_set (recover_set i) in       (* written even when it is empty *)
        (up, up, new)
      else (new, new, new)
  end.

(* ================================================================ Part 4: adjustByCfsQuota *)

Definition cap_cores (cap_milli : Z) : Z := ceil_div cap_milli 1000.   (* Quantity.Value() *)

Definition quota_target (budget_milli : Z) : Z :=
  Z.max (Z.quot (budget_milli * DefaultCPUCFSPeriod) 1000) beMinQuota.

(* float64(cores) * period * ratio for the two ratios of the source, as exact rationals
   compared by cross-multiplication *)
Definition ratio_lt (x : Z) (cores : Z) (r : Z * Z) : bool :=
  x * snd r <? cores * DefaultCPUCFSPeriod * fst r.

Definition quota_new (budget_milli cap_milli cur : Z) : Z :=
  let q := quota_target budget_milli in
  let cores := cap_cores cap_milli in
  if ratio_lt (Z.abs (q - cur)) cores suppressBypassQuotaDeltaRatio && negb (q =? beMinQuota)
  then cur                                                     (* bypass: file untouched *)
  else
    let step := cores * DefaultCPUCFSPeriod * fst beMaxIncreaseCPUPercent in
    if (step <? (q - cur) * snd beMaxIncreaseCPUPercent) && negb (cur =? -1)
    then cur + Z.quot step (snd beMaxIncreaseCPUPercent)
    else q.

(* ================================================================ Part 5: quota mode over a history *)

(* One CPUSuppress instance (one executor, one cache) over a sequence of rounds.  The state the
   quota file depends on: its current contents and suppressPolicyStatuses[cfsQuota] = recovered.
   adjustByCfsQuota reads the real file every time and writes with Update(false, ...), so the
   executor's value cache plays no part. *)
Inductive qop : Type :=
| QAdjust (b : Z)     (* quota round as suppressBECPU runs it: adjustByCfsQuota, status := using *)
| QRecover            (* recoverCFSQuotaIfNeed *)
| QReset (v : Z)      (* somebody else rewrites cpu.cfs_quota_us *)
| QCpuset.            (* a cpuset-mode adjustByCPUSet on the same instance *)

Definition qstep (cap : Z) (st : Z * bool) (op : qop) : Z * bool :=
  let '(cur, rec) := st in
  match op with
  | QAdjust b => (quota_new b cap cur, false)
  | QRecover => if rec then (cur, true) else (-1, true)
  | QReset v => (v, rec)
  | QCpuset => (cur, rec)
  end.

(* cpu.cfs_quota_us after every step *)
Fixpoint hist (cap : Z) (st : Z * bool) (ops : list qop) : list Z :=
  match ops with
  | [] => []
  | op :: t => let st' := qstep cap st op in fst st' :: hist cap st' t
  end.

