(* C10 — the flat-integer interface of the model: wire decoding and the four entry points the
   generic OCaml driver calls (extracted by Extract.v; theorems about them in Proofs_Cases.v).
   One stream; the first integer of an input is the kind (see harness/C10/zz_verif_c10_test.go):
     1 budget : cap alloc annoKind annoVal thr hasMin minPct nodeU pertKind pertIdx pertDelta
                P (lab kubeBE inMeta hasMetric use)*P  H (qos base hasMetric use)*H      obs [b1 b2]
     2 pick   : n P (cpu core socket node)*P                                            obs [len ids..]
     3 cpuset : budget policy K old*K P procs Q (lab k cpus*k)*Q resKind R res*R sysKind S sys*S
                                                       obs [len root.. len pod.. len ctr..]
     4 quota  : budget cap cur                                                          obs [quota]
     5 history: cap init N (op arg)*N   op 1 quota round(budget) 2 recover 3 reset(value) 4 cpuset round
                                                       obs cpu.cfs_quota_us after every step
     6 budget over a structured node object:
                cap hasAlloc alloc anState anPolicy hasRes resMicro cpusStyle K cpus*K
                thr hasMin minPct nodeU pertKind pertIdx pertDelta P pods H hosts        obs [b1 b2]
                anState  ones digit 0 no annotations, 1 no reservation entry, 2 unreadable entry, 3 JSON object
                         (tens digit: which spelling of "absent" / "unreadable" the harness writes)
                anPolicy 0 unset 1 Default 2 ReservedCPUsOnly 3 another string
                resMicro resources.cpu in micro-CPU; cpusStyle 0..4 legal spellings, 5 not a cpu list
     7 rounds : whole suppressBECPU rounds on ONE plugin instance (node as in kind 6)
                cap hasAlloc alloc anState anPolicy hasRes resMicro cpusStyle K cpus*K
                thr hasMin minPct static sysKind S sys*S   K0 old*K0 initQuota
                NP procs  P (lab kubeBE hasMetric k cpus*k)*P  H (qos base hasMetric)*H
                N ops: 1 mode fail nodeU use*P use*H  (mode 0 cpuset 1 cfsQuota 2 disabled) | 2 value
                obs after every step: [len root.. len pod.. len ctr.. quota] *)
From Coq Require Import List ZArith Bool.
From Verif Require Import Lib.Wire Gen.Gen_consts C10.Model C10.Spec C10.Round.
Import ListNotations.
Open Scope Z_scope.

Definition nth0 (k : nat) (l : list Z) : Z := nth k l 0.

Definition dec_pod (l : list Z) : pod * list Z :=
  (mkPod (nth0 0 l) (zb (nth0 1 l)) (zb (nth0 2 l)) (zb (nth0 3 l)) (nth0 4 l), skipn 5 l).
Definition dec_happ (l : list Z) : happ * list Z :=
  (mkHapp (nth0 0 l) (nth0 1 l) (zb (nth0 2 l)) (nth0 3 l), skipn 4 l).
Definition dec_proc (l : list Z) : proc * list Z :=
  (mkProc (nth0 0 l) (nth0 1 l) (nth0 2 l) (nth0 3 l), skipn 4 l).
Definition dec_cpod (l : list Z) : cpod * list Z :=
  let '(cs, r) := take_list (tl l) in (mkCpod (hdZ l mod 10) cs, r).   (* tens digit: spelling of the list *)

(* ---------- kind 1 (legacy layout: the annotation is one of three fixed shapes) *)
Definition upto (n : Z) : list Z := map Z.of_nat (seq 0 (Z.to_nat n)).
Definition dec_budget (l : list Z) : binput * (Z * Z * Z) :=
  let capm := nth0 0 l in let alloc := nth0 1 l in
  let ak0 := nth0 2 l in let av := nth0 3 l in
  let ak := ak0 mod 10 in                      (* tens digit: spelling of the reservedCPUs list *)
  let pol := ak0 / 100 in                      (* hundreds digit: applyPolicy *)
  let anno := if ak =? 1 then mkAnno 3 pol (Some (av * 1000)) true []
              else if ak =? 2 then mkAnno 3 pol None true (upto av)
              else if ak =? 3 then mkAnno 1 0 None true []
              else anno_none in
  let thr := nth0 4 l in
  let mn := if zb (nth0 5 l) then Some (nth0 6 l) else None in
  let nodeu := nth0 7 l in
  let '(ps, r1) := decode_seq dec_pod (skipn 11 l) in
  let '(hs, _) := decode_seq dec_happ r1 in
  (mkB capm (Some alloc) anno thr mn nodeu ps hs, (nth0 8 l, nth0 9 l, nth0 10 l)).

(* ---------- kind 6 *)
Definition dec_budget6 (l : list Z) : binput * (Z * Z * Z) :=
  let capm := nth0 0 l in
  let alloc := if zb (nth0 1 l) then Some (nth0 2 l) else None in
  let st := nth0 3 l mod 10 in
  let pol := nth0 4 l in
  let res := if zb (nth0 5 l) then Some (nth0 6 l) else None in
  let ok := negb (nth0 7 l mod 10 =? 5) in
  let '(cpus, r) := take_list (skipn 8 l) in
  let thr := nth0 0 r in
  let mn := if zb (nth0 1 r) then Some (nth0 2 r) else None in
  let nodeu := nth0 3 r in
  let '(ps, r1) := decode_seq dec_pod (skipn 7 r) in
  let '(hs, _) := decode_seq dec_happ r1 in
  (mkB capm alloc (mkAnno st pol res ok cpus) thr mn nodeu ps hs, (nth0 4 r, nth0 5 r, nth0 6 r)).

(* ---------- kind 2 *)
Definition dec_pick (l : list Z) : Z * list proc :=
  (hdZ l, fst (decode_seq dec_proc (tl l))).

(* ---------- kind 3 *)
Definition dec_adjust (l : list Z) : ainput :=
  let b := nth0 0 l in let st := zb (nth0 1 l) in
  let '(old, r1) := take_list (skipn 2 l) in
  let '(procs, r2) := decode_seq dec_proc r1 in
  let '(pods, r3) := decode_seq dec_cpod r2 in
  let resk := hdZ r3 mod 10 in                 (* tens digit: spelling of the list *)
  let '(res, r4) := take_list (tl r3) in
  let sysk := hdZ r4 mod 10 in
  let '(sys, _) := take_list (tl r4) in
  mkA b st old procs pods (if resk =? 1 then res else [])
      (if (sysk =? 1) || (sysk =? 2) then sys else []).

Definition dec_obs3 (o : list Z) : option (list Z * list Z * list Z) :=
  let '(a, r1) := take_list o in
  let '(b, r2) := take_list r1 in
  let '(c, r3) := take_list r2 in
  match r3 with
  | [] => if (lenZ a =? hdZ o) && (lenZ b =? hdZ r1) && (lenZ c =? hdZ r2) then Some (a, b, c) else None
  | _ => None
  end.

(* ---------- kind 5 *)
Definition dec_qop (l : list Z) : qop * list Z :=
  let k := nth0 0 l in let a := nth0 1 l in
  ((if k =? 1 then QAdjust a else if k =? 2 then QRecover else if k =? 3 then QReset a else QCpuset),
   skipn 2 l).
Definition dec_hist (l : list Z) : Z * Z * list qop :=
  (nth0 0 l, nth0 1 l, fst (decode_seq dec_qop (skipn 2 l))).

(* ---------- kind 7 *)
Definition dec_rpod (l : list Z) : rpod * list Z :=
  let '(cs, r) := take_list (skipn 3 l) in
  (mkRpod (nth0 0 l mod 10) (zb (nth0 1 l)) (zb (nth0 2 l)) cs, r).   (* tens digit: spelling of the list *)
Definition dec_rhost (l : list Z) : rhost * list Z :=
  (mkRhost (nth0 0 l) (nth0 1 l) (zb (nth0 2 l)), skipn 3 l).
Definition dec_rop (np nh : nat) (l : list Z) : rop * list Z :=
  if nth0 0 l =? 1 then
    let r := skipn 4 l in
    (RRound (nth0 1 l) (zb (nth0 2 l)) (nth0 3 l) (firstn np r) (firstn nh (skipn np r)), skipn (np + nh) r)
  else (RReset (nth0 1 l), skipn 2 l).

Definition dec_rounds_raw (l : list Z) : rcfg * (list Z * Z) * list rop :=
  let capm := nth0 0 l in
  let alloc := if zb (nth0 1 l) then Some (nth0 2 l) else None in
  let st := nth0 3 l mod 10 in
  let pol := nth0 4 l in
  let res := if zb (nth0 5 l) then Some (nth0 6 l) else None in
  let ok := negb (nth0 7 l mod 10 =? 5) in
  let '(cpus, r) := take_list (skipn 8 l) in
  let thr := nth0 0 r in
  let mn := if zb (nth0 1 r) then Some (nth0 2 r) else None in
  let static := zb (nth0 3 r) in
  let sysk := nth0 4 r mod 10 in
  let '(sys, r1) := take_list (skipn 5 r) in
  let '(old, r2) := take_list r1 in
  let q0 := hdZ r2 in
  let '(procs, r3) := decode_seq dec_proc (tl r2) in
  let '(pods, r4) := decode_seq dec_rpod r3 in
  let '(hosts, r5) := decode_seq dec_rhost r4 in
  let '(ops, _) := decode_seq (dec_rop (length pods) (length hosts)) r5 in
  (mkRC capm alloc (mkAnno st pol res ok cpus) thr mn static
        (if (sysk =? 1) || (sysk =? 2) then sys else []) procs pods hosts,
   (old, q0), ops).
(* all three cpuset files start with the same set, the plugin instance is fresh *)
Definition dec_rounds (l : list Z) : rcfg * rstate * list rop :=
  let '(c, (old, q0), ops) := dec_rounds_raw l in
  (c, mkRS (to_set old) (to_set old) (to_set old) q0 false, ops).

Definition enc_robs (o : robs) : list Z :=
  let '(a, b, c, q) := o in encode_list a ++ encode_list b ++ encode_list c ++ [q].
Fixpoint dec_robs (n : nat) (o : list Z) : option (list robs) :=
  match n with
  | O => match o with [] => Some [] | _ => None end
  | S k =>
      let '(a, r1) := take_list o in
      let '(b, r2) := take_list r1 in
      let '(c, r3) := take_list r2 in
      match r3 with
      | q :: r4 =>
          if (lenZ a =? hdZ o) && (lenZ b =? hdZ r1) && (lenZ c =? hdZ r2)
          then match dec_robs k r4 with Some t => Some ((a, b, c, q) :: t) | None => None end
          else None
      | [] => None
      end
  end.

Definition run_case (inp : list Z) : list Z :=
  match inp with
  | 1 :: l =>
      let '(i, (pk, pi, pd)) := dec_budget l in [budget i; budget (perturb pk pi pd i)]
  | 2 :: l =>
      let '(n, ps) := dec_pick l in encode_list (pick n ps)
  | 3 :: l =>
      let '(a, b, c) := adjust (dec_adjust l) in encode_list a ++ encode_list b ++ encode_list c
  | 4 :: l => [quota_new (nth0 0 l) (nth0 1 l) (nth0 2 l)]
  | 5 :: l => let '(cap, init, ops) := dec_hist l in hist cap (init, false) ops
  | 6 :: l =>
      let '(i, (pk, pi, pd)) := dec_budget6 l in [budget i; budget (perturb pk pi pd i)]
  | 7 :: l => let '(c, st, ops) := dec_rounds l in flat_map enc_robs (rhist c st ops)
  | _ => [-1]
  end.

(* property decided on the IMPLEMENTATION's observable; 0 = holds, else the clause number *)
Definition prop_case (inp obs : list Z) : Z :=
  match inp with
  | 1 :: l => let '(i, (pk, pi, pd)) := dec_budget l in budget_code pk pi pd i obs
  | 2 :: l =>
      let '(n, ps) := dec_pick l in
      let '(out, r) := take_list obs in
      match r with
      | [] => if lenZ out =? hdZ obs then pick_code n ps out else 209
      | _ => 209
      end
  | 3 :: l =>
      match dec_obs3 obs with
      | Some o => adjust_code (dec_adjust l) o
      | None => 309
      end
  | 4 :: l =>
      match obs with
      | [q] => quota_code (nth0 0 l) (nth0 1 l) (nth0 2 l) q
      | _ => 409
      end
  | 5 :: l => let '(cap, init, ops) := dec_hist l in hist_code cap init ops obs
  | 6 :: l => let '(i, (pk, pi, pd)) := dec_budget6 l in budget_code pk pi pd i obs
  | 7 :: l =>
      let '(c, st, ops) := dec_rounds l in
      match dec_robs (length ops) obs with
      | Some os => rhist_code c (obs_of st) ops os
      | None => 769
      end
  | _ => 9
  end.

(* non-trivial (kinds 1 and 6): budget above the configured minimum with at least one counted non-BE consumer;
   pick of 2..|ps| cpus from at least two buckets; an adjust that hands out a non-empty set on
   a node with at least one protected cpu; a quota that is written (no bypass) *)
Definition nontrivial_budget (i : binput) : bool :=
  (0 <? pods_nonbe (b_pods i) + hosts_nonbe (b_hosts i))
  && match b_min i with
     | None => true
     | Some mp => Z.quot (b_cap i * mp) 100 <? budget i
     end.
Definition wf_budget (i : binput) (pert : Z * Z * Z) : bool :=
  let '(pk, pi, pd) := pert in
  (node_reserved i <? 2 ^ 50) && (node_reserved (perturb pk pi pd i) <? 2 ^ 50)
  && forallb (fun p => 0 <=? p_use p) (b_pods i).

Definition nontrivial_case (inp : list Z) : bool :=
  match inp with
  | 1 :: l => let '(i, _) := dec_budget l in nontrivial_budget i
  | 6 :: l => let '(i, _) := dec_budget6 l in nontrivial_budget i
  | 7 :: l =>
      (* a cpuset-policy round that has pods and metrics, and a round of another kind, on a node
         with at least one protected cpu *)
      let '(c, _, ops) := dec_rounds l in
      match rc_pods c with [] => false | _ => true end
      && existsb (fun op => match op with RRound m f _ _ _ => (m =? 0) && negb f | _ => false end) ops
      && existsb (fun op => match op with RRound m _ _ _ _ => negb (m =? 0) | _ => false end) ops
      && existsb (protected (round_ainput c 0 [])) (map cpu (rc_procs c))
  | 2 :: l =>
      let '(n, ps) := dec_pick l in
      (2 <=? n) && (n <=? lenZ ps) && (2 <=? lenZ (buckets_of ps))
  | 3 :: l =>
      let i := dec_adjust l in
      match be_cpuset i with
      | Some (_ :: _) => existsb (protected i) (map cpu (a_procs i))
      | _ => false
      end
  | 4 :: l => negb (quota_new (nth0 0 l) (nth0 1 l) (nth0 2 l) =? nth0 2 l)
  | 5 :: l =>
      (* a quota round that writes, after the file was reset or recovered earlier in the history *)
      let '(cap, init, ops) := dec_hist l in
      existsb (fun op => match op with QAdjust _ => true | _ => false end) ops
      && existsb (fun op => match op with QRecover => true | QReset _ => true | _ => false end) ops
  | _ => false
  end.

(* no known-finding shape is left: a protected cpu reaching BE is a plain violation *)
Definition finding_sig (inp obs : list Z) : Z := 0.

(* well-formed case: the hypotheses of the theorems, decided on the wire input *)
Definition wf_case (inp : list Z) : bool :=
  match inp with
  | 1 :: l => let '(i, pert) := dec_budget l in wf_budget i pert
  | 6 :: l => let '(i, pert) := dec_budget6 l in wf_budget i pert
  | 7 :: l => let '(c, _, _) := dec_rounds l in rcfg_wfb c
  | 2 :: l => let '(_, ps) := dec_pick l in nodupb (map cpu ps)
  | 3 :: l => nodupb (map cpu (a_procs (dec_adjust l)))
  | 4 :: _ => true
  | 5 :: _ => true
  | _ => false
  end.
