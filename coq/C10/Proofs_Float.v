(* C10 — the float64 round trip of the node reservation, int64((float64(m)/1000)*1000), loses at
   most one milli-CPU: m - 1 <= rt_milli m <= m for every 0 <= m < 2^50.  This discharges the
   hypothesis [rt_ok] of the budget theorems for every realistic reservation. *)
From Coq Require Import List ZArith Bool Lia.
From Verif Require Import Gen.Gen_consts C10.Model C10.Spec C10.Proofs_Budget.
Open Scope Z_scope.

Lemma pow2_pos k : 0 <= k -> 0 < 2 ^ k.
Proof. intros H. apply Z.pow_pos_nonneg; lia. Qed.

Lemma pow2_double k : 0 <= k -> 2 ^ (k + 1) = 2 * 2 ^ k.
Proof. intros H. rewrite Z.pow_add_r by lia. change (2 ^ 1) with 2. lia. Qed.

(* lower bound of the quotient at the first exponent guess *)
Lemma round53_guess n d a0 b0 : 0 < n -> 0 < d ->
  scale2 n d (Z.log2 n - Z.log2 d - 53) = (a0, b0) -> 0 < b0 /\ 2 ^ 52 * b0 <= a0.
Proof.
  intros Hn Hd. set (ln := Z.log2 n). set (ld := Z.log2 d).
  pose proof (Z.log2_spec n Hn) as [Hn1 Hn2]. pose proof (Z.log2_spec d Hd) as [Hd1 Hd2].
  pose proof (Z.log2_nonneg n) as Hln. pose proof (Z.log2_nonneg d) as Hld.
  fold ln in Hn1, Hn2, Hln. fold ld in Hd1, Hd2, Hld.
  unfold scale2. destruct (0 <=? ln - ld - 53) eqn:E; intros S; inversion S; subst a0 b0; clear S.
  - apply Z.leb_le in E.
    pose proof (pow2_pos (ln - ld - 53) E) as Hp. split; [nia|].
    assert (Hx : 2 ^ 52 * (2 ^ (Z.succ ld) * 2 ^ (ln - ld - 53)) = 2 ^ ln).
    { rewrite <- !Z.pow_add_r by lia. f_equal. lia. }
    assert (2 ^ 52 * (d * 2 ^ (ln - ld - 53)) <= 2 ^ 52 * (2 ^ (Z.succ ld) * 2 ^ (ln - ld - 53))).
    { apply Z.mul_le_mono_nonneg_l; [lia|]. apply Z.mul_le_mono_nonneg_r; lia. }
    lia.
  - apply Z.leb_gt in E. split; [exact Hd|].
    assert (Hx : 2 ^ ln * 2 ^ (- (ln - ld - 53)) = 2 ^ 52 * 2 ^ (Z.succ ld)).
    { rewrite <- !Z.pow_add_r by lia. f_equal. lia. }
    pose proof (pow2_pos (- (ln - ld - 53)) ltac:(lia)) as Hp.
    assert (2 ^ ln * 2 ^ (- (ln - ld - 53)) <= n * 2 ^ (- (ln - ld - 53))).
    { apply Z.mul_le_mono_nonneg_r; lia. }
    assert (2 ^ 52 * d <= 2 ^ 52 * 2 ^ (Z.succ ld)) by (apply Z.mul_le_mono_nonneg_l; lia).
    lia.
Qed.

(* one more step of the exponent halves the scaled quotient *)
Lemma scale2_step n d e a0 b0 a b : 0 < n -> 0 < d ->
  scale2 n d e = (a0, b0) -> scale2 n d (e + 1) = (a, b) ->
  0 < b0 -> 2 ^ 53 * b0 <= a0 -> 0 < b /\ 2 ^ 52 * b <= a.
Proof.
  intros Hn Hd S0 S1 Hb0 Hq. unfold scale2 in S0, S1.
  destruct (0 <=? e) eqn:E0; [apply Z.leb_le in E0|apply Z.leb_gt in E0];
  destruct (0 <=? e + 1) eqn:E1; [apply Z.leb_le in E1|apply Z.leb_gt in E1| |apply Z.leb_gt in E1];
  inversion S0; inversion S1; subst; clear S0 S1; try lia.
  - rewrite pow2_double by lia. pose proof (pow2_pos e E0). change (2 ^ 53) with (2 * 2 ^ 52) in Hq. nia.
  - apply Z.leb_le in E1. assert (e = -1) by lia. subst e.
    change (2 ^ (- -1)) with 2 in Hq. change (2 ^ (-1 + 1)) with 1.
    change (2 ^ 53) with (2 * 2 ^ 52) in Hq. lia.
  - replace (- e) with (- (e + 1) + 1) in Hq by lia. rewrite pow2_double in Hq by lia.
    pose proof (pow2_pos (- (e + 1)) ltac:(lia)). change (2 ^ 53) with (2 * 2 ^ 52) in Hq. split; [lia|nia].
Qed.

(* what round53 returns: the truncated quotient at the chosen exponent is at least 2^52 and the
   result is that quotient or the next integer *)
Lemma round53_props n d q' e a b : 0 < n -> 0 < d ->
  round53 n d = (q', e) -> scale2 n d e = (a, b) ->
  0 < b /\ 2 ^ 52 * b <= a /\ a / b <= q' <= a / b + 1
  /\ (e = Z.log2 n - Z.log2 d - 53 \/ e = Z.log2 n - Z.log2 d - 53 + 1).
Proof.
  intros Hn Hd R S. unfold round53 in R.
  set (e0 := Z.log2 n - Z.log2 d - 53) in *.
  destruct (scale2 n d e0) as [a0 b0] eqn:S0.
  destruct (round53_guess n d a0 b0 Hn Hd S0) as [Hb0 Hlb].
  destruct (a0 / b0 <? 2 ^ 53) eqn:C.
  - rewrite S0 in R.
    assert (He : e = e0).
    { destruct (2 * (a0 mod b0) <? b0); [|destruct (b0 <? 2 * (a0 mod b0)); [|destruct (Z.even (a0 / b0))]];
        inversion R; reflexivity. }
    subst e. rewrite S0 in S. inversion S; subst a b.
    split; [exact Hb0|]. split; [exact Hlb|]. split; [|left; reflexivity].
    destruct (2 * (a0 mod b0) <? b0); [|destruct (b0 <? 2 * (a0 mod b0)); [|destruct (Z.even (a0 / b0))]];
      inversion R; lia.
  - apply Z.ltb_ge in C.
    assert (Hq : 2 ^ 53 * b0 <= a0).
    { pose proof (Z.mul_div_le a0 b0 Hb0). nia. }
    destruct (scale2 n d (e0 + 1)) as [a1 b1] eqn:S1.
    assert (He : e = e0 + 1).
    { destruct (2 * (a1 mod b1) <? b1); [|destruct (b1 <? 2 * (a1 mod b1)); [|destruct (Z.even (a1 / b1))]];
        inversion R; reflexivity. }
    subst e. rewrite S1 in S. inversion S; subst a b.
    destruct (scale2_step n d e0 a0 b0 a1 b1 Hn Hd S0 S1 Hb0 Hq) as [Hb1 Hl1].
    split; [exact Hb1|]. split; [exact Hl1|]. split; [|right; reflexivity].
    destruct (2 * (a1 mod b1) <? b1); [|destruct (b1 <? 2 * (a1 mod b1)); [|destruct (Z.even (a1 / b1))]];
      inversion R; lia.
Qed.

Lemma div_bounds a b q : 0 < b -> q = a / b -> q * b <= a < (q + 1) * b.
Proof.
  intros Hb ->. pose proof (Z.div_mod a b ltac:(lia)). pose proof (Z.mod_pos_bound a b Hb). nia.
Qed.

Theorem rt_milli_bounds m : 0 <= m < 2 ^ 50 -> m - 1 <= rt_milli m <= m.
Proof.
  intros [Hm0 Hm]. unfold rt_milli.
  destruct (m <=? 0) eqn:E0; [apply Z.leb_le in E0; lia|]. apply Z.leb_gt in E0.
  destruct (round53 m 1000) as [q1 e1] eqn:R1.
  destruct (scale2 m 1000 e1) as [a1 b1] eqn:S1.
  destruct (round53_props m 1000 q1 e1 a1 b1 E0 ltac:(lia) R1 S1) as [Hb1 [Hl1 [Hq1 He1]]].
  (* the first exponent is negative *)
  assert (Hlog : Z.log2 m < 50) by (apply Z.log2_lt_pow2; lia).
  assert (Hl1000 : Z.log2 1000 = 9) by reflexivity.
  assert (He1n : e1 <= -12) by lia.
  unfold scale2 in S1. destruct (0 <=? e1) eqn:E1; [apply Z.leb_le in E1; lia|]. clear E1.
  inversion S1; subst a1 b1; clear S1.
  set (K1 := 2 ^ (- e1)) in *.
  assert (HK1 : 4096 <= K1).
  { unfold K1. change 4096 with (2 ^ 12). apply Z.pow_le_mono_r; lia. }
  pose proof (div_bounds (m * K1) 1000 _ ltac:(lia) eq_refl) as Hd1.
  set (qq1 := m * K1 / 1000) in *.
  assert (Hn2 : m * K1 - 1000 <= q1 * 1000 <= m * K1 + 1000) by lia.
  assert (Hq1pos : 0 < q1 * 1000).
  { assert (2 ^ 52 <= qq1); [|lia]. apply Z.div_le_lower_bound; lia. }
  (* second rounding *)
  destruct (round53 (q1 * 1000) K1) as [q2 e2] eqn:R2.
  destruct (scale2 (q1 * 1000) K1 e2) as [a2 b2] eqn:S2.
  destruct (round53_props (q1 * 1000) K1 q2 e2 a2 b2 Hq1pos ltac:(lia) R2 S2) as [Hb2 [Hl2 [Hq2 _]]].
  unfold scale2 in S2. destruct (0 <=? e2) eqn:E2.
  - (* a non-negative exponent would make the value at least 2^52 *)
    apply Z.leb_le in E2. inversion S2; subst a2 b2; clear S2. exfalso.
    pose proof (pow2_pos e2 E2) as Hp.
    assert (2 ^ 52 * K1 <= q1 * 1000) by nia.
    assert (m * K1 < 2 ^ 50 * K1) by (apply Z.mul_lt_mono_pos_r; lia).
    change (2 ^ 52) with (4 * 2 ^ 50) in H. lia.
  - apply Z.leb_gt in E2. inversion S2; subst a2 b2; clear S2.
    set (K2 := 2 ^ (- e2)) in *.
    assert (HK2 : 2 <= K2).
    { unfold K2. change 2 with (2 ^ 1) at 1. apply Z.pow_le_mono_r; lia. }
    pose proof (div_bounds (q1 * 1000 * K2) K1 _ ltac:(lia) eq_refl) as Hd2.
    set (qq2 := q1 * 1000 * K2 / K1) in *.
    assert (Hkey : 1000 * K2 + K1 < K1 * K2) by nia.
    assert (Hlo : (m - 1) * K2 <= q2).
    { assert ((m - 1) * K2 * K1 <= q2 * K1); [nia|]. apply Z.mul_le_mono_pos_r with (p := K1); lia. }
    assert (Hhi : q2 < (m + 1) * K2).
    { assert (q2 * K1 < (m + 1) * K2 * K1); [nia|]. apply Z.mul_lt_mono_pos_r with (p := K1); lia. }
    split.
    + apply Z.div_le_lower_bound; lia.
    + assert (q2 / K2 < m + 1); [|lia]. apply Z.div_lt_upper_bound; lia.
Qed.

Corollary rt_ok_holds i : node_reserved i < 2 ^ 50 -> rt_ok i = true.
Proof.
  intros H. unfold rt_ok. rewrite !reservation_spec_eq.
  assert (0 <= node_reserved i) by apply node_reserved_nonneg.
  pose proof (rt_milli_bounds (node_reserved i) ltac:(lia)) as [H1 H2].
  apply andb_true_iff. split; apply Z.leb_le; assumption.
Qed.
