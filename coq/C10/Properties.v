(* C10 — exported theorems only: each is closed by [exact] and followed by Print Assumptions. *)
From Coq Require Import List ZArith Bool.
From Verif Require Import Gen.Gen_consts C10.Model C10.Spec C10.Proofs.
Open Scope Z_scope.

Theorem c10_quota_min : forall b, beMinQuota <= quota_target b.
Proof. exact quota_target_min. Qed.
Print Assumptions c10_quota_min.
