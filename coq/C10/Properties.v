(* C10 — exported theorems only: each is closed by [exact] and followed by Print Assumptions. *)
From Coq Require Import List ZArith Bool.
From Verif Require Import Gen.Gen_consts C10.Model C10.Spec
  C10.Proofs_Pick C10.Proofs_Adjust C10.Proofs_Budget C10.Proofs_Float C10.Proofs
  C10.Cases C10.Proofs_Cases C10.Proofs_Paired C10.Round C10.Proofs_Round.
Import ListNotations.
Open Scope Z_scope.

(* ======================================================================== budget *)

(* The float64 round trip of the node reservation, int64((float64(m)/1000)*1000), loses at most
   one milli-CPU, for every reservation below 2^50 milli-CPU (proved for the bit-exact emulation
   [rt_milli] of the two IEEE-754 roundings). *)
Theorem c10_float_round_trip : forall m, 0 <= m < 2 ^ 50 -> m - 1 <= rt_milli m <= m.
Proof. exact rt_milli_bounds. Qed.
Print Assumptions c10_float_round_trip.

(* "The node reservation": the code's value (resource-list maximum of the kubelet reservation and
   the annotation's list, reservedCPUs overriding resources.cpu, unreadable annotations ignored) is
   max(capacity - allocatable, 0) or what the annotation declares, whichever is larger ... *)
Theorem c10_reservation_formula : forall i, node_reserved i = reservation_spec i.
Proof. exact (fun i => eq_sym (reservation_spec_eq i)). Qed.
Print Assumptions c10_reservation_formula.

(* ... it does not depend on the annotation's applyPolicy (Default / ReservedCPUsOnly / anything) ... *)
Theorem c10_reservation_policy_irrelevant : forall p i,
  node_reserved (mkB (b_cap i) (b_alloc i) (with_policy p (b_anno i)) (b_thr i) (b_min i) (b_node i)
                     (b_pods i) (b_hosts i)) = node_reserved i.
Proof. exact node_reserved_policy. Qed.
Print Assumptions c10_reservation_policy_irrelevant.

(* ... nor does the budget *)
Theorem c10_budget_policy_irrelevant : forall idx d i, budget (perturb 5 idx d i) = budget i.
Proof. exact budget_policy_irrelevant. Qed.
Print Assumptions c10_budget_policy_irrelevant.

(* ... and it is at least the kubelet reservation and one core per distinct cpu the annotation lists *)
Theorem c10_reservation_lower : forall i,
  Z.max (b_cap i - match b_alloc i with Some a => a | None => 0 end) 0 <= node_reserved i
  /\ (an_state (b_anno i) = 3 -> an_cpus_ok (b_anno i) = true -> an_cpus (b_anno i) <> [] ->
      1000 * dedup_len (an_cpus (b_anno i)) <= node_reserved i).
Proof. exact (fun i => conj (node_reserved_ge_kubelet i) (node_reserved_ge_cpus i)). Qed.
Print Assumptions c10_reservation_lower.

(* The budget is capacity * threshold / 100 minus non-BE pods, non-BE host applications and
   max(measured system use, node reservation), floored by capacity * min / 100; where the float64
   round trip of the reservation is lossy the reservation counts one milli-CPU less. *)
Theorem c10_budget_formula : forall i, node_reserved i < 2 ^ 50 -> budget_holds i (budget i).
Proof. exact budget_formula_any. Qed.
Print Assumptions c10_budget_formula.

Theorem c10_budget_formula_exact : forall i, rt_exact i = true -> budget i = budget_spec i.
Proof. exact budget_formula_exact. Qed.
Print Assumptions c10_budget_formula_exact.

(* the system term is at least the node reservation (minus the round-trip loss) *)
Theorem c10_budget_system_floor : forall i, node_reserved i < 2 ^ 50 -> node_reserved i - 1 <= sys_milli i.
Proof. exact sys_at_least_reserved_any. Qed.
Print Assumptions c10_budget_system_floor.

(* The budget does not grow when any pod or host application uses more, the rest of the node
   does not use less and the node reservation is not smaller (same capacity, same configuration). *)
Theorem c10_budget_antitone : forall i i', node_reserved i' < 2 ^ 50 -> grows i i' -> budget i' <= budget i.
Proof. exact budget_antitone_any. Qed.
Print Assumptions c10_budget_antitone.

(* ... and it is antitone in each of the three consumption figures it subtracts *)
Theorem c10_budget_antitone_figures : forall i cap thr mn p h s p' h' s',
  budget i = budget_of (b_cap i) (b_thr i) (b_min i) (to_milli (pods_nonbe (b_pods i)))
                       (to_milli (hosts_nonbe (b_hosts i))) (sys_milli i)
  /\ (p <= p' -> h <= h' -> s <= s' -> budget_of cap thr mn p' h' s' <= budget_of cap thr mn p h s).
Proof. exact (fun i cap thr mn p h s p' h' s' => conj (budget_of_eq i) (budget_of_antitone cap thr mn p h s p' h' s')). Qed.
Print Assumptions c10_budget_antitone_figures.

(* the harness' perturbations 1..3 are instances of [grows] *)
Theorem c10_budget_perturb_grows : forall kind idx d i, 1 <= kind <= 3 -> 0 <= d -> grows i (perturb kind idx d i).
Proof. exact perturb_grows. Qed.
Print Assumptions c10_budget_perturb_grows.

(* ... and so is perturbation 6 (the kubelet keeps d more back) *)
Theorem c10_budget_perturb6_grows : forall idx d i, 0 <= d -> grows i (perturb 6 idx d i).
Proof. exact perturb6_grows. Qed.
Print Assumptions c10_budget_perturb6_grows.

(* a non-BE pod uses more while the node total stays (the inferred system part shrinks): the
   budget does not grow by more than the one milli-CPU the separate truncations can cost *)
Theorem c10_budget_antitone_pod_only : forall idx d i, node_reserved i < 2 ^ 50 -> 0 <= d ->
  Forall (fun p => 0 <= p_use p) (b_pods i) ->
  match nth_error (b_pods i) (Z.to_nat idx) with Some p => pod_nonbe p = true | None => True end ->
  budget (perturb 4 idx d i) <= budget i + 1.
Proof. exact budget_slack_any. Qed.
Print Assumptions c10_budget_antitone_pod_only.

(* the exact formula (no tolerance) is false of the faithful model: reservation 1001 counts as 1000 *)
Theorem c10_budget_exact_refuted : exists i, budget i = budget_spec i + 1.
Proof. exact budget_exact_refuted. Qed.
Print Assumptions c10_budget_exact_refuted.

Theorem c10_budget_decided : forall i b, budget_holdsb i b = true <-> budget_holds i b.
Proof. exact budget_holdsb_spec. Qed.
Print Assumptions c10_budget_decided.

(* the decision procedure the check runs on the implementation, run on the model *)
Theorem c10_budget_model : forall k idx d i, node_reserved i < 2 ^ 50 ->
  node_reserved (perturb k idx d i) < 2 ^ 50 ->
  Forall (fun p => 0 <= p_use p) (b_pods i) ->
  budget_code k idx d i [budget i; budget (perturb k idx d i)] = 0.
Proof. exact budget_code_model_any. Qed.
Print Assumptions c10_budget_model.

(* ======================================================================== pick *)

Theorem c10_pick_distinct : forall n ps, NoDup (map cpu ps) -> NoDup (pick n ps).
Proof. exact pick_distinct. Qed.
Print Assumptions c10_pick_distinct.

Theorem c10_pick_subset : forall n ps, NoDup (map cpu ps) -> incl (pick n ps) (map cpu ps).
Proof. exact pick_subset. Qed.
Print Assumptions c10_pick_subset.

Theorem c10_pick_count_le : forall n ps, NoDup (map cpu ps) -> lenZ (pick n ps) <= Z.max n 0.
Proof. exact pick_count_le. Qed.
Print Assumptions c10_pick_count_le.

Theorem c10_pick_exact : forall n ps, NoDup (map cpu ps) -> 0 <= n <= lenZ ps -> lenZ (pick n ps) = n.
Proof. exact pick_exact. Qed.
Print Assumptions c10_pick_exact.

(* the fuel of the two cyclic loops is never exhausted: any larger fuel gives the same list *)
Theorem c10_pick_fuel_irrelevant : forall f n ps, (pick_fuel n <= f)%nat -> pick_with f n ps = pick n ps.
Proof. exact pick_fuel_irrelevant. Qed.
Print Assumptions c10_pick_fuel_irrelevant.

Theorem c10_pick_decided : forall n ps out, pick_code n ps out = 0 <-> pick_holds n ps out.
Proof. exact pick_code_spec. Qed.
Print Assumptions c10_pick_decided.

Theorem c10_pick_model : forall n ps, NoDup (map cpu ps) -> pick_code n ps (pick n ps) = 0.
Proof. exact pick_code_model. Qed.
Print Assumptions c10_pick_model.

(* core-paired selection: sibling pairs first, then single cpus; while two or more cpus were
   still needed when the pair phase ended, no (node,socket) bucket had a free sibling pair left *)
Theorem c10_pick_core_paired : forall n ps, n <= lenZ ps ->
  exists prs singles,
    pick n ps = flat_map (fun pq => [cpu (fst pq); cpu (snd pq)]) prs ++ singles
    /\ sib_pairs (buckets_of ps) prs
    /\ (n - 2 * lenZ prs <= 1 \/ no_free_pair (buckets_of ps) (flat_pairs (rev prs))).
Proof. exact pick_core_paired. Qed.
Print Assumptions c10_pick_core_paired.

(* ======================================================================== cpuset *)

(* target = min(max(ceil(budget/1000), 2), |old| + ceil(nprocs/10)); the literals are the ones of
   the property text, the model uses beMinCPUSetCores / beMaxIncreaseCPUPercent *)
Theorem c10_count_formula : forall b o np,
  target_count b o np = Z.min (Z.max (ceil_div b 1000) 2) (o + ceil_div np 10).
Proof. exact target_count_eq. Qed.
Print Assumptions c10_count_formula.

Theorem c10_count_bounds : forall b o np,
  target_count b o np <= o + ceil_div np 10
  /\ target_count b o np <= Z.max (ceil_div b 1000) 2
  /\ (2 <= o + ceil_div np 10 -> 2 <= target_count b o np)
  /\ (Z.max (ceil_div b 1000) 2 <= o + ceil_div np 10 -> target_count b o np = Z.max (ceil_div b 1000) 2).
Proof. exact target_count_bounds. Qed.
Print Assumptions c10_count_bounds.

(* at least two whenever the besteffort cgroup currently has a cpu or the node has more than ten *)
Theorem c10_count_at_least_two : forall b o np, 0 <= o -> 0 <= np ->
  (1 <= o /\ 1 <= np) \/ 10 < np -> 2 <= target_count b o np.
Proof. exact target_count_two. Qed.
Print Assumptions c10_count_at_least_two.

Theorem c10_count_lower_refuted : exists b o np, 0 <= o /\ 0 <= np /\ target_count b o np < 2.
Proof. exact count_lower_refuted. Qed.
Print Assumptions c10_count_lower_refuted.

(* The repaired cpuIdToPool classifies a cpu as LSE exactly when some LSE pod lists it, whatever
   the order of the pod list and whatever other pods list it too. *)
Theorem c10_pool_lse_sticky : forall pods c, (pool_of pods c =? Q_LSE) = lse_owned pods c.
Proof. exact pool_lse_iff. Qed.
Print Assumptions c10_pool_lse_sticky.

(* No cpu handed to BE is owned by an LSE pod (in any pod order, with any overlapping
   annotations), reserved for the node or exclusive to system QoS, and every one exists.
   Only hypothesis: processor ids are distinct ([adjust_wf]). *)
Theorem c10_no_protected : forall i be c, adjust_wf i -> be_cpuset i = Some be -> In c be ->
  In c (map cpu (a_procs i)) /\ lse_owned (a_pods i) c = false
  /\ ~ In c (a_reserved i) /\ ~ In c (a_sysexcl i).
Proof. exact no_protected. Qed.
Print Assumptions c10_no_protected.

(* the list handed to the cgroup writer: distinct, unprotected, existing, at most the target,
   exactly the target when that many unprotected cpus exist *)
Theorem c10_be_cpuset : forall i be, adjust_wf i -> be_cpuset i = Some be ->
  NoDup be /\ unprotected_existing i be /\ lenZ be <= target i
  /\ (target i <= lenZ (free_cpus i) -> lenZ be = target i).
Proof. exact be_cpuset_spec. Qed.
Print Assumptions c10_be_cpuset.

(* main theorem: the cpuset.cpus files after adjustByCPUSet *)
Theorem c10_adjust_holds : forall i, adjust_wf i -> adjust_holds i (adjust i).
Proof. exact adjust_holds_model. Qed.
Print Assumptions c10_adjust_holds.

Theorem c10_adjust_decided : forall i o, adjust_code i o = 0 <-> adjust_holds i o.
Proof. exact adjust_code_spec. Qed.
Print Assumptions c10_adjust_decided.

Theorem c10_adjust_model : forall i, adjust_wf i -> adjust_code i (adjust i) = 0.
Proof. exact adjust_code_model. Qed.
Print Assumptions c10_adjust_model.

(* totality on the degenerate input: with no eligible cpu the files keep their contents (the
   implementation used to divide by zero here, fixed in 1908b1e) *)
Theorem c10_total : forall i, lsr_pool i = [] -> ls_pool i = [] ->
  adjust i = (to_set (a_old i), to_set (a_old i), to_set (a_old i)).
Proof. exact adjust_no_eligible. Qed.
Print Assumptions c10_total.

(* calcBECPUSet (static kubelet policy: besteffort and pod level) never contains a protected cpu,
   whatever the pod order *)
Theorem c10_recover_no_protected : forall i, unprotected_existing i (recover_set i).
Proof. exact recover_set_ok. Qed.
Print Assumptions c10_recover_no_protected.

(* ======================================================================== quota *)

(* quota = max(budget * period / 1000, beMinQuota) unless the change is inside the bypass window
   (file untouched) or above the step limit (current + step) *)
Theorem c10_quota : forall b cap cur, quota_holds b cap cur (quota_new b cap cur).
Proof. exact quota_holds_model. Qed.
Print Assumptions c10_quota.

Theorem c10_quota_floor : forall b,
  quota_target b = Z.max (Z.quot (b * DefaultCPUCFSPeriod) 1000) beMinQuota /\ beMinQuota <= quota_target b.
Proof. exact (fun b => conj eq_refl (quota_target_floor b)). Qed.
Print Assumptions c10_quota_floor.

Theorem c10_quota_bound : forall b cap cur, 0 <= cap -> quota_new b cap cur <= Z.max (quota_target b) cur.
Proof. exact quota_new_bound. Qed.
Print Assumptions c10_quota_bound.

Theorem c10_quota_decided : forall b cap cur obs, quota_code b cap cur obs = 0 <-> quota_holds b cap cur obs.
Proof. exact quota_code_spec. Qed.
Print Assumptions c10_quota_decided.

Theorem c10_quota_model : forall b cap cur, quota_code b cap cur (quota_new b cap cur) = 0.
Proof. exact quota_code_model. Qed.
Print Assumptions c10_quota_model.

(* quota mode over histories: one plugin instance, any finite sequence of quota rounds,
   recoverCFSQuotaIfNeed, external rewrites of the file and cpuset rounds, from any starting file
   contents and status: after EVERY quota round the file holds max(budget*period/1000, beMinQuota)
   (or the bypass / step value relative to what was in the file just before that round) *)
Theorem c10_quota_history : forall cap ops st, hist_holds cap (fst st) ops (hist cap st ops).
Proof. exact hist_holds_model. Qed.
Print Assumptions c10_quota_history.

Theorem c10_quota_history_decided : forall cap ops prev obs,
  hist_code cap prev ops obs = 0 <-> hist_holds cap prev ops obs.
Proof. exact hist_code_spec. Qed.
Print Assumptions c10_quota_history_decided.

(* ======================================================================== whole rounds *)

(* suppressBECPU as production runs it, on one plugin instance: every round computes the budget from
   the node object, the NodeSLO and the usage metrics and hands it to the cpuset or the cfs-quota
   policy (recovering the other one); rounds without pods or metrics touch nothing; a NodeSLO that
   disables the feature recovers both.  For every node/NodeSLO/topology/pod configuration with
   distinct processor ids and a reservation below 2^50 milli-CPU, every history of rounds and
   external quota rewrites, from any files satisfying the invariant [rinv] (in particular: all three
   levels hold the same set), EVERY step satisfies [rstep_ok] with respect to the files just before
   it: after a cpuset round the container level holds distinct existing unprotected cpus, at most
   (and with enough free cpus exactly) target(budget) many, for a budget that satisfies the budget
   formula of THAT round's metrics; after a quota round the quota is the formula value of that
   budget (bypass / step relative to the previous file) and the cpusets hold no protected cpu. *)
Theorem c10_round_history : forall c, rcfg_wf c -> forall ops st, rinv c st ->
  rhist_holds c (obs_of st) ops (rhist c st ops).
Proof. exact rhist_holds_model. Qed.
Print Assumptions c10_round_history.

(* the pod set may change between rounds (a pod with a negative usage does not exist in that round):
   a round is a function of the files, the quota status bit and the pods of THAT round only, so a
   cpu listed by an LSE pod that is gone is eligible again (seeded C10-m9 kept the cpu -> pool map
   across rounds) *)
Theorem c10_round_pods_of_the_round : forall c st mode fail nodeu pu hu,
  rstep c st (RRound mode fail nodeu pu hu)
  = rround (round_cfg c pu) st mode fail nodeu (present_uses (rc_pods c) pu) hu
  /\ rc_pods (round_cfg c pu) = present_pods (rc_pods c) pu.
Proof. exact (fun c st mode fail nodeu pu hu => conj eq_refl eq_refl). Qed.
Print Assumptions c10_round_pods_of_the_round.

Theorem c10_round_step : forall c st op, rcfg_wf c -> rinv c st ->
  rinv c (rstep c st op) /\ rstep_ok c (obs_of st) op (obs_of (rstep c st op)).
Proof. exact rstep_spec. Qed.
Print Assumptions c10_round_step.

Theorem c10_round_history_decided : forall c ops prev obs,
  rhist_code c prev ops obs = 0 <-> rhist_holds c prev ops obs.
Proof. exact rhist_code_spec. Qed.
Print Assumptions c10_round_history_decided.

(* in the words of the property: after a cpuset-policy round that had pods and metrics, the
   container-level cpuset was left alone or holds only existing cpus that are not LSE-owned, not
   reserved for the node (the cpus the reservation annotation lists) and not system-exclusive *)
Theorem c10_round_no_protected : forall c st mode nodeu pu hu, rcfg_wf c -> rinv c st ->
  mode <> 2 -> mode <> 1 -> rc_pods c <> [] ->
  let st' := rround c st mode false nodeu pu hu in
  rs_ctr st' = rs_ctr st \/
  forall x, In x (rs_ctr st') ->
    In x (map cpu (rc_procs c)) /\ protected (round_ainput c 0 []) x = false.
Proof. exact round_no_protected. Qed.
Print Assumptions c10_round_no_protected.

(* "growing by at most the step limit per round", over histories: under the none kubelet policy the
   container-level cpuset grows by at most ceil(nprocs/10) per round (whatever happened before) ... *)
Theorem c10_round_growth_none : forall c st mode fail nodeu pu hu, rcfg_wf c -> rinv c st ->
  rc_static c = false -> mode <> 1 -> mode <> 2 ->
  lenZ (rs_ctr (rround c st mode fail nodeu pu hu)) <= lenZ (rs_ctr st) + ceil_div (lenZ (rc_procs c)) 10.
Proof. exact round_growth_none. Qed.
Print Assumptions c10_round_growth_none.

(* ... under the static kubelet policy it does NOT (finding C10-static-step-limit): the step limit is
   computed from the besteffort-level file, which every round resets to all unprotected cpus, so the
   container level jumps from 2 to 6 cpus in one round on an 8-cpu node (step 1) *)
Theorem c10_round_growth_static_refuted :
  rcfg_wf w_static /\ rinv w_static w_static_st /\
  let st1 := rstep w_static w_static_st (RRound 0 false 288 [256] []) in
  let st2 := rstep w_static st1 (RRound 0 false 0 [0] []) in
  lenZ (rs_ctr st1) = 2 /\ lenZ (rs_ctr st2) = 6 /\ ceil_div (lenZ (rc_procs w_static)) 10 = 1.
Proof. exact round_growth_static_refuted. Qed.
Print Assumptions c10_round_growth_static_refuted.

(* adjustByCPUSet on files that all hold the same set is the single-step model [adjust] *)
Theorem c10_round_adjust_uniform : forall i,
  adjust3 i (to_set (a_old i), to_set (a_old i), to_set (a_old i)) = adjust i.
Proof. exact adjust3_uniform. Qed.
Print Assumptions c10_round_adjust_uniform.

(* ======================================================================== what is extracted *)

(* MAIN THEOREM over exactly the functions Extract.v extracts and bin/check runs: on every
   well-formed wire input (distinct processor ids, reservation below
   2^50 milli-CPU, non-negative usages) the property's decision procedure accepts the model's
   observable.  [prop_case] is what is evaluated on the IMPLEMENTATION's observable, and
   [run_case inp = obs] is what the correspondence check compares. *)
Theorem c10_cases_sound : forall inp, wf_case inp = true -> prop_case inp (run_case inp) = 0.
Proof. exact cases_sound. Qed.
Print Assumptions c10_cases_sound.

(* ======================================================================== non-vacuity *)

Example c10_nv_wf :
  let i := mkA 2000 false [0; 1] w_procs [mkCpod Q_LSR [2; 3]; mkCpod Q_LSE [2; 3]] [] [] in
  adjust_wf i /\ be_cpuset i = Some [0; 1] /\ adjust_wf w_overwritten.
Proof.
  cbv zeta. split; [apply nodupb_spec|split; [|apply nodupb_spec]]; vm_compute; reflexivity.
Qed.

(* regression for the repaired finding (fix 62333f7): the OLD last-writer-wins map classified
   cpu 2 of the LSE pod as LSR when an LSR pod listing it came later, and depended on the pod
   order; the repaired map and the files written for both orders do not *)
Example c10_lse_overwritten_old_pool :
  pool_of_old w_pods_a 2 = Q_LSR /\ lse_owned w_pods_a 2 = true /\ pool_of w_pods_a 2 = Q_LSE.
Proof. vm_compute. repeat split; reflexivity. Qed.
Example c10_lse_order_dependent_old_pool :
  pool_of_old w_pods_a 2 <> pool_of_old w_pods_b 2 /\ pool_of w_pods_a 2 = pool_of w_pods_b 2
  /\ adjust w_overwritten = adjust w_ordered /\ snd (adjust w_overwritten) = [0; 1].
Proof. vm_compute. repeat split; discriminate || reflexivity. Qed.

Example c10_nv_rt : rt_ok w_rt = true /\ rt_exact w_rt = false
                    /\ rt_exact (mkB 8000 (Some 7000) anno_none 100 None 0 [] []) = true.
Proof. vm_compute. repeat split; reflexivity. Qed.

Example c10_nv_grows :
  grows (mkB 8000 (Some 8000) anno_none 65 None 200 [mkPod Q_LS false true true 64] [])
        (mkB 8000 (Some 8000) anno_none 65 None 264 [mkPod Q_LS false true true 128] [])
  /\ budget (mkB 8000 (Some 8000) anno_none 65 None 264 [mkPod Q_LS false true true 128] [])
     < budget (mkB 8000 (Some 8000) anno_none 65 None 200 [mkPod Q_LS false true true 64] []).
Proof.
  split.
  - unfold grows. cbn [b_cap b_alloc b_anno b_thr b_min b_pods b_hosts].
    split; [reflexivity|]. split; [vm_compute; discriminate|].
    repeat (split; [reflexivity|]). split; [|split; [constructor|vm_compute; discriminate]].
    constructor; [|constructor]. unfold pod_le. cbn. repeat split; discriminate.
  - vm_compute. reflexivity.
Qed.

Example c10_nv_pick : pick 3 w_procs = [0; 1; 2] /\ NoDup (map cpu w_procs).
Proof. split; [vm_compute; reflexivity | apply nodupb_spec; vm_compute; reflexivity]. Qed.

Example c10_nv_cases :
  wf_case [3; 3000; 0; 2; 0; 1; 4; 0;0;0;0; 1;0;0;0; 2;1;0;0; 3;1;0;0; 2; 2;2;2;3; 1;2;2;3; 0;0; 0;0] = true
  /\ wf_case [2; 3; 3; 0;0;0;0; 1;0;0;0; 2;1;0;0] = true
  /\ wf_case [1; 8000; 6999; 0; 0; 100; 0; 0; 0; 0; 0; 0; 0; 0] = true
  /\ wf_case [4; 20000; 80000; -1] = true
  /\ wf_case [6; 16000; 1; 16000; 3; 2; 0; 0; 0; 4; 0;1;2;3; 65; 0; 0; 224; 5; 0; 0; 1; 3;0;1;1;192; 0] = true.
Proof. vm_compute. repeat split; reflexivity. Qed.

(* seeded mutant C10-m7: 16-cpu node, kubelet reserves nothing, annotation reservedCPUs 0-3 with
   applyPolicy ReservedCPUsOnly, LS pod using 3 cores, node 3.5 cores, threshold 65 %: the budget is
   16000*65/100 - 3000 - max(500, 4000) = 3400 under every policy (the mutant gave 6900) *)
Example c10_nv_policy :
  run_case [6; 16000; 1; 16000; 3; 2; 0; 0; 0; 4; 0;1;2;3; 65; 0; 0; 224; 5; 0; 0; 1; 3;0;1;1;192; 0] = [3400; 3400]
  /\ prop_case [6; 16000; 1; 16000; 3; 2; 0; 0; 0; 4; 0;1;2;3; 65; 0; 0; 224; 5; 0; 0; 1; 3;0;1;1;192; 0] [6900; 3400] = 101.
Proof. vm_compute. split; reflexivity. Qed.

(* whole rounds: 4 cpus, reservedCPUs {3} (ReservedCPUsOnly), one LS pod; cpuset round, quota round,
   disabled round: the cpusets never hold cpu 3 *)
Definition w_rcfg : rcfg :=
  mkRC 4000 (Some 4000) (mkAnno 3 2 None true [3]) 65 None false [] w_procs
       [mkRpod Q_LS false true []] [].
Example c10_nv_rounds :
  rcfg_wf w_rcfg /\ rinv w_rcfg (mkRS [0;1;2;3] [0;1;2;3] [0;1;2;3] (-1) false)
  /\ rhist w_rcfg (mkRS [0;1;2;3] [0;1;2;3] [0;1;2;3] (-1) false)
        [RRound 0 false 64 [32] []; RRound 1 false 64 [32] []; RRound 2 false 0 [0] []]
     = [([0;1], [0;1], [0;1], -1); ([0;1;2], [0;1;2], [0;1;2], 110000); ([0;1;2], [0;1;2], [0;1;2], -1)].
Proof.
  split; [split; [apply nodupb_spec; vm_compute; reflexivity | vm_compute; reflexivity]|].
  split; [unfold rinv; cbn; repeat split; intros; try reflexivity; discriminate|].
  vm_compute. reflexivity.
Qed.

(* seeded mutant C10-m9: 4 cpus, an LSE pod owning cpus 2,3 exists in round 1 only; budget 4 cpus:
   round 1 hands out the two free cpus, round 2 (pod gone) all four *)
Example c10_nv_pod_gone :
  let c := mkRC 4000 (Some 4000) anno_none 100 None false [] w_procs
                [mkRpod Q_LSE false false [2; 3]; mkRpod Q_LS false false []] [] in
  rhist c (mkRS [0;1] [0;1] [0;1] (-1) false) [RRound 0 false 0 [0; 0] []; RRound 0 false 0 [-1; 0] []; RRound 0 false 0 [-1; 0] []]
  = [([0;1], [0;1], [0;1], -1); ([0;1;2], [0;1;2], [0;1;2], -1); ([0;1;2;3], [0;1;2;3], [0;1;2;3], -1)].
Proof. vm_compute. reflexivity. Qed.

(* the history of seeded mutant C10-m3: quota round, recovered, same quota round again *)
Example c10_nv_history :
  hist 80000 (-1, false) [QAdjust 20000; QRecover; QAdjust 20000; QReset (-1); QAdjust 20000]
  = [2000000; -1; 2000000; -1; 2000000].
Proof. vm_compute. reflexivity. Qed.

