(* C10 — extraction of the four entry points of Cases.v for the generic OCaml driver. *)
From Coq Require Import List ZArith Bool.
From Verif Require Import C10.Cases.

Require Extraction.
Require Import ExtrOcamlBasic.
Extraction "model.ml" run_case prop_case nontrivial_case finding_sig.
