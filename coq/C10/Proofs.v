(* C10 — proofs about the model (see Properties.v for the exported statements). *)
From Coq Require Import List ZArith Bool Lia.
From Verif Require Import Gen.Gen_consts C10.Model C10.Spec.
Import ListNotations.
Open Scope Z_scope.

Lemma quota_target_min b : beMinQuota <= quota_target b.
Proof. unfold quota_target. lia. Qed.
