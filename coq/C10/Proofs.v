(* C10 — the decision procedures of Spec.v decide the Props, the model satisfies them, and the
   witnesses for the sentences that are false without their hypothesis. *)
From Coq Require Import List ZArith Bool Lia.
From Verif Require Import Gen.Gen_consts C10.Model C10.Spec C10.Proofs_Pick C10.Proofs_Adjust C10.Proofs_Budget C10.Proofs_Float.
Import ListNotations.
Open Scope Z_scope.

(* ---------------------------------------------------------------- boolean reflection *)

Lemma nodupb_spec l : nodupb l = true <-> NoDup l.
Proof.
  induction l as [|x t IH]; cbn [nodupb].
  - split; [constructor | reflexivity].
  - rewrite andb_true_iff, negb_true_iff, memZ_nIn, IH. split.
    + intros [H1 H2]. constructor; assumption.
    + intros H. inversion H; subst. split; assumption.
Qed.

Lemma inclb_spec a b : inclb a b = true <-> incl a b.
Proof.
  unfold inclb, incl. rewrite forallb_forall. split; intros H x Hx.
  - apply memZ_In. apply H. exact Hx.
  - apply memZ_In. apply H. exact Hx.
Qed.

Lemma eq_listZ_spec a : forall b, eq_listZ a b = true <-> a = b.
Proof.
  induction a as [|x t IH]; intros [|y u]; cbn [eq_listZ]; try (split; [discriminate|discriminate]).
  - split; reflexivity.
  - rewrite andb_true_iff, Z.eqb_eq, IH. split.
    + intros [-> ->]. reflexivity.
    + intros H. inversion H. split; reflexivity.
Qed.
Lemma eq_listZ_refl a : eq_listZ a a = true.
Proof. apply eq_listZ_spec. reflexivity. Qed.

Lemma unprotected_existingb_spec i s :
  unprotected_existingb i s = true <-> unprotected_existing i s.
Proof.
  unfold unprotected_existingb, unprotected_existing. rewrite forallb_forall. split; intros H c Hc.
  - specialize (H c Hc). apply andb_true_iff in H. destruct H as [H1 H2].
    split; [apply memZ_In; exact H1 | apply negb_true_iff; exact H2].
  - destruct (H c Hc) as [H1 H2]. apply andb_true_iff. split; [apply memZ_In; exact H1|].
    apply negb_true_iff. exact H2.
Qed.

(* ---------------------------------------------------------------- pick *)

Lemma pick_code_spec n ps out : pick_code n ps out = 0 <-> pick_holds n ps out.
Proof.
  unfold pick_code, pick_holds. split.
  - intros H.
    destruct (nodupb out) eqn:E1; cbn [negb] in H; [|discriminate].
    destruct (inclb out (map cpu ps)) eqn:E2; cbn [negb] in H; [|discriminate].
    destruct (lenZ out <=? Z.max n 0) eqn:E3; cbn [negb] in H; [|discriminate].
    split; [apply nodupb_spec; exact E1|]. split; [apply inclb_spec; exact E2|].
    split; [apply Z.leb_le; exact E3|]. intros [Hn1 Hn2].
    apply Z.leb_le in Hn1. apply Z.leb_le in Hn2. rewrite Hn1, Hn2 in H. cbn [andb] in H.
    destruct (lenZ out =? n) eqn:E4; [apply Z.eqb_eq; exact E4 | discriminate].
  - intros [H1 [H2 [H3 H4]]].
    apply nodupb_spec in H1. apply inclb_spec in H2. apply Z.leb_le in H3.
    rewrite H1, H2, H3. cbn [negb].
    destruct ((0 <=? n) && (n <=? lenZ ps)) eqn:E; [|reflexivity].
    apply andb_true_iff in E. destruct E as [E1 E2]. apply Z.leb_le in E1. apply Z.leb_le in E2.
    rewrite (H4 (conj E1 E2)), Z.eqb_refl. reflexivity.
Qed.

Lemma pick_code_model n ps : NoDup (map cpu ps) -> pick_code n ps (pick n ps) = 0.
Proof. intros H. apply pick_code_spec. apply pick_holds_model. exact H. Qed.

(* ---------------------------------------------------------------- cpuset files *)

Lemma set_code_spec i s : set_code i s = 0 <-> set_ok i s.
Proof.
  unfold set_code, set_ok. split.
  - intros H.
    destruct (nodupb s) eqn:C1; cbn [negb] in H; [|discriminate].
    destruct (forallb (fun c => memZ c (map cpu (a_procs i))) s) eqn:C2; cbn [negb] in H; [|discriminate].
    destruct (forallb (fun c => negb (protected i c)) s) eqn:C3; cbn [negb] in H; [|discriminate].
    destruct (lenZ s <=? target i) eqn:C4; cbn [negb] in H; [|discriminate].
    split; [apply nodupb_spec; exact C1|]. split; [|apply Z.leb_le; exact C4].
    intros c Hc. rewrite forallb_forall in C2, C3.
    split; [apply memZ_In; exact (C2 c Hc) | apply negb_true_iff; exact (C3 c Hc)].
  - intros [H1 [H2 H3]].
    apply nodupb_spec in H1. rewrite H1. cbn [negb].
    assert (C2 : forallb (fun c => memZ c (map cpu (a_procs i))) s = true).
    { apply forallb_forall. intros c Hc. apply memZ_In. exact (proj1 (H2 c Hc)). }
    assert (C3 : forallb (fun c => negb (protected i c)) s = true).
    { apply forallb_forall. intros c Hc. apply negb_true_iff. exact (proj2 (H2 c Hc)). }
    apply Z.leb_le in H3. rewrite C2, C3, H3. reflexivity.
Qed.

Lemma adjust_code_spec i o : adjust_code i o = 0 <-> adjust_holds i o.
Proof.
  destruct o as [[root podd] ctr]. unfold adjust_code, adjust_holds.
  set (old := to_set (a_old i)). set (enough := target i <=? lenZ (free_cpus i)).
  pose proof (set_code_spec i ctr) as Hset.
  pose proof (eq_listZ_spec ctr old) as Hsame.
  pose proof (eq_listZ_spec podd root) as Hpr.
  pose proof (eq_listZ_spec root old) as Hro.
  pose proof (eq_listZ_spec root ctr) as Hrc.
  pose proof (unprotected_existingb_spec i root) as Hun.
  assert (Hen : enough = true <-> target i <= lenZ (free_cpus i)) by (unfold enough; apply Z.leb_le).
  split.
  - intros H.
    destruct ((enough || negb (eq_listZ ctr old)) && negb (set_code i ctr =? 0)) eqn:A.
    { exfalso. apply andb_true_iff in A. destruct A as [_ A]. apply negb_true_iff in A.
      apply Z.eqb_neq in A. exact (A H). }
    destruct (enough && negb (lenZ ctr =? target i)) eqn:B; [discriminate|].
    destruct (enough && (2 <=? dedup_len (a_old i) + ceil_div (lenZ (a_procs i)) 10) && negb (2 <=? lenZ ctr)) eqn:T;
      [discriminate|].
    destruct (eq_listZ podd root) eqn:C; cbn [negb] in H; [|discriminate].
    split.
    { destruct (eq_listZ ctr old) eqn:S; [left; apply Hsame; reflexivity|].
      right. apply Hset. rewrite orb_true_r in A. cbn [andb] in A.
      apply negb_false_iff in A. apply Z.eqb_eq. exact A. }
    split.
    { intros Hle. apply Hen in Hle. rewrite Hle in A, B. cbn [orb andb] in A, B.
      apply negb_false_iff in A. apply negb_false_iff in B.
      split; [apply Hset; apply Z.eqb_eq; exact A | apply Z.eqb_eq; exact B]. }
    split.
    { intros Hle H2'. apply Hen in Hle. apply Z.leb_le in H2'. rewrite Hle, H2' in T. cbn [andb] in T.
      apply negb_false_iff in T. apply Z.leb_le. exact T. }
    split; [apply Hpr; reflexivity|].
    destruct (a_static i).
    + destruct (eq_listZ root old || unprotected_existingb i root) eqn:D; [|discriminate].
      apply orb_true_iff in D. destruct D as [D|D]; [left; apply Hro; exact D | right; apply Hun; exact D].
    + destruct (eq_listZ root ctr) eqn:D; [apply Hrc; reflexivity | discriminate].
  - intros [H1 [H2 [H2t [H3 H4]]]].
    assert (A : (enough || negb (eq_listZ ctr old)) && negb (set_code i ctr =? 0) = false).
    { destruct enough eqn:E.
      - destruct (H2 (proj1 Hen eq_refl)) as [Hok _]. apply Hset in Hok. rewrite Hok. reflexivity.
      - destruct H1 as [H1|H1].
        + apply Hsame in H1. rewrite H1. reflexivity.
        + apply Hset in H1. rewrite H1. apply andb_false_r. }
    rewrite A.
    assert (B : enough && negb (lenZ ctr =? target i) = false).
    { destruct enough eqn:E; [|reflexivity].
      destruct (H2 (proj1 Hen eq_refl)) as [_ Hl]. rewrite Hl, Z.eqb_refl. reflexivity. }
    rewrite B.
    assert (T : enough && (2 <=? dedup_len (a_old i) + ceil_div (lenZ (a_procs i)) 10) && negb (2 <=? lenZ ctr) = false).
    { destruct enough eqn:E; [|reflexivity]. cbn [andb].
      destruct (2 <=? dedup_len (a_old i) + ceil_div (lenZ (a_procs i)) 10) eqn:E2; [|reflexivity]. cbn [andb].
      apply Z.leb_le in E2. specialize (H2t (proj1 Hen eq_refl) E2). apply Z.leb_le in H2t. rewrite H2t. reflexivity. }
    rewrite T. apply Hpr in H3. rewrite H3. cbn [negb].
    destruct (a_static i).
    + destruct H4 as [H4|H4]; [apply Hro in H4; rewrite H4; reflexivity|].
      apply Hun in H4. rewrite H4. rewrite orb_true_r. reflexivity.
    + apply Hrc in H4. rewrite H4. reflexivity.
Qed.

Lemma adjust_code_model i : adjust_wf i -> adjust_code i (adjust i) = 0.
Proof. intros H. apply adjust_code_spec. apply adjust_holds_model. exact H. Qed.

(* ---------------------------------------------------------------- quota *)

Lemma quota_code_spec b cap cur obs : quota_code b cap cur obs = 0 <-> quota_holds b cap cur obs.
Proof.
  unfold quota_code, quota_holds.
  set (q := quota_target b). set (w := cap_cores cap * DefaultCPUCFSPeriod).
  set (sb := (Z.abs (q - cur) * snd suppressBypassQuotaDeltaRatio <? w * fst suppressBypassQuotaDeltaRatio)
             && negb (q =? beMinQuota)).
  set (bb := (w * fst beMaxIncreaseCPUPercent <? (q - cur) * snd beMaxIncreaseCPUPercent)
             && negb (cur =? -1)).
  assert (Hs : sb = true <->
               (Z.abs (q - cur) * snd suppressBypassQuotaDeltaRatio < w * fst suppressBypassQuotaDeltaRatio
                /\ q <> beMinQuota)).
  { unfold sb. rewrite andb_true_iff, Z.ltb_lt, negb_true_iff, Z.eqb_neq. tauto. }
  assert (Hb : bb = true <->
               (w * fst beMaxIncreaseCPUPercent < (q - cur) * snd beMaxIncreaseCPUPercent /\ cur <> -1)).
  { unfold bb. rewrite andb_true_iff, Z.ltb_lt, negb_true_iff, Z.eqb_neq. tauto. }
  destruct sb eqn:Es.
  - assert (Hsm := proj1 Hs eq_refl). split.
    + intros H. destruct (obs =? cur) eqn:E; [|discriminate]. apply Z.eqb_eq in E.
      split; [intros _; exact E|]. split; intros Hn; exfalso; exact (Hn Hsm).
    + intros [H _]. rewrite (H Hsm), Z.eqb_refl. reflexivity.
  - assert (Hns : ~ (Z.abs (q - cur) * snd suppressBypassQuotaDeltaRatio < w * fst suppressBypassQuotaDeltaRatio
                     /\ q <> beMinQuota)).
    { intros H. apply Hs in H. discriminate. }
    destruct bb eqn:Eb.
    + assert (Hbg := proj1 Hb eq_refl). split.
      * intros H.
        destruct (obs =? cur + Z.quot (w * fst beMaxIncreaseCPUPercent) (snd beMaxIncreaseCPUPercent)) eqn:E;
          [|discriminate]. apply Z.eqb_eq in E.
        split; [intros H'; exfalso; exact (Hns H')|]. split; [intros _ _; exact E|].
        intros _ Hn. exfalso. exact (Hn Hbg).
      * intros [_ [H _]]. rewrite (H Hns Hbg), Z.eqb_refl. reflexivity.
    + assert (Hnb : ~ (w * fst beMaxIncreaseCPUPercent < (q - cur) * snd beMaxIncreaseCPUPercent /\ cur <> -1)).
      { intros H. apply Hb in H. discriminate. }
      split.
      * intros H. destruct (obs =? q) eqn:E; [|discriminate]. apply Z.eqb_eq in E.
        split; [intros H'; exfalso; exact (Hns H')|]. split; [intros _ H'; exfalso; exact (Hnb H')|].
        intros _ _. exact E.
      * intros [_ [_ H]]. rewrite (H Hns Hnb), Z.eqb_refl. reflexivity.
Qed.

Lemma quota_code_model b cap cur : quota_code b cap cur (quota_new b cap cur) = 0.
Proof. apply quota_code_spec. apply quota_holds_model. Qed.

(* ---------------------------------------------------------------- quota mode over a history *)

Lemma qstep_code_spec cap prev op o : qstep_code cap prev op o = 0 <-> qstep_ok cap prev op o.
Proof.
  destruct op as [b| |v|]; cbn [qstep_code qstep_ok].
  - rewrite <- quota_code_spec. destruct (quota_code b cap prev o =? 0) eqn:E.
    + apply Z.eqb_eq in E. rewrite E. split; reflexivity.
    + apply Z.eqb_neq in E. split; [|intros H; contradiction].
      intros H. exfalso.
      assert (Hc : 0 <= quota_code b cap prev o).
      { unfold quota_code.
        repeat match goal with |- context [if ?c then _ else _] => destruct c end; lia. }
      lia.
  - destruct ((o =? prev) || (o =? -1)) eqn:E.
    + split; [intros _|reflexivity]. apply orb_true_iff in E.
      destruct E as [E|E]; apply Z.eqb_eq in E; [left|right]; exact E.
    + split; [discriminate|]. intros [H|H]; subst o; rewrite Z.eqb_refl in E;
        [discriminate | rewrite orb_true_r in E; discriminate].
  - destruct (o =? v) eqn:E; [apply Z.eqb_eq in E|apply Z.eqb_neq in E];
      split; try reflexivity; try discriminate; auto; intros H; contradiction.
  - destruct (o =? prev) eqn:E; [apply Z.eqb_eq in E|apply Z.eqb_neq in E];
      split; try reflexivity; try discriminate; auto; intros H; contradiction.
Qed.

Lemma hist_code_spec cap : forall ops prev obs, hist_code cap prev ops obs = 0 <-> hist_holds cap prev ops obs.
Proof.
  induction ops as [|op t IH]; intros prev obs; destruct obs as [|o u]; cbn [hist_code hist_holds];
    try (split; [discriminate | intros H; destruct H]); try (split; reflexivity || auto; fail).
  pose proof (qstep_code_spec cap prev op o) as Hs.
  destruct (qstep_code cap prev op o =? 0) eqn:E.
  - apply Z.eqb_eq in E. rewrite IH. split.
    + intros H. split; [apply Hs; exact E | exact H].
    + intros [_ H]. exact H.
  - apply Z.eqb_neq in E. split.
    + intros H. exfalso. exact (E H).
    + intros [H _]. exfalso. apply E. apply Hs. exact H.
Qed.

(* after EVERY quota round of ANY history (recoveries, external resets and cpuset rounds in
   between, any starting contents, any status) the file holds the formula value *)
Lemma hist_holds_model cap : forall ops st, hist_holds cap (fst st) ops (hist cap st ops).
Proof.
  induction ops as [|op t IH]; intros [cur rec]; cbn [hist hist_holds]; [exact I|].
  split; [|apply IH].
  destruct op as [b| |v|]; cbn [qstep qstep_ok fst].
  - apply quota_holds_model.
  - destruct rec; cbn [fst]; [left|right]; reflexivity.
  - reflexivity.
  - reflexivity.
Qed.

Lemma hist_code_model cap init rec ops : hist_code cap init ops (hist cap (init, rec) ops) = 0.
Proof. apply hist_code_spec. apply (hist_holds_model cap ops (init, rec)). Qed.

(* ---------------------------------------------------------------- budget *)

Lemma budget_holdsb_spec i b : budget_holdsb i b = true <-> budget_holds i b.
Proof.
  unfold budget_holdsb, budget_holds.
  rewrite orb_true_iff, andb_true_iff, negb_true_iff, !Z.eqb_eq. tauto.
Qed.

Lemma node_reserved_perturb k idx d i : k <> 6 -> node_reserved (perturb k idx d i) = node_reserved i.
Proof.
  intros Hk. unfold perturb. destruct (k =? 1); [reflexivity|]. destruct (k =? 2); [reflexivity|].
  destruct (k =? 3); [reflexivity|]. destruct (k =? 4); [reflexivity|]. destruct (k =? 5); [reflexivity|].
  destruct (k =? 6) eqn:E; [apply Z.eqb_eq in E; contradiction|reflexivity].
Qed.
Lemma rt_ok_perturb k idx d i : k <> 6 -> rt_ok (perturb k idx d i) = rt_ok i.
Proof. intros Hk. unfold rt_ok. rewrite !reservation_spec_eq. rewrite node_reserved_perturb by exact Hk. reflexivity. Qed.

(* the decision procedure run on the model's own observable, for every perturbation kind *)
Lemma budget_code_model k idx d i : rt_ok i = true -> rt_ok (perturb k idx d i) = true ->
  Forall (fun p => 0 <= p_use p) (b_pods i) ->
  budget_code k idx d i [budget i; budget (perturb k idx d i)] = 0.
Proof.
  intros Hok Hok' Hnn. unfold budget_code.
  assert (H1 : budget_holdsb i (budget i) = true)
    by (apply budget_holdsb_spec; apply budget_formula; exact Hok).
  assert (H2 : budget_holdsb (perturb k idx d i) (budget (perturb k idx d i)) = true).
  { apply budget_holdsb_spec. apply budget_formula. exact Hok'. }
  rewrite H1, H2. cbn [negb].
  destruct ((1 <=? k) && (k <=? 3) && (0 <=? d)) eqn:E.
  - cbn [andb].
    apply andb_true_iff in E. destruct E as [E E3]. apply andb_true_iff in E. destruct E as [E1 E2].
    apply Z.leb_le in E1. apply Z.leb_le in E2. apply Z.leb_le in E3.
    assert (Hle : budget (perturb k idx d i) <= budget i).
    { apply budget_antitone; [exact Hok|exact Hok'|apply perturb_grows; lia]. }
    apply Z.leb_le in Hle. rewrite Hle. cbn [negb].
    assert (E4 : (k =? 4) = false) by (apply Z.eqb_neq; lia). rewrite E4.
    assert (E5 : (k =? 5) = false) by (apply Z.eqb_neq; lia). rewrite E5.
    assert (E6 : (k =? 6) = false) by (apply Z.eqb_neq; lia). rewrite E6. reflexivity.
  - cbn [andb].
    destruct (k =? 4) eqn:E4.
    + apply Z.eqb_eq in E4. subst k. cbn [andb Z.eqb Pos.eqb].
      destruct (0 <=? d) eqn:Ed; [|reflexivity]. apply Z.leb_le in Ed. cbn [andb].
      destruct (nth_error (b_pods i) (Z.to_nat idx)) as [p|] eqn:En.
      * destruct (pod_nonbe p) eqn:Enb; [|reflexivity]. cbn [andb].
        assert (Hle : budget (perturb 4 idx d i) <= budget i + 1).
        { apply budget_slack; try assumption. rewrite En. exact Enb. }
        apply Z.leb_le in Hle. rewrite Hle. reflexivity.
      * cbn [andb].
        assert (Hle : budget (perturb 4 idx d i) <= budget i + 1).
        { apply budget_slack; try assumption. rewrite En. exact I. }
        apply Z.leb_le in Hle. rewrite Hle. reflexivity.
    + cbn [andb]. destruct (k =? 5) eqn:E5.
      * apply Z.eqb_eq in E5. subst k. rewrite budget_policy_irrelevant. rewrite Z.eqb_refl. reflexivity.
      * cbn [andb]. destruct (k =? 6) eqn:E6; [|reflexivity]. apply Z.eqb_eq in E6. subst k.
        destruct (0 <=? d) eqn:Ed; [|reflexivity]. apply Z.leb_le in Ed. cbn [andb].
        assert (Hle : budget (perturb 6 idx d i) <= budget i).
        { apply budget_antitone; [exact Hok|exact Hok'|apply perturb6_grows; exact Ed]. }
        apply Z.leb_le in Hle. rewrite Hle. reflexivity.
Qed.

(* ---------------------------------------------------------------- the same without the float hypothesis *)

Lemma budget_formula_any i : node_reserved i < 2 ^ 50 -> budget_holds i (budget i).
Proof. intros H. apply budget_formula. apply rt_ok_holds. exact H. Qed.

Lemma sys_at_least_reserved_any i : node_reserved i < 2 ^ 50 -> node_reserved i - 1 <= sys_milli i.
Proof. intros H. apply sys_at_least_reserved. apply rt_ok_holds. exact H. Qed.

Lemma budget_antitone_any i i' : node_reserved i' < 2 ^ 50 -> grows i i' -> budget i' <= budget i.
Proof.
  intros H Hg. apply budget_antitone; [|apply rt_ok_holds; exact H|exact Hg].
  apply rt_ok_holds. destruct Hg as [_ [Hr _]]. rewrite !reservation_spec_eq in Hr. lia.
Qed.

Lemma budget_slack_any idx d i : node_reserved i < 2 ^ 50 -> 0 <= d ->
  Forall (fun p => 0 <= p_use p) (b_pods i) ->
  match nth_error (b_pods i) (Z.to_nat idx) with Some p => pod_nonbe p = true | None => True end ->
  budget (perturb 4 idx d i) <= budget i + 1.
Proof. intros H. apply budget_slack. apply rt_ok_holds. exact H. Qed.

Lemma budget_code_model_any k idx d i : node_reserved i < 2 ^ 50 ->
  node_reserved (perturb k idx d i) < 2 ^ 50 ->
  Forall (fun p => 0 <= p_use p) (b_pods i) ->
  budget_code k idx d i [budget i; budget (perturb k idx d i)] = 0.
Proof. intros H H'. apply budget_code_model; apply rt_ok_holds; assumption. Qed.

(* ---------------------------------------------------------------- witnesses *)

(* Regression for the repaired finding (fix 62333f7): with the OLD last-writer-wins map an LSE pod
   {2,3} followed by an LSR pod {2,3} left cpu 2 classified LSR (and so eligible for BE), and the
   answer depended on the pod order; the repaired map says LSE for both orders. *)
Definition w_procs : list proc :=
  [mkProc 0 0 0 0; mkProc 1 0 0 0; mkProc 2 1 0 0; mkProc 3 1 0 0].
Definition w_pods_a : list cpod := [mkCpod Q_LSE [2; 3]; mkCpod Q_LSR [2; 3]].
Definition w_pods_b : list cpod := [mkCpod Q_LSR [2; 3]; mkCpod Q_LSE [2; 3]].
Definition w_overwritten : ainput := mkA 3000 false [0; 1] w_procs w_pods_a [] [].
Definition w_ordered : ainput := mkA 3000 false [0; 1] w_procs w_pods_b [] [].

(* "at least two" without the hypothesis on the current cpuset: an empty besteffort cpuset on a
   node of at most ten cpus grows by one cpu only *)
Lemma count_lower_refuted : exists b o np, 0 <= o /\ 0 <= np /\ target_count b o np < 2.
Proof. exists 4000, 0, 4. vm_compute. repeat split; discriminate || reflexivity. Qed.

(* the exact formula without the hypothesis on the float64 round trip: a reservation of
   1001 milli-CPU counts as 1000 *)
Definition w_rt : binput := mkB 8000 (Some 6999) anno_none 100 None 0 [] [].
Lemma budget_exact_refuted : exists i, budget i = budget_spec i + 1.
Proof. exists w_rt. vm_compute. reflexivity. Qed.
