(* C10 — whole suppression rounds, the way production runs them: CPUSuppress.suppressBECPU on ONE
   plugin instance over a history of rounds.  A round reads the node, the pods and the NodeSLO from
   the states informer and the usage metrics from the metric cache, computes the budget
   (calculateBESuppressCPU), and hands it to adjustByCPUSet or adjustByCfsQuota according to the
   NodeSLO's CPUSuppressPolicy; the policy that is NOT in use is recovered (recoverCFSQuotaIfNeed /
   recoverCPUSetIfNeed), and a NodeSLO that disables the feature recovers both.

   Model (executable, no proofs) and specification of the history; theorems in Proofs_Round.v. *)
From Coq Require Import List ZArith Bool.
From Verif Require Import Gen.Gen_consts C10.Model C10.Spec.
Import ListNotations.
Open Scope Z_scope.

(* ================================================================ model *)

(* what stays the same over a history: the node object, the NodeSLO thresholds, the cpu topology,
   the pods with their QoS and cpuset annotations, the host applications *)
Record rpod := mkRpod {
  rp_lab : Z; rp_kubebe : bool; rp_hasmetric : bool; rp_cpus : list Z }.
Record rhost := mkRhost { rh_qos : Z; rh_base : Z; rh_hasmetric : bool }.

Record rcfg := mkRC {
  rc_cap : Z;
  rc_alloc : option Z;
  rc_anno : nodeanno;          (* the reservation annotation: on the node (amount) and on the topology (cpus) *)
  rc_thr : Z;
  rc_min : option Z;
  rc_static : bool;
  rc_sysexcl : list Z;
  rc_procs : list proc;
  rc_pods : list rpod;
  rc_hosts : list rhost }.

(* the files and the one bit of plugin state they depend on *)
Record rstate := mkRS {
  rs_root : list Z;            (* cpuset.cpus of the besteffort dir *)
  rs_pod : list Z;             (* ... of a pod dir *)
  rs_ctr : list Z;             (* ... of a container dir *)
  rs_quota : Z;                (* cpu.cfs_quota_us of the besteffort dir *)
  rs_qrec : bool }.            (* suppressPolicyStatuses[cfsQuota] = recovered *)

Inductive rop : Type :=
| RRound (mode : Z)            (* 0 cpuset policy, 1 cfsQuota policy, 2 the NodeSLO disables the feature *)
         (fail : bool)         (* the metric cache cannot be queried this round *)
         (nodeu : Z)           (* node usage, 1/64 cores *)
         (pu : list Z)         (* usage of each pod *)
         (hu : list Z)         (* usage of each host application *)
| RReset (v : Z).              (* somebody else rewrites cpu.cfs_quota_us *)

Fixpoint zip_pods (ps : list rpod) (us : list Z) : list pod :=
  match ps with
  | [] => []
  | p :: t => mkPod (rp_lab p) (rp_kubebe p) true (rp_hasmetric p) (hd 0 us) :: zip_pods t (tl us)
  end.
Fixpoint zip_hosts (hs : list rhost) (us : list Z) : list happ :=
  match hs with
  | [] => []
  | h :: t => mkHapp (rh_qos h) (rh_base h) (rh_hasmetric h) (hd 0 us) :: zip_hosts t (tl us)
  end.

(* the input calculateBESuppressCPU sees in a round *)
Definition round_binput (c : rcfg) (nodeu : Z) (pu hu : list Z) : binput :=
  mkB (rc_cap c) (rc_alloc c) (rc_anno c) (rc_thr c) (rc_min c) nodeu
      (zip_pods (rc_pods c) pu) (zip_hosts (rc_hosts c) hu).

(* apiext.GetReservedCPUs + cpuset.Parse on the topology's copy of the annotation *)
Definition reserved_cpus (a : nodeanno) : list Z :=
  if (an_state a =? 3) && an_cpus_ok a then an_cpus a else [].

(* the input adjustByCPUSet / calcBECPUSet see *)
Definition round_ainput (c : rcfg) (b : Z) (root : list Z) : ainput :=
  mkA b (rc_static c) root (rc_procs c)
      (map (fun p => mkCpod (rp_lab p) (rp_cpus p)) (rc_pods c))
      (reserved_cpus (rc_anno c)) (rc_sysexcl c).

(* adjustByCPUSet on files that need not hold the same set *)
Definition adjust3 (i : ainput) (st : list Z * list Z * list Z) : list Z * list Z * list Z :=
  let '(root, podd, ctr) := st in
  match be_cpuset i with
  | None => st
  | Some be =>
      if a_static i then
        let up := to_set (recover_set i) in
        (up, up, match be with [] => ctr | _ => to_set be end)
      else match be with [] => st | _ => (to_set be, to_set be, to_set be) end
  end.

Definition recover_quota (st : rstate) : rstate :=
  if rs_qrec st then st else mkRS (rs_root st) (rs_pod st) (rs_ctr st) (-1) true.
Definition recover_cpusets (c : rcfg) (st : rstate) : rstate :=
  let up := to_set (recover_set (round_ainput c 0 (rs_root st))) in
  mkRS up up up (rs_quota st) (rs_qrec st).

(* the pod set may change between rounds: a negative usage stands for "this pod does not exist in
   this round" (deleted, not yet created): it is not in the informer's pod list, so it contributes
   neither usage nor a cpuset annotation *)
Fixpoint present_pods (ps : list rpod) (us : list Z) : list rpod :=
  match ps with
  | [] => []
  | p :: t => if hd 0 us <? 0 then present_pods t (tl us) else p :: present_pods t (tl us)
  end.
Fixpoint present_uses (ps : list rpod) (us : list Z) : list Z :=
  match ps with
  | [] => []
  | p :: t => if hd 0 us <? 0 then present_uses t (tl us) else hd 0 us :: present_uses t (tl us)
  end.
Definition round_cfg (c : rcfg) (pu : list Z) : rcfg :=
  mkRC (rc_cap c) (rc_alloc c) (rc_anno c) (rc_thr c) (rc_min c) (rc_static c) (rc_sysexcl c)
       (rc_procs c) (present_pods (rc_pods c) pu) (rc_hosts c).

(* one round over the pod set [rc_pods c] *)
Definition rround (c : rcfg) (st : rstate) (mode : Z) (fail : bool) (nodeu : Z) (pu hu : list Z) : rstate :=
  if mode =? 2 then recover_cpusets c (recover_quota st)
  else if match rc_pods c with [] => true | _ => fail end then st    (* nothing to go by: nothing is touched *)
  else
    let b := budget (round_binput c nodeu pu hu) in
    if mode =? 1 then
      recover_cpusets c (mkRS (rs_root st) (rs_pod st) (rs_ctr st)
                              (quota_new b (rc_cap c) (rs_quota st)) false)
    else
      let '(r, p, k) := adjust3 (round_ainput c b (rs_root st)) (rs_root st, rs_pod st, rs_ctr st) in
      recover_quota (mkRS r p k (rs_quota st) (rs_qrec st)).

(* the plugin keeps nothing about pods between rounds: every round sees only the pods of that round *)
Definition rstep (c : rcfg) (st : rstate) (op : rop) : rstate :=
  match op with
  | RReset v => mkRS (rs_root st) (rs_pod st) (rs_ctr st) v (rs_qrec st)
  | RRound mode fail nodeu pu hu =>
      rround (round_cfg c pu) st mode fail nodeu (present_uses (rc_pods c) pu) hu
  end.

Definition robs := (list Z * list Z * list Z * Z)%type.
Definition obs_of (st : rstate) : robs := (rs_root st, rs_pod st, rs_ctr st, rs_quota st).

(* the files after every step *)
Fixpoint rhist (c : rcfg) (st : rstate) (ops : list rop) : list robs :=
  match ops with
  | [] => []
  | op :: t => let st' := rstep c st op in obs_of st' :: rhist c st' t
  end.

(* ================================================================ specification *)

(* a cpuset that may be in force for BE: distinct, existing, unprotected cpus *)
Definition clean_set (i : ainput) (s : list Z) : Prop := NoDup s /\ unprotected_existing i s.
Definition clean_setb (i : ainput) (s : list Z) : bool := nodupb s && unprotected_existingb i s.

(* the two values the budget may take (Spec.budget_holds) *)
Definition budget_candidates (bi : binput) : list Z :=
  budget_spec bi :: (if rt_exact bi then [] else [budget_spec_with (reservation_spec bi - 1) bi]).

(* cpuset-policy round, given the budget [b]: [prev] are the files before the round.
   The container level holds what BE may run on. *)
Definition cpuset_round_holds (c : rcfg) (b : Z) (prev o : robs) : Prop :=
  let '(root0, pod0, ctr0, q0) := prev in
  let '(root, podd, ctr, q) := o in
  let i := round_ainput c b root0 in
  (ctr = ctr0 \/ set_ok i ctr) /\
  (target i <= lenZ (free_cpus i) -> set_ok i ctr /\ lenZ ctr = target i) /\
  (target i <= lenZ (free_cpus i) -> 2 <= dedup_len root0 + ceil_div (lenZ (rc_procs c)) 10 -> 2 <= lenZ ctr) /\
  podd = root /\
  (if rc_static c then root = root0 \/ clean_set i root else root = ctr) /\
  (q = q0 \/ q = -1).
Definition cpuset_round_code (c : rcfg) (b : Z) (prev o : robs) : Z :=
  let '(root0, pod0, ctr0, q0) := prev in
  let '(root, podd, ctr, q) := o in
  let i := round_ainput c b root0 in
  let enough := target i <=? lenZ (free_cpus i) in
  let sc := set_code i ctr in
  if (enough || negb (eq_listZ ctr ctr0)) && negb (sc =? 0) then 400 + sc     (* 701..704 *)
  else if enough && negb (lenZ ctr =? target i) then 705
  else if enough && (2 <=? dedup_len root0 + ceil_div (lenZ (rc_procs c)) 10) && negb (2 <=? lenZ ctr) then 710
  else if negb (eq_listZ podd root) then 707
  else if (if rc_static c then negb (eq_listZ root root0 || clean_setb i root) else negb (eq_listZ root ctr)) then 706
  else if negb ((q =? q0) || (q =? -1)) then 708
  else 0.

(* cfsQuota-policy round, given the budget [b] *)
Definition quota_round_holds (c : rcfg) (b : Z) (prev o : robs) : Prop :=
  let '(root0, pod0, ctr0, q0) := prev in
  let '(root, podd, ctr, q) := o in
  let i := round_ainput c b root0 in
  quota_holds b (rc_cap c) q0 q /\ podd = root /\ ctr = root /\ clean_set i root.
Definition quota_round_code (c : rcfg) (b : Z) (prev o : robs) : Z :=
  let '(root0, pod0, ctr0, q0) := prev in
  let '(root, podd, ctr, q) := o in
  let i := round_ainput c b root0 in
  let qc := quota_code b (rc_cap c) q0 q in
  if negb (qc =? 0) then 320 + qc                                              (* 721..723 *)
  else if negb (eq_listZ podd root && eq_listZ ctr root) then 727
  else if negb (clean_setb i root) then 726
  else 0.

Definition eq_obs_cpusets (a b : robs) : bool :=
  let '(r1, p1, k1, _) := a in let '(r2, p2, k2, _) := b in
  eq_listZ r1 r2 && eq_listZ p1 p2 && eq_listZ k1 k2.

(* one round over the pod set [rc_pods c]: [prev] the files before, [o] after *)
Definition rround_ok (c : rcfg) (prev : robs) (mode : Z) (fail : bool) (nodeu : Z) (pu hu : list Z) (o : robs) : Prop :=
  if mode =? 2 then
    (* disabled: whatever is written is clean, the quota is released or untouched *)
    let '(root, podd, ctr, q) := o in
    podd = root /\ ctr = root /\ clean_set (round_ainput c 0 []) root /\ (q = snd prev \/ q = -1)
  else if match rc_pods c with [] => true | _ => fail end then o = prev
  else
    let bi := round_binput c nodeu pu hu in
    exists b, budget_holds bi b /\
      (if mode =? 1 then quota_round_holds c b prev o else cpuset_round_holds c b prev o).

(* one step; protection, eligibility and the budget are judged against the pods that exist in THAT
   round only *)
Definition rstep_ok (c : rcfg) (prev : robs) (op : rop) (o : robs) : Prop :=
  match op with
  | RReset v => o = (fst prev, v)
  | RRound mode fail nodeu pu hu =>
      rround_ok (round_cfg c pu) prev mode fail nodeu (present_uses (rc_pods c) pu) hu o
  end.

Definition first_ok (f : Z -> Z) (l : list Z) : Z :=
  match l with
  | [] => 799
  | b :: t => if existsb (fun x => f x =? 0) l then 0 else f b
  end.

Definition rround_code (c : rcfg) (prev : robs) (mode : Z) (fail : bool) (nodeu : Z) (pu hu : list Z) (o : robs) : Z :=
  let '(root, podd, ctr, q) := o in
  if mode =? 2 then
    if negb (eq_listZ podd root && eq_listZ ctr root) then 741
    else if negb (clean_setb (round_ainput c 0 []) root) then 742
    else if negb ((q =? snd prev) || (q =? -1)) then 743
    else 0
  else if match rc_pods c with [] => true | _ => fail end then
    (if eq_obs_cpusets o prev && (q =? snd prev) then 0 else 751)
  else
    let bi := round_binput c nodeu pu hu in
    first_ok (fun b => if mode =? 1 then quota_round_code c b prev o else cpuset_round_code c b prev o)
             (budget_candidates bi).

Definition rstep_code (c : rcfg) (prev : robs) (op : rop) (o : robs) : Z :=
  match op with
  | RReset v =>
      let '(root, podd, ctr, q) := o in
      if negb (eq_obs_cpusets o prev) then 731 else if q =? v then 0 else 732
  | RRound mode fail nodeu pu hu =>
      rround_code (round_cfg c pu) prev mode fail nodeu (present_uses (rc_pods c) pu) hu o
  end.

Fixpoint rhist_holds (c : rcfg) (prev : robs) (ops : list rop) (obs : list robs) : Prop :=
  match ops, obs with
  | [], [] => True
  | op :: t, o :: u => rstep_ok c prev op o /\ rhist_holds c o t u
  | _, _ => False
  end.
Fixpoint rhist_code (c : rcfg) (prev : robs) (ops : list rop) (obs : list robs) : Z :=
  match ops, obs with
  | [], [] => 0
  | op :: t, o :: u => let k := rstep_code c prev op o in if k =? 0 then rhist_code c o t u else k
  | _, _ => 759
  end.

(* invariant of the files the model maintains (and the harness starts from): the pod level follows
   the besteffort level; under the none policy all three levels hold the same set; an empty
   besteffort level means an empty container level *)
Definition rinv (c : rcfg) (st : rstate) : Prop :=
  rs_pod st = rs_root st /\ (rc_static c = false -> rs_ctr st = rs_root st) /\
  (rs_root st = [] -> rs_ctr st = []).
Definition rinvb (c : rcfg) (st : rstate) : bool :=
  eq_listZ (rs_pod st) (rs_root st) && (rc_static c || eq_listZ (rs_ctr st) (rs_root st))
  && (negb (lenZ (rs_root st) =? 0) || (lenZ (rs_ctr st) =? 0)).

Definition rcfg_wf (c : rcfg) : Prop :=
  NoDup (map cpu (rc_procs c)) /\
  node_reserved (mkB (rc_cap c) (rc_alloc c) (rc_anno c) (rc_thr c) (rc_min c) 0 [] []) < 2 ^ 50.
Definition rcfg_wfb (c : rcfg) : bool :=
  nodupb (map cpu (rc_procs c))
  && (node_reserved (mkB (rc_cap c) (rc_alloc c) (rc_anno c) (rc_thr c) (rc_min c) 0 [] []) <? 2 ^ 50).
