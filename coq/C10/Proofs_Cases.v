(* C10 — the main theorem over exactly what is extracted and compared with the code: on every
   well-formed wire input the property's decision procedure accepts the model's observable. *)
From Coq Require Import List ZArith Bool Lia.
From Verif Require Import Lib.Wire Gen.Gen_consts C10.Model C10.Spec C10.Cases
  C10.Proofs_Pick C10.Proofs_Adjust C10.Proofs_Budget C10.Proofs_Float C10.Proofs C10.Round C10.Proofs_Round.
Import ListNotations.
Open Scope Z_scope.

Lemma firstn_length_app {A} (l r : list A) : firstn (length l) (l ++ r) = l.
Proof. induction l as [|x t IH]; cbn; [destruct r; reflexivity | rewrite IH; reflexivity]. Qed.
Lemma skipn_length_app {A} (l r : list A) : skipn (length l) (l ++ r) = r.
Proof. induction l as [|x t IH]; cbn; [reflexivity | exact IH]. Qed.

Lemma take_list_encode l r : take_list (encode_list l ++ r) = (l, r).
Proof.
  unfold take_list, encode_list, take_n. cbn [app]. rewrite Nat2Z.id.
  rewrite firstn_length_app, skipn_length_app. reflexivity.
Qed.
Lemma hdZ_encode l r : hdZ (encode_list l ++ r) = lenZ l.
Proof. reflexivity. Qed.

Lemma take_list_encode_nil l : take_list (encode_list l) = (l, []).
Proof. rewrite <- (app_nil_r (encode_list l)). apply take_list_encode. Qed.

Lemma dec_obs3_encode a b c :
  dec_obs3 (encode_list a ++ encode_list b ++ encode_list c) = Some (a, b, c).
Proof.
  unfold dec_obs3. rewrite take_list_encode. rewrite take_list_encode. rewrite take_list_encode_nil.
  rewrite !hdZ_encode.
  assert (H : hdZ (encode_list c) = lenZ c) by reflexivity. rewrite H.
  rewrite !Z.eqb_refl. reflexivity.
Qed.

Lemma budget_case_sound i pert : wf_budget i pert = true ->
  let '(pk, pi, pd) := pert in budget_code pk pi pd i [budget i; budget (perturb pk pi pd i)] = 0.
Proof.
  destruct pert as [[pk pi] pd]. unfold wf_budget. intros Hwf.
  apply andb_true_iff in Hwf. destruct Hwf as [H1 H2].
  apply andb_true_iff in H1. destruct H1 as [H1 H1']. apply Z.ltb_lt in H1. apply Z.ltb_lt in H1'.
  apply budget_code_model_any; [exact H1|exact H1'|].
  apply Forall_forall. intros p Hp. rewrite forallb_forall in H2. apply Z.leb_le. exact (H2 p Hp).
Qed.

Lemma dec_robs_enc l : dec_robs (length l) (flat_map enc_robs l) = Some l.
Proof.
  induction l as [|o t IH]; [reflexivity|].
  destruct o as [[[a b] c] q]. cbn [length flat_map enc_robs dec_robs].
  rewrite <- !app_assoc. rewrite take_list_encode. rewrite take_list_encode. rewrite take_list_encode.
  cbn [app]. rewrite !hdZ_encode. rewrite !Z.eqb_refl. cbn [andb]. rewrite IH. reflexivity.
Qed.
Lemma rhist_length c : forall ops st, length (rhist c st ops) = length ops.
Proof. induction ops as [|op t IH]; intros st; cbn [rhist length]; [reflexivity | rewrite IH; reflexivity]. Qed.

Lemma rinvb_uniform c s q : rinvb c (mkRS s s s q false) = true.
Proof.
  unfold rinvb. cbn [rs_root rs_pod rs_ctr]. rewrite eq_listZ_refl. rewrite orb_true_r. cbn [andb].
  destruct (lenZ s =? 0); reflexivity.
Qed.

Lemma dec_rounds_inv l : let '(c, st, _) := dec_rounds l in rinvb c st = true.
Proof.
  unfold dec_rounds. destruct (dec_rounds_raw l) as [[c [old q0]] ops]. apply rinvb_uniform.
Qed.

Theorem cases_sound inp : wf_case inp = true -> prop_case inp (run_case inp) = 0.
Proof.
  unfold wf_case, prop_case, run_case.
  destruct inp as [|k l]; [discriminate|].
  destruct k as [|p|p]; try discriminate.
  destruct p as [p|p|].
  - (* odd, at least 3 *)
    destruct p as [p|p|].
    { (* 7: whole rounds *)
      destruct p as [p|p|]; try discriminate.
      pose proof (dec_rounds_inv l) as Hinv.
      destruct (dec_rounds l) as [[c st] ops].
      intros Hwf. rewrite <- (rhist_length c ops st). rewrite dec_robs_enc.
      apply rhist_code_model; [exact Hwf | exact Hinv]. }
    { (* 5: quota history *)
      destruct p as [p|p|]; try discriminate.
      intros _. destruct (dec_hist l) as [[cap init] ops]. apply hist_code_model. }
    (* 3: cpuset *)
    intros Hwf.
    destruct (adjust (dec_adjust l)) as [[a b] c] eqn:Ea.
    rewrite dec_obs3_encode. rewrite <- Ea. apply adjust_code_model.
    apply nodupb_spec. exact Hwf.
  - (* even *)
    destruct p as [p|p|].
    + destruct p as [p|p|]; try discriminate.
      (* 6: budget over a structured node *)
      destruct (dec_budget6 l) as [i [[pk pi] pd]]. intros Hwf.
      exact (budget_case_sound i (pk, pi, pd) Hwf).
    + destruct p as [p|p|]; try discriminate.
      (* 4: quota *)
      intros _. apply quota_code_model.
    + (* 2: pick *)
      destruct (dec_pick l) as [n ps]. intros Hwf.
      rewrite take_list_encode_nil.
      assert (H : hdZ (encode_list (pick n ps)) = lenZ (pick n ps)) by reflexivity. rewrite H.
      rewrite Z.eqb_refl. apply pick_code_model. apply nodupb_spec. exact Hwf.
  - (* 1: budget *)
    destruct (dec_budget l) as [i [[pk pi] pd]]. intros Hwf.
    exact (budget_case_sound i (pk, pi, pd) Hwf).
Qed.
