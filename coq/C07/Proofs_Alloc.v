(* C07 — the allocators on the view: defaultAllocateDevices and allocateByDeviceTopology are
   sound (distinct devices, exactly the desired count, each satisfying the request) and
   complete (they fail only when fewer satisfying devices exist). *)
From Coq Require Import List ZArith Bool Arith Lia Permutation Sorted.
From Verif Require Import C07.Model C07.Spec C07.Proofs_Res C07.Proofs_Ledger C07.Proofs_View.
Import ListNotations.
Open Scope Z_scope.

Definition cminor (c : cand) : nat := fst (fst c).
Definition cfree (c : cand) : res := snd (fst c).

(* ------------------------------------------------------------------ candidates *)
Lemma cand_ge mo t sc req v i fr c : In c (candidates mo t sc req v i fr) -> (i <= cminor c)%nat.
Proof.
  revert i. induction fr as [|[f|] fr IH]; intros i H; cbn [candidates] in H.
  - destruct H.
  - destruct H as [<-|H]; [cbn; lia|]. apply IH in H. lia.
  - apply IH in H. lia.
Qed.
Lemma cand_entry mo t sc req v i fr c : In c (candidates mo t sc req v i fr) ->
  nth (cminor c - i) fr None = Some (cfree c).
Proof.
  revert i. induction fr as [|[f|] fr IH]; intros i H; cbn [candidates] in H.
  - destruct H.
  - destruct H as [<-|H].
    + unfold cminor, cfree. cbn. now rewrite Nat.sub_diag.
    + pose proof (cand_ge _ _ _ _ _ _ _ _ H) as G. apply IH in H.
      replace (cminor c - i)%nat with (S (cminor c - S i)) by lia. exact H.
  - pose proof (cand_ge _ _ _ _ _ _ _ _ H) as G. apply IH in H.
    replace (cminor c - i)%nat with (S (cminor c - S i)) by lia. exact H.
Qed.
Lemma cand_exists mo t sc req v i fr j f : nth j fr None = Some f ->
  exists s, In ((i + j)%nat, f, s) (candidates mo t sc req v i fr).
Proof.
  revert i j. induction fr as [|[g|] fr IH]; intros i j H.
  - rewrite nthnil in H. discriminate.
  - destruct j; cbn [nth] in H; cbn [candidates].
    + injection H as ->. eexists. left. now rewrite Nat.add_0_r.
    + destruct (IH (S i) j H) as [s Hs]. exists s. right.
      replace (i + S j)%nat with (S i + j)%nat by lia. exact Hs.
  - destruct j; cbn [nth] in H; [discriminate|]. cbn [candidates].
    destruct (IH (S i) j H) as [s Hs]. exists s.
    replace (i + S j)%nat with (S i + j)%nat by lia. exact Hs.
Qed.
Lemma cand_nodup mo t sc req v i fr : NoDup (map cminor (candidates mo t sc req v i fr)).
Proof.
  revert i. induction fr as [|[f|] fr IH]; intros i; cbn [candidates map].
  - constructor.
  - constructor; [|apply IH]. intros H. apply in_map_iff in H as [c [E H]].
    apply cand_ge in H. unfold cminor in *. cbn in E. lia.
  - apply IH.
Qed.

Lemma NoDup_map_firstn {A B} (f : A -> B) n l : NoDup (map f l) -> NoDup (map f (firstn n l)).
Proof.
  intros H. rewrite <- (firstn_skipn n l) in H. now apply NoDup_map_app_l in H.
Qed.
Lemma In_firstn {A} n (l : list A) x : In x (firstn n l) -> In x l.
Proof. intros H. rewrite <- (firstn_skipn n l). apply in_or_app. now left. Qed.

(* ------------------------------------------------------------------ defaultAllocateDevices *)
Definition view_ok (v : ledger) (req : res) (m : nat) : Prop :=
  exists f, dget (free v) m = Some f /\ ris_zero f = false /\ rle req f = true.

Lemma default_allocate_sound mo t sc v req d al :
  default_allocate mo t sc v req d d = Some al ->
  length al = d /\ NoDup (map fst al) /\
  forall a, In a al -> snd a = req /\ view_ok v req (fst a).
Proof.
  unfold default_allocate.
  set (cs := sort_by cand_leb (filter (eligible req) (candidates mo t sc req v 0 (free v)))).
  destruct (Nat.ltb (length (firstn d cs)) d) eqn:L; [discriminate|].
  intros H. injection H as <-. apply Nat.ltb_ge in L.
  split; [|split].
  - rewrite map_length. pose proof (firstn_le_length d cs). lia.
  - rewrite map_map. cbn [fst]. apply NoDup_map_firstn. unfold cs.
    eapply NoDup_map_perm; [apply Permutation_sym, sort_by_perm|].
    apply NoDup_map_filter. apply cand_nodup.
  - intros a Ha. apply in_map_iff in Ha as [c [<- Hc]]. cbn [fst snd]. split; auto.
    apply In_firstn in Hc. unfold cs in Hc. apply sort_by_In in Hc. apply filter_In in Hc as [Hc E].
    apply cand_entry in Hc. rewrite Nat.sub_0_r in Hc.
    unfold eligible in E. apply andb_prop in E as [E1 E2]. apply negb_true_iff in E1.
    exists (cfree c). unfold dget. auto.
Qed.

Lemma default_allocate_complete mo t sc v req d (L : list nat) :
  default_allocate mo t sc v req d d = None ->
  NoDup L -> (forall m, In m L -> view_ok v req m) -> (length L < d)%nat.
Proof.
  unfold default_allocate.
  set (el := filter (eligible req) (candidates mo t sc req v 0 (free v))).
  destruct (Nat.ltb (length (firstn d (sort_by cand_leb el))) d) eqn:Lt; [|discriminate].
  intros _ ND HL. apply Nat.ltb_lt in Lt.
  assert (Hlen : (length el < d)%nat).
  { rewrite firstn_length, sort_by_length in Lt. lia. }
  assert (Hincl : incl L (map cminor el)).
  { intros m Hm. destruct (HL m Hm) as [f [Ef [Z R]]].
    destruct (cand_exists mo t sc req v 0 (free v) m f Ef) as [s Hs]. cbn [Nat.add] in Hs.
    apply in_map_iff. exists (m, f, s). split; auto. unfold el. apply filter_In. split; auto.
    unfold eligible. cbn [fst snd]. now rewrite Z, R. }
  pose proof (NoDup_incl_length ND Hincl) as H. rewrite map_length in H. lia.
Qed.

(* ------------------------------------------------------------------ sorted, duplicate-free minors *)
Lemma insert_nat_In x y l : In y (insert_nat x l) <-> y = x \/ In y l.
Proof.
  induction l as [|z l IH]; cbn [insert_nat].
  - cbn. intuition.
  - destruct (Nat.ltb x z) eqn:L; [cbn [In]; intuition|].
    destruct (Nat.eqb x z) eqn:E.
    + apply Nat.eqb_eq in E. subst. cbn [In]. intuition.
    + cbn [In]. rewrite IH. intuition.
Qed.
Lemma insert_nat_sorted x l : StronglySorted lt l -> StronglySorted lt (insert_nat x l).
Proof.
  induction l as [|z l IH]; cbn [insert_nat]; intros S.
  - constructor; constructor.
  - inversion S as [|? ? S' F]; subst.
    destruct (Nat.ltb x z) eqn:L.
    + apply Nat.ltb_lt in L. constructor; auto. constructor; auto.
      eapply Forall_impl; [|exact F]. intros; cbn in *; lia.
    + destruct (Nat.eqb x z) eqn:E; auto.
      apply Nat.ltb_ge in L. apply Nat.eqb_neq in E. constructor; auto.
      apply Forall_forall. intros y Hy. apply insert_nat_In in Hy as [->|Hy]; [lia|].
      rewrite Forall_forall in F. now apply F.
Qed.
Lemma sort_nats_In x l : In x (sort_nats l) <-> In x l.
Proof.
  induction l as [|y l IH]; cbn [sort_nats fold_right]; [tauto|].
  fold (sort_nats l). rewrite insert_nat_In, IH. cbn [In]. intuition.
Qed.
Lemma sort_nats_sorted l : StronglySorted lt (sort_nats l).
Proof.
  induction l; cbn [sort_nats fold_right]; [constructor|]. fold (sort_nats l). now apply insert_nat_sorted.
Qed.
Lemma ssorted_NoDup l : StronglySorted lt l -> NoDup l.
Proof.
  induction 1 as [|x l S IH F]; constructor; auto.
  intros H. rewrite Forall_forall in F. specialize (F x H). lia.
Qed.
Lemma sort_nats_NoDup l : NoDup (sort_nats l).
Proof. apply ssorted_NoDup, sort_nats_sorted. Qed.

(* ------------------------------------------------------------------ allocateFromScope *)
Section Topo.
  Variable c : topo_ctx.
  (* what every result handed back satisfies, relative to a set of admissible minors *)
  Definition sr_ok (adm : nat -> Prop) (r : scope_result) : Prop :=
    NoDup (sr_minors r) /\
    length (sr_minors r) = (if tc_shared c then 1%nat else tc_n c) /\
    forall m, In m (sr_minors r) -> adm m /\ topo_sat c m = true.

  Hypothesis score_nonneg : forall m, 0 <= topo_score c m.

  Lemma best_shared_in sat : sat <> [] -> In (fst (best_shared c sat)) sat.
  Proof.
    unfold best_shared. destruct sat as [|m0 sat]; [congruence|]. intros _.
    cbn [fold_left snd]. pose proof (score_nonneg m0) as H0.
    destruct (-1 <? topo_score c m0) eqn:E; [|apply Z.ltb_ge in E; lia].
    assert (G : forall l b, In (fst b) (m0 :: sat) -> incl l (m0 :: sat) ->
                In (fst (fold_left (fun b m => if snd b <? topo_score c m
                                               then (m, topo_score c m) else b) l b)) (m0 :: sat)).
    { induction l as [|x l IH]; intros b Hb Hl; cbn [fold_left]; auto.
      apply IH.
      - destruct (snd b <? topo_score c x); auto. cbn. apply Hl. now left.
      - intros y Hy. apply Hl. now right. }
    apply G; [now left|]. intros y Hy. now right.
  Qed.

  Lemma leaf_alloc_ok minors depth cum r (adm : nat -> Prop) :
    NoDup minors -> (forall m, In m minors -> adm m) ->
    leaf_alloc c minors depth cum = Some r -> sr_ok adm r.
  Proof.
    intros ND Hadm. unfold leaf_alloc, sr_ok.
    set (sat := filter (topo_sat c) minors).
    assert (Hsat : forall m, In m sat -> adm m /\ topo_sat c m = true).
    { intros m Hm. unfold sat in Hm. apply filter_In in Hm as [H1 H2]. auto. }
    destruct (tc_shared c) eqn:Sh.
    - destruct sat as [|m0 sat'] eqn:Es; [discriminate|].
      intros H. injection H as <-. cbn [sr_minors].
      split; [constructor; [tauto|constructor]|]. split; auto.
      intros m [<-|[]]. apply Hsat. apply best_shared_in. discriminate.
    - destruct (Nat.ltb (length sat) (tc_n c)) eqn:L; [discriminate|].
      apply Nat.ltb_ge in L. intros H. injection H as <-. cbn [sr_minors].
      split; [|split].
      + assert (NDs : NoDup (map (fun x : nat => x) sat)).
        { rewrite map_id. unfold sat. now apply NoDup_filter. }
        apply (NoDup_map_firstn (fun x : nat => x) (tc_n c)) in NDs. now rewrite map_id in NDs.
      + apply firstn_length_le'. exact L.
      + intros m Hm. apply Hsat. eapply In_firstn; eauto.
  Qed.

  Lemma better_cases sh b r : better sh b r = b \/ better sh b r = r.
  Proof.
    unfold better.
    destruct ((sr_depth b <? sr_depth r) || ((sr_depth b =? sr_depth r) && (sr_cum b <? sr_cum r)));
    match goal with |- context [if ?x then _ else _] => destruct x end; auto.
  Qed.
  Lemma best_of_ok sh rs r (P : scope_result -> Prop) :
    (forall x, In (Some x) rs -> P x) -> best_of sh rs = Some r -> P r.
  Proof.
    unfold best_of.
    assert (G : forall l b, (forall x, In (Some x) l -> P x) -> (forall x, b = Some x -> P x) ->
      forall r, fold_left (fun b o => match o with
                        | None => b
                        | Some r => match b with None => Some r | Some b' => Some (better sh b' r) end
                        end) l b = Some r -> P r).
    { induction l as [|o l IH]; intros b Hl Hb r0; cbn [fold_left]; auto.
      apply IH; [intros; apply Hl; now right|].
      destruct o as [x|]; auto. intros y Hy.
      assert (Px : P x) by (apply Hl; now left).
      destruct b as [b'|]; injection Hy as <-; auto.
      destruct (better_cases sh b' x) as [-> | ->]; auto. }
    intros H. apply G; auto. discriminate.
  Qed.
  Lemma best_of_none sh rs : best_of sh rs = None -> forall x, ~ In (Some x) rs.
  Proof.
    unfold best_of.
    assert (G : forall l b, b <> None ->
      fold_left (fun b o => match o with
                        | None => b
                        | Some r => match b with None => Some r | Some b' => Some (better sh b' r) end
                        end) l b <> None).
    { induction l as [|o l IH]; intros b Hb; cbn [fold_left]; auto.
      apply IH. destruct o; auto. destruct b; discriminate. }
    induction rs as [|o rs IH]; cbn [fold_left]; intros H x Hin; [destruct Hin|].
    destruct o as [y|].
    - exfalso. revert H. apply G. discriminate.
    - destruct Hin as [Hin|Hin]; [discriminate|]. eapply IH; eauto.
  Qed.

  Lemma pcie_alloc_ok depth cum minors r (adm : nat -> Prop) :
    NoDup minors -> (forall m, In m minors -> adm m) ->
    pcie_alloc c depth cum minors = Some r -> sr_ok adm r.
  Proof.
    intros ND H. unfold pcie_alloc. destruct (Nat.ltb (length minors) (tc_n c)); [discriminate|].
    now apply leaf_alloc_ok.
  Qed.
  Lemma numa_alloc_ok depth cum sc r (adm : nat -> Prop) :
    NoDup (fst sc) -> (forall m, In m (fst sc) -> adm m) ->
    (forall pm, In pm (snd sc) -> NoDup pm /\ forall m, In m pm -> adm m) ->
    numa_alloc c depth cum sc = Some r -> sr_ok adm r.
  Proof.
    intros ND H HP. unfold numa_alloc. destruct (Nat.ltb (length (fst sc)) (tc_n c)); [discriminate|].
    destruct (best_of (tc_shared c) (map (pcie_alloc c (depth + 1) (cum + scope_hit c (fst sc))) (snd sc)))
      as [b|] eqn:B.
    - intros E. injection E as <-. eapply best_of_ok; [|exact B].
      intros x Hx. apply in_map_iff in Hx as [pm [E Hpm]]. destruct (HP pm Hpm).
      eapply pcie_alloc_ok; eauto.
    - now apply leaf_alloc_ok.
  Qed.
  Lemma root_alloc_ok minors numas r (adm : nat -> Prop) :
    NoDup minors -> (forall m, In m minors -> adm m) ->
    (forall sc, In sc numas -> NoDup (fst sc) /\ (forall m, In m (fst sc) -> adm m) /\
        forall pm, In pm (snd sc) -> NoDup pm /\ forall m, In m pm -> adm m) ->
    root_alloc c minors numas = Some r -> sr_ok adm r.
  Proof.
    intros ND H HN. unfold root_alloc. destruct (Nat.ltb (length minors) (tc_n c)); [discriminate|].
    destruct (best_of (tc_shared c) (map (numa_alloc c 1 (scope_hit c minors)) numas)) as [b|] eqn:B.
    - intros E. injection E as <-. eapply best_of_ok; [|exact B].
      intros x Hx. apply in_map_iff in Hx as [sc [E Hsc]]. destruct (HN sc Hsc) as [H1 [H2 H3]].
      eapply numa_alloc_ok; eauto.
    - now apply leaf_alloc_ok.
  Qed.

  (* completeness: a refusal means the node-level scope has too few satisfying devices *)
  Lemma root_alloc_none minors numas (L : list nat) :
    root_alloc c minors numas = None -> (tc_shared c = true -> tc_n c = 1%nat) ->
    NoDup L -> (forall m, In m L -> In m minors /\ topo_sat c m = true) ->
    (length L < tc_n c)%nat.
  Proof.
    intros H Hsh ND HL.
    assert (Hincl : incl L (filter (topo_sat c) minors)).
    { intros m Hm. apply filter_In. now apply HL. }
    pose proof (NoDup_incl_length ND Hincl) as Hlen.
    pose proof (filter_length_le (topo_sat c) minors) as Hfl.
    unfold root_alloc in H. destruct (Nat.ltb (length minors) (tc_n c)) eqn:L0.
    - apply Nat.ltb_lt in L0. lia.
    - destruct (best_of (tc_shared c) (map (numa_alloc c 1 (scope_hit c minors)) numas)); [discriminate|].
      unfold leaf_alloc in H. destruct (tc_shared c) eqn:Sh.
      + rewrite (Hsh eq_refl). destruct (filter (topo_sat c) minors); [cbn in Hlen; lia|discriminate].
      + destruct (Nat.ltb (length (filter (topo_sat c) minors)) (tc_n c)) eqn:L1; [|discriminate].
        apply Nat.ltb_lt in L1. lia.
  Qed.
End Topo.

(* the scopes built from the Device CR hold distinct GPU minors of the CR *)
Lemma root_minors_spec infos :
  NoDup (root_minors infos) /\ forall m, In m (root_minors infos) <-> In m (minors_of infos 0).
Proof.
  unfold root_minors, minors_of, gpu_infos. split; [apply sort_nats_NoDup|].
  intros m. apply sort_nats_In.
Qed.
Lemma numa_scopes_spec infos sc : In sc (numa_scopes infos) ->
  NoDup (fst sc) /\ (forall m, In m (fst sc) -> In m (minors_of infos 0)) /\
  forall pm, In pm (snd sc) -> NoDup pm /\ forall m, In m pm -> In m (minors_of infos 0).
Proof.
  unfold numa_scopes. intros H. apply in_map_iff in H as [a [<- _]]. cbn [fst snd].
  assert (Sub : forall (p : devinfo -> bool) m,
            In m (map di_minor (filter p (gpu_infos infos))) -> In m (minors_of infos 0)).
  { intros p m Hm. apply in_map_iff in Hm as [i [<- Hi]]. apply filter_In in Hi as [Hi _].
    unfold minors_of. apply in_map. exact Hi. }
  split; [apply sort_nats_NoDup|]. split.
  - intros m Hm. rewrite sort_nats_In in Hm. eapply Sub; eauto.
  - intros pm Hpm. apply in_map_iff in Hpm as [b [<- _]]. split; [apply sort_nats_NoDup|].
    intros m Hm. rewrite sort_nats_In in Hm. apply in_map_iff in Hm as [i [<- Hi]].
    apply filter_In in Hi as [Hi _]. apply filter_In in Hi as [Hi _].
    unfold minors_of. apply in_map. exact Hi.
Qed.

(* ------------------------------------------------------------------ GPU partitions *)
Lemma hopper_table_spec n ps p : hopper_table n = Some ps -> In p ps -> length p = n /\ NoDup p.
Proof.
  intros H Hin.
  destruct n as [|[|[|[|[|[|[|[|[|n]]]]]]]]]; cbn in H; try discriminate; injection H as <-;
    cbn in Hin; repeat (destruct Hin as [<-|Hin]; [split; [reflexivity|]; repeat constructor; cbn; intuition lia|]);
    destruct Hin.
Qed.
Lemma select_part_in used desired fs : fs <> [] -> In (select_part used desired fs) fs.
Proof.
  destruct fs as [|f0 [|f1 rest]]; [congruence|intros _; now left|]. intros _.
  cbn [select_part].
  set (step := fun (b : list nat * Z) f => let sc := binpack_score used desired f in
                                           if snd b <? sc then (f, sc) else b).
  assert (G : forall l b, In (fst b) (f0 :: f1 :: rest) -> incl l (f0 :: f1 :: rest) ->
              In (fst (fold_left step l b)) (f0 :: f1 :: rest)).
  { induction l as [|x l IH]; intros b Hb Hl; cbn [fold_left]; auto.
    apply IH; [|intros y Hy; apply Hl; now right].
    unfold step. cbn zeta. destruct (snd b <? binpack_score used desired x); auto.
    cbn [fst]. apply Hl. now left. }
  apply G; [now left|]. intros y Hy. now right.
Qed.
Lemma combine_seq_In {A} (l : list (option A)) s j x :
  In (j, x) (combine (seq s (length l)) l) -> (s <= j)%nat /\ nth (j - s) l None = x.
Proof.
  revert s. induction l as [|y l IH]; intros s Hx; cbn in Hx; [destruct Hx|].
  destruct Hx as [Hx|Hx].
  - injection Hx as <- <-. rewrite Nat.sub_diag. split; auto.
  - apply IH in Hx as [H1 H2]. split; [lia|]. replace (j - s)%nat with (S (j - S s)) by lia. exact H2.
Qed.
Lemma In_combine_seq {A} (l : list (option A)) s j x :
  nth j l None = Some x -> In ((s + j)%nat, Some x) (combine (seq s (length l)) l).
Proof.
  revert s j. induction l as [|y l IH]; intros s j Hx; [rewrite nthnil in Hx; discriminate|].
  destruct j; cbn [nth] in Hx; cbn [length seq combine].
  - subst. left. now rewrite Nat.add_0_r.
  - right. replace (s + S j)%nat with (S s + j)%nat by lia. now apply IH.
Qed.
Lemma present_minors_In {A} (d : list (option A)) m : In m (present_minors d) <-> nth m d None <> None.
Proof.
  unfold present_minors. rewrite in_map_iff. split.
  - intros [[i o] [E H]]. cbn in E. subst i. apply filter_In in H as [H P]. cbn in P.
    apply combine_seq_In in H as [_ H]. rewrite Nat.sub_0_r in H. rewrite H.
    destruct o; [discriminate|discriminate].
  - intros H. destruct (nth m d None) as [x|] eqn:E; [|congruence].
    exists (m, Some x). split; auto. apply filter_In. split; auto.
    apply (In_combine_seq d 0%nat m x E).
Qed.
