(* C07 — flat-integer interface of the model for the generic OCaml driver.
   Input and observable formats are described in harness/C07/zz_verif_c07_test.go. *)
From Coq Require Import List ZArith Bool Arith.
From Verif Require Import Lib.Wire C07.Model C07.Spec.
Import ListNotations.
Open Scope Z_scope.

(* ---------- decoding of the input *)
Definition dec_opt (v : Z) : option Z := if v <? 0 then None else Some v.
Definition dec_res (a b c : Z) : res := mkRes (dec_opt a) (dec_opt b) (dec_opt c).

Definition dec_info (l : list Z) : devinfo * list Z :=
  match l with
  | t :: m :: h :: a :: b :: c :: numa :: pcie :: rest =>
      (mkInfo (Z.to_nat t) (Z.to_nat m) (zb h) (dec_res a b c) numa pcie, rest)
  | _ => (mkInfo 0 0 false rempty (-1) 0, [])
  end.
Definition dec_talloc (l : list Z) : (nat * alloc) * list Z :=
  match l with
  | t :: m :: a :: b :: c :: rest => ((Z.to_nat t, (Z.to_nat m, dec_res a b c)), rest)
  | _ => ((0%nat, (0%nat, rempty)), [])
  end.

Definition dec_op (l : list Z) : option op * list Z :=
  match l with
  | 1 :: rest => let '(inv, r) := decode_seq dec_info rest in (Some (ORefresh inv), r)
  | 2 :: p :: a :: b :: c :: d :: e :: f :: g :: rest =>
      (Some (OSchedule p (mkRaw a b c d e f g)), rest)
  | 3 :: p :: rest => (Some (OUnreserve p), rest)
  | 4 :: p :: rest => (Some (OPodAdd p), rest)
  | 5 :: p :: rest => (Some (OPodDelete p), rest)
  | 6 :: p :: rest => let '(al, r) := decode_seq dec_talloc rest in (Some (OForeignAdd p al), r)
  | 7 :: rest => (Some ODeviceDelete, rest)
  | 8 :: p :: rest => let '(al, r) := decode_seq dec_talloc rest in (Some (OPodUpdate p al), r)
  | 9 :: p :: rest => (Some (OPodTerminated p), rest)
  | 10 :: p :: a :: b :: c :: d :: e :: f :: g :: rest =>
      let '(vs, r) := take_list rest in (Some (OPreemptFilter p (mkRaw a b c d e f g) vs), r)
  | 11 :: kind :: rest => (Some (ONodeKind kind), rest)
  (* deletions delivered as informer tombstones are the same events for the model *)
  | 12 :: p :: rest => (Some (OPodDelete p), rest)
  | 13 :: rest => (Some ODeviceDelete, rest)
  (* scheduling cycles whose Filter and Reserve phases are separate operations *)
  | 14 :: p :: a :: b :: c :: d :: e :: f :: g :: hint :: rest =>
      let '(al, r) := decode_seq dec_talloc rest in (Some (OFilter p (mkRaw a b c d e f g) (zb hint) al), r)
  | 15 :: p :: rest => (Some (OFilterAgain p), rest)
  | 16 :: p :: rest => (Some (OReserve p), rest)
  | _ => (None, [])
  end.
Fixpoint dec_ops (n : nat) (l : list Z) : list op :=
  match n with
  | O => []
  | S n' => match dec_op l with
            | (Some o, r) => o :: dec_ops n' r
            | (None, _) => []
            end
  end.
Definition decode (inp : list Z) : list op :=
  match inp with n :: rest => dec_ops (Z.to_nat n) rest | [] => [] end.

(* ---------- encoding of observations *)
Definition enc_opt (o : option Z) : Z := match o with Some v => v | None => -1 end.
Definition enc_res (r : res) : list Z := [enc_opt (r0 r); enc_opt (r1 r); enc_opt (r2 r)].
Fixpoint enc_entries (i : nat) (d : devres) : list (list Z) :=
  match d with
  | [] => []
  | None :: t => enc_entries (S i) t
  | Some r :: t => (Z.of_nat i :: enc_res r) :: enc_entries (S i) t
  end.
Definition enc_devres (d : devres) : list Z :=
  let es := enc_entries 0 d in Z.of_nat (length es) :: concat es.
Definition enc_aset (s : list (Z * devres)) : list Z :=
  let ss := sort_by (fun a b => fst a <=? fst b) s in
  Z.of_nat (length ss) :: concat (map (fun e => fst e :: enc_devres (snd e)) ss).
Definition enc_ledger (l : ledger) : list Z :=
  enc_devres (total l) ++ enc_devres (free l) ++ enc_devres (used l) ++ enc_aset (aset l).
Definition enc_ledgers (ls : list ledger) : list Z :=
  concat (map (fun t => enc_ledger (ledger_of ls t)) type_ids) ++ [0].
Definition enc_allocs (da : dallocs) : list Z :=
  let flat := concat (map (fun t => map (fun a => Z.of_nat t :: Z.of_nat (fst a) :: enc_res (snd a))
                                        (allocs_of da t)) type_ids) in
  Z.of_nat (length flat) :: concat flat.
Definition is_schedule := is_schedule_op.
Definition enc_obs (o : op) (ob : obsrec) : list Z :=
  let '(out, ls) := ob in
  (o_code out :: (if is_schedule o && negb (o_code out =? -1) then enc_allocs (o_allocs out) else []))
    ++ enc_ledgers ls.

Definition run_case (inp : list Z) : list Z :=
  let ops := decode inp in
  concat (map (fun x => enc_obs (fst x) (snd x)) (combine ops (run ops))).

(* ---------- parsing of the implementation's observable *)
Definition par_entry (l : list Z) : (nat * res) * list Z :=
  match l with
  | m :: a :: b :: c :: rest => ((Z.to_nat m, dec_res a b c), rest)
  | _ => ((0%nat, rempty), [])
  end.
Definition par_devres (l : list Z) : devres * list Z :=
  let '(es, r) := decode_seq par_entry l in
  (fold_left (fun d e => dset d (fst e) (Some (snd e))) es [], r).
Definition par_aentry (l : list Z) : (Z * devres) * list Z :=
  match l with
  | p :: rest => let '(d, r) := par_devres rest in ((p, d), r)
  | [] => ((0, []), [])
  end.
Definition par_ledger (l : list Z) : ledger * list Z :=
  let '(t, l1) := par_devres l in
  let '(f, l2) := par_devres l1 in
  let '(u, l3) := par_devres l2 in
  let '(s, l4) := decode_seq par_aentry l3 in
  (mkLedger t f u s, l4).
(* ledgers and the count of unexpected keys *)
Definition par_ledgers (l : list Z) : (list ledger * Z) * list Z :=
  let '(ls, r) := decode_many par_ledger ntypes l in
  match r with
  | u :: r' => ((ls, u), r')
  | [] => ((ls, -1), [])
  end.
Definition par_allocs (l : list Z) : dallocs * list Z :=
  let '(al, r) := decode_seq dec_talloc l in (group_allocs al, r).

(* parse the observations of all operations; [None] if the implementation crashed or the
   stream is malformed / reports resource keys outside the projection *)
Fixpoint par_obs (ops : list op) (l : list Z) : option (list obsrec) :=
  match ops with
  | [] => match l with [] => Some [] | _ => None end
  | o :: rest =>
      match l with
      | [] => None
      | code :: l1 =>
          let '(da, l2) := if is_schedule o && negb (code =? -1) then par_allocs l1 else (no_allocs, l1) in
          let '((ls, unk), l3) := par_ledgers l2 in
          if negb (unk =? 0) then None
          else match par_obs rest l3 with
               | Some t => Some ((mkOut code da, ls) :: t)
               | None => None
               end
      end
  end.

Definition prop_case (inp obs : list Z) : Z :=
  let ops := decode inp in
  match par_obs ops obs with
  | None => 99
  | Some os => prop_code ops os
  end.

Definition nontrivial_case (inp : list Z) : bool := nontrivial (decode inp).

Definition finding_sig (inp obs : list Z) : Z := 0.

Require Extraction.
Require Import ExtrOcamlBasic.
Extraction "model.ml" run_case prop_case nontrivial_case finding_sig.
