(* C07 — algebra of resource lists and minor-indexed maps. *)
From Coq Require Import List ZArith Bool Arith Lia.
From Verif Require Import C07.Model C07.Spec.
Import ListNotations.
Open Scope Z_scope.

(* ------------------------------------------------------------------ res *)
Lemma rget_rmap2 f a b k : f None None = None ->
  rget (rmap2 f a b) k = f (rget a k) (rget b k).
Proof. intros Hf. destruct k as [|[|[|k]]]; cbn; auto. Qed.

Lemma rget_radd a b k : rget (radd a b) k = oadd (rget a k) (rget b k).
Proof. apply rget_rmap2; reflexivity. Qed.
Lemma rget_rsubnn a b k : rget (rsubnn a b) k = osubnn (rget a k) (rget b k).
Proof. apply rget_rmap2; reflexivity. Qed.

Lemma rget_rempty k : rget rempty k = None.
Proof. destruct k as [|[|[|k]]]; reflexivity. Qed.
Lemma rval_rempty k : rval rempty k = 0.
Proof. unfold rval. now rewrite rget_rempty. Qed.

Lemma oz_oadd a b : oz (oadd a b) = oz a + oz b.
Proof. destruct a, b; cbn; lia. Qed.
Lemma rval_radd a b k : rval (radd a b) k = rval a k + rval b k.
Proof. unfold rval. now rewrite rget_radd, oz_oadd. Qed.

Lemma oz_osubnn a b : 0 <= oz b -> oz (osubnn a b) = Z.max 0 (oz a - oz b).
Proof. destruct a, b; cbn; lia. Qed.
Lemma oz_osubnn_nonneg a b : 0 <= oz (osubnn a b).
Proof. destruct a, b; cbn; lia. Qed.
Lemma rval_rsubnn a b k : 0 <= rval b k -> rval (rsubnn a b) k = Z.max 0 (rval a k - rval b k).
Proof. unfold rval. rewrite rget_rsubnn. apply oz_osubnn. Qed.
Lemma rval_rsubnn_nonneg a b k : 0 <= rval (rsubnn a b) k.
Proof. unfold rval. rewrite rget_rsubnn. apply oz_osubnn_nonneg. Qed.

Lemma slots_all k : (k < 3)%nat -> In k slots.
Proof. unfold slots. destruct k as [|[|[|k]]]; cbn; intros; auto; lia. Qed.
Lemma rget_big r k : (3 <= k)%nat -> rget r k = None.
Proof. destruct k as [|[|[|k]]]; cbn; intros; auto; lia. Qed.
Lemma rval_big r k : (3 <= k)%nat -> rval r k = 0.
Proof. intros. unfold rval. now rewrite rget_big. Qed.

(* all-slots characterisations *)
Lemma ris_zero_spec r : ris_zero r = true <-> forall k, rval r k = 0.
Proof.
  unfold ris_zero, rval. split.
  - intros H k. apply andb_prop in H as [H H2]. apply andb_prop in H as [H0 H1].
    apply Z.eqb_eq in H0, H1, H2. destruct k as [|[|[|k]]]; cbn; auto.
  - intros H. pose proof (H 0%nat) as H0. pose proof (H 1%nat) as H1. pose proof (H 2%nat) as H2.
    cbn in H0, H1, H2. rewrite H0, H1, H2. reflexivity.
Qed.
Lemma ris_zero_false r : ris_zero r = false <-> exists k, rval r k <> 0.
Proof.
  split.
  - intros H. unfold ris_zero in H.
    destruct (oz (r0 r) =? 0) eqn:E0; [|exists 0%nat; unfold rval; cbn; now apply Z.eqb_neq].
    destruct (oz (r1 r) =? 0) eqn:E1; [|exists 1%nat; unfold rval; cbn; now apply Z.eqb_neq].
    destruct (oz (r2 r) =? 0) eqn:E2; [|exists 2%nat; unfold rval; cbn; now apply Z.eqb_neq].
    discriminate.
  - intros [k Hk]. destruct (ris_zero r) eqn:E; auto.
    exfalso. apply Hk. now apply ris_zero_spec.
Qed.
Lemma ris_zero_rempty : ris_zero rempty = true.
Proof. reflexivity. Qed.

Lemma rle_spec a b : rle a b = true <-> forall k, ole (rget a k) (rget b k) = true.
Proof.
  unfold rle. split.
  - intros H k. apply andb_prop in H as [H H2]. apply andb_prop in H as [H0 H1].
    destruct k as [|[|[|k]]]; cbn; auto.
  - intros H. pose proof (H 0%nat) as H0. pose proof (H 1%nat) as H1. pose proof (H 2%nat) as H2.
    cbn in H0, H1, H2. rewrite H0, H1, H2. reflexivity.
Qed.
Lemma ole_spec a b : ole a b = true <-> (forall x y, a = Some x -> b = Some y -> x <= y).
Proof.
  unfold ole. destruct b as [y|], a as [x|]; split; intros; try reflexivity; try discriminate.
  - injection H0 as <-. injection H1 as <-. now apply Z.leb_le.
  - apply Z.leb_le. now apply H.
Qed.

(* extensional equality of resource lists *)
Lemma res_ext a b : (forall k, rget a k = rget b k) -> a = b.
Proof.
  intros H. destruct a as [a0 a1 a2], b as [b0 b1 b2].
  pose proof (H 0%nat) as H0. pose proof (H 1%nat) as H1. pose proof (H 2%nat) as H2.
  cbn in *. now subst.
Qed.

(* ------------------------------------------------------------------ devres *)
Lemma dget_nil m : dget [] m = None.
Proof. unfold dget. destruct m; reflexivity. Qed.
Lemma dval_nil m k : dval [] m k = 0.
Proof. unfold dval. rewrite dget_nil. cbn. apply rval_rempty. Qed.
Lemma dget_overflow (d : devres) m : (length d <= m)%nat -> dget d m = None.
Proof. intros. unfold dget. now apply nth_overflow. Qed.
Lemma dval_overflow (d : devres) m k : (length d <= m)%nat -> dval d m k = 0.
Proof. intros. unfold dval. rewrite dget_overflow by auto. apply rval_rempty. Qed.

Lemma nthnil {A} m (x : A) : nth m [] x = x.
Proof. destruct m; reflexivity. Qed.
Lemma dget_dset d m v m' : dget (dset d m v) m' = if Nat.eqb m m' then v else dget d m'.
Proof.
  unfold dget. revert d m'. induction m as [|m IH]; intros d m'.
  - destruct d as [|x d]; destruct m' as [|m']; cbn [dset nth Nat.eqb]; auto.
    now destruct m'.
  - destruct d as [|x d]; destruct m' as [|m']; cbn [dset nth Nat.eqb]; auto.
    rewrite IH. destruct (Nat.eqb m m'); auto. now destruct m'.
Qed.
Lemma dget_dset_same d m v : dget (dset d m v) m = v.
Proof. rewrite dget_dset. now rewrite Nat.eqb_refl. Qed.
Lemma dget_dset_other d m v m' : m <> m' -> dget (dset d m v) m' = dget d m'.
Proof. intros. rewrite dget_dset. apply Nat.eqb_neq in H. now rewrite H. Qed.

Lemma nth_map_none {A B} (f : option A -> option B) (l : list (option A)) m :
  f None = None -> nth m (map f l) None = f (nth m l None).
Proof.
  intros Hf. revert m. induction l as [|x l IH]; intros [|m]; cbn; auto.
Qed.
Lemma dget_dzip {A B C} (f : option A -> option B -> option C) a b m :
  f None None = None ->
  nth m (dzip f a b) None = f (nth m a None) (nth m b None).
Proof.
  intros Hf. revert b m. induction a as [|x a IH]; intros b m.
  - cbn [dzip]. rewrite nth_map_none by auto. destruct m; reflexivity.
  - destruct b as [|y b].
    + cbn [dzip]. rewrite (nth_map_none (fun x => f x None)) by auto. destruct m; reflexivity.
    + destruct m; cbn; auto.
Qed.
Lemma dzip_length {A B C} (f : option A -> option B -> option C) a b :
  length (dzip f a b) = Nat.max (length a) (length b).
Proof.
  revert b. induction a as [|x a IH]; intros b.
  - cbn. now rewrite map_length.
  - destruct b as [|y b]; cbn [dzip]; cbn [length].
    + now rewrite map_length.
    + rewrite IH. reflexivity.
Qed.

(* the entries of a minor-indexed map *)
Lemma In_dget (d : devres) o : In o d -> exists m, (m < length d)%nat /\ dget d m = o.
Proof. intros H. apply In_nth with (d := None) in H. destruct H as [m [H1 H2]]. now exists m. Qed.
Lemma dget_In (d : devres) m r : dget d m = Some r -> In (Some r) d.
Proof.
  intros H. unfold dget in H. destruct (Nat.lt_ge_cases m (length d)) as [L|L].
  - rewrite <- H. now apply nth_In.
  - rewrite nth_overflow in H by auto. discriminate.
Qed.

Lemma dis_zero_spec d : dis_zero d = true <-> forall m, ris_zero (ores (dget d m)) = true.
Proof.
  unfold dis_zero. rewrite forallb_forall. split.
  - intros H m. destruct (Nat.lt_ge_cases m (length d)) as [L|L].
    + apply H. unfold dget. now apply nth_In.
    + rewrite dget_overflow by auto. reflexivity.
  - intros H o Ho. apply In_dget in Ho as [m [_ <-]]. apply H.
Qed.
Lemma dis_empty_spec {A} (d : list (option A)) : dis_empty d = true <-> forall m, nth m d None = None.
Proof.
  unfold dis_empty. rewrite forallb_forall. split.
  - intros H m. destruct (Nat.lt_ge_cases m (length d)) as [L|L].
    + specialize (H (nth m d None) (nth_In _ _ L)). destruct (nth m d None); auto. discriminate.
    + now apply nth_overflow.
  - intros H o Ho. apply In_nth with (d := None) in Ho as [m [_ <-]]. now rewrite H.
Qed.
