(* C07 — proofs about the model (see Properties.v for the exported statements). *)
From Coq Require Import List ZArith Bool Arith Lia.
From Verif Require Import C07.Model C07.Spec.
Import ListNotations.
Open Scope Z_scope.

Lemma rget_rmap2 f a b k : f None None = None ->
  rget (rmap2 f a b) k = f (rget a k) (rget b k).
Proof.
  intros Hf. destruct k as [|[|[|k]]]; cbn; auto.
Qed.
