(* C07 — the property as Props over (operation history, observations) and its decision
   procedure [prop_code] (0 = holds, otherwise the number of the first failing clause).
   An observation is, per operation, the operation's output (code, allocation) and the four
   ledgers (total, free, used, allocate set) of every device type as reported by
   getNodeDeviceSummary after the operation. *)
From Coq Require Import List ZArith Bool Arith.
From Verif Require Import C07.Model.
Import ListNotations.
Open Scope Z_scope.

Definition slots : list nat := [0; 1; 2]%nat.

(* ================================================================== ledger clauses *)

(* ---------- clause 1: free = total - used, clamped at zero, for every minor and resource *)
Definition free_eq (l : ledger) : Prop :=
  forall m k, dval (free l) m k = Z.max 0 (dval (total l) m k - dval (used l) m k).
Definition minor_bound (l : ledger) : nat :=
  Nat.max (length (total l)) (Nat.max (length (free l)) (length (used l))).
Definition free_eqb (l : ledger) : bool :=
  forallb (fun m => forallb (fun k =>
     dval (free l) m k =? Z.max 0 (dval (total l) m k - dval (used l) m k)) slots)
     (seq 0 (minor_bound l)).

(* ---------- clause 2: used = sum of the live pods' allocations *)
Definition aset_sum (s : list (Z * devres)) (m k : nat) : Z :=
  sumZ (map (fun e => dval (snd e) m k) s).
Definition used_eq_sum (l : ledger) : Prop :=
  forall m k, dval (used l) m k = aset_sum (aset l) m k.
Definition aset_bound (s : list (Z * devres)) : nat :=
  fold_right Nat.max 0%nat (map (fun e => length (snd e)) s).
Definition used_eq_sumb (l : ledger) : bool :=
  forallb (fun m => forallb (fun k => dval (used l) m k =? aset_sum (aset l) m k) slots)
     (seq 0 (Nat.max (length (used l)) (aset_bound (aset l)))).

(* ---------- clause 3: no device is over-committed in a resource it exposes *)
Definition no_overcommit (l : ledger) : Prop :=
  forall m k T, rget (ores (dget (total l) m)) k = Some T -> dval (used l) m k <= T.
Definition no_overcommitb (l : ledger) : bool :=
  forallb (fun m => forallb (fun k =>
     match rget (ores (dget (total l) m)) k with
     | Some T => dval (used l) m k <=? T
     | None => true
     end) slots) (seq 0 (length (total l))).
(* GPU memory is granted as a share of the device's memory: every live allocation holds at most
   its gpu-memory-ratio share of the device's gpu-memory, and a device exposing gpu-memory
   exposes a gpu-memory-ratio of at most 100 *)
Definition gpu_dev_ok (g : res) : bool :=
  match r2 g with
  | None => true
  | Some T => (0 <=? T) && match r1 g with Some R => R <=? 100 | None => false end
  end.
Definition gpu_share_ok (tot : devres) (d : devres) (m : nat) : bool :=
  match r2 (ores (dget tot m)) with
  | None => true
  | Some T => 100 * dval d m 2 <=? dval d m 1 * T
  end.
Definition gpu_coupledb (l : ledger) : bool :=
  forallb (fun o => gpu_dev_ok (ores o)) (total l)
  && forallb (fun e => forallb (gpu_share_ok (total l) (snd e)) (seq 0 (length (snd e)))) (aset l).
Definition inv_okb (ls : list ledger) : bool :=
  forallb (fun t => no_overcommitb (ledger_of ls t)) type_ids && gpu_coupledb (ledger_of ls 0).

(* ================================================================== well-formed environment data *)
Definition res_nonneg (r : res) : bool := (0 <=? oz (r0 r)) && (0 <=? oz (r1 r)) && (0 <=? oz (r2 r)).
Fixpoint nodupn (l : list nat) : bool :=
  match l with [] => true | x :: t => negb (memn x t) && nodupn t end.
Definition allocs_wf (al : list alloc) : bool :=
  nodupn (map fst al) && forallb (fun a => res_nonneg (snd a)) al.
Definition dallocs_wf (da : dallocs) : bool := forallb (fun t => allocs_wf (allocs_of da t)) type_ids.
Definition raw_nonneg (rq : rawreq) : bool :=
  (0 <=? q_koord rq) && (0 <=? q_core rq) && (0 <=? q_ratio rq) && (0 <=? q_shared rq)
  && (0 <=? q_nvidia rq) && (0 <=? q_rdma rq) && (0 <=? q_fpga rq).
Definition op_wf (o : op) : bool :=
  match o with
  | ORefresh inv => forallb (fun i => res_nonneg (di_res i)) inv
  | OSchedule _ rq | OPreemptFilter _ rq _ => raw_nonneg rq
  | OForeignAdd _ al | OPodUpdate _ al => dallocs_wf (group_allocs al)
  | OFilter _ rq _ al => raw_nonneg rq && dallocs_wf (group_allocs al)
  | _ => true
  end.
(* operations by which the environment changes amounts on its own authority *)
Definition is_env_op (o : op) : bool :=
  match o with
  | ORefresh _ | ODeviceDelete | OForeignAdd _ _ | OPodUpdate _ _ => true
  | _ => false
  end.

(* ================================================================== allocation clauses *)
Definition desired_of := desired_count.

(* a device the pod may use and that can take the per-device request, judged on the ledger *)
Definition eligible_minor (l : ledger) (minors : list nat) (per : res) (m : nat) : bool :=
  memn m minors &&
  match dget (free l) m with
  | Some f => negb (ris_zero f) && rle per f
  | None => false
  end.
Definition eligible_count (l : ledger) (minors : list nat) (per : res) : nat :=
  length (filter (eligible_minor l minors per) (seq 0 (length (free l)))).

(* the request fits the free amount in every resource the device exposes *)
Definition fits_exposed (l : ledger) (per : res) (m : nat) : bool :=
  forallb (fun k => match rget (ores (dget (total l) m)) k, rget per k with
                    | Some _, Some v => v <=? dval (free l) m k
                    | _, _ => true
                    end) slots.
Definition opt_eqb (a b : option Z) : bool :=
  match a, b with Some x, Some y => x =? y | None, None => true | _, _ => false end.
Definition granted_ok (t : nat) (per r : res) : bool :=
  opt_eqb (r0 r) (r0 per) && opt_eqb (r1 r) (r1 per)
  && match t with O => true | _ => opt_eqb (r2 r) (r2 per) end.

(* ---------- GPU partition tables (node kinds 1 and 2) *)
(* the partition path hands out whole unused GPUs without comparing the request with the free
   amount; that is sound when the request fits the total of every GPU that exposes anything *)
Definition part_fit (tot : devres) (per : res) : bool :=
  forallb (fun o => match o with Some T => ris_zero T || rle per T | None => true end) tot.
Definition pfit (kind : Z) (tot : devres) (per : res) (shared : bool) : bool :=
  negb (has_part_table kind) || shared || part_fit tot per.
Definition sched_ok (kind : Z) (pl : list ledger) (rq : rawreq) : bool :=
  match treq_of rq 0 with
  | TReq per _ sh => pfit kind (total (ledger_of pl 0)) per sh
  | _ => true
  end.
(* a GPU a partition may contain: listed, exposing something, and entirely free *)
Definition part_free_minor (l : ledger) (minors : list nat) (m : nat) : bool :=
  memn m minors && negb (ris_zero (ores (dget (total l) m)))
  && match dget (free l) m with
     | Some _ => forallb (fun k => match rget (ores (dget (total l) m)) k with
                                   | Some t => dval (free l) m k =? t
                                   | None => true end) slots
     | None => false
     end.
(* honoured partitions: no partition of the requested size consists of free GPUs only *)
Definition part_short (kind : Z) (l : ledger) (minors : list nat) (count : Z) (shared : bool) : bool :=
  honor_part kind && negb shared
  && match hopper_table (desired_count count) with
     | Some ps => forallb (fun p => negb (forallb (part_free_minor l minors) p)) ps
     | None => true
     end.

(* clause 4: a successful allocation of type t *)
Definition alloc_sound_t (pl : list ledger) (infos : list devinfo) (t : nat) (rq : rawreq)
           (al : list alloc) : bool :=
  match treq_of rq t with
  | TReq per count _ =>
      let l := ledger_of pl t in
      Nat.eqb (length al) (desired_of count) && nodupn (map fst al)
      && forallb (fun a => memn (fst a) (minors_of infos t)
                           && fits_exposed l per (fst a)
                           && granted_ok t per (snd a)) al
  | _ => match al with [] => true | _ => false end
  end.
(* clause 5: a refused allocation: some requested type has fewer eligible devices than desired *)
Definition alloc_short_t (kind : Z) (pl : list ledger) (infos : list devinfo) (t : nat) (rq : rawreq) : bool :=
  match treq_of rq t with
  | TReq per count sh =>
      Nat.ltb (eligible_count (ledger_of pl t) (minors_of infos t) per) (desired_of count)
      || (Nat.eqb t 0 && part_short kind (ledger_of pl t) (minors_of infos t) count sh)
  | _ => false
  end.
Definition no_device_t (pl : list ledger) (t : nat) (rq : rawreq) : bool :=
  is_req (treq_of rq t) && dis_empty (total (ledger_of pl t)).

(* ---------- preemption dry-run (PreFilter, RemovePod per victim, Filter): the verdict is judged
   on the ledger in which the victims' holdings count as free *)
(* a device that can have been chosen: listed in the Device CR, exposing something, present in
   the free map, the request fitting every exposed resource *)
Definition maybe_minor (l : ledger) (minors : list nat) (per : res) (m : nat) : bool :=
  memn m minors && negb (ris_zero (ores (dget (total l) m)))
  && match dget (free l) m with Some _ => fits_exposed l per m | None => false end.
Definition maybe_count (l : ledger) (minors : list nat) (per : res) : nat :=
  length (filter (maybe_minor l minors per) (seq 0 (length (free l)))).
Definition preempt_enough_t (pl : list ledger) (infos : list devinfo) (victims : list Z)
           (t : nat) (rq : rawreq) : bool :=
  match treq_of rq t with
  | TReq per count _ =>
      Nat.leb (desired_of count)
              (maybe_count (preempt_ledger (ledger_of pl t) victims) (minors_of infos t) per)
  | _ => true
  end.
Definition preempt_short_t (kind : Z) (pl : list ledger) (infos : list devinfo) (victims : list Z)
           (t : nat) (rq : rawreq) : bool :=
  match treq_of rq t with
  | TReq per count sh =>
      Nat.ltb (eligible_count (preempt_ledger (ledger_of pl t) victims) (minors_of infos t) per)
              (desired_of count)
      || (Nat.eqb t 0 && part_short kind (preempt_ledger (ledger_of pl t) victims)
                                    (minors_of infos t) count sh)
  | _ => false
  end.

(* ================================================================== designated allocations *)
(* what a designated pod may take from device m: per exposed resource min(free, designated amount),
   nothing of an exposed resource the designation does not mention *)
Definition onorm (t x : option Z) : option Z :=
  match x with Some v => Some v | None => match t with Some _ => Some 0 | None => None end end.
Definition rnorm : res -> res -> res := rmap2 onorm.
Definition avail_at (l : ledger) (rq : devres) (m : nat) : option res :=
  match dget (free l) m, dget rq m with
  | Some f, Some r => Some (rnorm (ores (dget (total l) m)) (rmin f r))
  | _, _ => None
  end.
(* the ledger a designated pod is allocated from: only the designated devices, with these free amounts *)
Definition desig_avail (l : ledger) (rq : devres) : ledger :=
  if dis_empty rq then l
  else let ms := seq 0 (length (free l)) in
       mkLedger (map (fun m => match avail_at l rq m with
                               | Some _ => Some (ores (dget (total l) m)) | None => None end) ms)
                (map (avail_at l rq) ms)
                (map (fun m => match avail_at l rq m with
                               | Some a => Some (rsubnn (ores (dget (total l) m)) a) | None => None end) ms)
                [].
Definition avail_of (pl : list ledger) (dg : dallocs) (t : nat) : ledger :=
  desig_avail (ledger_of pl t) (required_of dg t).

(* clause 4 for a designated pod: the granted devices are designated ones and the request fits what
   the designation leaves of them (hence also their free amount) *)
Definition desig_sound_t (pl : list ledger) (infos : list devinfo) (dg : dallocs) (t : nat) (rq : rawreq)
           (al : list alloc) : bool :=
  match treq_of rq t with
  | TReq per count _ =>
      let l := avail_of pl dg t in
      Nat.eqb (length al) (desired_of count) && nodupn (map fst al)
      && forallb (fun a => memn (fst a) (minors_of infos t)
                           && match dget (free l) (fst a) with Some _ => fits_exposed l per (fst a) | None => false end
                           && granted_ok t per (snd a)) al
  | _ => match al with [] => true | _ => false end
  end.
(* clause 5 for a designated pod *)
Definition desig_short_t (kind : Z) (pl : list ledger) (infos : list devinfo) (dg : dallocs) (t : nat)
           (rq : rawreq) : bool :=
  match treq_of rq t with
  | TReq per count sh =>
      Nat.ltb (eligible_count (avail_of pl dg t) (minors_of infos t) per) (desired_of count)
      || (Nat.eqb t 0 && part_short kind (avail_of pl dg t) (minors_of infos t) count sh)
  | _ => false
  end.
(* Filter of a designated pod accepted: enough designated devices can take the request *)
Definition desig_enough_t (pl : list ledger) (infos : list devinfo) (dg : dallocs) (t : nat) (rq : rawreq) : bool :=
  match treq_of rq t with
  | TReq per count _ =>
      Nat.leb (desired_of count) (maybe_count (avail_of pl dg t) (minors_of infos t) per)
  | _ => true
  end.

(* ================================================================== structural equality *)
Definition res_eqb (a b : res) : bool :=
  opt_eqb (r0 a) (r0 b) && opt_eqb (r1 a) (r1 b) && opt_eqb (r2 a) (r2 b).
Definition ores_eqb (a b : option res) : bool :=
  match a, b with Some x, Some y => res_eqb x y | None, None => true | _, _ => false end.
Fixpoint list_eqb {A} (e : A -> A -> bool) (a b : list A) : bool :=
  match a, b with
  | [], [] => true
  | x :: a', y :: b' => e x y && list_eqb e a' b'
  | _, _ => false
  end.
Definition devres_eqb : devres -> devres -> bool := list_eqb ores_eqb.
Definition ledger_eqb (a b : ledger) : bool :=
  devres_eqb (total a) (total b) && devres_eqb (free a) (free b) && devres_eqb (used a) (used b)
  && list_eqb (fun x y => (fst x =? fst y) && devres_eqb (snd x) (snd y)) (aset a) (aset b).
Definition ledgers_eqb (a b : list ledger) : bool :=
  forallb (fun t => ledger_eqb (ledger_of a t) (ledger_of b t)) type_ids.

(* ================================================================== live pods vs allocate set *)
(* clause 8: the allocate set of every device type holds exactly the pods the environment
   considers bound, each with the allocation recorded for it (its annotation / the result handed
   out at Reserve) — so that "sum over the allocate set" is "sum over the live pods" *)
Definition consb (rec : list (Z * (dallocs * bool))) (t : nat) (a : list (Z * devres)) : bool :=
  forallb (fun e => match lookup (fst e) rec with
                    | Some (da, _) =>
                        match allocs_of da t with
                        | [] => negb (aset_mem (fst e) a)
                        | al => match lookup (fst e) a with
                                | Some d => devres_eqb d (resources_of al)
                                | None => false
                                end
                        end
                    | None => true
                    end) rec
  && forallb (fun e => match lookup (fst e) rec with
                       | Some (da, _) => negb (is_nil (allocs_of da t))
                       | None => false
                       end) a.
(* how the environment's record of bound pods evolves, judged from the operation and its code *)
Definition next_rec (rec : list (Z * (dallocs * bool))) (o : op) (out : opout)
  : list (Z * (dallocs * bool)) :=
  if negb (o_code out =? 0) then rec
  else match o with
       | OSchedule p _ | OReserve p => set_key p (o_allocs out, true) rec
       | OUnreserve p | OPodDelete p | OPodTerminated p => remove_key p rec
       | OForeignAdd p al | OPodUpdate p al => set_key p (group_allocs al, false) rec
       | _ => rec
       end.

(* ================================================================== the decision procedure *)
Record track := mkTrack {
  k_infos : list devinfo;     (* inventory of the last refresh *)
  k_prev : list ledger;       (* ledgers observed after the previous operation *)
  k_wf : bool;                (* all environment-supplied data so far were well-formed *)
  k_env : bool;               (* no environment operation so far left a device over-committed *)
  k_rec : list (Z * (dallocs * bool));  (* pods the environment considers bound, with their allocation *)
  k_kind : Z;                 (* node labels (partition table / policy), see [nkind] *)
  k_pend : list (Z * cycle);  (* scheduling cycles that passed Filter and were not reserved yet *)
  k_gkey : bool               (* a GPU entry exists in deviceTotal: some inventory listed a GPU or some
                                 pod held one *)
}.
Definition init_track : track :=
  mkTrack [] [empty_ledger; empty_ledger; empty_ledger] true true [] 0 [] false.

Definition first_nz (l : list Z) : Z :=
  fold_right (fun c r => if c =? 0 then r else c) 0 l.
Definition chk (b : bool) (c : Z) : Z := if b then 0 else c.

(* does the operation leave the ledgers alone, judging by its kind and output code? *)
Definition is_frame (o : op) (code : Z) : bool :=
  (code =? -1)
  || match o with
     | OPodAdd _ | OPreemptFilter _ _ _ | ONodeKind _ | OFilter _ _ _ _ | OFilterAgain _ => true
     | OSchedule _ _ | OReserve _ => negb (code =? 0)
     | _ => false
     end.

Definition refused_ok (k : track) (rq : rawreq) : bool :=
  existsb (fun t => is_invalid (treq_of rq t)) type_ids
  || existsb (fun t => no_device_t (k_prev k) t rq) type_ids
  || part_unsupported (k_kind k) (treq_of rq 0).
Definition skip_ok (rq : rawreq) : bool :=
  negb (existsb (fun t => is_req (treq_of rq t) || is_invalid (treq_of rq t)) type_ids).

Definition check_schedule (k : track) (rq : rawreq) (out : opout) : Z :=
  let c := o_code out in
  if c =? 0 then
    chk (negb (sched_ok (k_kind k) (k_prev k) rq)
         || forallb (fun t => alloc_sound_t (k_prev k) (k_infos k) t rq (allocs_of (o_allocs out) t)) type_ids) 4
  else if c =? 1 then
    chk (existsb (fun t => alloc_short_t (k_kind k) (k_prev k) (k_infos k) t rq) type_ids) 5
  else if c =? 2 then chk (refused_ok k rq) 5
  else if c =? 4 then chk (skip_ok rq) 5
  else if c =? -1 then 0
  else 7.

Definition check_preempt (k : track) (rq : rawreq) (victims : list Z) (out : opout) : Z :=
  let c := o_code out in
  if c =? 0 then
    chk (negb (sched_ok (k_kind k) (k_prev k) rq)
         || forallb (fun t => preempt_enough_t (k_prev k) (k_infos k) victims t rq) type_ids) 10
  else if c =? 1 then
    chk (existsb (fun t => preempt_short_t (k_kind k) (k_prev k) (k_infos k) victims t rq) type_ids) 11
  else if c =? 2 then chk (refused_ok k rq) 11
  else if c =? 4 then chk (skip_ok rq) 11
  else 7.

(* a designated pod: [reserve] = the Reserve phase (the allocation is reported and committed),
   otherwise the Filter phase (only the verdict) *)
Definition kfill (k : track) (dg : dallocs) : option dallocs :=
  desig_fill (k_gkey k) (total (ledger_of (k_prev k) 0)) dg.
Definition check_desig (k : track) (reserve : bool) (rq : rawreq) (dg : dallocs) (out : opout) : Z :=
  let c := o_code out in
  let requested := negb (skip_ok rq) && negb (existsb (fun t => is_invalid (treq_of rq t)) type_ids) in
  if c =? 0 then
    chk (negb (sched_ok (k_kind k) (k_prev k) rq)
         || match kfill k dg with
            | Some dg' =>
                if reserve then
                  forallb (fun t => alloc_sound_t (k_prev k) (k_infos k) t rq (allocs_of (o_allocs out) t)
                                    && desig_sound_t (k_prev k) (k_infos k) dg' t rq (allocs_of (o_allocs out) t))
                          type_ids
                else forallb (fun t => desig_enough_t (k_prev k) (k_infos k) dg' t rq) type_ids
            | None => false
            end) (if reserve then 4 else 12)
  else if c =? 1 then
    chk (match kfill k dg with
         | Some dg' => existsb (fun t => desig_short_t (k_kind k) (k_prev k) (k_infos k) dg' t rq) type_ids
         | None => false
         end) (if reserve then 5 else 13)
  else if c =? 2 then chk (refused_ok k rq) (if reserve then 5 else 13)
  else if c =? 3 then
    chk (requested && match kfill k dg with None => true | Some _ => false end) (if reserve then 5 else 13)
  else if c =? 4 then chk (skip_ok rq) (if reserve then 5 else 13)
  else if c =? -1 then 0
  else 7.
Definition check_filter (k : track) (c : cycle) (out : opout) : Z :=
  match snd c with
  | None => check_preempt k (fst c) [] out
  | Some dg => check_desig k false (fst c) dg out
  end.
Definition check_reserve (k : track) (c : cycle) (out : opout) : Z :=
  match snd c with
  | None => check_schedule k (fst c) out
  | Some dg => check_desig k true (fst c) dg out
  end.
(* is the pod free to be scheduled / does it have an open cycle, judged from the tracked history *)
Definition open_cycle (k : track) (p : Z) : option cycle :=
  match lookup p (k_rec k) with Some _ => None | None => lookup p (k_pend k) end.

(* the cycle state a successful Filter leaves behind *)
Definition filled_cycle (k : track) (c : cycle) : cycle :=
  match snd c with
  | None => c
  | Some dg => (fst c, Some match kfill k dg with Some dg' => dg' | None => dg end)
  end.
Definition next_pend (k : track) (o : op) (out : opout) : list (Z * cycle) :=
  let upd p c := if o_code out =? 0 then set_key p (filled_cycle k c) (k_pend k)
                 else remove_key p (k_pend k) in
  if o_code out =? -1 then k_pend k
  else match o with
       | OFilter p rq hint al => upd p (rq, desig_of hint al)
       | OFilterAgain p => match open_cycle k p with Some c => upd p c | None => k_pend k end
       | OReserve p => remove_key p (k_pend k)
       | _ => k_pend k
       end.

(* a scheduling step stays inside the environment hypothesis only if, on a node with a partition
   table, a whole-GPU request fits the total of every GPU *)
Definition step_ok (k : track) (o : op) : bool :=
  match o with
  | OSchedule _ rq => sched_ok (k_kind k) (k_prev k) rq
  | OReserve p => match open_cycle k p with
                  | Some c => sched_ok (k_kind k) (k_prev k) (fst c)
                  | None => true end
  | _ => true
  end.
Definition check_step (k : track) (o : op) (ob : obsrec) : Z :=
  let '(out, ls) := ob in
  let wf := k_wf k && op_wf o in
  let env := k_env k && (negb (is_env_op o) || inv_okb ls) && step_ok k o in
  first_nz [
    chk (negb wf || forallb (fun t => free_eqb (ledger_of ls t)) type_ids) 1;
    chk (negb wf || forallb (fun t => used_eq_sumb (ledger_of ls t)) type_ids) 2;
    chk (negb (wf && env) || inv_okb ls) 3;
    (if wf then match o with
                | OSchedule _ rq => check_schedule k rq out
                | OPreemptFilter _ rq vs => check_preempt k rq vs out
                | OFilter p rq hint al =>
                    match lookup p (k_rec k) with
                    | Some _ => chk (o_code out =? -1) 7
                    | None => check_filter k (rq, desig_of hint al) out
                    end
                | OFilterAgain p =>
                    match open_cycle k p with
                    | Some c => check_filter k c out
                    | None => chk (o_code out =? -1) 7
                    end
                | OReserve p =>
                    match open_cycle k p with
                    | Some c => check_reserve k c out
                    | None => chk (o_code out =? -1) 7
                    end
                | _ => 0 end
     else 0);
    chk (negb (is_frame o (o_code out)) || ledgers_eqb (k_prev k) ls) 6;
    chk (forallb (fun t => consb (next_rec (k_rec k) o out) t (aset (ledger_of ls t))) type_ids) 8
  ].
Definition next_track (k : track) (o : op) (ob : obsrec) : track :=
  let '(out, ls) := ob in
  mkTrack (match o with ORefresh inv => inv | _ => k_infos k end) ls
          (k_wf k && op_wf o)
          (k_env k && (negb (is_env_op o) || inv_okb ls) && step_ok k o)
          (next_rec (k_rec k) o out)
          (match o with ONodeKind kind => kind | _ => k_kind k end)
          (next_pend k o out)
          (k_gkey k || match o with ORefresh inv => has_gpu inv | _ => false end
           || negb (is_nil (aset (ledger_of ls 0)))).

Fixpoint prop_from (k : track) (ops : list op) (obs : list obsrec) : Z :=
  match ops, obs with
  | [], [] => 0
  | o :: ops', ob :: obs' =>
      let c := check_step k o ob in
      if c =? 0 then prop_from (next_track k o ob) ops' obs' else c
  | _, _ => 9
  end.
Definition prop_code (ops : list op) (obs : list obsrec) : Z := prop_from init_track ops obs.

(* ================================================================== non-triviality rule *)
(* a history is non-trivial when all environment data are well-formed (so that every clause of
   the decision procedure is active to the end), at least two scheduling attempts are granted
   devices and at least one bound pod is released *)
Fixpoint count_if {A} (p : A -> bool) (l : list A) : nat :=
  match l with [] => O | x :: t => (if p x then 1 else 0) + count_if p t end.
Definition granted (ob : obsrec) : bool :=
  (o_code (fst ob) =? 0) && existsb (fun t => match allocs_of (o_allocs (fst ob)) t with [] => false | _ => true end) type_ids.
Definition nontrivial (ops : list op) : bool :=
  let obs := combine ops (run ops) in
  let grants := count_if (fun x => is_schedule_op (fst x) && granted (snd x)) obs in
  let releases := count_if (fun x => match fst x with
                                      | OUnreserve _ | OPodDelete _ | OPodTerminated _ =>
                                          o_code (fst (snd x)) =? 0
                                      | _ => false end) obs in
  forallb op_wf ops && Nat.leb 2 grants && Nat.leb 1 releases.
