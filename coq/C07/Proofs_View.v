(* C07 — nodeDevice.filter: what the allocators see (the "view") against the ledger. *)
From Coq Require Import List ZArith Bool Arith Lia.
From Verif Require Import C07.Model C07.Spec C07.Proofs_Res C07.Proofs_Ledger.
Import ListNotations.
Open Scope Z_scope.

Lemma nth_dmapi {A B} (f : nat -> option A -> option B) i d m :
  (forall j, f j None = None) ->
  nth m (dmapi f i d) None = f (i + m)%nat (nth m d None).
Proof.
  intros Hf. revert i m. induction d as [|x d IH]; intros i m; cbn [dmapi].
  - rewrite !nthnil. now rewrite Hf.
  - destruct m; cbn [nth].
    + now rewrite Nat.add_0_r.
    + rewrite IH. f_equal. lia.
Qed.

(* ------------------------------------------------------------------ entries of the view *)
Definition view_u (l : ledger) (m : nat) (f : res) : res := rsubnn (ores (dget (total l) m)) f.
Definition view_free (l : ledger) (m : nat) (f : res) : res :=
  let T := ores (dget (total l) m) in
  if ris_zero (view_u l m f) then T else rsubnn T (view_u l m f).

Lemma filter_view_empty l minors :
  dis_zero (free l) || match minors with [] => true | _ => false end = true ->
  filter_view l minors = empty_ledger.
Proof. intros H. unfold filter_view. now rewrite H. Qed.

Section View.
  Variable l : ledger.
  Variable minors : list nat.
  Hypothesis Hne : dis_zero (free l) || match minors with [] => true | _ => false end = false.

  Lemma view_total m :
    dget (total (filter_view l minors)) m =
    match dget (free l) m with
    | Some f => if memn m minors then Some (ores (dget (total l) m)) else None
    | None => None
    end.
  Proof.
    unfold filter_view. rewrite Hne. cbn [total reset_free used]. unfold dget at 1.
    rewrite dget_dzip by auto. rewrite !nth_dmapi by auto. cbn [Nat.add].
    fold (dget (free l) m). destruct (dget (free l) m) as [f|]; auto.
    destruct (memn m minors); auto.
    destruct (ris_zero (rsubnn (ores (dget (total l) m)) f)); reflexivity.
  Qed.
  Lemma view_used m :
    dget (used (filter_view l minors)) m =
    match dget (free l) m with
    | Some f => if memn m minors
                then if ris_zero (view_u l m f) then None else Some (view_u l m f)
                else None
    | None => None
    end.
  Proof.
    unfold filter_view. rewrite Hne. cbn [reset_free used]. unfold dget at 1.
    rewrite !nth_dmapi by auto. cbn [Nat.add].
    fold (dget (free l) m). destruct (dget (free l) m) as [f|]; auto.
  Qed.
  Lemma view_free_entry m :
    dget (free (filter_view l minors)) m =
    match dget (free l) m with
    | Some f => if memn m minors then Some (view_free l m f) else None
    | None => None
    end.
  Proof.
    pose proof (reset_free_fs (mkLedger
      (dmapi (fun m f => match f with
                         | Some _ => if memn m minors then Some (ores (dget (total l) m)) else None
                         | None => None end) 0 (free l)) []
      (dmapi (fun m f => match f with
                         | Some f' => if memn m minors
                                      then let u := rsubnn (ores (dget (total l) m)) f' in
                                           if ris_zero u then None else Some u
                                      else None
                         | None => None end) 0 (free l)) [])) as FS.
    assert (E : filter_view l minors = reset_free (mkLedger
      (dmapi (fun m f => match f with
                         | Some _ => if memn m minors then Some (ores (dget (total l) m)) else None
                         | None => None end) 0 (free l)) []
      (dmapi (fun m f => match f with
                         | Some f' => if memn m minors
                                      then let u := rsubnn (ores (dget (total l) m)) f' in
                                           if ris_zero u then None else Some u
                                      else None
                         | None => None end) 0 (free l)) [])).
    { unfold filter_view. now rewrite Hne. }
    rewrite <- E in FS. rewrite (FS m), view_total, view_used.
    destruct (dget (free l) m) as [f|]; auto.
    destruct (memn m minors); auto.
    unfold view_free. destruct (ris_zero (view_u l m f)); reflexivity.
  Qed.
End View.

(* ------------------------------------------------------------------ view free vs ledger free *)
Section Relation.
  Variable l : ledger.
  Hypothesis FS : free_struct l.
  Hypothesis Ht : dnonneg (total l).
  Hypothesis Hu : dnonneg (used l).
  Variable m : nat.
  Variable f : res.
  Hypothesis Hf : dget (free l) m = Some f.
  Let T := ores (dget (total l) m).

  (* an exposed key is present in free, between 0 and the total *)
  Lemma free_exposed k t : rget T k = Some t ->
    exists fk, rget f k = Some fk /\ 0 <= fk <= t.
  Proof.
    intros E. pose proof (FS m) as H. rewrite Hf in H.
    pose proof (Ht m k) as Htk. unfold dval, rval in Htk. fold T in Htk. rewrite E in Htk. cbn in Htk.
    destruct (dget (used l) m) as [u|] eqn:Eu; cbn [reset_free_f] in H.
    - injection H as ->. fold T. rewrite rget_rsubnn, E.
      pose proof (Hu m k) as Huk. unfold dval, rval in Huk. rewrite Eu in Huk. cbn [ores] in Huk.
      destruct (rget u k) as [y|]; cbn [osubnn oz] in *; eexists; split; eauto; lia.
    - exists t. unfold T in E. rewrite <- H in E. cbn [ores] in E. split; auto. lia.
  Qed.
  (* a key the device does not expose is absent from free or zero there *)
  Lemma free_unexposed k : rget T k = None -> rget f k = None \/ rget f k = Some 0.
  Proof.
    intros E. pose proof (FS m) as H. rewrite Hf in H.
    destruct (dget (used l) m) as [u|] eqn:Eu; cbn [reset_free_f] in H.
    - injection H as ->. fold T. rewrite rget_rsubnn, E. destruct (rget u k); cbn; auto.
    - left. unfold T in E. rewrite <- H in E. exact E.
  Qed.
  Lemma rval_free_le k : 0 <= rval f k <= rval T k.
  Proof.
    unfold rval. destruct (rget T k) as [t|] eqn:E.
    - destruct (free_exposed k t E) as [fk [-> B]]. cbn. lia.
    - destruct (free_unexposed k E) as [-> | ->]; cbn; lia.
  Qed.

  Lemma rget_view_u k :
    rget (view_u l m f) k =
    match rget T k with
    | Some t => Some (t - rval f k)
    | None => match rget f k with Some _ => Some 0 | None => None end
    end.
  Proof.
    unfold view_u. fold T. rewrite rget_rsubnn. destruct (rget T k) as [t|] eqn:E.
    - destruct (free_exposed k t E) as [fk [Efk B]]. unfold rval. rewrite Efk. cbn. f_equal. lia.
    - destruct (rget f k); reflexivity.
  Qed.

  (* case "some of the device is in use": the view's free is the ledger's free *)
  Lemma view_free_nonzero : ris_zero (view_u l m f) = false -> view_free l m f = f.
  Proof.
    intros Z. unfold view_free. rewrite Z. fold T. apply res_ext. intros k.
    rewrite rget_rsubnn, rget_view_u. destruct (rget T k) as [t|] eqn:E.
    - destruct (free_exposed k t E) as [fk [Efk B]]. unfold rval. rewrite Efk. cbn. f_equal. lia.
    - destruct (free_unexposed k E) as [-> | ->]; reflexivity.
  Qed.
  (* case "nothing of the device is in use": the view's free is the total, and the ledger's
     free agrees with it on every exposed key *)
  Lemma view_free_zero : ris_zero (view_u l m f) = true ->
    view_free l m f = T /\ forall k t, rget T k = Some t -> rget f k = Some t.
  Proof.
    intros Z. unfold view_free. rewrite Z. split; auto.
    intros k t E. rewrite ris_zero_spec in Z. specialize (Z k). unfold rval in Z.
    rewrite rget_view_u, E in Z. cbn in Z.
    destruct (free_exposed k t E) as [fk [Efk B]]. unfold rval in Z. rewrite Efk in Z |- *. cbn in Z.
    f_equal. lia.
  Qed.

  Lemma rval_view_free k : rval (view_free l m f) k = rval f k.
  Proof.
    destruct (ris_zero (view_u l m f)) eqn:Z.
    - destruct (view_free_zero Z) as [-> H]. unfold rval. destruct (rget T k) as [t|] eqn:E.
      + now rewrite (H k t E).
      + destruct (free_unexposed k E) as [-> | ->]; reflexivity.
    - now rewrite view_free_nonzero.
  Qed.
  (* R3 *)
  Lemma view_free_is_zero : ris_zero (view_free l m f) = ris_zero f.
  Proof.
    destruct (ris_zero f) eqn:Zf.
    - apply ris_zero_spec. intros k. rewrite rval_view_free. now apply ris_zero_spec.
    - apply ris_zero_false. apply ris_zero_false in Zf as [k Hk]. exists k. now rewrite rval_view_free.
  Qed.
  (* R1 *)
  Lemma view_free_rle_mono per : rle per f = true -> rle per (view_free l m f) = true.
  Proof.
    intros H. destruct (ris_zero (view_u l m f)) eqn:Z.
    - destruct (view_free_zero Z) as [-> HT]. apply rle_spec. intros k.
      rewrite rle_spec in H. specialize (H k).
      destruct (rget T k) as [t|] eqn:E.
      + now rewrite (HT k t E) in H.
      + destruct (rget per k); reflexivity.
    - now rewrite view_free_nonzero.
  Qed.
  (* R2 *)
  Lemma view_free_rle_exposed per k t v :
    rle per (view_free l m f) = true -> rget T k = Some t -> rget per k = Some v -> v <= rval f k.
  Proof.
    intros H E Ev. rewrite rle_spec in H. specialize (H k). rewrite Ev in H.
    destruct (free_exposed k t E) as [fk [Efk B]].
    assert (Ek : rget (view_free l m f) k = Some fk).
    { destruct (ris_zero (view_u l m f)) eqn:Z.
      - destruct (view_free_zero Z) as [-> HT]. rewrite E. rewrite (HT k t E) in Efk. congruence.
      - now rewrite view_free_nonzero. }
    rewrite Ek in H. cbn in H. apply Z.leb_le in H. unfold rval. rewrite Efk. exact H.
  Qed.
  (* R4 *)
  Lemma free_nonzero_total : ris_zero f = false -> ris_zero T = false.
  Proof.
    intros Z. apply ris_zero_false in Z as [k Hk]. apply ris_zero_false. exists k.
    pose proof (rval_free_le k). lia.
  Qed.
  Lemma view_free_nonneg k : 0 <= rval (view_free l m f) k.
  Proof. rewrite rval_view_free. apply rval_free_le. Qed.
End Relation.
