(* C07 — designated allocations: the allocator of a pod that carries a designated allocation runs
   on a free map restricted to the designated devices and capped by the designated amounts
   (Model.desig_ledger, literally calcFreeWithPreemptible + MinResourceList). What the allocator sees
   of that ledger (nodeDevice.filter) is what it sees of [Spec.desig_avail], which is again a ledger
   with "free = total - used"; so the allocator theorems apply, and since its free amounts are below
   the real ones, every grant also fits the real free amounts. *)
From Coq Require Import List ZArith Bool Arith Lia Permutation.
From Verif Require Import C07.Model C07.Spec C07.Proofs_Res C07.Proofs_Ledger C07.Proofs_View
  C07.Proofs_Alloc C07.Proofs_Allocate.
Import ListNotations.
Open Scope Z_scope.

(* ------------------------------------------------------------------ resource-list algebra *)
Lemma rget_rmin a b k : rget (rmin a b) k = omin (rget a k) (rget b k).
Proof. apply rget_rmap2; reflexivity. Qed.
Lemma rget_rnorm T x k : rget (rnorm T x) k = onorm (rget T k) (rget x k).
Proof. apply rget_rmap2; reflexivity. Qed.
Lemma rval_rnorm T x k : rval (rnorm T x) k = rval x k.
Proof. unfold rval. rewrite rget_rnorm. destruct (rget x k), (rget T k); reflexivity. Qed.
Lemma ris_zero_ext a b : (forall k, rval a k = rval b k) -> ris_zero a = ris_zero b.
Proof.
  intros H. destruct (ris_zero b) eqn:E.
  - apply ris_zero_spec. intros k. rewrite H. now apply ris_zero_spec.
  - apply ris_zero_false. apply ris_zero_false in E as [k Hk]. exists k. now rewrite H.
Qed.
Lemma rsubnn_rnorm T x : rsubnn T (rnorm T x) = rsubnn T x.
Proof.
  apply res_ext. intros k. rewrite !rget_rsubnn, rget_rnorm.
  destruct (rget T k) as [t|], (rget x k) as [v|]; cbn; auto. now rewrite Z.sub_0_r.
Qed.

Lemma dmapi_length {A B} (f : nat -> option A -> option B) i d : length (dmapi f i d) = length d.
Proof. revert i. induction d as [|x d IH]; intros i; cbn; auto. Qed.
Lemma nth_map_seq' {A} (f : nat -> option A) n m :
  nth m (map f (seq 0 n)) None = if Nat.ltb m n then f m else None.
Proof.
  destruct (Nat.ltb m n) eqn:L.
  - apply Nat.ltb_lt in L. rewrite (nth_indep _ None (f 0%nat)) by (rewrite map_length, seq_length; lia).
    rewrite map_nth. rewrite seq_nth by lia. reflexivity.
  - apply Nat.ltb_ge in L. apply nth_overflow. rewrite map_length, seq_length. lia.
Qed.
Lemma dis_zero_ext a b : (forall m, ris_zero (ores (dget a m)) = ris_zero (ores (dget b m))) ->
  dis_zero a = dis_zero b.
Proof.
  intros H. destruct (dis_zero b) eqn:E.
  - apply dis_zero_spec. intros m. rewrite H. now apply dis_zero_spec.
  - destruct (dis_zero a) eqn:E2; auto. rewrite dis_zero_spec in E2.
    assert (dis_zero b = true) by (apply dis_zero_spec; intros m; rewrite <- H; apply E2). congruence.
Qed.

(* the designated free map, entry by entry *)
Lemma dget_desig_free fr rq m :
  dget (desig_free fr rq) m =
  match dget fr m, dget rq m with Some f, Some r => Some (rmin f r) | _, _ => None end.
Proof. unfold desig_free, dget. rewrite nth_dmapi by auto. reflexivity. Qed.

(* the allocator reads a ledger only through its filtered view *)
Lemma alloc_core_view_ext kind scored infos t ou a b per count sh :
  filter_view a (minors_of infos t) = filter_view b (minors_of infos t) ->
  alloc_core kind scored infos t ou a per count sh = alloc_core kind scored infos t ou b per count sh.
Proof. intros E. unfold alloc_core. now rewrite E. Qed.

Lemma desig_avail_nil l : desig_avail l [] = l.
Proof. reflexivity. Qed.
Lemma desig_ledger_nil l : desig_ledger l [] = l.
Proof. reflexivity. Qed.

Section Avail.
  Variable l : ledger.
  Variable rq : devres.
  Hypothesis FS : free_struct l.
  Hypothesis Ht : dnonneg (total l).
  Hypothesis Hu : dnonneg (used l).
  Hypothesis Hr : dnonneg rq.
  Hypothesis Hne : dis_empty rq = false.
  Let lp := desig_avail l rq.
  Let T (m : nat) := ores (dget (total l) m).

  Lemma avail_at_overflow m : (length (free l) <= m)%nat -> avail_at l rq m = None.
  Proof. intros L. unfold avail_at. now rewrite dget_overflow. Qed.
  Lemma dget_avail_free m : dget (free lp) m = avail_at l rq m.
  Proof.
    unfold lp, desig_avail. rewrite Hne. cbn [free]. unfold dget. rewrite nth_map_seq'.
    destruct (Nat.ltb m (length (free l))) eqn:L; auto.
    apply Nat.ltb_ge in L. now rewrite avail_at_overflow.
  Qed.
  Lemma dget_avail_total m :
    dget (total lp) m = match avail_at l rq m with Some _ => Some (T m) | None => None end.
  Proof.
    unfold lp, desig_avail. rewrite Hne. cbn [total]. unfold dget. rewrite nth_map_seq'.
    destruct (Nat.ltb m (length (free l))) eqn:L; auto.
    apply Nat.ltb_ge in L. now rewrite avail_at_overflow.
  Qed.
  Lemma dget_avail_used m :
    dget (used lp) m = match avail_at l rq m with Some a => Some (rsubnn (T m) a) | None => None end.
  Proof.
    unfold lp, desig_avail. rewrite Hne. cbn [used]. unfold dget. rewrite nth_map_seq'.
    destruct (Nat.ltb m (length (free l))) eqn:L; auto.
    apply Nat.ltb_ge in L. now rewrite avail_at_overflow.
  Qed.

  (* an available amount: per exposed resource between 0 and min(total, free); nothing positive of
     a resource the device does not expose *)
  Lemma avail_exposed m a f k t :
    avail_at l rq m = Some a -> dget (free l) m = Some f -> rget (T m) k = Some t ->
    exists v, rget a k = Some v /\ 0 <= v <= t /\ v <= rval f k.
  Proof.
    unfold avail_at. intros Ea Ef ET. rewrite Ef in Ea.
    destruct (dget rq m) as [r|] eqn:Er; [|discriminate]. injection Ea as <-.
    rewrite rget_rnorm, rget_rmin. fold (T m). rewrite ET.
    destruct (free_exposed l FS Ht Hu m f Ef k t ET) as [fk [Efk B]].
    unfold rval. rewrite Efk. cbn [oz].
    pose proof (Hr m k) as Hrk. unfold dval, rval in Hrk. rewrite Er in Hrk. cbn [ores] in Hrk.
    destruct (rget r k) as [y|]; cbn [omin onorm oz] in *; eexists; split; eauto; lia.
  Qed.
  Lemma avail_unexposed m a k :
    avail_at l rq m = Some a -> rget (T m) k = None -> rget a k = None \/ rget a k = Some 0.
  Proof.
    unfold avail_at. intros Ea ET. destruct (dget (free l) m) as [f|] eqn:Ef; [|discriminate].
    destruct (dget rq m) as [r|] eqn:Er; [|discriminate]. injection Ea as <-.
    rewrite rget_rnorm, rget_rmin. fold (T m). rewrite ET.
    pose proof (Hr m k) as Hrk. unfold dval, rval in Hrk. rewrite Er in Hrk. cbn [ores] in Hrk.
    destruct (free_unexposed l FS m f Ef k ET) as [-> | ->]; cbn [omin onorm]; auto.
    destruct (rget r k) as [y|]; cbn [omin onorm oz] in *; auto. right. f_equal. lia.
  Qed.

  Lemma avail_fs : free_struct lp.
  Proof.
    intros m. rewrite dget_avail_free, dget_avail_total, dget_avail_used.
    destruct (avail_at l rq m) as [a|] eqn:Ea; [|reflexivity].
    cbn [reset_free_f ores]. f_equal. apply res_ext. intros k. rewrite !rget_rsubnn.
    assert (Ef : exists f, dget (free l) m = Some f).
    { unfold avail_at in Ea. destruct (dget (free l) m) as [f|]; [eauto|discriminate]. }
    destruct Ef as [f Ef].
    destruct (rget (T m) k) as [t|] eqn:ET.
    - destruct (avail_exposed m a f k t Ea Ef ET) as [v [-> [B _]]]. cbn. f_equal. lia.
    - destruct (avail_unexposed m a k Ea ET) as [-> | ->]; reflexivity.
  Qed.
  Lemma avail_total_nonneg : dnonneg (total lp).
  Proof.
    intros m k. unfold dval. rewrite dget_avail_total. destruct (avail_at l rq m).
    - cbn [ores]. apply (Ht m k).
    - cbn [ores]. rewrite rval_rempty. lia.
  Qed.
  Lemma avail_used_nonneg : dnonneg (used lp).
  Proof.
    intros m k. unfold dval. rewrite dget_avail_used. destruct (avail_at l rq m).
    - cbn [ores]. apply rval_rsubnn_nonneg.
    - cbn [ores]. rewrite rval_rempty. lia.
  Qed.

  (* nodeDevice.filter shows the allocator the same thing of both *)
  Lemma desig_view_eq minors : filter_view (desig_ledger l rq) minors = filter_view lp minors.
  Proof.
    unfold desig_ledger. rewrite Hne.
    set (ld := mkLedger (total l) (desig_free (free l) rq) [] []).
    assert (Len : length (free ld) = length (free lp)).
    { unfold ld, lp, desig_avail. rewrite Hne. cbn [free]. unfold desig_free.
      now rewrite dmapi_length, map_length, seq_length. }
    assert (Ent : forall m,
      match dget (free ld) m, dget (free lp) m with
      | Some x, Some y => y = rnorm (T m) x
      | None, None => True
      | _, _ => False
      end).
    { intros m. unfold ld. cbn [free]. rewrite dget_desig_free, dget_avail_free. unfold avail_at.
      destruct (dget (free l) m), (dget rq m); auto. }
    assert (Tot : forall m, dget (free lp) m <> None -> ores (dget (total lp) m) = T m).
    { intros m H. rewrite dget_avail_total. rewrite dget_avail_free in H.
      destruct (avail_at l rq m); [reflexivity|congruence]. }
    unfold filter_view.
    assert (Z : dis_zero (free ld) = dis_zero (free lp)).
    { apply dis_zero_ext. intros m. specialize (Ent m).
      destruct (dget (free ld) m) as [x|], (dget (free lp) m) as [y|]; try tauto.
      subst y. cbn [ores]. apply ris_zero_ext. intros k. now rewrite rval_rnorm. }
    rewrite Z. destruct (dis_zero (free lp) || match minors with [] => true | _ => false end); auto.
    f_equal. f_equal.
    - apply (nth_ext _ _ None None); [now rewrite !dmapi_length|].
      intros m _. rewrite !nth_dmapi by auto. cbn [Nat.add]. specialize (Ent m). specialize (Tot m).
      fold (dget (free ld) m). fold (dget (free lp) m).
      destruct (dget (free ld) m) as [x|], (dget (free lp) m) as [y|]; try tauto.
      destruct (memn m minors); auto. f_equal. unfold ld. cbn [total]. fold (T m).
      symmetry. apply Tot. discriminate.
    - apply (nth_ext _ _ None None); [now rewrite !dmapi_length|].
      intros m _. rewrite !nth_dmapi by auto. cbn [Nat.add]. specialize (Ent m). specialize (Tot m).
      fold (dget (free ld) m). fold (dget (free lp) m).
      destruct (dget (free ld) m) as [x|], (dget (free lp) m) as [y|]; try tauto.
      destruct (memn m minors); auto. subst y. rewrite Tot by discriminate.
      unfold ld. cbn [total]. fold (T m). now rewrite rsubnn_rnorm.
  Qed.

  (* a grant that fits the available amounts fits the real free amounts *)
  Lemma avail_okx b minors per m :
    ledger_okx b lp minors per m -> ledger_okx b l minors per m.
  Proof.
    intros [Hin [a [Ea [R Z]]]]. rewrite dget_avail_free in Ea.
    rewrite dget_avail_total, Ea in R, Z. cbn [ores] in R, Z.
    assert (Ef : exists f, dget (free l) m = Some f).
    { unfold avail_at in Ea. destruct (dget (free l) m) as [f|]; [eauto|discriminate]. }
    destruct Ef as [f Ef]. split; auto. exists f. split; auto. split; auto.
    intros Hb k t v ET Ev. specialize (R Hb k t v ET Ev).
    destruct (avail_exposed m a f k t Ea Ef ET) as [w [Ew [_ B]]].
    unfold rval in R at 1. rewrite Ew in R. cbn [oz] in R. lia.
  Qed.

  (* the partition path's side condition is inherited *)
  Lemma avail_pfit kind t per sh :
    pfit_t kind t (total l) per sh = true -> pfit_t kind t (total lp) per sh = true.
  Proof.
    unfold pfit_t, pfit. destruct (negb (Nat.eqb t 0)); auto. cbn [orb].
    destruct (negb (has_part_table kind)); auto. destruct sh; auto. cbn [orb].
    unfold part_fit. rewrite !forallb_forall. intros H o Ho.
    apply In_dget in Ho as [m [_ <-]]. rewrite dget_avail_total.
    destruct (avail_at l rq m); auto. unfold T.
    destruct (dget (total l) m) as [T'|] eqn:E; [|reflexivity]. cbn [ores].
    apply (H (Some T')). now apply dget_In in E.
  Qed.
End Avail.

(* ------------------------------------------------------------------ the allocator on a designated ledger *)
Section DesigCore.
  Variable kind : Z.
  Variable infos : list devinfo.
  Variable t : nat.
  Variable l : ledger.
  Variable rq : devres.
  Hypothesis G : lgood l.
  Hypothesis Hr : dnonneg rq.
  Variable per : res.
  Variable count : Z.
  Variable shared scored : bool.
  Hypothesis Hcount : 1 <= count.
  Hypothesis Hper : most_of kind = true -> res_nonneg per = true.
  Let minors := minors_of infos t.
  Let b := pfit_t kind t (total l) per shared.

  Lemma desig_core_sound al :
    alloc_core kind scored infos t (used l) (desig_ledger l rq) per count shared = Some al ->
    length al = desired_count count /\ NoDup (map fst al) /\
    forall a, In a al -> snd a = per /\ ledger_okx b l minors per (fst a)
                         /\ ledger_okx b (desig_avail l rq) minors per (fst a).
  Proof.
    pose proof (lg_fs _ G) as FS. pose proof (lg_tot _ G) as Ht. pose proof (lgood_used_nonneg _ G) as Hu.
    destruct (dis_empty rq) eqn:Hne.
    - unfold desig_ledger, desig_avail. rewrite Hne. intros H.
      apply (alloc_core_sound kind infos t (used l) l FS Ht Hu per count shared scored Hcount Hper) in H
        as [Len [ND Hall]].
      split; auto. split; auto. intros a Ha. destruct (Hall a Ha) as [E Lo]. split; auto.
      split; now apply ledger_ok_okx.
    - rewrite (alloc_core_view_ext kind scored infos t (used l) _ (desig_avail l rq))
        by (apply desig_view_eq; auto).
      intros H.
      pose proof (avail_fs l rq FS Ht Hu Hr Hne) as FSp.
      pose proof (avail_total_nonneg l rq Ht Hne) as Htp.
      pose proof (avail_used_nonneg l rq Hne) as Hup.
      apply (alloc_core_sound kind infos t (used l) (desig_avail l rq) FSp Htp Hup per count shared scored Hcount Hper)
        in H as [Len [ND Hall]].
      split; auto. split; auto. intros a Ha. destruct (Hall a Ha) as [E Lo]. split; auto.
      apply (ledger_ok_okx (desig_avail l rq) minors FSp Htp Hup) in Lo.
      assert (Lo' : ledger_okx b (desig_avail l rq) minors per (fst a)).
      { destruct Lo as [Hin [f [Ef [R Z]]]]. split; auto. exists f. split; auto. split; auto.
        intros Hb. apply R. apply (avail_pfit l rq Hne); auto. }
      split; auto. apply (avail_okx l rq FS Ht Hu Hr Hne); auto.
  Qed.

  Lemma desig_core_complete :
    alloc_core kind scored infos t (used l) (desig_ledger l rq) per count shared = None ->
    (eligible_count (desig_avail l rq) minors per < desired_count count)%nat \/
    (t = 0%nat /\ part_short kind (desig_avail l rq) minors count shared = true).
  Proof.
    pose proof (lg_fs _ G) as FS. pose proof (lg_tot _ G) as Ht. pose proof (lgood_used_nonneg _ G) as Hu.
    destruct (dis_empty rq) eqn:Hne.
    - unfold desig_ledger, desig_avail. rewrite Hne.
      apply (alloc_core_complete kind infos t (used l) l FS Ht Hu per count shared scored Hcount).
    - rewrite (alloc_core_view_ext kind scored infos t (used l) _ (desig_avail l rq))
        by (apply desig_view_eq; auto).
      apply (alloc_core_complete kind infos t (used l) (desig_avail l rq)
               (avail_fs l rq FS Ht Hu Hr Hne) (avail_total_nonneg l rq Ht Hne)
               (avail_used_nonneg l rq Hne) per count shared scored Hcount).
  Qed.
End DesigCore.
