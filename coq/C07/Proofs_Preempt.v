(* C07 — the verdict of a preemption dry-run: the allocator runs on a ledger whose free map
   counts the victims' holdings as free; that ledger is again "free = total - used'" for a
   reduced used', so the allocator theorems apply to it. *)
From Coq Require Import List ZArith Bool Arith Lia Permutation.
From Verif Require Import C07.Model C07.Spec C07.Proofs_Res C07.Proofs_Ledger C07.Proofs_View
  C07.Proofs_Alloc C07.Proofs_Allocate C07.Proofs_Desig C07.Proofs_AllocateR.
Import ListNotations.
Open Scope Z_scope.

Lemma nth_map_seq {A} (f : nat -> option A) n m :
  nth m (map f (seq 0 n)) None = if Nat.ltb m n then f m else None.
Proof.
  destruct (Nat.ltb m n) eqn:L.
  - apply Nat.ltb_lt in L. rewrite (nth_indep _ None (f 0%nat)) by (rewrite map_length, seq_length; lia).
    rewrite map_nth. rewrite seq_nth by lia. reflexivity.
  - apply Nat.ltb_ge in L. apply nth_overflow. rewrite map_length, seq_length. lia.
Qed.

Section Preempt.
  Variable l : ledger.
  Variable pre : devres.
  Hypothesis FS : free_struct l.
  Hypothesis Ht : dnonneg (total l).
  Hypothesis Hu : dnonneg (used l).

  (* the reduced in-use amount of minor m *)
  Definition up_at (m : nat) : option res :=
    match dget pre m with
    | Some v' =>
        let up := rsubnn (ores (dget (used l) m)) v' in
        if ris_zero (rsubnn (ores (dget (total l) m)) up) then dget (used l) m else Some up
    | None => dget (used l) m
    end.
  Definition used_p : devres := map up_at (seq 0 (Nat.max (length pre) (length (used l)))).
  Definition ledger_p : ledger := mkLedger (total l) (calc_free l pre) used_p [].

  Lemma dget_used_p m : dget used_p m = up_at m.
  Proof.
    unfold used_p, dget. rewrite nth_map_seq.
    destruct (Nat.ltb m (Nat.max (length pre) (length (used l)))) eqn:L; auto.
    apply Nat.ltb_ge in L. unfold up_at. rewrite !dget_overflow by lia. reflexivity.
  Qed.

  Lemma dget_calc_free m :
    dget (calc_free l pre) m =
    match dget pre m with
    | Some v' =>
        let rem := rsubnn (ores (dget (total l) m)) (rsubnn (ores (dget (used l) m)) v') in
        if ris_zero rem then dget (free l) m else Some rem
    | None => dget (free l) m
    end.
  Proof.
    unfold calc_free.
    set (merged := dmapi (fun m v => match v with
                  | Some v' => let rem := rsubnn (ores (dget (total l) m))
                                                 (rsubnn (ores (dget (used l) m)) v') in
                               if ris_zero rem then None else Some rem
                  | None => None end) 0 pre).
    assert (Hm : forall j, nth j merged None =
                 match dget pre j with
                 | Some v' => let rem := rsubnn (ores (dget (total l) j)) (rsubnn (ores (dget (used l) j)) v') in
                              if ris_zero rem then None else Some rem
                 | None => None end).
    { intros j. unfold merged. rewrite nth_dmapi by auto. reflexivity. }
    destruct (dis_empty merged) eqn:E.
    - rewrite dis_empty_spec in E. specialize (E m). rewrite Hm in E.
      destruct (dget pre m) as [v'|]; auto. cbn zeta in *.
      destruct (ris_zero _); [reflexivity|discriminate].
    - unfold dget at 1. rewrite dget_dzip by auto. rewrite Hm.
      destruct (dget pre m) as [v'|]; auto. cbn zeta. destruct (ris_zero _); reflexivity.
  Qed.

  Lemma ledger_p_fs : free_struct ledger_p.
  Proof.
    intros m. cbn [ledger_p total free used]. rewrite dget_calc_free, dget_used_p. unfold up_at.
    destruct (dget pre m) as [v'|]; [|apply FS]. cbn zeta.
    destruct (ris_zero (rsubnn (ores (dget (total l) m)) (rsubnn (ores (dget (used l) m)) v'))); [apply FS|].
    reflexivity.
  Qed.
  Lemma ledger_p_used_nonneg : dnonneg (used ledger_p).
  Proof.
    intros m k. cbn [ledger_p used]. unfold dval. rewrite dget_used_p. unfold up_at.
    destruct (dget pre m) as [v'|]; [|apply Hu]. cbn zeta.
    destruct (ris_zero _); [apply Hu|]. cbn [ores]. apply rval_rsubnn_nonneg.
  Qed.
End Preempt.

(* filter_view only reads the total and the free map *)
Lemma filter_view_ext a b minors :
  total a = total b -> free a = free b -> filter_view a minors = filter_view b minors.
Proof. intros E1 E2. unfold filter_view. now rewrite E1, E2. Qed.
Lemma alloc_core_ext kind scored infos t ou a b per count sh :
  total a = total b -> free a = free b ->
  alloc_core kind scored infos t ou a per count sh = alloc_core kind scored infos t ou b per count sh.
Proof. intros E1 E2. unfold alloc_core. now rewrite (filter_view_ext a b _ E1 E2). Qed.

Lemma eligible_count_ext a b minors per :
  free a = free b -> eligible_count a minors per = eligible_count b minors per.
Proof. intros E. unfold eligible_count, eligible_minor. now rewrite E. Qed.
Lemma part_short_ext kind a b minors count sh :
  total a = total b -> free a = free b ->
  part_short kind a minors count sh = part_short kind b minors count sh.
Proof. intros E1 E2. unfold part_short, part_free_minor. now rewrite E1, E2. Qed.

Section PreemptType.
  Variable kind : Z.
  Variable ls : list ledger.
  Variable infos : list devinfo.
  Variable t : nat.
  Variable victims : list Z.
  Let l := ledger_of ls t.
  Let minors := minors_of infos t.
  Hypothesis G : lgood l.
  Variable per : res.
  Variable count : Z.
  Variable shared : bool.
  Hypothesis Hcount : 1 <= count.
  Hypothesis Hper : most_of kind = true -> res_nonneg per = true.
  Let pl := preempt_ledger l victims.
  Let lp := ledger_p l (preempt_of l victims).

  Lemma alloc_type_on_sound al :
    pfit_t kind t (total l) per shared = true ->
    alloc_type_on kind ls infos t per count shared victims = Some al ->
    (desired_count count <= maybe_count pl minors per)%nat.
  Proof.
    intros Pf. unfold alloc_type_on. fold l. fold pl.
    rewrite (alloc_core_ext kind false infos t (used l) pl lp) by reflexivity.
    intros H.
    pose proof (ledger_p_fs l (preempt_of l victims) (lg_fs _ G)) as FSp.
    pose proof (ledger_p_used_nonneg l (preempt_of l victims) (lgood_used_nonneg _ G)) as Hup.
    apply (alloc_core_sound kind infos t (used l) lp FSp (lg_tot _ G) Hup per count shared false Hcount Hper)
      in H as [Len [ND Hall]].
    rewrite <- Len, <- (map_length fst al). unfold maybe_count.
    apply NoDup_incl_length; auto. intros m Hm. apply in_map_iff in Hm as [a [<- Ha]].
    destruct (Hall a Ha) as [_ [Hin [f [Ef [R Z]]]]]. specialize (R Pf).
    apply filter_In. split.
    - apply in_seq. split; [lia|]. cbn [Nat.add].
      destruct (Nat.lt_ge_cases (fst a) (length (free pl))) as [L|L]; auto.
      change (free pl) with (free lp) in L. rewrite dget_overflow in Ef by auto. discriminate.
    - unfold maybe_minor. change (total pl) with (total lp). change (free pl) with (free lp).
      assert (Mm : memn (fst a) minors = true) by now apply memn_In.
      rewrite Ef, Z, Mm. cbn [negb andb].
      unfold fits_exposed. apply forallb_forall. intros k _.
      change (total pl) with (total lp). change (free pl) with (free lp).
      destruct (rget (ores (dget (total lp) (fst a))) k) as [T|] eqn:ET; auto.
      destruct (rget per k) as [v|] eqn:Ev; auto. apply Z.leb_le.
      pose proof (view_free_rle_exposed lp FSp (lg_tot _ G) Hup (fst a) f Ef per k T v R ET Ev) as Hv.
      unfold dval. rewrite Ef. exact Hv.
  Qed.

  Lemma alloc_type_on_complete :
    alloc_type_on kind ls infos t per count shared victims = None ->
    (eligible_count pl minors per < desired_count count)%nat \/
    (t = 0%nat /\ part_short kind pl minors count shared = true).
  Proof.
    unfold alloc_type_on. fold l. fold pl.
    rewrite (alloc_core_ext kind false infos t (used l) pl lp) by reflexivity.
    intros H. rewrite (eligible_count_ext pl lp) by reflexivity.
    rewrite (part_short_ext kind pl lp) by reflexivity.
    pose proof (ledger_p_fs l (preempt_of l victims) (lg_fs _ G)) as FSp.
    pose proof (ledger_p_used_nonneg l (preempt_of l victims) (lgood_used_nonneg _ G)) as Hup.
    exact (alloc_core_complete kind infos t (used l) lp FSp (lg_tot _ G) Hup per count shared false Hcount H).
  Qed.
End PreemptType.

Lemma preempt_verdict_unfold kind ls infos rq victims :
  preempt_verdict kind ls infos rq victims =
  let refused t := match treq_of rq t with
                   | TReq per count sh =>
                       match alloc_type_on kind ls infos t per count sh victims with
                       | None => true | Some _ => false end
                   | _ => false end in
  if is_invalid (treq_of rq 0) || (is_invalid (treq_of rq 1) || (is_invalid (treq_of rq 2) || false))
  then c_unresolvable
  else if negb (is_req (treq_of rq 0) || (is_req (treq_of rq 1) || (is_req (treq_of rq 2) || false)))
  then c_skip
  else if no_device_t ls 0 rq || (no_device_t ls 1 rq || (no_device_t ls 2 rq || false))
  then c_unresolvable
  else if part_unsupported kind (treq_of rq 0) then c_unresolvable
  else if refused 0%nat || (refused 1%nat || (refused 2%nat || false))
  then c_unsched
  else c_ok.
Proof. reflexivity. Qed.

Lemma sched_ok_pfit kind ls rq t per count sh :
  sched_ok kind ls rq = true -> treq_of rq t = TReq per count sh ->
  pfit_t kind t (total (ledger_of ls t)) per sh = true.
Proof.
  intros S E. unfold pfit_t. destruct t as [|t]; [|reflexivity]. cbn [Nat.eqb negb orb].
  unfold sched_ok in S. now rewrite E in S.
Qed.

Lemma check_preempt_model k kind ls infos rq victims :
  k_prev k = ls -> k_infos k = infos -> k_kind k = kind -> (forall t, lgood (ledger_of ls t)) ->
  raw_nonneg rq = true ->
  check_preempt k rq victims (out_code (preempt_verdict kind ls infos rq victims)) = 0.
Proof.
  intros E1 E2 E3 G NN. unfold check_preempt, refused_ok, skip_ok. rewrite E1, E2, E3. cbn [o_code out_code].
  rewrite preempt_verdict_unfold. cbn zeta. cbn [existsb forallb type_ids].
  destruct (is_invalid (treq_of rq 0) || _) eqn:I.
  { unfold c_unresolvable. cbn [Z.eqb Pos.eqb]. reflexivity. }
  destruct (negb _) eqn:Q.
  { unfold c_skip. cbn [Z.eqb Pos.eqb]. unfold chk.
    apply negb_true_iff in Q.
    apply orb_false_iff in I as [I0 I]. apply orb_false_iff in I as [I1 I]. apply orb_false_iff in I as [I2 _].
    apply orb_false_iff in Q as [Q0 Q]. apply orb_false_iff in Q as [Q1 Q]. apply orb_false_iff in Q as [Q2 _].
    now rewrite I0, I1, I2, Q0, Q1, Q2. }
  destruct (no_device_t ls 0 rq || _) eqn:N.
  { unfold c_unresolvable. cbn [Z.eqb Pos.eqb]. unfold chk. cbn [orb]. reflexivity. }
  destruct (part_unsupported kind (treq_of rq 0)) eqn:Pu.
  { unfold c_unresolvable. cbn [Z.eqb Pos.eqb]. unfold chk. now rewrite orb_true_r. }
  assert (Short : forall t, match treq_of rq t with
                   | TReq per count sh =>
                       match alloc_type_on kind ls infos t per count sh victims with
                       | None => true | Some _ => false end
                   | _ => false end = true -> preempt_short_t kind ls infos victims t rq = true).
  { intros t. unfold preempt_short_t. destruct (treq_of rq t) as [| |per count sh] eqn:E; try discriminate.
    destruct (alloc_type_on kind ls infos t per count sh victims) eqn:A; [discriminate|]. intros _.
    apply treq_spec in E as [Hc _].
    destruct (alloc_type_on_complete kind ls infos t victims (G t) per count sh Hc A) as [Hlt|[-> Hp]].
    - apply orb_true_iff. left. now apply Nat.ltb_lt.
    - apply orb_true_iff. right. now rewrite Hp. }
  assert (Enough : sched_ok kind ls rq = true -> forall t, match treq_of rq t with
                   | TReq per count sh =>
                       match alloc_type_on kind ls infos t per count sh victims with
                       | None => true | Some _ => false end
                   | _ => false end = false -> preempt_enough_t ls infos victims t rq = true).
  { intros S t. unfold preempt_enough_t. destruct (treq_of rq t) as [| |per count sh] eqn:E; auto.
    destruct (alloc_type_on kind ls infos t per count sh victims) eqn:A; [|discriminate]. intros _.
    apply Nat.leb_le. pose proof (sched_ok_pfit kind ls rq t per count sh S E) as Pf.
    apply treq_spec in E as [Hc [Hp _]]. eapply alloc_type_on_sound; eauto. }
  match goal with |- context [if ?b then c_unsched else c_ok] => destruct b eqn:R end.
  - unfold c_unsched. cbn [Z.eqb Pos.eqb]. unfold chk.
    apply orb_true_iff in R as [R|R]; [rewrite (Short _ R); reflexivity|].
    apply orb_true_iff in R as [R|R]; [rewrite (Short _ R); now rewrite orb_true_r|].
    apply orb_true_iff in R as [R|R]; [|discriminate].
    rewrite (Short _ R). now rewrite !orb_true_r.
  - unfold c_ok. cbn [Z.eqb]. unfold chk.
    destruct (sched_ok kind ls rq) eqn:S; [|reflexivity]. cbn [negb orb].
    apply orb_false_iff in R as [R0 R]. apply orb_false_iff in R as [R1 R]. apply orb_false_iff in R as [R2 _].
    now rewrite (Enough eq_refl _ R0), (Enough eq_refl _ R1), (Enough eq_refl _ R2).
Qed.

(* ------------------------------------------------------------------ what the dry-run's free map means *)
Lemma calc_free_val l pre m k :
  free_struct l -> dnonneg (total l) -> dnonneg (used l) -> dnonneg pre ->
  dval (calc_free l pre) m k =
  Z.max 0 (dval (total l) m k - Z.max 0 (dval (used l) m k - dval pre m k)).
Proof.
  intros FS Ht Hu Hp. pose proof (free_struct_eq l FS Ht Hu m k) as Fe.
  pose proof (Ht m k) as Htk. pose proof (Hu m k) as Huk. pose proof (Hp m k) as Hpk.
  unfold dval at 1. rewrite dget_calc_free.
  destruct (dget pre m) as [v'|] eqn:Ep.
  - assert (Ev : dval pre m k = rval v' k) by (unfold dval; now rewrite Ep).
    assert (Hrem : forall j, rval (rsubnn (ores (dget (total l) m)) (rsubnn (ores (dget (used l) m)) v')) j
                   = Z.max 0 (dval (total l) m j - Z.max 0 (dval (used l) m j - dval pre m j))).
    { intros j. rewrite rval_rsubnn by apply rval_rsubnn_nonneg.
      rewrite rval_rsubnn.
      - unfold dval. now rewrite Ep.
      - specialize (Hp m j). unfold dval in Hp. now rewrite Ep in Hp. }
    cbn zeta. destruct (ris_zero _) eqn:Z.
    + rewrite ris_zero_spec in Z. specialize (Z k). rewrite Hrem in Z.
      fold (dval (free l) m k). lia.
    + cbn [ores]. apply Hrem.
  - assert (Ev : dval pre m k = 0) by (unfold dval; rewrite Ep; apply rval_rempty).
    fold (dval (free l) m k). lia.
Qed.

Lemma dval_dzip_merge a b m k : dval (dzip merge_res a b) m k = dval a m k + dval b m k.
Proof.
  unfold dval, dget. rewrite dget_dzip by auto.
  destruct (nth m a None) as [x|], (nth m b None) as [y|]; cbn [merge_res ores];
    rewrite ?rval_radd, ?rval_rempty; lia.
Qed.
Definition victim_val (l : ledger) (m k : nat) (v : Z) : Z :=
  match lookup_aset v (aset l) with Some d => dval d m k | None => 0 end.
Lemma preempt_of_val l victims m k :
  dval (preempt_of l victims) m k = sumZ (map (victim_val l m k) victims).
Proof.
  unfold preempt_of.
  assert (G : forall vs pre,
    dval (fold_left (fun pre v => match lookup_aset v (aset l) with
                          | Some d => if dis_empty d then pre else dzip merge_res pre d
                          | None => pre end) vs pre) m k
    = dval pre m k + sumZ (map (victim_val l m k) vs)).
  { induction vs as [|v vs IH]; intros pre; cbn [fold_left map]; [rewrite sumZ_nil; lia|].
    rewrite IH, sumZ_cons. unfold victim_val at 2.
    destruct (lookup_aset v (aset l)) as [d|]; [|lia].
    destruct (dis_empty d) eqn:E; [|rewrite dval_dzip_merge; lia].
    assert (dval d m k = 0); [|lia].
    rewrite dis_empty_spec in E. unfold dval, dget. rewrite E. apply rval_rempty. }
  rewrite G, dval_nil. lia.
Qed.
Lemma lookup_aset_In v (s : list (Z * devres)) d : lookup_aset v s = Some d -> In (v, d) s.
Proof.
  induction s as [|[q e] s IH]; cbn; [discriminate|]. destruct (q =? v) eqn:E.
  - intros H. injection H as <-. apply Z.eqb_eq in E. subst. now left.
  - intros H. right. auto.
Qed.
Lemma preempt_of_nonneg l victims : lgood l -> dnonneg (preempt_of l victims).
Proof.
  intros G m k. rewrite preempt_of_val. apply sumZ_map_nonneg. intros v _. unfold victim_val.
  destruct (lookup_aset v (aset l)) as [d|] eqn:E; [|lia].
  apply lookup_aset_In in E. apply (lg_aset _ G (v, d) E).
Qed.
