(* C07 — the main theorem: on every history the decision procedure of the property accepts
   the model's own observations. *)
From Coq Require Import List ZArith Bool Arith Lia Permutation.
From Verif Require Import C07.Model C07.Spec C07.Proofs_Res C07.Proofs_Ledger C07.Proofs_View
  C07.Proofs_Alloc C07.Proofs_Allocate C07.Proofs_Desig C07.Proofs_AllocateR C07.Proofs_State C07.Proofs_Inv
  C07.Proofs_Preempt.
Import ListNotations.
Open Scope Z_scope.

(* ------------------------------------------------------------------ Props imply their checkers *)
Lemma free_eqb_complete l : free_eq l -> free_eqb l = true.
Proof.
  intros H. unfold free_eqb. apply forallb_forall. intros m _. apply forallb_forall. intros k _.
  apply Z.eqb_eq. apply H.
Qed.
Lemma used_eq_sumb_complete l : used_eq_sum l -> used_eq_sumb l = true.
Proof.
  intros H. unfold used_eq_sumb. apply forallb_forall. intros m _. apply forallb_forall. intros k _.
  apply Z.eqb_eq. apply H.
Qed.
(* and conversely: beyond the scanned range every amount is zero *)
Lemma free_eqb_sound l : free_eqb l = true -> free_eq l.
Proof.
  unfold free_eqb, free_eq. rewrite forallb_forall. intros H m k.
  destruct (Nat.lt_ge_cases m (minor_bound l)) as [L|L].
  - specialize (H m). rewrite in_seq in H. specialize (H (conj (Nat.le_0_l m) L)).
    rewrite forallb_forall in H. destruct (Nat.lt_ge_cases k 3) as [Lk|Lk].
    + apply Z.eqb_eq. apply H. now apply slots_all.
    + unfold dval. rewrite !rval_big by auto. reflexivity.
  - unfold minor_bound in L. rewrite !dval_overflow by lia. reflexivity.
Qed.
Lemma aset_bound_le (s : list (Z * devres)) e : In e s -> (length (snd e) <= aset_bound s)%nat.
Proof.
  unfold aset_bound. induction s as [|x s IH]; intros H; [destruct H|].
  cbn [map fold_right]. destruct H as [->|H]; [lia|]. specialize (IH H). lia.
Qed.
Lemma used_eq_sumb_sound l : used_eq_sumb l = true -> used_eq_sum l.
Proof.
  unfold used_eq_sumb, used_eq_sum. rewrite forallb_forall. intros H m k.
  destruct (Nat.lt_ge_cases m (Nat.max (length (used l)) (aset_bound (aset l)))) as [L|L].
  - specialize (H m). rewrite in_seq in H. specialize (H (conj (Nat.le_0_l m) L)).
    rewrite forallb_forall in H. destruct (Nat.lt_ge_cases k 3) as [Lk|Lk].
    + apply Z.eqb_eq. apply H. now apply slots_all.
    + unfold dval at 1. rewrite rval_big by auto. symmetry. unfold aset_sum.
      apply sumZ_map_zero. intros e _. unfold dval. now apply rval_big.
  - rewrite dval_overflow by lia. symmetry. unfold aset_sum. apply sumZ_map_zero.
    intros e He. apply dval_overflow. pose proof (aset_bound_le _ _ He). lia.
Qed.

Lemma opt_eqb_refl a : opt_eqb a a = true.
Proof. destruct a; cbn; auto. apply Z.eqb_refl. Qed.
Lemma res_eqb_refl r : res_eqb r r = true.
Proof. unfold res_eqb. now rewrite !opt_eqb_refl. Qed.
Lemma list_eqb_refl {A} (e : A -> A -> bool) l : (forall x, e x x = true) -> list_eqb e l l = true.
Proof. intros H. induction l; cbn; auto. now rewrite H, IHl. Qed.
Lemma devres_eqb_refl d : devres_eqb d d = true.
Proof. apply list_eqb_refl. intros [r|]; cbn; auto. apply res_eqb_refl. Qed.
Lemma ledger_eqb_refl l : ledger_eqb l l = true.
Proof.
  unfold ledger_eqb. rewrite !devres_eqb_refl. cbn [andb]. apply list_eqb_refl.
  intros [p d]. cbn. now rewrite Z.eqb_refl, devres_eqb_refl.
Qed.
Lemma ledgers_eqb_same a b :
  (forall t, (t < 3)%nat -> ledger_of b t = ledger_of a t) -> ledgers_eqb a b = true.
Proof.
  intros H. unfold ledgers_eqb. apply forallb_forall. intros t Ht.
  assert (t < 3)%nat by (cbn in Ht; lia). rewrite H by auto. apply ledger_eqb_refl.
Qed.

(* ------------------------------------------------------------------ invariant over the state *)
Lemma inv_remove s p da :
  ugood s -> wgood s -> dallocs_wf da = true -> inv_ok (ledgers s) ->
  inv_ok (cache_update false (ledgers s) p da).
Proof.
  intros U W Wd [N C]. split.
  - intros t Ht. rewrite ledger_of_cache_update by auto. unfold upd_t.
    destruct (allocs_of da t) eqn:E; [now apply N|]. rewrite <- E.
    apply no_overcommit_remove; [apply (good_lgood s t U W)|now apply dallocs_wf_t|now apply N].
  - rewrite ledger_of_cache_update by lia. unfold upd_t.
    destruct (allocs_of da 0); auto. now apply gpu_coupled_remove.
Qed.

Lemma ledger_okx_true b l minors per m : b = true -> ledger_okx b l minors per m -> ledger_okx true l minors per m.
Proof. intros ->. auto. Qed.

(* committing an allocation whose every device was found to fit keeps the invariant *)
Lemma inv_commit s p rq da :
  ugood s -> wgood s -> raw_nonneg rq = true -> lookup p (envrec s) = None ->
  sched_ok (nkind s) (ledgers s) rq = true ->
  (forall t, (t < 3)%nat -> type_done (nkind s) (ledgers s) (infos s) rq t (allocs_of da t)) ->
  inv_ok (ledgers s) -> inv_ok (cache_update true (ledgers s) p da).
Proof.
  intros U W NN Lp So D [N C].
  assert (G : forall t, lgood (ledger_of (ledgers s) t)) by (intros t; apply (good_lgood s t U W)).
  pose proof (type_done_wf _ _ _ _ _ (G 0%nat) NN D) as Wd.
  assert (Hp : forall t, (t < 3)%nat -> aset_mem p (aset (ledger_of (ledgers s) t)) = false).
  { intros t Ht. pose proof (ug_cons _ U t Ht p) as Cp. now rewrite Lp in Cp. }
  assert (Step : forall t, (t < 3)%nat ->
     no_overcommit (ledger_of (cache_update true (ledgers s) p da) t) /\
     (t = 0%nat -> gpu_coupled (ledger_of (cache_update true (ledgers s) p da) t))).
  { intros t Ht. rewrite ledger_of_cache_update by auto. unfold upd_t.
    specialize (D t Ht). unfold type_done in D. specialize (N t Ht).
    destruct (allocs_of da t) as [|a0 al0] eqn:Ea; [split; auto; intros ->; exact C|].
    rewrite <- Ea in *.
    destruct (treq_of rq t) as [| |per count sh] eqn:Et; try (rewrite D in Ea; discriminate).
    destruct D as [_ [ND Hall0]].
    pose proof (sched_ok_pfit _ _ _ _ _ _ _ So Et) as Pf.
    assert (Hall : forall a, In a (allocs_of da t) ->
              ledger_okx true (ledger_of (ledgers s) t) (minors_of (infos s) t) per (fst a) /\
              granted t (total (ledger_of (ledgers s) t)) per a).
    { intros a Ha. destruct (Hall0 a Ha) as [H1 H2]. split; auto. eapply ledger_okx_true; eauto. }
    apply treq_spec in Et as [_ [Hper [E2 _]]]. specialize (Hper NN).
    set (l := ledger_of (ledgers s) t) in *.
    assert (Gl' : lgood (ledger_add l p (allocs_of da t))).
    { apply ledger_add_good; [apply G|now apply dallocs_wf_t]. }
    assert (S01 : forall k, (k < 2)%nat -> forall m T,
              rget (ores (dget (total (ledger_add l p (allocs_of da t))) m)) k = Some T ->
              dval (used (ledger_add l p (allocs_of da t))) m k <= T).
    { intros k Hk. eapply (add_slot_ok l t (minors_of (infos s) t) per p (allocs_of da t)); eauto.
      intros a Ha. destruct (Hall a Ha) as [_ [G0 [G1 _]]]. unfold rval.
      destruct k as [|[|k]]; cbn [rget]; try lia; congruence. }
    assert (Cp : t = 0%nat -> gpu_coupled (ledger_add l p (allocs_of da t))).
    { intros E0. eapply (gpu_coupled_add l t (minors_of (infos s) t) per p (allocs_of da t)); eauto.
      unfold l. now rewrite E0. }
    split; auto.
    intros m k T E. destruct k as [|[|[|k]]].
    - apply (S01 0%nat); auto.
    - apply (S01 1%nat); auto.
    - destruct (Nat.eq_dec t 0) as [E0|E0].
      + apply (gpu_mem_bound _ (lg_sum _ Gl') (Cp E0) (S01 1%nat ltac:(lia))). exact E.
      + eapply (add_slot_ok l t (minors_of (infos s) t) per p (allocs_of da t)); eauto.
        intros a Ha. destruct (Hall a Ha) as [_ [_ [_ [Gn _]]]]. now rewrite (Gn E0).
    - rewrite rget_big in E by lia. discriminate. }
  split.
  - intros t Ht. now apply Step.
  - apply (Step 0%nat); auto.
Qed.

Lemma inv_schedule s p rq da :
  ugood s -> wgood s -> raw_nonneg rq = true -> lookup p (envrec s) = None ->
  sched_ok (nkind s) (ledgers s) rq = true ->
  allocate (nkind s) (ledgers s) (infos s) rq = ADone da -> inv_ok (ledgers s) ->
  inv_ok (cache_update true (ledgers s) p da).
Proof.
  intros U W NN Lp So A. apply (inv_commit s p rq da); auto.
  apply allocate_done; auto. intros t. now apply good_lgood.
Qed.
(* ... whether the cycle carries a designated allocation or not *)
Lemma inv_reserve s p c da :
  ugood s -> wgood s -> cycle_wf c -> lookup p (envrec s) = None ->
  sched_ok (nkind s) (ledgers s) (fst c) = true ->
  cycle_allocate s c = ADone da -> inv_ok (ledgers s) ->
  inv_ok (cache_update true (ledgers s) p da).
Proof.
  intros U W [NN Wd] Lp So A.
  assert (G : forall t, lgood (ledger_of (ledgers s) t)) by (intros t; now apply good_lgood).
  unfold cycle_allocate in A. destruct (snd c) as [dg|].
  - destruct (allocate_d_done _ _ _ _ _ _ _ G Wd (fun _ => NN) A) as [dg' [_ [_ D]]].
    apply (inv_commit s p (fst c) da); auto. intros t Ht. now apply D.
  - now apply (inv_schedule s p (fst c) da).
Qed.

Lemma inv_ok_ext ls ls' :
  (forall t, (t < 3)%nat -> ledger_of ls' t = ledger_of ls t) -> inv_ok ls -> inv_ok ls'.
Proof.
  intros E [N C]. split.
  - intros t Ht. rewrite E by auto. now apply N.
  - rewrite E by lia. exact C.
Qed.

(* ------------------------------------------------------------------ the allocation clauses *)
Lemma okx_fits b l minors per m : b = true -> ledger_okx b l minors per m ->
  match dget (free l) m with Some _ => fits_exposed l per m | None => false end = true.
Proof.
  intros Hb [_ [f [Ef [R _]]]]. rewrite Ef. unfold fits_exposed. apply forallb_forall. intros k _.
  destruct (rget (ores (dget (total l) m)) k) as [T|] eqn:ET; auto.
  destruct (rget per k) as [v|] eqn:Ev; auto. apply Z.leb_le.
  unfold dval. rewrite Ef. cbn [ores]. exact (R Hb k T v ET Ev).
Qed.
Lemma granted_granted_ok t tot per a : granted t tot per a -> granted_ok t per (snd a) = true.
Proof.
  intros [G0 [G1 [Gn Gz]]]. unfold granted_ok. rewrite G0, G1, !opt_eqb_refl. cbn [andb].
  destruct t as [|t]; auto. rewrite (Gn ltac:(discriminate)). apply opt_eqb_refl.
Qed.

Lemma type_done_sound kind ls infos rq t al :
  sched_ok kind ls rq = true ->
  type_done kind ls infos rq t al -> alloc_sound_t ls infos t rq al = true.
Proof.
  intros So D. unfold type_done in D. unfold alloc_sound_t.
  destruct (treq_of rq t) as [| |per count sh] eqn:Et; try (now rewrite D).
  pose proof (sched_ok_pfit _ _ _ _ _ _ _ So Et) as Pf.
  destruct D as [Len [ND Hall]]. rewrite !andb_true_iff. split; [split|].
  - apply Nat.eqb_eq. exact Len.
  - now apply nodupn_NoDup.
  - apply forallb_forall. intros a Ha. destruct (Hall a Ha) as [Lo Gr].
    rewrite !andb_true_iff. split; [split|].
    + apply memn_In. apply Lo.
    + pose proof (okx_fits _ _ _ _ _ Pf Lo) as F. destruct Lo as [_ [f [Ef _]]]. now rewrite Ef in F.
    + eapply granted_granted_ok; eauto.
Qed.
Lemma type_done_d_sound kind ls infos rq dg t al : (t < 3)%nat ->
  sched_ok kind ls rq = true ->
  type_done kind ls infos rq t al -> type_done_d kind ls infos rq (map (required_of dg) type_ids) t al ->
  desig_sound_t ls infos dg t rq al = true.
Proof.
  intros Ht So D Dd. unfold type_done in D. unfold type_done_d in Dd. unfold desig_sound_t.
  destruct (treq_of rq t) as [| |per count sh] eqn:Et; try (now rewrite D).
  pose proof (sched_ok_pfit _ _ _ _ _ _ _ So Et) as Pf.
  destruct D as [Len [ND Hall]]. rewrite !andb_true_iff. split; [split|].
  - apply Nat.eqb_eq. exact Len.
  - now apply nodupn_NoDup.
  - apply forallb_forall. intros a Ha. destruct (Hall a Ha) as [Lo Gr]. specialize (Dd a Ha).
    rewrite vl_required in Dd by auto.
    rewrite !andb_true_iff. split; [split|].
    + apply memn_In. apply Lo.
    + exact (okx_fits _ _ _ _ _ Pf Dd).
    + eapply granted_granted_ok; eauto.
Qed.
(* Filter of a designated pod accepted: enough designated devices can take the request *)
Lemma type_done_d_enough kind ls infos rq dg t al : (t < 3)%nat ->
  sched_ok kind ls rq = true ->
  type_done kind ls infos rq t al -> type_done_d kind ls infos rq (map (required_of dg) type_ids) t al ->
  desig_enough_t ls infos dg t rq = true.
Proof.
  intros Ht So D Dd. unfold type_done in D. unfold type_done_d in Dd. unfold desig_enough_t.
  destruct (treq_of rq t) as [| |per count sh] eqn:Et; auto.
  pose proof (sched_ok_pfit _ _ _ _ _ _ _ So Et) as Pf.
  destruct D as [Len [ND Hall]]. apply Nat.leb_le. unfold desired_of. rewrite <- Len, <- (map_length fst al).
  unfold maybe_count. apply NoDup_incl_length; auto. intros m Hm. apply in_map_iff in Hm as [a [<- Ha]].
  specialize (Dd a Ha). rewrite vl_required in Dd by auto.
  pose proof (okx_fits _ _ _ _ _ Pf Dd) as F. destruct Dd as [Hin [f [Ef [_ Z]]]].
  apply filter_In. split.
  - apply in_seq. split; [lia|]. cbn [Nat.add].
    destruct (Nat.lt_ge_cases (fst a) (length (free (avail_of ls dg t)))) as [L|L]; auto.
    rewrite dget_overflow in Ef by auto. discriminate.
  - unfold maybe_minor. apply memn_In in Hin. rewrite Hin, Z. cbn [negb andb]. exact F.
Qed.

(* ------------------------------------------------------------------ live pods vs allocate set *)
Lemma cons_consb rec t a : cons rec t a -> consb rec t a = true.
Proof.
  intros C. unfold consb. apply andb_true_intro. split; apply forallb_forall.
  - intros [p x] _. cbn [fst]. specialize (C p).
    destruct (lookup p rec) as [[da b]|]; auto.
    destruct (allocs_of da t) as [|a0 al]; [now rewrite C|].
    rewrite C. apply devres_eqb_refl.
  - intros [q d] Hin. cbn [fst]. specialize (C q).
    assert (M : aset_mem q a = true).
    { apply aset_mem_In. apply in_map_iff. now exists (q, d). }
    destruct (lookup q rec) as [[da b]|]; [|congruence].
    destruct (allocs_of da t); [congruence|reflexivity].
Qed.

Lemma step_rec s o : envrec (fst (step s o)) = next_rec (envrec s) o (snd (step s o)).
Proof.
  unfold next_rec. destruct o as [inv|p rq|p|p|p|p al| |p al|p|p rq vs|kind|p rq hint al|p|p]; cbn [step].
  - reflexivity.
  - destruct (lookup p (envrec s)) as [x|] eqn:L; [reflexivity|].
    destruct (allocate (nkind s) (ledgers s) (infos s) rq) as [|code|da] eqn:A; try reflexivity.
    destruct (allocate_fail_codes _ _ _ _ _ A) as [-> | [-> | ->]]; reflexivity.
  - destruct (lookup p (envrec s)) as [[da [|]]|] eqn:L; reflexivity.
  - destruct (lookup p (envrec s)) as [[da b]|] eqn:L; reflexivity.
  - destruct (lookup p (envrec s)) as [[da b]|] eqn:L; reflexivity.
  - destruct (lookup p (envrec s)) as [x|] eqn:L; reflexivity.
  - reflexivity.
  - destruct (lookup p (envrec s)) as [[old b]|] eqn:L; reflexivity.
  - destruct (lookup p (envrec s)) as [[da b]|] eqn:L; reflexivity.
  - cbn [fst snd o_code out_code]. now destruct (negb _).
  - reflexivity.
  - destruct (lookup p (envrec s)) as [x|] eqn:L; [reflexivity|].
    unfold run_filter. destruct (filter_verdict s _) as [code c']. cbn [fst snd o_code out_code with_pend envrec].
    now destruct (negb _).
  - destruct (lookup p (envrec s)) as [x|] eqn:L; [reflexivity|].
    destruct (lookup p (pend s)) as [c|]; [|reflexivity].
    unfold run_filter. destruct (filter_verdict s _) as [code c']. cbn [fst snd o_code out_code with_pend envrec].
    now destruct (negb _).
  - destruct (lookup p (envrec s)) as [x|] eqn:L; [reflexivity|].
    destruct (lookup p (pend s)) as [c|]; [|reflexivity].
    destruct (cycle_allocate s c) as [|code|da] eqn:A; try reflexivity.
    assert (Hc : code = c_unresolvable \/ (code = c_unsched \/ code = c_error)).
    { unfold cycle_allocate in A. destruct (snd c).
      - eapply allocate_d_fail_codes; eauto.
      - eapply allocate_fail_codes; eauto. }
    destruct Hc as [-> | [-> | ->]]; reflexivity.
Qed.

(* ------------------------------------------------------------------ synchronisation of the checker's tracking *)
Record sync (s : state) (k : track) : Prop := mkSync {
  sy_prev : k_prev k = ledgers s;
  sy_infos : k_infos k = infos s;
  sy_u : ugood s;
  sy_w : k_wf k = true -> wgood s;
  sy_inv : k_wf k && k_env k = true -> inv_ok (ledgers s);
  sy_rec : k_rec k = envrec s;
  sy_kind : k_kind k = nkind s;
  sy_pend : k_pend k = pend s;
  sy_gkey : k_gkey k = gkey s;
  sy_k : kgood s;
  sy_p : k_wf k = true -> pgood s
}.

Lemma init_sync : sync init_state init_track.
Proof.
  constructor; auto.
  - apply init_ugood.
  - intros _. apply init_wgood.
  - intros _. apply inv_okb_spec. reflexivity.
  - apply init_kgood.
  - intros _. apply init_pgood.
Qed.

Lemma step_infos s o :
  infos (fst (step s o)) = match o with ORefresh inv => inv | _ => infos s end.
Proof.
  destruct o as [inv|p rq|p|p|p|p al| |p al|p|p rq vs|kind|p rq hint al|p|p]; cbn [step]; auto.
  - destruct (lookup p (envrec s)); auto. destruct (allocate _ _ _ _); auto.
  - destruct (lookup p (envrec s)) as [[da [|]]|]; auto.
  - destruct (lookup p (envrec s)) as [[da b]|]; auto.
  - destruct (lookup p (envrec s)) as [[da b]|]; auto.
  - destruct (lookup p (envrec s)); auto.
  - destruct (lookup p (envrec s)) as [[da b]|]; auto.
  - destruct (lookup p (envrec s)) as [[da b]|]; auto.
  - destruct (lookup p (envrec s)); auto. now destruct (run_filter_fst s p (rq, desig_of hint al)) as [pd ->].
  - destruct (lookup p (envrec s)); auto. destruct (lookup p (pend s)) as [c|]; auto.
    now destruct (run_filter_fst s p c) as [pd ->].
  - destruct (lookup p (envrec s)); auto. destruct (lookup p (pend s)) as [c|]; auto.
    destruct (cycle_allocate s c); auto.
Qed.

Lemma step_kind s o :
  nkind (fst (step s o)) = match o with ONodeKind kind => kind | _ => nkind s end.
Proof.
  destruct o as [inv|p rq|p|p|p|p al| |p al|p|p rq vs|kind|p rq hint al|p|p]; cbn [step]; auto.
  - destruct (lookup p (envrec s)); auto. destruct (allocate _ _ _ _); auto.
  - destruct (lookup p (envrec s)) as [[da [|]]|]; auto.
  - destruct (lookup p (envrec s)) as [[da b]|]; auto.
  - destruct (lookup p (envrec s)) as [[da b]|]; auto.
  - destruct (lookup p (envrec s)); auto.
  - destruct (lookup p (envrec s)) as [[da b]|]; auto.
  - destruct (lookup p (envrec s)) as [[da b]|]; auto.
  - destruct (lookup p (envrec s)); auto. now destruct (run_filter_fst s p (rq, desig_of hint al)) as [pd ->].
  - destruct (lookup p (envrec s)); auto. destruct (lookup p (pend s)) as [c|]; auto.
    now destruct (run_filter_fst s p c) as [pd ->].
  - destruct (lookup p (envrec s)); auto. destruct (lookup p (pend s)) as [c|]; auto.
    destruct (cycle_allocate s c); auto.
Qed.

(* the cycle an operation refers to, as the model sees it *)
Definition open_of (s : state) (p : Z) : option cycle :=
  match lookup p (envrec s) with Some _ => None | None => lookup p (pend s) end.
Lemma open_cycle_sync s k p : sync s k -> open_cycle k p = open_of s p.
Proof. intros Sy. unfold open_cycle, open_of. now rewrite (sy_rec _ _ Sy), (sy_pend _ _ Sy). Qed.

(* operations that are no environment events keep the invariant *)
Lemma step_inv s o :
  ugood s -> wgood s -> pgood s -> op_wf o = true -> is_env_op o = false ->
  match o with
  | OSchedule _ rq => sched_ok (nkind s) (ledgers s) rq = true
  | OReserve p => match open_of s p with
                  | Some c => sched_ok (nkind s) (ledgers s) (fst c) = true
                  | None => True end
  | _ => True end ->
  inv_ok (ledgers s) -> inv_ok (ledgers (fst (step s o))).
Proof.
  intros U W P Hwf He So I.
  destruct o as [inv|p rq|p|p|p|p al| |p al|p|p rq vs|kind|p rq hint al|p|p]; try discriminate; cbn [step].
  - destruct (lookup p (envrec s)) as [x|] eqn:L; auto.
    destruct (allocate (nkind s) (ledgers s) (infos s) rq) as [|code|da] eqn:A; auto.
    cbn [fst ledgers]. eapply inv_schedule; eauto.
  - destruct (lookup p (envrec s)) as [[da [|]]|] eqn:L; auto. cbn [fst forget ledgers].
    apply inv_remove; auto. eapply wg_rec; eauto.
  - destruct (lookup p (envrec s)) as [[da b]|] eqn:L; auto. cbn [fst ledgers].
    eapply inv_ok_ext; [|exact I]. intros t Ht. eapply dup_add_same; eauto.
  - destruct (lookup p (envrec s)) as [[da b]|] eqn:L; cbn [fst forget ledgers].
    + apply inv_remove; auto. eapply wg_rec; eauto.
    + eapply inv_ok_ext; [|exact I]. intros t Ht. eapply dup_rm_same; eauto.
  - destruct (lookup p (envrec s)) as [[da b]|] eqn:L; auto. cbn [fst forget ledgers].
    apply inv_remove; auto. eapply wg_rec; eauto.
  - cbn [fst]. exact I.
  - cbn [fst ledgers]. exact I.
  - destruct (lookup p (envrec s)) as [x|] eqn:L; auto.
    now destruct (run_filter_fst s p (rq, desig_of hint al)) as [pd ->].
  - destruct (lookup p (envrec s)) as [x|] eqn:L; auto. destruct (lookup p (pend s)) as [c|]; auto.
    now destruct (run_filter_fst s p c) as [pd ->].
  - unfold open_of in So.
    destruct (lookup p (envrec s)) as [x|] eqn:L; auto. destruct (lookup p (pend s)) as [c|] eqn:Lp; auto.
    destruct (cycle_allocate s c) as [|code|da] eqn:A; auto.
    cbn [fst ledgers]. eapply inv_reserve; eauto.
Qed.

(* operations whose output marks them as no-ops leave every ledger alone *)
Lemma step_frame s o :
  ugood s -> is_frame o (o_code (snd (step s o))) = true ->
  forall t, (t < 3)%nat -> ledger_of (ledgers (fst (step s o))) t = ledger_of (ledgers s) t.
Proof.
  intros U. destruct o as [inv|p rq|p|p|p|p al| |p al|p|p rq vs|kind|p rq hint al|p|p]; cbn [step].
  - cbn. discriminate.
  - destruct (lookup p (envrec s)) as [x|] eqn:L; auto.
    destruct (allocate (nkind s) (ledgers s) (infos s) rq) as [|code|da] eqn:A; auto.
    cbn. discriminate.
  - destruct (lookup p (envrec s)) as [[da [|]]|] eqn:L; auto. cbn. discriminate.
  - destruct (lookup p (envrec s)) as [[da b]|] eqn:L; auto. intros _ t Ht. cbn [fst ledgers].
    eapply dup_add_same; eauto.
  - destruct (lookup p (envrec s)) as [[da b]|] eqn:L.
    + cbn. discriminate.
    + intros _ t Ht. cbn [fst ledgers]. eapply dup_rm_same; eauto.
  - destruct (lookup p (envrec s)) as [x|] eqn:L; auto. cbn. discriminate.
  - cbn. discriminate.
  - destruct (lookup p (envrec s)) as [[old b]|] eqn:L; auto. cbn. discriminate.
  - destruct (lookup p (envrec s)) as [[da b]|] eqn:L; auto. cbn. discriminate.
  - cbn [fst]. auto.
  - cbn [fst ledgers]. auto.
  - destruct (lookup p (envrec s)) as [x|] eqn:L; auto.
    now destruct (run_filter_fst s p (rq, desig_of hint al)) as [pd ->].
  - destruct (lookup p (envrec s)) as [x|] eqn:L; auto. destruct (lookup p (pend s)) as [c|]; auto.
    now destruct (run_filter_fst s p c) as [pd ->].
  - destruct (lookup p (envrec s)) as [x|] eqn:L; auto. destruct (lookup p (pend s)) as [c|]; auto.
    destruct (cycle_allocate s c) as [|code|da] eqn:A; auto. cbn. discriminate.
Qed.

(* what an allocation reports *)
Definition out_of (r : alloc_result) : opout :=
  match r with ASkip => out_code c_skip | AFail c => out_code c | ADone da => mkOut c_ok da end.
Lemma out_of_code r : o_code (out_of r) = code_of r.
Proof. now destruct r. Qed.

Lemma check_schedule_alloc s k rq :
  sync s k -> wgood s -> raw_nonneg rq = true ->
  check_schedule k rq (out_of (allocate (nkind s) (ledgers s) (infos s) rq)) = 0.
Proof.
  intros Sy W NN. unfold check_schedule, refused_ok, skip_ok.
  rewrite (sy_prev _ _ Sy), (sy_infos _ _ Sy), (sy_kind _ _ Sy).
  assert (G : forall t, lgood (ledger_of (ledgers s) t)) by (intros t; apply (good_lgood s t (sy_u _ _ Sy) W)).
  destruct (allocate (nkind s) (ledgers s) (infos s) rq) as [|code|da] eqn:A; cbn [out_of snd o_code out_code o_allocs].
  - unfold c_skip. cbn [Z.eqb Pos.eqb]. unfold chk. apply allocate_skip in A. now rewrite A.
  - destruct (allocate_fail _ _ _ _ _ G (fun _ => NN) A) as [[-> H]|[-> H]];
      unfold c_unresolvable, c_unsched; cbn [Z.eqb Pos.eqb]; unfold chk; now rewrite H.
  - unfold c_ok. cbn [Z.eqb]. unfold chk.
    destruct (sched_ok (nkind s) (ledgers s) rq) eqn:So; [|reflexivity]. cbn [negb orb].
    assert (H : forallb (fun t => alloc_sound_t (ledgers s) (infos s) t rq (allocs_of da t)) type_ids = true).
    { apply forallb_forall. intros t Ht. assert (t < 3)%nat by (cbn in Ht; lia).
      apply (type_done_sound (nkind s)); auto. eapply allocate_done; eauto. }
    now rewrite H.
Qed.
Lemma check_schedule_ok s k p rq :
  sync s k -> wgood s -> raw_nonneg rq = true ->
  check_schedule k rq (snd (step s (OSchedule p rq))) = 0.
Proof.
  intros Sy W NN. pose proof (check_schedule_alloc s k rq Sy W NN) as H.
  cbn [step]. destruct (lookup p (envrec s)) as [x|] eqn:L; [reflexivity|].
  destruct (allocate (nkind s) (ledgers s) (infos s) rq) as [|code|da]; exact H.
Qed.

Lemma existsb_req_or rq :
  existsb (fun t => is_req (treq_of rq t)) type_ids = true ->
  existsb (fun t => is_req (treq_of rq t) || is_invalid (treq_of rq t)) type_ids = true.
Proof.
  cbn [existsb type_ids]. intros H.
  destruct (is_req (treq_of rq 0)), (is_req (treq_of rq 1)), (is_req (treq_of rq 2));
    cbn in *; try discriminate; rewrite ?orb_true_r; auto.
Qed.

(* a designated pod: the Reserve phase ([reserve], the outcome with the allocation) and the Filter
   phase (only the code) *)
Lemma check_desig_model s k (reserve : bool) rq dg out :
  sync s k -> wgood s -> raw_nonneg rq = true -> dallocs_wf dg = true ->
  let r := allocate_d (nkind s) (gkey s) (ledgers s) (infos s) rq dg in
  out = (if reserve then out_of r else out_code (code_of r)) ->
  check_desig k reserve rq dg out = 0.
Proof.
  intros Sy W NN Wd r Eo.
  assert (Ec : o_code out = code_of r) by (subst out; destruct reserve; [apply out_of_code|reflexivity]).
  unfold check_desig, kfill, refused_ok. rewrite Ec.
  rewrite (sy_prev _ _ Sy), (sy_infos _ _ Sy), (sy_kind _ _ Sy), (sy_gkey _ _ Sy).
  assert (G : forall t, lgood (ledger_of (ledgers s) t)) by (intros t; apply (good_lgood s t (sy_u _ _ Sy) W)).
  unfold r in *. clear r.
  destruct (allocate_d (nkind s) (gkey s) (ledgers s) (infos s) rq dg) as [|code|da] eqn:A; cbn [code_of].
  - unfold c_skip. cbn [Z.eqb Pos.eqb]. unfold chk, skip_ok. apply allocate_d_skip in A. now rewrite A.
  - destruct (allocate_d_fail _ _ _ _ _ _ _ G Wd (fun _ => NN) A) as [[-> H]|[[-> [F [I Q]]]|[-> [dg' [F H]]]]];
      unfold c_unresolvable, c_unsched, c_error; cbn [Z.eqb Pos.eqb]; unfold chk.
    + now rewrite H.
    + rewrite F, I. unfold skip_ok. rewrite (existsb_req_or rq Q). cbn. now destruct reserve.
    + rewrite F, H. now destruct reserve.
  - unfold c_ok. cbn [Z.eqb]. unfold chk.
    destruct (sched_ok (nkind s) (ledgers s) rq) eqn:So; [|now destruct reserve]. cbn [negb orb].
    destruct (allocate_d_done _ _ _ _ _ _ _ G Wd (fun _ => NN) A) as [dg' [F [_ D]]]. rewrite F.
    destruct reserve.
    + subst out. cbn [out_of o_allocs].
      assert (H : forallb (fun t => alloc_sound_t (ledgers s) (infos s) t rq (allocs_of da t)
                                    && desig_sound_t (ledgers s) (infos s) dg' t rq (allocs_of da t)) type_ids = true).
      { apply forallb_forall. intros t Ht. assert (Ht3 : (t < 3)%nat) by (cbn in Ht; lia).
        destruct (D t Ht3) as [D1 D2]. apply andb_true_intro. split.
        - now apply (type_done_sound (nkind s)).
        - now apply (type_done_d_sound (nkind s)). }
      now rewrite H.
    + assert (H : forallb (fun t => desig_enough_t (ledgers s) (infos s) dg' t rq) type_ids = true).
      { apply forallb_forall. intros t Ht. assert (Ht3 : (t < 3)%nat) by (cbn in Ht; lia).
        destruct (D t Ht3) as [D1 D2]. now apply (type_done_d_enough (nkind s) _ _ _ _ _ (allocs_of da t)). }
      now rewrite H.
Qed.

Lemma check_filter_model s k c :
  sync s k -> wgood s -> cycle_wf c ->
  check_filter k c (out_code (fst (filter_verdict s c))) = 0.
Proof.
  intros Sy W [NN Wd]. unfold check_filter, filter_verdict. destruct (snd c) as [dg|]; cbn [fst].
  - eapply check_desig_model; eauto; reflexivity.
  - apply check_preempt_model; [apply Sy|apply Sy|apply Sy| |exact NN].
    intros t. apply good_lgood; [apply Sy|exact W].
Qed.
Lemma check_reserve_model s k c :
  sync s k -> wgood s -> cycle_wf c ->
  check_reserve k c (out_of (cycle_allocate s c)) = 0.
Proof.
  intros Sy W [NN Wd]. unfold check_reserve, cycle_allocate. destruct (snd c) as [dg|].
  - eapply check_desig_model; eauto; reflexivity.
  - now apply check_schedule_alloc.
Qed.

Lemma first_nz_zero l : (forall c, In c l -> c = 0) -> first_nz l = 0.
Proof.
  induction l as [|c l IH]; intros H; auto. cbn [first_nz fold_right].
  rewrite (H c (or_introl eq_refl)). cbn. apply IH. intros; apply H; now right.
Qed.
Lemma chk_zero b c : b = true -> chk b c = 0.
Proof. now intros ->. Qed.

(* output and open cycles of the three cycle operations *)
Lemma run_filter_out s p c : snd (run_filter s p c) = out_code (fst (filter_verdict s c)).
Proof. unfold run_filter. now destruct (filter_verdict s c). Qed.
Lemma run_filter_pend s p c :
  pend (fst (run_filter s p c)) =
  if fst (filter_verdict s c) =? 0 then set_key p (snd (filter_verdict s c)) (pend s)
  else remove_key p (pend s).
Proof. unfold run_filter. now destruct (filter_verdict s c). Qed.
Lemma filter_verdict_code s c : fst (filter_verdict s c) <> -1.
Proof.
  unfold filter_verdict. destruct (snd c) as [dg|]; cbn [fst].
  - destruct (allocate_d _ _ _ _ _ dg) as [|code|da] eqn:A; cbn [code_of]; try discriminate.
    destruct (allocate_d_fail_codes _ _ _ _ _ _ _ A) as [-> | [-> | ->]]; discriminate.
  - rewrite preempt_verdict_unfold. cbn zeta.
    repeat match goal with |- context [if ?b then _ else _] => destruct b end; discriminate.
Qed.
Lemma filled_cycle_sync s k c : sync s k -> filled_cycle k c = snd (filter_verdict s c).
Proof.
  intros Sy. unfold filled_cycle, filter_verdict, kfill.
  rewrite (sy_prev _ _ Sy), (sy_gkey _ _ Sy). destruct c as [rq [dg|]]; reflexivity.
Qed.

Lemma step_pend_sync s k o :
  sync s k -> pend (fst (step s o)) = next_pend k o (snd (step s o)).
Proof.
  intros Sy. pose proof (step_pend s o) as E. unfold next_pend.
  destruct o as [inv|p rq|p|p|p|p al| |p al|p|p rq vs|kind|p rq hint al|p|p];
    try (rewrite E, (sy_pend _ _ Sy); now destruct (o_code _ =? -1)); cbn [step].
  - destruct (lookup p (envrec s)) as [x|] eqn:L; [cbn; apply (eq_sym (sy_pend _ _ Sy))|].
    rewrite run_filter_out, run_filter_pend. cbn [o_code out_code].
    pose proof (filter_verdict_code s (rq, desig_of hint al)) as Hc. apply Z.eqb_neq in Hc. rewrite Hc.
    now rewrite (filled_cycle_sync s k _ Sy), (sy_pend _ _ Sy).
  - rewrite (open_cycle_sync s k p Sy). unfold open_of.
    destruct (lookup p (envrec s)) as [x|] eqn:L; [cbn; apply (eq_sym (sy_pend _ _ Sy))|].
    destruct (lookup p (pend s)) as [c|] eqn:Lp; [|cbn; apply (eq_sym (sy_pend _ _ Sy))].
    rewrite run_filter_out, run_filter_pend. cbn [o_code out_code].
    pose proof (filter_verdict_code s c) as Hc. apply Z.eqb_neq in Hc. rewrite Hc.
    now rewrite (filled_cycle_sync s k _ Sy), (sy_pend _ _ Sy).
  - destruct (lookup p (envrec s)) as [x|] eqn:L; [cbn; apply (eq_sym (sy_pend _ _ Sy))|].
    destruct (lookup p (pend s)) as [c|] eqn:Lp; [|cbn; apply (eq_sym (sy_pend _ _ Sy))].
    assert (Hc : code_of (cycle_allocate s c) <> -1).
    { destruct (cycle_allocate s c) as [|code|da] eqn:A; cbn [code_of]; try discriminate.
      assert (Hc : code = c_unresolvable \/ (code = c_unsched \/ code = c_error)).
      { unfold cycle_allocate in A. destruct (snd c).
        - eapply allocate_d_fail_codes; eauto.
        - eapply allocate_fail_codes; eauto. }
      destruct Hc as [-> | [-> | ->]]; discriminate. }
    apply Z.eqb_neq in Hc. rewrite <- (sy_pend _ _ Sy).
    destruct (cycle_allocate s c) as [|code|da]; cbn [fst snd o_code out_code with_pend pend code_of] in *;
      now rewrite Hc.
Qed.

Lemma step_gkey_sync s k o :
  sync s k ->
  gkey (fst (step s o)) =
  (k_gkey k || match o with ORefresh inv => has_gpu inv | _ => false end
   || negb (is_nil (aset (ledger_of (ledgers (fst (step s o))) 0)))).
Proof.
  intros Sy. rewrite (sy_gkey _ _ Sy). destruct (sy_k _ _ Sy) as [K1 K2].
  pose proof (step_kgood s o (sy_k _ _ Sy)) as [K1' _]. unfold lof in K1, K1'.
  assert (Same : forall s', ledgers s' = ledgers s -> gkey s' = gkey s ->
            gkey s' = gkey s || false || negb (is_nil (aset (ledger_of (ledgers s') 0)))).
  { intros s' El Eg. rewrite El, Eg, orb_false_r.
    destruct (is_nil (aset (ledger_of (ledgers s) 0))) eqn:E; cbn [negb]; [now rewrite orb_false_r|].
    rewrite (K1 eq_refl). reflexivity. }
  assert (Gk : forall ls, gk s ls = gkey s || false || negb (is_nil (aset (ledger_of ls 0)))).
  { intros ls. unfold gk. now rewrite orb_false_r. }
  destruct o as [inv|p rq|p|p|p|p al| |p al|p|p rq vs|kind|p rq hint al|p|p]; cbn [step].
  - cbn [fst gkey ledgers]. cbn [step fst lof ledgers] in K1'.
    destruct (is_nil (aset (ledger_of (refresh s inv) 0))) eqn:E; cbn [negb]; [now rewrite orb_false_r|].
    specialize (K1' eq_refl). cbn [gkey] in K1'. rewrite K1'. reflexivity.
  - destruct (lookup p (envrec s)); [now apply Same|].
    destruct (allocate _ _ _ _); cbn [fst]; try (now apply Same). apply Gk.
  - destruct (lookup p (envrec s)) as [[da [|]]|]; cbn [fst forget]; try (now apply Same). apply Gk.
  - destruct (lookup p (envrec s)) as [[da b]|]; cbn [fst]; try (now apply Same). apply Gk.
  - destruct (lookup p (envrec s)) as [[da b]|]; cbn [fst forget]; apply Gk.
  - destruct (lookup p (envrec s)); cbn [fst]; try (now apply Same). apply Gk.
  - cbn [fst gkey ledgers]. cbn [step fst lof ledgers] in K1'.
    destruct (has_gpu (infos s)) eqn:Hg.
    + rewrite (K2 eq_refl). reflexivity.
    + rewrite !orb_false_r.
      destruct (is_nil (aset (ledger_of (refresh s (map unhealthy (infos s))) 0))) eqn:E; cbn [negb];
        [now rewrite orb_false_r|].
      specialize (K1' eq_refl). cbn [gkey] in K1'. rewrite orb_false_r in K1'. rewrite K1'. reflexivity.
  - destruct (lookup p (envrec s)) as [[old b]|]; cbn [fst]; try (now apply Same).
    cbn [gkey ledgers]. rewrite orb_false_r. unfold gk.
    set (ls1 := cache_update false (ledgers s) p old).
    destruct (is_nil (aset (ledger_of ls1 0))) eqn:E1; cbn [negb]; [now rewrite orb_false_r|].
    (* the old allocation's removal leaves pods behind: the entry existed before *)
    assert (Hk : gkey s = true).
    { apply K1. unfold ls1 in E1. rewrite ledger_of_cache_update in E1 by lia. unfold upd_t in E1.
      destruct (allocs_of old 0) as [|a0 al0]; auto. unfold ledger_remove in E1.
      destruct (negb (aset_mem p (aset (ledger_of (ledgers s) 0)))); auto.
      cbn [aset reset_free] in E1. unfold aset_remove in E1.
      destruct (aset (ledger_of (ledgers s) 0)); [discriminate|reflexivity]. }
    now rewrite Hk.
  - destruct (lookup p (envrec s)) as [[da b]|]; cbn [fst forget]; try (now apply Same). apply Gk.
  - cbn [fst]. now apply Same.
  - cbn [fst]. now apply Same.
  - destruct (lookup p (envrec s)); [now apply Same|].
    destruct (run_filter_fst s p (rq, desig_of hint al)) as [pd ->]. now apply Same.
  - destruct (lookup p (envrec s)); [now apply Same|]. destruct (lookup p (pend s)) as [c|]; [|now apply Same].
    destruct (run_filter_fst s p c) as [pd ->]. now apply Same.
  - destruct (lookup p (envrec s)); [now apply Same|]. destruct (lookup p (pend s)) as [c|]; [|now apply Same].
    destruct (cycle_allocate s c); cbn [fst]; try (now apply Same). apply Gk.
Qed.

Lemma step_check s k o :
  sync s k ->
  check_step k o (snd (step s o), ledgers (fst (step s o))) = 0 /\
  sync (fst (step s o)) (next_track k o (snd (step s o), ledgers (fst (step s o)))).
Proof.
  intros Sy. pose proof (sy_u _ _ Sy) as U.
  destruct (step_good s o U) as [U' W'].
  assert (Wf' : k_wf k && op_wf o = true -> wgood (fst (step s o))).
  { intros H. apply andb_prop in H as [H1 H2]. apply W'; auto; now apply Sy. }
  assert (Pf' : k_wf k && op_wf o = true -> pgood (fst (step s o))).
  { intros H. apply andb_prop in H as [H1 H2]. apply step_pgood; auto; now apply Sy. }
  assert (Inv' : k_wf k && op_wf o = true ->
                 k_env k && (negb (is_env_op o) || inv_okb (ledgers (fst (step s o)))) && step_ok k o = true ->
                 inv_okb (ledgers (fst (step s o))) = true).
  { intros H1 H2. apply andb_prop in H1 as [Hw Ho]. apply andb_prop in H2 as [H2 Hs].
    apply andb_prop in H2 as [He H2].
    destruct (is_env_op o) eqn:Eo; [exact H2|].
    apply inv_okb_spec. apply step_inv; auto; [now apply Sy|now apply Sy| |].
    - unfold step_ok in Hs. rewrite (sy_prev _ _ Sy), (sy_kind _ _ Sy) in Hs. destruct o; auto.
      rewrite (open_cycle_sync s k p Sy) in Hs. now destruct (open_of s p).
    - apply (sy_inv _ _ Sy). now rewrite Hw, He. }
  split.
  - unfold check_step. apply first_nz_zero. intros c Hc.
    destruct Hc as [<-|[<-|[<-|[<-|[<-|[<-|[]]]]]]].
    + apply chk_zero. destruct (k_wf k && op_wf o) eqn:Hw; auto. cbn [negb orb].
      apply forallb_forall. intros t _. apply free_eqb_complete. apply lgood_free_eq.
      apply (good_lgood _ t U' (Wf' eq_refl)).
    + apply chk_zero. destruct (k_wf k && op_wf o) eqn:Hw; auto. cbn [negb orb].
      apply forallb_forall. intros t _. apply used_eq_sumb_complete.
      apply (lg_sum _ (good_lgood _ t U' (Wf' eq_refl))).
    + apply chk_zero. destruct (k_wf k && op_wf o) eqn:Hw; auto. cbn [andb].
      destruct (k_env k && (negb (is_env_op o) || inv_okb (ledgers (fst (step s o)))) && step_ok k o) eqn:He; auto.
    + destruct (k_wf k && op_wf o) eqn:Hw; auto. apply andb_prop in Hw as [Hw Ho].
      pose proof (sy_w _ _ Sy Hw) as W. pose proof (sy_p _ _ Sy Hw) as P.
      destruct o as [inv|p rq|p|p|p|p al| |p al|p|p rq vs|kind|p rq hint al|p|p]; auto.
      * apply check_schedule_ok; auto.
      * cbn [step snd].
        apply check_preempt_model; [apply Sy|apply Sy|apply Sy| |exact Ho].
        intros t. apply good_lgood; [exact U|exact W].
      * rewrite (sy_rec _ _ Sy). cbn [step]. destruct (lookup p (envrec s)) as [x|] eqn:L; [reflexivity|].
        rewrite run_filter_out. apply check_filter_model; auto.
        cbn [op_wf] in Ho. apply andb_prop in Ho as [NN Wa]. split; auto. cbn [snd].
        unfold desig_of. destruct (hint && negb (is_nil al)); auto.
      * rewrite (open_cycle_sync s k p Sy). unfold open_of. cbn [step].
        destruct (lookup p (envrec s)) as [x|] eqn:L; [reflexivity|].
        destruct (lookup p (pend s)) as [c|] eqn:Lp; [|reflexivity].
        rewrite run_filter_out. apply check_filter_model; eauto.
      * rewrite (open_cycle_sync s k p Sy). unfold open_of. cbn [step].
        destruct (lookup p (envrec s)) as [x|] eqn:L; [reflexivity|].
        destruct (lookup p (pend s)) as [c|] eqn:Lp; [|reflexivity].
        pose proof (check_reserve_model s k c Sy W (P _ _ Lp)) as H.
        destruct (cycle_allocate s c) as [|code|da]; exact H.
    + apply chk_zero. destruct (is_frame o (o_code (snd (step s o)))) eqn:F; auto. cbn [negb orb].
      rewrite (sy_prev _ _ Sy). apply ledgers_eqb_same. now apply step_frame.
    + apply chk_zero. apply forallb_forall. intros t Ht. assert (t < 3)%nat by (cbn in Ht; lia).
      rewrite (sy_rec _ _ Sy), <- step_rec. apply cons_consb. now apply U'.
  - constructor; cbn [next_track k_prev k_infos k_wf k_env k_rec k_kind k_pend k_gkey]; auto.
    + rewrite step_infos, (sy_infos _ _ Sy). reflexivity.
    + intros H. apply inv_okb_spec. apply andb_prop in H as [H1 H2]. now apply Inv'.
    + rewrite (sy_rec _ _ Sy). symmetry. apply step_rec.
    + rewrite step_kind, (sy_kind _ _ Sy). reflexivity.
    + symmetry. now apply step_pend_sync.
    + symmetry. now apply step_gkey_sync.
    + apply step_kgood. apply Sy.
Qed.

Theorem prop_from_run s k ops : sync s k -> prop_from k ops (run_from s ops) = 0.
Proof.
  revert s k. induction ops as [|o ops IH]; intros s k Sy; cbn [run_from prop_from]; auto.
  destruct (step s o) as [s' out] eqn:E.
  pose proof (step_check s k o Sy) as [C S']. rewrite E in C, S'. cbn [fst snd] in C, S'.
  cbn [prop_from]. rewrite C. cbn. now apply IH.
Qed.

(* the main theorem *)
Theorem prop_code_run ops : prop_code ops (run ops) = 0.
Proof. apply prop_from_run. apply init_sync. Qed.
