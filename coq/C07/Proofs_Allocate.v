(* C07 — the whole allocation of a pod on the ledgers of a node: request parsing, per-type
   allocation through the view, GPU memory fill. *)
From Coq Require Import List ZArith Bool Arith Lia Permutation.
From Verif Require Import C07.Model C07.Spec C07.Proofs_Res C07.Proofs_Ledger C07.Proofs_View
  C07.Proofs_Alloc.
Import ListNotations.
Open Scope Z_scope.

(* ------------------------------------------------------------------ parsed requests *)
Lemma quot_nonneg a b : 0 <= a -> 0 <= b -> 0 <= Z.quot a b.
Proof.
  intros Ha Hb. destruct (Z.eq_dec b 0) as [->|Hn].
  - rewrite Z.quot_0_r_ext; auto; lia.
  - apply Z.quot_pos; lia.
Qed.

Lemma simple_treq_spec v per count sh : simple_treq v = TReq per count sh ->
  1 <= count /\ (0 <= v -> res_nonneg per = true) /\ r1 per = None /\ r2 per = None.
Proof.
  unfold simple_treq. destruct (v =? 0); [discriminate|].
  destruct (negb (pct_ok v)); [discriminate|].
  destruct ((100 <? v) && (Z.rem v 100 =? 0)) eqn:E; intros H; injection H as <- <- <-.
  - apply andb_prop in E as [E _]. apply Z.ltb_lt in E.
    assert (1 <= Z.quot v 100) by (apply Z.quot_le_lower_bound; lia).
    repeat split; auto. intros _. unfold res_nonneg. cbn [r0 r1 r2 oz].
    rewrite !andb_true_iff. repeat split; try reflexivity. apply Z.leb_le. apply quot_nonneg; lia.
  - repeat split; auto; try lia. intros Hv. unfold res_nonneg. cbn [r0 r1 r2 oz].
    rewrite !andb_true_iff. repeat split; try reflexivity. now apply Z.leb_le.
Qed.

Lemma gpu_treq_spec rq per count sh : gpu_treq rq = TReq per count sh ->
  1 <= count /\ (raw_nonneg rq = true -> res_nonneg per = true) /\ r2 per = None /\
  (sh = true -> 1 < count -> True).
Proof.
  unfold gpu_treq.
  destruct ((q_koord rq =? 0) && (q_core rq =? 0) && (q_ratio rq =? 0) && (q_shared rq =? 0)
            && (q_nvidia rq =? 0)); [discriminate|].
  destruct (gpu_conv rq) as [[[core ratio] shared]|] eqn:C; [|discriminate].
  set (count0 := if 0 <? shared then shared
                 else if (100 <? ratio) && (Z.rem ratio 100 =? 0) then Z.quot ratio 100 else 1).
  intros H. injection H as <- <- <-.
  assert (Hc : 1 <= count0).
  { unfold count0. destruct (0 <? shared) eqn:S; [apply Z.ltb_lt in S; lia|].
    destruct ((100 <? ratio) && (Z.rem ratio 100 =? 0)) eqn:E; [|lia].
    apply andb_prop in E as [E _]. apply Z.ltb_lt in E. apply Z.quot_le_lower_bound; lia. }
  repeat split; auto.
  intros NN. unfold raw_nonneg in NN. rewrite !andb_true_iff in NN.
  destruct NN as [[[[[[N0 N1] N2] N3] N4] N5] N6].
  apply Z.leb_le in N0, N1, N2, N3, N4.
  assert (Hr : 0 <= ratio /\ match core with Some x => 0 <= x | None => True end).
  { unfold gpu_conv in C.
    destruct (negb (q_koord rq =? 0)), (negb (q_core rq =? 0)), (negb (q_ratio rq =? 0)),
      (negb (q_shared rq =? 0)), (negb (q_nvidia rq =? 0)); try discriminate;
    repeat match type of C with (if ?b then _ else _) = _ => destruct b; try discriminate end;
    injection C as <- <- <-; split; try lia; auto. }
  destruct Hr as [Hr Hco].
  unfold res_nonneg. cbn [r0 r1 r2 oz]. rewrite !andb_true_iff. repeat split; try reflexivity.
  - destruct core as [x|]; cbn [oz]; apply Z.leb_le; [apply quot_nonneg; lia|lia].
  - apply Z.leb_le. apply quot_nonneg; lia.
Qed.

Lemma treq_spec rq t per count sh : treq_of rq t = TReq per count sh ->
  1 <= count /\ (raw_nonneg rq = true -> res_nonneg per = true) /\ r2 per = None /\
  (t <> 0%nat -> r1 per = None).
Proof.
  destruct t as [|[|[|t]]]; cbn [treq_of]; intros H.
  - apply gpu_treq_spec in H as [H1 [H2 [H3 _]]]. repeat split; auto. congruence.
  - apply simple_treq_spec in H as [H1 [H2 [H3 H4]]]. repeat split; auto.
    intros NN. apply H2. unfold raw_nonneg in NN. rewrite !andb_true_iff in NN.
    destruct NN as [[_ N5] _]. now apply Z.leb_le.
  - apply simple_treq_spec in H as [H1 [H2 [H3 H4]]]. repeat split; auto.
    intros NN. apply H2. unfold raw_nonneg in NN. rewrite !andb_true_iff in NN.
    destruct NN as [_ N6]. now apply Z.leb_le.
  - discriminate.
Qed.
Lemma desired_count_pos count : 1 <= count -> (1 <= desired_count count)%nat.
Proof. intros H. unfold desired_count. destruct (count =? 0) eqn:E; [lia|]. lia. Qed.
Lemma desired_count_one count : 1 <= count -> (1 <? count) = false -> desired_count count = 1%nat.
Proof.
  intros H L. apply Z.ltb_ge in L. assert (count = 1) by lia. subst. reflexivity.
Qed.

(* ------------------------------------------------------------------ one device type *)
(* what an allocated device satisfies, judged on the ledger *)
Definition ledger_ok (l : ledger) (minors : list nat) (per : res) (m : nat) : Prop :=
  In m minors /\
  exists f, dget (free l) m = Some f /\ rle per (view_free l m f) = true /\
            ris_zero (ores (dget (total l) m)) = false.

Section OneLedger.
  Variable l : ledger.
  Variable minors : list nat.
  Hypothesis FS : free_struct l.
  Hypothesis Ht : dnonneg (total l).
  Hypothesis Hu : dnonneg (used l).

  Lemma view_ok_ledger per m : view_ok (filter_view l minors) per m -> ledger_ok l minors per m.
  Proof.
    intros [f' [Ef [Z R]]].
    destruct (dis_zero (free l) || match minors with [] => true | _ => false end) eqn:Hne.
    { rewrite filter_view_empty in Ef by auto. cbn [free empty_ledger] in Ef. rewrite dget_nil in Ef. discriminate. }
    rewrite view_free_entry in Ef by auto.
    destruct (dget (free l) m) as [f|] eqn:Efl; [|discriminate].
    destruct (memn m minors) eqn:Mm; [|discriminate]. injection Ef as <-.
    split; [now apply memn_In|]. exists f. split; auto. split; auto.
    assert (Zf : ris_zero f = false).
    { rewrite <- (view_free_is_zero l FS Ht Hu m f Efl). exact Z. }
    exact (free_nonzero_total l FS Ht Hu m f Efl Zf).
  Qed.

  Lemma eligible_view per m : eligible_minor l minors per m = true ->
    dis_zero (free l) || match minors with [] => true | _ => false end = false /\
    exists f, dget (free l) m = Some f /\ ris_zero f = false /\ rle per f = true /\
              memn m minors = true.
  Proof.
    unfold eligible_minor. intros H. apply andb_prop in H as [Mm H].
    destruct (dget (free l) m) as [f|] eqn:Ef; [|discriminate].
    apply andb_prop in H as [Z R]. apply negb_true_iff in Z.
    split; [|exists f; auto].
    apply orb_false_iff. split.
    - destruct (dis_zero (free l)) eqn:D; auto. rewrite dis_zero_spec in D. specialize (D m).
      rewrite Ef in D. cbn in D. congruence.
    - destruct minors; [discriminate|reflexivity].
  Qed.
  Lemma eligible_view_ok per m : eligible_minor l minors per m = true ->
    view_ok (filter_view l minors) per m.
  Proof.
    intros H. destruct (eligible_view per m H) as [Hne [f [Ef [Z [R Mm]]]]].
    exists (view_free l m f). rewrite view_free_entry, Ef, Mm by auto. split; auto. split.
    - rewrite (view_free_is_zero l FS Ht Hu m f Ef). exact Z.
    - exact (view_free_rle_mono l FS Ht Hu m f Ef per R).
  Qed.

  Definition elig_list per : list nat :=
    filter (eligible_minor l minors per) (seq 0 (length (free l))).
  Lemma elig_list_nodup per : NoDup (elig_list per).
  Proof. apply NoDup_filter, seq_NoDup. Qed.

  (* any topology context looking at this ledger's view *)
  Variable c : topo_ctx.
  Hypothesis Hcv : tc_view c = filter_view l minors.

  Lemma topo_sat_ledger m : topo_sat c m = true -> In m minors -> ledger_ok l minors (tc_req c) m.
  Proof.
    unfold topo_sat. rewrite Hcv. intros H Hin. apply andb_prop in H as [R Tz].
    destruct (dis_zero (free l) || match minors with [] => true | _ => false end) eqn:Hne.
    { rewrite filter_view_empty in Tz by auto. cbn [total empty_ledger] in Tz. rewrite dget_nil in Tz. discriminate. }
    rewrite view_total in Tz by auto. rewrite view_free_entry in R by auto.
    destruct (dget (free l) m) as [f|] eqn:Ef; [|discriminate].
    destruct (memn m minors) eqn:Mm; [|discriminate]. cbn [ores] in R.
    split; auto. exists f. split; auto. split; auto. now apply negb_true_iff in Tz.
  Qed.
  Lemma eligible_topo_sat m : eligible_minor l minors (tc_req c) m = true -> topo_sat c m = true.
  Proof.
    intros H. destruct (eligible_view (tc_req c) m H) as [Hne [f [Ef [Z [R Mm]]]]].
    unfold topo_sat. rewrite Hcv.
    rewrite view_total, view_free_entry, Ef, Mm by auto. cbn [ores]. apply andb_true_intro. split.
    - exact (view_free_rle_mono l FS Ht Hu m f Ef (tc_req c) R).
    - apply negb_true_iff. exact (free_nonzero_total l FS Ht Hu m f Ef Z).
  Qed.

  Lemma view_free_val_nonneg m k : 0 <= rval (ores (dget (free (filter_view l minors)) m)) k.
  Proof.
    destruct (dis_zero (free l) || match minors with [] => true | _ => false end) eqn:Hne.
    { rewrite filter_view_empty by auto. cbn [free empty_ledger]. rewrite dget_nil. cbn [ores].
      rewrite rval_rempty. lia. }
    rewrite view_free_entry by auto. destruct (dget (free l) m) as [f|] eqn:Ef.
    - destruct (memn m minors); cbn [ores]; [|rewrite rval_rempty; lia].
      exact (view_free_nonneg l FS Ht Hu m f Ef k).
    - cbn [ores]. rewrite rval_rempty. lia.
  Qed.
End OneLedger.

(* ------------------------------------------------------------------ scores are not negative *)
Lemma slot_score_nonneg req tot fr k x : 0 <= rval tot k -> slot_score req tot fr k = Some x -> 0 <= x.
Proof.
  unfold slot_score. intros Ht. destruct (rval tot k =? 0) eqn:E; [discriminate|].
  apply Z.eqb_neq in E. intros H. injection H as <-.
  match goal with |- context [if ?b then _ else _] => destruct b eqn:L end; [lia|].
  apply Z.ltb_ge in L. apply Z.quot_pos; lia.
Qed.
Lemma score_device_nonneg t req tot fr : (forall k, 0 <= rval tot k) -> 0 <= score_device t req tot fr.
Proof.
  intros Ht. unfold score_device.
  set (ss := map (slot_score req tot fr) (weighted_slots t)).
  set (n := Z.of_nat (length (filter (fun o : option Z => match o with Some _ => true | None => false end) ss))).
  destruct (n =? 0) eqn:E; [lia|]. apply Z.eqb_neq in E.
  apply Z.quot_pos; [|unfold n in *; lia].
  apply sumZ_map_nonneg. intros o Ho. unfold ss in Ho. apply in_map_iff in Ho as [k [<- _]].
  destruct (slot_score req tot fr k) as [x|] eqn:S; cbn; [|lia].
  eapply slot_score_nonneg; eauto.
Qed.

Section CoreAlloc.
  Variable infos : list devinfo.
  Variable t : nat.
  Variable orig_used : devres.
  Variable l : ledger.
  Let minors := minors_of infos t.
  Hypothesis FS : free_struct l.
  Hypothesis Ht : dnonneg (total l).
  Hypothesis Hu : dnonneg (used l).
  Variable per : res.
  Variable count : Z.
  Variable shared scored : bool.
  Hypothesis Hcount : 1 <= count.

  Lemma alloc_core_sound al :
    alloc_core scored infos t orig_used l per count shared = Some al ->
    length al = desired_count count /\ NoDup (map fst al) /\
    forall a, In a al -> snd a = per /\ ledger_ok l minors per (fst a).
  Proof.
    unfold alloc_core. fold minors.
    destruct (Nat.eqb t 0 && gpu_topo_ok infos && negb (shared && (1 <? count))) eqn:Br.
    - set (c := mkCtx (desired_count count) shared scored per (filter_view l minors)
                      (build_total infos 0) (real_used orig_used (filter_view l minors))).
      destruct (root_alloc c (root_minors infos) (numa_scopes infos)) as [r|] eqn:R; [|discriminate].
      intros H. injection H as <-.
      apply andb_prop in Br as [Br Bs]. apply andb_prop in Br as [Bt _].
      apply Nat.eqb_eq in Bt.
      assert (Hok : sr_ok c (fun m => In m minors) r).
      { eapply root_alloc_ok; [| | | |exact R].
        - intros m. unfold topo_score. cbn [tc_shared tc_scored tc_req tc_view tc_scope_total c].
          destruct (shared && scored); [|lia].
          apply score_device_nonneg. intros k. now apply view_free_val_nonneg.
        - apply root_minors_spec.
        - intros m Hm. unfold minors. rewrite Bt. now apply root_minors_spec.
        - intros sc Hsc. unfold minors. rewrite Bt. now apply numa_scopes_spec. }
      destruct Hok as [ND [Len Hall]]. cbn [tc_shared tc_n c] in Len.
      split; [|split].
      + rewrite map_length, Len. destruct shared; auto.
        apply negb_true_iff in Bs. cbn [andb] in Bs. symmetry. now apply desired_count_one.
      + rewrite map_map. cbn [fst]. now rewrite map_id.
      + intros a Ha. apply in_map_iff in Ha as [m [<- Hm]]. cbn [fst snd]. split; auto.
        destruct (Hall m Hm) as [Hin Hs].
        apply (topo_sat_ledger l minors c eq_refl m Hs Hin).
    - intros H. apply default_allocate_sound in H as [Len [ND Hall]].
      split; auto. split; auto. intros a Ha. destruct (Hall a Ha) as [E V]. split; auto.
      now apply view_ok_ledger.
  Qed.

  Lemma alloc_core_complete :
    alloc_core scored infos t orig_used l per count shared = None ->
    (eligible_count l minors per < desired_count count)%nat.
  Proof.
    unfold alloc_core. fold minors. unfold eligible_count.
    fold (elig_list l minors per).
    destruct (Nat.eqb t 0 && gpu_topo_ok infos && negb (shared && (1 <? count))) eqn:Br.
    - set (c := mkCtx (desired_count count) shared scored per (filter_view l minors)
                      (build_total infos 0) (real_used orig_used (filter_view l minors))).
      destruct (root_alloc c (root_minors infos) (numa_scopes infos)) as [r|] eqn:R; [discriminate|].
      intros _. apply andb_prop in Br as [Br Bs]. apply andb_prop in Br as [Bt _].
      apply Nat.eqb_eq in Bt.
      change (desired_count count) with (tc_n c).
      eapply root_alloc_none; [exact R| |apply elig_list_nodup|].
      + cbn [tc_shared tc_n c]. intros ->. apply negb_true_iff in Bs. cbn [andb] in Bs.
        now apply desired_count_one.
      + intros m Hm. unfold elig_list in Hm. apply filter_In in Hm as [_ Hm]. split.
        * apply root_minors_spec. rewrite <- Bt. fold minors.
          destruct (eligible_view l minors per m Hm) as [_ [f [_ [_ [_ Mm]]]]]. now apply memn_In.
        * apply (eligible_topo_sat l minors FS Ht Hu c eq_refl m Hm).
    - intros H. eapply default_allocate_complete; [exact H|apply elig_list_nodup|].
      intros m Hm. unfold elig_list in Hm. apply filter_In in Hm as [_ Hm].
      now apply eligible_view_ok.
  Qed.
End CoreAlloc.

Lemma alloc_type_sound ls infos t per count shared scored al :
  lgood (ledger_of ls t) -> 1 <= count ->
  alloc_type scored ls infos t per count shared = Some al ->
  length al = desired_count count /\ NoDup (map fst al) /\
  forall a, In a al -> snd a = per /\ ledger_ok (ledger_of ls t) (minors_of infos t) per (fst a).
Proof.
  intros G Hc. unfold alloc_type.
  apply alloc_core_sound; auto; [apply G|apply G|now apply lgood_used_nonneg].
Qed.
Lemma alloc_type_complete ls infos t per count shared scored :
  lgood (ledger_of ls t) -> 1 <= count ->
  alloc_type scored ls infos t per count shared = None ->
  (eligible_count (ledger_of ls t) (minors_of infos t) per < desired_count count)%nat.
Proof.
  intros G Hc. unfold alloc_type.
  apply alloc_core_complete; auto; [apply G|apply G|now apply lgood_used_nonneg].
Qed.

(* ------------------------------------------------------------------ fillGPUTotalMem *)
Definition filled (tot : devres) (a a' : alloc) : Prop :=
  fst a' = fst a /\ r0 (snd a') = r0 (snd a) /\ r1 (snd a') = r1 (snd a) /\
  (r2 (snd a) = None ->
   r2 (snd a') = Some (Z.quot (oz (r1 (snd a)) * rval (ores (dget tot (fst a))) 2) 100)).

Lemma fill_gpu_mem_spec tot a a' : fill_gpu_mem tot a = Some a' -> filled tot a a'.
Proof.
  unfold fill_gpu_mem, filled. destruct (dget tot (fst a)) as [g|] eqn:E; [|discriminate].
  destruct (ris_zero g); [discriminate|]. destruct (r2 (snd a)) eqn:E2; intros H; injection H as <-.
  - repeat split; auto. discriminate.
  - cbn [fst snd r0 r1 r2 ores]. repeat split; auto.
Qed.
Lemma fill_all_spec tot al g : fill_all tot al = Some g -> Forall2 (filled tot) al g.
Proof.
  revert g. induction al as [|a al IH]; intros g; cbn [fill_all].
  - intros H. injection H as <-. constructor.
  - destruct (fill_gpu_mem tot a) as [a'|] eqn:Ea; [|discriminate].
    destruct (fill_all tot al) as [g'|]; [|discriminate].
    intros H. injection H as <-. constructor; auto. now apply fill_gpu_mem_spec.
Qed.
Lemma fill_all_total tot al :
  (forall a, In a al -> ris_zero (ores (dget tot (fst a))) = false) -> fill_all tot al <> None.
Proof.
  induction al as [|a al IH]; intros H; cbn [fill_all]; [discriminate|].
  assert (Ha : fill_gpu_mem tot a <> None).
  { unfold fill_gpu_mem. specialize (H a (or_introl eq_refl)).
    destruct (dget tot (fst a)) as [g|]; [|cbn in H; discriminate]. cbn [ores] in H. rewrite H.
    destruct (r2 (snd a)); discriminate. }
  destruct (fill_gpu_mem tot a); [|congruence].
  destruct (fill_all tot al) eqn:E; [discriminate|]. exfalso. apply IH; auto.
  intros; apply H; now right.
Qed.
Lemma Forall2_map_fst tot al g : Forall2 (filled tot) al g -> map fst g = map fst al.
Proof. induction 1 as [|a a' al g [E _] _ IH]; cbn; auto. now rewrite E, IH. Qed.
Lemma Forall2_len {A B} (R : A -> B -> Prop) l l' : Forall2 R l l' -> length l' = length l.
Proof. induction 1; cbn; auto. Qed.
Lemma Forall2_In_r {A B} (R : A -> B -> Prop) l l' y : Forall2 R l l' -> In y l' -> exists x, In x l /\ R x y.
Proof.
  induction 1 as [|a b l l' H _ IH]; intros Hin; [destruct Hin|].
  destruct Hin as [<-|Hin]; [exists a; split; auto; now left|].
  destruct (IH Hin) as [x [Hx Rx]]. exists x. split; auto. now right.
Qed.

(* ------------------------------------------------------------------ the whole allocation *)
Definition granted (t : nat) (tot : devres) (per : res) (a : alloc) : Prop :=
  r0 (snd a) = r0 per /\ r1 (snd a) = r1 per /\
  (t <> 0%nat -> snd a = per) /\
  (t = 0%nat -> r2 (snd a) = Some (Z.quot (oz (r1 per) * rval (ores (dget tot (fst a))) 2) 100)).

Definition type_done (ls : list ledger) (infos : list devinfo) (rq : rawreq) (t : nat)
           (al : list alloc) : Prop :=
  match treq_of rq t with
  | TReq per count sh =>
      length al = desired_count count /\ NoDup (map fst al) /\
      forall a, In a al -> ledger_ok (ledger_of ls t) (minors_of infos t) per (fst a)
                           /\ granted t (total (ledger_of ls t)) per a
  | _ => al = []
  end.

Definition pt (ls : list ledger) (infos : list devinfo) (rq : rawreq) (t : nat)
  : option (option (list alloc)) :=
  match treq_of rq t with
  | TReq per count sh => Some (alloc_type true ls infos t per count sh)
  | _ => None
  end.
Definition al_of (o : option (option (list alloc))) : list alloc :=
  match o with Some (Some al) => al | _ => [] end.
Definition is_refused (o : option (option (list alloc))) : bool :=
  match o with Some None => true | _ => false end.

Lemma pt_spec ls infos rq t :
  lgood (ledger_of ls t) -> is_refused (pt ls infos rq t) = false ->
  match treq_of rq t with
  | TReq per count sh =>
      let al := al_of (pt ls infos rq t) in
      length al = desired_count count /\ NoDup (map fst al) /\
      forall a, In a al -> snd a = per /\ ledger_ok (ledger_of ls t) (minors_of infos t) per (fst a)
  | _ => al_of (pt ls infos rq t) = []
  end.
Proof.
  intros G. unfold pt. destruct (treq_of rq t) as [| |per count sh] eqn:E; auto.
  destruct (alloc_type true ls infos t per count sh) as [al|] eqn:A; [|discriminate].
  intros _. cbn [al_of]. apply treq_spec in E as [Hc _].
  eapply alloc_type_sound; eauto.
Qed.

Lemma allocate_unfold ls infos rq :
  allocate ls infos rq =
  if is_invalid (treq_of rq 0) || (is_invalid (treq_of rq 1) || (is_invalid (treq_of rq 2) || false))
  then AFail c_unresolvable
  else if negb (is_req (treq_of rq 0) || (is_req (treq_of rq 1) || (is_req (treq_of rq 2) || false)))
  then ASkip
  else if no_device_t ls 0 rq || (no_device_t ls 1 rq || (no_device_t ls 2 rq || false))
  then AFail c_unresolvable
  else if is_refused (pt ls infos rq 0) || (is_refused (pt ls infos rq 1) || (is_refused (pt ls infos rq 2) || false))
  then AFail c_unsched
  else match fill_all (total (ledger_of ls 0)) (al_of (pt ls infos rq 0)) with
       | None => AFail c_error
       | Some g => ADone [g; al_of (pt ls infos rq 1); al_of (pt ls infos rq 2)]
       end.
Proof. reflexivity. Qed.

Lemma allocate_done ls infos rq da :
  (forall t, lgood (ledger_of ls t)) -> allocate ls infos rq = ADone da ->
  forall t, (t < 3)%nat -> type_done ls infos rq t (allocs_of da t).
Proof.
  intros G. rewrite allocate_unfold.
  destruct (is_invalid (treq_of rq 0) || _); [discriminate|].
  destruct (negb _); [discriminate|].
  destruct (no_device_t ls 0 rq || _); [discriminate|].
  destruct (is_refused (pt ls infos rq 0) || _) eqn:R; [discriminate|].
  apply orb_false_iff in R as [R0 R]. apply orb_false_iff in R as [R1 R].
  apply orb_false_iff in R as [R2 _].
  destruct (fill_all (total (ledger_of ls 0)) (al_of (pt ls infos rq 0))) as [g|] eqn:F; [|discriminate].
  intros H. injection H as <-. intros t Ht.
  pose proof (pt_spec ls infos rq 0 (G 0%nat) R0) as P0.
  pose proof (pt_spec ls infos rq 1 (G 1%nat) R1) as P1.
  pose proof (pt_spec ls infos rq 2 (G 2%nat) R2) as P2.
  unfold type_done. destruct t as [|[|[|t]]]; [| | |lia]; cbn [allocs_of nth].
  - apply fill_all_spec in F. destruct (treq_of rq 0) as [| |per count sh] eqn:E.
    + rewrite P0 in F. now inversion F.
    + rewrite P0 in F. now inversion F.
    + cbn zeta in P0. destruct P0 as [Len [ND Hall]].
      pose proof (Forall2_map_fst _ _ _ F) as Mf. apply treq_spec in E as [_ [_ [E2 _]]].
      split; [|split].
      * rewrite <- Len. eapply Forall2_len; eauto.
      * now rewrite Mf.
      * intros a' Ha'. destruct (Forall2_In_r _ _ _ _ F Ha') as [a [Ha [Ef [F0 [F1 F2]]]]].
        destruct (Hall a Ha) as [Es Hl]. rewrite Ef. split; auto.
        unfold granted. rewrite F0, F1, Es. repeat split; auto; try congruence.
        intros _. rewrite Ef, F2, Es; auto. now rewrite Es.
  - destruct (treq_of rq 1) as [| |per count sh]; auto. cbn zeta in P1.
    destruct P1 as [Len [ND Hall]]. split; auto. split; auto.
    intros a Ha. destruct (Hall a Ha) as [Es Hl]. split; auto.
    unfold granted. rewrite Es. repeat split; auto. intros; discriminate.
  - destruct (treq_of rq 2) as [| |per count sh]; auto. cbn zeta in P2.
    destruct P2 as [Len [ND Hall]]. split; auto. split; auto.
    intros a Ha. destruct (Hall a Ha) as [Es Hl]. split; auto.
    unfold granted. rewrite Es. repeat split; auto. intros; discriminate.
Qed.

Lemma allocate_fail ls infos rq code :
  (forall t, lgood (ledger_of ls t)) -> allocate ls infos rq = AFail code ->
  (code = c_unresolvable /\
   (existsb (fun t => is_invalid (treq_of rq t)) type_ids
    || existsb (fun t => no_device_t ls t rq) type_ids) = true)
  \/ (code = c_unsched /\ existsb (fun t => alloc_short_t ls infos t rq) type_ids = true).
Proof.
  intros G. rewrite allocate_unfold. cbn [existsb type_ids].
  destruct (is_invalid (treq_of rq 0) || _) eqn:I.
  { intros H. injection H as <-. left. split; auto. }
  destruct (negb _); [discriminate|].
  destruct (no_device_t ls 0 rq || _) eqn:N.
  { intros H. injection H as <-. left. split; auto. }
  destruct (is_refused (pt ls infos rq 0) || _) eqn:R.
  { intros H. injection H as <-. right. split; auto.
    assert (P : forall t, is_refused (pt ls infos rq t) = true -> alloc_short_t ls infos t rq = true).
    { intros t. unfold pt, alloc_short_t. destruct (treq_of rq t) as [| |per count sh] eqn:E; try discriminate.
      destruct (alloc_type true ls infos t per count sh) eqn:A; [discriminate|]. intros _.
      apply Nat.ltb_lt. apply treq_spec in E as [Hc _]. eapply alloc_type_complete; eauto. }
    apply orb_true_iff in R as [R|R]; [rewrite (P _ R); reflexivity|].
    apply orb_true_iff in R as [R|R]; [rewrite (P _ R); apply orb_true_iff; right; reflexivity|].
    apply orb_true_iff in R as [R|R]; [|discriminate].
    rewrite (P _ R). rewrite !orb_true_r. reflexivity. }
  apply orb_false_iff in R as [R0 _].
  destruct (fill_all (total (ledger_of ls 0)) (al_of (pt ls infos rq 0))) eqn:F; [discriminate|].
  exfalso. revert F. apply fill_all_total. intros a Ha.
  pose proof (pt_spec ls infos rq 0 (G 0%nat) R0) as P0.
  destruct (treq_of rq 0) as [| |per count sh]; try (rewrite P0 in Ha; destruct Ha).
  cbn zeta in P0. destruct P0 as [_ [_ Hall]]. destruct (Hall a Ha) as [_ [_ [f [_ [_ Z]]]]]. exact Z.
Qed.

Lemma allocate_skip ls infos rq :
  allocate ls infos rq = ASkip ->
  existsb (fun t => is_req (treq_of rq t) || is_invalid (treq_of rq t)) type_ids = false.
Proof.
  rewrite allocate_unfold. cbn [existsb type_ids].
  destruct (is_invalid (treq_of rq 0) || _) eqn:I; [discriminate|].
  destruct (negb _) eqn:Q; [|repeat match goal with |- context [if ?b then _ else _] => destruct b end;
                              try discriminate; destruct (fill_all _ _); discriminate].
  intros _. apply negb_true_iff in Q.
  apply orb_false_iff in I as [I0 I]. apply orb_false_iff in I as [I1 I]. apply orb_false_iff in I as [I2 _].
  apply orb_false_iff in Q as [Q0 Q]. apply orb_false_iff in Q as [Q1 Q]. apply orb_false_iff in Q as [Q2 _].
  now rewrite I0, I1, I2, Q0, Q1, Q2.
Qed.

(* the code of a refusal is one of the three failure codes (never the success code) *)
Lemma allocate_fail_codes ls infos rq code :
  allocate ls infos rq = AFail code -> code = c_unresolvable \/ (code = c_unsched \/ code = c_error).
Proof.
  rewrite allocate_unfold.
  repeat match goal with |- context [if ?b then _ else _] => destruct b end;
    try discriminate; try (intros H; injection H as <-; auto).
  destruct (fill_all _ _); [discriminate|]. intros H; injection H as <-; auto.
Qed.
