(* C07 — the whole allocation of a pod on the ledgers of a node: request parsing, per-type
   allocation through the view, GPU memory fill. *)
From Coq Require Import List ZArith Bool Arith Lia Permutation.
From Verif Require Import C07.Model C07.Spec C07.Proofs_Res C07.Proofs_Ledger C07.Proofs_View
  C07.Proofs_Alloc.
From Verif Require Import Gen.Gen_scores Lib.GenScores.
Import ListNotations.
Open Scope Z_scope.

(* ------------------------------------------------------------------ parsed requests *)
Lemma quot_nonneg a b : 0 <= a -> 0 <= b -> 0 <= Z.quot a b.
Proof.
  intros Ha Hb. destruct (Z.eq_dec b 0) as [->|Hn].
  - rewrite Z.quot_0_r_ext; auto; lia.
  - apply Z.quot_pos; lia.
Qed.

Lemma simple_treq_spec v per count sh : simple_treq v = TReq per count sh ->
  1 <= count /\ (0 <= v -> res_nonneg per = true) /\ r1 per = None /\ r2 per = None.
Proof.
  unfold simple_treq. destruct (v =? 0); [discriminate|].
  destruct (negb (pct_ok v)); [discriminate|].
  destruct ((100 <? v) && (Z.rem v 100 =? 0)) eqn:E; intros H; injection H as <- <- <-.
  - apply andb_prop in E as [E _]. apply Z.ltb_lt in E.
    assert (1 <= Z.quot v 100) by (apply Z.quot_le_lower_bound; lia).
    repeat split; auto. intros _. unfold res_nonneg. cbn [r0 r1 r2 oz].
    rewrite !andb_true_iff. repeat split; try reflexivity. apply Z.leb_le. apply quot_nonneg; lia.
  - repeat split; auto; try lia. intros Hv. unfold res_nonneg. cbn [r0 r1 r2 oz].
    rewrite !andb_true_iff. repeat split; try reflexivity. now apply Z.leb_le.
Qed.

Lemma gpu_treq_spec rq per count sh : gpu_treq rq = TReq per count sh ->
  1 <= count /\ (raw_nonneg rq = true -> res_nonneg per = true) /\ r2 per = None /\
  (sh = true -> 1 < count -> True).
Proof.
  unfold gpu_treq.
  destruct ((q_koord rq =? 0) && (q_core rq =? 0) && (q_ratio rq =? 0) && (q_shared rq =? 0)
            && (q_nvidia rq =? 0)); [discriminate|].
  destruct (gpu_conv rq) as [[[core ratio] shared]|] eqn:C; [|discriminate].
  set (count0 := if 0 <? shared then shared
                 else if (100 <? ratio) && (Z.rem ratio 100 =? 0) then Z.quot ratio 100 else 1).
  intros H. injection H as <- <- <-.
  assert (Hc : 1 <= count0).
  { unfold count0. destruct (0 <? shared) eqn:S; [apply Z.ltb_lt in S; lia|].
    destruct ((100 <? ratio) && (Z.rem ratio 100 =? 0)) eqn:E; [|lia].
    apply andb_prop in E as [E _]. apply Z.ltb_lt in E. apply Z.quot_le_lower_bound; lia. }
  repeat split; auto.
  intros NN. unfold raw_nonneg in NN. rewrite !andb_true_iff in NN.
  destruct NN as [[[[[[N0 N1] N2] N3] N4] N5] N6].
  apply Z.leb_le in N0, N1, N2, N3, N4.
  assert (Hr : 0 <= ratio /\ match core with Some x => 0 <= x | None => True end).
  { unfold gpu_conv in C.
    destruct (negb (q_koord rq =? 0)), (negb (q_core rq =? 0)), (negb (q_ratio rq =? 0)),
      (negb (q_shared rq =? 0)), (negb (q_nvidia rq =? 0)); try discriminate;
    repeat match type of C with (if ?b then _ else _) = _ => destruct b; try discriminate end;
    injection C as <- <- <-; split; try lia; auto. }
  destruct Hr as [Hr Hco].
  unfold res_nonneg. cbn [r0 r1 r2 oz]. rewrite !andb_true_iff. repeat split; try reflexivity.
  - destruct core as [x|]; cbn [oz]; apply Z.leb_le; [apply quot_nonneg; lia|lia].
  - apply Z.leb_le. apply quot_nonneg; lia.
Qed.

Lemma treq_spec rq t per count sh : treq_of rq t = TReq per count sh ->
  1 <= count /\ (raw_nonneg rq = true -> res_nonneg per = true) /\ r2 per = None /\
  (t <> 0%nat -> r1 per = None).
Proof.
  destruct t as [|[|[|t]]]; cbn [treq_of]; intros H.
  - apply gpu_treq_spec in H as [H1 [H2 [H3 _]]]. repeat split; auto. congruence.
  - apply simple_treq_spec in H as [H1 [H2 [H3 H4]]]. repeat split; auto.
    intros NN. apply H2. unfold raw_nonneg in NN. rewrite !andb_true_iff in NN.
    destruct NN as [[_ N5] _]. now apply Z.leb_le.
  - apply simple_treq_spec in H as [H1 [H2 [H3 H4]]]. repeat split; auto.
    intros NN. apply H2. unfold raw_nonneg in NN. rewrite !andb_true_iff in NN.
    destruct NN as [_ N6]. now apply Z.leb_le.
  - discriminate.
Qed.
Lemma desired_count_pos count : 1 <= count -> (1 <= desired_count count)%nat.
Proof. intros H. unfold desired_count. destruct (count =? 0) eqn:E; [lia|]. lia. Qed.
Lemma desired_count_one count : 1 <= count -> (1 <? count) = false -> desired_count count = 1%nat.
Proof.
  intros H L. apply Z.ltb_ge in L. assert (count = 1) by lia. subst. reflexivity.
Qed.

(* ------------------------------------------------------------------ one device type *)
(* what an allocated device satisfies, judged on the ledger *)
(* [b] says whether the request is known to fit: always, except for devices handed out by the
   partition path, which fit when the request fits every GPU's total ([part_fit]) *)
Definition ledger_ok (b : bool) (l : ledger) (minors : list nat) (per : res) (m : nat) : Prop :=
  In m minors /\
  exists f, dget (free l) m = Some f /\ (b = true -> rle per (view_free l m f) = true) /\
            ris_zero (ores (dget (total l) m)) = false.
(* the same, reduced to what the property needs: the request fits the free amount of every
   resource the device exposes *)
Definition ledger_okx (b : bool) (l : ledger) (minors : list nat) (per : res) (m : nat) : Prop :=
  In m minors /\
  exists f, dget (free l) m = Some f /\
            (b = true -> forall k T v, rget (ores (dget (total l) m)) k = Some T -> rget per k = Some v ->
                                       v <= rval f k) /\
            ris_zero (ores (dget (total l) m)) = false.
Definition pfit_t (kind : Z) (t : nat) (tot : devres) (per : res) (shared : bool) : bool :=
  negb (Nat.eqb t 0) || pfit kind tot per shared.

Section OneLedger.
  Variable l : ledger.
  Variable minors : list nat.
  Hypothesis FS : free_struct l.
  Hypothesis Ht : dnonneg (total l).
  Hypothesis Hu : dnonneg (used l).

  Lemma view_ok_ledger b per m : view_ok (filter_view l minors) per m -> ledger_ok b l minors per m.
  Proof.
    intros [f' [Ef [Z R]]].
    destruct (dis_zero (free l) || match minors with [] => true | _ => false end) eqn:Hne.
    { rewrite filter_view_empty in Ef by auto. cbn [free empty_ledger] in Ef. rewrite dget_nil in Ef. discriminate. }
    rewrite view_free_entry in Ef by auto.
    destruct (dget (free l) m) as [f|] eqn:Efl; [|discriminate].
    destruct (memn m minors) eqn:Mm; [|discriminate]. injection Ef as <-.
    split; [now apply memn_In|]. exists f. split; auto. split; auto.
    assert (Zf : ris_zero f = false).
    { rewrite <- (view_free_is_zero l FS Ht Hu m f Efl). exact Z. }
    exact (free_nonzero_total l FS Ht Hu m f Efl Zf).
  Qed.

  Lemma ledger_ok_okx b per m : ledger_ok b l minors per m -> ledger_okx b l minors per m.
  Proof.
    intros [Hin [f [Ef [R Z]]]]. split; auto. exists f. split; auto. split; auto.
    intros Hb k T v ET Ev. exact (view_free_rle_exposed l FS Ht Hu m f Ef per k T v (R Hb) ET Ev).
  Qed.

  Lemma eligible_view per m : eligible_minor l minors per m = true ->
    dis_zero (free l) || match minors with [] => true | _ => false end = false /\
    exists f, dget (free l) m = Some f /\ ris_zero f = false /\ rle per f = true /\
              memn m minors = true.
  Proof.
    unfold eligible_minor. intros H. apply andb_prop in H as [Mm H].
    destruct (dget (free l) m) as [f|] eqn:Ef; [|discriminate].
    apply andb_prop in H as [Z R]. apply negb_true_iff in Z.
    split; [|exists f; auto].
    apply orb_false_iff. split.
    - destruct (dis_zero (free l)) eqn:D; auto. rewrite dis_zero_spec in D. specialize (D m).
      rewrite Ef in D. cbn in D. congruence.
    - destruct minors; [discriminate|reflexivity].
  Qed.
  Lemma eligible_view_ok per m : eligible_minor l minors per m = true ->
    view_ok (filter_view l minors) per m.
  Proof.
    intros H. destruct (eligible_view per m H) as [Hne [f [Ef [Z [R Mm]]]]].
    exists (view_free l m f). rewrite view_free_entry, Ef, Mm by auto. split; auto. split.
    - rewrite (view_free_is_zero l FS Ht Hu m f Ef). exact Z.
    - exact (view_free_rle_mono l FS Ht Hu m f Ef per R).
  Qed.

  Definition elig_list per : list nat :=
    filter (eligible_minor l minors per) (seq 0 (length (free l))).
  Lemma elig_list_nodup per : NoDup (elig_list per).
  Proof. apply NoDup_filter, seq_NoDup. Qed.

  (* any topology context looking at this ledger's view *)
  Variable c : topo_ctx.
  Hypothesis Hcv : tc_view c = filter_view l minors.

  Lemma topo_sat_ledger b m : topo_sat c m = true -> In m minors -> ledger_ok b l minors (tc_req c) m.
  Proof.
    unfold topo_sat. rewrite Hcv. intros H Hin. apply andb_prop in H as [R Tz].
    destruct (dis_zero (free l) || match minors with [] => true | _ => false end) eqn:Hne.
    { rewrite filter_view_empty in Tz by auto. cbn [total empty_ledger] in Tz. rewrite dget_nil in Tz. discriminate. }
    rewrite view_total in Tz by auto. rewrite view_free_entry in R by auto.
    destruct (dget (free l) m) as [f|] eqn:Ef; [|discriminate].
    destruct (memn m minors) eqn:Mm; [|discriminate]. cbn [ores] in R.
    split; auto. exists f. split; auto. split; auto. now apply negb_true_iff in Tz.
  Qed.
  Lemma eligible_topo_sat m : eligible_minor l minors (tc_req c) m = true -> topo_sat c m = true.
  Proof.
    intros H. destruct (eligible_view (tc_req c) m H) as [Hne [f [Ef [Z [R Mm]]]]].
    unfold topo_sat. rewrite Hcv.
    rewrite view_total, view_free_entry, Ef, Mm by auto. cbn [ores]. apply andb_true_intro. split.
    - exact (view_free_rle_mono l FS Ht Hu m f Ef (tc_req c) R).
    - apply negb_true_iff. exact (free_nonzero_total l FS Ht Hu m f Ef Z).
  Qed.

  (* partitions *)
  Variable ou : devres.
  Hypothesis Hcu : tc_used c = real_used ou (filter_view l minors).

  Lemma part_feasible_ledger p m : part_feasible c p = true -> In m p ->
    ledger_ok (part_fit (total l) (tc_req c)) l minors (tc_req c) m.
  Proof.
    unfold part_feasible. rewrite Hcv, Hcu. intros H Hm. apply andb_prop in H as [D F].
    rewrite forallb_forall in F. specialize (F m Hm).
    destruct (dis_zero (free l) || match minors with [] => true | _ => false end) eqn:Hne.
    { rewrite filter_view_empty in F by auto. cbn [total empty_ledger] in F. rewrite dget_nil in F. discriminate. }
    rewrite view_total in F by auto.
    destruct (dget (free l) m) as [f|] eqn:Ef; [|discriminate].
    destruct (memn m minors) eqn:Mm; [|discriminate]. apply negb_true_iff in F.
    split; [now apply memn_In|]. exists f. split; auto. split; auto.
    intros PF.
    (* m is not in use in the view *)
    assert (Nu : dget (used (filter_view l minors)) m = None).
    { unfold disjointb in D. apply negb_true_iff in D.
      destruct (dget (used (filter_view l minors)) m) eqn:E; auto. exfalso.
      assert (X : existsb (fun m0 => memn m0 (real_used ou (filter_view l minors))) p = true).
      { apply existsb_exists. exists m. split; auto. apply memn_In. unfold real_used.
        apply in_or_app. right. apply present_minors_In. unfold dget in E. congruence. }
      congruence. }
    rewrite view_used, Ef, Mm in Nu by auto.
    destruct (ris_zero (view_u l m f)) eqn:Z; [|discriminate].
    destruct (view_free_zero l FS Ht Hu m f Ef Z) as [-> _].
    unfold part_fit in PF. rewrite forallb_forall in PF.
    destruct (dget (total l) m) as [T|] eqn:ET; [|cbn in F; discriminate].
    specialize (PF (Some T) (dget_In _ _ _ ET)). cbn beta iota in PF. cbn [ores] in F |- *.
    rewrite F in PF. exact PF.
  Qed.

  Lemma part_free_feasible p : (forall m, In m p -> part_free_minor l minors m = true) ->
    part_feasible c p = true.
  Proof.
    intros H. unfold part_feasible. rewrite Hcv, Hcu.
    assert (Each : forall m, In m p ->
              dget (total (filter_view l minors)) m = Some (ores (dget (total l) m)) /\
              ris_zero (ores (dget (total l) m)) = false /\
              dget (used (filter_view l minors)) m = None).
    { intros m Hm. specialize (H m Hm). unfold part_free_minor in H.
      apply andb_prop in H as [H Fr]. apply andb_prop in H as [Mm Tz]. apply negb_true_iff in Tz.
      destruct (dget (free l) m) as [f|] eqn:Ef; [|discriminate]. rewrite forallb_forall in Fr.
      assert (Fk : forall k t, rget (ores (dget (total l) m)) k = Some t -> rval f k = t).
      { intros k t E. destruct (Nat.lt_ge_cases k 3) as [Lk|Lk].
        - specialize (Fr k (slots_all k Lk)). rewrite E in Fr. apply Z.eqb_eq in Fr.
          unfold dval in Fr. now rewrite Ef in Fr.
        - rewrite rget_big in E by auto. discriminate. }
      assert (Hne : dis_zero (free l) || match minors with [] => true | _ => false end = false).
      { apply orb_false_iff. split.
        - destruct (dis_zero (free l)) eqn:D; auto. rewrite dis_zero_spec in D. specialize (D m).
          rewrite Ef in D. cbn [ores] in D. rewrite ris_zero_spec in D.
          apply ris_zero_false in Tz as [k Hk]. unfold rval in Hk.
          destruct (rget (ores (dget (total l) m)) k) as [t|] eqn:E; [|cbn in Hk; congruence].
          cbn in Hk. rewrite <- (Fk k t E) in Hk. now rewrite D in Hk.
        - apply memn_In in Mm. destruct minors; [destruct Mm|reflexivity]. }
      rewrite view_total, view_used, Ef, Mm by auto. split; auto. split; auto.
      assert (Z : ris_zero (view_u l m f) = true).
      { apply ris_zero_spec. intros k. unfold rval. rewrite (rget_view_u l FS Ht Hu m f Ef).
        destruct (rget (ores (dget (total l) m)) k) as [t|] eqn:E.
        - cbn. rewrite (Fk k t E). lia.
        - destruct (rget f k); reflexivity. }
      now rewrite Z. }
    apply andb_true_intro. split.
    - unfold disjointb. apply negb_true_iff. destruct (existsb _ p) eqn:E; auto. exfalso.
      apply existsb_exists in E as [m [Hm Mu]]. apply memn_In in Mu. unfold real_used in Mu.
      destruct (Each m Hm) as [E1 [_ E3]]. apply in_app_or in Mu as [Mu|Mu].
      + apply filter_In in Mu as [_ Mu]. now rewrite E1 in Mu.
      + apply present_minors_In in Mu. unfold dget in E3. congruence.
    - apply forallb_forall. intros m Hm. destruct (Each m Hm) as [E1 [E2 _]]. rewrite E1.
      now apply negb_true_iff.
  Qed.

  Lemma view_free_val_nonneg m k : 0 <= rval (ores (dget (free (filter_view l minors)) m)) k.
  Proof.
    destruct (dis_zero (free l) || match minors with [] => true | _ => false end) eqn:Hne.
    { rewrite filter_view_empty by auto. cbn [free empty_ledger]. rewrite dget_nil. cbn [ores].
      rewrite rval_rempty. lia. }
    rewrite view_free_entry by auto. destruct (dget (free l) m) as [f|] eqn:Ef.
    - destruct (memn m minors); cbn [ores]; [|rewrite rval_rempty; lia].
      exact (view_free_nonneg l FS Ht Hu m f Ef k).
    - cbn [ores]. rewrite rval_rempty. lia.
  Qed.
End OneLedger.

(* ------------------------------------------------------------------ scores are not negative *)
(* the per-resource scores are the functions regenerated from scoring.go; what is used of them is
   stated through Lib.GenScores ([least_spec] / [most_spec]) *)
Lemma least_spec_nonneg r c : 0 <= c -> 0 <= least_spec r c.
Proof.
  intros Hc. unfold least_spec. destruct (c =? 0) eqn:E0; [lia|]. destruct (c <? r) eqn:L; [lia|].
  apply Z.ltb_ge in L. apply Z.eqb_neq in E0. pose proof max_node_score_pos. apply Z.quot_pos; nia.
Qed.
Lemma slot_score_nonneg most req tot fr k x :
  0 <= rval tot k -> (most = true -> 0 <= rval req k) ->
  slot_score most req tot fr k = Some x -> 0 <= x.
Proof.
  unfold slot_score. intros Ht Hm. destruct (rval tot k =? 0) eqn:E; [discriminate|].
  intros H. injection H as <-. destruct most.
  - rewrite deviceshare_most_is_spec. specialize (Hm eq_refl).
    apply most_range; [|lia]. destruct (rval fr k <=? rval tot k) eqn:L; [|lia].
    apply Z.leb_le in L. lia.
  - rewrite deviceshare_least_is_spec. now apply least_spec_nonneg.
Qed.
Lemma score_device_nonneg most t req tot fr :
  (forall k, 0 <= rval tot k) -> (most = true -> forall k, 0 <= rval req k) ->
  0 <= score_device most t req tot fr.
Proof.
  intros Ht Hm. unfold score_device.
  set (ss := map (slot_score most req tot fr) (weighted_slots t)).
  set (n := Z.of_nat (length (filter (fun o : option Z => match o with Some _ => true | None => false end) ss))).
  destruct (n =? 0) eqn:E; [lia|]. apply Z.eqb_neq in E.
  apply Z.quot_pos; [|unfold n in *; lia].
  apply sumZ_map_nonneg. intros o Ho. unfold ss in Ho. apply in_map_iff in Ho as [k [<- _]].
  destruct (slot_score most req tot fr k) as [x|] eqn:S; cbn; [|lia].
  apply (slot_score_nonneg most req tot fr k x (Ht k)); auto.
Qed.

(* every device score lies on the scale [0, MaxNodeScore] of the regenerated score functions *)
Lemma slot_score_range most req tot fr k x :
  0 <= rval tot k -> 0 <= rval req k ->
  slot_score most req tot fr k = Some x -> 0 <= x <= MaxNodeScore.
Proof.
  unfold slot_score. intros Ht Hr. destruct (rval tot k =? 0) eqn:E; [discriminate|].
  intros H. injection H as <-.
  assert (Hq : 0 <= (if rval fr k <=? rval tot k then rval tot k - rval fr k + rval req k else rval tot k)).
  { destruct (rval fr k <=? rval tot k) eqn:L; [|lia]. apply Z.leb_le in L. lia. }
  destruct most.
  - rewrite deviceshare_most_is_spec. now apply most_range.
  - rewrite deviceshare_least_is_spec. now apply least_range.
Qed.
Lemma sum_scores_bound (ss : list (option Z)) M :
  0 <= M -> (forall x, In (Some x) ss -> 0 <= x <= M) ->
  0 <= sumZ (map oz ss)
  <= M * Z.of_nat (length (filter (fun o : option Z => match o with Some _ => true | None => false end) ss)).
Proof.
  intros HM. induction ss as [|o ss IH]; intros H; [cbn; lia|].
  specialize (IH (fun x Hx => H x (or_intror Hx))). cbn [map filter]. rewrite sumZ_cons.
  destruct o as [x|]; cbn [oz length].
  - specialize (H x (or_introl eq_refl)). lia.
  - lia.
Qed.
Lemma score_device_range most t req tot fr :
  (forall k, 0 <= rval tot k) -> (forall k, 0 <= rval req k) ->
  0 <= score_device most t req tot fr <= MaxNodeScore.
Proof.
  intros Ht Hr. unfold score_device.
  set (ss := map (slot_score most req tot fr) (weighted_slots t)).
  set (n := Z.of_nat (length (filter (fun o : option Z => match o with Some _ => true | None => false end) ss))).
  pose proof max_node_score_pos as HM.
  destruct (n =? 0) eqn:E; [lia|]. apply Z.eqb_neq in E.
  assert (B : 0 <= sumZ (map oz ss) <= MaxNodeScore * n).
  { apply sum_scores_bound; [lia|]. intros x Hx. unfold ss in Hx. apply in_map_iff in Hx as [k [Hk _]].
    exact (slot_score_range most req tot fr k x (Ht k) (Hr k) Hk). }
  assert (0 < n) by (unfold n in *; lia). split.
  - apply Z.quot_pos; lia.
  - apply Z.quot_le_upper_bound; lia.
Qed.

(* what the partition path returns *)
Lemma part_alloc_some kind c ms : part_alloc kind c = PSome ms ->
  tc_shared c = false /\ has_part_table kind = true /\
  exists ps, hopper_table (tc_n c) = Some ps /\ In ms ps /\ part_feasible c ms = true.
Proof.
  unfold part_alloc. destruct (tc_shared c); [destruct (honor_part kind); discriminate|].
  destruct (has_part_table kind); cbn [negb]; [|destruct (honor_part kind); discriminate].
  destruct (hopper_table (tc_n c)) as [ps|] eqn:E; [|destruct (honor_part kind); discriminate].
  destruct (filter (part_feasible c) ps) as [|f0 fs] eqn:F; [destruct (honor_part kind); discriminate|].
  intros H.
  assert (Hs : ms = select_part (tc_used c) (tc_n c) (f0 :: fs)) by (destruct (honor_part kind); congruence).
  assert (Hin : In ms (filter (part_feasible c) ps)).
  { rewrite F, Hs. apply select_part_in. discriminate. }
  apply filter_In in Hin as [H1 H2]. repeat split; auto. exists ps. auto.
Qed.
Lemma part_alloc_fail kind c : part_alloc kind c = PFail ->
  honor_part kind = true /\ tc_shared c = false /\
  (hopper_table (tc_n c) = None \/
   exists ps, hopper_table (tc_n c) = Some ps /\ forall p, In p ps -> part_feasible c p = false).
Proof.
  unfold part_alloc. destruct (tc_shared c); [destruct (honor_part kind); discriminate|].
  destruct (honor_part kind) eqn:Hh.
  2:{ destruct (has_part_table kind); cbn [negb]; try discriminate.
      destruct (hopper_table (tc_n c)); try discriminate.
      destruct (filter (part_feasible c) l); discriminate. }
  assert (Ht : has_part_table kind = true).
  { unfold honor_part in Hh. unfold has_part_table. now rewrite Hh. }
  rewrite Ht. cbn [negb]. destruct (hopper_table (tc_n c)) as [ps|] eqn:E; [|auto].
  destruct (filter (part_feasible c) ps) as [|f0 fs] eqn:F; [|discriminate].
  intros _. repeat split; auto. right. exists ps. split; auto. intros p Hp.
  destruct (part_feasible c p) eqn:Fp; auto.
  assert (In p (filter (part_feasible c) ps)) by (apply filter_In; auto). rewrite F in H. destruct H.
Qed.

Section CoreAlloc.
  Variable kind : Z.
  Variable infos : list devinfo.
  Variable t : nat.
  Variable orig_used : devres.
  Variable l : ledger.
  Let minors := minors_of infos t.
  Hypothesis FS : free_struct l.
  Hypothesis Ht : dnonneg (total l).
  Hypothesis Hu : dnonneg (used l).
  Variable per : res.
  Variable count : Z.
  Variable shared scored : bool.
  Hypothesis Hcount : 1 <= count.
  Hypothesis Hper : most_of kind = true -> res_nonneg per = true.
  Definition core_ctx := mkCtx (desired_count count) shared scored (most_of kind) per (filter_view l minors)
                 (build_total infos 0) (real_used orig_used (filter_view l minors)).
  Notation c := core_ctx.
  Definition general :=
    if Nat.eqb t 0 && gpu_topo_ok infos && negb (shared && (1 <? count)) then
      match root_alloc c (root_minors infos) (numa_scopes infos) with
      | Some r => Some (map (fun m => (m, per)) (sr_minors r))
      | None => None
      end
    else default_allocate (most_of kind) t scored (filter_view l minors) per (desired_count count) (desired_count count).

  Lemma general_sound b al :
    general = Some al ->
    length al = desired_count count /\ NoDup (map fst al) /\
    forall a, In a al -> snd a = per /\ ledger_ok b l minors per (fst a).
  Proof.
    unfold general.
    destruct (Nat.eqb t 0 && gpu_topo_ok infos && negb (shared && (1 <? count))) eqn:Br.
    - destruct (root_alloc c (root_minors infos) (numa_scopes infos)) as [r|] eqn:R; [|discriminate].
      intros H. injection H as <-.
      apply andb_prop in Br as [Br Bs]. apply andb_prop in Br as [Bt _].
      apply Nat.eqb_eq in Bt.
      assert (Hok : sr_ok c (fun m => In m minors) r).
      { eapply root_alloc_ok; [| | | |exact R].
        - intros m. unfold topo_score. cbn [tc_shared tc_scored tc_most tc_req tc_view tc_scope_total c].
          destruct (shared && scored); [|lia].
          apply score_device_nonneg.
          + intros k. now apply view_free_val_nonneg.
          + intros Hm k. now apply res_nonneg_rval, Hper.
        - apply root_minors_spec.
        - intros m Hm. unfold minors. rewrite Bt. now apply root_minors_spec.
        - intros sc Hsc. unfold minors. rewrite Bt. now apply numa_scopes_spec. }
      destruct Hok as [ND [Len Hall]]. cbn [tc_shared tc_n c] in Len.
      split; [|split].
      + rewrite map_length, Len. destruct shared; auto.
        apply negb_true_iff in Bs. cbn [andb] in Bs. symmetry. now apply desired_count_one.
      + rewrite map_map. cbn [fst]. now rewrite map_id.
      + intros a Ha. apply in_map_iff in Ha as [m [<- Hm]]. cbn [fst snd]. split; auto.
        destruct (Hall m Hm) as [Hin Hs].
        apply (topo_sat_ledger l minors c eq_refl b m Hs Hin).
    - intros H. apply default_allocate_sound in H as [Len [ND Hall]].
      split; auto. split; auto. intros a Ha. destruct (Hall a Ha) as [E V]. split; auto.
      now apply view_ok_ledger.
  Qed.

  Lemma general_complete :
    general = None -> (eligible_count l minors per < desired_count count)%nat.
  Proof.
    unfold general, eligible_count. fold (elig_list l minors per).
    destruct (Nat.eqb t 0 && gpu_topo_ok infos && negb (shared && (1 <? count))) eqn:Br.
    - destruct (root_alloc c (root_minors infos) (numa_scopes infos)) as [r|] eqn:R; [discriminate|].
      intros _. apply andb_prop in Br as [Br Bs]. apply andb_prop in Br as [Bt _].
      apply Nat.eqb_eq in Bt.
      change (desired_count count) with (tc_n c).
      eapply root_alloc_none; [exact R| |apply elig_list_nodup|].
      + cbn [tc_shared tc_n c]. intros ->. apply negb_true_iff in Bs. cbn [andb] in Bs.
        now apply desired_count_one.
      + intros m Hm. unfold elig_list in Hm. apply filter_In in Hm as [_ Hm]. split.
        * apply root_minors_spec. rewrite <- Bt. fold minors.
          destruct (eligible_view l minors per m Hm) as [_ [f [_ [_ [_ Mm]]]]]. now apply memn_In.
        * apply (eligible_topo_sat l minors FS Ht Hu c eq_refl m Hm).
    - intros H. eapply default_allocate_complete; [exact H|apply elig_list_nodup|].
      intros m Hm. unfold elig_list in Hm. apply filter_In in Hm as [_ Hm].
      now apply eligible_view_ok.
  Qed.

  Lemma alloc_core_unfold :
    alloc_core kind scored infos t orig_used l per count shared =
    if Nat.eqb t 0 then match part_alloc kind c with
                        | PSome ms => Some (map (fun m => (m, per)) ms)
                        | PFail => None
                        | PNone => general
                        end
    else general.
  Proof. reflexivity. Qed.

  Lemma alloc_core_sound al :
    alloc_core kind scored infos t orig_used l per count shared = Some al ->
    length al = desired_count count /\ NoDup (map fst al) /\
    forall a, In a al -> snd a = per /\ ledger_ok (pfit_t kind t (total l) per shared) l minors per (fst a).
  Proof.
    rewrite alloc_core_unfold. destruct (Nat.eqb t 0) eqn:Et; [|apply general_sound].
    destruct (part_alloc kind c) as [| |ms] eqn:P; [apply general_sound|discriminate|].
    intros H. injection H as <-.
    destruct (part_alloc_some _ _ _ P) as [Sh [Hh [ps [Ep [Hin Fe]]]]]. cbn [tc_n tc_shared c] in *.
    destruct (hopper_table_spec _ _ _ Ep Hin) as [Len ND].
    split; [now rewrite map_length|]. split; [rewrite map_map; cbn [fst]; now rewrite map_id|].
    intros a Ha. apply in_map_iff in Ha as [m [<- Hm]]. cbn [fst snd]. split; auto.
    pose proof (part_feasible_ledger l minors FS Ht Hu c eq_refl orig_used eq_refl ms m Fe Hm) as Lo.
    cbn [tc_req c] in Lo. destruct Lo as [H1 [f [H2 [H3 H4]]]].
    split; auto. exists f. split; auto. split; auto. intros Pf. apply H3.
    unfold pfit_t, pfit in Pf. rewrite Et, Hh, Sh in Pf. exact Pf.
  Qed.

  Lemma alloc_core_complete :
    alloc_core kind scored infos t orig_used l per count shared = None ->
    (eligible_count l minors per < desired_count count)%nat \/
    (t = 0%nat /\ part_short kind l minors count shared = true).
  Proof.
    rewrite alloc_core_unfold. destruct (Nat.eqb t 0) eqn:Et; [|left; now apply general_complete].
    destruct (part_alloc kind c) as [| |ms] eqn:P; [left; now apply general_complete| |discriminate].
    intros _. right. apply Nat.eqb_eq in Et. split; auto.
    destruct (part_alloc_fail _ _ P) as [Hh [Sh Hc]]. cbn [tc_n tc_shared c] in *.
    unfold part_short. rewrite Hh, Sh. cbn [negb andb].
    destruct Hc as [-> | [ps [-> Hps]]]; auto.
    apply forallb_forall. intros p Hp. apply negb_true_iff.
    destruct (forallb (part_free_minor l minors) p) eqn:F; auto.
    rewrite forallb_forall in F.
    pose proof (part_free_feasible l minors FS Ht Hu c eq_refl orig_used eq_refl p F) as Fe.
    rewrite (Hps p Hp) in Fe. discriminate.
  Qed.
End CoreAlloc.

Lemma alloc_type_sound kind ls infos t per count shared scored al :
  lgood (ledger_of ls t) -> 1 <= count -> (most_of kind = true -> res_nonneg per = true) ->
  alloc_type kind scored ls infos t per count shared = Some al ->
  length al = desired_count count /\ NoDup (map fst al) /\
  forall a, In a al -> snd a = per /\
    ledger_ok (pfit_t kind t (total (ledger_of ls t)) per shared) (ledger_of ls t) (minors_of infos t) per (fst a).
Proof.
  intros G Hc Hp. unfold alloc_type.
  apply alloc_core_sound; auto; [apply G|apply G|now apply lgood_used_nonneg].
Qed.
Lemma alloc_type_complete kind ls infos t per count shared scored :
  lgood (ledger_of ls t) -> 1 <= count ->
  alloc_type kind scored ls infos t per count shared = None ->
  (eligible_count (ledger_of ls t) (minors_of infos t) per < desired_count count)%nat \/
  (t = 0%nat /\ part_short kind (ledger_of ls t) (minors_of infos t) count shared = true).
Proof.
  intros G Hc. unfold alloc_type.
  apply alloc_core_complete; auto; [apply G|apply G|now apply lgood_used_nonneg].
Qed.

(* ------------------------------------------------------------------ fillGPUTotalMem *)
Definition filled (tot : devres) (a a' : alloc) : Prop :=
  fst a' = fst a /\ r0 (snd a') = r0 (snd a) /\ r1 (snd a') = r1 (snd a) /\
  (r2 (snd a) = None ->
   r2 (snd a') = Some (Z.quot (oz (r1 (snd a)) * rval (ores (dget tot (fst a))) 2) 100)) /\
  (forall v, r2 (snd a) = Some v -> r2 (snd a') = Some v).

Lemma fill_gpu_mem_spec tot a a' : fill_gpu_mem tot a = Some a' -> filled tot a a'.
Proof.
  unfold fill_gpu_mem, filled. destruct (dget tot (fst a)) as [g|] eqn:E; [|discriminate].
  destruct (ris_zero g); [discriminate|]. destruct (r2 (snd a)) eqn:E2; intros H; injection H as <-.
  - repeat split; auto; [discriminate|]. intros v Hv. congruence.
  - cbn [fst snd r0 r1 r2 ores]. repeat split; auto. intros v Hv. discriminate.
Qed.
Lemma fill_all_spec tot al g : fill_all tot al = Some g -> Forall2 (filled tot) al g.
Proof.
  revert g. induction al as [|a al IH]; intros g; cbn [fill_all].
  - intros H. injection H as <-. constructor.
  - destruct (fill_gpu_mem tot a) as [a'|] eqn:Ea; [|discriminate].
    destruct (fill_all tot al) as [g'|]; [|discriminate].
    intros H. injection H as <-. constructor; auto. now apply fill_gpu_mem_spec.
Qed.
Lemma fill_all_total tot al :
  (forall a, In a al -> ris_zero (ores (dget tot (fst a))) = false) -> fill_all tot al <> None.
Proof.
  induction al as [|a al IH]; intros H; cbn [fill_all]; [discriminate|].
  assert (Ha : fill_gpu_mem tot a <> None).
  { unfold fill_gpu_mem. specialize (H a (or_introl eq_refl)).
    destruct (dget tot (fst a)) as [g|]; [|cbn in H; discriminate]. cbn [ores] in H. rewrite H.
    destruct (r2 (snd a)); discriminate. }
  destruct (fill_gpu_mem tot a); [|congruence].
  destruct (fill_all tot al) eqn:E; [discriminate|]. exfalso. apply IH; auto.
  intros; apply H; now right.
Qed.
Lemma Forall2_map_fst tot al g : Forall2 (filled tot) al g -> map fst g = map fst al.
Proof. induction 1 as [|a a' al g [E _] _ IH]; cbn; auto. now rewrite E, IH. Qed.
Lemma Forall2_len {A B} (R : A -> B -> Prop) l l' : Forall2 R l l' -> length l' = length l.
Proof. induction 1; cbn; auto. Qed.
Lemma Forall2_In_r {A B} (R : A -> B -> Prop) l l' y : Forall2 R l l' -> In y l' -> exists x, In x l /\ R x y.
Proof.
  induction 1 as [|a b l l' H _ IH]; intros Hin; [destruct Hin|].
  destruct Hin as [<-|Hin]; [exists a; split; auto; now left|].
  destruct (IH Hin) as [x [Hx Rx]]. exists x. split; auto. now right.
Qed.

