(* C07 — exported theorems only: each is closed by [exact] and followed by Print Assumptions.
   [exec ops] is the model state after the history [ops] (fold of [step] from the empty node);
   [run ops] the per-operation observations that Extract.v prints and compares with the code;
   [prop_code] the decision procedure that bin/check evaluates on the implementation's
   observations. Hypotheses are boolean and decidable:
     forallb op_wf ops   the environment's data are well-formed (non-negative amounts, distinct
                         minors within one annotation);
     env_ok_from         no environment event (inventory refresh, device deletion, foreign pod,
                         annotation rewrite) itself leaves a device over-committed, and on a node
                         with a GPU partition table every whole-GPU request fits the total of
                         every GPU (sched_ok; the partition path hands out unused GPUs without
                         comparing amounts). *)
From Coq Require Import List ZArith Bool Arith.
From Verif Require Import Gen.Gen_scores.
From Verif Require Import C07.Model C07.Spec C07.Proofs_Res C07.Proofs_Ledger C07.Proofs_View
  C07.Proofs_Alloc C07.Proofs_Allocate C07.Proofs_Desig C07.Proofs_AllocateR C07.Proofs_State C07.Proofs_Inv
  C07.Proofs_Preempt C07.Proofs_Main C07.Proofs_Export.
Import ListNotations.
Open Scope Z_scope.

(* the decision procedure accepts the model's observations of every finite history *)
Theorem c07_main : forall ops, prop_code ops (run ops) = 0.
Proof. exact prop_code_run. Qed.
Print Assumptions c07_main.

(* free = total - used (clamped at zero) for every device type, minor and resource *)
Theorem c07_free_eq : forall ops t,
  forallb op_wf ops = true -> free_eq (ledger_of (ledgers (exec ops)) t).
Proof. exact free_eq_all. Qed.
Print Assumptions c07_free_eq.

(* in-use = sum of the live pods' recorded allocations *)
Theorem c07_used_eq_sum : forall ops t,
  forallb op_wf ops = true -> used_eq_sum (ledger_of (ledgers (exec ops)) t).
Proof. exact used_eq_sum_all. Qed.
Print Assumptions c07_used_eq_sum.

(* no exposed resource of any device is over-committed, whatever the allocator, releases and
   duplicate events do; only environment events could break it (partial: hypothesis env_ok_from) *)
Theorem c07_no_overcommit_partial : forall ops t,
  forallb op_wf ops = true -> env_ok_from init_state ops -> (t < 3)%nat ->
  no_overcommit (ledger_of (ledgers (exec ops)) t).
Proof. exact no_overcommit_all. Qed.
Print Assumptions c07_no_overcommit_partial.

(* ... and the unrestricted sentence is false of the faithful model (environment-driven) *)
Theorem c07_refuted_unhealthy :
  forallb op_wf unhealthy_ops = true /\
  dval (total (ledger_of (ledgers (exec unhealthy_ops)) 1)) 0 0
  < dval (used (ledger_of (ledgers (exec unhealthy_ops)) 1)) 0 0.
Proof. exact refuted_unhealthy. Qed.
Print Assumptions c07_refuted_unhealthy.
Theorem c07_refuted_shrink :
  forallb op_wf shrink_ops = true /\ no_overcommitb (ledger_of (ledgers (exec shrink_ops)) 1) = false.
Proof. exact refuted_shrink. Qed.
Print Assumptions c07_refuted_shrink.

(* a successful allocation: per requested type exactly the desired number of distinct devices
   of the Device CR, each with the request fitting its free amount in every exposed resource *)
Theorem c07_alloc_sound : forall ops rq da t,
  forallb op_wf ops = true -> (t < 3)%nat ->
  (most_of (nkind (exec ops)) = true -> raw_nonneg rq = true) ->
  sched_ok (nkind (exec ops)) (ledgers (exec ops)) rq = true ->
  allocate (nkind (exec ops)) (ledgers (exec ops)) (infos (exec ops)) rq = ADone da ->
  alloc_sound_t (ledgers (exec ops)) (infos (exec ops)) t rq (allocs_of da t) = true.
Proof. exact alloc_sound_all. Qed.
Print Assumptions c07_alloc_sound.
Theorem c07_alloc_sound_meaning : forall ls infos t rq al per count sh,
  treq_of rq t = TReq per count sh -> alloc_sound_t ls infos t rq al = true ->
  length al = desired_count count /\ NoDup (map fst al) /\
  forall a, In a al ->
    In (fst a) (minors_of infos t) /\
    (forall k T v, rget (ores (dget (total (ledger_of ls t)) (fst a))) k = Some T ->
                   rget per k = Some v -> v <= dval (free (ledger_of ls t)) (fst a) k) /\
    r0 (snd a) = r0 per /\ r1 (snd a) = r1 per.
Proof. exact alloc_sound_t_spec. Qed.
Print Assumptions c07_alloc_sound_meaning.

(* a refusal: invalid request, no device of a requested type, or fewer eligible devices than desired *)
Theorem c07_alloc_complete : forall ops rq code,
  forallb op_wf ops = true -> (most_of (nkind (exec ops)) = true -> raw_nonneg rq = true) ->
  allocate (nkind (exec ops)) (ledgers (exec ops)) (infos (exec ops)) rq = AFail code ->
  (code = c_unresolvable /\
   (existsb (fun t => is_invalid (treq_of rq t)) type_ids
    || existsb (fun t => no_device_t (ledgers (exec ops)) t rq) type_ids
    || part_unsupported (nkind (exec ops)) (treq_of rq 0)) = true)
  \/ (code = c_unsched /\
      existsb (fun t => alloc_short_t (nkind (exec ops)) (ledgers (exec ops)) (infos (exec ops)) t rq) type_ids = true).
Proof. exact alloc_complete_all. Qed.
Print Assumptions c07_alloc_complete.
Theorem c07_alloc_short_meaning : forall kind ls infos t rq,
  alloc_short_t kind ls infos t rq = true ->
  exists per count sh, treq_of rq t = TReq per count sh /\
    ((eligible_count (ledger_of ls t) (minors_of infos t) per < desired_count count)%nat \/
     (t = 0%nat /\ part_short kind (ledger_of ls t) (minors_of infos t) count sh = true)).
Proof. exact alloc_short_t_spec. Qed.
Print Assumptions c07_alloc_short_meaning.
(* GPU partition tables (node labelled with a Hopper model; policy Honor): a refusal for lack of
   partitions means no partition of the requested size consists of listed, healthy, entirely
   free GPUs; a grant of a partition is covered by c07_alloc_sound under [sched_ok] (the
   whole-GPU request fits the total of every GPU, which the partition path does not check) *)
Theorem c07_part_short_meaning : forall kind l minors count sh,
  part_short kind l minors count sh = true ->
  honor_part kind = true /\ sh = false /\
  forall ps p, hopper_table (desired_count count) = Some ps -> In p ps ->
    exists m, In m p /\ part_free_minor l minors m = false.
Proof. exact part_short_spec. Qed.
Print Assumptions c07_part_short_meaning.
Example c07_part_demo :
  forallb op_wf part_ops = true /\
  map (fun ob => (o_code (fst ob), map fst (allocs_of (o_allocs (fst ob)) 0))) (run part_ops)
  = [(0, []); (0, []); (0, [2%nat; 3%nat]); (2, [])].
Proof. exact part_demo. Qed.

(* preemption dry-run (Filter after RemovePod of the victims): the free map it allocates from is
   total - (used - the victims' holdings), both differences clamped at zero ... *)
Theorem c07_preempt_free : forall ops t victims m k,
  forallb op_wf ops = true ->
  let l := ledger_of (ledgers (exec ops)) t in
  dval (free (preempt_ledger l victims)) m k =
  Z.max 0 (dval (total l) m k
           - Z.max 0 (dval (used l) m k - sumZ (map (victim_val l m k) victims))).
Proof. exact preempt_free_all. Qed.
Print Assumptions c07_preempt_free.
(* ... it succeeds only if enough devices can take the request on that free map, and is refused
   only if fewer than desired eligible devices exist on it *)
Theorem c07_preempt_sound : forall ops rq t per count sh victims al,
  forallb op_wf ops = true -> treq_of rq t = TReq per count sh ->
  (most_of (nkind (exec ops)) = true -> raw_nonneg rq = true) ->
  sched_ok (nkind (exec ops)) (ledgers (exec ops)) rq = true ->
  alloc_type_on (nkind (exec ops)) (ledgers (exec ops)) (infos (exec ops)) t per count sh victims = Some al ->
  (desired_count count <=
   maybe_count (preempt_ledger (ledger_of (ledgers (exec ops)) t) victims)
               (minors_of (infos (exec ops)) t) per)%nat.
Proof. exact preempt_sound_all. Qed.
Print Assumptions c07_preempt_sound.
Theorem c07_preempt_complete : forall ops rq t per count sh victims,
  forallb op_wf ops = true -> treq_of rq t = TReq per count sh ->
  alloc_type_on (nkind (exec ops)) (ledgers (exec ops)) (infos (exec ops)) t per count sh victims = None ->
  (eligible_count (preempt_ledger (ledger_of (ledgers (exec ops)) t) victims)
                  (minors_of (infos (exec ops)) t) per < desired_count count)%nat \/
  (t = 0%nat /\
   part_short (nkind (exec ops)) (preempt_ledger (ledger_of (ledgers (exec ops)) t) victims)
              (minors_of (infos (exec ops)) t) count sh = true).
Proof. exact preempt_complete_all. Qed.
Print Assumptions c07_preempt_complete.

(* scheduling cycles whose Filter and Reserve are separate operations, with any events in between:
   Reserve re-validates. A successful Reserve grants devices on which the request fits the free
   amounts of the moment of Reserve; for a pod with a designated allocation (annotation + scheduling
   hint), moreover, only designated devices and within what the designation leaves of them *)
Theorem c07_reserve_revalidates : forall ops p c da t,
  forallb op_wf ops = true -> (t < 3)%nat ->
  open_of (exec ops) p = Some c ->
  sched_ok (nkind (exec ops)) (ledgers (exec ops)) (fst c) = true ->
  snd (step (exec ops) (OReserve p)) = mkOut c_ok da ->
  alloc_sound_t (ledgers (exec ops)) (infos (exec ops)) t (fst c) (allocs_of da t) = true /\
  match snd c with
  | Some dg => exists dg', desig_fill (gkey (exec ops)) (total (ledger_of (ledgers (exec ops)) 0)) dg = Some dg' /\
                 desig_sound_t (ledgers (exec ops)) (infos (exec ops)) dg' t (fst c) (allocs_of da t) = true
  | None => True
  end.
Proof. exact reserve_sound_all. Qed.
Print Assumptions c07_reserve_revalidates.

(* the allocation of a pod with a designated allocation, on any reachable state *)
Theorem c07_designated_sound : forall ops gk rq dg da t,
  forallb op_wf ops = true -> (t < 3)%nat -> dallocs_wf dg = true ->
  (most_of (nkind (exec ops)) = true -> raw_nonneg rq = true) ->
  sched_ok (nkind (exec ops)) (ledgers (exec ops)) rq = true ->
  allocate_d (nkind (exec ops)) gk (ledgers (exec ops)) (infos (exec ops)) rq dg = ADone da ->
  exists dg', desig_fill gk (total (ledger_of (ledgers (exec ops)) 0)) dg = Some dg' /\
    alloc_sound_t (ledgers (exec ops)) (infos (exec ops)) t rq (allocs_of da t) = true /\
    desig_sound_t (ledgers (exec ops)) (infos (exec ops)) dg' t rq (allocs_of da t) = true.
Proof. exact desig_sound_all. Qed.
Print Assumptions c07_designated_sound.
Theorem c07_designated_sound_meaning : forall ls infos dg t rq al per count sh,
  treq_of rq t = TReq per count sh -> desig_sound_t ls infos dg t rq al = true ->
  length al = desired_count count /\ NoDup (map fst al) /\
  forall a, In a al ->
    In (fst a) (minors_of infos t) /\
    (is_nil (allocs_of dg t) = false -> In (fst a) (map fst (allocs_of dg t))) /\
    (forall k T v, rget (ores (dget (total (avail_of ls dg t)) (fst a))) k = Some T ->
                   rget per k = Some v -> v <= dval (free (avail_of ls dg t)) (fst a) k).
Proof. exact desig_sound_t_spec. Qed.
Print Assumptions c07_designated_sound_meaning.
Theorem c07_designated_within_free : forall ops t rq m a f k T,
  forallb op_wf ops = true -> dnonneg rq ->
  let l := ledger_of (ledgers (exec ops)) t in
  avail_at l rq m = Some a -> dget (free l) m = Some f ->
  rget (ores (dget (total l) m)) k = Some T ->
  exists v, rget a k = Some v /\ 0 <= v <= T /\ v <= rval f k.
Proof. exact avail_within_free_all. Qed.
Print Assumptions c07_designated_within_free.
(* a refusal of a designated pod: invalid request / no device of a requested type, a designated GPU
   that is absent or exposes nothing (error), or fewer than desired designated devices can take the
   request *)
Theorem c07_designated_complete : forall ops gk rq dg code,
  forallb op_wf ops = true -> dallocs_wf dg = true ->
  (most_of (nkind (exec ops)) = true -> raw_nonneg rq = true) ->
  allocate_d (nkind (exec ops)) gk (ledgers (exec ops)) (infos (exec ops)) rq dg = AFail code ->
  (code = c_unresolvable /\
   (existsb (fun t => is_invalid (treq_of rq t)) type_ids
    || existsb (fun t => no_device_t (ledgers (exec ops)) t rq) type_ids
    || part_unsupported (nkind (exec ops)) (treq_of rq 0)) = true)
  \/ (code = c_error /\ desig_fill gk (total (ledger_of (ledgers (exec ops)) 0)) dg = None)
  \/ (code = c_unsched /\ exists dg', desig_fill gk (total (ledger_of (ledgers (exec ops)) 0)) dg = Some dg' /\
        existsb (fun t => desig_short_t (nkind (exec ops)) (ledgers (exec ops)) (infos (exec ops)) dg' t rq) type_ids = true).
Proof. exact desig_complete_all. Qed.
Print Assumptions c07_designated_complete.
Example c07_cycle_demo :
  forallb op_wf cycle_ops = true /\
  map (fun ob => (o_code (fst ob), map fst (allocs_of (o_allocs (fst ob)) 0))) (run cycle_ops)
  = [(0, []); (0, []); (0, []); (1, []); (1, []); (0, []); (0, [1%nat]); (1, []); (-1, [])].
Proof. exact cycle_demo. Qed.

(* duplicate add events, deletes of unknown pods and refused scheduling attempts change no ledger *)
Theorem c07_dup_add_noop : forall ops o t,
  is_frame o (o_code (snd (step (exec ops) o))) = true -> (t < 3)%nat ->
  ledger_of (ledgers (exec (ops ++ [o]))) t = ledger_of (ledgers (exec ops)) t.
Proof. exact frame_all. Qed.
Print Assumptions c07_dup_add_noop.

(* the decision procedure is sound for the ledger clauses *)
Theorem c07_check_sound : forall k o out ls t,
  check_step k o (out, ls) = 0 -> k_wf k && op_wf o = true -> (t < 3)%nat ->
  free_eq (ledger_of ls t) /\ used_eq_sum (ledger_of ls t) /\
  (k_env k && (negb (is_env_op o) || inv_okb ls) && step_ok k o = true -> no_overcommit (ledger_of ls t)).
Proof. exact check_step_sound. Qed.
Print Assumptions c07_check_sound.

(* the allocator ignores request keys a device does not expose (limit of the exposed-key reading) *)
Theorem c07_unexposed_key_granted :
  allocate 0 (ledgers (exec unexposed_ops)) (infos (exec unexposed_ops)) (req_koord 50)
  = ADone [[(0%nat, mkRes (Some 50) (Some 50) (Some 8000))]; []; []].
Proof. exact unexposed_granted. Qed.
Print Assumptions c07_unexposed_key_granted.

(* device scoring: the per-resource score is the function REGENERATED from scoring.go
   (deviceshare_leastRequestedScore / deviceshare_mostRequestedScore, Gen.Gen_scores) applied to
   (total - free + request, total); under either strategy a device's score lies in [0, MaxNodeScore] *)
Theorem c07_score_generated : forall most req tot fr k,
  rval tot k <> 0 ->
  slot_score most req tot fr k =
  let rq := if rval fr k <=? rval tot k then rval tot k - rval fr k + rval req k else rval tot k in
  Some (if most then deviceshare_mostRequestedScore rq (rval tot k)
        else deviceshare_leastRequestedScore rq (rval tot k)).
Proof. exact slot_score_generated. Qed.
Print Assumptions c07_score_generated.
Theorem c07_score_range : forall most t req tot fr,
  (forall k, 0 <= rval tot k) -> (forall k, 0 <= rval req k) ->
  0 <= score_device most t req tot fr <= MaxNodeScore.
Proof. exact score_device_range. Qed.
Print Assumptions c07_score_range.

(* non-vacuity: a well-formed history satisfying the environment hypothesis on which two pods are
   granted distinct GPUs, a two-GPU request is refused in between, and a pod is released (and
   released again) *)
Example c07_demo_hyps : forallb op_wf demo_ops = true /\ nontrivial demo_ops = true.
Proof. vm_compute. split; reflexivity. Qed.
Example c07_demo_env : env_ok_from init_state demo_ops.
Proof. vm_compute. repeat split; auto; discriminate. Qed.
Example c07_demo_codes : map (fun ob => o_code (fst ob)) (run demo_ops) = [0; 0; 1; 0; 0; 0; -1].
Proof. vm_compute. reflexivity. Qed.
