(* C07 — exported theorems only: each is closed by [exact] and followed by Print Assumptions. *)
From Coq Require Import List ZArith Bool.
From Verif Require Import C07.Model C07.Spec C07.Proofs_Res.
Open Scope Z_scope.

Theorem c07_rget_rmap2 : forall f a b k, f None None = None ->
  rget (rmap2 f a b) k = f (rget a k) (rget b k).
Proof. exact rget_rmap2. Qed.
Print Assumptions c07_rget_rmap2.
