(* C07 — exported theorems only: each is closed by [exact] and followed by Print Assumptions.
   [exec ops] is the model state after the history [ops] (fold of [step] from the empty node);
   [run ops] the per-operation observations that Extract.v prints and compares with the code;
   [prop_code] the decision procedure that bin/check evaluates on the implementation's
   observations. Hypotheses are boolean and decidable:
     forallb op_wf ops   the environment's data are well-formed (non-negative amounts, distinct
                         minors within one annotation);
     env_ok_from         no environment event (inventory refresh, device deletion, foreign pod,
                         annotation rewrite) itself leaves a device over-committed, and on a node
                         with a GPU partition table every whole-GPU request fits the total of
                         every GPU (sched_ok; the partition path hands out unused GPUs without
                         comparing amounts). *)
From Coq Require Import List ZArith Bool Arith.
From Verif Require Import C07.Model C07.Spec C07.Proofs_Res C07.Proofs_Ledger C07.Proofs_View
  C07.Proofs_Alloc C07.Proofs_Allocate C07.Proofs_State C07.Proofs_Inv C07.Proofs_Preempt
  C07.Proofs_Main C07.Proofs_Export.
Import ListNotations.
Open Scope Z_scope.

(* the decision procedure accepts the model's observations of every finite history *)
Theorem c07_main : forall ops, prop_code ops (run ops) = 0.
Proof. exact prop_code_run. Qed.
Print Assumptions c07_main.

(* free = total - used (clamped at zero) for every device type, minor and resource *)
Theorem c07_free_eq : forall ops t,
  forallb op_wf ops = true -> free_eq (ledger_of (ledgers (exec ops)) t).
Proof. exact free_eq_all. Qed.
Print Assumptions c07_free_eq.

(* in-use = sum of the live pods' recorded allocations *)
Theorem c07_used_eq_sum : forall ops t,
  forallb op_wf ops = true -> used_eq_sum (ledger_of (ledgers (exec ops)) t).
Proof. exact used_eq_sum_all. Qed.
Print Assumptions c07_used_eq_sum.

(* no exposed resource of any device is over-committed, whatever the allocator, releases and
   duplicate events do; only environment events could break it (partial: hypothesis env_ok_from) *)
Theorem c07_no_overcommit_partial : forall ops t,
  forallb op_wf ops = true -> env_ok_from init_state ops -> (t < 3)%nat ->
  no_overcommit (ledger_of (ledgers (exec ops)) t).
Proof. exact no_overcommit_all. Qed.
Print Assumptions c07_no_overcommit_partial.

(* ... and the unrestricted sentence is false of the faithful model (environment-driven) *)
Theorem c07_refuted_unhealthy :
  forallb op_wf unhealthy_ops = true /\
  dval (total (ledger_of (ledgers (exec unhealthy_ops)) 1)) 0 0
  < dval (used (ledger_of (ledgers (exec unhealthy_ops)) 1)) 0 0.
Proof. exact refuted_unhealthy. Qed.
Print Assumptions c07_refuted_unhealthy.
Theorem c07_refuted_shrink :
  forallb op_wf shrink_ops = true /\ no_overcommitb (ledger_of (ledgers (exec shrink_ops)) 1) = false.
Proof. exact refuted_shrink. Qed.
Print Assumptions c07_refuted_shrink.

(* a successful allocation: per requested type exactly the desired number of distinct devices
   of the Device CR, each with the request fitting its free amount in every exposed resource *)
Theorem c07_alloc_sound : forall ops rq da t,
  forallb op_wf ops = true -> (t < 3)%nat ->
  sched_ok (nkind (exec ops)) (ledgers (exec ops)) rq = true ->
  allocate (nkind (exec ops)) (ledgers (exec ops)) (infos (exec ops)) rq = ADone da ->
  alloc_sound_t (ledgers (exec ops)) (infos (exec ops)) t rq (allocs_of da t) = true.
Proof. exact alloc_sound_all. Qed.
Print Assumptions c07_alloc_sound.
Theorem c07_alloc_sound_meaning : forall ls infos t rq al per count sh,
  treq_of rq t = TReq per count sh -> alloc_sound_t ls infos t rq al = true ->
  length al = desired_count count /\ NoDup (map fst al) /\
  forall a, In a al ->
    In (fst a) (minors_of infos t) /\
    (forall k T v, rget (ores (dget (total (ledger_of ls t)) (fst a))) k = Some T ->
                   rget per k = Some v -> v <= dval (free (ledger_of ls t)) (fst a) k) /\
    r0 (snd a) = r0 per /\ r1 (snd a) = r1 per.
Proof. exact alloc_sound_t_spec. Qed.
Print Assumptions c07_alloc_sound_meaning.

(* a refusal: invalid request, no device of a requested type, or fewer eligible devices than desired *)
Theorem c07_alloc_complete : forall ops rq code,
  forallb op_wf ops = true ->
  allocate (nkind (exec ops)) (ledgers (exec ops)) (infos (exec ops)) rq = AFail code ->
  (code = c_unresolvable /\
   (existsb (fun t => is_invalid (treq_of rq t)) type_ids
    || existsb (fun t => no_device_t (ledgers (exec ops)) t rq) type_ids
    || part_unsupported (nkind (exec ops)) (treq_of rq 0)) = true)
  \/ (code = c_unsched /\
      existsb (fun t => alloc_short_t (nkind (exec ops)) (ledgers (exec ops)) (infos (exec ops)) t rq) type_ids = true).
Proof. exact alloc_complete_all. Qed.
Print Assumptions c07_alloc_complete.
Theorem c07_alloc_short_meaning : forall kind ls infos t rq,
  alloc_short_t kind ls infos t rq = true ->
  exists per count sh, treq_of rq t = TReq per count sh /\
    ((eligible_count (ledger_of ls t) (minors_of infos t) per < desired_count count)%nat \/
     (t = 0%nat /\ part_short kind (ledger_of ls t) (minors_of infos t) count sh = true)).
Proof. exact alloc_short_t_spec. Qed.
Print Assumptions c07_alloc_short_meaning.
(* GPU partition tables (node labelled with a Hopper model; policy Honor): a refusal for lack of
   partitions means no partition of the requested size consists of listed, healthy, entirely
   free GPUs; a grant of a partition is covered by c07_alloc_sound under [sched_ok] (the
   whole-GPU request fits the total of every GPU, which the partition path does not check) *)
Theorem c07_part_short_meaning : forall kind l minors count sh,
  part_short kind l minors count sh = true ->
  honor_part kind = true /\ sh = false /\
  forall ps p, hopper_table (desired_count count) = Some ps -> In p ps ->
    exists m, In m p /\ part_free_minor l minors m = false.
Proof. exact part_short_spec. Qed.
Print Assumptions c07_part_short_meaning.
Example c07_part_demo :
  forallb op_wf part_ops = true /\
  map (fun ob => (o_code (fst ob), map fst (allocs_of (o_allocs (fst ob)) 0))) (run part_ops)
  = [(0, []); (0, []); (0, [2%nat; 3%nat]); (2, [])].
Proof. exact part_demo. Qed.

(* preemption dry-run (Filter after RemovePod of the victims): the free map it allocates from is
   total - (used - the victims' holdings), both differences clamped at zero ... *)
Theorem c07_preempt_free : forall ops t victims m k,
  forallb op_wf ops = true ->
  let l := ledger_of (ledgers (exec ops)) t in
  dval (free (preempt_ledger l victims)) m k =
  Z.max 0 (dval (total l) m k
           - Z.max 0 (dval (used l) m k - sumZ (map (victim_val l m k) victims))).
Proof. exact preempt_free_all. Qed.
Print Assumptions c07_preempt_free.
(* ... it succeeds only if enough devices can take the request on that free map, and is refused
   only if fewer than desired eligible devices exist on it *)
Theorem c07_preempt_sound : forall ops rq t per count sh victims al,
  forallb op_wf ops = true -> treq_of rq t = TReq per count sh ->
  sched_ok (nkind (exec ops)) (ledgers (exec ops)) rq = true ->
  alloc_type_on (nkind (exec ops)) (ledgers (exec ops)) (infos (exec ops)) t per count sh victims = Some al ->
  (desired_count count <=
   maybe_count (preempt_ledger (ledger_of (ledgers (exec ops)) t) victims)
               (minors_of (infos (exec ops)) t) per)%nat.
Proof. exact preempt_sound_all. Qed.
Print Assumptions c07_preempt_sound.
Theorem c07_preempt_complete : forall ops rq t per count sh victims,
  forallb op_wf ops = true -> treq_of rq t = TReq per count sh ->
  alloc_type_on (nkind (exec ops)) (ledgers (exec ops)) (infos (exec ops)) t per count sh victims = None ->
  (eligible_count (preempt_ledger (ledger_of (ledgers (exec ops)) t) victims)
                  (minors_of (infos (exec ops)) t) per < desired_count count)%nat \/
  (t = 0%nat /\
   part_short (nkind (exec ops)) (preempt_ledger (ledger_of (ledgers (exec ops)) t) victims)
              (minors_of (infos (exec ops)) t) count sh = true).
Proof. exact preempt_complete_all. Qed.
Print Assumptions c07_preempt_complete.

(* duplicate add events, deletes of unknown pods and refused scheduling attempts change no ledger *)
Theorem c07_dup_add_noop : forall ops o t,
  is_frame o (o_code (snd (step (exec ops) o))) = true -> (t < 3)%nat ->
  ledger_of (ledgers (exec (ops ++ [o]))) t = ledger_of (ledgers (exec ops)) t.
Proof. exact frame_all. Qed.
Print Assumptions c07_dup_add_noop.

(* the decision procedure is sound for the ledger clauses *)
Theorem c07_check_sound : forall k o out ls t,
  check_step k o (out, ls) = 0 -> k_wf k && op_wf o = true -> (t < 3)%nat ->
  free_eq (ledger_of ls t) /\ used_eq_sum (ledger_of ls t) /\
  (k_env k && (negb (is_env_op o) || inv_okb ls) && step_ok k o = true -> no_overcommit (ledger_of ls t)).
Proof. exact check_step_sound. Qed.
Print Assumptions c07_check_sound.

(* the allocator ignores request keys a device does not expose (limit of the exposed-key reading) *)
Theorem c07_unexposed_key_granted :
  allocate 0 (ledgers (exec unexposed_ops)) (infos (exec unexposed_ops)) (req_koord 50)
  = ADone [[(0%nat, mkRes (Some 50) (Some 50) (Some 8000))]; []; []].
Proof. exact unexposed_granted. Qed.
Print Assumptions c07_unexposed_key_granted.

(* non-vacuity: a well-formed history satisfying the environment hypothesis on which two pods are
   granted distinct GPUs, a two-GPU request is refused in between, and a pod is released (and
   released again) *)
Example c07_demo_hyps : forallb op_wf demo_ops = true /\ nontrivial demo_ops = true.
Proof. vm_compute. split; reflexivity. Qed.
Example c07_demo_env : env_ok_from init_state demo_ops.
Proof. vm_compute. repeat split; auto; discriminate. Qed.
Example c07_demo_codes : map (fun ob => o_code (fst ob)) (run demo_ops) = [0; 0; 1; 0; 0; 0; -1].
Proof. vm_compute. reflexivity. Qed.
