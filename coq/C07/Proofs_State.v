(* C07 — invariants of the whole state (ledgers of every device type + the environment's
   record of bound pods) and their preservation by every operation. *)
From Coq Require Import List ZArith Bool Arith Lia Permutation.
From Verif Require Import C07.Model C07.Spec C07.Proofs_Res C07.Proofs_Ledger C07.Proofs_View
  C07.Proofs_Alloc C07.Proofs_Allocate C07.Proofs_Desig C07.Proofs_AllocateR.
Import ListNotations.
Open Scope Z_scope.

(* ------------------------------------------------------------------ association lists *)
Lemma lookup_remove_key {A} p q (l : list (Z * A)) :
  lookup q (remove_key p l) = if q =? p then None else lookup q l.
Proof.
  unfold remove_key. induction l as [|[r v] l IH]; cbn [filter lookup fst].
  - now destruct (q =? p).
  - destruct (r =? p) eqn:E; cbn [negb lookup].
    + rewrite IH. apply Z.eqb_eq in E. subst r. destruct (q =? p) eqn:E2; auto.
      rewrite Z.eqb_sym, E2. reflexivity.
    + rewrite IH. destruct (q =? p) eqn:E2; auto.
      apply Z.eqb_eq in E2. subst q. now rewrite E.
Qed.
Lemma lookup_set_key {A} p q (v : A) (l : list (Z * A)) :
  lookup q (set_key p v l) = if q =? p then Some v else lookup q l.
Proof.
  unfold set_key. cbn [lookup]. rewrite lookup_remove_key, (Z.eqb_sym p q).
  now destruct (q =? p).
Qed.
Lemma remove_key_idem {A} p (l : list (Z * A)) : remove_key p (remove_key p l) = remove_key p l.
Proof.
  unfold remove_key. apply filter_all_true. intros x Hx. now apply filter_In in Hx.
Qed.

(* ------------------------------------------------------------------ ledgers by type *)
Lemma cache_update_length add ls p da : length (cache_update add ls p da) = 3%nat.
Proof. reflexivity. Qed.
Definition upd_t (add : bool) (l : ledger) (p : Z) (al : list alloc) : ledger :=
  match al with
  | [] => l
  | _ => if add then ledger_add l p al else ledger_remove l p al
  end.
Lemma ledger_of_cache_update add ls p da t : (t < 3)%nat ->
  ledger_of (cache_update add ls p da) t = upd_t add (ledger_of ls t) p (allocs_of da t).
Proof.
  intros Ht. unfold cache_update, upd_t.
  destruct t as [|[|[|t]]]; try lia; cbn [ledger_of nth map type_ids];
    match goal with |- context [allocs_of da ?n] => destruct (allocs_of da n) end; reflexivity.
Qed.
Lemma ledger_of_big ls t : length ls = 3%nat -> (3 <= t)%nat -> ledger_of ls t = empty_ledger.
Proof. intros L Ht. unfold ledger_of. apply nth_overflow. lia. Qed.

Lemma aset_ledger_add l p al :
  aset (ledger_add l p al) = if aset_mem p (aset l) then aset l else (p, resources_of al) :: aset l.
Proof. unfold ledger_add. now destruct (aset_mem p (aset l)). Qed.
Lemma lookup_ledger_remove l p al q :
  lookup q (aset (ledger_remove l p al)) = if q =? p then None else lookup q (aset l).
Proof.
  unfold ledger_remove. destruct (aset_mem p (aset l)) eqn:M; cbn [negb aset reset_free].
  - apply aset_remove_lookup.
  - destruct (q =? p) eqn:E; auto. apply Z.eqb_eq in E. subst q. now apply aset_mem_false_lookup.
Qed.
Lemma mem_ledger_remove l p al q :
  aset_mem q (aset (ledger_remove l p al)) = if q =? p then false else aset_mem q (aset l).
Proof.
  unfold ledger_remove. destruct (aset_mem p (aset l)) eqn:M; cbn [negb aset reset_free].
  - apply aset_remove_mem.
  - destruct (q =? p) eqn:E; auto. apply Z.eqb_eq in E. now subst q.
Qed.
Lemma nodup_ledger_add l p al : NoDup (map fst (aset l)) -> NoDup (map fst (aset (ledger_add l p al))).
Proof.
  intros ND. rewrite aset_ledger_add. destruct (aset_mem p (aset l)) eqn:M; auto.
  cbn. constructor; auto. intros H. apply aset_mem_In in H. congruence.
Qed.
Lemma nodup_ledger_remove l p al : NoDup (map fst (aset l)) -> NoDup (map fst (aset (ledger_remove l p al))).
Proof.
  intros ND. unfold ledger_remove. destruct (negb (aset_mem p (aset l))); auto.
  cbn [aset reset_free]. now apply aset_remove_nodup.
Qed.

(* ------------------------------------------------------------------ environment vs allocate set *)
Notation envrec_t := (list (Z * (dallocs * bool))).
Definition cons (rec : envrec_t) (t : nat) (a : list (Z * devres)) : Prop :=
  forall p, match lookup p rec with
            | Some (da, _) => match allocs_of da t with
                              | [] => aset_mem p a = false
                              | al => lookup p a = Some (resources_of al)
                              end
            | None => aset_mem p a = false
            end.

Lemma cons_add rec t l p da b :
  cons rec t (aset l) -> lookup p rec = None ->
  cons (set_key p (da, b) rec) t (aset (upd_t true l p (allocs_of da t))).
Proof.
  intros C Hp q. rewrite lookup_set_key. pose proof (C p) as Cp. rewrite Hp in Cp.
  unfold upd_t. destruct (q =? p) eqn:E.
  - apply Z.eqb_eq in E. subst q. destruct (allocs_of da t) as [|a al] eqn:Ea; auto.
    rewrite aset_ledger_add, Cp. cbn [lookup]. now rewrite Z.eqb_refl.
  - specialize (C q). destruct (allocs_of da t) as [|a al] eqn:Ea; auto.
    rewrite aset_ledger_add, Cp.
    destruct (lookup q rec) as [[da' b']|]; [destruct (allocs_of da' t)|]; cbn [aset_mem lookup];
      rewrite (Z.eqb_sym p q), E; auto.
Qed.
Lemma cons_rm rec t l p da b :
  cons rec t (aset l) -> lookup p rec = Some (da, b) ->
  cons (remove_key p rec) t (aset (upd_t false l p (allocs_of da t))).
Proof.
  intros C Hp q. rewrite lookup_remove_key. pose proof (C p) as Cp. rewrite Hp in Cp.
  unfold upd_t. destruct (q =? p) eqn:E.
  - apply Z.eqb_eq in E. subst q. destruct (allocs_of da t) as [|a al] eqn:Ea; auto.
    rewrite mem_ledger_remove. now rewrite Z.eqb_refl.
  - specialize (C q). destruct (allocs_of da t) as [|a al] eqn:Ea; auto.
    destruct (lookup q rec) as [[da' b']|]; [destruct (allocs_of da' t)|];
      rewrite ?mem_ledger_remove, ?lookup_ledger_remove, E; auto.
Qed.
(* a duplicate add and a delete of an unknown pod do nothing *)
Lemma cons_dupadd rec t l p da b :
  cons rec t (aset l) -> lookup p rec = Some (da, b) -> upd_t true l p (allocs_of da t) = l.
Proof.
  intros C Hp. specialize (C p). rewrite Hp in C. unfold upd_t.
  destruct (allocs_of da t) as [|a al]; auto. unfold ledger_add.
  assert (M : aset_mem p (aset l) = true) by (apply aset_mem_lookup; congruence). now rewrite M.
Qed.
Lemma cons_duprm rec t l p al :
  cons rec t (aset l) -> lookup p rec = None -> upd_t false l p al = l.
Proof.
  intros C Hp. specialize (C p). rewrite Hp in C. unfold upd_t. destruct al; auto.
  unfold ledger_remove. now rewrite C.
Qed.

(* ------------------------------------------------------------------ state invariants *)
Definition lof (s : state) (t : nat) : ledger := ledger_of (ledgers s) t.

Record ugood (s : state) : Prop := mkUgood {
  ug_len : length (ledgers s) = 3%nat;
  ug_cons : forall t, (t < 3)%nat -> cons (envrec s) t (aset (lof s t));
  ug_nodup : forall t, (t < 3)%nat -> NoDup (map fst (aset (lof s t)));
  ug_fs : forall t, (t < 3)%nat -> free_struct (lof s t)
}.
Record wgood (s : state) : Prop := mkWgood {
  wg_tot : forall t, (t < 3)%nat -> dnonneg (total (lof s t));
  wg_rec : forall p da b, lookup p (envrec s) = Some (da, b) -> dallocs_wf da = true;
  wg_sum : forall t, (t < 3)%nat -> used_eq_sum (lof s t)
}.

Lemma dallocs_wf_t da t : (t < 3)%nat -> dallocs_wf da = true -> allocs_wf (allocs_of da t) = true.
Proof.
  unfold dallocs_wf. cbn [forallb type_ids]. rewrite !andb_true_iff. intros Ht [H0 [H1 [H2 _]]].
  destruct t as [|[|[|t]]]; auto. lia.
Qed.

(* every ledger of a good state is in good order *)
Lemma good_lgood s t : ugood s -> wgood s -> lgood (lof s t).
Proof.
  intros U W. destruct (Nat.lt_ge_cases t 3) as [Ht|Ht].
  2:{ unfold lof. rewrite ledger_of_big; auto; [apply empty_ledger_good|apply U]. }
  constructor.
  - now apply U.
  - now apply W.
  - intros [p d] He. pose proof (ug_cons _ U t Ht p) as C.
    assert (M : aset_mem p (aset (lof s t)) = true).
    { apply aset_mem_In. apply in_map_iff. now exists (p, d). }
    destruct (lookup p (envrec s)) as [[da b]|] eqn:L; [|congruence].
    destruct (allocs_of da t) as [|a al] eqn:Ea; [congruence|].
    pose proof (In_lookup p _ d (ug_nodup _ U t Ht) He) as L2. rewrite L2 in C. injection C as ->.
    cbn [snd]. apply dnonneg_resources_of. rewrite <- Ea. apply dallocs_wf_t; auto.
    eapply wg_rec; eauto.
  - now apply W.
  - now apply U.
Qed.

(* ------------------------------------------------------------------ preservation, by kind of change *)
Lemma cons_ext rec rec' t a : (forall q, lookup q rec' = lookup q rec) -> cons rec t a -> cons rec' t a.
Proof. intros E C p. rewrite E. apply C. Qed.

Lemma ugood_ext s s' :
  length (ledgers s') = 3%nat -> (forall t, (t < 3)%nat -> lof s' t = lof s t) ->
  (forall q, lookup q (envrec s') = lookup q (envrec s)) -> ugood s -> ugood s'.
Proof.
  intros L E R U. constructor; auto; intros t Ht; rewrite (E t Ht).
  - eapply cons_ext; eauto. now apply U.
  - now apply U.
  - now apply U.
Qed.
Lemma wgood_ext s s' :
  (forall t, (t < 3)%nat -> lof s' t = lof s t) ->
  (forall q, lookup q (envrec s') = lookup q (envrec s)) -> wgood s -> wgood s'.
Proof.
  intros E R W. constructor.
  - intros t Ht. rewrite (E t Ht). now apply W.
  - intros p da b H. rewrite R in H. eapply wg_rec; eauto.
  - intros t Ht. rewrite (E t Ht). now apply W.
Qed.

Lemma ugood_add s s' p da b :
  ugood s -> lookup p (envrec s) = None ->
  ledgers s' = cache_update true (ledgers s) p da -> envrec s' = set_key p (da, b) (envrec s) ->
  ugood s'.
Proof.
  intros U Hp El Er. constructor.
  - now rewrite El.
  - intros t Ht. unfold lof. rewrite El, Er, ledger_of_cache_update by auto.
    apply cons_add; auto. now apply U.
  - intros t Ht. unfold lof. rewrite El, ledger_of_cache_update by auto. unfold upd_t.
    destruct (allocs_of da t); [now apply U|]. apply nodup_ledger_add. now apply U.
  - intros t Ht. unfold lof. rewrite El, ledger_of_cache_update by auto. unfold upd_t.
    destruct (allocs_of da t); [now apply U|]. apply ledger_add_fs. now apply U.
Qed.
Lemma wgood_add s s' p da b :
  ugood s -> wgood s -> dallocs_wf da = true ->
  ledgers s' = cache_update true (ledgers s) p da -> envrec s' = set_key p (da, b) (envrec s) ->
  wgood s'.
Proof.
  intros U W Wd El Er.
  assert (G : forall t, (t < 3)%nat -> lgood (lof s' t)).
  { intros t Ht. unfold lof. rewrite El, ledger_of_cache_update by auto. unfold upd_t.
    pose proof (good_lgood s t U W) as G0. pose proof (dallocs_wf_t da t Ht Wd) as Wa.
    destruct (allocs_of da t) eqn:E; auto. now apply ledger_add_good. }
  constructor.
  - intros t Ht. apply (G t Ht).
  - intros q da' b' H. rewrite Er, lookup_set_key in H. destruct (q =? p).
    + now injection H as <- <-.
    + eapply wg_rec; eauto.
  - intros t Ht. apply (G t Ht).
Qed.

Lemma ugood_rm s s' p da b :
  ugood s -> lookup p (envrec s) = Some (da, b) ->
  ledgers s' = cache_update false (ledgers s) p da -> envrec s' = remove_key p (envrec s) ->
  ugood s'.
Proof.
  intros U Hp El Er. constructor.
  - now rewrite El.
  - intros t Ht. unfold lof. rewrite El, Er, ledger_of_cache_update by auto.
    eapply cons_rm; eauto. now apply U.
  - intros t Ht. unfold lof. rewrite El, ledger_of_cache_update by auto. unfold upd_t.
    destruct (allocs_of da t); [now apply U|]. apply nodup_ledger_remove. now apply U.
  - intros t Ht. unfold lof. rewrite El, ledger_of_cache_update by auto. unfold upd_t.
    destruct (allocs_of da t); [now apply U|]. apply ledger_remove_fs. now apply U.
Qed.
Lemma wgood_rm s s' p da b :
  ugood s -> wgood s -> lookup p (envrec s) = Some (da, b) ->
  ledgers s' = cache_update false (ledgers s) p da -> envrec s' = remove_key p (envrec s) ->
  wgood s'.
Proof.
  intros U W Hp El Er.
  assert (Wd : dallocs_wf da = true) by (eapply wg_rec; eauto).
  assert (G : forall t, (t < 3)%nat -> lgood (lof s' t)).
  { intros t Ht. unfold lof. rewrite El, ledger_of_cache_update by auto. unfold upd_t.
    pose proof (good_lgood s t U W) as G0. pose proof (dallocs_wf_t da t Ht Wd) as Wa.
    pose proof (ug_cons _ U t Ht p) as C. rewrite Hp in C.
    destruct (allocs_of da t) eqn:E; auto. apply ledger_remove_good; auto. }
  constructor.
  - intros t Ht. apply (G t Ht).
  - intros q da' b' H. rewrite Er, lookup_remove_key in H. destruct (q =? p); [discriminate|].
    eapply wg_rec; eauto.
  - intros t Ht. apply (G t Ht).
Qed.

Lemma ledger_of_refresh s inv t : (t < 3)%nat ->
  ledger_of (refresh s inv) t = ledger_reset_total (lof s t) (build_total inv t).
Proof. intros Ht. unfold refresh. destruct t as [|[|[|t]]]; try lia; reflexivity. Qed.
Lemma ugood_refresh s s' inv :
  ugood s -> ledgers s' = refresh s inv -> envrec s' = envrec s -> ugood s'.
Proof.
  intros U El Er. constructor.
  - now rewrite El.
  - intros t Ht. unfold lof. rewrite El, Er, ledger_of_refresh by auto. cbn. now apply U.
  - intros t Ht. unfold lof. rewrite El, ledger_of_refresh by auto. cbn. now apply U.
  - intros t Ht. unfold lof. rewrite El, ledger_of_refresh by auto. apply ledger_reset_total_fs.
Qed.
Lemma build_total_nonneg inv t :
  forallb (fun i => res_nonneg (if di_health i then di_res i else rempty)) inv = true ->
  dnonneg (build_total inv t).
Proof.
  unfold build_total.
  assert (G : forall l d, dnonneg d ->
     forallb (fun i => res_nonneg (if di_health i then di_res i else rempty)) l = true ->
     dnonneg (fold_left (fun d i => if Nat.eqb (di_type i) t
                        then dset d (di_minor i) (Some (if di_health i then di_res i else rempty))
                        else d) l d)).
  { induction l as [|i l IH]; intros d Hd Hl; cbn [fold_left]; auto.
    cbn [forallb] in Hl. apply andb_prop in Hl as [Hi Hl]. apply IH; auto.
    destruct (Nat.eqb (di_type i) t); auto. intros m k. unfold dval. rewrite dget_dset.
    destruct (Nat.eqb (di_minor i) m); [|apply Hd]. cbn [ores]. now apply res_nonneg_rval. }
  intros H. apply G; auto. intros m k. rewrite dval_nil. lia.
Qed.
Lemma wgood_refresh s s' inv :
  ugood s -> wgood s ->
  forallb (fun i => res_nonneg (if di_health i then di_res i else rempty)) inv = true ->
  ledgers s' = refresh s inv -> envrec s' = envrec s -> wgood s'.
Proof.
  intros U W Hn El Er.
  assert (G : forall t, (t < 3)%nat -> lgood (lof s' t)).
  { intros t Ht. unfold lof. rewrite El, ledger_of_refresh by auto.
    apply ledger_reset_total_good; [now apply good_lgood|now apply build_total_nonneg]. }
  constructor.
  - intros t Ht. apply (G t Ht).
  - intros q da b H. rewrite Er in H. eapply wg_rec; eauto.
  - intros t Ht. apply (G t Ht).
Qed.

Lemma init_lof t : (t < 3)%nat -> lof init_state t = empty_ledger.
Proof. intros Ht. destruct t as [|[|[|t]]]; try lia; reflexivity. Qed.
Lemma init_ugood : ugood init_state.
Proof.
  constructor; auto; intros t Ht; rewrite (init_lof t Ht).
  - intros p. reflexivity.
  - constructor.
  - intros m. cbn [free total used empty_ledger]. now rewrite !dget_nil.
Qed.
Lemma init_wgood : wgood init_state.
Proof.
  constructor.
  - intros t Ht m k. rewrite (init_lof t Ht). cbn [total empty_ledger]. rewrite dval_nil. lia.
  - intros p da b H. discriminate.
  - intros t Ht m k. rewrite (init_lof t Ht). cbn [used aset empty_ledger]. now rewrite dval_nil.
Qed.

(* ------------------------------------------------------------------ well-formed outputs of allocate *)
Lemma group_allocs_length al : length (group_allocs al) = 3%nat.
Proof. reflexivity. Qed.

Lemma type_done_wf kind ls infos rq da :
  lgood (ledger_of ls 0) -> raw_nonneg rq = true ->
  (forall t, (t < 3)%nat -> type_done kind ls infos rq t (allocs_of da t)) -> dallocs_wf da = true.
Proof.
  intros G NN D.
  unfold dallocs_wf. apply forallb_forall. intros t Ht.
  assert (Ht3 : (t < 3)%nat) by (cbn in Ht; lia).
  specialize (D t Ht3). unfold type_done in D.
  destruct (treq_of rq t) as [| |per count sh] eqn:E; try (rewrite D; reflexivity).
  destruct D as [_ [ND Hall]]. apply treq_spec in E as [_ [Hper [E2 _]]]. specialize (Hper NN).
  unfold allocs_wf. apply andb_true_intro. split; [now apply nodupn_NoDup|].
  apply forallb_forall. intros a Ha. destruct (Hall a Ha) as [_ [G0 [G1 [Gn Gz]]]].
  unfold res_nonneg in *. rewrite G0, G1. rewrite !andb_true_iff in Hper. destruct Hper as [[H0 H1] H2].
  rewrite H0, H1. cbn [andb]. destruct (Nat.eq_dec t 0) as [->|Hne].
  - rewrite (Gz eq_refl). cbn [oz]. apply Z.leb_le. apply quot_nonneg; [|lia].
    apply Z.leb_le in H1. apply Z.mul_nonneg_nonneg; auto.
    apply (lg_tot _ G).
  - rewrite (Gn Hne). exact H2.
Qed.
Lemma allocate_done_wf kind ls infos rq da :
  (forall t, lgood (ledger_of ls t)) -> raw_nonneg rq = true ->
  allocate kind ls infos rq = ADone da -> dallocs_wf da = true.
Proof.
  intros G NN H. apply (type_done_wf kind ls infos rq); auto. now apply allocate_done.
Qed.
Lemma allocate_d_done_wf kind gkey ls infos rq dg da :
  (forall t, lgood (ledger_of ls t)) -> raw_nonneg rq = true -> dallocs_wf dg = true ->
  allocate_d kind gkey ls infos rq dg = ADone da -> dallocs_wf da = true.
Proof.
  intros G NN W H. destruct (allocate_d_done _ _ _ _ _ _ _ G W (fun _ => NN) H) as [dg' [_ [_ D]]].
  apply (type_done_wf kind ls infos rq); auto. intros t Ht. now apply D.
Qed.

(* ------------------------------------------------------------------ open cycles, GPU entry *)
Definition cycle_wf (c : cycle) : Prop :=
  raw_nonneg (fst c) = true /\ match snd c with Some dg => dallocs_wf dg = true | None => True end.
Definition pgood (s : state) : Prop := forall p c, lookup p (pend s) = Some c -> cycle_wf c.
Definition kgood (s : state) : Prop :=
  (is_nil (aset (lof s 0)) = false -> gkey s = true) /\ (has_gpu (infos s) = true -> gkey s = true).
Lemma init_pgood : pgood init_state.
Proof. intros p c H. discriminate. Qed.
Lemma init_kgood : kgood init_state.
Proof. split; discriminate. Qed.

Lemma cycle_allocate_wf s c da :
  ugood s -> wgood s -> cycle_wf c -> cycle_allocate s c = ADone da -> dallocs_wf da = true.
Proof.
  intros U W [NN Wd]. unfold cycle_allocate.
  assert (G : forall t, lgood (ledger_of (ledgers s) t)) by (intros t; now apply good_lgood).
  destruct (snd c) as [dg|].
  - now apply allocate_d_done_wf.
  - now apply allocate_done_wf.
Qed.

(* ------------------------------------------------------------------ every operation preserves the invariants *)
Lemma unhealthy_nonneg l :
  forallb (fun i => res_nonneg (if di_health i then di_res i else rempty)) (map unhealthy l) = true.
Proof. apply forallb_forall. intros i Hi. apply in_map_iff in Hi as [j [<- _]]. reflexivity. Qed.
Lemma healthy_nonneg inv :
  forallb (fun i => res_nonneg (di_res i)) inv = true ->
  forallb (fun i => res_nonneg (if di_health i then di_res i else rempty)) inv = true.
Proof.
  rewrite !forallb_forall. intros H i Hi. specialize (H i Hi). destruct (di_health i); auto.
Qed.

Lemma dup_add_same s p da b t : ugood s -> lookup p (envrec s) = Some (da, b) -> (t < 3)%nat ->
  ledger_of (cache_update true (ledgers s) p da) t = lof s t.
Proof.
  intros U L Ht. rewrite ledger_of_cache_update by auto. eapply cons_dupadd; eauto. now apply U.
Qed.
Lemma dup_rm_same s p da t : ugood s -> lookup p (envrec s) = None -> (t < 3)%nat ->
  ledger_of (cache_update false (ledgers s) p da) t = lof s t.
Proof.
  intros U L Ht. rewrite ledger_of_cache_update by auto. eapply cons_duprm; eauto. now apply U.
Qed.

Lemma with_pend_ugood s pd : ugood s -> ugood (with_pend s pd).
Proof. intros U. apply (ugood_ext s); auto; try reflexivity. apply U. Qed.
Lemma with_pend_wgood s pd : wgood s -> wgood (with_pend s pd).
Proof. intros W. apply (wgood_ext s); auto; reflexivity. Qed.
Lemma run_filter_fst s p c : exists pd, fst (run_filter s p c) = with_pend s pd.
Proof. unfold run_filter. destruct (filter_verdict s c) as [code c']. eexists. reflexivity. Qed.

Lemma step_good s o :
  ugood s -> ugood (fst (step s o)) /\
  (wgood s -> pgood s -> op_wf o = true -> wgood (fst (step s o))).
Proof.
  intros U. destruct o as [inv|p rq|p|p|p|p al| |p al|p|p rq vs|kind|p rq hint al|p|p]; cbn [step].
  - (* refresh *) cbn [fst]. split.
    + eapply ugood_refresh; eauto; reflexivity.
    + intros W _ Hwf. eapply wgood_refresh; eauto; try reflexivity. now apply healthy_nonneg.
  - (* schedule *)
    destruct (lookup p (envrec s)) as [x|] eqn:L; [cbn [fst]; auto|].
    destruct (allocate (nkind s) (ledgers s) (infos s) rq) as [|code|da] eqn:A; cbn [fst]; auto.
    split.
    + eapply ugood_add; eauto; reflexivity.
    + intros W _ Hwf. eapply wgood_add; eauto; try reflexivity.
      eapply allocate_done_wf; eauto. intros t. now apply good_lgood.
  - (* unreserve *)
    destruct (lookup p (envrec s)) as [[da [|]]|] eqn:L; cbn [fst]; auto. split.
    + eapply ugood_rm; eauto; reflexivity.
    + intros W _ _. eapply wgood_rm; eauto; reflexivity.
  - (* pod add *)
    destruct (lookup p (envrec s)) as [[da b]|] eqn:L; cbn [fst]; auto. split.
    + apply (ugood_ext s); auto; try reflexivity.
      intros t Ht. unfold lof at 1. cbn [ledgers]. eapply dup_add_same; eauto.
    + intros W _ _. apply (wgood_ext s); auto; try reflexivity.
      intros t Ht. unfold lof at 1. cbn [ledgers]. eapply dup_add_same; eauto.
  - (* pod delete *)
    destruct (lookup p (envrec s)) as [[da b]|] eqn:L; cbn [fst].
    + split; [eapply ugood_rm; eauto; reflexivity|]. intros W _ _. eapply wgood_rm; eauto; reflexivity.
    + split.
      * apply (ugood_ext s); auto; try reflexivity.
        intros t Ht. unfold lof at 1. cbn [ledgers]. eapply dup_rm_same; eauto.
      * intros W _ _. apply (wgood_ext s); auto; try reflexivity.
        intros t Ht. unfold lof at 1. cbn [ledgers]. eapply dup_rm_same; eauto.
  - (* foreign add *)
    destruct (lookup p (envrec s)) as [x|] eqn:L; cbn [fst]; auto. split.
    + eapply ugood_add; eauto; reflexivity.
    + intros W _ Hwf. eapply wgood_add; eauto; reflexivity.
  - (* device delete *) cbn [fst]. split.
    + eapply ugood_refresh; eauto; reflexivity.
    + intros W _ _. eapply wgood_refresh; eauto; try reflexivity. apply unhealthy_nonneg.
  - (* pod update *)
    destruct (lookup p (envrec s)) as [[old b]|] eqn:L; cbn [fst]; auto.
    set (s1 := mkState (cache_update false (ledgers s) p old) (infos s) (remove_key p (envrec s)) (envlast s)
                       (nkind s) (pend s) (gkey s)).
    assert (U1 : ugood s1) by (eapply ugood_rm; eauto; reflexivity).
    assert (L1 : lookup p (envrec s1) = None).
    { unfold s1. cbn [envrec]. rewrite lookup_remove_key. now rewrite Z.eqb_refl. }
    assert (Er : set_key p (group_allocs al, false) (envrec s)
                 = set_key p (group_allocs al, false) (envrec s1)).
    { unfold s1, set_key. cbn [envrec]. now rewrite remove_key_idem. }
    split.
    + eapply (ugood_add s1); eauto; cbn [ledgers envrec]; auto.
    + intros W _ Hwf. assert (W1 : wgood s1) by (apply (wgood_rm s s1 p old b); auto).
      apply (wgood_add s1 _ p (group_allocs al) false); auto.
  - (* terminated *)
    destruct (lookup p (envrec s)) as [[da b]|] eqn:L; cbn [fst]; auto. split.
    + eapply ugood_rm; eauto; reflexivity.
    + intros W _ _. eapply wgood_rm; eauto; reflexivity.
  - (* preemption dry-run *) cbn [fst]. auto.
  - (* node labels *) cbn [fst]. split.
    + apply (ugood_ext s); auto; try reflexivity. apply U.
    + intros W _ _. apply (wgood_ext s); auto; reflexivity.
  - (* cycle opened *)
    destruct (lookup p (envrec s)) as [x|] eqn:L; [cbn [fst]; auto|].
    destruct (run_filter_fst s p (rq, desig_of hint al)) as [pd ->]. split.
    + now apply with_pend_ugood.
    + intros W _ _. now apply with_pend_wgood.
  - (* Filter again *)
    destruct (lookup p (envrec s)) as [x|] eqn:L; [cbn [fst]; auto|].
    destruct (lookup p (pend s)) as [c|] eqn:Lp; [|cbn [fst]; auto].
    destruct (run_filter_fst s p c) as [pd ->]. split.
    + now apply with_pend_ugood.
    + intros W _ _. now apply with_pend_wgood.
  - (* Reserve *)
    destruct (lookup p (envrec s)) as [x|] eqn:L; [cbn [fst]; auto|].
    destruct (lookup p (pend s)) as [c|] eqn:Lp; [|cbn [fst]; auto].
    destruct (cycle_allocate s c) as [|code|da] eqn:A; cbn [fst].
    + split; [now apply with_pend_ugood|]. intros W _ _. now apply with_pend_wgood.
    + split; [now apply with_pend_ugood|]. intros W _ _. now apply with_pend_wgood.
    + split.
      * eapply ugood_add; eauto; reflexivity.
      * intros W P _. eapply wgood_add; eauto; try reflexivity.
        eapply cycle_allocate_wf; eauto.
Qed.

(* open cycles stay well-formed *)
Lemma pgood_ext s s' : pend s' = pend s -> pgood s -> pgood s'.
Proof. intros E P p c H. rewrite E in H. eauto. Qed.
Lemma pgood_remove s s' p : pend s' = remove_key p (pend s) -> pgood s -> pgood s'.
Proof.
  intros E P q c H. rewrite E, lookup_remove_key in H. destruct (q =? p); [discriminate|eauto].
Qed.
Lemma filter_verdict_wf s c : wgood s -> cycle_wf c -> cycle_wf (snd (filter_verdict s c)).
Proof.
  intros W [NN Wd]. unfold filter_verdict. destruct c as [rq [dg|]]; cbn [fst snd] in *.
  - split; auto. cbn [snd].
    destruct (desig_fill (gkey s) (total (ledger_of (ledgers s) 0)) dg) as [dg'|] eqn:F; auto.
    eapply desig_fill_wf; eauto. apply (wg_tot _ W 0%nat). lia.
  - split; auto.
Qed.
Lemma run_filter_pgood s p c : wgood s -> pgood s -> cycle_wf c -> pgood (fst (run_filter s p c)).
Proof.
  intros W P Wc. pose proof (filter_verdict_wf s c W Wc) as Wc'.
  unfold run_filter. destruct (filter_verdict s c) as [code c']. cbn [snd fst] in *.
  intros q c0 H. cbn [with_pend pend] in H. destruct (code =? 0).
  - rewrite lookup_set_key in H. destruct (q =? p); [now injection H as <-|eauto].
  - rewrite lookup_remove_key in H. destruct (q =? p); [discriminate|eauto].
Qed.
Lemma step_pend s o :
  match o with
  | OFilter _ _ _ _ | OFilterAgain _ | OReserve _ => True
  | _ => pend (fst (step s o)) = pend s
  end.
Proof.
  destruct o as [inv|p rq|p|p|p|p al| |p al|p|p rq vs|kind|p rq hint al|p|p]; cbn [step]; auto.
  - destruct (lookup p (envrec s)); auto. destruct (allocate _ _ _ _); auto.
  - destruct (lookup p (envrec s)) as [[da [|]]|]; auto.
  - destruct (lookup p (envrec s)) as [[da b]|]; auto.
  - destruct (lookup p (envrec s)) as [[da b]|]; auto.
  - destruct (lookup p (envrec s)); auto.
  - destruct (lookup p (envrec s)) as [[da b]|]; auto.
  - destruct (lookup p (envrec s)) as [[da b]|]; auto.
Qed.
Lemma step_pgood s o : wgood s -> pgood s -> op_wf o = true -> pgood (fst (step s o)).
Proof.
  intros W P Hwf. pose proof (step_pend s o) as E.
  destruct o as [inv|p rq|p|p|p|p al| |p al|p|p rq vs|kind|p rq hint al|p|p];
    try (now apply (pgood_ext s)); cbn [step].
  - destruct (lookup p (envrec s)) as [x|] eqn:L; [cbn [fst]; auto|].
    apply run_filter_pgood; auto. cbn [op_wf] in Hwf. apply andb_prop in Hwf as [NN Wa].
    split; auto. cbn [snd]. unfold desig_of. destruct (hint && negb (is_nil al)); auto.
  - destruct (lookup p (envrec s)) as [x|] eqn:L; [cbn [fst]; auto|].
    destruct (lookup p (pend s)) as [c|] eqn:Lp; [|cbn [fst]; auto].
    apply run_filter_pgood; eauto.
  - destruct (lookup p (envrec s)) as [x|] eqn:L; [cbn [fst]; auto|].
    destruct (lookup p (pend s)) as [c|] eqn:Lp; [|cbn [fst]; auto].
    destruct (cycle_allocate s c) as [|code|da]; cbn [fst]; eapply pgood_remove; eauto; reflexivity.
Qed.

(* the GPU entry of deviceTotal exists as soon as a GPU was listed or held *)
Lemma aset_reset_total l tot : aset (ledger_reset_total l tot) = aset l.
Proof. reflexivity. Qed.
Lemma kgood_mk ls inf er el k pd g :
  (is_nil (aset (ledger_of ls 0)) = false -> g = true) -> (has_gpu inf = true -> g = true) ->
  kgood (mkState ls inf er el k pd g).
Proof. intros H1 H2. split; assumption. Qed.
Lemma step_kgood s o : kgood s -> kgood (fst (step s o)).
Proof.
  intros [K1 K2]. fold (lof s 0) in K1.
  assert (Gk : forall ls, is_nil (aset (ledger_of ls 0)) = false -> gk s ls = true).
  { intros ls H. unfold gk. rewrite H. apply orb_true_r. }
  assert (Gm : forall ls, has_gpu (infos s) = true -> gk s ls = true).
  { intros ls H. unfold gk. now rewrite (K2 H). }
  assert (K0 : kgood s) by (split; assumption).
  destruct o as [inv|p rq|p|p|p|p al| |p al|p|p rq vs|kind|p rq hint al|p|p]; cbn [step].
  - cbn [fst]. apply kgood_mk.
    + intros H. rewrite ledger_of_refresh, aset_reset_total in H by lia. now rewrite (K1 H).
    + intros H. rewrite H. apply orb_true_r.
  - destruct (lookup p (envrec s)); [exact K0|].
    destruct (allocate _ _ _ _); cbn [fst]; try exact K0. apply kgood_mk; auto.
  - destruct (lookup p (envrec s)) as [[da [|]]|]; cbn [fst forget]; try exact K0. apply kgood_mk; auto.
  - destruct (lookup p (envrec s)) as [[da b]|]; cbn [fst]; try exact K0. apply kgood_mk; auto.
  - destruct (lookup p (envrec s)) as [[da b]|]; cbn [fst forget]; apply kgood_mk; auto.
  - destruct (lookup p (envrec s)); cbn [fst]; try exact K0. apply kgood_mk; auto.
  - cbn [fst]. apply kgood_mk.
    + intros H. rewrite ledger_of_refresh, aset_reset_total in H by lia. now rewrite (K1 H).
    + intros H. now rewrite (K2 H).
  - destruct (lookup p (envrec s)) as [[old b]|]; cbn [fst]; try exact K0. apply kgood_mk.
    + intros H. rewrite H. apply orb_true_r.
    + intros H. now rewrite (Gm _ H).
  - destruct (lookup p (envrec s)) as [[da b]|]; cbn [fst forget]; try exact K0. apply kgood_mk; auto.
  - cbn [fst]. exact K0.
  - cbn [fst]. apply kgood_mk; auto.
  - destruct (lookup p (envrec s)); [exact K0|].
    destruct (run_filter_fst s p (rq, desig_of hint al)) as [pd ->]. apply kgood_mk; auto.
  - destruct (lookup p (envrec s)); [exact K0|]. destruct (lookup p (pend s)) as [c|]; [|exact K0].
    destruct (run_filter_fst s p c) as [pd ->]. apply kgood_mk; auto.
  - destruct (lookup p (envrec s)); [exact K0|]. destruct (lookup p (pend s)) as [c|]; [|exact K0].
    destruct (cycle_allocate s c); cbn [fst]; apply kgood_mk; auto.
Qed.
