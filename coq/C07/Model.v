(* C07 — model of the per-node device ledgers of the deviceshare scheduler plugin
   (pkg/scheduler/plugins/deviceshare: device_cache.go, device_allocator.go, device_resources.go,
   allocator_gpu.go, devicehandler_*.go, utils.go, eventhandler_pod.go, eventhandler_device.go).
   Executable, total, no proofs in this file.

   Conventions
   - device types are indexed 0 = gpu, 1 = rdma, 2 = fpga;
   - a ResourceList of a device has three slots with explicit key presence
       gpu : gpu-core, gpu-memory-ratio, gpu-memory      rdma : rdma, -, -      fpga : fpga, -, -
   - deviceResources (minor -> ResourceList) is a list indexed by minor, [None] = minor absent;
   - pods are integers (rank of the pod name). *)
From Coq Require Import List ZArith Bool Arith.
From Verif Require Export Lib.ListX Lib.SortX.
From Verif Require Import Gen.Gen_scores.
Import ListNotations.
Open Scope Z_scope.

(* ------------------------------------------------------------------ ResourceList *)
Record res := mkRes { r0 : option Z; r1 : option Z; r2 : option Z }.
Definition rempty : res := mkRes None None None.
Definition rget (r : res) (k : nat) : option Z :=
  match k with O => r0 r | 1%nat => r1 r | 2%nat => r2 r | _ => None end.
Definition oz (o : option Z) : Z := match o with Some v => v | None => 0 end.
Definition rval (r : res) (k : nat) : Z := oz (rget r k).
Definition rmap2 (f : option Z -> option Z -> option Z) (a b : res) : res :=
  mkRes (f (r0 a) (r0 b)) (f (r1 a) (r1 b)) (f (r2 a) (r2 b)).

(* quotav1.Add: keys of a and b *)
Definition oadd (a b : option Z) : option Z :=
  match a, b with
  | Some x, Some y => Some (x + y) | Some x, None => Some x
  | None, Some y => Some y | None, None => None
  end.
(* quotav1.SubtractWithNonNegativeResult: keys of a and b, clamped at zero *)
Definition osubnn (a b : option Z) : option Z :=
  match a, b with
  | Some x, Some y => Some (Z.max 0 (x - y)) | Some x, None => Some (Z.max 0 x)
  | None, Some _ => Some 0 | None, None => None
  end.
Definition radd : res -> res -> res := rmap2 oadd.
Definition rsubnn : res -> res -> res := rmap2 osubnn.
(* quotav1.IsZero *)
Definition ris_zero (r : res) : bool :=
  (oz (r0 r) =? 0) && (oz (r1 r) =? 0) && (oz (r2 r) =? 0).
(* quotav1.LessThanOrEqual a b inspects only the keys of b *)
Definition ole (a b : option Z) : bool :=
  match b, a with Some y, Some x => x <=? y | _, _ => true end.
Definition rle (a b : res) : bool := ole (r0 a) (r0 b) && ole (r1 a) (r1 b) && ole (r2 a) (r2 b).

(* ------------------------------------------------------------------ deviceResources *)
Notation devres := (list (option res)).
Definition ores (o : option res) : res := match o with Some r => r | None => rempty end.
Definition dget (d : devres) (m : nat) : option res := nth m d None.
Definition dval (d : devres) (m k : nat) : Z := rval (ores (dget d m)) k.
Fixpoint dset (d : devres) (m : nat) (v : option res) : devres :=
  match m, d with
  | O, [] => [v]
  | O, _ :: t => v :: t
  | S m', [] => None :: dset [] m' v
  | S m', x :: t => x :: dset t m' v
  end.
(* pointwise combination of two minor-indexed maps ([f None None] is [None] at every use) *)
Fixpoint dzip {A B C} (f : option A -> option B -> option C)
         (a : list (option A)) (b : list (option B)) : list (option C) :=
  match a with
  | [] => map (fun y => f None y) b
  | x :: a' => match b with
               | [] => map (fun x => f x None) a
               | y :: b' => f x y :: dzip f a' b'
               end
  end.
(* deviceResources.isZero *)
Definition dis_zero (d : devres) : bool := forallb (fun o => ris_zero (ores o)) d.
(* len(deviceResources) == 0 *)
Definition dis_empty {A} (d : list (option A)) : bool :=
  forallb (fun o => match o with None => true | Some _ => false end) d.

(* one DeviceAllocation: minor and resources *)
Notation alloc := (nat * res)%type.
(* DeviceAllocations: allocation list per device type index; [] = type absent *)
Notation dallocs := (list (list alloc)).
Definition ntypes : nat := 3.
Definition type_ids : list nat := [0; 1; 2]%nat.
Definition no_allocs : dallocs := [[]; []; []].
Definition allocs_of (da : dallocs) (t : nat) : list alloc := nth t da [].

(* updateAllocateSet: resources[minor] = allocation.Resources (a later entry for the same minor wins) *)
Definition resources_of (al : list alloc) : devres :=
  fold_left (fun d a => dset d (fst a) (Some (snd a))) al [].

(* ------------------------------------------------------------------ per-type ledger *)
Record ledger := mkLedger {
  total : devres; free : devres; used : devres;
  aset : list (Z * devres)      (* allocateSet[type]: pod -> minor -> resources *)
}.
Definition empty_ledger : ledger := mkLedger [] [] [] [].

(* resetDeviceFree: free = total - used clamped at zero; a used minor gets a total entry *)
Definition reset_total_f (t : option res) (u : option res) : option res :=
  match u with Some _ => Some (ores t) | None => t end.
Definition reset_free_f (t : option res) (u : option res) : option res :=
  match u with Some u' => Some (rsubnn (ores t) u') | None => t end.
Definition reset_free (l : ledger) : ledger :=
  mkLedger (dzip reset_total_f (total l) (used l)) (dzip reset_free_f (total l) (used l))
           (used l) (aset l).

Fixpoint aset_mem (p : Z) (s : list (Z * devres)) : bool :=
  match s with [] => false | (q, _) :: t => (q =? p) || aset_mem p t end.
Fixpoint lookup_aset (p : Z) (s : list (Z * devres)) : option devres :=
  match s with [] => None | (q, d) :: t => if q =? p then Some d else lookup_aset p t end.
Definition aset_remove (p : Z) (s : list (Z * devres)) : list (Z * devres) :=
  filter (fun e => negb (fst e =? p)) s.

(* updateDeviceUsed *)
Definition used_add (u : devres) (a : alloc) : devres :=
  dset u (fst a) (Some (radd (ores (dget u (fst a))) (snd a))).
Definition used_sub (u : devres) (a : alloc) : devres :=
  let r := rsubnn (ores (dget u (fst a))) (snd a) in
  dset u (fst a) (if ris_zero r then None else Some r).

(* updateCacheUsed for one device type (isValid guard, updateDeviceUsed, resetDeviceFree,
   updateAllocateSet) *)
Definition ledger_add (l : ledger) (p : Z) (al : list alloc) : ledger :=
  if aset_mem p (aset l) then l
  else let l1 := mkLedger (total l) (free l) (fold_left used_add al (used l)) (aset l) in
       let l2 := reset_free l1 in
       mkLedger (total l2) (free l2) (used l2) ((p, resources_of al) :: aset l2).
Definition ledger_remove (l : ledger) (p : Z) (al : list alloc) : ledger :=
  if negb (aset_mem p (aset l)) then l
  else let l1 := mkLedger (total l) (free l) (fold_left used_sub al (used l)) (aset l) in
       let l2 := reset_free l1 in
       mkLedger (total l2) (free l2) (used l2) (aset_remove p (aset l2)).

Definition ledger_of (ls : list ledger) (t : nat) : ledger := nth t ls empty_ledger.

(* updateCacheUsed: every device type present in the allocations *)
Definition cache_update (add : bool) (ls : list ledger) (p : Z) (da : dallocs) : list ledger :=
  map (fun t => let l := ledger_of ls t in
                match allocs_of da t with
                | [] => l
                | al => if add then ledger_add l p al else ledger_remove l p al
                end) type_ids.

(* ------------------------------------------------------------------ inventory *)
(* one DeviceInfo of the Device CR *)
Record devinfo := mkInfo {
  di_type : nat; di_minor : nat; di_health : bool; di_res : res;
  di_numa : Z;      (* NUMA node id, -1 = no topology information *)
  di_pcie : Z       (* PCIe switch id *)
}.

(* buildDeviceResources: an unhealthy device exposes nothing *)
Definition build_total (inv : list devinfo) (t : nat) : devres :=
  fold_left (fun d i => if Nat.eqb (di_type i) t
                        then dset d (di_minor i) (Some (if di_health i then di_res i else rempty))
                        else d) inv [].
(* resetDeviceTotal *)
Definition ledger_reset_total (l : ledger) (tot : devres) : ledger :=
  reset_free (mkLedger tot (free l) (used l) (aset l)).
Definition unhealthy (i : devinfo) : devinfo :=
  mkInfo (di_type i) (di_minor i) false (di_res i) (di_numa i) (di_pcie i).

(* ------------------------------------------------------------------ requests *)
(* the pod's container requests for the device resource names (0 = not requested) *)
Record rawreq := mkRaw {
  q_koord : Z;   (* koordinator.sh/gpu *)
  q_core : Z;    (* koordinator.sh/gpu-core *)
  q_ratio : Z;   (* koordinator.sh/gpu-memory-ratio *)
  q_shared : Z;  (* koordinator.sh/gpu.shared *)
  q_nvidia : Z;  (* nvidia.com/gpu *)
  q_rdma : Z;    (* koordinator.sh/rdma *)
  q_fpga : Z     (* koordinator.sh/fpga *)
}.

(* ValidatePercentageResource *)
Definition pct_ok (v : Z) : bool := negb ((100 <? v) && negb (Z.rem v 100 =? 0)).
(* ValidateMultiple && ValidateLessThan100Times *)
Definition share_ok (a b : Z) : bool := (Z.rem a b =? 0) && (Z.quot a b <=? 100).

(* outcome of request parsing for one device type *)
Inductive treq :=
| TNone                                   (* type not requested *)
| TInvalid                                (* ValidateDeviceRequest fails *)
| TReq (per : res) (count : Z) (shared : bool).

(* GetPodDeviceRequests + calcDesiredRequestsAndCountForGPU, restricted to the five GPU
   resource names of [rawreq]; the result slots are (gpu-core, gpu-memory-ratio, -) *)
Definition gpu_conv (rq : rawreq) : option (option Z * Z * Z) :=  (* (core?, ratio, gpu.shared) *)
  let nz v := negb (v =? 0) in
  match nz (q_koord rq), nz (q_core rq), nz (q_ratio rq), nz (q_shared rq), nz (q_nvidia rq) with
  | false, false, false, false, true => Some (Some (q_nvidia rq * 100), q_nvidia rq * 100, 0)
  | true, false, false, false, false =>
      if pct_ok (q_koord rq) then Some (Some (q_koord rq), q_koord rq, 0) else None
  | false, false, true, false, false =>
      if pct_ok (q_ratio rq) then Some (None, q_ratio rq, 0) else None
  | false, true, true, false, false =>
      if pct_ok (q_core rq) && pct_ok (q_ratio rq) then Some (Some (q_core rq), q_ratio rq, 0) else None
  | false, false, true, true, false =>
      if share_ok (q_ratio rq) (q_shared rq) then Some (None, q_ratio rq, q_shared rq) else None
  | false, true, true, true, false =>
      if share_ok (q_core rq) (q_shared rq) && share_ok (q_ratio rq) (q_shared rq)
      then Some (Some (q_core rq), q_ratio rq, q_shared rq) else None
  | _, _, _, _, _ => None
  end.
Definition gpu_treq (rq : rawreq) : treq :=
  if (q_koord rq =? 0) && (q_core rq =? 0) && (q_ratio rq =? 0) && (q_shared rq =? 0)
     && (q_nvidia rq =? 0) then TNone
  else match gpu_conv rq with
       | None => TInvalid
       | Some (core, ratio, shared) =>
           let count := if 0 <? shared then shared
                        else if (100 <? ratio) && (Z.rem ratio 100 =? 0) then Z.quot ratio 100
                        else 1 in
           let per_ratio := Z.quot ratio count in
           TReq (mkRes (match core with Some c => Some (Z.quot c count) | None => None end)
                       (Some per_ratio) None)
                count (per_ratio <? 100)
       end.
(* DefaultDeviceHandler.CalcDesiredRequestsAndCount without hints (rdma, fpga) *)
Definition simple_treq (v : Z) : treq :=
  if v =? 0 then TNone
  else if negb (pct_ok v) then TInvalid
  else if (100 <? v) && (Z.rem v 100 =? 0)
       then TReq (mkRes (Some (Z.quot v (Z.quot v 100))) None None) (Z.quot v 100) false
       else TReq (mkRes (Some v) None None) 1 false.
Definition treq_of (rq : rawreq) (t : nat) : treq :=
  match t with
  | O => gpu_treq rq
  | 1%nat => simple_treq (q_rdma rq)
  | 2%nat => simple_treq (q_fpga rq)
  | _ => TNone
  end.

(* ------------------------------------------------------------------ allocation *)
(* nodeDevice.filter without preemptible / required resources: the allocator sees, for the
   minors listed in the Device CR, total and "total - free" recomputed from the ledger *)
Definition memn (m : nat) (l : list nat) : bool := existsb (Nat.eqb m) l.
Fixpoint dmapi {A B} (f : nat -> option A -> option B) (i : nat) (d : list (option A)) : list (option B) :=
  match d with [] => [] | x :: t => f i x :: dmapi f (S i) t end.
Definition filter_view (l : ledger) (minors : list nat) : ledger :=
  if dis_zero (free l) || match minors with [] => true | _ => false end then empty_ledger
  else
    let keep m := memn m minors in
    let tot := dmapi (fun m f => match f with
                                 | Some _ => if keep m then Some (ores (dget (total l) m)) else None
                                 | None => None end) 0 (free l) in
    let usd := dmapi (fun m f => match f with
                                 | Some f' => if keep m
                                              then let u := rsubnn (ores (dget (total l) m)) f' in
                                                   if ris_zero u then None else Some u
                                              else None
                                 | None => None end) 0 (free l) in
    reset_free (mkLedger tot [] usd []).

(* scoreDevice with the default weights (gpu-memory-ratio, gpu-memory, rdma, fpga : 1) under the
   configured scoring strategy ([most] = MostAllocated, otherwise LeastAllocated); the per-resource
   scores are the functions REGENERATED from scoring.go (Gen.Gen_scores) *)
Definition weighted_slots (t : nat) : list nat := match t with O => [1; 2]%nat | _ => [0%nat] end.
Definition slot_score (most : bool) (req tot fr : res) (k : nat) : option Z :=
  let tq := rval tot k in
  if tq =? 0 then None
  else let fq := rval fr k in
       let rq := if fq <=? tq then tq - fq + rval req k else tq in
       Some (if most then deviceshare_mostRequestedScore rq tq else deviceshare_leastRequestedScore rq tq).
Definition score_device (most : bool) (t : nat) (req tot fr : res) : Z :=
  let ss := map (slot_score most req tot fr) (weighted_slots t) in
  let n := Z.of_nat (length (filter (fun o => match o with Some _ => true | None => false end) ss)) in
  if n =? 0 then 0 else Z.quot (sumZ (map oz ss)) n.

(* a candidate device: (minor, free, score) *)
Notation cand := (nat * res * Z)%type.
Definition cand_leb (a b : cand) : bool :=
  (snd b <? snd a) || ((snd a =? snd b) && Nat.leb (fst (fst a)) (fst (fst b))).
Fixpoint candidates (most : bool) (t : nat) (scored : bool) (req : res) (v : ledger) (i : nat) (fr : devres) : list cand :=
  match fr with
  | [] => []
  | None :: rest => candidates most t scored req v (S i) rest
  | Some f :: rest =>
      (i, f, if scored then score_device most t req (ores (dget (total v) i)) f else 0)
        :: candidates most t scored req v (S i) rest
  end.
Definition eligible (req : res) (c : cand) : bool :=
  negb (ris_zero (snd (fst c))) && rle req (snd (fst c)).

(* defaultAllocateDevices (no hints, no required / preferred minors, no VFs) on the filtered view *)
Definition default_allocate (most : bool) (t : nat) (scored : bool) (v : ledger) (req : res) (desired maxd : nat)
  : option (list alloc) :=
  let cs := sort_by cand_leb (filter (eligible req) (candidates most t scored req v 0 (free v))) in
  let chosen := firstn maxd cs in
  if Nat.ltb (length chosen) desired then None
  else Some (map (fun c => (fst (fst c), req)) chosen).

(* fillGPUTotalMem for requests carrying gpu-memory-ratio but no gpu-memory *)
Definition fill_gpu_mem (tot : devres) (a : alloc) : option alloc :=
  match dget tot (fst a) with
  | None => None
  | Some g =>
      if ris_zero g then None
      else let r := snd a in
           match r2 r with
           | Some _ => Some a
           | None => Some (fst a, mkRes (r0 r) (r1 r) (Some (Z.quot (oz (r1 r) * rval g 2) 100)))
           end
  end.
Fixpoint fill_all (tot : devres) (al : list alloc) : option (list alloc) :=
  match al with
  | [] => Some []
  | a :: t => match fill_gpu_mem tot a, fill_all tot t with
              | Some a', Some t' => Some (a' :: t')
              | _, _ => None
              end
  end.

(* minors of the Device CR per type (nodeDevice.deviceInfos) *)
Definition minors_of (infos : list devinfo) (t : nat) : list nat :=
  map di_minor (filter (fun i => Nat.eqb (di_type i) t) infos).
Definition has_topology (infos : list devinfo) (t : nat) : bool :=
  forallb (fun i => negb (Nat.eqb (di_type i) t) || (0 <=? di_numa i)) infos.

(* status codes of the scheduling attempt *)
Definition c_ok : Z := 0.
Definition c_unsched : Z := 1.
Definition c_unresolvable : Z := 2.
Definition c_error : Z := 3.
Definition c_skip : Z := 4.

(* ---------- GPU topology scopes (allocator_gpu.go: GetGPUTopologyScope, allocateByDeviceTopology,
   allocateFromScope). The scope tree has three levels: node, NUMA node, PCIe switch. *)
Fixpoint insert_nat (x : nat) (l : list nat) : list nat :=
  match l with
  | [] => [x]
  | y :: t => if Nat.ltb x y then x :: l else if Nat.eqb x y then l else y :: insert_nat x t
  end.
Definition sort_nats (l : list nat) : list nat := fold_right insert_nat [] l.
Fixpoint insert_z (x : Z) (l : list Z) : list Z :=
  match l with
  | [] => [x]
  | y :: t => if x <? y then x :: l else if x =? y then l else y :: insert_z x t
  end.
Definition sort_zs (l : list Z) : list Z := fold_right insert_z [] l.

Definition gpu_infos (infos : list devinfo) : list devinfo :=
  filter (fun i => Nat.eqb (di_type i) 0) infos.
(* GetGPUTopologyScope returns nil unless there is a GPU and every GPU carries topology *)
Definition gpu_topo_ok (infos : list devinfo) : bool :=
  match gpu_infos infos with
  | [] => false
  | g => forallb (fun i => 0 <=? di_numa i) g
  end.
(* a PCIe scope is its sorted minors; a NUMA scope is its sorted minors and its PCIe scopes *)
Definition numa_scopes (infos : list devinfo) : list (list nat * list (list nat)) :=
  let g := gpu_infos infos in
  map (fun a =>
         let ga := filter (fun i => di_numa i =? a) g in
         (sort_nats (map di_minor ga),
          map (fun b => sort_nats (map di_minor (filter (fun i => di_pcie i =? b) ga)))
              (sort_zs (map di_pcie ga))))
      (sort_zs (map di_numa g)).
Definition root_minors (infos : list devinfo) : list nat := sort_nats (map di_minor (gpu_infos infos)).

(* what allocateFromScope is given *)
Record topo_ctx := mkCtx {
  tc_n : nat;              (* numberOfGPUs *)
  tc_shared : bool;        (* gpuShared *)
  tc_scored : bool;        (* a scorer is present (Reserve) *)
  tc_most : bool;          (* the scorer's strategy is MostAllocated *)
  tc_req : res;            (* requestsPerGPU *)
  tc_view : ledger;        (* the filtered nodeDevice *)
  tc_scope_total : devres; (* scope.minorsResources: totals as of the last refresh *)
  tc_used : list nat       (* minors hashed into deviceUsedMinorsHash *)
}.
Record scope_result := mkSR { sr_minors : list nat; sr_cum : Z; sr_depth : Z; sr_score : Z }.

Definition topo_sat (c : topo_ctx) (m : nat) : bool :=
  rle (tc_req c) (ores (dget (free (tc_view c)) m))
  && match dget (total (tc_view c)) m with Some g => negb (ris_zero g) | None => false end.
(* scoreDevice is called with (request, free, total): the roles of total and free are swapped *)
Definition topo_score (c : topo_ctx) (m : nat) : Z :=
  if tc_shared c && tc_scored c
  then score_device (tc_most c) 0 (tc_req c) (ores (dget (free (tc_view c)) m)) (ores (dget (tc_scope_total c) m))
  else 0.
Definition scope_hit (c : topo_ctx) (minors : list nat) : Z :=
  if existsb (fun m => memn m (tc_used c)) minors then 1 else 0.
(* the candidate loop of one scope *)
Definition best_shared (c : topo_ctx) (sat : list nat) : nat * Z :=
  fold_left (fun b m => if snd b <? topo_score c m then (m, topo_score c m) else b) sat (0%nat, -1).
Definition leaf_alloc (c : topo_ctx) (minors : list nat) (depth cum : Z) : option scope_result :=
  let sat := filter (topo_sat c) minors in
  if tc_shared c then
    match sat with
    | [] => None
    | _ => let b := best_shared c sat in Some (mkSR [fst b] cum depth (snd b))
    end
  else if Nat.ltb (length sat) (tc_n c) then None
       else Some (mkSR (firstn (tc_n c) sat) cum depth (-1)).
Definition better (shared : bool) (b r : scope_result) : scope_result :=
  let b1 := if (sr_depth b <? sr_depth r) || ((sr_depth b =? sr_depth r) && (sr_cum b <? sr_cum r))
            then r else b in
  if shared && (sr_depth b1 =? sr_depth r) && (sr_cum b1 =? sr_cum r) && (sr_score b1 <? sr_score r)
  then r else b1.
Definition best_of (shared : bool) (rs : list (option scope_result)) : option scope_result :=
  fold_left (fun b o => match o with
                        | None => b
                        | Some r => match b with None => Some r | Some b' => Some (better shared b' r) end
                        end) rs None.
Definition pcie_alloc (c : topo_ctx) (depth cum : Z) (minors : list nat) : option scope_result :=
  if Nat.ltb (length minors) (tc_n c) then None
  else leaf_alloc c minors (depth + 1) (cum + scope_hit c minors).
Definition numa_alloc (c : topo_ctx) (depth cum : Z) (sc : list nat * list (list nat))
  : option scope_result :=
  let minors := fst sc in
  if Nat.ltb (length minors) (tc_n c) then None
  else let d := depth + 1 in
       let k := cum + scope_hit c minors in
       match best_of (tc_shared c) (map (pcie_alloc c d k) (snd sc)) with
       | Some b => Some b
       | None => leaf_alloc c minors d k
       end.
Definition root_alloc (c : topo_ctx) (minors : list nat) (numas : list (list nat * list (list nat)))
  : option scope_result :=
  if Nat.ltb (length minors) (tc_n c) then None
  else let k := scope_hit c minors in
       match best_of (tc_shared c) (map (numa_alloc c 1 k) numas) with
       | Some b => Some b
       | None => leaf_alloc c minors 1 k
       end.

(* getRealUsed: used minors outside the filtered total, and minors used in the filtered view *)
Definition present_minors {A} (d : list (option A)) : list nat :=
  map fst (filter (fun x => match snd x with Some _ => true | None => false end)
                  (combine (seq 0 (length d)) d)).
Definition real_used (orig_used : devres) (v : ledger) : list nat :=
  filter (fun m => match dget (total v) m with None => true | Some _ => false end) (present_minors orig_used)
  ++ present_minors (used v).

(* allocation of one requested type on the current ledgers (AutopilotAllocator.Allocate:
   Prepare, filterNodeDevice, allocateDevices). GPU: GPUAllocator without shared-resource
   templates and without a partition table: allocateByDeviceTopology when every GPU of the
   Device CR carries topology information (and the request is not multi-GPU shared), otherwise
   defaultAllocateDevices. *)
Definition desired_count (count : Z) : nat := if count =? 0 then 1%nat else Z.to_nat count.
(* ---------- GPU partitions (allocateByPartition, selectPartitionByBinPack) with the built-in table of
   the NVIDIA Hopper models (GPUPartitionIndexOfNVIDIAHopper): partitions of 1, 2, 4 and 8 GPUs *)
Definition hopper_table (n : nat) : option (list (list nat)) :=
  match n with
  | 1 => Some [[0]; [1]; [2]; [3]; [4]; [5]; [6]; [7]]
  | 2 => Some [[0; 1]; [2; 3]; [4; 5]; [6; 7]]
  | 4 => Some [[0; 1; 2; 3]; [4; 5; 6; 7]]
  | 8 => Some [[0; 1; 2; 3; 4; 5; 6; 7]]
  | _ => None
  end%nat.
(* [kind] codes the node's labels and the plugin's scoring strategy: 0 no GPU model label, 1 GPU model
   H800 + partition policy Honor, 2 GPU model H800; + 4 when the strategy is MostAllocated *)
Definition most_of (kind : Z) : bool := 4 <=? kind.
Definition pk (kind : Z) : Z := if most_of kind then kind - 4 else kind.
Definition has_part_table (kind : Z) : bool := (pk kind =? 1) || (pk kind =? 2).
Definition honor_part (kind : Z) : bool := pk kind =? 1.
Definition part_weight (n : nat) : Z :=
  match n with 8%nat => 10000 | 4%nat => 100 | 2%nat => 1 | _ => 0 end.
Definition disjointb (a b : list nat) : bool := negb (existsb (fun m => memn m b) a).
(* a partition is feasible when none of its GPUs is in use and all of them have a non-zero total *)
Definition part_feasible (c : topo_ctx) (p : list nat) : bool :=
  disjointb p (tc_used c)
  && forallb (fun m => match dget (total (tc_view c)) m with
                       | Some g => negb (ris_zero g) | None => false end) p.
Definition binpack_score (used : list nat) (desired : nat) (f : list nat) : Z :=
  sumZ (map (fun n => if Nat.ltb n desired then 0
                      else match hopper_table n with
                           | Some ps => part_weight n *
                                        Z.of_nat (length (filter (fun q => disjointb q (used ++ f)) ps))
                           | None => 0
                           end) [8; 4; 2]%nat).
Definition select_part (used : list nat) (desired : nat) (fs : list (list nat)) : list nat :=
  match fs with
  | [] => []
  | [f] => f
  | f0 :: rest =>
      fst (fold_left (fun b f => let sc := binpack_score used desired f in
                                 if snd b <? sc then (f, sc) else b)
                     rest (f0, binpack_score used desired f0))
  end.
Inductive part_result := PNone | PFail | PSome (minors : list nat).
Definition part_alloc (kind : Z) (c : topo_ctx) : part_result :=
  let r := if tc_shared c then PNone
           else if negb (has_part_table kind) then PFail
           else match hopper_table (tc_n c) with
                | None => PFail
                | Some ps => match filter (part_feasible c) ps with
                             | [] => PFail
                             | fs => PSome (select_part (tc_used c) (tc_n c) fs)
                             end
                end in
  if honor_part kind then r else match r with PFail => PNone | _ => r end.
(* honoured partitions and a GPU count the table has no partitions for: UnschedulableAndUnresolvable *)
Definition part_unsupported (kind : Z) (r : treq) : bool :=
  match r with
  | TReq _ count shared =>
      honor_part kind && negb shared
      && match hopper_table (desired_count count) with None => true | Some _ => false end
  | _ => false
  end.

(* [l] is the ledger the allocator looks at (only its total and free matter), [orig_used] the
   node's real deviceUsed (for getRealUsed) *)
Definition alloc_core (kind : Z) (scored : bool) (infos : list devinfo) (t : nat) (orig_used : devres)
           (l : ledger) (per : res) (count : Z) (shared : bool) : option (list alloc) :=
  let v := filter_view l (minors_of infos t) in
  let desired := desired_count count in
  let c := mkCtx desired shared scored (most_of kind) per v (build_total infos 0) (real_used orig_used v) in
  let general :=
    if Nat.eqb t 0 && gpu_topo_ok infos && negb (shared && (1 <? count)) then
      match root_alloc c (root_minors infos) (numa_scopes infos) with
      | Some r => Some (map (fun m => (m, per)) (sr_minors r))
      | None => None
      end
    else default_allocate (most_of kind) t scored v per desired desired in
  if Nat.eqb t 0 then
    match part_alloc kind c with
    | PSome ms => Some (map (fun m => (m, per)) ms)
    | PFail => None
    | PNone => general
    end
  else general.
Definition alloc_type (kind : Z) (scored : bool) (ls : list ledger) (infos : list devinfo) (t : nat)
           (per : res) (count : Z) (shared : bool) : option (list alloc) :=
  alloc_core kind scored infos t (used (ledger_of ls t)) (ledger_of ls t) per count shared.

(* ---------- Filter during a preemption dry-run: the victims' holdings count as free
   (calcFreeWithPreemptible without required resources, nodeDevice.filter on that free) *)
Definition calc_free (l : ledger) (pre : devres) : devres :=
  let merged := dmapi (fun m v => match v with
                  | Some v' => let rem := rsubnn (ores (dget (total l) m))
                                                 (rsubnn (ores (dget (used l) m)) v') in
                               if ris_zero rem then None else Some rem
                  | None => None end) 0 pre in
  if dis_empty merged then free l
  else dzip (fun a b => match a with Some _ => a | None => b end) merged (free l).
(* appendAllocated over the victims' entries of the allocate set (RemovePod) *)
Definition merge_res (a b : option res) : option res :=
  match a, b with
  | Some x, Some y => Some (radd x y) | Some x, None => Some x
  | None, Some y => Some y | None, None => None
  end.
Definition preempt_of (l : ledger) (victims : list Z) : devres :=
  fold_left (fun pre v => match lookup_aset v (aset l) with
                          | Some d => if dis_empty d then pre else dzip merge_res pre d
                          | None => pre end) victims [].
(* the ledger as the dry-run sees it: the victims' holdings count as free *)
Definition preempt_ledger (l : ledger) (victims : list Z) : ledger :=
  mkLedger (total l) (calc_free l (preempt_of l victims)) [] [].
Definition alloc_type_on (kind : Z) (ls : list ledger) (infos : list devinfo) (t : nat)
           (per : res) (count : Z) (shared : bool) (victims : list Z) : option (list alloc) :=
  let l := ledger_of ls t in
  alloc_core kind false infos t (used l) (preempt_ledger l victims) per count shared.

(* ---------- designated allocations (plugin.go allocate: a pod that carries a device-allocated
   annotation and whose scheduling hint names the plugin): the allocator may only use the
   designated devices, each up to min(free, designated amount) — calcFreeWithPreemptible with
   requiredDeviceResources, util.MinResourceList (keys of both, the smaller value) *)
Definition omin (a b : option Z) : option Z :=
  match a, b with Some x, Some y => Some (Z.min x y) | _, _ => None end.
Definition rmin : res -> res -> res := rmap2 omin.
Definition desig_free (fr rq : devres) : devres :=
  dmapi (fun m f => match f, dget rq m with
                    | Some f', Some r => Some (rmin f' r)
                    | _, _ => None end) 0 fr.
(* len(requiredDeviceResources[type]) == 0: the ordinary free map *)
Definition desig_ledger (l : ledger) (rq : devres) : ledger :=
  if dis_empty rq then l else mkLedger (total l) (desig_free (free l) rq) [] [].
(* fillGPUTotalMem(state.designatedAllocation): done in place, only when the node has a GPU entry
   in deviceTotal ([gkey]); fails on a designated GPU that is absent or exposes nothing *)
Definition desig_fill (gkey : bool) (tot : devres) (dg : dallocs) : option dallocs :=
  if gkey then match fill_all tot (allocs_of dg 0) with
               | Some g => Some (g :: tl dg)
               | None => None
               end
  else Some dg.
Definition required_of (dg : dallocs) (t : nat) : devres := resources_of (allocs_of dg t).

Inductive alloc_result :=
| ASkip | AFail (code : Z) | ADone (da : dallocs).

Definition is_req (r : treq) : bool := match r with TReq _ _ _ => true | _ => false end.
Definition is_invalid (r : treq) : bool := match r with TInvalid => true | _ => false end.

(* [rqs]: the required (designated) resources per device type, [] = none *)
Definition alloc_type_r (kind : Z) (scored : bool) (ls : list ledger) (infos : list devinfo) (t : nat)
           (rq : devres) (per : res) (count : Z) (shared : bool) : option (list alloc) :=
  alloc_core kind scored infos t (used (ledger_of ls t)) (desig_ledger (ledger_of ls t) rq) per count shared.
Definition allocate_r (kind : Z) (ls : list ledger) (infos : list devinfo) (rq : rawreq) (rqs : list devres)
  : alloc_result :=
  let reqs := map (treq_of rq) type_ids in
  if existsb is_invalid reqs then AFail c_unresolvable            (* PreFilter *)
  else if negb (existsb is_req reqs) then ASkip                   (* PreFilter: nothing requested *)
  else if existsb (fun t => is_req (treq_of rq t) &&
                            dis_empty (total (ledger_of ls t))) type_ids
       then AFail c_unresolvable                                  (* Prepare: no device of the type *)
  else if part_unsupported kind (treq_of rq 0) then AFail c_unresolvable
  else
    let per_type := map (fun t => match treq_of rq t with
                                  | TReq per count sh =>
                                      Some (alloc_type_r kind true ls infos t (nth t rqs []) per count sh)
                                  | _ => None end) type_ids in
    if existsb (fun o => match o with Some None => true | _ => false end) per_type
    then AFail c_unsched
    else
      let da := map (fun o => match o with Some (Some al) => al | _ => [] end) per_type in
      match fill_all (total (ledger_of ls 0)) (allocs_of da 0) with
      | None => AFail c_error
      | Some g => ADone (g :: tl da)
      end.
Definition allocate (kind : Z) (ls : list ledger) (infos : list devinfo) (rq : rawreq) : alloc_result :=
  allocate_r kind ls infos rq [].
(* the allocation of a pod with a designated allocation [dg] (p.allocate) *)
Definition allocate_d (kind : Z) (gkey : bool) (ls : list ledger) (infos : list devinfo) (rq : rawreq)
           (dg : dallocs) : alloc_result :=
  let reqs := map (treq_of rq) type_ids in
  if existsb is_invalid reqs then AFail c_unresolvable
  else if negb (existsb is_req reqs) then ASkip
  else match desig_fill gkey (total (ledger_of ls 0)) dg with
       | None => AFail c_error
       | Some dg' => allocate_r kind ls infos rq (map (required_of dg') type_ids)
       end.

(* PreFilter, RemovePod for every victim, Filter: only the verdict is produced *)
Definition preempt_verdict (kind : Z) (ls : list ledger) (infos : list devinfo) (rq : rawreq) (victims : list Z) : Z :=
  let reqs := map (treq_of rq) type_ids in
  if existsb is_invalid reqs then c_unresolvable
  else if negb (existsb is_req reqs) then c_skip
  else if existsb (fun t => is_req (treq_of rq t) && dis_empty (total (ledger_of ls t))) type_ids
       then c_unresolvable
  else if part_unsupported kind (treq_of rq 0) then c_unresolvable
  else if existsb (fun t => match treq_of rq t with
                            | TReq per count sh =>
                                match alloc_type_on kind ls infos t per count sh victims with
                                | None => true | Some _ => false end
                            | _ => false end) type_ids
       then c_unsched
  else c_ok.

(* ------------------------------------------------------------------ state and steps *)
(* a scheduling cycle between its Filter and its Reserve phase: the pod's request and, when the pod
   carries a designated allocation that the scheduling hint makes binding, that allocation (as
   completed in place by fillGPUTotalMem) *)
Notation cycle := (rawreq * option dallocs)%type.
Record state := mkState {
  ledgers : list ledger;                       (* by device type *)
  infos : list devinfo;                        (* nodeDevice.deviceInfos *)
  envrec : list (Z * (dallocs * bool));        (* environment: bound pods, their recorded
                                                  annotation, scheduled here? *)
  envlast : list (Z * dallocs);                (* environment: last annotation of pods that are gone *)
  nkind : Z;    (* node labels and scoring strategy, see [most_of] / [pk] *)
  pend : list (Z * cycle);                     (* environment: scheduling cycles past Filter *)
  gkey : bool   (* deviceTotal has an entry for the GPU type (never removed once created) *)
}.
Definition init_state : state :=
  mkState [empty_ledger; empty_ledger; empty_ledger] [] [] [] 0 [] false.

Fixpoint lookup {A} (p : Z) (l : list (Z * A)) : option A :=
  match l with [] => None | (q, v) :: t => if q =? p then Some v else lookup p t end.
Definition remove_key {A} (p : Z) (l : list (Z * A)) : list (Z * A) :=
  filter (fun e => negb (fst e =? p)) l.
Definition set_key {A} (p : Z) (v : A) (l : list (Z * A)) : list (Z * A) := (p, v) :: remove_key p l.

(* grouping of an annotation given as a flat list of (type, allocation) *)
Definition group_allocs (al : list (nat * alloc)) : dallocs :=
  map (fun t => map snd (filter (fun x => Nat.eqb (fst x) t) al)) type_ids.

Inductive op :=
| ORefresh (inv : list devinfo)
| OSchedule (p : Z) (rq : rawreq)
| OUnreserve (p : Z)
| OPodAdd (p : Z)
| OPodDelete (p : Z)
| OForeignAdd (p : Z) (al : list (nat * alloc))
| ODeviceDelete
| OPodUpdate (p : Z) (al : list (nat * alloc))
| OPodTerminated (p : Z)
| OPreemptFilter (p : Z) (rq : rawreq) (victims : list Z)
| ONodeKind (kind : Z)
| OFilter (p : Z) (rq : rawreq) (hint : bool) (al : list (nat * alloc))
                                 (* PreFilter + Filter of a cycle that stays open; [al]: the pod's
                                    device-allocated annotation, [hint]: the scheduling hint names
                                    the plugin (the annotation is a designated allocation) *)
| OFilterAgain (p : Z)           (* Filter once more with the same cycle state *)
| OReserve (p : Z).              (* Reserve of an open cycle: allocate on the ledgers of that moment, commit *)

Definition is_schedule_op (o : op) : bool :=
  match o with OSchedule _ _ | OReserve _ => true | _ => false end.

(* what one operation reports besides the ledgers: a code and (for scheduling) the allocation *)
Record opout := mkOut { o_code : Z; o_allocs : dallocs }.
Definition out_code (c : Z) : opout := mkOut c no_allocs.

Definition refresh (s : state) (inv : list devinfo) : list ledger :=
  map (fun t => ledger_reset_total (ledger_of (ledgers s) t) (build_total inv t)) type_ids.

Definition is_nil {A} (l : list A) : bool := match l with [] => true | _ => false end.
(* resetDeviceFree(gpu) runs on every valid add of GPU allocations and creates the GPU entries *)
Definition gk (s : state) (ls : list ledger) : bool :=
  gkey s || negb (is_nil (aset (ledger_of ls 0))).
Definition has_gpu (inv : list devinfo) : bool := existsb (fun i => Nat.eqb (di_type i) 0) inv.

Definition forget (s : state) (p : Z) (da : dallocs) (ls : list ledger) : state :=
  mkState ls (infos s) (remove_key p (envrec s)) (set_key p da (envlast s)) (nkind s) (pend s) (gk s ls).

(* the designated allocation of a cycle *)
Definition desig_of (hint : bool) (al : list (nat * alloc)) : option dallocs :=
  if hint && negb (is_nil al) then Some (group_allocs al) else None.
Definition code_of (r : alloc_result) : Z :=
  match r with ASkip => c_skip | AFail c => c | ADone _ => c_ok end.
(* the verdict of PreFilter + Filter, and the cycle state it leaves behind *)
Definition filter_verdict (s : state) (c : cycle) : Z * cycle :=
  match snd c with
  | None => (preempt_verdict (nkind s) (ledgers s) (infos s) (fst c) [], c)
  | Some dg =>
      (code_of (allocate_d (nkind s) (gkey s) (ledgers s) (infos s) (fst c) dg),
       (fst c, Some match desig_fill (gkey s) (total (ledger_of (ledgers s) 0)) dg with
                    | Some dg' => dg' | None => dg end))
  end.
Definition cycle_allocate (s : state) (c : cycle) : alloc_result :=
  match snd c with
  | None => allocate (nkind s) (ledgers s) (infos s) (fst c)
  | Some dg => allocate_d (nkind s) (gkey s) (ledgers s) (infos s) (fst c) dg
  end.
Definition with_pend (s : state) (pd : list (Z * cycle)) : state :=
  mkState (ledgers s) (infos s) (envrec s) (envlast s) (nkind s) pd (gkey s).
Definition run_filter (s : state) (p : Z) (c : cycle) : state * opout :=
  let '(code, c') := filter_verdict s c in
  (with_pend s (if code =? 0 then set_key p c' (pend s) else remove_key p (pend s)), out_code code).

Definition step (s : state) (o : op) : state * opout :=
  match o with
  | ORefresh inv =>
      (mkState (refresh s inv) inv (envrec s) (envlast s) (nkind s) (pend s) (gkey s || has_gpu inv),
       out_code 0)
  | ODeviceDelete =>
      (mkState (refresh s (map unhealthy (infos s))) (infos s) (envrec s) (envlast s) (nkind s) (pend s)
               (gkey s || has_gpu (infos s)), out_code 0)
  | OSchedule p rq =>
      match lookup p (envrec s) with
      | Some _ => (s, out_code (-1))
      | None =>
          match allocate (nkind s) (ledgers s) (infos s) rq with
          | ASkip => (s, out_code c_skip)
          | AFail c => (s, out_code c)
          | ADone da =>
              let ls := cache_update true (ledgers s) p da in
              (mkState ls (infos s) (set_key p (da, true) (envrec s)) (envlast s) (nkind s) (pend s) (gk s ls),
               mkOut c_ok da)
          end
      end
  | OUnreserve p =>
      match lookup p (envrec s) with
      | Some (da, true) => (forget s p da (cache_update false (ledgers s) p da), out_code 0)
      | _ => (s, out_code (-1))
      end
  | OPodAdd p =>
      match lookup p (envrec s) with
      | Some (da, _) =>
          let ls := cache_update true (ledgers s) p da in
          (mkState ls (infos s) (envrec s) (envlast s) (nkind s) (pend s) (gk s ls), out_code 0)
      | None => (s, out_code (-1))
      end
  | OPodDelete p =>
      match lookup p (envrec s) with
      | Some (da, _) => (forget s p da (cache_update false (ledgers s) p da), out_code 0)
      | None =>
          let da := match lookup p (envlast s) with Some d => d | None => no_allocs end in
          let ls := cache_update false (ledgers s) p da in
          (mkState ls (infos s) (envrec s) (envlast s) (nkind s) (pend s) (gk s ls), out_code (-1))
      end
  | OPodTerminated p =>
      match lookup p (envrec s) with
      | Some (da, _) => (forget s p da (cache_update false (ledgers s) p da), out_code 0)
      | None => (s, out_code (-1))
      end
  | OForeignAdd p al =>
      match lookup p (envrec s) with
      | Some _ => (s, out_code (-1))
      | None =>
          let da := group_allocs al in
          let ls := cache_update true (ledgers s) p da in
          (mkState ls (infos s) (set_key p (da, false) (envrec s)) (envlast s) (nkind s) (pend s) (gk s ls),
           out_code 0)
      end
  | OPreemptFilter p rq victims =>
      (s, out_code (preempt_verdict (nkind s) (ledgers s) (infos s) rq victims))
  | ONodeKind kind =>
      (mkState (ledgers s) (infos s) (envrec s) (envlast s) kind (pend s) (gkey s), out_code 0)
  | OPodUpdate p al =>
      match lookup p (envrec s) with
      | None => (s, out_code (-1))
      | Some (old, _) =>
          let da := group_allocs al in
          let ls1 := cache_update false (ledgers s) p old in
          let ls := cache_update true ls1 p da in
          (mkState ls (infos s) (set_key p (da, false) (envrec s)) (envlast s) (nkind s) (pend s)
                   (gk s ls1 || negb (is_nil (aset (ledger_of ls 0)))), out_code 0)
      end
  | OFilter p rq hint al =>
      match lookup p (envrec s) with
      | Some _ => (s, out_code (-1))
      | None => run_filter s p (rq, desig_of hint al)
      end
  | OFilterAgain p =>
      match lookup p (envrec s), lookup p (pend s) with
      | None, Some c => run_filter s p c
      | _, _ => (s, out_code (-1))
      end
  | OReserve p =>
      match lookup p (envrec s), lookup p (pend s) with
      | None, Some c =>
          match cycle_allocate s c with
          | ASkip => (with_pend s (remove_key p (pend s)), out_code c_skip)
          | AFail code => (with_pend s (remove_key p (pend s)), out_code code)
          | ADone da =>
              let ls := cache_update true (ledgers s) p da in
              (mkState ls (infos s) (set_key p (da, true) (envrec s)) (envlast s) (nkind s)
                       (remove_key p (pend s)) (gk s ls), mkOut c_ok da)
          end
      | _, _ => (s, out_code (-1))
      end
  end.

(* the run: one (output, ledgers) observation after every operation *)
Notation obsrec := (opout * list ledger)%type.
Fixpoint run_from (s : state) (ops : list op) : list obsrec :=
  match ops with
  | [] => []
  | o :: rest => let '(s', out) := step s o in (out, ledgers s') :: run_from s' rest
  end.
Definition run (ops : list op) : list obsrec := run_from init_state ops.
Definition exec (ops : list op) : state := fold_left (fun s o => fst (step s o)) ops init_state.
