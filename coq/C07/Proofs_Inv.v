(* C07 — no device is over-committed: the invariant, its decision procedure, and its
   preservation by releases and by allocations produced by the allocator. *)
From Coq Require Import List ZArith Bool Arith Lia Permutation.
From Verif Require Import C07.Model C07.Spec C07.Proofs_Res C07.Proofs_Ledger C07.Proofs_View
  C07.Proofs_Alloc C07.Proofs_Allocate C07.Proofs_Desig C07.Proofs_AllocateR C07.Proofs_State.
Import ListNotations.
Open Scope Z_scope.

(* ------------------------------------------------------------------ reflection *)
Lemma no_overcommitb_spec l : no_overcommitb l = true <-> no_overcommit l.
Proof.
  unfold no_overcommitb, no_overcommit. rewrite forallb_forall. split.
  - intros H m k T E. destruct (Nat.lt_ge_cases m (length (total l))) as [L|L].
    + specialize (H m). rewrite in_seq in H. specialize (H (conj (Nat.le_0_l m) L)).
      rewrite forallb_forall in H. destruct (Nat.lt_ge_cases k 3) as [Lk|Lk].
      * specialize (H k (slots_all k Lk)). rewrite E in H. now apply Z.leb_le.
      * rewrite rget_big in E by auto. discriminate.
    + rewrite dget_overflow in E by auto. cbn [ores] in E. rewrite rget_rempty in E. discriminate.
  - intros H m _. apply forallb_forall. intros k _.
    destruct (rget (ores (dget (total l) m)) k) as [T|] eqn:E; auto. apply Z.leb_le. eauto.
Qed.

Definition gpu_coupled (l : ledger) : Prop :=
  (forall m, gpu_dev_ok (ores (dget (total l) m)) = true) /\
  (forall e, In e (aset l) -> forall m, gpu_share_ok (total l) (snd e) m = true).
Lemma gpu_coupledb_spec l : gpu_coupledb l = true <-> gpu_coupled l.
Proof.
  unfold gpu_coupledb, gpu_coupled. rewrite andb_true_iff, !forallb_forall. split.
  - intros [H1 H2]. split.
    + intros m. destruct (Nat.lt_ge_cases m (length (total l))) as [L|L].
      * apply H1. unfold dget. now apply nth_In.
      * rewrite dget_overflow by auto. reflexivity.
    + intros e He m. specialize (H2 e He). rewrite forallb_forall in H2.
      destruct (Nat.lt_ge_cases m (length (snd e))) as [L|L].
      * apply H2. apply in_seq. lia.
      * unfold gpu_share_ok. rewrite !dval_overflow by auto.
        destruct (r2 (ores (dget (total l) m))); auto.
  - intros [H1 H2]. split.
    + intros o Ho. apply In_dget in Ho as [m [_ <-]]. apply H1.
    + intros e He. apply forallb_forall. intros m _. now apply H2.
Qed.

Definition inv_ok (ls : list ledger) : Prop :=
  (forall t, (t < 3)%nat -> no_overcommit (ledger_of ls t)) /\ gpu_coupled (ledger_of ls 0).
Lemma inv_okb_spec ls : inv_okb ls = true <-> inv_ok ls.
Proof.
  unfold inv_okb, inv_ok. rewrite andb_true_iff, gpu_coupledb_spec. cbn [forallb type_ids].
  rewrite !andb_true_iff, !no_overcommitb_spec. split.
  - intros [[H0 [H1 [H2 _]]] Hc]. split; auto. intros t Ht. destruct t as [|[|[|t]]]; auto; lia.
  - intros [H Hc]. split; [|exact Hc]. repeat split; auto.
Qed.

(* ------------------------------------------------------------------ exposure is stable *)
Lemma ores_dzip_total tot usd m : ores (nth m (dzip reset_total_f tot usd) None) = ores (nth m tot None).
Proof. rewrite dget_dzip by auto. destruct (nth m usd None); reflexivity. Qed.

Lemma total_ledger_add l p al m : ores (dget (total (ledger_add l p al)) m) = ores (dget (total l) m).
Proof.
  unfold ledger_add. destruct (aset_mem p (aset l)); auto.
  cbn [total reset_free used]. unfold dget. apply ores_dzip_total.
Qed.
Lemma total_ledger_remove l p al m : ores (dget (total (ledger_remove l p al)) m) = ores (dget (total l) m).
Proof.
  unfold ledger_remove. destruct (negb (aset_mem p (aset l))); auto.
  cbn [total reset_free used]. unfold dget. apply ores_dzip_total.
Qed.

(* ------------------------------------------------------------------ releases *)
Lemma used_ledger_remove_le l p al m k :
  lgood l -> allocs_wf al = true -> dval (used (ledger_remove l p al)) m k <= dval (used l) m k.
Proof.
  intros G W. unfold ledger_remove. destruct (negb (aset_mem p (aset l))); [lia|].
  cbn [used reset_free]. unfold allocs_wf in W. apply andb_prop in W as [ND NN].
  apply nodupn_NoDup in ND. rewrite dval_fold_used_sub by auto.
  pose proof (lgood_used_nonneg l G m k). pose proof (asum_nonneg al m k NN).
  destruct (memn m (map fst al)); lia.
Qed.
Lemma no_overcommit_remove l p al :
  lgood l -> allocs_wf al = true -> no_overcommit l -> no_overcommit (ledger_remove l p al).
Proof.
  intros G W N m k T E. rewrite total_ledger_remove in E.
  pose proof (used_ledger_remove_le l p al m k G W). specialize (N m k T E). lia.
Qed.
Lemma gpu_share_ok_total tot tot' d m :
  ores (dget tot' m) = ores (dget tot m) -> gpu_share_ok tot' d m = gpu_share_ok tot d m.
Proof. intros E. unfold gpu_share_ok. now rewrite E. Qed.
Lemma gpu_coupled_remove l p al : gpu_coupled l -> gpu_coupled (ledger_remove l p al).
Proof.
  intros [H1 H2]. split.
  - intros m. rewrite total_ledger_remove. apply H1.
  - intros e He m. rewrite (gpu_share_ok_total (total l)) by apply total_ledger_remove.
    apply H2. unfold ledger_remove in He. destruct (negb (aset_mem p (aset l))); auto.
    cbn [aset reset_free] in He. unfold aset_remove in He. now apply filter_In in He.
Qed.

(* ------------------------------------------------------------------ GPU memory follows the ratio *)
Lemma share_sum (s : list (Z * devres)) tot m T :
  r2 (ores (dget tot m)) = Some T ->
  (forall e, In e s -> gpu_share_ok tot (snd e) m = true) ->
  100 * aset_sum s m 2 <= aset_sum s m 1 * T.
Proof.
  intros ET. induction s as [|[p d] s IH]; intros H.
  - cbn. lia.
  - rewrite !aset_sum_cons. specialize (IH (fun e He => H e (or_intror He))).
    specialize (H (p, d) (or_introl eq_refl)). unfold gpu_share_ok in H. rewrite ET in H.
    cbn [snd] in H. apply Z.leb_le in H. lia.
Qed.
Lemma gpu_mem_bound l :
  used_eq_sum l -> gpu_coupled l ->
  (forall m T, rget (ores (dget (total l) m)) 1 = Some T -> dval (used l) m 1 <= T) ->
  forall m T, rget (ores (dget (total l) m)) 2 = Some T -> dval (used l) m 2 <= T.
Proof.
  intros S [H1 H2] N1 m T E. cbn [rget] in E.
  specialize (H1 m). unfold gpu_dev_ok in H1. rewrite E in H1.
  apply andb_prop in H1 as [HT HR]. apply Z.leb_le in HT.
  destruct (r1 (ores (dget (total l) m))) as [R|] eqn:ER; [|discriminate]. apply Z.leb_le in HR.
  specialize (N1 m R ER).
  pose proof (share_sum (aset l) (total l) m T E (fun e He => H2 e He m)) as Hs.
  rewrite <- !S in Hs. nia.
Qed.

(* ------------------------------------------------------------------ allocations produced by the allocator *)
Lemma asum_in al a k : NoDup (map fst al) -> In a al -> asum al (fst a) k = rval (snd a) k.
Proof.
  induction al as [|b al IH]; intros ND Hin; [destruct Hin|].
  cbn [map] in ND. inversion ND as [|x l Hnot ND']; subst. rewrite asum_cons.
  destruct Hin as [->|Hin].
  - rewrite Nat.eqb_refl. rewrite asum_notin by auto. lia.
  - rewrite IH by auto. destruct (Nat.eqb (fst b) (fst a)) eqn:E; [|lia].
    apply Nat.eqb_eq in E. exfalso. apply Hnot. rewrite E. now apply in_map.
Qed.
Lemma asum_cases al m k : NoDup (map fst al) ->
  asum al m k = 0 \/ exists a, In a al /\ fst a = m /\ asum al m k = rval (snd a) k.
Proof.
  intros ND. destruct (in_dec Nat.eq_dec m (map fst al)) as [Hin|Hn].
  - right. apply in_map_iff in Hin as [a [E Ha]]. exists a. repeat split; auto.
    subst m. now apply asum_in.
  - left. now apply asum_notin.
Qed.

Lemma quot100_le a : 0 <= a -> 100 * Z.quot a 100 <= a.
Proof.
  intros Ha. pose proof (Z.quot_rem' a 100) as E. pose proof (Z.rem_nonneg a 100) as R. lia.
Qed.

Section AddAllocated.
  Variable l : ledger.
  Variable t : nat.
  Variable minors : list nat.
  Variable per : res.
  Variable p : Z.
  Variable al : list alloc.
  Hypothesis G : lgood l.
  Hypothesis N : no_overcommit l.
  Hypothesis Hper : res_nonneg per = true.
  Hypothesis ND : NoDup (map fst al).
  Hypothesis Hall : forall a, In a al -> ledger_okx true l minors per (fst a) /\ granted t (total l) per a.
  Hypothesis Hp : aset_mem p (aset l) = false.
  Let l' := ledger_add l p al.

  Lemma used_add_val m k : dval (used l') m k = dval (used l) m k + asum al m k.
  Proof.
    unfold l', ledger_add. rewrite Hp. cbn [used reset_free]. apply dval_fold_used_add.
  Qed.

  (* a slot whose granted amount is the requested amount *)
  Lemma add_slot_ok k :
    (forall a, In a al -> rval (snd a) k = rval per k) ->
    forall m T, rget (ores (dget (total l') m)) k = Some T -> dval (used l') m k <= T.
  Proof.
    intros Hk m T E. unfold l' in E. rewrite total_ledger_add in E. rewrite used_add_val.
    specialize (N m k T E).
    destruct (asum_cases al m k ND) as [-> | [a [Ha [Em ->]]]]; [lia|].
    rewrite (Hk a Ha). destruct (Hall a Ha) as [[_ [f [Ef [R _]]]] _]. specialize (R eq_refl). rewrite Em in *.
    unfold rval. destruct (rget per k) as [v|] eqn:Ev; cbn [oz]; [|lia].
    pose proof (R k T v E Ev) as Hv.
    pose proof (lgood_free_eq l G m k) as Fe. unfold dval at 1 in Fe. rewrite Ef in Fe. cbn [ores] in Fe.
    assert (dval (total l) m k = T) by (unfold dval, rval; now rewrite E). lia.
  Qed.

  Lemma gpu_coupled_add : t = 0%nat -> gpu_coupled l -> gpu_coupled l'.
  Proof.
    intros Et [H1 H2]. split.
    - intros m. unfold l'. rewrite total_ledger_add. apply H1.
    - intros e He m. unfold l'. rewrite (gpu_share_ok_total (total l)) by apply total_ledger_add.
      unfold l' in He. rewrite aset_ledger_add, Hp in He. destruct He as [<-|He]; [|now apply H2].
      cbn [snd]. unfold gpu_share_ok. destruct (r2 (ores (dget (total l) m))) as [T|] eqn:ET; auto.
      apply Z.leb_le. rewrite !dval_resources_of by auto.
      destruct (asum_cases al m 2 ND) as [E2 | [a [Ha [Em E2]]]].
      + rewrite E2. destruct (asum_cases al m 1 ND) as [-> | [a [Ha [Em ->]]]]; [lia|].
        (* impossible: the same device contributes to slot 1 but not to slot 2 only if its
           share is zero; in any case the inequality holds *)
        specialize (H1 m). unfold gpu_dev_ok in H1. rewrite ET in H1. apply andb_prop in H1 as [HT _].
        apply Z.leb_le in HT. destruct (Hall a Ha) as [_ [_ [G1 _]]].
        assert (0 <= rval (snd a) 1).
        { unfold rval. cbn [rget]. rewrite G1. unfold res_nonneg in Hper.
          rewrite !andb_true_iff in Hper. destruct Hper as [[_ P1] _]. now apply Z.leb_le in P1. }
        nia.
      + subst m. rewrite E2, (asum_in al a 1 ND Ha).
        destruct (Hall a Ha) as [_ [_ [G1 [_ Gz]]]]. specialize (Gz Et).
        unfold rval. cbn [rget]. rewrite Gz, G1. cbn [oz].
        specialize (H1 (fst a)). unfold gpu_dev_ok in H1. rewrite ET in H1. apply andb_prop in H1 as [HT _].
        apply Z.leb_le in HT.
        assert (ET' : rval (ores (dget (total l) (fst a))) 2 = T) by (unfold rval; cbn [rget]; now rewrite ET).
        rewrite ET'. apply quot100_le.
        unfold res_nonneg in Hper. rewrite !andb_true_iff in Hper. destruct Hper as [[_ P1] _].
        apply Z.leb_le in P1. now apply Z.mul_nonneg_nonneg.
  Qed.
End AddAllocated.
