(* C07 — the whole allocation of a pod ([allocate_r]: request parsing, per-type allocation through the
   view of the (possibly designated) ledger, GPU memory fill), its two instances [allocate] (no
   designated allocation) and [allocate_d] (designated allocation). *)
From Coq Require Import List ZArith Bool Arith Lia Permutation.
From Verif Require Import C07.Model C07.Spec C07.Proofs_Res C07.Proofs_Ledger C07.Proofs_View
  C07.Proofs_Alloc C07.Proofs_Allocate C07.Proofs_Desig.
Import ListNotations.
Open Scope Z_scope.

(* ------------------------------------------------------------------ the whole allocation *)
Definition granted (t : nat) (tot : devres) (per : res) (a : alloc) : Prop :=
  r0 (snd a) = r0 per /\ r1 (snd a) = r1 per /\
  (t <> 0%nat -> snd a = per) /\
  (t = 0%nat -> r2 (snd a) = Some (Z.quot (oz (r1 per) * rval (ores (dget tot (fst a))) 2) 100)).

Definition type_done (kind : Z) (ls : list ledger) (infos : list devinfo) (rq : rawreq) (t : nat)
           (al : list alloc) : Prop :=
  match treq_of rq t with
  | TReq per count sh =>
      length al = desired_count count /\ NoDup (map fst al) /\
      forall a, In a al ->
        ledger_okx (pfit_t kind t (total (ledger_of ls t)) per sh) (ledger_of ls t) (minors_of infos t) per (fst a)
        /\ granted t (total (ledger_of ls t)) per a
  | _ => al = []
  end.
(* the ledger the pod is allocated from, per type: the designation's view of the real one *)
Definition vl (ls : list ledger) (rqs : list devres) (t : nat) : ledger :=
  desig_avail (ledger_of ls t) (nth t rqs []).
(* in addition, for a designated pod: every granted device fits what the designation leaves of it *)
Definition type_done_d (kind : Z) (ls : list ledger) (infos : list devinfo) (rq : rawreq) (rqs : list devres)
           (t : nat) (al : list alloc) : Prop :=
  match treq_of rq t with
  | TReq per count sh =>
      forall a, In a al ->
        ledger_okx (pfit_t kind t (total (ledger_of ls t)) per sh) (vl ls rqs t) (minors_of infos t) per (fst a)
  | _ => True
  end.
Definition short_r (kind : Z) (ls : list ledger) (infos : list devinfo) (rqs : list devres) (t : nat)
           (rq : rawreq) : bool :=
  match treq_of rq t with
  | TReq per count sh =>
      Nat.ltb (eligible_count (vl ls rqs t) (minors_of infos t) per) (desired_count count)
      || (Nat.eqb t 0 && part_short kind (vl ls rqs t) (minors_of infos t) count sh)
  | _ => false
  end.

Definition pt (kind : Z) (ls : list ledger) (infos : list devinfo) (rq : rawreq) (rqs : list devres) (t : nat)
  : option (option (list alloc)) :=
  match treq_of rq t with
  | TReq per count sh => Some (alloc_type_r kind true ls infos t (nth t rqs []) per count sh)
  | _ => None
  end.
Definition al_of (o : option (option (list alloc))) : list alloc :=
  match o with Some (Some al) => al | _ => [] end.
Definition is_refused (o : option (option (list alloc))) : bool :=
  match o with Some None => true | _ => false end.

Definition rqs_nonneg (rqs : list devres) : Prop := forall t, dnonneg (nth t rqs []).
Lemma rqs_nonneg_nil : rqs_nonneg [].
Proof. intros t m k. rewrite nthnil, dval_nil. lia. Qed.

Lemma pt_spec kind ls infos rq rqs t :
  lgood (ledger_of ls t) -> rqs_nonneg rqs -> (most_of kind = true -> raw_nonneg rq = true) ->
  is_refused (pt kind ls infos rq rqs t) = false ->
  match treq_of rq t with
  | TReq per count sh =>
      let al := al_of (pt kind ls infos rq rqs t) in
      let b := pfit_t kind t (total (ledger_of ls t)) per sh in
      length al = desired_count count /\ NoDup (map fst al) /\
      forall a, In a al -> snd a = per /\
        ledger_okx b (ledger_of ls t) (minors_of infos t) per (fst a) /\
        ledger_okx b (vl ls rqs t) (minors_of infos t) per (fst a)
  | _ => al_of (pt kind ls infos rq rqs t) = []
  end.
Proof.
  intros G Hr NNm. unfold pt. destruct (treq_of rq t) as [| |per count sh] eqn:E; auto.
  destruct (alloc_type_r kind true ls infos t (nth t rqs []) per count sh) as [al|] eqn:A; [|discriminate].
  intros _. cbn [al_of]. apply treq_spec in E as [Hc [Hp _]].
  unfold alloc_type_r in A. unfold vl.
  exact (desig_core_sound kind infos t (ledger_of ls t) (nth t rqs []) G (Hr t) per count sh true Hc
           (fun Hm => Hp (NNm Hm)) al A).
Qed.

Lemma allocate_r_unfold kind ls infos rq rqs :
  allocate_r kind ls infos rq rqs =
  if is_invalid (treq_of rq 0) || (is_invalid (treq_of rq 1) || (is_invalid (treq_of rq 2) || false))
  then AFail c_unresolvable
  else if negb (is_req (treq_of rq 0) || (is_req (treq_of rq 1) || (is_req (treq_of rq 2) || false)))
  then ASkip
  else if no_device_t ls 0 rq || (no_device_t ls 1 rq || (no_device_t ls 2 rq || false))
  then AFail c_unresolvable
  else if part_unsupported kind (treq_of rq 0) then AFail c_unresolvable
  else if is_refused (pt kind ls infos rq rqs 0) || (is_refused (pt kind ls infos rq rqs 1) || (is_refused (pt kind ls infos rq rqs 2) || false))
  then AFail c_unsched
  else match fill_all (total (ledger_of ls 0)) (al_of (pt kind ls infos rq rqs 0)) with
       | None => AFail c_error
       | Some g => ADone [g; al_of (pt kind ls infos rq rqs 1); al_of (pt kind ls infos rq rqs 2)]
       end.
Proof. reflexivity. Qed.

Lemma allocate_r_done kind ls infos rq rqs da :
  (forall t, lgood (ledger_of ls t)) -> rqs_nonneg rqs -> (most_of kind = true -> raw_nonneg rq = true) ->
  allocate_r kind ls infos rq rqs = ADone da ->
  forall t, (t < 3)%nat ->
    type_done kind ls infos rq t (allocs_of da t) /\ type_done_d kind ls infos rq rqs t (allocs_of da t).
Proof.
  intros G Hr NNm. rewrite allocate_r_unfold.
  destruct (is_invalid (treq_of rq 0) || _); [discriminate|].
  destruct (negb _); [discriminate|].
  destruct (no_device_t ls 0 rq || _); [discriminate|].
  destruct (part_unsupported kind (treq_of rq 0)); [discriminate|].
  destruct (is_refused (pt kind ls infos rq rqs 0) || _) eqn:R; [discriminate|].
  apply orb_false_iff in R as [R0 R]. apply orb_false_iff in R as [R1 R].
  apply orb_false_iff in R as [R2 _].
  destruct (fill_all (total (ledger_of ls 0)) (al_of (pt kind ls infos rq rqs 0))) as [g|] eqn:F; [|discriminate].
  intros H. injection H as <-. intros t Ht.
  pose proof (pt_spec kind ls infos rq rqs 0 (G 0%nat) Hr NNm R0) as P0.
  pose proof (pt_spec kind ls infos rq rqs 1 (G 1%nat) Hr NNm R1) as P1.
  pose proof (pt_spec kind ls infos rq rqs 2 (G 2%nat) Hr NNm R2) as P2.
  unfold type_done, type_done_d. destruct t as [|[|[|t]]]; [| | |lia]; cbn [allocs_of nth].
  - apply fill_all_spec in F. destruct (treq_of rq 0) as [| |per count sh] eqn:E.
    + rewrite P0 in F. inversion F. auto.
    + rewrite P0 in F. inversion F. auto.
    + cbn zeta in P0. destruct P0 as [Len [ND Hall]].
      pose proof (Forall2_map_fst _ _ _ F) as Mf. apply treq_spec in E as [_ [_ [E2 _]]].
      split; [split; [|split]|].
      * rewrite <- Len. eapply Forall2_len; eauto.
      * now rewrite Mf.
      * intros a' Ha'. destruct (Forall2_In_r _ _ _ _ F Ha') as [a [Ha [Ef [F0 [F1 [F2 _]]]]]].
        destruct (Hall a Ha) as [Es [Hl _]]. rewrite Ef. split; auto.
        unfold granted. rewrite F0, F1, Es. repeat split; auto; try congruence.
        intros _. rewrite Ef, F2, Es; auto. now rewrite Es.
      * intros a' Ha'. destruct (Forall2_In_r _ _ _ _ F Ha') as [a [Ha [Ef _]]].
        destruct (Hall a Ha) as [_ [_ Hd]]. now rewrite Ef.
  - destruct (treq_of rq 1) as [| |per count sh]; auto. cbn zeta in P1.
    destruct P1 as [Len [ND Hall]]. split; [split; auto; split; auto|].
    + intros a Ha. destruct (Hall a Ha) as [Es [Hl _]]. split; auto.
      unfold granted. rewrite Es. repeat split; auto. intros; discriminate.
    + intros a Ha. now destruct (Hall a Ha) as [_ [_ Hd]].
  - destruct (treq_of rq 2) as [| |per count sh]; auto. cbn zeta in P2.
    destruct P2 as [Len [ND Hall]]. split; [split; auto; split; auto|].
    + intros a Ha. destruct (Hall a Ha) as [Es [Hl _]]. split; auto.
      unfold granted. rewrite Es. repeat split; auto. intros; discriminate.
    + intros a Ha. now destruct (Hall a Ha) as [_ [_ Hd]].
Qed.

Lemma allocate_r_fail kind ls infos rq rqs code :
  (forall t, lgood (ledger_of ls t)) -> rqs_nonneg rqs -> (most_of kind = true -> raw_nonneg rq = true) ->
  allocate_r kind ls infos rq rqs = AFail code ->
  (code = c_unresolvable /\
   (existsb (fun t => is_invalid (treq_of rq t)) type_ids
    || existsb (fun t => no_device_t ls t rq) type_ids
    || part_unsupported kind (treq_of rq 0)) = true)
  \/ (code = c_unsched /\ existsb (fun t => short_r kind ls infos rqs t rq) type_ids = true).
Proof.
  intros G Hr NNm. rewrite allocate_r_unfold. cbn [existsb type_ids].
  destruct (is_invalid (treq_of rq 0) || _) eqn:I.
  { intros H. injection H as <-. left. split; auto. }
  destruct (negb _); [discriminate|].
  destruct (no_device_t ls 0 rq || _) eqn:N.
  { intros H. injection H as <-. left. split; auto. }
  destruct (part_unsupported kind (treq_of rq 0)) eqn:Pu.
  { intros H. injection H as <-. left. split; auto. }
  destruct (is_refused (pt kind ls infos rq rqs 0) || _) eqn:R.
  { intros H. injection H as <-. right. split; auto.
    assert (P : forall t, is_refused (pt kind ls infos rq rqs t) = true -> short_r kind ls infos rqs t rq = true).
    { intros t. unfold pt, short_r. destruct (treq_of rq t) as [| |per count sh] eqn:E; try discriminate.
      destruct (alloc_type_r kind true ls infos t (nth t rqs []) per count sh) eqn:A; [discriminate|]. intros _.
      apply treq_spec in E as [Hc _]. unfold alloc_type_r in A. unfold vl.
      destruct (desig_core_complete kind infos t (ledger_of ls t) (nth t rqs []) (G t) (Hr t)
                  per count sh true Hc A) as [Hlt|[-> Hp]].
      - apply orb_true_iff. left. now apply Nat.ltb_lt.
      - apply orb_true_iff. right. now rewrite Hp. }
    apply orb_true_iff in R as [R|R]; [rewrite (P _ R); reflexivity|].
    apply orb_true_iff in R as [R|R]; [rewrite (P _ R); apply orb_true_iff; right; reflexivity|].
    apply orb_true_iff in R as [R|R]; [|discriminate].
    rewrite (P _ R). rewrite !orb_true_r. reflexivity. }
  apply orb_false_iff in R as [R0 _].
  destruct (fill_all (total (ledger_of ls 0)) (al_of (pt kind ls infos rq rqs 0))) eqn:F; [discriminate|].
  exfalso. revert F. apply fill_all_total. intros a Ha.
  pose proof (pt_spec kind ls infos rq rqs 0 (G 0%nat) Hr NNm R0) as P0.
  destruct (treq_of rq 0) as [| |per count sh]; try (rewrite P0 in Ha; destruct Ha).
  cbn zeta in P0. destruct P0 as [_ [_ Hall]]. destruct (Hall a Ha) as [_ [[_ [f [_ [_ Z]]]] _]]. exact Z.
Qed.

Lemma allocate_r_skip kind ls infos rq rqs :
  allocate_r kind ls infos rq rqs = ASkip ->
  existsb (fun t => is_req (treq_of rq t) || is_invalid (treq_of rq t)) type_ids = false.
Proof.
  rewrite allocate_r_unfold. cbn [existsb type_ids].
  destruct (is_invalid (treq_of rq 0) || _) eqn:I; [discriminate|].
  destruct (negb _) eqn:Q; [|repeat match goal with |- context [if ?b then _ else _] => destruct b end;
                              try discriminate; destruct (fill_all _ _); discriminate].
  intros _. apply negb_true_iff in Q.
  apply orb_false_iff in I as [I0 I]. apply orb_false_iff in I as [I1 I]. apply orb_false_iff in I as [I2 _].
  apply orb_false_iff in Q as [Q0 Q]. apply orb_false_iff in Q as [Q1 Q]. apply orb_false_iff in Q as [Q2 _].
  now rewrite I0, I1, I2, Q0, Q1, Q2.
Qed.

(* the code of a refusal is one of the three failure codes (never the success code) *)
Lemma allocate_r_fail_codes kind ls infos rq rqs code :
  allocate_r kind ls infos rq rqs = AFail code -> code = c_unresolvable \/ (code = c_unsched \/ code = c_error).
Proof.
  rewrite allocate_r_unfold.
  repeat match goal with |- context [if ?b then _ else _] => destruct b end;
    try discriminate; try (intros H; injection H as <-; auto).
  destruct (fill_all _ _); [discriminate|]. intros H; injection H as <-; auto.
Qed.

(* ------------------------------------------------------------------ no designated allocation *)
Lemma vl_nil ls t : vl ls [] t = ledger_of ls t.
Proof. unfold vl. now rewrite nthnil. Qed.
Lemma short_r_nil kind ls infos t rq : short_r kind ls infos [] t rq = alloc_short_t kind ls infos t rq.
Proof. unfold short_r, alloc_short_t. now rewrite vl_nil. Qed.

Lemma allocate_done kind ls infos rq da :
  (forall t, lgood (ledger_of ls t)) -> (most_of kind = true -> raw_nonneg rq = true) -> allocate kind ls infos rq = ADone da ->
  forall t, (t < 3)%nat -> type_done kind ls infos rq t (allocs_of da t).
Proof.
  intros G NNm A t Ht. exact (proj1 (allocate_r_done kind ls infos rq [] da G rqs_nonneg_nil NNm A t Ht)).
Qed.
Lemma allocate_fail kind ls infos rq code :
  (forall t, lgood (ledger_of ls t)) -> (most_of kind = true -> raw_nonneg rq = true) -> allocate kind ls infos rq = AFail code ->
  (code = c_unresolvable /\
   (existsb (fun t => is_invalid (treq_of rq t)) type_ids
    || existsb (fun t => no_device_t ls t rq) type_ids
    || part_unsupported kind (treq_of rq 0)) = true)
  \/ (code = c_unsched /\ existsb (fun t => alloc_short_t kind ls infos t rq) type_ids = true).
Proof.
  intros G NNm A. destruct (allocate_r_fail kind ls infos rq [] code G rqs_nonneg_nil NNm A) as [H|[H1 H2]]; [now left|].
  right. split; [exact H1|]. cbn [existsb type_ids] in *. now rewrite !short_r_nil in H2.
Qed.
Lemma allocate_skip kind ls infos rq :
  allocate kind ls infos rq = ASkip ->
  existsb (fun t => is_req (treq_of rq t) || is_invalid (treq_of rq t)) type_ids = false.
Proof. apply allocate_r_skip. Qed.
Lemma allocate_fail_codes kind ls infos rq code :
  allocate kind ls infos rq = AFail code -> code = c_unresolvable \/ (code = c_unsched \/ code = c_error).
Proof. apply allocate_r_fail_codes. Qed.

(* ------------------------------------------------------------------ designated allocation *)
Lemma nth_required dg t : (t < 3)%nat -> nth t (map (required_of dg) type_ids) [] = required_of dg t.
Proof. intros Ht. destruct t as [|[|[|t]]]; try lia; reflexivity. Qed.
Lemma vl_required ls dg t : (t < 3)%nat -> vl ls (map (required_of dg) type_ids) t = avail_of ls dg t.
Proof. intros Ht. unfold vl, avail_of. now rewrite nth_required. Qed.

Lemma required_nonneg dg : dallocs_wf dg = true -> rqs_nonneg (map (required_of dg) type_ids).
Proof.
  intros W t. destruct (Nat.lt_ge_cases t 3) as [Ht|Ht].
  - rewrite nth_required by auto. unfold required_of. apply dnonneg_resources_of.
    unfold dallocs_wf in W. rewrite forallb_forall in W. apply W.
    destruct t as [|[|[|t]]]; cbn; auto; lia.
  - rewrite nth_overflow by (cbn; lia). intros m k. rewrite dval_nil. lia.
Qed.

(* fillGPUTotalMem keeps an annotation well-formed *)
Lemma allocs_of_cons_tl g (dg : dallocs) t : allocs_of (g :: tl dg) (S t) = allocs_of dg (S t).
Proof. unfold allocs_of. destruct dg; cbn; auto. now destruct t. Qed.
Lemma fill_all_wf tot al g :
  dnonneg tot -> allocs_wf al = true -> fill_all tot al = Some g -> allocs_wf g = true.
Proof.
  intros Ht W F. apply fill_all_spec in F. unfold allocs_wf in *. apply andb_prop in W as [ND NN].
  apply andb_true_intro. split.
  - now rewrite (Forall2_map_fst _ _ _ F).
  - apply forallb_forall. intros a' Ha'.
    destruct (Forall2_In_r _ _ _ _ F Ha') as [a [Ha [Ef [F0 [F1 [F2 F3]]]]]].
    rewrite forallb_forall in NN. specialize (NN a Ha). unfold res_nonneg in *.
    rewrite !andb_true_iff in NN. destruct NN as [[N0 N1] N2]. rewrite F0, F1, N0, N1. cbn [andb].
    destruct (r2 (snd a)) as [v|] eqn:E2.
    + now rewrite (F3 v eq_refl).
    + rewrite (F2 eq_refl). cbn [oz]. apply Z.leb_le. apply Z.leb_le in N1.
      apply quot_nonneg; [|lia]. apply Z.mul_nonneg_nonneg; auto. apply (Ht (fst a) 2%nat).
Qed.
Lemma desig_fill_wf gkey tot dg dg' :
  dnonneg tot -> dallocs_wf dg = true -> desig_fill gkey tot dg = Some dg' -> dallocs_wf dg' = true.
Proof.
  intros Ht W. unfold desig_fill. destruct gkey; [|intros H; now injection H as <-].
  destruct (fill_all tot (allocs_of dg 0)) as [g|] eqn:F; [|discriminate]. intros H. injection H as <-.
  unfold dallocs_wf in *. cbn [forallb type_ids] in *. rewrite !andb_true_iff in *.
  destruct W as [W0 [W1 [W2 _]]]. rewrite !allocs_of_cons_tl. repeat split; auto.
  change (allocs_of (g :: tl dg) 0) with g. exact (fill_all_wf tot (allocs_of dg 0) g Ht W0 F).
Qed.

Lemma allocate_d_unfold kind gkey ls infos rq dg :
  allocate_d kind gkey ls infos rq dg =
  if is_invalid (treq_of rq 0) || (is_invalid (treq_of rq 1) || (is_invalid (treq_of rq 2) || false))
  then AFail c_unresolvable
  else if negb (is_req (treq_of rq 0) || (is_req (treq_of rq 1) || (is_req (treq_of rq 2) || false)))
  then ASkip
  else match desig_fill gkey (total (ledger_of ls 0)) dg with
       | None => AFail c_error
       | Some dg' => allocate_r kind ls infos rq (map (required_of dg') type_ids)
       end.
Proof. reflexivity. Qed.

(* a designated pod is granted devices: everything an ordinary grant satisfies, and every granted
   device is a designated one that the request fits within the designated amount *)
Lemma allocate_d_done kind gkey ls infos rq dg da :
  (forall t, lgood (ledger_of ls t)) -> dallocs_wf dg = true -> (most_of kind = true -> raw_nonneg rq = true) ->
  allocate_d kind gkey ls infos rq dg = ADone da ->
  exists dg', desig_fill gkey (total (ledger_of ls 0)) dg = Some dg' /\ dallocs_wf dg' = true /\
    forall t, (t < 3)%nat ->
      type_done kind ls infos rq t (allocs_of da t) /\
      type_done_d kind ls infos rq (map (required_of dg') type_ids) t (allocs_of da t).
Proof.
  intros G W NNm. rewrite allocate_d_unfold.
  destruct (is_invalid (treq_of rq 0) || _); [discriminate|].
  destruct (negb _); [discriminate|].
  destruct (desig_fill gkey (total (ledger_of ls 0)) dg) as [dg'|] eqn:F; [|discriminate].
  intros A. exists dg'. split; auto.
  assert (W' : dallocs_wf dg' = true) by (eapply desig_fill_wf; eauto; apply (lg_tot _ (G 0%nat))).
  split; auto. apply allocate_r_done; auto. now apply required_nonneg.
Qed.

Lemma allocate_d_fail kind gkey ls infos rq dg code :
  (forall t, lgood (ledger_of ls t)) -> dallocs_wf dg = true -> (most_of kind = true -> raw_nonneg rq = true) ->
  allocate_d kind gkey ls infos rq dg = AFail code ->
  (code = c_unresolvable /\
   (existsb (fun t => is_invalid (treq_of rq t)) type_ids
    || existsb (fun t => no_device_t ls t rq) type_ids
    || part_unsupported kind (treq_of rq 0)) = true)
  \/ (code = c_error /\ desig_fill gkey (total (ledger_of ls 0)) dg = None /\
      existsb (fun t => is_invalid (treq_of rq t)) type_ids = false /\
      existsb (fun t => is_req (treq_of rq t)) type_ids = true)
  \/ (code = c_unsched /\ exists dg', desig_fill gkey (total (ledger_of ls 0)) dg = Some dg' /\
        existsb (fun t => desig_short_t kind ls infos dg' t rq) type_ids = true).
Proof.
  intros G W NNm. rewrite allocate_d_unfold. cbn [existsb type_ids].
  destruct (is_invalid (treq_of rq 0) || _) eqn:I.
  { intros H. injection H as <-. left. split; auto. }
  destruct (negb _) eqn:Q; [discriminate|]. apply negb_false_iff in Q.
  destruct (desig_fill gkey (total (ledger_of ls 0)) dg) as [dg'|] eqn:F.
  2:{ intros H. injection H as <-. right. left. repeat split; auto. }
  intros A.
  assert (W' : dallocs_wf dg' = true) by (eapply desig_fill_wf; eauto; apply (lg_tot _ (G 0%nat))).
  destruct (allocate_r_fail kind ls infos rq (map (required_of dg') type_ids) code G (required_nonneg dg' W') NNm A)
    as [[H1 H2]|[H1 H2]].
  { left. split; auto. cbn [existsb type_ids] in H2. now rewrite I in H2. }
  right. right. split; [exact H1|]. exists dg'. split; [reflexivity|].
  cbn [existsb type_ids] in H2.
  assert (E : forall t, (t < 3)%nat ->
     short_r kind ls infos (map (required_of dg') type_ids) t rq = desig_short_t kind ls infos dg' t rq).
  { intros t Ht. unfold short_r, desig_short_t. now rewrite vl_required. }
  now rewrite !E in H2 by lia.
Qed.

Lemma allocate_d_skip kind gkey ls infos rq dg :
  allocate_d kind gkey ls infos rq dg = ASkip ->
  existsb (fun t => is_req (treq_of rq t) || is_invalid (treq_of rq t)) type_ids = false.
Proof.
  rewrite allocate_d_unfold. cbn [existsb type_ids].
  destruct (is_invalid (treq_of rq 0) || _) eqn:I; [discriminate|].
  destruct (negb _) eqn:Q.
  - intros _. apply negb_true_iff in Q.
    apply orb_false_iff in I as [I0 I]. apply orb_false_iff in I as [I1 I]. apply orb_false_iff in I as [I2 _].
    apply orb_false_iff in Q as [Q0 Q]. apply orb_false_iff in Q as [Q1 Q]. apply orb_false_iff in Q as [Q2 _].
    now rewrite I0, I1, I2, Q0, Q1, Q2.
  - destruct (desig_fill _ _ _); [|discriminate]. intros A. apply allocate_r_skip in A.
    apply negb_false_iff in Q. cbn [existsb type_ids] in A.
    apply orb_true_iff in Q as [Q|Q]; [rewrite Q in A; discriminate|].
    apply orb_true_iff in Q as [Q|Q]; [rewrite Q in A; rewrite ?orb_true_r in A; discriminate|].
    apply orb_true_iff in Q as [Q|Q]; [|discriminate].
    rewrite Q in A. rewrite ?orb_true_r in A. discriminate.
Qed.
Lemma allocate_d_fail_codes kind gkey ls infos rq dg code :
  allocate_d kind gkey ls infos rq dg = AFail code -> code = c_unresolvable \/ (code = c_unsched \/ code = c_error).
Proof.
  rewrite allocate_d_unfold.
  destruct (is_invalid (treq_of rq 0) || (is_invalid (treq_of rq 1) || (is_invalid (treq_of rq 2) || false))).
  { intros H; injection H as <-; auto. }
  destruct (negb (is_req (treq_of rq 0) || (is_req (treq_of rq 1) || (is_req (treq_of rq 2) || false)))).
  { discriminate. }
  destruct (desig_fill gkey (total (ledger_of ls 0)) dg); [apply allocate_r_fail_codes|].
  intros H; injection H as <-; auto.
Qed.
