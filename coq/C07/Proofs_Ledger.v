(* C07 — one device type's ledger: free is a function of total and used; used is the sum of
   the allocate set, through additions, removals and inventory refreshes. *)
From Coq Require Import List ZArith Bool Arith Lia.
From Verif Require Import C07.Model C07.Spec C07.Proofs_Res.
Import ListNotations.
Open Scope Z_scope.

(* ------------------------------------------------------------------ free is determined *)
Definition free_struct (l : ledger) : Prop :=
  forall m, dget (free l) m = reset_free_f (dget (total l) m) (dget (used l) m).
Definition dnonneg (d : devres) : Prop := forall m k, 0 <= dval d m k.

Lemma reset_free_total l m :
  dget (total (reset_free l)) m = reset_total_f (dget (total l) m) (dget (used l) m).
Proof. unfold reset_free, dget. cbn [total]. now rewrite dget_dzip. Qed.
Lemma reset_free_free l m :
  dget (free (reset_free l)) m = reset_free_f (dget (total l) m) (dget (used l) m).
Proof. unfold reset_free, dget. cbn [free]. now rewrite dget_dzip. Qed.
Lemma reset_free_used l : used (reset_free l) = used l.
Proof. reflexivity. Qed.
Lemma reset_free_aset l : aset (reset_free l) = aset l.
Proof. reflexivity. Qed.

Lemma reset_free_fs l : free_struct (reset_free l).
Proof.
  intros m. rewrite reset_free_free, reset_free_total, reset_free_used.
  destruct (dget (used l) m); cbn; auto.
Qed.

Lemma dval_reset_total l m k : dval (total (reset_free l)) m k = dval (total l) m k.
Proof.
  unfold dval. rewrite reset_free_total. destruct (dget (used l) m); cbn; auto.
Qed.
(* the exposed keys of a device do not change either *)
Lemma rget_reset_total l m k :
  rget (ores (dget (total (reset_free l)) m)) k = rget (ores (dget (total l) m)) k.
Proof. rewrite reset_free_total. destruct (dget (used l) m); cbn; auto. Qed.

Lemma free_struct_eq l : free_struct l -> dnonneg (total l) -> dnonneg (used l) -> free_eq l.
Proof.
  intros FS Ht Hu m k. unfold dval at 1. rewrite FS.
  destruct (dget (used l) m) as [u|] eqn:Eu; cbn [reset_free_f ores].
  - rewrite rval_rsubnn.
    + unfold dval. now rewrite Eu.
    + specialize (Hu m k). unfold dval in Hu. now rewrite Eu in Hu.
  - assert (Hz : dval (used l) m k = 0) by (unfold dval; rewrite Eu; apply rval_rempty).
    rewrite Hz. specialize (Ht m k). unfold dval in Ht |- *. lia.
Qed.

(* ------------------------------------------------------------------ sums over allocation lists *)
Definition asum (al : list alloc) (m k : nat) : Z :=
  sumZ (map (fun a => if Nat.eqb (fst a) m then rval (snd a) k else 0) al).

Lemma asum_nil m k : asum [] m k = 0.
Proof. reflexivity. Qed.
Lemma asum_cons a al m k :
  asum (a :: al) m k = (if Nat.eqb (fst a) m then rval (snd a) k else 0) + asum al m k.
Proof. reflexivity. Qed.
Lemma asum_notin al m k : ~ In m (map fst al) -> asum al m k = 0.
Proof.
  induction al as [|a al IH]; intros H; auto.
  rewrite asum_cons. cbn in H. destruct (Nat.eqb (fst a) m) eqn:E.
  - apply Nat.eqb_eq in E. tauto.
  - rewrite IH; tauto.
Qed.
Lemma asum_nonneg al m k : forallb (fun a => res_nonneg (snd a)) al = true -> 0 <= asum al m k.
Proof.
  induction al as [|a al IH]; cbn [forallb]; intros H; [cbn; lia|].
  apply andb_prop in H as [Ha H]. rewrite asum_cons. specialize (IH H).
  destruct (Nat.eqb (fst a) m); [|lia].
  assert (0 <= rval (snd a) k); [|lia].
  unfold res_nonneg in Ha. apply andb_prop in Ha as [Ha H2]. apply andb_prop in Ha as [H0 H1].
  apply Z.leb_le in H0, H1, H2. unfold rval. destruct k as [|[|[|k]]]; cbn; auto; lia.
Qed.

Lemma res_nonneg_rval r k : res_nonneg r = true -> 0 <= rval r k.
Proof.
  intros Ha. unfold res_nonneg in Ha. apply andb_prop in Ha as [Ha H2]. apply andb_prop in Ha as [H0 H1].
  apply Z.leb_le in H0, H1, H2. unfold rval. destruct k as [|[|[|k]]]; cbn; auto; lia.
Qed.

Lemma memn_In m l : memn m l = true <-> In m l.
Proof.
  unfold memn. rewrite existsb_exists. split.
  - intros [x [Hx E]]. apply Nat.eqb_eq in E. now subst.
  - intros H. exists m. split; auto. apply Nat.eqb_refl.
Qed.
Lemma nodupn_NoDup l : nodupn l = true <-> NoDup l.
Proof.
  induction l as [|x l IH]; cbn.
  - split; auto. constructor.
  - rewrite andb_true_iff, negb_true_iff, IH. split.
    + intros [H1 H2]. constructor; auto. intros Hin. apply memn_In in Hin. congruence.
    + intros H. inversion H; subst. split; auto.
      destruct (memn x l) eqn:E; auto. apply memn_In in E. tauto.
Qed.

(* updateDeviceUsed, add *)
Lemma dval_used_add u a m k :
  dval (used_add u a) m k = dval u m k + (if Nat.eqb (fst a) m then rval (snd a) k else 0).
Proof.
  unfold used_add, dval. rewrite dget_dset. destruct (Nat.eqb (fst a) m) eqn:E.
  - apply Nat.eqb_eq in E. subst. cbn [ores]. apply rval_radd.
  - lia.
Qed.
Lemma dval_fold_used_add al u m k :
  dval (fold_left used_add al u) m k = dval u m k + asum al m k.
Proof.
  revert u. induction al as [|a al IH]; intros u; cbn [fold_left].
  - rewrite asum_nil. lia.
  - rewrite IH, dval_used_add, asum_cons. lia.
Qed.

(* updateDeviceUsed, remove *)
Lemma dval_used_sub u a m k : 0 <= rval (snd a) k ->
  dval (used_sub u a) m k =
  if Nat.eqb (fst a) m then Z.max 0 (dval u m k - rval (snd a) k) else dval u m k.
Proof.
  intros Hn. unfold used_sub, dval. rewrite dget_dset. destruct (Nat.eqb (fst a) m) eqn:E; auto.
  apply Nat.eqb_eq in E. subst.
  destruct (ris_zero (rsubnn (ores (dget u (fst a))) (snd a))) eqn:Z.
  - cbn [ores]. rewrite rval_rempty. rewrite ris_zero_spec in Z. specialize (Z k).
    rewrite rval_rsubnn in Z by auto. lia.
  - cbn [ores]. now apply rval_rsubnn.
Qed.
Lemma dval_fold_used_sub al u m k :
  NoDup (map fst al) -> forallb (fun a => res_nonneg (snd a)) al = true ->
  dval (fold_left used_sub al u) m k =
  if memn m (map fst al) then Z.max 0 (dval u m k - asum al m k) else dval u m k.
Proof.
  revert u. induction al as [|a al IH]; intros u ND NN; cbn [fold_left map].
  - reflexivity.
  - inversion ND as [|x l Hnot ND']; subst. cbn [forallb] in NN. apply andb_prop in NN as [Na NN].
    rewrite IH by auto. rewrite dval_used_sub by now apply res_nonneg_rval.
    rewrite asum_cons. cbn [memn existsb]. fold (memn m (map fst al)).
    rewrite (Nat.eqb_sym m (fst a)).
    destruct (Nat.eqb (fst a) m) eqn:E; cbn [orb].
    + apply Nat.eqb_eq in E. subst m.
      destruct (memn (fst a) (map fst al)) eqn:M; [apply memn_In in M; tauto|].
      rewrite asum_notin by auto. lia.
    + destruct (memn m (map fst al)); auto.
Qed.

(* updateAllocateSet: the recorded resources of an allocation list *)
Lemma dval_fold_dset al d m k : NoDup (map fst al) ->
  dval (fold_left (fun d a => dset d (fst a) (Some (snd a))) al d) m k =
  if memn m (map fst al) then asum al m k else dval d m k.
Proof.
  revert d. induction al as [|a al IH]; intros d ND; cbn [fold_left map].
  - reflexivity.
  - inversion ND as [|x l Hnot ND']; subst. rewrite IH by auto. rewrite asum_cons.
    cbn [memn existsb]. fold (memn m (map fst al)).
    rewrite (Nat.eqb_sym m (fst a)).
    destruct (Nat.eqb (fst a) m) eqn:E; cbn [orb].
    + apply Nat.eqb_eq in E. subst m.
      destruct (memn (fst a) (map fst al)) eqn:M; [apply memn_In in M; tauto|].
      rewrite asum_notin by auto. unfold dval. rewrite dget_dset_same. cbn [ores]. lia.
    + destruct (memn m (map fst al)) eqn:M; auto.
      unfold dval. rewrite dget_dset_other; auto. now apply Nat.eqb_neq in E.
Qed.
Lemma dval_resources_of al m k : NoDup (map fst al) -> dval (resources_of al) m k = asum al m k.
Proof.
  intros ND. unfold resources_of. rewrite dval_fold_dset by auto.
  destruct (memn m (map fst al)) eqn:M; auto.
  rewrite dval_nil, asum_notin; auto. intros H. apply memn_In in H. congruence.
Qed.
(* the minors recorded are the minors allocated *)
Lemma dget_fold_dset_notin al d m : ~ In m (map fst al) ->
  dget (fold_left (fun d a => dset d (fst a) (Some (snd a))) al d) m = dget d m.
Proof.
  revert d. induction al as [|a al IH]; intros d H; cbn [fold_left]; auto.
  cbn in H. rewrite IH by tauto. apply dget_dset_other. tauto.
Qed.

(* ------------------------------------------------------------------ the allocate set *)
Lemma aset_sum_cons p d s m k : aset_sum ((p, d) :: s) m k = dval d m k + aset_sum s m k.
Proof. reflexivity. Qed.
Lemma aset_mem_lookup p (s : list (Z * devres)) : aset_mem p s = true <-> lookup p s <> None.
Proof.
  induction s as [|[q d] s IH]; cbn.
  - split; [discriminate|congruence].
  - destruct (q =? p); cbn; [split; [discriminate|auto]|auto].
Qed.
Lemma aset_mem_false_lookup p (s : list (Z * devres)) : aset_mem p s = false <-> lookup p s = None.
Proof.
  destruct (aset_mem p s) eqn:E.
  - apply aset_mem_lookup in E. split; [discriminate|]. intros; congruence.
  - split; auto. intros _. destruct (lookup p s) eqn:L; auto.
    assert (aset_mem p s = true) by (apply aset_mem_lookup; congruence). congruence.
Qed.
Lemma aset_mem_In p (s : list (Z * devres)) : aset_mem p s = true <-> In p (map fst s).
Proof.
  induction s as [|[q d] s IH]; cbn.
  - split; [discriminate|tauto].
  - rewrite orb_true_iff, IH, Z.eqb_eq. tauto.
Qed.
Lemma lookup_In {A} p (s : list (Z * A)) d : lookup p s = Some d -> In (p, d) s.
Proof.
  induction s as [|[q e] s IH]; cbn; [discriminate|].
  destruct (q =? p) eqn:E.
  - intros H. injection H as <-. apply Z.eqb_eq in E. subst. now left.
  - intros H. right. auto.
Qed.
Lemma In_lookup {A} p (s : list (Z * A)) d : NoDup (map fst s) -> In (p, d) s -> lookup p s = Some d.
Proof.
  induction s as [|[q e] s IH]; cbn; [tauto|].
  intros ND [H|H].
  - injection H as -> ->. now rewrite Z.eqb_refl.
  - inversion ND; subst. destruct (q =? p) eqn:E; auto.
    apply Z.eqb_eq in E. subst. exfalso. apply H2. apply in_map_iff. now exists (p, d).
Qed.

Lemma aset_remove_mem p q (s : list (Z * devres)) :
  aset_mem q (aset_remove p s) = if q =? p then false else aset_mem q s.
Proof.
  unfold aset_remove. induction s as [|[r d] s IH]; cbn.
  - now destruct (q =? p).
  - destruct (r =? p) eqn:E; cbn.
    + rewrite IH. apply Z.eqb_eq in E. subst r. destruct (q =? p) eqn:E2; auto.
      rewrite Z.eqb_sym, E2. reflexivity.
    + rewrite IH. destruct (q =? p) eqn:E2; auto.
      apply Z.eqb_eq in E2. subst q. now rewrite E.
Qed.
Lemma aset_remove_lookup p q (s : list (Z * devres)) :
  lookup q (aset_remove p s) = if q =? p then None else lookup q s.
Proof.
  unfold aset_remove. induction s as [|[r d] s IH]; cbn.
  - now destruct (q =? p).
  - destruct (r =? p) eqn:E; cbn.
    + rewrite IH. apply Z.eqb_eq in E. subst r. destruct (q =? p) eqn:E2; auto.
      rewrite Z.eqb_sym, E2. reflexivity.
    + rewrite IH. destruct (q =? p) eqn:E2; auto.
      apply Z.eqb_eq in E2. subst q. now rewrite E.
Qed.
Lemma aset_remove_nodup p (s : list (Z * devres)) :
  NoDup (map fst s) -> NoDup (map fst (aset_remove p s)).
Proof. intros. unfold aset_remove. now apply NoDup_map_filter. Qed.
Lemma filter_all_true {A} (f : A -> bool) l : (forall x, In x l -> f x = true) -> filter f l = l.
Proof.
  induction l as [|x l IH]; cbn; intros H; auto.
  rewrite (H x) by auto. f_equal. apply IH. intros; apply H; auto.
Qed.
Lemma aset_remove_sum p (s : list (Z * devres)) d m k :
  NoDup (map fst s) -> lookup p s = Some d ->
  aset_sum (aset_remove p s) m k = aset_sum s m k - dval d m k.
Proof.
  unfold aset_remove, aset_sum. induction s as [|[q e] s IH]; [discriminate|].
  cbn [filter map lookup fst snd]. intros ND L. inversion ND as [|x l Hnot ND']; subst.
  destruct (q =? p) eqn:E; cbn [negb map fst snd]; rewrite ?sumZ_cons.
  - injection L as ->. apply Z.eqb_eq in E. subst q.
    assert (F : filter (fun e => negb (fst e =? p)) s = s).
    { apply filter_all_true. intros [r f] Hin. cbn. apply negb_true_iff. apply Z.eqb_neq.
      intros ->. apply Hnot. apply in_map_iff. now exists (p, f). }
    rewrite F. lia.
  - rewrite IH by auto. lia.
Qed.

(* ------------------------------------------------------------------ a ledger in good order *)
Record lgood (l : ledger) : Prop := mkLgood {
  lg_fs : free_struct l;
  lg_tot : dnonneg (total l);
  lg_aset : forall e, In e (aset l) -> dnonneg (snd e);
  lg_sum : used_eq_sum l;
  lg_nodup : NoDup (map fst (aset l))
}.

Lemma aset_sum_nonneg (s : list (Z * devres)) m k :
  (forall e, In e s -> dnonneg (snd e)) -> 0 <= aset_sum s m k.
Proof.
  intros H. unfold aset_sum. apply sumZ_map_nonneg. intros e He. now apply H.
Qed.
Lemma lgood_used_nonneg l : lgood l -> dnonneg (used l).
Proof. intros G m k. rewrite (lg_sum _ G). apply aset_sum_nonneg. apply (lg_aset _ G). Qed.
Lemma lgood_free_eq l : lgood l -> free_eq l.
Proof.
  intros G. apply free_struct_eq; [apply G|apply G|now apply lgood_used_nonneg].
Qed.

Lemma dnonneg_resources_of al :
  allocs_wf al = true -> dnonneg (resources_of al).
Proof.
  intros W m k. unfold allocs_wf in W. apply andb_prop in W as [ND NN].
  apply nodupn_NoDup in ND. rewrite dval_resources_of by auto. now apply asum_nonneg.
Qed.

Lemma fs_dzip tot usd s :
  free_struct (mkLedger (dzip reset_total_f tot usd) (dzip reset_free_f tot usd) usd s).
Proof.
  intros m. cbn [total free used]. unfold dget. rewrite !dget_dzip by auto.
  destruct (nth m usd None); cbn; auto.
Qed.
Lemma dval_dzip_total tot usd m k : dval (dzip reset_total_f tot usd) m k = dval tot m k.
Proof.
  unfold dval, dget. rewrite dget_dzip by auto. destruct (nth m usd None); cbn; auto.
Qed.

Lemma empty_ledger_good : lgood empty_ledger.
Proof.
  constructor; cbn.
  - intros m. now rewrite !dget_nil.
  - intros m k. rewrite dval_nil. lia.
  - tauto.
  - intros m k. rewrite dval_nil. reflexivity.
  - constructor.
Qed.

Lemma ledger_add_good l p al : lgood l -> allocs_wf al = true -> lgood (ledger_add l p al).
Proof.
  intros G W. unfold ledger_add. destruct (aset_mem p (aset l)) eqn:M; auto.
  pose proof W as W'. unfold allocs_wf in W'. apply andb_prop in W' as [ND NN].
  apply nodupn_NoDup in ND.
  constructor; cbn [total free used aset reset_free].
  - apply fs_dzip.
  - intros m k. rewrite dval_dzip_total. apply (lg_tot _ G).
  - intros e [<-|He]; cbn [snd].
    + now apply dnonneg_resources_of.
    + now apply (lg_aset _ G).
  - intros m k. cbn [used aset]. rewrite aset_sum_cons, dval_fold_used_add, dval_resources_of by auto.
    rewrite (lg_sum _ G). lia.
  - cbn. constructor; [|apply G]. intros H. apply aset_mem_In in H. congruence.
Qed.

Lemma ledger_remove_good l p al :
  lgood l -> allocs_wf al = true ->
  (aset_mem p (aset l) = true -> lookup p (aset l) = Some (resources_of al)) ->
  lgood (ledger_remove l p al).
Proof.
  intros G W L. unfold ledger_remove. destruct (aset_mem p (aset l)) eqn:M; cbn [negb]; auto.
  specialize (L eq_refl).
  pose proof W as W'. unfold allocs_wf in W'. apply andb_prop in W' as [ND NN].
  apply nodupn_NoDup in ND.
  constructor; cbn [total free used aset reset_free].
  - apply fs_dzip.
  - intros m k. rewrite dval_dzip_total. apply (lg_tot _ G).
  - intros e He. unfold aset_remove in He. apply filter_In in He as [He _]. now apply (lg_aset _ G).
  - intros m k. cbn [used aset]. rewrite (aset_remove_sum p (aset l) (resources_of al)) by (auto; apply G).
    rewrite dval_fold_used_sub by auto. rewrite (lg_sum _ G), dval_resources_of by auto.
    assert (Hs : aset_sum (aset l) m k = dval (resources_of al) m k + aset_sum (aset_remove p (aset l)) m k).
    { rewrite (aset_remove_sum p (aset l) (resources_of al)) by (auto; apply G). lia. }
    assert (0 <= aset_sum (aset_remove p (aset l)) m k).
    { apply aset_sum_nonneg. intros e He. unfold aset_remove in He. apply filter_In in He as [He _].
      now apply (lg_aset _ G). }
    rewrite dval_resources_of in Hs by auto.
    destruct (memn m (map fst al)) eqn:Mm.
    + lia.
    + rewrite asum_notin; [lia|]. intros Hin. apply memn_In in Hin. congruence.
  - apply aset_remove_nodup. apply G.
Qed.

Lemma ledger_reset_total_good l tot : lgood l -> dnonneg tot -> lgood (ledger_reset_total l tot).
Proof.
  intros G Ht. unfold ledger_reset_total.
  constructor; cbn [total free used aset reset_free].
  - apply fs_dzip.
  - intros m k. rewrite dval_dzip_total. apply Ht.
  - apply G.
  - apply G.
  - apply G.
Qed.

(* free_struct alone needs no hypothesis *)
Lemma ledger_add_fs l p al : free_struct l -> free_struct (ledger_add l p al).
Proof.
  intros FS. unfold ledger_add. destruct (aset_mem p (aset l)); auto.
  cbn [total free used aset reset_free]. apply fs_dzip.
Qed.
Lemma ledger_remove_fs l p al : free_struct l -> free_struct (ledger_remove l p al).
Proof.
  intros FS. unfold ledger_remove. destruct (negb (aset_mem p (aset l))); auto.
  cbn [total free used aset reset_free]. apply fs_dzip.
Qed.
Lemma ledger_reset_total_fs l tot : free_struct (ledger_reset_total l tot).
Proof. apply reset_free_fs. Qed.
