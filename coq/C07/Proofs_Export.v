(* C07 — the statements exported by Properties.v, derived from the invariants. *)
From Coq Require Import List ZArith Bool Arith Lia Permutation.
From Verif Require Import C07.Model C07.Spec C07.Proofs_Res C07.Proofs_Ledger C07.Proofs_View
  C07.Proofs_Alloc C07.Proofs_Allocate C07.Proofs_State C07.Proofs_Inv C07.Proofs_Preempt
  C07.Proofs_Main.
Import ListNotations.
Open Scope Z_scope.

Definition exec_from (s : state) (ops : list op) : state :=
  fold_left (fun s o => fst (step s o)) ops s.
Lemma exec_is_exec_from ops : exec ops = exec_from init_state ops.
Proof. reflexivity. Qed.

Lemma exec_from_good s ops :
  ugood s -> ugood (exec_from s ops) /\
  (wgood s -> forallb op_wf ops = true -> wgood (exec_from s ops)).
Proof.
  revert s. induction ops as [|o ops IH]; intros s U; cbn [exec_from fold_left forallb]; auto.
  destruct (step_good s o U) as [U' W']. destruct (IH _ U') as [U2 W2]. split; auto.
  intros W H. apply andb_prop in H as [Ho H]. apply W2; auto.
Qed.

(* every reachable state has its ledgers in good order, provided the environment only ever
   supplied well-formed data (non-negative amounts, distinct minors per annotation) *)
Lemma reachable_lgood ops t : forallb op_wf ops = true -> lgood (ledger_of (ledgers (exec ops)) t).
Proof.
  intros H. destruct (exec_from_good init_state ops init_ugood) as [U W].
  apply (good_lgood _ t U (W init_wgood H)).
Qed.

Lemma free_eq_all ops t : forallb op_wf ops = true -> free_eq (ledger_of (ledgers (exec ops)) t).
Proof. intros H. apply lgood_free_eq. now apply reachable_lgood. Qed.
Lemma used_eq_sum_all ops t : forallb op_wf ops = true -> used_eq_sum (ledger_of (ledgers (exec ops)) t).
Proof. intros H. apply lg_sum. now apply reachable_lgood. Qed.

(* the environment hypothesis of the over-commit theorem: every environment event (inventory
   refresh, device deletion, pod bound by somebody else, annotation rewritten) leaves the
   ledgers within the invariant *)
Fixpoint env_ok_from (s : state) (ops : list op) : Prop :=
  match ops with
  | [] => True
  | o :: rest => (is_env_op o = true -> inv_okb (ledgers (fst (step s o))) = true)
                 /\ match o with
                    | OSchedule _ rq => sched_ok (nkind s) (ledgers s) rq = true
                    | _ => True end
                 /\ env_ok_from (fst (step s o)) rest
  end.
Lemma no_overcommit_from s ops :
  ugood s -> wgood s -> inv_ok (ledgers s) -> forallb op_wf ops = true -> env_ok_from s ops ->
  inv_ok (ledgers (exec_from s ops)).
Proof.
  revert s. induction ops as [|o ops IH]; intros s U W I H E; cbn [exec_from fold_left]; auto.
  cbn [forallb] in H. apply andb_prop in H as [Ho H]. destruct E as [E1 [Es E2]].
  destruct (step_good s o U) as [U' W']. apply IH; auto.
  destruct (is_env_op o) eqn:Eo.
  - apply inv_okb_spec. now apply E1.
  - now apply step_inv.
Qed.
Lemma no_overcommit_all ops t :
  forallb op_wf ops = true -> env_ok_from init_state ops -> (t < 3)%nat ->
  no_overcommit (ledger_of (ledgers (exec ops)) t).
Proof.
  intros H E Ht.
  assert (I : inv_ok (ledgers (exec ops))).
  { apply no_overcommit_from; auto; [apply init_ugood|apply init_wgood|]. apply inv_okb_spec. reflexivity. }
  now apply I.
Qed.

(* the allocator, on any reachable state *)
Lemma alloc_sound_all ops rq da t :
  forallb op_wf ops = true -> (t < 3)%nat ->
  sched_ok (nkind (exec ops)) (ledgers (exec ops)) rq = true ->
  allocate (nkind (exec ops)) (ledgers (exec ops)) (infos (exec ops)) rq = ADone da ->
  alloc_sound_t (ledgers (exec ops)) (infos (exec ops)) t rq (allocs_of da t) = true.
Proof.
  intros H Ht So A. apply (type_done_sound (nkind (exec ops))); [now apply reachable_lgood|auto|].
  eapply allocate_done; eauto. intros t'. now apply reachable_lgood.
Qed.
Lemma alloc_complete_all ops rq code :
  forallb op_wf ops = true ->
  allocate (nkind (exec ops)) (ledgers (exec ops)) (infos (exec ops)) rq = AFail code ->
  (code = c_unresolvable /\
   (existsb (fun t => is_invalid (treq_of rq t)) type_ids
    || existsb (fun t => no_device_t (ledgers (exec ops)) t rq) type_ids
    || part_unsupported (nkind (exec ops)) (treq_of rq 0)) = true)
  \/ (code = c_unsched /\
      existsb (fun t => alloc_short_t (nkind (exec ops)) (ledgers (exec ops)) (infos (exec ops)) t rq) type_ids = true).
Proof.
  intros H A. eapply allocate_fail; eauto. intros t. now apply reachable_lgood.
Qed.

(* the preemption dry-run, on any reachable state *)
Lemma preempt_sound_all ops rq t per count sh victims al :
  forallb op_wf ops = true -> treq_of rq t = TReq per count sh ->
  sched_ok (nkind (exec ops)) (ledgers (exec ops)) rq = true ->
  alloc_type_on (nkind (exec ops)) (ledgers (exec ops)) (infos (exec ops)) t per count sh victims = Some al ->
  (desired_count count <=
   maybe_count (preempt_ledger (ledger_of (ledgers (exec ops)) t) victims)
               (minors_of (infos (exec ops)) t) per)%nat.
Proof.
  intros H E So A. pose proof (sched_ok_pfit _ _ _ _ _ _ _ So E) as Pf. apply treq_spec in E as [Hc _].
  eapply alloc_type_on_sound; eauto. now apply reachable_lgood.
Qed.
Lemma preempt_complete_all ops rq t per count sh victims :
  forallb op_wf ops = true -> treq_of rq t = TReq per count sh ->
  alloc_type_on (nkind (exec ops)) (ledgers (exec ops)) (infos (exec ops)) t per count sh victims = None ->
  (eligible_count (preempt_ledger (ledger_of (ledgers (exec ops)) t) victims)
                  (minors_of (infos (exec ops)) t) per < desired_count count)%nat \/
  (t = 0%nat /\
   part_short (nkind (exec ops)) (preempt_ledger (ledger_of (ledgers (exec ops)) t) victims)
              (minors_of (infos (exec ops)) t) count sh = true).
Proof.
  intros H E A. apply treq_spec in E as [Hc _].
  eapply alloc_type_on_complete; eauto. now apply reachable_lgood.
Qed.
Lemma preempt_free_all ops t victims m k :
  forallb op_wf ops = true ->
  let l := ledger_of (ledgers (exec ops)) t in
  dval (free (preempt_ledger l victims)) m k =
  Z.max 0 (dval (total l) m k
           - Z.max 0 (dval (used l) m k - sumZ (map (victim_val l m k) victims))).
Proof.
  intros H l. pose proof (reachable_lgood ops t H) as G. fold l in G.
  cbn [preempt_ledger free]. rewrite calc_free_val; auto.
  - now rewrite preempt_of_val.
  - apply G.
  - apply G.
  - now apply lgood_used_nonneg.
  - now apply preempt_of_nonneg.
Qed.

(* what alloc_sound_t says, as a Prop *)
Lemma alloc_sound_t_spec ls infos t rq al per count sh :
  treq_of rq t = TReq per count sh -> alloc_sound_t ls infos t rq al = true ->
  length al = desired_count count /\ NoDup (map fst al) /\
  forall a, In a al ->
    In (fst a) (minors_of infos t) /\
    (forall k T v, rget (ores (dget (total (ledger_of ls t)) (fst a))) k = Some T ->
                   rget per k = Some v -> v <= dval (free (ledger_of ls t)) (fst a) k) /\
    r0 (snd a) = r0 per /\ r1 (snd a) = r1 per.
Proof.
  intros E H. unfold alloc_sound_t in H. rewrite E in H. rewrite !andb_true_iff in H.
  destruct H as [[Len ND] Hall]. split; [now apply Nat.eqb_eq|]. split; [now apply nodupn_NoDup|].
  intros a Ha. rewrite forallb_forall in Hall. specialize (Hall a Ha).
  rewrite !andb_true_iff in Hall. destruct Hall as [[Hm Hf] Hg]. split; [now apply memn_In|]. split.
  - intros k T v ET Ev. unfold fits_exposed in Hf. rewrite forallb_forall in Hf.
    destruct (Nat.lt_ge_cases k 3) as [Lk|Lk].
    + specialize (Hf k (slots_all k Lk)). rewrite ET, Ev in Hf. now apply Z.leb_le.
    + rewrite rget_big in Ev by auto. discriminate.
  - unfold granted_ok in Hg. rewrite !andb_true_iff in Hg. destruct Hg as [[G0 G1] _].
    assert (Eq : forall x y, opt_eqb x y = true -> x = y).
    { intros [x|] [y|] Hxy; cbn in Hxy; try discriminate; auto. apply Z.eqb_eq in Hxy. now subst. }
    split; now apply Eq.
Qed.
Lemma alloc_short_t_spec kind ls infos t rq :
  alloc_short_t kind ls infos t rq = true ->
  exists per count sh, treq_of rq t = TReq per count sh /\
    ((eligible_count (ledger_of ls t) (minors_of infos t) per < desired_count count)%nat \/
     (t = 0%nat /\ part_short kind (ledger_of ls t) (minors_of infos t) count sh = true)).
Proof.
  unfold alloc_short_t. destruct (treq_of rq t) as [| |per count sh]; try discriminate.
  intros H. exists per, count, sh. split; auto. apply orb_true_iff in H as [H|H].
  - left. now apply Nat.ltb_lt.
  - right. apply andb_prop in H as [H1 H2]. apply Nat.eqb_eq in H1. auto.
Qed.
(* what a refusal for lack of partitions means: honoured partition policy, a whole-GPU request,
   and no partition of the requested size made of listed, healthy, entirely free GPUs *)
Lemma part_short_spec kind l minors count sh :
  part_short kind l minors count sh = true ->
  honor_part kind = true /\ sh = false /\
  forall ps p, hopper_table (desired_count count) = Some ps -> In p ps ->
    exists m, In m p /\ part_free_minor l minors m = false.
Proof.
  unfold part_short. rewrite !andb_true_iff. intros [[H1 H2] H3]. apply negb_true_iff in H2.
  repeat split; auto. intros ps p E Hp. rewrite E in H3. rewrite forallb_forall in H3.
  specialize (H3 p Hp). apply negb_true_iff in H3.
  destruct (forallb (part_free_minor l minors) p) eqn:F; [discriminate|].
  assert (X : ~ (forall m, In m p -> part_free_minor l minors m = true)).
  { intros A. rewrite <- forallb_forall in A. congruence. }
  clear F H3 Hp E. induction p as [|m p IH]; [exfalso; apply X; intros m []|].
  destruct (part_free_minor l minors m) eqn:Fm.
  - destruct IH as [m' [Hm' Fm']].
    + intros A. apply X. intros m0 [<-|H0]; auto.
    + exists m'. split; auto. now right.
  - exists m. split; auto. now left.
Qed.

(* duplicate events are no-ops *)
Lemma frame_all ops o t :
  is_frame o (o_code (snd (step (exec ops) o))) = true -> (t < 3)%nat ->
  ledger_of (ledgers (exec (ops ++ [o]))) t = ledger_of (ledgers (exec ops)) t.
Proof.
  intros F Ht. unfold exec. rewrite fold_left_app. cbn [fold_left].
  apply step_frame; auto. destruct (exec_from_good init_state ops init_ugood) as [U _]. exact U.
Qed.

(* soundness of the decision procedure's ledger clauses: when a step is accepted under
   well-formed data, the observed ledgers satisfy the Props *)
Lemma check_step_sound k o out ls t :
  check_step k o (out, ls) = 0 -> k_wf k && op_wf o = true -> (t < 3)%nat ->
  free_eq (ledger_of ls t) /\ used_eq_sum (ledger_of ls t) /\
  (k_env k && (negb (is_env_op o) || inv_okb ls) && step_ok k o = true -> no_overcommit (ledger_of ls t)).
Proof.
  intros C Hw Ht. unfold check_step in C. rewrite Hw in C. cbn [negb orb andb first_nz fold_right] in C.
  assert (In t type_ids) by (destruct t as [|[|[|t]]]; cbn; auto; lia).
  destruct (forallb (fun t => free_eqb (ledger_of ls t)) type_ids) eqn:F1; [|discriminate C].
  cbn [chk Z.eqb] in C.
  destruct (forallb (fun t => used_eq_sumb (ledger_of ls t)) type_ids) eqn:F2; [|discriminate C].
  cbn [chk Z.eqb] in C.
  rewrite forallb_forall in F1, F2. split; [apply free_eqb_sound; auto|].
  split; [apply used_eq_sumb_sound; auto|].
  intros He. rewrite He in C. cbn [negb orb] in C.
  destruct (inv_okb ls) eqn:I; [|discriminate C]. apply inv_okb_spec in I. now apply I.
Qed.

(* ------------------------------------------------------------------ witnesses *)
Definition gpu_dev (m : nat) : devinfo := mkInfo 0 m true (mkRes (Some 100) (Some 100) (Some 16000)) (-1) 0.
Definition rdma_dev (m : nat) (health : bool) (amount : Z) : devinfo :=
  mkInfo 1 m health (mkRes (Some amount) None None) (-1) 0.
Definition req_koord (v : Z) : rawreq := mkRaw v 0 0 0 0 0 0.
Definition req_rdma (v : Z) : rawreq := mkRaw 0 0 0 0 0 v 0.

(* a well-formed history on which things happen: two grants on distinct devices, a release *)
Definition demo_ops : list op :=
  [ORefresh [gpu_dev 0; gpu_dev 1; rdma_dev 0 true 100];
   OSchedule 0 (req_koord 50); OSchedule 1 (req_koord 200); OSchedule 2 (req_koord 100);
   OPodAdd 0; OPodDelete 0; OPodDelete 0].

(* the unrestricted sentence "in use never exceeds total" is false of the faithful model: the
   environment marks a device unhealthy (or lowers its total) while a pod holds part of it *)
Definition unhealthy_ops : list op :=
  [ORefresh [rdma_dev 0 true 100]; OSchedule 0 (req_rdma 50); ORefresh [rdma_dev 0 false 100]].
Definition shrink_ops : list op :=
  [ORefresh [rdma_dev 0 true 100]; OSchedule 0 (req_rdma 50); ORefresh [rdma_dev 0 true 30]].

Lemma refuted_unhealthy :
  forallb op_wf unhealthy_ops = true /\
  dval (total (ledger_of (ledgers (exec unhealthy_ops)) 1)) 0 0
  < dval (used (ledger_of (ledgers (exec unhealthy_ops)) 1)) 0 0.
Proof. vm_compute. split; reflexivity. Qed.
Lemma refuted_shrink :
  forallb op_wf shrink_ops = true /\ no_overcommitb (ledger_of (ledgers (exec shrink_ops)) 1) = false.
Proof. vm_compute. split; reflexivity. Qed.

(* a node with the Hopper partition table and the Honor policy, GPU 1 unhealthy: a 2-GPU request
   gets the partition {2,3}, never {0,1}; a 3-GPU request is unsupported *)
Definition part_ops : list op :=
  [ONodeKind 1;
   ORefresh [gpu_dev 0; mkInfo 0 1 false (mkRes (Some 100) (Some 100) (Some 16000)) (-1) 0;
             gpu_dev 2; gpu_dev 3; gpu_dev 4; gpu_dev 5; gpu_dev 6; gpu_dev 7];
   OSchedule 0 (mkRaw 0 0 0 0 2 0 0); OSchedule 1 (mkRaw 0 0 0 0 3 0 0)].
Lemma part_demo :
  forallb op_wf part_ops = true /\
  map (fun ob => (o_code (fst ob), map fst (allocs_of (o_allocs (fst ob)) 0))) (run part_ops)
  = [(0, []); (0, []); (0, [2%nat; 3%nat]); (2, [])].
Proof. vm_compute. split; reflexivity. Qed.

(* the allocator does not look at request keys the device does not expose: a GPU without a
   gpu-core key is granted to a pod asking for gpu-core *)
Definition unexposed_ops : list op :=
  [ORefresh [mkInfo 0 0 true (mkRes None (Some 100) (Some 16000)) (-1) 0]].
Lemma unexposed_granted :
  allocate 0 (ledgers (exec unexposed_ops)) (infos (exec unexposed_ops)) (req_koord 50)
  = ADone [[(0%nat, mkRes (Some 50) (Some 50) (Some 8000))]; []; []].
Proof. vm_compute. reflexivity. Qed.
