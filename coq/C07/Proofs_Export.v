(* C07 — the statements exported by Properties.v, derived from the invariants. *)
From Coq Require Import List ZArith Bool Arith Lia Permutation.
From Verif Require Import C07.Model C07.Spec C07.Proofs_Res C07.Proofs_Ledger C07.Proofs_View
  C07.Proofs_Alloc C07.Proofs_Allocate C07.Proofs_Desig C07.Proofs_AllocateR C07.Proofs_State C07.Proofs_Inv
  C07.Proofs_Preempt C07.Proofs_Main.
From Verif Require Import Gen.Gen_scores.
Import ListNotations.
Open Scope Z_scope.

Definition exec_from (s : state) (ops : list op) : state :=
  fold_left (fun s o => fst (step s o)) ops s.
Lemma exec_is_exec_from ops : exec ops = exec_from init_state ops.
Proof. reflexivity. Qed.

Lemma exec_from_good s ops :
  ugood s -> ugood (exec_from s ops) /\
  (wgood s -> pgood s -> forallb op_wf ops = true -> wgood (exec_from s ops) /\ pgood (exec_from s ops)).
Proof.
  revert s. induction ops as [|o ops IH]; intros s U; cbn [exec_from fold_left forallb]; auto.
  destruct (step_good s o U) as [U' W']. destruct (IH _ U') as [U2 W2]. split; auto.
  intros W P H. apply andb_prop in H as [Ho H]. apply W2; auto. now apply step_pgood.
Qed.

(* every reachable state has its ledgers in good order, provided the environment only ever
   supplied well-formed data (non-negative amounts, distinct minors per annotation) *)
Lemma reachable_lgood ops t : forallb op_wf ops = true -> lgood (ledger_of (ledgers (exec ops)) t).
Proof.
  intros H. destruct (exec_from_good init_state ops init_ugood) as [U W].
  apply (good_lgood _ t U (proj1 (W init_wgood init_pgood H))).
Qed.
Lemma reachable_good ops : forallb op_wf ops = true ->
  ugood (exec ops) /\ wgood (exec ops) /\ pgood (exec ops).
Proof.
  intros H. destruct (exec_from_good init_state ops init_ugood) as [U W].
  destruct (W init_wgood init_pgood H). auto.
Qed.

Lemma free_eq_all ops t : forallb op_wf ops = true -> free_eq (ledger_of (ledgers (exec ops)) t).
Proof. intros H. apply lgood_free_eq. now apply reachable_lgood. Qed.
Lemma used_eq_sum_all ops t : forallb op_wf ops = true -> used_eq_sum (ledger_of (ledgers (exec ops)) t).
Proof. intros H. apply lg_sum. now apply reachable_lgood. Qed.

(* the environment hypothesis of the over-commit theorem: every environment event (inventory
   refresh, device deletion, pod bound by somebody else, annotation rewritten) leaves the
   ledgers within the invariant *)
Fixpoint env_ok_from (s : state) (ops : list op) : Prop :=
  match ops with
  | [] => True
  | o :: rest => (is_env_op o = true -> inv_okb (ledgers (fst (step s o))) = true)
                 /\ match o with
                    | OSchedule _ rq => sched_ok (nkind s) (ledgers s) rq = true
                    | OReserve p => match open_of s p with
                                    | Some c => sched_ok (nkind s) (ledgers s) (fst c) = true
                                    | None => True end
                    | _ => True end
                 /\ env_ok_from (fst (step s o)) rest
  end.
Lemma no_overcommit_from s ops :
  ugood s -> wgood s -> pgood s -> inv_ok (ledgers s) -> forallb op_wf ops = true -> env_ok_from s ops ->
  inv_ok (ledgers (exec_from s ops)).
Proof.
  revert s. induction ops as [|o ops IH]; intros s U W P I H E; cbn [exec_from fold_left]; auto.
  cbn [forallb] in H. apply andb_prop in H as [Ho H]. destruct E as [E1 [Es E2]].
  destruct (step_good s o U) as [U' W']. apply IH; auto.
  - now apply step_pgood.
  - destruct (is_env_op o) eqn:Eo.
    + apply inv_okb_spec. now apply E1.
    + now apply step_inv.
Qed.
Lemma no_overcommit_all ops t :
  forallb op_wf ops = true -> env_ok_from init_state ops -> (t < 3)%nat ->
  no_overcommit (ledger_of (ledgers (exec ops)) t).
Proof.
  intros H E Ht.
  assert (I : inv_ok (ledgers (exec ops))).
  { apply no_overcommit_from; auto; [apply init_ugood|apply init_wgood|apply init_pgood|].
    apply inv_okb_spec. reflexivity. }
  now apply I.
Qed.

(* the allocator, on any reachable state *)
Lemma alloc_sound_all ops rq da t :
  forallb op_wf ops = true -> (t < 3)%nat -> (most_of (nkind (exec ops)) = true -> raw_nonneg rq = true) ->
  sched_ok (nkind (exec ops)) (ledgers (exec ops)) rq = true ->
  allocate (nkind (exec ops)) (ledgers (exec ops)) (infos (exec ops)) rq = ADone da ->
  alloc_sound_t (ledgers (exec ops)) (infos (exec ops)) t rq (allocs_of da t) = true.
Proof.
  intros H Ht NNm So A. apply (type_done_sound (nkind (exec ops))); [auto|].
  eapply allocate_done; eauto. intros t'. now apply reachable_lgood.
Qed.

(* a pod with a designated allocation, on any reachable state: granted devices are designated ones,
   the request fits what the designation leaves of them and their real free amounts *)
Lemma desig_sound_all ops gk rq dg da t :
  forallb op_wf ops = true -> (t < 3)%nat -> dallocs_wf dg = true -> (most_of (nkind (exec ops)) = true -> raw_nonneg rq = true) ->
  sched_ok (nkind (exec ops)) (ledgers (exec ops)) rq = true ->
  allocate_d (nkind (exec ops)) gk (ledgers (exec ops)) (infos (exec ops)) rq dg = ADone da ->
  exists dg', desig_fill gk (total (ledger_of (ledgers (exec ops)) 0)) dg = Some dg' /\
    alloc_sound_t (ledgers (exec ops)) (infos (exec ops)) t rq (allocs_of da t) = true /\
    desig_sound_t (ledgers (exec ops)) (infos (exec ops)) dg' t rq (allocs_of da t) = true.
Proof.
  intros H Ht Wd NNm So A.
  assert (G : forall t', lgood (ledger_of (ledgers (exec ops)) t')) by (intros t'; now apply reachable_lgood).
  destruct (allocate_d_done _ _ _ _ _ _ _ G Wd NNm A) as [dg' [F [_ D]]]. exists dg'. split; auto.
  destruct (D t Ht) as [D1 D2]. split.
  - now apply (type_done_sound (nkind (exec ops))).
  - now apply (type_done_d_sound (nkind (exec ops))).
Qed.
Lemma desig_complete_all ops gk rq dg code :
  forallb op_wf ops = true -> dallocs_wf dg = true -> (most_of (nkind (exec ops)) = true -> raw_nonneg rq = true) ->
  allocate_d (nkind (exec ops)) gk (ledgers (exec ops)) (infos (exec ops)) rq dg = AFail code ->
  (code = c_unresolvable /\
   (existsb (fun t => is_invalid (treq_of rq t)) type_ids
    || existsb (fun t => no_device_t (ledgers (exec ops)) t rq) type_ids
    || part_unsupported (nkind (exec ops)) (treq_of rq 0)) = true)
  \/ (code = c_error /\ desig_fill gk (total (ledger_of (ledgers (exec ops)) 0)) dg = None)
  \/ (code = c_unsched /\ exists dg', desig_fill gk (total (ledger_of (ledgers (exec ops)) 0)) dg = Some dg' /\
        existsb (fun t => desig_short_t (nkind (exec ops)) (ledgers (exec ops)) (infos (exec ops)) dg' t rq) type_ids = true).
Proof.
  intros H Wd NNm A.
  assert (G : forall t', lgood (ledger_of (ledgers (exec ops)) t')) by (intros t'; now apply reachable_lgood).
  destruct (allocate_d_fail _ _ _ _ _ _ _ G Wd NNm A) as [X|[[X1 [X2 _]]|X]]; auto.
Qed.

(* Reserve re-validates: whatever happened between the Filter and the Reserve of a cycle, a
   successful Reserve grants devices on which the request fits the free amounts of the moment of
   Reserve (and, for a designated pod, what the designation leaves of them) *)
Lemma reserve_sound_all ops p c da t :
  forallb op_wf ops = true -> (t < 3)%nat ->
  open_of (exec ops) p = Some c ->
  sched_ok (nkind (exec ops)) (ledgers (exec ops)) (fst c) = true ->
  snd (step (exec ops) (OReserve p)) = mkOut c_ok da ->
  alloc_sound_t (ledgers (exec ops)) (infos (exec ops)) t (fst c) (allocs_of da t) = true /\
  match snd c with
  | Some dg => exists dg', desig_fill (gkey (exec ops)) (total (ledger_of (ledgers (exec ops)) 0)) dg = Some dg' /\
                 desig_sound_t (ledgers (exec ops)) (infos (exec ops)) dg' t (fst c) (allocs_of da t) = true
  | None => True
  end.
Proof.
  intros H Ht Op So St. destruct (reachable_good ops H) as [U [W P]].
  assert (G : forall t', lgood (ledger_of (ledgers (exec ops)) t')) by (intros t'; now apply reachable_lgood).
  unfold open_of in Op. cbn [step] in St.
  destruct (lookup p (envrec (exec ops))) as [x|]; [discriminate|]. rewrite Op in St.
  destruct (P p c Op) as [NN Wd].
  destruct (cycle_allocate (exec ops) c) as [|code|da'] eqn:A; cbn [snd] in St; try discriminate.
  - unfold cycle_allocate in A. exfalso.
    assert (Hc : code = c_unresolvable \/ (code = c_unsched \/ code = c_error)).
    { destruct (snd c); [eapply allocate_d_fail_codes|eapply allocate_fail_codes]; eauto. }
    injection St as E. destruct Hc as [-> | [-> | ->]]; discriminate.
  - injection St as <-. unfold cycle_allocate in A. destruct (snd c) as [dg|].
    + destruct (allocate_d_done _ _ _ _ _ _ _ G Wd (fun _ => NN) A) as [dg' [F [_ D]]]. destruct (D t Ht) as [D1 D2]. split.
      * now apply (type_done_sound (nkind (exec ops))).
      * exists dg'. split; auto. now apply (type_done_d_sound (nkind (exec ops))).
    + split; auto. apply (type_done_sound (nkind (exec ops))); auto. eapply allocate_done; eauto.
Qed.
(* what desig_sound_t says, as a Prop *)
Lemma desig_sound_t_spec ls infos dg t rq al per count sh :
  treq_of rq t = TReq per count sh -> desig_sound_t ls infos dg t rq al = true ->
  length al = desired_count count /\ NoDup (map fst al) /\
  forall a, In a al ->
    In (fst a) (minors_of infos t) /\
    (is_nil (allocs_of dg t) = false -> In (fst a) (map fst (allocs_of dg t))) /\
    (forall k T v, rget (ores (dget (total (avail_of ls dg t)) (fst a))) k = Some T ->
                   rget per k = Some v -> v <= dval (free (avail_of ls dg t)) (fst a) k).
Proof.
  intros E H. unfold desig_sound_t in H. rewrite E in H. rewrite !andb_true_iff in H.
  destruct H as [[Len ND] Hall]. split; [now apply Nat.eqb_eq|]. split; [now apply nodupn_NoDup|].
  intros a Ha. rewrite forallb_forall in Hall. specialize (Hall a Ha).
  rewrite !andb_true_iff in Hall. destruct Hall as [[Hm Hf] Hg]. split; [now apply memn_In|].
  destruct (dget (free (avail_of ls dg t)) (fst a)) as [f|] eqn:Ef; [|discriminate]. split.
  - intros Hn. unfold avail_of, desig_avail, required_of in Ef.
    assert (Hne : dis_empty (resources_of (allocs_of dg t)) = false \/ dis_empty (resources_of (allocs_of dg t)) = true)
      by (destruct (dis_empty _); auto).
    destruct (in_dec Nat.eq_dec (fst a) (map fst (allocs_of dg t))) as [Hin|Hnot]; auto. exfalso.
    assert (Er : dget (resources_of (allocs_of dg t)) (fst a) = None).
    { unfold resources_of. rewrite dget_fold_dset_notin by auto. apply dget_nil. }
    destruct (dis_empty (resources_of (allocs_of dg t))) eqn:De.
    + (* a non-empty annotation records at least one device *)
      destruct (allocs_of dg t) as [|a0 al0] eqn:Ea; [discriminate|].
      rewrite dis_empty_spec in De.
      assert (X : forall (l : list alloc) d, (exists m, dget d m <> None) ->
                   exists m, dget (fold_left (fun d a => dset d (fst a) (Some (snd a))) l d) m <> None).
      { induction l as [|b l IH]; intros d Hd; auto. cbn [fold_left]. apply IH.
        destruct Hd as [m Hdm]. destruct (Nat.eq_dec (fst b) m) as [->|Hne'].
        - exists m. rewrite dget_dset_same. discriminate.
        - exists m. now rewrite dget_dset_other. }
      destruct (X al0 (dset [] (fst a0) (Some (snd a0)))) as [m Hdm].
      { exists (fst a0). rewrite dget_dset_same. discriminate. }
      apply Hdm. unfold resources_of in De. cbn [fold_left] in De. apply De.
    + cbn [free] in Ef. unfold dget in Ef. rewrite Proofs_Desig.nth_map_seq' in Ef.
      destruct (Nat.ltb (fst a) (length (free (ledger_of ls t)))); [|discriminate].
      unfold avail_at in Ef. rewrite Er in Ef. destruct (dget (free (ledger_of ls t)) (fst a)); discriminate.
  - intros k T v ET Ev. unfold fits_exposed in Hf. rewrite forallb_forall in Hf.
    destruct (Nat.lt_ge_cases k 3) as [Lk|Lk].
    + specialize (Hf k (slots_all k Lk)). rewrite ET, Ev in Hf. now apply Z.leb_le.
    + rewrite rget_big in Ev by auto. discriminate.
Qed.
Lemma alloc_complete_all ops rq code :
  forallb op_wf ops = true -> (most_of (nkind (exec ops)) = true -> raw_nonneg rq = true) ->
  allocate (nkind (exec ops)) (ledgers (exec ops)) (infos (exec ops)) rq = AFail code ->
  (code = c_unresolvable /\
   (existsb (fun t => is_invalid (treq_of rq t)) type_ids
    || existsb (fun t => no_device_t (ledgers (exec ops)) t rq) type_ids
    || part_unsupported (nkind (exec ops)) (treq_of rq 0)) = true)
  \/ (code = c_unsched /\
      existsb (fun t => alloc_short_t (nkind (exec ops)) (ledgers (exec ops)) (infos (exec ops)) t rq) type_ids = true).
Proof.
  intros H NNm A. eapply allocate_fail; eauto. intros t. now apply reachable_lgood.
Qed.

(* the preemption dry-run, on any reachable state *)
Lemma preempt_sound_all ops rq t per count sh victims al :
  forallb op_wf ops = true -> treq_of rq t = TReq per count sh -> (most_of (nkind (exec ops)) = true -> raw_nonneg rq = true) ->
  sched_ok (nkind (exec ops)) (ledgers (exec ops)) rq = true ->
  alloc_type_on (nkind (exec ops)) (ledgers (exec ops)) (infos (exec ops)) t per count sh victims = Some al ->
  (desired_count count <=
   maybe_count (preempt_ledger (ledger_of (ledgers (exec ops)) t) victims)
               (minors_of (infos (exec ops)) t) per)%nat.
Proof.
  intros H E NNm So A. pose proof (sched_ok_pfit _ _ _ _ _ _ _ So E) as Pf. apply treq_spec in E as [Hc [Hp _]].
  eapply alloc_type_on_sound; eauto. now apply reachable_lgood.
Qed.
Lemma preempt_complete_all ops rq t per count sh victims :
  forallb op_wf ops = true -> treq_of rq t = TReq per count sh ->
  alloc_type_on (nkind (exec ops)) (ledgers (exec ops)) (infos (exec ops)) t per count sh victims = None ->
  (eligible_count (preempt_ledger (ledger_of (ledgers (exec ops)) t) victims)
                  (minors_of (infos (exec ops)) t) per < desired_count count)%nat \/
  (t = 0%nat /\
   part_short (nkind (exec ops)) (preempt_ledger (ledger_of (ledgers (exec ops)) t) victims)
              (minors_of (infos (exec ops)) t) count sh = true).
Proof.
  intros H E A. apply treq_spec in E as [Hc _].
  eapply alloc_type_on_complete; eauto. now apply reachable_lgood.
Qed.
Lemma preempt_free_all ops t victims m k :
  forallb op_wf ops = true ->
  let l := ledger_of (ledgers (exec ops)) t in
  dval (free (preempt_ledger l victims)) m k =
  Z.max 0 (dval (total l) m k
           - Z.max 0 (dval (used l) m k - sumZ (map (victim_val l m k) victims))).
Proof.
  intros H l. pose proof (reachable_lgood ops t H) as G. fold l in G.
  cbn [preempt_ledger free]. rewrite calc_free_val; auto.
  - now rewrite preempt_of_val.
  - apply G.
  - apply G.
  - now apply lgood_used_nonneg.
  - now apply preempt_of_nonneg.
Qed.

(* what alloc_sound_t says, as a Prop *)
Lemma alloc_sound_t_spec ls infos t rq al per count sh :
  treq_of rq t = TReq per count sh -> alloc_sound_t ls infos t rq al = true ->
  length al = desired_count count /\ NoDup (map fst al) /\
  forall a, In a al ->
    In (fst a) (minors_of infos t) /\
    (forall k T v, rget (ores (dget (total (ledger_of ls t)) (fst a))) k = Some T ->
                   rget per k = Some v -> v <= dval (free (ledger_of ls t)) (fst a) k) /\
    r0 (snd a) = r0 per /\ r1 (snd a) = r1 per.
Proof.
  intros E H. unfold alloc_sound_t in H. rewrite E in H. rewrite !andb_true_iff in H.
  destruct H as [[Len ND] Hall]. split; [now apply Nat.eqb_eq|]. split; [now apply nodupn_NoDup|].
  intros a Ha. rewrite forallb_forall in Hall. specialize (Hall a Ha).
  rewrite !andb_true_iff in Hall. destruct Hall as [[Hm Hf] Hg]. split; [now apply memn_In|]. split.
  - intros k T v ET Ev. unfold fits_exposed in Hf. rewrite forallb_forall in Hf.
    destruct (Nat.lt_ge_cases k 3) as [Lk|Lk].
    + specialize (Hf k (slots_all k Lk)). rewrite ET, Ev in Hf. now apply Z.leb_le.
    + rewrite rget_big in Ev by auto. discriminate.
  - unfold granted_ok in Hg. rewrite !andb_true_iff in Hg. destruct Hg as [[G0 G1] _].
    assert (Eq : forall x y, opt_eqb x y = true -> x = y).
    { intros [x|] [y|] Hxy; cbn in Hxy; try discriminate; auto. apply Z.eqb_eq in Hxy. now subst. }
    split; now apply Eq.
Qed.
Lemma alloc_short_t_spec kind ls infos t rq :
  alloc_short_t kind ls infos t rq = true ->
  exists per count sh, treq_of rq t = TReq per count sh /\
    ((eligible_count (ledger_of ls t) (minors_of infos t) per < desired_count count)%nat \/
     (t = 0%nat /\ part_short kind (ledger_of ls t) (minors_of infos t) count sh = true)).
Proof.
  unfold alloc_short_t. destruct (treq_of rq t) as [| |per count sh]; try discriminate.
  intros H. exists per, count, sh. split; auto. apply orb_true_iff in H as [H|H].
  - left. now apply Nat.ltb_lt.
  - right. apply andb_prop in H as [H1 H2]. apply Nat.eqb_eq in H1. auto.
Qed.
(* what a refusal for lack of partitions means: honoured partition policy, a whole-GPU request,
   and no partition of the requested size made of listed, healthy, entirely free GPUs *)
Lemma part_short_spec kind l minors count sh :
  part_short kind l minors count sh = true ->
  honor_part kind = true /\ sh = false /\
  forall ps p, hopper_table (desired_count count) = Some ps -> In p ps ->
    exists m, In m p /\ part_free_minor l minors m = false.
Proof.
  unfold part_short. rewrite !andb_true_iff. intros [[H1 H2] H3]. apply negb_true_iff in H2.
  repeat split; auto. intros ps p E Hp. rewrite E in H3. rewrite forallb_forall in H3.
  specialize (H3 p Hp). apply negb_true_iff in H3.
  destruct (forallb (part_free_minor l minors) p) eqn:F; [discriminate|].
  assert (X : ~ (forall m, In m p -> part_free_minor l minors m = true)).
  { intros A. rewrite <- forallb_forall in A. congruence. }
  clear F H3 Hp E. induction p as [|m p IH]; [exfalso; apply X; intros m []|].
  destruct (part_free_minor l minors m) eqn:Fm.
  - destruct IH as [m' [Hm' Fm']].
    + intros A. apply X. intros m0 [<-|H0]; auto.
    + exists m'. split; auto. now right.
  - exists m. split; auto. now left.
Qed.

(* duplicate events are no-ops *)
Lemma frame_all ops o t :
  is_frame o (o_code (snd (step (exec ops) o))) = true -> (t < 3)%nat ->
  ledger_of (ledgers (exec (ops ++ [o]))) t = ledger_of (ledgers (exec ops)) t.
Proof.
  intros F Ht. unfold exec. rewrite fold_left_app. cbn [fold_left].
  apply step_frame; auto. destruct (exec_from_good init_state ops init_ugood) as [U _]. exact U.
Qed.

(* soundness of the decision procedure's ledger clauses: when a step is accepted under
   well-formed data, the observed ledgers satisfy the Props *)
Lemma check_step_sound k o out ls t :
  check_step k o (out, ls) = 0 -> k_wf k && op_wf o = true -> (t < 3)%nat ->
  free_eq (ledger_of ls t) /\ used_eq_sum (ledger_of ls t) /\
  (k_env k && (negb (is_env_op o) || inv_okb ls) && step_ok k o = true -> no_overcommit (ledger_of ls t)).
Proof.
  intros C Hw Ht. unfold check_step in C. rewrite Hw in C. cbn [negb orb andb first_nz fold_right] in C.
  assert (In t type_ids) by (destruct t as [|[|[|t]]]; cbn; auto; lia).
  destruct (forallb (fun t => free_eqb (ledger_of ls t)) type_ids) eqn:F1; [|discriminate C].
  cbn [chk Z.eqb] in C.
  destruct (forallb (fun t => used_eq_sumb (ledger_of ls t)) type_ids) eqn:F2; [|discriminate C].
  cbn [chk Z.eqb] in C.
  rewrite forallb_forall in F1, F2. split; [apply free_eqb_sound; auto|].
  split; [apply used_eq_sumb_sound; auto|].
  intros He. rewrite He in C. cbn [negb orb] in C.
  destruct (inv_okb ls) eqn:I; [|discriminate C]. apply inv_okb_spec in I. now apply I.
Qed.

(* ------------------------------------------------------------------ witnesses *)
Definition gpu_dev (m : nat) : devinfo := mkInfo 0 m true (mkRes (Some 100) (Some 100) (Some 16000)) (-1) 0.
Definition rdma_dev (m : nat) (health : bool) (amount : Z) : devinfo :=
  mkInfo 1 m health (mkRes (Some amount) None None) (-1) 0.
Definition req_koord (v : Z) : rawreq := mkRaw v 0 0 0 0 0 0.
Definition req_rdma (v : Z) : rawreq := mkRaw 0 0 0 0 0 v 0.

(* a well-formed history on which things happen: two grants on distinct devices, a release *)
Definition demo_ops : list op :=
  [ORefresh [gpu_dev 0; gpu_dev 1; rdma_dev 0 true 100];
   OSchedule 0 (req_koord 50); OSchedule 1 (req_koord 200); OSchedule 2 (req_koord 100);
   OPodAdd 0; OPodDelete 0; OPodDelete 0].

(* the unrestricted sentence "in use never exceeds total" is false of the faithful model: the
   environment marks a device unhealthy (or lowers its total) while a pod holds part of it *)
Definition unhealthy_ops : list op :=
  [ORefresh [rdma_dev 0 true 100]; OSchedule 0 (req_rdma 50); ORefresh [rdma_dev 0 false 100]].
Definition shrink_ops : list op :=
  [ORefresh [rdma_dev 0 true 100]; OSchedule 0 (req_rdma 50); ORefresh [rdma_dev 0 true 30]].

Lemma refuted_unhealthy :
  forallb op_wf unhealthy_ops = true /\
  dval (total (ledger_of (ledgers (exec unhealthy_ops)) 1)) 0 0
  < dval (used (ledger_of (ledgers (exec unhealthy_ops)) 1)) 0 0.
Proof. vm_compute. split; reflexivity. Qed.
Lemma refuted_shrink :
  forallb op_wf shrink_ops = true /\ no_overcommitb (ledger_of (ledgers (exec shrink_ops)) 1) = false.
Proof. vm_compute. split; reflexivity. Qed.

(* a node with the Hopper partition table and the Honor policy, GPU 1 unhealthy: a 2-GPU request
   gets the partition {2,3}, never {0,1}; a 3-GPU request is unsupported *)
Definition part_ops : list op :=
  [ONodeKind 1;
   ORefresh [gpu_dev 0; mkInfo 0 1 false (mkRes (Some 100) (Some 100) (Some 16000)) (-1) 0;
             gpu_dev 2; gpu_dev 3; gpu_dev 4; gpu_dev 5; gpu_dev 6; gpu_dev 7];
   OSchedule 0 (mkRaw 0 0 0 0 2 0 0); OSchedule 1 (mkRaw 0 0 0 0 3 0 0)].
Lemma part_demo :
  forallb op_wf part_ops = true /\
  map (fun ob => (o_code (fst ob), map fst (allocs_of (o_allocs (fst ob)) 0))) (run part_ops)
  = [(0, []); (0, []); (0, [2%nat; 3%nat]); (2, [])].
Proof. vm_compute. split; reflexivity. Qed.

(* the allocator does not look at request keys the device does not expose: a GPU without a
   gpu-core key is granted to a pod asking for gpu-core *)
Definition unexposed_ops : list op :=
  [ORefresh [mkInfo 0 0 true (mkRes None (Some 100) (Some 16000)) (-1) 0]].
Lemma unexposed_granted :
  allocate 0 (ledgers (exec unexposed_ops)) (infos (exec unexposed_ops)) (req_koord 50)
  = ADone [[(0%nat, mkRes (Some 50) (Some 50) (Some 8000))]; []; []].
Proof. vm_compute. reflexivity. Qed.

(* what a designation leaves of a device never exceeds its free amount (nor its total) *)
Lemma avail_within_free_all ops t rq m a f k T :
  forallb op_wf ops = true -> dnonneg rq ->
  let l := ledger_of (ledgers (exec ops)) t in
  avail_at l rq m = Some a -> dget (free l) m = Some f ->
  rget (ores (dget (total l) m)) k = Some T ->
  exists v, rget a k = Some v /\ 0 <= v <= T /\ v <= rval f k.
Proof.
  intros H Hr l Ea Ef ET. pose proof (reachable_lgood ops t H) as G. fold l in G.
  exact (avail_exposed l rq (lg_fs _ G) (lg_tot _ G) (lgood_used_nonneg _ G) Hr m a f k T Ea Ef ET).
Qed.

(* cycles: a designated whole GPU passes Filter, then somebody else's pod takes that GPU; the same
   cycle's next Filter and its Reserve are refused; a second cycle designating the other GPU is
   reserved on it although GPU 0 would score the same *)
Definition whole_gpu (m : nat) : nat * alloc := (0%nat, (m, mkRes (Some 100) (Some 100) None)).
Definition cycle_ops : list op :=
  [ORefresh [gpu_dev 0; gpu_dev 1];
   OFilter 0 (req_koord 100) true [whole_gpu 0];
   OForeignAdd 9 [(0%nat, (0%nat, mkRes (Some 100) (Some 100) (Some 16000)))];
   OFilterAgain 0;
   OFilter 1 (req_koord 100) true [whole_gpu 0];
   OFilter 2 (req_koord 100) true [whole_gpu 1];
   OReserve 2;
   OFilter 3 (req_koord 50) false [whole_gpu 0];
   OReserve 3].
Lemma cycle_demo :
  forallb op_wf cycle_ops = true /\
  map (fun ob => (o_code (fst ob), map fst (allocs_of (o_allocs (fst ob)) 0))) (run cycle_ops)
  = [(0, []); (0, []); (0, []); (1, []); (1, []); (0, []); (0, [1%nat]); (1, []); (-1, [])].
Proof. vm_compute. split; reflexivity. Qed.

Lemma slot_score_generated most req tot fr k :
  rval tot k <> 0 ->
  slot_score most req tot fr k =
  let rq := if rval fr k <=? rval tot k then rval tot k - rval fr k + rval req k else rval tot k in
  Some (if most then deviceshare_mostRequestedScore rq (rval tot k)
        else deviceshare_leastRequestedScore rq (rval tot k)).
Proof. intros H. unfold slot_score. apply Z.eqb_neq in H. now rewrite H. Qed.
