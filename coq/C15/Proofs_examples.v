(* C15 — concrete histories (evaluated by vm_compute): non-vacuity of the theorems and
   regressions for the defect fixed by commit 5dea414 (parent cycle accepted on update). *)
From Coq Require Import List ZArith Bool.
From Verif Require Import C15.Model C15.Spec.
Import ListNotations.
Open Scope Z_scope.

(* a quota with max/min declared in dimensions 0 and 1 *)
Definition exq (name plabel : Z) (isp : bool) (mn0 mn1 mx0 mx1 : Z) : quota :=
  mkQuota name plabel isp 0 false false 0 false [] false [] []
          [Some mn0; Some mn1] [Some mx0; Some mx1] [].
Definition with_ns (q : quota) (nss : list Z) : quota :=
  mkQuota (q_name q) (q_plabel q) (q_is_parent q) (q_tree q) (q_tree_root q) (q_force q) (q_sw q)
          false nss (q_strict_bad q) (q_strict q) (q_used q) (q_min q) (q_max q) (q_guar q).

Definition A := exq 3 (-1) true 10 10 20 20.
Definition B := exq 4 3 true 6 6 20 20.
Definition C := exq 5 4 false 3 3 20 20.
Definition D := exq 6 3 true 4 4 20 20.

(* a three-level tree is admitted, step by step *)
Definition h_tree : list req := [([], Add A); ([], Add B); ([], Add C); ([], Add D)].
Lemma ex_tree_accepted : map fst (trace (init_topo (false, false)) h_tree) = [true; true; true; true].
Proof. vm_compute. reflexivity. Qed.
Lemma ex_tree_parents :
  map (fun e => (fst e, i_parent (snd e))) (infos (run (false, false) h_tree)) = [(3, 0); (4, 3); (5, 4); (6, 3)].
Proof. vm_compute. reflexivity. Qed.

(* the defect of the pinned tree: making a quota a child of its own descendant is now rejected
   (A.parent := C, where C is below B below A), and the record is unchanged *)
Definition A_under_C := exq 3 5 true 10 10 20 20.
Lemma ex_cycle_rejected :
  accepted (run (false, false) h_tree) ([], Update A A_under_C) = false
  /\ step (run (false, false) h_tree) ([], Update A A_under_C) = run (false, false) h_tree.
Proof. vm_compute. split; reflexivity. Qed.
(* ... and so is the two-node cycle of the original report: add A, add B(A), A.parent := B *)
Definition A_under_B := exq 3 4 true 10 10 20 20.
Lemma ex_cycle2_rejected : accepted (run (false, false) [([], Add A); ([], Add B)]) ([], Update A A_under_B) = false.
Proof. vm_compute. reflexivity. Qed.

(* a legitimate re-parenting is admitted: C moves from B to D *)
Definition C_under_D := exq 5 6 false 3 3 20 20.
Lemma ex_reparent_accepted :
  accepted (run (false, false) h_tree) ([], Update C C_under_D) = true
  /\ children (step (run (false, false) h_tree) ([], Update C C_under_D)) 6 = [5]
  /\ children (step (run (false, false) h_tree) ([], Update C C_under_D)) 4 = [].
Proof. vm_compute. repeat split; reflexivity. Qed.

(* children's mins must fit: B(6)+D(4) fill A's min 10, one more unit is refused *)
Definition E := exq 7 3 false 1 0 20 20.
Lemma ex_minsum_rejected : code (run (false, false) h_tree) ([], Add E) = 4.
Proof. vm_compute. reflexivity. Qed.
(* lowering A's min below its children's sum is refused, unless forced *)
Definition A_low := exq 3 (-1) true 9 10 20 20.
Lemma ex_parent_min_rejected : code (run (false, false) h_tree) ([], Update A A_low) = 5.
Proof. vm_compute. reflexivity. Qed.

(* a quota with children, or with pods, is not deleted; a leaf without pods is *)
Lemma ex_delete_guard :
  code (run (false, false) h_tree) ([], Delete B) = 4
  /\ code (run (false, false) h_tree) ([(5, 1000)], Delete C) = 5
  /\ code (run (false, false) h_tree) ([], Delete C) = 0.
Proof. vm_compute. repeat split; reflexivity. Qed.

(* a namespace is bound once *)
Lemma ex_namespace_once :
  code (run (false, false) [([], Add (with_ns A [1000]))]) ([], Add (with_ns (exq 8 (-1) false 0 0 5 5) [1000])) = 2.
Proof. vm_compute. reflexivity. Qed.

(* the decision procedure is sensitive: a hand-made record with a parent cycle (3 <-> 4),
   a non-parent parent, an over-committed min, or a stale index entry is refused *)
Definition inf (p : Z) (isp : bool) (mn : Z) : info := mkInfo p isp false 0 false [Some mn] [Some 20] [].
Lemma ex_wf_code_cycle :
  wf_code (mkTopo false false [(3, inf 4 true 5); (4, inf 3 true 5)] [(0, []); (3, [4]); (4, [3])] []) = 12.
Proof. vm_compute. reflexivity. Qed.
Lemma ex_wf_code_not_parent :
  wf_code (mkTopo false false [(3, inf 0 false 5); (4, inf 3 false 5)] [(0, [3]); (3, [4]); (4, [])] []) = 11.
Proof. vm_compute. reflexivity. Qed.
Lemma ex_wf_code_minsum :
  wf_code (mkTopo false false [(3, inf 0 true 5); (4, inf 3 false 3); (5, inf 3 false 3)]
                  [(0, [3]); (3, [4; 5]); (4, []); (5, [])] []) = 14.
Proof. vm_compute. reflexivity. Qed.
Lemma ex_wf_code_index :
  wf_code (mkTopo false false [(3, inf 0 true 5); (4, inf 3 false 3)] [(0, [3]); (3, []); (4, [])] []) = 17.
Proof. vm_compute. reflexivity. Qed.

(* consistent histories exist (hypothesis of the namespace theorem) *)
Lemma ex_consistent :
  snd (hist_state (init_topo (false, false)) [] true
         [([], Add (with_ns A [1000])); ([], Update (with_ns A [1000]) (with_ns A [1001]));
          ([], Delete (with_ns A [1001]))]) = true.
Proof. vm_compute. reflexivity. Qed.

(* FIXED FINDING (findings/C15-delete-ignores-namespace-bound-pods.md, repaired by commit 4aec535):
   before the repair ValidDeleteQuota listed pods by the quota-name label only ([delete_code_old]),
   so a quota was deleted although a pod was bound to it through a namespace it declares *)
Definition delete_code_old (s : topo) (pods : list pod) (q : quota) : Z :=
  if (q_name q =? SYSTEM) || (q_name q =? ROOT) || (q_name q =? DEFAULTQ) then 1
  else match find (q_name q) (infos s) with
       | None => 2
       | Some _ =>
           match find (q_name q) (hier s) with
           | None => 3
           | Some cs =>
               if nonempty cs then 4
               else if existsb (fun p => fst p =? q_name q) pods then 5
               else 0
           end
       end.
Definition Qns := with_ns (exq 3 (-1) false 1 1 20 20) [1000].
Definition h_nsdel : list req := [([], Add Qns); ([(-1, 1000)], Delete Qns)].
Lemma ex_old_delete_nsbound_refuted :
  delete_code_old (run (false, false) [([], Add Qns)]) [(-1, 1000)] Qns = 0
  /\ has_pods [(-1, 1000)] (q_name Qns) (ann_ns Qns) = true.
Proof. vm_compute. split; reflexivity. Qed.
(* the repaired behaviour: refused (check 6), also for a pod in the namespace named like the quota;
   the history passes the whole decision procedure *)
Lemma ex_delete_nsbound_rejected :
  code (run (false, false) [([], Add Qns)]) ([(-1, 1000)], Delete Qns) = 6
  /\ code (run (false, false) [([], Add Qns)]) ([(-1, 3)], Delete Qns) = 6
  /\ code (run (false, false) [([], Add Qns)]) ([(-1, 1001)], Delete Qns) = 0.
Proof. vm_compute. repeat split; reflexivity. Qed.
(* the decision procedure refuses an observed history in which such a deletion was admitted *)
Lemma ex_prop_code_21 :
  prop_code (false, false) h_nsdel
    [(true, run (false, false) [([], Add Qns)]); (true, init_topo (false, false))] = 21.
Proof. vm_compute. reflexivity. Qed.
(* the same pod makes the is-parent flip fail *)
Lemma ex_flip_nsbound_rejected :
  code (run (false, false) [([], Add Qns)])
       ([(-1, 1000)], Update Qns (with_ns (exq 3 (-1) true 1 1 20 20) [1000])) = 5.
Proof. vm_compute. reflexivity. Qed.

(* the feature gate ElasticQuotaEnableUpdateResourceKey: a child declaring fewer max dimensions
   than its parent is refused with the gate off and admitted with it on *)
Definition F1 := mkQuota 4 3 false 0 false false 0 false [] false [] [] [Some 1] [Some 20] [].
Lemma ex_gate_keys :
  code (run (false, false) [([], Add A)]) ([], Add F1) = 4 /\ code (run (true, false) [([], Add A)]) ([], Add F1) = 0.
Proof. vm_compute. split; reflexivity. Qed.

(* the feature gate ElasticQuotaGuaranteeUsage: inside a tree (tree id 1) a child's min must be
   covered by what its parent is guaranteed; T is guaranteed its min 10, so a child with min 5
   is admitted, one with min 11 is not (nor is it without the gate: 11 > T's min) *)
Definition T := mkQuota 3 (-1) true 1 true false 0 false [] false [] [] [Some 10] [Some 20] [Some 10].
Definition T0 := mkQuota 3 (-1) true 1 true false 0 false [] false [] [] [Some 10] [Some 20] [Some 4].
Definition K5 := mkQuota 4 3 false 1 false false 0 false [] false [] [] [Some 5] [Some 20] [].
Lemma ex_gate_guar :
  code (run (false, true) [([], Add T)]) ([], Add K5) = 0
  /\ code (run (false, true) [([], Add T0)]) ([], Add K5) = 4
  /\ code (run (false, false) [([], Add T0)]) ([], Add K5) = 0.
Proof. vm_compute. repeat split; reflexivity. Qed.
