(* C15 — the central invariant: every accepted request maps a well-formed recorded tree to a
   well-formed recorded tree; hence every state reached by any request sequence is [WF]. *)
From Coq Require Import List ZArith Bool Lia.
From Verif Require Import C15.Model C15.Spec C15.Proofs_maps C15.Proofs_reach C15.Proofs_checks.
Import ListNotations.
Open Scope Z_scope.

(* ------------------------------------------------------------------ the initial state *)
Lemma WF_init g : WF (init_topo g).
Proof.
  constructor; cbn [init_topo infos hier nsmap find]; intros; try discriminate.
  unfold children in H. cbn [init_topo hier find] in H.
  destruct (k =? ROOT); destruct H.
Qed.

(* ------------------------------------------------------------------ consequences of WF *)
Lemma wf_child_in_kids s : WF s -> forall P c, P <> ROOT -> child_of (infos s) P c ->
  In c (kids (hier s) P).
Proof.
  intros W P c NP [Nc [ic [F E]]]. subst P.
  rewrite <- children_kids. eapply wf_index_in; eauto.
Qed.

Lemma wf_min_of_nonneg s : WF s -> forall k c, 0 <= min_of (infos s) k c.
Proof.
  intros W k c. unfold min_of. destruct (find c (infos s)) as [ic|] eqn:F; [|lia].
  apply nonneg_val. destruct (wf_self s W c ic F) as [H _]. exact H.
Qed.

Lemma uchild_child m p c : uchild_of m p c -> child_of m p c.
Proof. intros [N [i [F [E _]]]]. split; eauto. Qed.

(* a name that is not recorded has no children, and its index entry lists at most the root *)
Lemma wf_absent_no_child s X : WF s -> X <> ROOT -> find X (infos s) = None ->
  forall c, ~ child_of (infos s) X c.
Proof.
  intros W NX FX c [Nc [ic [F E]]]. subst X.
  destruct (wf_parent s W c ic F Nc NX) as [p [Fp _]]. congruence.
Qed.

(* ------------------------------------------------------------------ min sums when one entry is (re)written *)
Lemma minsum_set s X i :
  WF s -> X <> ROOT -> self_ok i -> i_parent i <> X ->
  (unflagged i = true -> forall c, child_of (infos s) X c ->
     exists sum, min_sum (infos s) (kids (hier s) X) [] = Some sum /\ rlec sum (i_min i) = true) ->
  (unflagged i = true -> i_parent i <> ROOT ->
     exists sum p, min_sum (infos s) (sremove X (kids (hier s) (i_parent i))) [] = Some sum
       /\ find (i_parent i) (infos s) = Some p /\ rlec (radd sum (i_min i)) (i_min p) = true) ->
  forall p pi, find p (mset X i (infos s)) = Some pi -> p <> ROOT -> unflagged pi = true ->
  forall L, NoDup L -> (forall c, In c L -> uchild_of (mset X i (infos s)) p c) ->
  forall k, sumf (min_of (mset X i (infos s)) k) L <= val k (i_min pi).
Proof.
  intros W NX SO NPX C1 C2 p pi Fp Np Up L ND HL k.
  set (m' := mset X i (infos s)) in *.
  assert (forall c, c <> X -> min_of m' k c = min_of (infos s) k c) as FA.
  { intros c Nc. unfold min_of, m'. now rewrite find_mset_neq. }
  assert (min_of m' k X = val k (i_min i)) as FB.
  { unfold min_of, m'. now rewrite find_mset_eq. }
  assert (forall c, c <> X -> uchild_of m' p c -> uchild_of (infos s) p c) as FC.
  { intros c Nc [N0 [ic [F R]]]. split; [exact N0|]. exists ic.
    unfold m' in F. rewrite find_mset_neq in F by exact Nc. auto. }
  destruct SO as [NNmin [NNmax _]].
  destruct (Z.eq_dec p X) as [->|NpX].
  - (* the rewritten quota as a parent *)
    unfold m' in Fp. rewrite find_mset_eq in Fp. injection Fp as <-.
    assert (forall c, In c L -> c <> X) as LX.
    { intros c Hc ->. destruct (HL X Hc) as [_ [ic [F [E _]]]].
      unfold m' in F. rewrite find_mset_eq in F. injection F as <-. contradiction. }
    destruct L as [|c0 L0].
    + cbn [sumf]. now apply nonneg_val.
    + assert (child_of (infos s) X c0) as Hc0.
      { apply uchild_child, FC; [apply LX; now left|apply HL; now left]. }
      destruct (C1 Up c0 Hc0) as [sum [MS LE]].
      pose proof (min_sum_val _ _ _ _ MS k) as V. rewrite val_nil in V.
      pose proof (rlec_val _ _ k LE NNmin) as LE'.
      rewrite (sumf_ext _ (min_of (infos s) k)) by (intros; apply FA; now apply LX).
      assert (sumf (min_of (infos s) k) (c0 :: L0) <= sumf (min_of (infos s) k) (kids (hier s) X)).
      { apply sumf_incl_le; [exact ND| |intros; now apply wf_min_of_nonneg].
        intros c Hc. apply wf_child_in_kids; [exact W|exact NX|].
        apply uchild_child, FC; [now apply LX|now apply HL]. }
      lia.
  - (* another parent *)
    unfold m' in Fp. rewrite find_mset_neq in Fp by exact NpX.
    destruct (in_dec Z.eq_dec X L) as [HX|HX].
    + destruct (HL X HX) as [_ [ic [F [E U]]]].
      unfold m' in F. rewrite find_mset_eq in F. injection F as <-.
      assert (i_parent i <> ROOT) as NR by congruence.
      destruct (C2 U NR) as [sum [p0 [MS [Fp0 LE]]]].
      rewrite E, Fp in Fp0. injection Fp0 as <-.
      pose proof (min_sum_val _ _ _ _ MS k) as V. rewrite val_nil in V.
      destruct (wf_self s W p pi Fp) as [NNp _].
      pose proof (rlec_val _ _ k LE NNp) as LE'. rewrite val_radd in LE'.
      assert (sumf (min_of m' k) L
              <= sumf (min_of m' k) (X :: sremove X (kids (hier s) (i_parent i)))) as S1.
      { apply sumf_incl_le; [exact ND| |].
        - intros c Hc. destruct (Z.eq_dec c X) as [->|Nc]; [now left|right].
          apply In_sremove. split; [|exact Nc].
          apply wf_child_in_kids; [exact W|exact NR|].
          rewrite E. apply uchild_child, FC; [exact Nc|now apply HL].
        - intros c [<-|Hc].
          + rewrite FB. now apply nonneg_val.
          + apply In_sremove in Hc. rewrite FA by tauto. now apply wf_min_of_nonneg. }
      cbn [sumf] in S1. rewrite FB in S1.
      rewrite (sumf_ext (min_of m' k) (min_of (infos s) k)
                 (sremove X (kids (hier s) (i_parent i)))) in S1.
      * lia.
      * intros c Hc. apply FA. apply In_sremove in Hc. tauto.
    + rewrite (sumf_ext _ (min_of (infos s) k)).
      * apply (wf_minsum s W p pi Fp Np Up L ND).
        intros c Hc. apply FC; [intros ->; contradiction|now apply HL].
      * intros c Hc. apply FA. intros ->. contradiction.
Qed.

(* ------------------------------------------------------------------ ValidAddQuota *)
Lemma gate_add_apply s q : gate_keys (add_apply s q) = gate_keys s.
Proof. reflexivity. Qed.

Lemma WF_add s pods q : WF s -> add_code s pods q = 0 -> WF (add_apply s q).
Proof.
  intros W. unfold add_code.
  destruct (mem (q_name q) (infos s)) eqn:M; [discriminate|].
  destruct (existsb _ (ann_ns q)); [discriminate|].
  destruct (self_item_ok q) eqn:SI; cbn [negb]; [|discriminate].
  destruct (topology_ok s pods None (q_name q) (info_of q) []) eqn:T; cbn [negb]; [|discriminate].
  intros _.
  apply mem_false in M. apply self_item_self_ok in SI.
  set (X := q_name q) in *. set (i := info_of q) in *.
  assert (forall n, find n (infos (add_apply s q)) = if n =? X then Some i else find n (infos s)) as FI.
  { intro n. unfold add_apply. cbn [infos]. apply find_mset. }
  assert (forall k, kids (hier (add_apply s q)) k =
          if k =? i_parent i then sadd X (if i_parent i =? X then [] else kids (hier s) (i_parent i))
          else if k =? X then [] else kids (hier s) k) as KI.
  { intro k. unfold add_apply. cbn [hier]. fold X i. rewrite kids_add_child, !kids_mset. reflexivity. }
  assert (forall n, mem n (hier s) = true -> mem n (hier (add_apply s q)) = true) as MI.
  { intros n H. unfold add_apply. cbn [hier]. rewrite mem_add_child, mem_mset, H.
    now rewrite !orb_true_r. }
  destruct (Z.eq_dec X ROOT) as [XR|XR].
  - (* the root object: no check applies and no non-root quota is touched *)
    assert (forall n, n <> ROOT -> find n (infos (add_apply s q)) = find n (infos s)) as FN.
    { intros n N. rewrite FI. rewrite XR. now rewrite (proj2 (Z.eqb_neq _ _) N). }
    constructor.
    + intros n ni F N NP. rewrite FN in F by exact N.
      destruct (wf_parent s W n ni F N NP) as [p [Fp IP]]. exists p. rewrite FN; auto.
    + intros n ni F. destruct (Z.eq_dec n ROOT) as [->|N]; [constructor|].
      rewrite FN in F by exact N.
      apply (Reach_redirect (infos s) _ ROOT); [intros; now apply FN|constructor|].
      eapply wf_reach; eauto.
    + intros n ni F. rewrite FI in F. destruct (n =? X); [injection F as <-; exact SI|].
      eapply wf_self; eauto.
    + intros p pi Fp Np Up L ND HL k. rewrite FN in Fp by exact Np.
      rewrite (sumf_ext _ (min_of (infos s) k)).
      * apply (wf_minsum s W p pi Fp Np Up L ND). intros c Hc.
        destruct (HL c Hc) as [Nc [ic [F R]]]. rewrite FN in F by exact Nc.
        split; eauto.
      * intros c Hc. destruct (HL c Hc) as [Nc _]. unfold min_of. now rewrite FN.
    + intros n ni p F N NP Fp. rewrite FN in F by exact N. rewrite FN in Fp by exact NP.
      rewrite gate_add_apply. eapply wf_keys; eauto.
    + intros n ni p F N NP Fp. rewrite FN in F by exact N. rewrite FN in Fp by exact NP.
      eapply wf_tree; eauto.
    + intros n ni F. rewrite FI in F. destruct (n =? X) eqn:E.
      * apply Z.eqb_eq in E. subst n. unfold add_apply. cbn [hier]. fold X i.
        rewrite mem_add_child, mem_mset, Z.eqb_refl. now rewrite orb_true_r.
      * apply MI. eapply wf_index_key; eauto.
    + intros n ni F N NP. rewrite FN in F by exact N.
      rewrite children_kids, KI.
      pose proof (wf_index_in s W n ni F N NP) as H. rewrite children_kids in H.
      assert (i_parent ni <> X) as NPX' by congruence.
      destruct (Z.eqb_spec (i_parent ni) (i_parent i)) as [EP|EP].
      * apply In_sadd. right. rewrite <- EP. now rewrite (proj2 (Z.eqb_neq _ _) NPX').
      * now rewrite (proj2 (Z.eqb_neq _ _) NPX').
    + intros k c Hc Nc. rewrite children_kids, KI in Hc.
      assert (In c (kids (hier s) k)) as Hc'.
      { destruct (k =? i_parent i) eqn:E1.
        - apply In_sadd in Hc. destruct Hc as [->|Hc]; [congruence|].
          apply Z.eqb_eq in E1. subst k.
          destruct (i_parent i =? X); [destruct Hc|exact Hc].
        - destruct (k =? X); [destruct Hc|exact Hc]. }
      destruct (wf_index_only s W k c Hc' Nc) as [_ [ic [F E]]].
      split; [exact Nc|]. exists ic. rewrite FN; auto.
  - (* an ordinary quota *)
    destruct (topology_ok_split _ _ _ _ _ _ XR T) as [_ [TR ALT]].
    pose proof (wf_absent_no_child s X W XR M) as NOCH.
    assert (i_parent i <> ROOT -> exists p, find (i_parent i) (infos s) = Some p
              /\ i_is_parent p = true /\ i_parent i <> X
              /\ parent_ok s X (i_parent i) = true /\ keys_ok s X i = true /\ min_ok s X i = true) as PAR.
    { intro NP. destruct ALT as [[E _]|[PO [KO MO]]]; [contradiction|].
      destruct (parent_ok_facts _ _ _ PO NP) as [p [Fp [_ [IP [NE _]]]]].
      exists p. repeat split; auto. }
    assert (i_parent i <> X) as NPX.
    { destruct (Z.eq_dec (i_parent i) ROOT) as [E|NP]; [congruence|].
      destruct (PAR NP) as [p [_ [_ [NE _]]]]. exact NE. }
    assert (forall n ni, find n (infos s) = Some ni -> n <> X) as OLD by (intros n ni F ->; congruence).
    constructor.
    + intros n ni F N NP. rewrite FI in F. destruct (n =? X) eqn:E.
      * injection F as <-. destruct (PAR NP) as [p [Fp [IP [NE _]]]].
        exists p. rewrite FI. rewrite (proj2 (Z.eqb_neq _ _) NE). auto.
      * destruct (wf_parent s W n ni F N NP) as [p [Fp IP]]. exists p.
        rewrite FI. rewrite (proj2 (Z.eqb_neq _ _) (OLD _ _ Fp)). auto.
    + assert (forall n, Reach (infos s) n -> Reach (infos (add_apply s q)) n) as MONO.
      { intros n R. apply (ReachAvoid_redirect (infos s) _ X).
        - intros k Nk. rewrite FI. now rewrite (proj2 (Z.eqb_neq _ _) Nk).
        - now apply ReachAvoid_find_None. }
      intros n ni F. rewrite FI in F. destruct (n =? X) eqn:E.
      * apply Z.eqb_eq in E. subst n. injection F as <-.
        apply Reach_step with i; [exact XR|rewrite FI; now rewrite Z.eqb_refl|].
        destruct (Z.eq_dec (i_parent i) ROOT) as [->|NP]; [constructor|].
        destruct (PAR NP) as [p [Fp _]]. apply MONO. eapply wf_reach; eauto.
      * apply MONO. eapply wf_reach; eauto.
    + intros n ni F. rewrite FI in F. destruct (n =? X); [injection F as <-; exact SI|].
      eapply wf_self; eauto.
    + unfold add_apply. cbn [infos]. fold X i.
      apply minsum_set; auto.
      * intros _ c Hc. exfalso. eapply NOCH; eauto.
      * intros U NP. destruct (PAR NP) as [p [Fp [_ [_ [_ [_ MO]]]]]].
        apply min_ok_parent; auto.
    + intros n ni p F N NP Fp. rewrite gate_add_apply. rewrite FI in F, Fp. destruct (n =? X) eqn:E.
      * injection F as <-. destruct (PAR NP) as [p0 [Fp0 [_ [NE [_ [KO _]]]]]].
        rewrite (proj2 (Z.eqb_neq _ _) NE) in Fp. eapply keys_ok_parent; eauto.
      * destruct (wf_parent s W n ni F N NP) as [p0 [Fp0 _]].
        rewrite (proj2 (Z.eqb_neq _ _) (OLD _ _ Fp0)) in Fp. eapply wf_keys; eauto.
    + intros n ni p F N NP Fp. rewrite FI in F, Fp. destruct (n =? X) eqn:E.
      * injection F as <-. destruct (PAR NP) as [p0 [Fp0 [_ [NE _]]]].
        rewrite (proj2 (Z.eqb_neq _ _) NE) in Fp. eapply tree_ok_parent; eauto.
      * destruct (wf_parent s W n ni F N NP) as [p0 [Fp0 _]].
        rewrite (proj2 (Z.eqb_neq _ _) (OLD _ _ Fp0)) in Fp. eapply wf_tree; eauto.
    + intros n ni F. rewrite FI in F. destruct (n =? X) eqn:E.
      * apply Z.eqb_eq in E. subst n. unfold add_apply. cbn [hier]. fold X i.
        rewrite mem_add_child, mem_mset, Z.eqb_refl. now rewrite orb_true_r.
      * apply MI. eapply wf_index_key; eauto.
    + intros n ni F N NP. rewrite FI in F. rewrite children_kids, KI. destruct (n =? X) eqn:E.
      * apply Z.eqb_eq in E. subst n. injection F as <-. rewrite Z.eqb_refl.
        apply In_sadd. now left.
      * apply Z.eqb_neq in E.
        pose proof (wf_index_in s W n ni F N NP) as H. rewrite children_kids in H.
        destruct (wf_parent s W n ni F N NP) as [p0 [Fp0 _]].
        rewrite (proj2 (Z.eqb_neq _ _) (OLD _ _ Fp0)).
        destruct (i_parent ni =? i_parent i) eqn:E1; [|exact H].
        apply Z.eqb_eq in E1. apply In_sadd. right. rewrite <- E1.
        now rewrite (proj2 (Z.eqb_neq _ _) (OLD _ _ Fp0)).
    + intros k c Hc Nc. rewrite children_kids, KI in Hc.
      assert (c = X /\ k = i_parent i \/ In c (kids (hier s) k)) as D.
      { destruct (k =? i_parent i) eqn:E1.
        - apply Z.eqb_eq in E1. apply In_sadd in Hc. destruct Hc as [->|Hc]; [now left|right].
          subst k. destruct (i_parent i =? X); [destruct Hc|exact Hc].
        - right. destruct (k =? X); [destruct Hc|exact Hc]. }
      destruct D as [[-> ->]|Hc'].
      * split; [exact XR|]. exists i. rewrite FI, Z.eqb_refl. auto.
      * destruct (wf_index_only s W k c Hc' Nc) as [_ [ic [F E]]].
        split; [exact Nc|]. exists ic. rewrite FI.
        rewrite (proj2 (Z.eqb_neq _ _) (OLD _ _ F)). auto.
Qed.

(* ------------------------------------------------------------------ ValidUpdateQuota *)
Lemma WF_update s pods o n : WF s -> update_code s pods o n = 0 -> WF (update_apply s o n).
Proof.
  intros W. unfold update_code.
  destruct (fields_eq o n); [discriminate|].
  destruct ((q_name n =? SYSTEM) || (q_name n =? ROOT)) eqn:SR; [discriminate|].
  destruct (existsb _ (ann_ns n)); [discriminate|].
  destruct (find (q_name n) (infos s)) as [oi|] eqn:FX; [|discriminate].
  destruct (self_item_ok n) eqn:SI; cbn [negb]; [|discriminate].
  destruct (topology_ok s pods (Some oi) (q_name n) (info_of n) (ann_ns o)) eqn:T;
    cbn [negb]; [|discriminate].
  intros _.
  apply orb_false_iff in SR. destruct SR as [_ XR]. apply Z.eqb_neq in XR.
  apply self_item_self_ok in SI.
  unfold update_apply. rewrite FX.
  set (X := q_name n) in *. set (i := info_of n) in *.
  set (A := i_parent oi) in *. set (B := i_parent i) in *.
  match goal with |- WF ?t => set (s' := t) end.
  assert (forall k, find k (infos s') = if k =? X then Some i else find k (infos s)) as FI.
  { intro k. unfold s'. cbn [infos]. apply find_mset. }
  assert (forall k c, In c (kids (hier s') k) <->
            ((A <> B /\ k = B /\ c = X) \/ (In c (kids (hier s) k) /\ ~ (A <> B /\ k = A /\ c = X)))) as KI.
  { intros k c. unfold s'. cbn [hier]. destruct (Z.eqb_spec A B) as [EAB|NAB].
    - split; [intro H; right; split; [exact H|tauto]|intros [[H _]|[H _]]; [contradiction|exact H]].
    - rewrite kids_add_child. destruct (Z.eqb_spec k B) as [->|NkB].
      + rewrite In_sadd, In_kids_del_child. split.
        * intros [->|[H1 H2]]; [left; auto|right; split; [exact H1|tauto]].
        * intros [[_ [_ ->]]|[H1 H2]]; [now left|right; split; [exact H1|tauto]].
      + rewrite In_kids_del_child. split.
        * intros [H1 H2]. right. split; [exact H1|tauto].
        * intros [[_ [H _]]|[H1 H2]]; [contradiction|split; [exact H1|tauto]]. }
  assert (forall k, mem k (hier s) = true -> mem k (hier s') = true) as MI.
  { intros k H. unfold s'. cbn [hier]. destruct (A =? B); [exact H|].
    rewrite mem_add_child, mem_del_child, H. apply orb_true_r. }
  destruct (topology_ok_split _ _ _ _ _ _ XR T) as [IPC [TR ALT]].
  assert (forall c, child_of (infos s) X c -> i_is_parent i = true) as F1.
  { intros c Hc. pose proof (wf_child_in_kids s W X c XR Hc) as Hk.
    destruct Hc as [Nc [ic [Fc Ec]]].
    destruct (wf_parent s W c ic Fc Nc) as [p [Fp IP]]; [now rewrite Ec|].
    rewrite Ec, FX in Fp. injection Fp as <-.
    eapply is_parent_change_keeps; eauto. rewrite children_kids. intro E. rewrite E in Hk. destruct Hk. }
  assert (forall c, child_of (infos s) X c ->
            parent_ok s X B = true /\ keys_ok s X i = true /\ min_ok s X i = true) as NONEARLY.
  { intros c Hc. destruct ALT as [[_ E]|H]; [|exact H]. rewrite (F1 c Hc) in E. discriminate. }
  assert (B <> ROOT -> exists p, find B (infos s) = Some p
              /\ i_is_parent p = true /\ B <> X
              /\ parent_ok s X B = true /\ keys_ok s X i = true /\ min_ok s X i = true) as PAR.
  { intro NP. destruct ALT as [[E _]|[PO [KO MO]]]; [contradiction|].
    destruct (parent_ok_facts _ _ _ PO NP) as [p [Fp [_ [IP [NE _]]]]].
    exists p. repeat split; auto. }
  assert (B <> X) as NPX.
  { destruct (Z.eq_dec B ROOT) as [E|NP]; [congruence|].
    destruct (PAR NP) as [p [_ [_ [NE _]]]]. exact NE. }
  assert (Reach (infos s') X) as RX.
  { apply Reach_step with i; [exact XR|rewrite FI; now rewrite Z.eqb_refl|]. fold B.
    destruct (Z.eq_dec B ROOT) as [->|NP]; [constructor|].
    destruct (PAR NP) as [p [Fp [_ [_ [PO _]]]]].
    destruct (parent_ok_facts _ _ _ PO NP) as [_ [_ [_ [_ [_ AO]]]]].
    apply (ReachAvoid_redirect (infos s) _ X).
    - intros k Nk. rewrite FI. now rewrite (proj2 (Z.eqb_neq _ _) Nk).
    - assert (reach_b (infos s) (length (infos s)) B = true) as RB
        by (apply Reach_reach_b; eapply wf_reach; eauto).
      apply (anc_ok_avoid (infos s) X _ B RB (S (length (infos s)))); [lia|exact AO|exact NP]. }
  constructor.
  - intros k ki F N NP. rewrite FI in F. destruct (Z.eqb_spec k X) as [->|NkX].
    + injection F as <-. destruct (PAR NP) as [p [Fp [IP [NE _]]]].
      exists p. rewrite FI. fold B. rewrite (proj2 (Z.eqb_neq _ _) NE). auto.
    + destruct (wf_parent s W k ki F N NP) as [p [Fp IP]].
      rewrite FI. destruct (Z.eqb_spec (i_parent ki) X) as [EP|NPX'].
      * exists i. split; [reflexivity|]. apply (F1 k). split; [exact N|eauto].
      * exists p. auto.
  - intros k ki F. rewrite FI in F. destruct (Z.eqb_spec k X) as [->|NkX]; [exact RX|].
    apply (Reach_redirect (infos s) _ X); [|exact RX|eapply wf_reach; eauto].
    intros k0 Nk. rewrite FI. now rewrite (proj2 (Z.eqb_neq _ _) Nk).
  - intros k ki F. rewrite FI in F. destruct (k =? X); [injection F as <-; exact SI|].
    eapply wf_self; eauto.
  - unfold s'. cbn [infos]. apply minsum_set; auto.
    + intros U c Hc. destruct (NONEARLY c Hc) as [_ [_ MO]].
      apply min_ok_children; auto. rewrite children_kids. intro E.
      pose proof (wf_child_in_kids s W X c XR Hc) as Hk. rewrite E in Hk. destruct Hk.
    + intros U NP. destruct (PAR NP) as [p [_ [_ [_ [_ [_ MO]]]]]]. apply min_ok_parent; auto.
  - intros k ki p F N NP Fp. change (gate_keys s') with (gate_keys s).
    rewrite FI in F, Fp. destruct (Z.eqb_spec k X) as [->|NkX].
    + injection F as <-. destruct (PAR NP) as [p0 [Fp0 [_ [NE [_ [KO _]]]]]].
      fold B in Fp. rewrite (proj2 (Z.eqb_neq _ _) NE) in Fp. eapply keys_ok_parent; eauto.
    + destruct (Z.eqb_spec (i_parent ki) X) as [EP|NPX'].
      * injection Fp as <-.
        assert (child_of (infos s) X k) as Hc by (split; [exact N|eauto]).
        destruct (NONEARLY k Hc) as [_ [KO _]].
        eapply keys_ok_child; eauto. rewrite children_kids. now apply wf_child_in_kids.
      * eapply wf_keys; eauto.
  - intros k ki p F N NP Fp. rewrite FI in F, Fp. destruct (Z.eqb_spec k X) as [->|NkX].
    + injection F as <-. destruct (PAR NP) as [p0 [Fp0 [_ [NE _]]]].
      fold B in Fp. rewrite (proj2 (Z.eqb_neq _ _) NE) in Fp. eapply tree_ok_parent; eauto.
    + destruct (Z.eqb_spec (i_parent ki) X) as [EP|NPX'].
      * injection Fp as <-.
        assert (child_of (infos s) X k) as Hc by (split; [exact N|eauto]).
        eapply tree_ok_child; eauto. rewrite children_kids. now apply wf_child_in_kids.
      * eapply wf_tree; eauto.
  - intros k ki F. rewrite FI in F. apply MI. destruct (Z.eqb_spec k X) as [->|NkX].
    + eapply wf_index_key; eauto.
    + eapply wf_index_key; eauto.
  - intros k ki F N NP. rewrite FI in F. rewrite children_kids. apply KI.
    destruct (Z.eqb_spec k X) as [->|NkX].
    + injection F as <-. fold B. destruct (Z.eq_dec A B) as [EAB|NAB].
      * right. split; [|tauto]. rewrite <- EAB. rewrite <- children_kids.
        eapply wf_index_in; eauto. unfold A, B in *. congruence.
      * left. auto.
    + right. split; [|tauto]. rewrite <- children_kids. eapply wf_index_in; eauto.
  - intros k c Hc Nc. rewrite children_kids in Hc. apply KI in Hc.
    destruct Hc as [[NAB [-> ->]]|[Hc NN]].
    + split; [exact XR|]. exists i. rewrite FI, Z.eqb_refl. auto.
    + destruct (wf_index_only s W k c Hc Nc) as [_ [ic [F E]]].
      split; [exact Nc|]. rewrite FI. destruct (Z.eqb_spec c X) as [->|NcX].
      * rewrite FX in F. injection F as <-. fold A in E. exists i. split; [reflexivity|]. fold B.
        destruct (Z.eq_dec A B) as [EAB|NAB]; [congruence|]. exfalso. apply NN. auto.
      * exists ic. auto.
Qed.

(* ------------------------------------------------------------------ ValidDeleteQuota *)
Lemma delete_code_facts s pods q : delete_code s pods q = 0 ->
  q_name q <> ROOT /\ (exists xi, find (q_name q) (infos s) = Some xi)
  /\ find (q_name q) (hier s) = Some [] /\ existsb (fun p => fst p =? q_name q) pods = false
  /\ has_pods pods (q_name q) (ann_ns q) = false.
Proof.
  unfold delete_code.
  destruct ((q_name q =? SYSTEM) || (q_name q =? ROOT) || (q_name q =? DEFAULTQ)) eqn:E; [discriminate|].
  destruct (find (q_name q) (infos s)) as [xi|]; [|discriminate].
  destruct (find (q_name q) (hier s)) as [cs|]; [|discriminate].
  destruct cs; cbn [nonempty]; [|discriminate].
  destruct (existsb _ pods); [discriminate|].
  destruct (has_pods pods (q_name q) (ann_ns q)); [discriminate|]. intros _.
  apply orb_false_iff in E. destruct E as [E _]. apply orb_false_iff in E. destruct E as [_ E].
  apply Z.eqb_neq in E. repeat split; eauto.
Qed.

Lemma WF_delete s pods q : WF s -> delete_code s pods q = 0 -> WF (delete_apply s q).
Proof.
  intros W H. destruct (delete_code_facts _ _ _ H) as [XR [[xi FX] [HX _]]].
  unfold delete_apply. rewrite FX.
  set (X := q_name q) in *. set (A := i_parent xi).
  match goal with |- WF ?t => set (s' := t) end.
  assert (forall k, find k (infos s') = if k =? X then None else find k (infos s)) as FI.
  { intro k. unfold s'. cbn [infos]. apply find_mremove. }
  assert (forall k c, In c (kids (hier s') k) <->
            (k <> X /\ In c (kids (hier s) k) /\ ~ (k = A /\ c = X))) as KI.
  { intros k c. unfold s'. cbn [hier]. rewrite kids_mremove.
    destruct (Z.eqb_spec k X) as [->|N]; [split; [intros []|tauto]|].
    rewrite In_kids_del_child. tauto. }
  assert (forall c, ~ child_of (infos s) X c) as NOCH.
  { intros c Hc. pose proof (wf_child_in_kids s W X c XR Hc) as Hk.
    unfold kids in Hk. rewrite HX in Hk. destruct Hk. }
  assert (forall k ki, find k (infos s') = Some ki -> k <> X /\ find k (infos s) = Some ki) as OLD.
  { intros k ki F. rewrite FI in F. destruct (Z.eqb_spec k X); [discriminate|auto]. }
  assert (forall k ki, find k (infos s) = Some ki -> k <> ROOT -> i_parent ki <> X) as NPX.
  { intros k ki F N E. apply (NOCH k). split; eauto. }
  constructor.
  - intros k ki F N NP. destruct (OLD _ _ F) as [NkX F0].
    destruct (wf_parent s W k ki F0 N NP) as [p [Fp IP]]. exists p. rewrite FI.
    rewrite (proj2 (Z.eqb_neq _ _) (NPX _ _ F0 N)). auto.
  - intros k ki F. destruct (OLD _ _ F) as [NkX F0]. unfold s'. cbn [infos].
    apply Reach_remove; auto. eapply wf_reach; eauto.
  - intros k ki F. destruct (OLD _ _ F) as [NkX F0]. eapply wf_self; eauto.
  - intros p pi Fp Np Up L ND HL k. destruct (OLD _ _ Fp) as [NpX Fp0].
    assert (forall c, In c L -> c <> X /\ uchild_of (infos s) p c) as HL'.
    { intros c Hc. destruct (HL c Hc) as [Nc [ic [F R]]]. destruct (OLD _ _ F) as [NcX F0].
      split; [exact NcX|]. split; eauto. }
    rewrite (sumf_ext _ (min_of (infos s) k)).
    + apply (wf_minsum s W p pi Fp0 Np Up L ND). intros c Hc. now apply HL'.
    + intros c Hc. unfold min_of. rewrite FI.
      now rewrite (proj2 (Z.eqb_neq _ _) (proj1 (HL' c Hc))).
  - intros k ki p F N NP Fp. destruct (OLD _ _ F) as [NkX F0]. destruct (OLD _ _ Fp) as [_ Fp0].
    change (gate_keys s') with (gate_keys s). eapply wf_keys; eauto.
  - intros k ki p F N NP Fp. destruct (OLD _ _ F) as [NkX F0]. destruct (OLD _ _ Fp) as [_ Fp0].
    eapply wf_tree; eauto.
  - intros k ki F. destruct (OLD _ _ F) as [NkX F0]. unfold s'. cbn [hier].
    unfold mem. rewrite find_mremove_neq by exact NkX.
    pose proof (wf_index_key s W k ki F0) as H0. rewrite <- (mem_del_child (hier s) A X k) in H0.
    exact H0.
  - intros k ki F N NP. destruct (OLD _ _ F) as [NkX F0]. rewrite children_kids. apply KI.
    split; [exact (NPX _ _ F0 N)|]. split; [|tauto].
    rewrite <- children_kids. eapply wf_index_in; eauto.
  - intros k c Hc Nc. rewrite children_kids in Hc. apply KI in Hc. destruct Hc as [NkX [Hc NN]].
    destruct (wf_index_only s W k c Hc Nc) as [_ [ic [F E]]].
    split; [exact Nc|]. exists ic. rewrite FI. destruct (Z.eqb_spec c X) as [->|NcX]; [|auto].
    exfalso. apply NN. rewrite FX in F. injection F as <-. auto.
Qed.

(* ------------------------------------------------------------------ all histories *)
Lemma WF_step s r : WF s -> WF (step s r).
Proof.
  intro W. unfold step. destruct (code s r =? 0) eqn:E; [|exact W].
  apply Z.eqb_eq in E. unfold code in E. destruct r as [pods [q|o n|q]]; cbn [fst snd] in *.
  - eapply WF_add; eauto.
  - eapply WF_update; eauto.
  - eapply WF_delete; eauto.
Qed.

Lemma WF_fold rs : forall s, WF s -> WF (fold_left step rs s).
Proof. induction rs as [|r rs IH]; intros s W; cbn [fold_left]; [exact W|apply IH, WF_step, W]. Qed.

Lemma WF_run g rs : WF (run g rs).
Proof. apply WF_fold, WF_init. Qed.
