(* C15 — exported theorems only: each is closed by [exact] and followed by Print Assumptions. *)
From Coq Require Import List ZArith Bool.
From Verif Require Import C15.Model C15.Spec C15.Proofs C15.Proofs_inv.
Import ListNotations.
Open Scope Z_scope.

(* the initial record is well formed and every request (accepted or not) keeps it so *)
Theorem c15_inv : WF init_topo /\ (forall s r, WF s -> WF (step s r)).
Proof. exact (conj WF_init WF_step). Qed.
Print Assumptions c15_inv.

(* after ANY finite sequence of create/update/delete requests (any payloads, any pods in the
   environment, any old objects) the recorded quotas form a well-formed tree *)
Theorem c15_accepted_histories_wf : forall rs, WF (run rs).
Proof. exact WF_run. Qed.
Print Assumptions c15_accepted_histories_wf.

(* a rejected request leaves the recorded topology unchanged *)
Theorem c15_reject_frame : forall s r, accepted s r = false -> step s r = s.
Proof. exact reject_frame. Qed.
Print Assumptions c15_reject_frame.
