(* C15 — exported theorems only: each is closed by [exact] and followed by Print Assumptions. *)
From Coq Require Import List ZArith Bool.
From Verif Require Import C15.Model C15.Spec C15.Proofs.
Import ListNotations.
Open Scope Z_scope.

(* a rejected request leaves the recorded topology unchanged *)
Theorem c15_reject_frame : forall s r, accepted s r = false -> step s r = s.
Proof. exact reject_frame. Qed.
Print Assumptions c15_reject_frame.
