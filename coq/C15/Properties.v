(* C15 — exported theorems only: each is closed by [exact] and followed by Print Assumptions. *)
From Coq Require Import List ZArith Bool.
From Verif Require Import C15.Model C15.Spec C15.Informer C15.SpecInf C15.Proofs C15.Proofs_maps C15.Proofs_reach
     C15.Proofs_inv C15.Proofs_spec C15.Proofs_ns C15.Proofs_hist C15.Proofs_examples
     C15.Proofs_inf_base C15.Proofs_inf_apply C15.Proofs_inf_hist C15.Proofs_inf_examples.
Import ListNotations.
Open Scope Z_scope.

(* the initial record is well formed and every request (accepted or not) keeps it so *)
Theorem c15_inv : (forall g, WF (init_topo g)) /\ (forall s r, WF s -> WF (step s r)).
Proof. exact (conj WF_init WF_step). Qed.
Print Assumptions c15_inv.

(* after ANY finite sequence of create/update/delete requests (any payloads, any pods in the
   environment, any old objects) the recorded quotas form a well-formed tree: parents exist and
   are parents, parent links reach the root, min within max, children's mins within the
   parent's min, dimensions and tree ids agree along edges, the children index is exact *)
Theorem c15_accepted_histories_wf : forall g rs, WF (run g rs).
Proof. exact WF_run. Qed.
Print Assumptions c15_accepted_histories_wf.

(* the executable decision procedure used on the implementation's observables decides WF ... *)
Theorem c15_wf_code_spec : forall s, ksorted (infos s) -> (wf_code s = 0 <-> WF s).
Proof. exact wf_code_spec. Qed.
Print Assumptions c15_wf_code_spec.

(* ... and holds of every reachable record *)
Theorem c15_wf_decided : forall g rs, wf_code (run g rs) = 0.
Proof. exact (fun g rs => wf_code_complete (run g rs) (proj1 (sorted_run g rs)) (WF_run g rs)). Qed.
Print Assumptions c15_wf_decided.

(* the walk up the parent links that the scheduler performs without a bound
   (getCurToAllParentGroupQuotaInfoNoLock) ends at the root within |quotas| steps *)
Theorem c15_parent_walk_terminates : forall g rs n i,
  find n (infos (run g rs)) = Some i ->
  reach_b (infos (run g rs)) (length (infos (run g rs))) n = true.
Proof. exact (fun g rs n i F => Reach_reach_b _ n (wf_reach _ (WF_run g rs) n i F)). Qed.
Print Assumptions c15_parent_walk_terminates.

(* a rejected request leaves the recorded topology unchanged *)
Theorem c15_reject_frame : forall s r, accepted s r = false -> step s r = s.
Proof. exact reject_frame. Qed.
Print Assumptions c15_reject_frame.

(* an accepted deletion: the quota had no child and no bound pod (carrying its label, in the
   namespace named like it, or in a namespace it declares), and is gone afterwards *)
Theorem c15_delete_guard : forall g rs pods q,
  accepted (run g rs) (pods, Delete q) = true ->
  (forall c, ~ child_of (infos (run g rs)) (q_name q) c)
  /\ has_pods pods (q_name q) (ann_ns q) = false
  /\ find (q_name q) (infos (step (run g rs) (pods, Delete q))) = None.
Proof. exact (fun g rs pods q => delete_guard (run g rs) pods q (WF_run g rs)). Qed.
Print Assumptions c15_delete_guard.

(* namespaces: in a history where the old objects of accepted updates/deletes are the stored
   ones (what the API server sends), the namespace map binds exactly what the admitted objects
   declare ... *)
Theorem c15_namespace_map_exact : forall g rs,
  let '(s, st, cn) := hist_state (init_topo g) [] true rs in cn = true -> NsOK st s.
Proof. exact ns_hist. Qed.
Print Assumptions c15_namespace_map_exact.

(* ... hence no namespace is declared by two admitted quotas *)
Theorem c15_namespace_unique : forall g rs,
  let '(s, st, cn) := hist_state (init_topo g) [] true rs in
  cn = true ->
  forall a b qa qb x, find a st = Some qa -> find b st = Some qb ->
    In x (ann_ns qa) -> In x (ann_ns qb) -> a = b.
Proof. exact ns_unique. Qed.
Print Assumptions c15_namespace_unique.

(* the whole-history decision procedure that bin/check evaluates on the implementation's
   observables (Extract.prop_case) holds on the model's own observable, for every history *)
Theorem c15_prop_code_model : forall g rs, prop_code g rs (trace (init_topo g) rs) = 0.
Proof. exact prop_code_trace. Qed.
Print Assumptions c15_prop_code_model.

(* ---------------------------------------------------------------- informer deliveries *)

(* histories in which admission requests and informer deliveries (OnQuotaAdd/Update/Delete) are
   interleaved in any way: the whole-history decision procedure that bin/check evaluates on the
   implementation's observables (Extract.prop_case = SpecInf.eprop_code) holds on the model's own
   observable, for EVERY history (unconditional since the early return of ValidUpdateQuota compares
   the allow-force-update / is-root labels too, see c15_unchecked_flag_drop_refuted) *)
Theorem c15_informer_prop_code_model : forall g es,
  eprop_code g es (etrace (init_topo g) es) = 0.
Proof. exact eprop_code_trace_all. Qed.
Print Assumptions c15_informer_prop_code_model.

(* the same as a statement about records: as long as every delivery was a covered one (the
   replica's own echo, repeated or not; the write of a peer that is in step), the record is a
   well-formed tree, binds exactly the namespaces the admitted objects declare, and shows
   exactly the admitted objects *)
Theorem c15_informer_histories_wf : forall g es,
  let j := ejudge (init_judge g) es in
  j_ord j = true ->
  WF (erun g es)
  /\ (j_cons j = true -> NsOK (j_st j) (erun g es))
  /\ (j_full j = true -> StoreOK (j_st j) (erun g es)).
Proof. exact covered_history_wf_all. Qed.
Print Assumptions c15_informer_histories_wf.

(* the echo: on a record that already shows the write, its handler does not panic and changes
   no lookup (quota map, children index, namespace map) — any number of times *)
Theorem c15_echo_changes_nothing : forall s w,
  Applied w s -> exists s', inf_apply s w = (s', false) /\ text s' s.
Proof. exact applied_noop. Qed.
Print Assumptions c15_echo_changes_nothing.

(* whatever the record, after a handler ran without panicking the record shows the write *)
Theorem c15_handler_applies : forall s w s',
  wf_op w = true -> inf_apply s w = (s', false) -> Applied w s'.
Proof. exact applied_after. Qed.
Print Assumptions c15_handler_applies.

(* the validating path leaves every write it admits applied (so its echo changes nothing) *)
Theorem c15_admitted_is_applied : forall s st r,
  WF s -> mem ROOT (hier s) = true -> NsOK st s -> StoreOK st s ->
  cons_full st (snd r) = true -> wf_op (snd r) = true -> code s r = 0 ->
  Applied (snd r) (step s r).
Proof. exact req_applied. Qed.
Print Assumptions c15_admitted_is_applied.

(* the write of a peer replica, delivered to a replica that is in step (well-formed record that
   shows the store; the event carries the stored old object; this replica would admit the write
   itself): the handler does not panic and leaves a well-formed record that shows the new store *)
Theorem c15_peer_write : forall s st pods w,
  sorted_topo s -> ksorted st ->
  WF s -> mem ROOT (hier s) = true -> NsOK st s -> StoreOK st s ->
  cons_full st w = true -> accepted s (pods, w) = true ->
  exists s', inf_apply s w = (s', false) /\ WF s' /\ mem ROOT (hier s') = true
             /\ NsOK (store_step st true (pods, w)) s' /\ StoreOK (store_step st true (pods, w)) s'.
Proof. exact peer_written_all. Qed.
Print Assumptions c15_peer_write.

(* clause 22 read back *)
Theorem c15_infos_okb_sound : forall st s, infos_okb st s = true ->
  (forall name q, find name st = Some q -> exists i, find name (infos s) = Some i /\ shows i q = true)
  /\ (forall name i, find name (infos s) = Some i -> mem name st = true).
Proof. exact infos_okb_sound. Qed.
Print Assumptions c15_infos_okb_sound.

(* REPAIRED FINDING, regression witness against the OLD early return of ValidUpdateQuota (which
   compared neither allow-force-update nor is-root): it admitted the update that only removes
   allow-force-update unchecked, and the informer refresh of a well-formed record then left the
   children's mins above the parent's min (clause 14); the repaired model refuses that update *)
Theorem c15_unchecked_flag_drop_refuted : exists s o n,
  wf_code s = 0 /\ update_code_old s [] o n = -1
  /\ wf_code (fst (on_update s o n)) = 14 /\ update_code s [] o n = 5.
Proof.
  exists (erun gg (firstn 4 h_flag)), (forced K6 true), K6.
  exact (conj (proj1 (proj2 (proj2 ex_flag_drop_old)))
          (conj (proj1 ex_flag_drop_old)
            (conj (proj2 (proj2 (proj2 ex_flag_drop_old))) (proj1 ex_flag_drop_repaired)))).
Qed.
Print Assumptions c15_unchecked_flag_drop_refuted.

(* ---------------------------------------------------------------- non-vacuity / regressions *)
Example c15_ex_tree_accepted : map fst (trace (init_topo (false, false)) h_tree) = [true; true; true; true].
Proof. exact ex_tree_accepted. Qed.
Example c15_ex_cycle_rejected :
  accepted (run (false, false) h_tree) ([], Update A A_under_C) = false
  /\ step (run (false, false) h_tree) ([], Update A A_under_C) = run (false, false) h_tree.
Proof. exact ex_cycle_rejected. Qed.
Example c15_ex_cycle2_rejected :
  accepted (run (false, false) [([], Add A); ([], Add B)]) ([], Update A A_under_B) = false.
Proof. exact ex_cycle2_rejected. Qed.
Example c15_ex_reparent_accepted :
  accepted (run (false, false) h_tree) ([], Update C C_under_D) = true
  /\ children (step (run (false, false) h_tree) ([], Update C C_under_D)) 6 = [5]
  /\ children (step (run (false, false) h_tree) ([], Update C C_under_D)) 4 = [].
Proof. exact ex_reparent_accepted. Qed.
Example c15_ex_minsum_rejected : code (run (false, false) h_tree) ([], Add E) = 4.
Proof. exact ex_minsum_rejected. Qed.
Example c15_ex_delete_guard :
  code (run (false, false) h_tree) ([], Delete B) = 4
  /\ code (run (false, false) h_tree) ([(5, 1000)], Delete C) = 5
  /\ code (run (false, false) h_tree) ([], Delete C) = 0.
Proof. exact ex_delete_guard. Qed.
Example c15_ex_wf_code_cycle :
  wf_code (mkTopo false false [(3, inf 4 true 5); (4, inf 3 true 5)] [(0, []); (3, [4]); (4, [3])] []) = 12.
Proof. exact ex_wf_code_cycle. Qed.
(* regression for the repaired finding: the OLD label-only deletion check admitted the deletion
   of a quota with a namespace-bound pod; the repaired one refuses it; prop_code names it (21) *)
Example c15_ex_old_delete_nsbound_refuted :
  delete_code_old (run (false, false) [([], Add Qns)]) [(-1, 1000)] Qns = 0
  /\ has_pods [(-1, 1000)] (q_name Qns) (ann_ns Qns) = true.
Proof. exact ex_old_delete_nsbound_refuted. Qed.
Example c15_ex_delete_nsbound_rejected :
  code (run (false, false) [([], Add Qns)]) ([(-1, 1000)], Delete Qns) = 6
  /\ code (run (false, false) [([], Add Qns)]) ([(-1, 3)], Delete Qns) = 6
  /\ code (run (false, false) [([], Add Qns)]) ([(-1, 1001)], Delete Qns) = 0.
Proof. exact ex_delete_nsbound_rejected. Qed.
Example c15_ex_prop_code_21 :
  prop_code (false, false) h_nsdel
    [(true, run (false, false) [([], Add Qns)]); (true, init_topo (false, false))] = 21.
Proof. exact ex_prop_code_21. Qed.
Example c15_ex_flip_nsbound_rejected :
  code (run (false, false) [([], Add Qns)])
       ([(-1, 1000)], Update Qns (with_ns (exq 3 (-1) true 1 1 20 20) [1000])) = 5.
Proof. exact ex_flip_nsbound_rejected. Qed.
Example c15_ex_consistent :
  snd (hist_state (init_topo (false, false)) [] true
         [([], Add (with_ns A [1000])); ([], Update (with_ns A [1000]) (with_ns A [1001]));
          ([], Delete (with_ns A [1001]))]) = true.
Proof. exact ex_consistent. Qed.
Example c15_ex_gate_keys :
  code (run (false, false) [([], Add A)]) ([], Add F1) = 4 /\ code (run (true, false) [([], Add A)]) ([], Add F1) = 0.
Proof. exact ex_gate_keys. Qed.
Example c15_ex_gate_guar :
  code (run (false, true) [([], Add T)]) ([], Add K5) = 0
  /\ code (run (false, true) [([], Add T0)]) ([], Add K5) = 4
  /\ code (run (false, false) [([], Add T0)]) ([], Add K5) = 0.
Proof. exact ex_gate_guar. Qed.
(* informer deliveries: a history whose deliveries are all covered (echo, repeated echo, a peer's
   create, a resync) satisfies the hypothesis and the judge; damaged records are named *)
Example c15_ex_echo_history :
  classes (init_judge gg) h_echo = [CEcho; CEcho; CEcho; CPeer; CPeer]
  /\ map fst (etrace (init_topo gg) h_echo) = [1; 1; 1; 1; 1; 1; 1; 0].
Proof. exact (conj ex_echo_classes ex_echo_outcomes). Qed.
(* the judge names the pre-repair behaviour (label removal admitted unchecked, then echoed) *)
Example c15_ex_flag_drop_judged_14 : eprop_code gg h_flag tr_flag_old = 14.
Proof. exact ex_flag_drop_judged_14. Qed.
Example c15_ex_echo_damaged_18 : eprop_code gg (firstn 4 h_echo) tr_damaged = 18.
Proof. exact ex_echo_damaged_18. Qed.
Example c15_ex_stale_record_22 : eprop_code gg h_min tr_stale = 22.
Proof. exact ex_stale_record_22. Qed.
Example c15_ex_panic_23 : eprop_code gg h_min tr_panic = 23.
Proof. exact ex_panic_23. Qed.
Example c15_ex_uncovered_delivery :
  classes (init_judge gg) h_unruly = [COut]
  /\ wf_code (erun gg h_unruly) = 11
  /\ eprop_code gg h_unruly (etrace (init_topo gg) h_unruly) = 0.
Proof. exact ex_unruly. Qed.
Example c15_ex_handler_panics :
  eout (erun gg [EReq ([], Add C_under_D)]) (EInf ([], Update C_under_D C)) = 2.
Proof. exact ex_handler_panics. Qed.
