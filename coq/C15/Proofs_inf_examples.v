(* C15 — concrete histories with informer deliveries (vm_compute): non-vacuity of the
   hypotheses, the judge's clauses on damaged records, and the witness of the open finding. *)
From Coq Require Import List ZArith Bool.
From Verif Require Import Lib.Wire C15.Model C15.Spec C15.Informer C15.SpecInf C15.Proofs_examples.
Import ListNotations.
Open Scope Z_scope.

Definition gg := (false, false).

(* q3 owns {n0,n1}; it is updated to own {n1,n2} (keeps n1); every admitted write is echoed;
   a peer creates q4 below q3; a resync of q3; q5 claiming n1 is refused *)
Definition N01 := with_ns A [1000; 1001].
Definition N12 := with_ns A [1001; 1002].
Definition Bp := exq 4 3 false 6 6 20 20.
Definition Steal := with_ns (exq 5 (-1) false 1 1 20 20) [1001].
Definition h_echo : list event :=
  [EReq ([], Add N01); EInf ([], Add N01);
   EReq ([], Update N01 N12); EInf ([], Update N01 N12); EInf ([], Update N01 N12);
   EInf ([], Add Bp); EInf ([], Update N12 N12);
   EReq ([], Add Steal)].

Lemma ex_echo_outcomes : map fst (etrace (init_topo gg) h_echo) = [1; 1; 1; 1; 1; 1; 1; 0].
Proof. vm_compute. reflexivity. Qed.

(* every delivery of h_echo is a covered one (echo, echo, repeated echo, peer, resync) *)
Fixpoint classes (j : judge) (es : list event) : list cls :=
  match es with
  | [] => []
  | e :: t =>
      match e with
      | EInf r => [classify j (fst r) (snd r)]
      | EReq _ => []
      end ++ classes (judge_step j e (eout (j_ms j) e)) t
  end.
Lemma ex_echo_classes : classes (init_judge gg) h_echo = [CEcho; CEcho; CEcho; CPeer; CPeer].
Proof. vm_compute. reflexivity. Qed.

Lemma ex_echo_prop : eprop_code gg h_echo (etrace (init_topo gg) h_echo) = 0.
Proof. vm_compute. reflexivity. Qed.

(* the judge refuses an observed history in which the echo of the overlapping namespace update
   released the namespace the quota keeps (bind-then-release instead of release-then-bind):
   the admitted object declares n1, the map no longer binds it — clause 18 *)
Definition drop_ns (x : Z) (s : topo) : topo :=
  mkTopo (gate_keys s) (gate_guar s) (infos s) (hier s) (mremove x (nsmap s)).
Definition tr_damaged : list (Z * topo) :=
  match etrace (init_topo gg) (firstn 4 h_echo) with
  | a :: b :: c :: (o, s) :: _ => [a; b; c; (o, drop_ns 1001 s)]
  | _ => []
  end.
Lemma ex_echo_damaged_18 : eprop_code gg (firstn 4 h_echo) tr_damaged = 18.
Proof. vm_compute. reflexivity. Qed.

(* ... one in which the handler recorded the OLD object — clause 22 *)
Definition A8 := exq 3 (-1) true 8 8 20 20.
Definition h_min : list event := [EReq ([], Add A); EInf ([], Add A); EReq ([], Update A A8); EInf ([], Update A A8)].
Definition tr_stale : list (Z * topo) :=
  match etrace (init_topo gg) h_min with
  | a :: (o, s) :: c :: _ => [a; (o, s); c; (1, s)]
  | _ => []
  end.
Lemma ex_stale_record_22 : eprop_code gg h_min tr_stale = 22.
Proof. vm_compute. reflexivity. Qed.

(* ... and one in which a covered delivery made the handler panic — clause 23 *)
Definition tr_panic : list (Z * topo) :=
  match etrace (init_topo gg) h_min with
  | a :: (o, s) :: c :: (o', s') :: _ => [a; (o, s); c; (2, s')]
  | _ => []
  end.
Lemma ex_panic_23 : eprop_code gg h_min tr_panic = 23.
Proof. vm_compute. reflexivity. Qed.

(* a delivery that is not covered (a deletion nobody admitted: q3 still has the child q4) puts the
   record outside the property: the model's record is then NOT a well-formed tree, and the judge
   stays silent *)
Definition h_unruly : list event := [EReq ([], Add A); EReq ([], Add B); EInf ([], Delete A)].
Lemma ex_unruly :
  classes (init_judge gg) h_unruly = [COut]
  /\ wf_code (erun gg h_unruly) = 11
  /\ eprop_code gg h_unruly (etrace (init_topo gg) h_unruly) = 0.
Proof. vm_compute. repeat split; reflexivity. Qed.

(* the handler panics on an update event whose new parent has no index entry (nil-map write) *)
Lemma ex_handler_panics :
  eout (erun gg [EReq ([], Add C_under_D)]) (EInf ([], Update C_under_D C)) = 2.
Proof. vm_compute. reflexivity. Qed.

(* REPAIRED FINDING (findings/C15-unchecked-flag-drop.md): q5 is admitted below q3 under
   allow-force-update although the children's mins (6+6) exceed q3's min (10). Before the repair
   the early return of ValidUpdateQuota compared neither allow-force-update nor is-root
   ([fields_eq_old]), so the update that only removes the label was admitted UNCHECKED
   ([update_code_old] = -1), and once it reached the record (the replica's own informer echo) the
   record was no longer a well-formed tree (clause 14). The repaired comparison includes both
   labels: the update is validated and refused (check 5), and the history passes the judge. *)
Definition forced (q : quota) (f : bool) : quota :=
  mkQuota (q_name q) (q_plabel q) (q_is_parent q) (q_tree q) (q_tree_root q) f (q_sw q)
          (q_ns_bad q) (q_ns q) (q_strict_bad q) (q_strict q) (q_used q) (q_min q) (q_max q) (q_guar q).
Definition K6 := exq 5 3 false 6 6 20 20.
Definition h_flag : list event :=
  [EReq ([], Add A); EReq ([], Add Bp); EReq ([], Add (forced K6 true)); EInf ([], Add (forced K6 true));
   EReq ([], Update (forced K6 true) K6); EInf ([], Update (forced K6 true) K6)].

Definition fields_eq_old (o n : quota) : bool :=
  (q_plabel o =? q_plabel n) && Bool.eqb (q_is_parent o) (q_is_parent n)
  && (q_tree o =? q_tree n)
  && (if q_ns_bad o then q_ns_bad n else negb (q_ns_bad n) && eq_listZ (q_ns o) (q_ns n))
  && eq_res (q_min o) (q_min n) && eq_res (q_max o) (q_max n).
Definition update_code_old (s : topo) (pods : list pod) (o n : quota) : Z :=
  if fields_eq_old o n then -1 else update_code s pods o n.

Lemma ex_flag_drop_old :
  let s := erun gg (firstn 4 h_flag) in
  update_code_old s [] (forced K6 true) K6 = -1
  /\ on_update s (forced K6 true) K6 = (fst (on_update s (forced K6 true) K6), false)
  /\ wf_code s = 0
  /\ wf_code (fst (on_update s (forced K6 true) K6)) = 14.
Proof. vm_compute. repeat split; reflexivity. Qed.

Lemma ex_flag_drop_repaired :
  code (erun gg (firstn 4 h_flag)) ([], Update (forced K6 true) K6) = 5
  /\ map fst (etrace (init_topo gg) h_flag) = [1; 1; 1; 1; 0; 1]
  /\ classes (init_judge gg) h_flag = [CEcho; COut]
  /\ eprop_code gg h_flag (etrace (init_topo gg) (firstn 5 h_flag) ++ [(1, erun gg h_flag)]) = 0.
Proof. vm_compute. repeat split; reflexivity. Qed.
(* the judge names the old behaviour when it is observed: the label removal admitted (outcome 1,
   record unchanged), then its echo refreshing the record — clause 14 *)
Definition tr_flag_old : list (Z * topo) :=
  let s := erun gg (firstn 4 h_flag) in
  etrace (init_topo gg) (firstn 4 h_flag) ++ [(1, s); (1, fst (on_update s (forced K6 true) K6))].
Lemma ex_flag_drop_judged_14 : eprop_code gg h_flag tr_flag_old = 14.
Proof. vm_compute. reflexivity. Qed.
(* without the label the same child is refused *)
Lemma ex_flag_needed : code (erun gg (firstn 2 h_flag)) ([], Add K6) = 4.
Proof. vm_compute. reflexivity. Qed.
