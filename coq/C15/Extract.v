(* C15 — flat-integer interface of the model for the generic OCaml driver.

   input  : gates nops op*         (gates = bit 0: ElasticQuotaEnableUpdateResourceKey, bit 1: ElasticQuotaGuaranteeUsage)
     op      = kind name npods (label ns)* payload [payload_old when kind=1 or 4]
               kind 0 add, 1 update, 2 delete: admission requests (ValidAddQuota / ValidUpdateQuota / ValidDeleteQuota)
               kind 3 add, 4 update, 5 delete: informer deliveries (OnQuotaAdd / OnQuotaUpdate / OnQuotaDelete)
     payload = plabel isParent tree treeRoot force sw nsBad nns ns* strictBad nstrict key* vec(used) vec(min) vec(max) vec(guaranteed)
     vec     = k (key value)*
   observable : per op   outcome(0 rejected, 1 admitted/handled, 2 handler panicked) enc_topo(state after)      (Spec.enc_topo)
     enc_topo = ninfos (name parent isParent force treeRoot tree min[3] max[3])*
                nhier (key nchildren children)*  nns (ns quota)*      (-1 = dimension not declared) *)
From Coq Require Import List ZArith Bool.
From Verif Require Import Lib.Wire C15.Model C15.Spec C15.Informer C15.SpecInf.
Import ListNotations.
Open Scope Z_scope.

Fixpoint dec_pairs (k : nat) (l : list Z) : list (Z * Z) * list Z :=
  match k with
  | O => ([], l)
  | S k' => match l with
            | a :: b :: t => let '(ps, r) := dec_pairs k' t in ((a, b) :: ps, r)
            | _ => ([], [])
            end
  end.

Definition dec_vec (l : list Z) : reslist * list Z :=
  match l with
  | k :: t => let '(ps, r) := dec_pairs (Z.to_nat k) t in
              (fold_left (fun acc p => rset (Z.to_nat (fst p)) (snd p) acc) ps [], r)
  | [] => ([], [])
  end.

Definition dec_payload (name : Z) (l : list Z) : quota * list Z :=
  match l with
  | plabel :: isp :: tree :: troot :: force :: sw :: nsbad :: t =>
      let '(nss, t1) := take_list t in
      match t1 with
      | sbad :: t2 =>
          let '(keys, t3) := take_list t2 in
          let '(used, t4) := dec_vec t3 in
          let '(mn, t5) := dec_vec t4 in
          let '(mx, t6) := dec_vec t5 in
          let '(gu, t7) := dec_vec t6 in
          (mkQuota name plabel (zb isp) tree (zb troot) (zb force) sw (zb nsbad) nss (zb sbad) keys used mn mx gu, t7)
      | [] => (mkQuota name plabel (zb isp) tree (zb troot) (zb force) sw (zb nsbad) nss false [] [] [] [] [], [])
      end
  | _ => (mkQuota name NONAME false 0 false false 0 false [] false [] [] [] [] [], [])
  end.

Definition dec_op (l : list Z) : event * list Z :=
  match l with
  | kind :: name :: np :: t =>
      let '(pods, t1) := dec_pairs (Z.to_nat np) t in
      let '(q, t2) := dec_payload name t1 in
      let mk := fun r : req => if kind <? 3 then EReq r else EInf r in
      let k := if kind <? 3 then kind else kind - 3 in
      if k =? 0 then (mk (pods, Add q), t2)
      else if k =? 1 then
        let '(o, t3) := dec_payload name t2 in (mk (pods, Update o q), t3)
      else (mk (pods, Delete q), t2)
  | _ => (EReq ([], Delete (mkQuota ROOT NONAME false 0 false false 0 false [] false [] [] [] [] [])), [])
  end.

Definition decode (inp : list Z) : (bool * bool) * list event :=
  match inp with
  | g :: t => ((Z.odd g, 2 <=? g), fst (decode_seq dec_op t))
  | [] => ((false, false), [])
  end.

Definition run_case (inp : list Z) : list Z :=
  let '(g, es) := decode inp in
  flat_map (fun e => fst e :: enc_topo (snd e)) (etrace (init_topo g) es).

(* ---------- decoding the implementation's observable ---------- *)
Definition dec_res (l : list Z) : reslist :=
  map (fun v => if v =? -1 then None else Some v) l.

Definition dec_info (l : list Z) : (Z * info) * list Z :=
  match l with
  | n :: p :: isp :: force :: troot :: tree :: t =>
      let '(mn, t1) := take_n DIMS t in
      let '(mx, t2) := take_n DIMS t1 in
      ((n, mkInfo p (zb isp) (zb force) tree (zb troot) (dec_res mn) (dec_res mx) []), t2)
  | _ => ((NONAME, mkInfo NONAME false false 0 false [] [] []), [])
  end.

Definition dec_hier (l : list Z) : (Z * list Z) * list Z :=
  match l with
  | k :: t => let '(cs, r) := take_list t in ((k, cs), r)
  | [] => ((NONAME, []), [])
  end.

Definition dec_bind (l : list Z) : (Z * Z) * list Z :=
  match l with
  | n :: q :: t => ((n, q), t)
  | _ => ((NONAME, NONAME), [])
  end.

Definition dec_topo (g : bool * bool) (l : list Z) : topo * list Z :=
  let '(is, t1) := decode_seq dec_info l in
  let '(hs, t2) := decode_seq dec_hier t1 in
  let '(bs, t3) := decode_seq dec_bind t2 in
  (mkTopo (fst g) (snd g) is hs bs, t3).

Fixpoint dec_trace (g : bool * bool) (k : nat) (l : list Z) : list (Z * topo) :=
  match k with
  | O => []
  | S k' => match l with
            | out :: t => let '(s, r) := dec_topo g t in (out, s) :: dec_trace g k' r
            | [] => []
            end
  end.

(* the property decided on the implementation's observable; 0 = holds *)
Definition prop_case (inp obs : list Z) : Z :=
  let '(g, es) := decode inp in
  match obs with
  | [-777777] => 99
  | _ => eprop_code g es (dec_trace g (length es) obs)
  end.

(* non-trivial: some request for a quota below a non-root parent was accepted and applied, and
   some request was rejected by a topology check (not merely "exists"/"does not exist") *)
Fixpoint nontrivial_from (s : topo) (es : list event) (deep rej : bool) : bool :=
  match es with
  | [] => deep && rej
  | EInf r :: t => nontrivial_from (estep s (EInf r)) t deep rej
  | EReq r :: t =>
      let c := code s r in
      let deep' := deep || ((c =? 0) && match snd r with
                                        | Add q => negb (parent_name q =? ROOT)
                                        | Update _ n => negb (parent_name n =? ROOT)
                                        | Delete _ => false
                                        end) in
      let rej' := rej || match snd r with
                         | Add _ => c =? 4
                         | Update _ _ => c =? 5
                         | Delete _ => (c =? 4) || (c =? 5) || (c =? 6)
                         end in
      nontrivial_from (step s r) t deep' rej'
  end.

Definition nontrivial_case (inp : list Z) : bool :=
  let '(g, es) := decode inp in nontrivial_from (init_topo g) es false false.

(* no known finding is open: findings/C15-delete-ignores-namespace-bound-pods.md was repaired by
   commit 4aec535 (clause 21 is an ordinary violation) and findings/C15-unchecked-flag-drop.md by
   adding the two exempting labels to quotaFieldsCopy (clause 14 is an ordinary violation) *)
Definition finding_sig (inp obs : list Z) : Z := 0.

Require Extraction.
Require Import ExtrOcamlBasic.
Extraction "model.ml" run_case prop_case nontrivial_case finding_sig.
