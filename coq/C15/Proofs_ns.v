(* C15 — namespaces: along a history in which the API server hands the webhook the stored old
   objects, the namespace map binds exactly the namespaces the admitted objects declare; so no
   namespace is declared by two admitted quotas. *)
From Coq Require Import List ZArith Bool Lia.
From Verif Require Import C15.Model C15.Spec C15.Proofs C15.Proofs_maps C15.Proofs_checks C15.Proofs_inv.
Import ListNotations.
Open Scope Z_scope.

Lemma find_ns_bind name nss : forall m x,
  find x (ns_bind name nss m) = if memZ x nss then Some name else find x m.
Proof.
  unfold ns_bind. induction nss as [|n nss IH]; intros m x; cbn [fold_left]; [reflexivity|].
  rewrite IH, find_mset. unfold memZ. cbn [existsb].
  destruct (existsb (Z.eqb x) nss); [now rewrite orb_true_r|]. rewrite orb_false_r.
  destruct (x =? n); reflexivity.
Qed.

Lemma find_ns_unbind nss : forall (m : list (Z * Z)) x,
  find x (ns_unbind nss m) = if memZ x nss then None else find x m.
Proof.
  unfold ns_unbind. induction nss as [|n nss IH]; intros m x; cbn [fold_left]; [reflexivity|].
  rewrite IH, find_mremove. unfold memZ. cbn [existsb].
  destruct (existsb (Z.eqb x) nss); [now rewrite orb_true_r|]. rewrite orb_false_r.
  destruct (x =? n); reflexivity.
Qed.

Lemma eq_listZ_eq a : forall b, eq_listZ a b = true -> a = b.
Proof.
  induction a as [|x a IH]; intros [|y b] H; cbn [eq_listZ] in H; try discriminate; [reflexivity|].
  apply andb_true_iff in H. destruct H as [H1 H2]. apply Z.eqb_eq in H1. subst.
  f_equal. now apply IH.
Qed.

Lemma eq_listZ_refl a : eq_listZ a a = true.
Proof. induction a as [|x a IH]; cbn [eq_listZ]; [reflexivity|]. now rewrite Z.eqb_refl, IH. Qed.

Lemma fields_eq_ns o n : fields_eq o n = true -> ann_ns o = ann_ns n.
Proof.
  unfold fields_eq, ann_ns. intro H.
  repeat (apply andb_true_iff in H; destruct H as [H ?]).
  match goal with Hd : (if q_ns_bad o then _ else _) = true |- _ => rename Hd into D end.
  destruct (q_ns_bad o); [now rewrite D|].
  apply andb_true_iff in D. destruct D as [D1 D2]. apply negb_true_iff in D1. rewrite D1.
  now apply eq_listZ_eq.
Qed.

Lemma memZ_false x l : memZ x l = false <-> ~ In x l.
Proof.
  rewrite <- memZ_In. destruct (memZ x l); split; intro H; congruence.
Qed.

(* what the namespace checks of the accepted requests establish *)
Lemma add_code_ns s pods q : add_code s pods q = 0 ->
  forall x, In x (ann_ns q) -> find x (nsmap s) = None.
Proof.
  unfold add_code. destruct (mem (q_name q) (infos s)); [discriminate|].
  destruct (existsb (fun n => mem n (nsmap s)) (ann_ns q)) eqn:E; [discriminate|].
  intros _ x Hx. apply mem_false.
  destruct (mem x (nsmap s)) eqn:M; [|reflexivity].
  assert (existsb (fun n => mem n (nsmap s)) (ann_ns q) = true); [|congruence].
  apply existsb_exists. eauto.
Qed.

Lemma add_code_range s pods q : add_code s pods q <= 0 -> add_code s pods q = 0.
Proof.
  unfold add_code. repeat match goal with |- context [if ?c then _ else _] => destruct c end; lia.
Qed.

Lemma delete_code_range s pods q : delete_code s pods q <= 0 -> delete_code s pods q = 0.
Proof.
  unfold delete_code.
  repeat match goal with
         | |- context [if ?c then _ else _] => destruct c
         | |- context [match ?c with Some _ => _ | None => _ end] => destruct c
         end; lia.
Qed.

Lemma update_code_range s pods o n : update_code s pods o n <= 0 ->
  update_code s pods o n = 0 \/ (update_code s pods o n = -1 /\ fields_eq o n = true).
Proof.
  unfold update_code. destruct (fields_eq o n); [intros _; right; auto|].
  repeat match goal with
         | |- context [if ?c then _ else _] => destruct c
         | |- context [match ?c with Some _ => _ | None => _ end] => destruct c
         end; lia.
Qed.

Lemma update_code_ns s pods o n : update_code s pods o n = 0 ->
  forall x, In x (ann_ns n) -> find x (nsmap s) = None \/ find x (nsmap s) = Some (q_name n).
Proof.
  unfold update_code. destruct (fields_eq o n); [discriminate|].
  destruct (_ || _); [discriminate|].
  match goal with |- context [existsb ?f (ann_ns n)] => destruct (existsb f (ann_ns n)) eqn:E end;
    [discriminate|].
  intros _ x Hx. destruct (find x (nsmap s)) as [owner|] eqn:F; [|now left]. right.
  destruct (Z.eqb_spec owner (q_name n)) as [->|N]; [reflexivity|]. exfalso.
  rewrite <- not_true_iff_false in E. apply E. apply existsb_exists. exists x. split; [exact Hx|].
  rewrite F. apply negb_true_iff. now apply Z.eqb_neq.
Qed.

Lemma update_code_found s pods o n : update_code s pods o n = 0 ->
  exists oi, find (q_name n) (infos s) = Some oi.
Proof.
  unfold update_code. destruct (fields_eq o n); [discriminate|].
  destruct (_ || _); [discriminate|]. destruct (existsb _ _); [discriminate|].
  destruct (find (q_name n) (infos s)); [eauto|discriminate].
Qed.

(* ------------------------------------------------------------------ one request *)
Lemma NsOK_step s st r :
  NsOK st s -> consistent1 st (accepted s r) r = true ->
  NsOK (store_step st (accepted s r) r) (step s r).
Proof.
  intros [N1 N2] C. unfold store_step.
  destruct (accepted s r) eqn:A.
  2:{ rewrite (reject_frame _ _ A). split; assumption. }
  unfold consistent1 in C. cbn [negb orb] in C.
  unfold accepted in A. apply Z.leb_le in A. unfold step.
  destruct r as [pods [q|o n|q]]; cbn [fst snd code] in *.
  - (* create *)
    apply add_code_range in A. rewrite A. cbn [Z.eqb].
    pose proof (add_code_ns _ _ _ A) as FREE. apply negb_true_iff, mem_false in C.
    unfold NsOK, add_apply. cbn [nsmap]. split.
    + intros name q0 x F Hx. rewrite find_ns_bind. rewrite find_mset in F.
      destruct (Z.eqb_spec name (q_name q)) as [->|NE].
      * injection F as <-. now rewrite (proj2 (memZ_In _ _) Hx).
      * pose proof (N1 _ _ _ F Hx) as B.
        destruct (memZ x (ann_ns q)) eqn:M; [|exact B].
        apply memZ_In in M. rewrite (FREE _ M) in B. discriminate.
    + intros x owner F. rewrite find_ns_bind in F.
      destruct (memZ x (ann_ns q)) eqn:M.
      * injection F as <-. exists q. rewrite find_mset_eq. split; [reflexivity|now apply memZ_In].
      * destruct (N2 _ _ F) as [q0 [F0 H0]]. exists q0. split; [|exact H0].
        rewrite find_mset_neq; [exact F0|]. intros ->. congruence.
  - (* update *)
    destruct (find (q_name n) st) as [o'|] eqn:FO; [|discriminate].
    apply eq_listZ_eq in C.
    destruct (update_code_range _ _ _ _ A) as [Z0|[ZM FE]].
    + rewrite Z0. cbn [Z.eqb]. pose proof (update_code_ns _ _ _ _ Z0) as CHK.
      destruct (update_code_found _ _ _ _ Z0) as [oi FX].
      unfold NsOK, update_apply. rewrite FX. cbn [nsmap]. split.
      * intros name q0 x F Hx. rewrite find_ns_bind, find_ns_unbind. rewrite find_mset in F.
        destruct (Z.eqb_spec name (q_name n)) as [->|NE].
        -- injection F as <-. now rewrite (proj2 (memZ_In _ _) Hx).
        -- pose proof (N1 _ _ _ F Hx) as B.
           destruct (memZ x (ann_ns n)) eqn:M1.
           ++ apply memZ_In in M1. destruct (CHK _ M1) as [E|E]; rewrite E in B; congruence.
           ++ destruct (memZ x (ann_ns o)) eqn:M2; [|exact B].
              apply memZ_In in M2. rewrite <- C in M2.
              rewrite (N1 _ _ _ FO M2) in B. congruence.
      * intros x owner F. rewrite find_ns_bind, find_ns_unbind in F.
        destruct (memZ x (ann_ns n)) eqn:M1.
        -- injection F as <-. exists n. rewrite find_mset_eq. split; [reflexivity|now apply memZ_In].
        -- destruct (memZ x (ann_ns o)) eqn:M2; [discriminate|].
           destruct (N2 _ _ F) as [q0 [F0 H0]].
           destruct (Z.eq_dec owner (q_name n)) as [->|NE].
           ++ rewrite FO in F0. injection F0 as <-. rewrite C in H0.
              apply memZ_false in M2. contradiction.
           ++ exists q0. rewrite find_mset_neq by exact NE. auto.
    + rewrite ZM. cbn [Z.eqb]. apply fields_eq_ns in FE. split.
      * intros name q0 x F Hx. rewrite find_mset in F.
        destruct (Z.eqb_spec name (q_name n)) as [->|NE]; [|eauto].
        injection F as <-. apply (N1 _ _ _ FO). now rewrite C, FE.
      * intros x owner F. destruct (N2 _ _ F) as [q0 [F0 H0]].
        destruct (Z.eq_dec owner (q_name n)) as [->|NE].
        -- rewrite FO in F0. injection F0 as <-. exists n. rewrite find_mset_eq.
           split; [reflexivity|]. now rewrite <- FE, <- C.
        -- exists q0. rewrite find_mset_neq by exact NE. auto.
  - (* delete *)
    destruct (find (q_name q) st) as [o'|] eqn:FO; [|discriminate].
    apply eq_listZ_eq in C. apply delete_code_range in A. rewrite A. cbn [Z.eqb].
    destruct (delete_code_facts _ _ _ A) as [_ [[xi FX] _]].
    unfold NsOK, delete_apply. rewrite FX. cbn [nsmap]. split.
    + intros name q0 x F Hx. rewrite find_mremove in F.
      destruct (Z.eqb_spec name (q_name q)) as [|NE]; [discriminate|].
      rewrite find_ns_unbind. pose proof (N1 _ _ _ F Hx) as B.
      destruct (memZ x (ann_ns q)) eqn:M; [|exact B].
      apply memZ_In in M. rewrite <- C in M. rewrite (N1 _ _ _ FO M) in B. congruence.
    + intros x owner F. rewrite find_ns_unbind in F.
      destruct (memZ x (ann_ns q)) eqn:M; [discriminate|].
      destruct (N2 _ _ F) as [q0 [F0 H0]].
      destruct (Z.eq_dec owner (q_name q)) as [->|NE].
      * rewrite FO in F0. injection F0 as <-. rewrite C in H0.
        apply memZ_false in M. contradiction.
      * exists q0. rewrite find_mremove_neq by exact NE. auto.
Qed.

Lemma NsOK_init g : NsOK [] (init_topo g).
Proof. split; cbn; intros; discriminate. Qed.

(* ------------------------------------------------------------------ all histories *)
Lemma NsOK_hist rs : forall s st cn, (cn = true -> NsOK st s) ->
  let '(s', st', cn') := hist_state s st cn rs in cn' = true -> NsOK st' s'.
Proof.
  induction rs as [|r rs IH]; intros s st cn H; cbn [hist_state]; [exact H|].
  apply IH. intro C. apply andb_true_iff in C. destruct C as [C1 C2].
  apply NsOK_step; auto.
Qed.

Lemma ns_hist g rs :
  let '(s, st, cn) := hist_state (init_topo g) [] true rs in cn = true -> NsOK st s.
Proof. apply NsOK_hist. intros _. apply NsOK_init. Qed.

(* no namespace is declared by two admitted quotas *)
Lemma ns_unique g rs :
  let '(s, st, cn) := hist_state (init_topo g) [] true rs in
  cn = true ->
  forall a b qa qb x, find a st = Some qa -> find b st = Some qb ->
    In x (ann_ns qa) -> In x (ann_ns qb) -> a = b.
Proof.
  pose proof (ns_hist g rs) as H. destruct (hist_state (init_topo g) [] true rs) as [[s st] cn].
  intros C a b qa qb x Fa Fb Ha Hb. destruct (H C) as [N1 _].
  pose proof (N1 _ _ _ Fa Ha) as E1. pose proof (N1 _ _ _ Fb Hb) as E2. congruence.
Qed.
