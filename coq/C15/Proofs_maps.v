(* C15 — lemmas about the containers of the model: association lists ([find]/[mset]/[mremove]),
   name sets ([sadd]/[sremove]), the children index, and positional resource lists. *)
From Coq Require Import List ZArith Bool Lia.
From Verif Require Import C15.Model C15.Spec.
Import ListNotations.
Open Scope Z_scope.

(* ------------------------------------------------------------------ find / mset / mremove *)
Section Maps.
Context {A : Type}.
Implicit Types (l : list (Z * A)) (k : Z) (v : A).

Lemma find_mset_eq k v l : find k (mset k v l) = Some v.
Proof.
  induction l as [|[k' v'] t IH]; cbn [mset find].
  - now rewrite Z.eqb_refl.
  - destruct (k <? k') eqn:E1; cbn [find].
    + now rewrite Z.eqb_refl.
    + destruct (k =? k') eqn:E2; cbn [find].
      * now rewrite Z.eqb_refl.
      * now rewrite E2.
Qed.

Lemma find_mset_neq k k0 v l : k0 <> k -> find k0 (mset k v l) = find k0 l.
Proof.
  intro N. induction l as [|[k' v'] t IH]; cbn [mset find].
  - destruct (k0 =? k) eqn:E; [apply Z.eqb_eq in E; contradiction|reflexivity].
  - destruct (k <? k') eqn:E1; cbn [find].
    + destruct (k0 =? k) eqn:E; [apply Z.eqb_eq in E; contradiction|reflexivity].
    + destruct (k =? k') eqn:E2; cbn [find].
      * apply Z.eqb_eq in E2; subst k'.
        destruct (k0 =? k) eqn:E; [apply Z.eqb_eq in E; contradiction|reflexivity].
      * destruct (k0 =? k'); [reflexivity|exact IH].
Qed.

Lemma find_mset k k0 v l : find k0 (mset k v l) = if k0 =? k then Some v else find k0 l.
Proof.
  destruct (k0 =? k) eqn:E.
  - apply Z.eqb_eq in E; subst. apply find_mset_eq.
  - apply Z.eqb_neq in E. now apply find_mset_neq.
Qed.

Lemma find_mremove_eq k l : find k (mremove k l) = None.
Proof.
  induction l as [|[k' v'] t IH]; [reflexivity|].
  unfold mremove in *. cbn [filter fst].
  destruct (k' =? k) eqn:E; cbn [negb]; [exact IH|].
  cbn [find]. rewrite Z.eqb_sym, E. exact IH.
Qed.

Lemma find_mremove_neq k k0 l : k0 <> k -> find k0 (mremove k l) = find k0 l.
Proof.
  intro N. induction l as [|[k' v'] t IH]; [reflexivity|].
  unfold mremove in *. cbn [filter fst].
  destruct (k' =? k) eqn:E; cbn [negb find].
  - apply Z.eqb_eq in E; subst k'.
    destruct (k0 =? k) eqn:E'; [apply Z.eqb_eq in E'; contradiction|exact IH].
  - destruct (k0 =? k'); [reflexivity|exact IH].
Qed.

Lemma find_mremove k k0 l : find k0 (mremove k l) = if k0 =? k then None else find k0 l.
Proof.
  destruct (k0 =? k) eqn:E.
  - apply Z.eqb_eq in E; subst. apply find_mremove_eq.
  - apply Z.eqb_neq in E. now apply find_mremove_neq.
Qed.

Lemma find_In k v l : find k l = Some v -> In (k, v) l.
Proof.
  induction l as [|[k' v'] t IH]; cbn [find]; [discriminate|].
  destruct (k =? k') eqn:E.
  - apply Z.eqb_eq in E; subst. intros [= ->]. now left.
  - intro H. right. now apply IH.
Qed.

Lemma find_In_key k v l : find k l = Some v -> In k (map fst l).
Proof. intro H. apply find_In in H. now apply (in_map fst) in H. Qed.

Lemma mem_true k l : mem k l = true <-> exists v, find k l = Some v.
Proof.
  unfold mem. destruct (find k l) as [v|]; split; intro H; eauto; try discriminate.
  destruct H as [v H]; discriminate.
Qed.

Lemma mem_false k l : mem k l = false <-> find k l = None.
Proof. unfold mem. destruct (find k l); split; intro H; congruence. Qed.

Lemma mem_mset k k0 v l : mem k0 (mset k v l) = (k0 =? k) || mem k0 l.
Proof. unfold mem. rewrite find_mset. destruct (k0 =? k); reflexivity. Qed.

(* ascending keys: what makes list entries and [find] agree *)
Inductive ksorted : list (Z * A) -> Prop :=
| ks_nil : ksorted []
| ks_cons k v l : (forall k', In k' (map fst l) -> k < k') -> ksorted l -> ksorted ((k, v) :: l).

Lemma In_keys_mset k v l k' : In k' (map fst (mset k v l)) -> k' = k \/ In k' (map fst l).
Proof.
  induction l as [|[k1 v1] t IH]; cbn [mset map fst In].
  - intros [H|[]]; auto.
  - destruct (k <? k1) eqn:E1; cbn [map fst In].
    + intros [H|[H|H]]; auto.
    + destruct (k =? k1) eqn:E2; cbn [map fst In].
      * intros [H|H]; auto.
      * intros [H|H]; auto. destruct (IH H); auto.
Qed.

Lemma ksorted_mset k v l : ksorted l -> ksorted (mset k v l).
Proof.
  induction 1 as [|k1 v1 t Hlt Hs IH]; cbn [mset].
  - constructor; [intros k' []|constructor].
  - destruct (k <? k1) eqn:E1.
    + apply Z.ltb_lt in E1. constructor; [|now constructor].
      cbn [map fst In]. intros k' [<-|H]; [exact E1|]. specialize (Hlt _ H). lia.
    + apply Z.ltb_ge in E1. destruct (k =? k1) eqn:E2.
      * apply Z.eqb_eq in E2; subst k1. now constructor.
      * apply Z.eqb_neq in E2. constructor; [|exact IH].
        intros k' H. apply In_keys_mset in H. destruct H as [->|H]; [lia|now apply Hlt].
Qed.

Lemma ksorted_mremove k l : ksorted l -> ksorted (mremove k l).
Proof.
  induction 1 as [|k1 v1 t Hlt Hs IH]; [constructor|].
  unfold mremove in *. cbn [filter fst].
  destruct (negb (k1 =? k)); [|exact IH].
  constructor; [|exact IH].
  intros k' H. apply Hlt. apply in_map_iff in H. destruct H as [e [<- He]].
  apply filter_In in He. apply in_map, He.
Qed.

Lemma ksorted_find k v l : ksorted l -> In (k, v) l -> find k l = Some v.
Proof.
  induction 1 as [|k1 v1 t Hlt Hs IH]; [intros []|].
  intros [[= -> ->]|H]; cbn [find].
  - now rewrite Z.eqb_refl.
  - destruct (k =? k1) eqn:E; [|now apply IH].
    apply Z.eqb_eq in E; subst k1.
    assert (k < k) by (apply Hlt; apply (in_map fst) in H; exact H). lia.
Qed.
End Maps.

(* ------------------------------------------------------------------ name sets *)
Lemma In_sadd x y l : In x (sadd y l) <-> x = y \/ In x l.
Proof.
  induction l as [|z t IH]; cbn [sadd In].
  - split; [intros [H|[]]; auto|intros [H|[]]; auto].
  - destruct (y <? z); cbn [In]; [split; intros [H|H]; auto|].
    destruct (y =? z) eqn:E; cbn [In].
    + apply Z.eqb_eq in E; subst. split; [auto|intros [->|H]; auto].
    + rewrite IH. split; [intros [H|[H|H]]; auto|intros [H|[H|H]]; auto].
Qed.

Lemma In_sremove x y l : In x (sremove y l) <-> In x l /\ x <> y.
Proof.
  unfold sremove. rewrite filter_In. split; intros [H1 H2]; split; auto.
  - intros ->. now rewrite Z.eqb_refl in H2.
  - apply Z.eqb_neq in H2. now rewrite H2.
Qed.

Lemma memZ_In x l : memZ x l = true <-> In x l.
Proof.
  unfold memZ. rewrite existsb_exists. split.
  - intros [y [H E]]. apply Z.eqb_eq in E. now subst.
  - intro H. exists x. split; [exact H|apply Z.eqb_refl].
Qed.

Lemma nonempty_false {A} (l : list A) : nonempty l = false -> l = [].
Proof. destruct l; [reflexivity|discriminate]. Qed.

(* ------------------------------------------------------------------ the children index *)
Definition kids (h : list (Z * list Z)) (k : Z) : list Z :=
  match find k h with Some l => l | None => [] end.

Lemma children_kids s k : children s k = kids (hier s) k.
Proof. reflexivity. Qed.

Lemma kids_mset h k k0 l : kids (mset k l h) k0 = if k0 =? k then l else kids h k0.
Proof. unfold kids. rewrite find_mset. destruct (k0 =? k); reflexivity. Qed.

Lemma kids_mremove h k k0 : kids (mremove k h) k0 = if k0 =? k then [] else kids h k0.
Proof. unfold kids. rewrite find_mremove. destruct (k0 =? k); reflexivity. Qed.

Lemma kids_add_child h p c k :
  kids (hier_add_child p c h) k = if k =? p then sadd c (kids h p) else kids h k.
Proof. unfold hier_add_child. rewrite kids_mset. reflexivity. Qed.

Lemma In_kids_del_child h p c k x :
  In x (kids (hier_del_child p c h) k) <-> In x (kids h k) /\ ~ (k = p /\ x = c).
Proof.
  unfold hier_del_child. destruct (find p h) as [l|] eqn:F.
  - rewrite kids_mset. destruct (k =? p) eqn:E.
    + apply Z.eqb_eq in E; subst k. rewrite In_sremove. unfold kids. rewrite F.
      split; intros [H1 H2]; split; auto. intros [_ ->]. contradiction.
    + apply Z.eqb_neq in E. split; [intro H; split; [exact H|intros [? _]; contradiction]|tauto].
  - split; [|tauto]. intro H. split; [exact H|]. intros [-> _].
    unfold kids in H. rewrite F in H. destruct H.
Qed.

Lemma mem_add_child h p c k : mem k (hier_add_child p c h) = (k =? p) || mem k h.
Proof. unfold hier_add_child. apply mem_mset. Qed.

Lemma mem_del_child h p c k : mem k (hier_del_child p c h) = mem k h.
Proof.
  unfold hier_del_child. destruct (find p h) as [l|] eqn:F; [|reflexivity].
  rewrite mem_mset. destruct (k =? p) eqn:E; [|reflexivity].
  apply Z.eqb_eq in E; subst. unfold mem. now rewrite F.
Qed.

(* ------------------------------------------------------------------ resource lists *)
Lemma rget_nil k : rget k [] = None.
Proof. unfold rget. destruct k; reflexivity. Qed.

Lemma rget_map_None {B} (f : option Z -> option Z -> B) b k d :
  nth k (map (f None) b) d = if (k <? length b)%nat then f None (rget k b) else d.
Proof.
  revert k. induction b as [|y b IH]; intro k; cbn [map length].
  - destruct k; reflexivity.
  - destruct k; cbn [nth]; [reflexivity|]. unfold rget in *. cbn [nth]. rewrite IH.
    reflexivity.
Qed.

(* slot k of a pointwise combination *)
Lemma nth_rzip {B} (f : option Z -> option Z -> B) a b k :
  nth k (rzip f a b) (f None None) = f (rget k a) (rget k b).
Proof.
  revert b k. induction a as [|x a IH]; intros b k; cbn [rzip].
  - rewrite rget_map_None, rget_nil.
    destruct (k <? length b)%nat eqn:E; [reflexivity|].
    apply Nat.ltb_ge in E. unfold rget. now rewrite (nth_overflow b None E).
  - destruct b as [|y b]; destruct k; cbn [nth]; unfold rget in *; cbn [nth]; try reflexivity.
    + rewrite IH. now rewrite (rget_nil k : nth k [] None = None).
    + apply IH.
Qed.

Lemma rzip_length {B} (f : option Z -> option Z -> B) a b :
  length (rzip f a b) = Nat.max (length a) (length b).
Proof.
  revert b. induction a as [|x a IH]; intro b; cbn [rzip length].
  - now rewrite map_length.
  - destruct b as [|y b]; cbn [length]; rewrite IH; cbn [length]; lia.
Qed.

Lemma rget_radd a b k : rget k (radd a b) = oadd (rget k a) (rget k b).
Proof. unfold radd, rget at 1. apply (nth_rzip oadd). Qed.

Lemma val_radd a b k : val k (radd a b) = val k a + val k b.
Proof.
  unfold val. rewrite rget_radd.
  destruct (rget k a), (rget k b); cbn [oadd]; lia.
Qed.

Lemma rall2_spec f a b : f None None = true ->
  (rall2 f a b = true <-> forall k, f (rget k a) (rget k b) = true).
Proof.
  intro Hd. unfold rall2. rewrite forallb_forall. split.
  - intros H k. rewrite <- nth_rzip.
    destruct (Nat.lt_ge_cases k (length (rzip f a b))) as [L|L].
    + apply H, nth_In, L.
    + now rewrite nth_overflow.
  - intros H x Hx. destruct (In_nth _ _ (f None None) Hx) as [k [_ <-]].
    rewrite nth_rzip. apply H.
Qed.

Lemma rnegative_false r : rnegative r = false <-> nonneg r.
Proof.
  unfold rnegative, nonneg. split.
  - intros H k v G.
    destruct (existsb is_neg r) eqn:E; [discriminate|].
    assert (In (Some v) r) as Hin.
    { unfold rget in G. destruct (Nat.lt_ge_cases k (length r)) as [L|L].
      - rewrite <- G. apply nth_In, L.
      - rewrite nth_overflow in G by exact L. discriminate. }
    destruct (0 <=? v) eqn:Ev; [now apply Z.leb_le|].
    assert (existsb is_neg r = true); [|congruence].
    apply existsb_exists. exists (Some v). split; [exact Hin|].
    cbn [is_neg]. apply Z.leb_gt in Ev. now apply Z.ltb_lt.
  - intro H. destruct (existsb is_neg r) eqn:E; [|reflexivity].
    apply existsb_exists in E. destruct E as [[v|] [Hin Hn]]; [|discriminate].
    destruct (In_nth _ _ None Hin) as [k [_ G]].
    specialize (H k v G). cbn [is_neg] in Hn. apply Z.ltb_lt in Hn. lia.
Qed.

Lemma nonneg_val r k : nonneg r -> 0 <= val k r.
Proof.
  intro H. unfold val. destruct (rget k r) as [v|] eqn:G; [now apply (H k)|lia].
Qed.

Lemma nonneg_nil : nonneg [].
Proof. intros k v G. rewrite rget_nil in G. discriminate. Qed.

Lemma nonneg_radd a b : nonneg a -> nonneg b -> nonneg (radd a b).
Proof.
  intros Ha Hb k v G. rewrite rget_radd in G.
  destruct (rget k a) as [x|] eqn:Ga, (rget k b) as [y|] eqn:Gb; cbn [oadd] in G;
    try discriminate; injection G as <-.
  - specialize (Ha _ _ Ga). specialize (Hb _ _ Gb). lia.
  - now apply (Ha k).
  - now apply (Hb k).
Qed.

(* LessThanOrEqualCompletely against non-negative operands is the pointwise order *)
Lemma rlec_val a b k : rlec a b = true -> nonneg b -> val k a <= val k b.
Proof.
  unfold rlec. intros H Hb. rewrite rall2_spec in H by reflexivity.
  specialize (H k). pose proof (nonneg_val b k Hb) as Nb. unfold val in *.
  destruct (rget k a), (rget k b); cbn [lec1] in H; try apply Z.leb_le in H; lia.
Qed.

Lemma val_rlec a b : nonneg a -> nonneg b -> (forall k, val k a <= val k b) -> rlec a b = true.
Proof.
  intros Ha Hb H. unfold rlec. apply rall2_spec; [reflexivity|]. intro k.
  specialize (H k). pose proof (nonneg_val b k Hb) as Nb. pose proof (nonneg_val a k Ha) as Na.
  unfold val in *.
  destruct (rget k a), (rget k b); cbn [lec1]; try apply Z.leb_le; lia.
Qed.

Lemma min_within_max_spec mn mx :
  min_within_max mn mx = true <->
  forall k v, rget k mn = Some v -> exists m, rget k mx = Some m /\ v <= m.
Proof.
  unfold min_within_max. rewrite rall2_spec by reflexivity. split.
  - intros H k v G. specialize (H k). rewrite G in H.
    destruct (rget k mx) as [m|]; cbn [minmax1] in H; [|discriminate].
    exists m. split; [reflexivity|now apply Z.leb_le].
  - intros H k. destruct (rget k mn) as [v|] eqn:G; [|reflexivity].
    destruct (H k v G) as [m [-> L]]. cbn [minmax1]. now apply Z.leb_le.
Qed.

(* ------------------------------------------------------------------ sums over name lists *)
Lemma sumf_app f a b : sumf f (a ++ b) = sumf f a + sumf f b.
Proof. induction a as [|x a IH]; cbn [sumf app]; lia. Qed.

Lemma sumf_ext f g l : (forall x, In x l -> f x = g x) -> sumf f l = sumf g l.
Proof.
  induction l as [|x l IH]; intro H; cbn [sumf]; [reflexivity|].
  rewrite (H x) by now left. rewrite IH; [reflexivity|]. intros; apply H; now right.
Qed.

Lemma sumf_nonneg f l : (forall x, In x l -> 0 <= f x) -> 0 <= sumf f l.
Proof.
  induction l as [|x l IH]; intro H; cbn [sumf]; [lia|].
  assert (0 <= f x) by (apply H; now left).
  assert (0 <= sumf f l) by (apply IH; intros; apply H; now right). lia.
Qed.

(* a duplicate-free sub-collection of non-negative terms sums to no more than the whole *)
Lemma sumf_incl_le f L M :
  NoDup L -> incl L M -> (forall x, In x M -> 0 <= f x) -> sumf f L <= sumf f M.
Proof.
  revert M. induction L as [|x L IH]; intros M ND Hin Hf; cbn [sumf].
  - now apply sumf_nonneg.
  - assert (In x M) as Hx by (apply Hin; now left).
    apply in_split in Hx. destruct Hx as [M1 [M2 ->]].
    inversion ND as [|? ? Hnx ND']; subst.
    rewrite sumf_app. cbn [sumf].
    assert (sumf f L <= sumf f (M1 ++ M2)) as H.
    { apply IH; [exact ND'| |].
      - intros y Hy. assert (In y (M1 ++ x :: M2)) as H by (apply Hin; now right).
        apply in_app_or in H. apply in_or_app. destruct H as [H|[H|H]]; auto.
        subst. contradiction.
      - intros y Hy. apply Hf. apply in_app_or in Hy. apply in_or_app.
        destruct Hy; [now left|right; now right]. }
    rewrite sumf_app in H. lia.
Qed.
