(* C15 — model of the ElasticQuota informer handlers of the webhook
   (pkg/webhook/elasticquota/quota_handler.go: OnQuotaAdd / OnQuotaUpdate / OnQuotaDelete) and of
   histories in which admission requests and informer deliveries are interleaved.

   Every webhook replica mirrors the writes the API server persisted through these handlers: the
   echo of a write the replica admitted itself, the writes other replicas admitted, and the
   initial list after a restart. The handlers perform no check at all; they write the record.
   Executable, total, no proofs in this file. *)
From Coq Require Import List ZArith Bool.
From Verif Require Import Lib.Wire C15.Model.
Import ListNotations.
Open Scope Z_scope.

(* ---------- OnQuotaAdd ---------- *)
(* quotaInfoMap[name] = info; an index entry for the quota is made only when there is none (the
   validating path overwrites it); the parent's entry is made when missing; namespaces bound *)
Definition on_add (s : topo) (q : quota) : topo :=
  let i := info_of q in
  let h0 := if mem (q_name q) (hier s) then hier s else mset (q_name q) [] (hier s) in
  mkTopo (gate_keys s) (gate_guar s)
         (mset (q_name q) i (infos s))
         (hier_add_child (i_parent i) (q_name q) h0)
         (ns_bind (q_name q) (ann_ns q) (nsmap s)).

(* ---------- OnQuotaUpdate ---------- *)
(* the parents are those of the two OBJECTS of the event (not of the recorded info); when they
   differ the quota is removed from the old parent's children (a missing entry is skipped) and
   inserted into the new parent's: `qt.quotaHierarchyInfo[newParent][name] = struct{}{}` is an
   assignment into a nil map when the new parent has no index entry, i.e. a panic ([true] in the
   second component; the namespace part is not reached). Namespaces are rewritten (old ones
   released, then new ones bound) only when the two lists differ. *)
Definition on_update (s : topo) (o n : quota) : topo * bool :=
  let i := info_of n in
  let infos' := mset (q_name n) i (infos s) in
  let ns' := if eq_listZ (ann_ns o) (ann_ns n) then nsmap s
             else ns_bind (q_name n) (ann_ns n) (ns_unbind (ann_ns o) (nsmap s)) in
  if parent_name o =? parent_name n
  then (mkTopo (gate_keys s) (gate_guar s) infos' (hier s) ns', false)
  else
    let h1 := hier_del_child (parent_name o) (q_name o) (hier s) in
    match find (parent_name n) h1 with
    | None => (mkTopo (gate_keys s) (gate_guar s) infos' h1 (nsmap s), true)
    | Some l =>
        (mkTopo (gate_keys s) (gate_guar s) infos' (mset (parent_name n) (sadd (q_name n) l) h1) ns', false)
    end.

(* ---------- OnQuotaDelete ---------- *)
(* the parent is the one the deleted OBJECT names *)
Definition on_delete (s : topo) (q : quota) : topo :=
  mkTopo (gate_keys s) (gate_guar s)
         (mremove (q_name q) (infos s))
         (mremove (q_name q) (hier_del_child (parent_name q) (q_name q) (hier s)))
         (ns_unbind (ann_ns q) (nsmap s)).

(* the handler for the persisted write [w]; second component: the handler panicked *)
Definition inf_apply (s : topo) (w : op) : topo * bool :=
  match w with
  | Add q => (on_add s q, false)
  | Update o n => on_update s o n
  | Delete q => (on_delete s q, false)
  end.

(* ---------- histories of requests and informer deliveries ---------- *)
(* [EInf (pods, w)]: the informer delivers the persisted write [w] to this replica; [pods] is
   the environment in which the replica that admitted it validated it (the handler never looks
   at it; the specification uses it to decide whether the write was admissible) *)
Inductive event :=
| EReq (r : req)
| EInf (r : req).

Definition estep (s : topo) (e : event) : topo :=
  match e with
  | EReq r => step s r
  | EInf r => fst (inf_apply s (snd r))
  end.

(* 0 = request rejected, 1 = request admitted / event handled, 2 = the handler panicked *)
Definition eout (s : topo) (e : event) : Z :=
  match e with
  | EReq r => bz (accepted s r)
  | EInf r => if snd (inf_apply s (snd r)) then 2 else 1
  end.

Definition erun (g : bool * bool) (es : list event) : topo := fold_left estep es (init_topo g).

Fixpoint etrace (s : topo) (es : list event) : list (Z * topo) :=
  match es with
  | [] => []
  | e :: t => (eout s e, estep s e) :: etrace (estep s e) t
  end.
