(* C15 — the decision procedure [wf_code] decides [WF] (on records whose quota map is in key
   order, which every reachable record and every decoded observable is). *)
From Coq Require Import List ZArith Bool Lia.
From Verif Require Import C15.Model C15.Spec C15.Proofs_maps C15.Proofs_reach C15.Proofs_checks.
Import ListNotations.
Open Scope Z_scope.

(* ------------------------------------------------------------------ key order is kept *)
Definition sorted_topo (s : topo) : Prop :=
  ksorted (infos s) /\ ksorted (hier s) /\ ksorted (nsmap s).

Lemma ksorted_ns_bind name nss m : ksorted m -> ksorted (ns_bind name nss m).
Proof.
  unfold ns_bind. revert m. induction nss as [|n nss IH]; intros m H; cbn [fold_left]; auto.
  apply IH. now apply ksorted_mset.
Qed.

Lemma ksorted_ns_unbind nss (m : list (Z * Z)) : ksorted m -> ksorted (ns_unbind nss m).
Proof.
  unfold ns_unbind. revert m. induction nss as [|n nss IH]; intros m H; cbn [fold_left]; auto.
  apply IH. now apply ksorted_mremove.
Qed.

Lemma ksorted_add_child p c h : ksorted h -> ksorted (hier_add_child p c h).
Proof. intro H. unfold hier_add_child. now apply ksorted_mset. Qed.

Lemma ksorted_del_child p c h : ksorted h -> ksorted (hier_del_child p c h).
Proof. intro H. unfold hier_del_child. destruct (find p h); [now apply ksorted_mset|exact H]. Qed.

Lemma sorted_init g : sorted_topo (init_topo g).
Proof.
  repeat split; cbn; try constructor; try constructor. intros k' [].
Qed.

Lemma sorted_step s r : sorted_topo s -> sorted_topo (step s r).
Proof.
  intros [S1 [S2 S3]]. unfold step. destruct (code s r =? 0); [|repeat split; auto].
  destruct r as [pods [q|o n|q]]; cbn [snd].
  - unfold add_apply. repeat split; cbn [infos hier nsmap].
    + now apply ksorted_mset.
    + now apply ksorted_add_child, ksorted_mset.
    + now apply ksorted_ns_bind.
  - unfold update_apply. destruct (find (q_name n) (infos s)); [|repeat split; auto].
    repeat split; cbn [infos hier nsmap].
    + now apply ksorted_mset.
    + destruct (_ =? _); [exact S2|]. now apply ksorted_add_child, ksorted_del_child.
    + now apply ksorted_ns_bind, ksorted_ns_unbind.
  - unfold delete_apply. destruct (find (q_name q) (infos s)); [|repeat split; auto].
    repeat split; cbn [infos hier nsmap].
    + now apply ksorted_mremove.
    + now apply ksorted_mremove, ksorted_del_child.
    + now apply ksorted_ns_unbind.
Qed.

Lemma sorted_fold rs : forall s, sorted_topo s -> sorted_topo (fold_left step rs s).
Proof. induction rs as [|r rs IH]; intros s H; cbn [fold_left]; auto. apply IH, sorted_step, H. Qed.

Lemma sorted_run g rs : sorted_topo (run g rs).
Proof. apply sorted_fold, sorted_init. Qed.

(* ------------------------------------------------------------------ clause by clause *)
Lemma self_okb_spec i : self_okb i = true <-> self_ok i.
Proof.
  unfold self_okb, self_ok.
  assert (forall r, forallb is_nonneg r = true <-> nonneg r) as NN.
  { intro r. unfold nonneg. rewrite forallb_forall. split.
    - intros H k v G. assert (In (Some v) r) as Hin.
      { unfold rget in G. destruct (Nat.lt_ge_cases k (length r)) as [L|L].
        - rewrite <- G. now apply nth_In.
        - rewrite nth_overflow in G by exact L. discriminate. }
      specialize (H _ Hin). cbn [is_nonneg] in H. now apply Z.leb_le.
    - intros H [v|] Hin; [|reflexivity]. destruct (In_nth _ _ None Hin) as [k [_ G]].
      cbn [is_nonneg]. apply Z.leb_le. now apply (H k). }
  rewrite !andb_true_iff, !NN, min_within_max_spec. tauto.
Qed.

(* the sum over the recorded unflagged children, as a sum over their names *)
Lemma fold_radd_val (es : list (Z * info)) k : forall acc,
  val k (fold_left (fun acc e => radd acc (i_min (snd e))) es acc)
  = val k acc + fold_right (fun e z => val k (i_min (snd e)) + z) 0 es.
Proof.
  induction es as [|e es IH]; intro acc; cbn [fold_left fold_right]; [lia|].
  rewrite IH, val_radd. lia.
Qed.

Lemma fold_radd_nonneg (es : list (Z * info)) : forall acc,
  nonneg acc -> (forall e, In e es -> nonneg (i_min (snd e))) ->
  nonneg (fold_left (fun acc e => radd acc (i_min (snd e))) es acc).
Proof.
  induction es as [|e es IH]; intros acc Ha H; cbn [fold_left]; [exact Ha|].
  apply IH; [apply nonneg_radd; [exact Ha|apply H; now left]|intros; apply H; now right].
Qed.

Lemma entries_sum_names m k (es : list (Z * info)) :
  (forall e, In e es -> find (fst e) m = Some (snd e)) ->
  fold_right (fun e z => val k (i_min (snd e)) + z) 0 es = sumf (min_of m k) (map fst es).
Proof.
  induction es as [|e es IH]; intro H; cbn [fold_right map sumf]; [reflexivity|].
  f_equal; [|apply IH; intros; apply H; now right].
  unfold min_of. rewrite (H e) by now left. reflexivity.
Qed.

Lemma uchild_sum_val m p k : ksorted m ->
  val k (uchild_min_sum m p) = sumf (min_of m k) (map fst (filter (is_uchild p) m)).
Proof.
  intro S. unfold uchild_min_sum. rewrite fold_radd_val, val_nil.
  rewrite (entries_sum_names m); [lia|].
  intros [c ic] Hin. apply filter_In in Hin. cbn [fst snd]. apply ksorted_find; tauto.
Qed.

Lemma ksorted_NoDup {A} (l : list (Z * A)) : ksorted l -> NoDup (map fst l).
Proof.
  induction 1 as [|k v l Hlt Hs IH]; cbn [map fst]; constructor; [|exact IH].
  intro Hin. specialize (Hlt _ Hin). lia.
Qed.

Lemma NoDup_map_filter {A} (f : Z * A -> bool) (l : list (Z * A)) :
  NoDup (map fst l) -> NoDup (map fst (filter f l)).
Proof.
  induction l as [|e l IH]; cbn [map filter]; intro H; [constructor|].
  inversion H as [|? ? Hn Hd]; subst. destruct (f e); cbn [map]; [|auto].
  constructor; [|auto]. intro Hin. apply Hn.
  apply in_map_iff in Hin. destruct Hin as [e' [E Hf]]. apply filter_In in Hf.
  rewrite <- E. apply in_map. tauto.
Qed.

Lemma is_uchild_spec m p c ic : find c m = Some ic ->
  (is_uchild p (c, ic) = true <-> uchild_of m p c).
Proof.
  intro F. unfold is_uchild, uchild_of. cbn [fst snd]. rewrite !andb_true_iff, negb_true_iff.
  rewrite Z.eqb_neq, Z.eqb_eq. split.
  - intros [[H1 H2] H3]. split; [exact H1|]. exists ic. auto.
  - intros [H1 [i' [F' [H2 H3]]]]. rewrite F in F'. injection F' as <-. auto.
Qed.

(* ------------------------------------------------------------------ WF -> wf_code = 0 *)
Lemma all_entries_intro {A} (f : Z * A -> bool) (l : list (Z * A)) :
  (forall k v, In (k, v) l -> f (k, v) = true) -> all_entries f l = true.
Proof. intro H. unfold all_entries. apply forallb_forall. intros [k v] Hin. now apply H. Qed.

Lemma wf_code_complete s : ksorted (infos s) -> WF s -> wf_code s = 0.
Proof.
  intros S W. unfold wf_code.
  assert (forall n i, In (n, i) (infos s) -> find n (infos s) = Some i) as FE
    by (intros; now apply ksorted_find).
  rewrite (all_entries_intro (c11 s)); cbn [negb].
  2:{ intros n i Hin. unfold c11. cbn [fst snd].
      destruct (Z.eqb_spec n ROOT) as [|N]; [reflexivity|].
      destruct (Z.eqb_spec (i_parent i) ROOT) as [|NP]; [reflexivity|]. cbn [orb].
      destruct (wf_parent s W n i (FE _ _ Hin) N NP) as [p [-> IP]]. exact IP. }
  rewrite (all_entries_intro (c12 s)); cbn [negb].
  2:{ intros n i Hin. unfold c12. cbn [fst]. apply Reach_reach_b. eapply wf_reach; eauto. }
  rewrite (all_entries_intro c13); cbn [negb].
  2:{ intros n i Hin. unfold c13. cbn [snd]. apply self_okb_spec. eapply wf_self; eauto. }
  rewrite (all_entries_intro (c14 s)); cbn [negb].
  2:{ intros p pi Hin. unfold c14. cbn [fst snd].
      destruct (Z.eqb_spec p ROOT) as [|N]; [reflexivity|].
      destruct (unflagged pi) eqn:U; [|reflexivity]. cbn [negb orb].
      destruct (wf_self s W p pi (FE _ _ Hin)) as [NNp _].
      apply val_rlec; [|exact NNp|].
      - unfold uchild_min_sum. apply fold_radd_nonneg; [apply nonneg_nil|].
        intros [c ic] Hc. apply filter_In in Hc. cbn [snd].
        destruct (wf_self s W c ic (FE _ _ (proj1 Hc))) as [H _]. exact H.
      - intro k. rewrite uchild_sum_val by exact S.
        apply (wf_minsum s W p pi (FE _ _ Hin) N U).
        + apply NoDup_map_filter, ksorted_NoDup, S.
        + intros c Hc. apply in_map_iff in Hc. destruct Hc as [[c' ic] [<- Hf]].
          apply filter_In in Hf. cbn [fst].
          apply (is_uchild_spec (infos s) p c' ic); [apply FE|]; tauto. }
  rewrite (all_entries_intro (c15 s)); cbn [negb].
  2:{ intros n i Hin. unfold c15. cbn [fst snd].
      destruct (Z.eqb_spec n ROOT) as [|N]; [reflexivity|].
      destruct (Z.eqb_spec (i_parent i) ROOT) as [|NP]; [reflexivity|]. cbn [orb].
      destruct (find (i_parent i) (infos s)) as [p|] eqn:Fp; [|reflexivity].
      destruct (wf_keys s W n i p (FE _ _ Hin) N NP Fp) as [-> ->]. reflexivity. }
  rewrite (all_entries_intro (c16 s)); cbn [negb].
  2:{ intros n i Hin. unfold c16. cbn [fst snd].
      destruct (Z.eqb_spec n ROOT) as [|N]; [reflexivity|].
      destruct (Z.eqb_spec (i_parent i) ROOT) as [|NP]; [reflexivity|]. cbn [orb].
      destruct (find (i_parent i) (infos s)) as [p|] eqn:Fp; [|reflexivity].
      apply Z.eqb_eq. eapply wf_tree; eauto. }
  rewrite (all_entries_intro (c17a s)); cbn [negb].
  2:{ intros n i Hin. unfold c17a. cbn [fst snd].
      rewrite (wf_index_key s W n i (FE _ _ Hin)). cbn [andb].
      destruct (Z.eqb_spec n ROOT) as [|N]; [reflexivity|].
      destruct (Z.eqb_spec (i_parent i) ROOT) as [|NP]; [reflexivity|]. cbn [orb].
      apply memZ_In. eapply wf_index_in; eauto. }
  rewrite (all_entries_intro (c17b s)); cbn [negb]; [reflexivity|].
  intros k cs Hin. unfold c17b. cbn [fst]. apply forallb_forall. intros c Hc.
  destruct (Z.eqb_spec c ROOT) as [|N]; [reflexivity|]. cbn [orb].
  destruct (wf_index_only s W k c Hc N) as [_ [ic [-> E]]]. now apply Z.eqb_eq.
Qed.

(* ------------------------------------------------------------------ wf_code = 0 -> WF *)
Lemma all_entries_elim {A} (f : Z * A -> bool) (l : list (Z * A)) k v :
  all_entries f l = true -> find k l = Some v -> f (k, v) = true.
Proof.
  unfold all_entries. rewrite forallb_forall. intros H F. apply H. now apply find_In.
Qed.

Lemma wf_code_sound s : ksorted (infos s) -> wf_code s = 0 -> WF s.
Proof.
  intros S. unfold wf_code.
  destruct (all_entries (c11 s) (infos s)) eqn:C11; cbn [negb]; [|discriminate].
  destruct (all_entries (c12 s) (infos s)) eqn:C12; cbn [negb]; [|discriminate].
  destruct (all_entries c13 (infos s)) eqn:C13; cbn [negb]; [|discriminate].
  destruct (all_entries (c14 s) (infos s)) eqn:C14; cbn [negb]; [|discriminate].
  destruct (all_entries (c15 s) (infos s)) eqn:C15; cbn [negb]; [|discriminate].
  destruct (all_entries (c16 s) (infos s)) eqn:C16; cbn [negb]; [|discriminate].
  destruct (all_entries (c17a s) (infos s)) eqn:C17a; cbn [negb]; [|discriminate].
  destruct (all_entries (c17b s) (hier s)) eqn:C17b; cbn [negb]; [|discriminate].
  intros _.
  assert (forall n i, find n (infos s) = Some i -> self_ok i) as SELF.
  { intros n i F. apply self_okb_spec. exact (all_entries_elim _ _ _ _ C13 F). }
  constructor.
  - intros n i F N NP. pose proof (all_entries_elim _ _ _ _ C11 F) as H. unfold c11 in H.
    cbn [fst snd] in H. rewrite (proj2 (Z.eqb_neq _ _) N), (proj2 (Z.eqb_neq _ _) NP) in H.
    cbn [orb] in H. destruct (find (i_parent i) (infos s)) as [p|]; [eauto|discriminate].
  - intros n i F. pose proof (all_entries_elim _ _ _ _ C12 F) as H. unfold c12 in H.
    eapply reach_b_Reach; eauto.
  - exact SELF.
  - intros p pi Fp Np Up L ND HL k.
    pose proof (all_entries_elim _ _ _ _ C14 Fp) as H. unfold c14 in H. cbn [fst snd] in H.
    rewrite (proj2 (Z.eqb_neq _ _) Np), Up in H. cbn [negb orb] in H.
    destruct (SELF p pi Fp) as [NNp _].
    pose proof (rlec_val _ _ k H NNp) as LE. rewrite uchild_sum_val in LE by exact S.
    assert (sumf (min_of (infos s) k) L
            <= sumf (min_of (infos s) k) (map fst (filter (is_uchild p) (infos s)))); [|lia].
    apply sumf_incl_le; [exact ND| |].
    + intros c Hc. pose proof (HL c Hc) as U. destruct U as [Nc [ic [F R]]].
      apply in_map_iff. exists (c, ic). split; [reflexivity|]. apply filter_In.
      split; [now apply find_In|]. apply (is_uchild_spec (infos s) p c ic F). split; eauto.
    + intros c _. unfold min_of. destruct (find c (infos s)) as [ic|] eqn:F; [|lia].
      apply nonneg_val. destruct (SELF c ic F) as [H0 _]. exact H0.
  - intros n i p F N NP Fp. pose proof (all_entries_elim _ _ _ _ C15 F) as H. unfold c15 in H.
    cbn [fst snd] in H. rewrite (proj2 (Z.eqb_neq _ _) N), (proj2 (Z.eqb_neq _ _) NP), Fp in H.
    cbn [orb] in H. apply andb_true_iff in H. exact H.
  - intros n i p F N NP Fp. pose proof (all_entries_elim _ _ _ _ C16 F) as H. unfold c16 in H.
    cbn [fst snd] in H. rewrite (proj2 (Z.eqb_neq _ _) N), (proj2 (Z.eqb_neq _ _) NP), Fp in H.
    cbn [orb] in H. now apply Z.eqb_eq.
  - intros n i F. pose proof (all_entries_elim _ _ _ _ C17a F) as H. unfold c17a in H.
    cbn [fst snd] in H. apply andb_true_iff in H. tauto.
  - intros n i F N NP. pose proof (all_entries_elim _ _ _ _ C17a F) as H. unfold c17a in H.
    cbn [fst snd] in H. apply andb_true_iff in H. destruct H as [_ H].
    rewrite (proj2 (Z.eqb_neq _ _) N), (proj2 (Z.eqb_neq _ _) NP) in H. cbn [orb] in H.
    now apply memZ_In.
  - intros k c Hc Nc. unfold children in Hc.
    destruct (find k (hier s)) as [cs|] eqn:Fk; [|destruct Hc].
    pose proof (all_entries_elim _ _ _ _ C17b Fk) as H. unfold c17b in H. cbn [fst] in H.
    rewrite forallb_forall in H. unfold children in H. rewrite Fk in H. specialize (H c Hc).
    rewrite (proj2 (Z.eqb_neq _ _) Nc) in H. cbn [orb] in H.
    destruct (find c (infos s)) as [ic|] eqn:Fc; [|discriminate].
    split; [exact Nc|]. exists ic. split; [exact Fc|now apply Z.eqb_eq].
Qed.

Lemma wf_code_spec s : ksorted (infos s) -> (wf_code s = 0 <-> WF s).
Proof. intro S. split; [now apply wf_code_sound|now apply wf_code_complete]. Qed.
