(* C15 — what each accepted check of the webhook establishes (one lemma per check). *)
From Coq Require Import List ZArith Bool Lia.
From Verif Require Import C15.Model C15.Spec C15.Proofs_maps C15.Proofs_reach.
Import ListNotations.
Open Scope Z_scope.

Ltac zb :=
  repeat match goal with
  | H : (_ =? _) = true |- _ => apply Z.eqb_eq in H
  | H : (_ =? _) = false |- _ => apply Z.eqb_neq in H
  | H : _ && _ = true |- _ => apply andb_true_iff in H; destruct H
  | H : negb _ = true |- _ => apply negb_true_iff in H
  | H : negb _ = false |- _ => apply negb_false_iff in H
  end.

Ltac rwn N := rewrite (proj2 (Z.eqb_neq _ _) N).
Ltac rwn_in N H := rewrite (proj2 (Z.eqb_neq _ _) N) in H.

(* validateQuotaSelfItem *)
Lemma self_item_self_ok q : self_item_ok q = true -> self_ok (info_of q).
Proof.
  unfold self_item_ok. intro H. zb.
  unfold self_ok, info_of. cbn [i_min i_max].
  repeat split.
  - now apply rnegative_false.
  - now apply rnegative_false.
  - now apply min_within_max_spec.
Qed.

(* validateQuotaTopology for a non-root name *)
Lemma topology_ok_split s pods old X i ons :
  X <> ROOT -> topology_ok s pods old X i ons = true ->
  is_parent_change_ok s pods old X i ons = true /\ tree_ok s old X i = true /\
  ((i_parent i = ROOT /\ i_is_parent i = false) \/
   (parent_ok s X (i_parent i) = true /\ keys_ok s X i = true /\ min_ok s X i = true)).
Proof.
  intros N. unfold topology_ok. rwn N. intro H. zb.
  repeat split; auto.
  destruct ((i_parent i =? ROOT) && negb (i_is_parent i)) eqn:E.
  - left. zb. auto.
  - right. zb. auto.
Qed.
(* (the additional check of the gate ElasticQuotaGuaranteeUsage only rejects more) *)

(* checkParentQuotaInfo *)
Lemma parent_ok_facts s X B :
  parent_ok s X B = true -> B <> ROOT ->
  exists p, find B (infos s) = Some p /\ mem B (hier s) = true /\ i_is_parent p = true
            /\ B <> X /\ anc_ok (infos s) (S (length (infos s))) X B = true.
Proof.
  unfold parent_ok. intros H N. rwn_in N H.
  destruct (find B (infos s)) as [p|]; [|discriminate]. zb.
  exists p. repeat split; auto.
  intros ->. cbn [anc_ok] in H0. rwn_in N H0. rewrite Z.eqb_refl in H0. discriminate.
Qed.

(* checkTreeID *)
Lemma tree_ok_parent s old X i p :
  tree_ok s old X i = true -> i_parent i <> ROOT -> find (i_parent i) (infos s) = Some p ->
  i_tree i = i_tree p.
Proof.
  unfold tree_ok. intros H N F. zb. rwn_in N H1. rewrite F in H1. now zb.
Qed.

Lemma tree_ok_child s old X i c ci :
  tree_ok s old X i = true -> In c (children s X) -> find c (infos s) = Some ci ->
  i_tree ci = i_tree i.
Proof.
  unfold tree_ok. intros H Hin F. zb. rewrite forallb_forall in H0.
  specialize (H0 c Hin). rewrite F in H0. now zb.
Qed.

Lemma tree_ok_old s o X i : tree_ok s (Some o) X i = true -> i_tree o = i_tree i.
Proof. unfold tree_ok. intro H. now zb. Qed.

(* checkSubAndParentGroupQuotaKey *)
Lemma keys_ok_parent s X i p :
  keys_ok s X i = true -> i_parent i <> ROOT -> find (i_parent i) (infos s) = Some p ->
  max_keys_ok (gate_keys s) (i_max p) (i_max i) = true /\ keys_incl (i_min p) (i_min i) = true.
Proof.
  unfold keys_ok. intros H N F. zb. rwn_in N H. rewrite F in H. now zb.
Qed.

Lemma keys_ok_child s X i c ci :
  keys_ok s X i = true -> In c (children s X) -> find c (infos s) = Some ci ->
  max_keys_ok (gate_keys s) (i_max i) (i_max ci) = true /\ keys_incl (i_min i) (i_min ci) = true.
Proof.
  unfold keys_ok. intros H Hin F. zb. rewrite forallb_forall in H0.
  specialize (H0 c Hin). rewrite F in H0. now zb.
Qed.

(* getChildMinQuotaSumExceptSpecificChild *)
Lemma min_sum_val m cs : forall acc r, min_sum m cs acc = Some r ->
  forall k, val k r = val k acc + sumf (min_of m k) cs.
Proof.
  induction cs as [|c cs IH]; intros acc r H k; cbn [min_sum sumf] in *.
  - injection H as <-. lia.
  - destruct (find c m) as [ci|] eqn:F; [|discriminate].
    rewrite (IH _ _ H k), val_radd. unfold min_of at 2. rewrite F. lia.
Qed.

Lemma val_nil k : val k [] = 0.
Proof. unfold val. now rewrite rget_nil. Qed.

(* checkMinQuotaValidate, the part against the parent's min *)
Lemma min_ok_parent s X i :
  min_ok s X i = true -> unflagged i = true -> i_parent i <> ROOT ->
  exists sum p, min_sum (infos s) (sremove X (kids (hier s) (i_parent i))) [] = Some sum
    /\ find (i_parent i) (infos s) = Some p
    /\ rlec (radd sum (i_min i)) (i_min p) = true.
Proof.
  unfold min_ok, unflagged. intros H U N. zb. rewrite H0, H1 in H. zb.
  rwn_in N H.
  unfold child_min_sum in H. rwn_in N H. unfold kids.
  destruct (find (i_parent i) (hier s)) as [cs|]; [|discriminate].
  destruct (min_sum (infos s) (sremove X cs) []) as [sum|]; [|discriminate].
  destruct (find (i_parent i) (infos s)) as [p|]; [|discriminate].
  exists sum, p. auto.
Qed.

(* ... and the part against the children's mins *)
Lemma min_ok_children s X i :
  min_ok s X i = true -> unflagged i = true -> X <> ROOT -> children s X <> [] ->
  exists sum, min_sum (infos s) (kids (hier s) X) [] = Some sum /\ rlec sum (i_min i) = true.
Proof.
  unfold min_ok, unflagged. intros H U N NE. zb. rewrite H0, H1 in H. zb.
  destruct (children s X) as [|c cs] eqn:C; [contradiction|]. cbn [nonempty] in H2.
  unfold child_min_sum in H2. rwn_in N H2.
  rewrite children_kids in C. unfold kids in *.
  destruct (find X (hier s)) as [l|]; [|discriminate]. subst l.
  destruct (min_sum (infos s) (c :: cs) []) as [sum|]; [|discriminate].
  exists sum. auto.
Qed.

(* checkIsParentChange: a quota that has entries in the children index stays a parent *)
Lemma is_parent_change_keeps s pods o X i ons :
  is_parent_change_ok s pods (Some o) X i ons = true ->
  i_is_parent o = true -> children s X <> [] -> i_is_parent i = true.
Proof.
  unfold is_parent_change_ok. intros H Ho NE.
  destruct (Bool.eqb (i_is_parent o) (i_is_parent i)) eqn:E.
  - apply eqb_prop in E. congruence.
  - destruct (children s X); [contradiction|]. cbn [nonempty andb] in H.
    destruct (i_is_parent i); [reflexivity|discriminate].
Qed.
