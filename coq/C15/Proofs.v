(* C15 — proofs about the model: frame of rejected requests (the invariant proofs are in
   Proofs_inv.v, the namespace proofs in Proofs_ns.v, the decision procedures in Proofs_spec.v). *)
From Coq Require Import List ZArith Bool Lia.
From Verif Require Import C15.Model C15.Spec.
Import ListNotations.
Open Scope Z_scope.

Lemma reject_frame s r : accepted s r = false -> step s r = s.
Proof.
  unfold accepted, step. intro H.
  destruct (code s r =? 0) eqn:E; [|reflexivity].
  apply Z.eqb_eq in E. rewrite E in H. discriminate.
Qed.
