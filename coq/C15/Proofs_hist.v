(* C15 — the deletion guard, and the whole-history decision procedure [prop_code] evaluated on
   the model's own trace: it holds for every request sequence. *)
From Coq Require Import List ZArith Bool Lia.
From Verif Require Import C15.Model C15.Spec C15.Proofs C15.Proofs_maps C15.Proofs_checks
     C15.Proofs_inv C15.Proofs_spec C15.Proofs_ns.
Import ListNotations.
Open Scope Z_scope.

(* an accepted deletion: the quota had no child and no bound pod (labelled, in the namespace
   named like it, or in a namespace it declares), and is no longer recorded *)
Lemma delete_guard s pods q : WF s -> accepted s (pods, Delete q) = true ->
  (forall c, ~ child_of (infos s) (q_name q) c)
  /\ has_pods pods (q_name q) (ann_ns q) = false
  /\ find (q_name q) (infos (step s (pods, Delete q))) = None.
Proof.
  intros W A. unfold accepted in A. apply Z.leb_le in A. cbn [code fst snd] in A.
  apply delete_code_range in A.
  destruct (delete_code_facts _ _ _ A) as [XR [[xi FX] [HX [NP NB]]]].
  repeat split; [|exact NB|].
  - intros c Hc. pose proof (wf_child_in_kids s W _ c XR Hc) as Hk.
    unfold kids in Hk. rewrite HX in Hk. destruct Hk.
  - unfold step. cbn [code fst snd]. rewrite A. cbn [Z.eqb].
    unfold delete_apply. rewrite FX. cbn [infos]. apply find_mremove_eq.
Qed.

Lemma has_pods_label pods name nss :
  has_pods pods name nss = false -> existsb (fun p => fst p =? name) pods = false.
Proof.
  unfold has_pods. intro H. apply orb_false_iff in H. destruct H as [H _].
  apply orb_false_iff in H. tauto.
Qed.

Lemma delete_guard_okb s pods q : WF s -> ksorted (infos s) ->
  accepted s (pods, Delete q) = true ->
  delete_guard_ok s (step s (pods, Delete q)) pods q = true.
Proof.
  intros W S A. destruct (delete_guard s pods q W A) as [NOCH [NB GONE]].
  pose proof (has_pods_label _ _ _ NB) as NP.
  unfold delete_guard_ok. rewrite NP. unfold mem. rewrite GONE. cbn [negb]. rewrite !andb_true_r.
  apply forallb_forall. intros [c ic] Hin. cbn [fst snd].
  destruct (Z.eqb_spec c ROOT) as [|N]; [reflexivity|]. cbn [orb]. apply negb_true_iff.
  apply Z.eqb_neq. intro E. apply (NOCH c). split; [exact N|]. exists ic.
  split; [now apply ksorted_find|exact E].
Qed.

(* ------------------------------------------------------------------ namespaces, decided *)
Lemma ns_okb_complete st s : ksorted st -> ksorted (nsmap s) -> NsOK st s -> ns_okb st s = true.
Proof.
  intros S1 S2 [N1 N2]. unfold ns_okb. apply andb_true_iff. split; apply forallb_forall.
  - intros [name q] Hin. cbn [fst snd]. apply forallb_forall. intros x Hx.
    rewrite (N1 name q x); [apply Z.eqb_refl|now apply ksorted_find|exact Hx].
  - intros [x owner] Hin. cbn [fst snd].
    destruct (N2 x owner) as [q [-> Hq]]; [now apply ksorted_find|]. now apply memZ_In.
Qed.

Lemma ns_okb_sound st s : ns_okb st s = true -> NsOK st s.
Proof.
  unfold ns_okb. intro H. apply andb_true_iff in H. destruct H as [H1 H2].
  rewrite forallb_forall in H1, H2. split.
  - intros name q x F Hx. specialize (H1 _ (find_In _ _ _ F)). cbn [fst snd] in H1.
    rewrite forallb_forall in H1. specialize (H1 x Hx).
    destruct (find x (nsmap s)) as [owner|]; [|discriminate]. apply Z.eqb_eq in H1. now subst.
  - intros x owner F. specialize (H2 _ (find_In _ _ _ F)). cbn [fst snd] in H2.
    destruct (find owner st) as [q|]; [|discriminate]. exists q. split; [reflexivity|].
    now apply memZ_In.
Qed.

Lemma ksorted_store_step st acc r : ksorted st -> ksorted (store_step st acc r).
Proof.
  intro S. unfold store_step. destruct acc; [|exact S].
  destruct (snd r); [now apply ksorted_mset|now apply ksorted_mset|now apply ksorted_mremove].
Qed.

Lemma same_topo_refl s : same_topo s s = true.
Proof. apply eq_listZ_refl. Qed.

(* ------------------------------------------------------------------ the model's own traces *)
Lemma nsbound_accepted s r : WF s -> accepted s r = true -> nsbound_delete r = false.
Proof.
  intros W A. destruct r as [pods [q|o n|q]]; try reflexivity.
  unfold nsbound_delete. cbn [fst snd]. now destruct (delete_guard s pods q W A) as [_ [NB _]].
Qed.

Lemma hist_code_trace rs : forall s st cn,
  WF s -> sorted_topo s -> ksorted st -> (cn = true -> NsOK st s) ->
  hist_code s st cn rs (trace s rs) = 0.
Proof.
  induction rs as [|r rs IH]; intros s st cn W S SS N; cbn [trace hist_code]; [reflexivity|].
  pose proof (WF_step s r W) as W'. pose proof (sorted_step s r S) as S'.
  rewrite (wf_code_complete _ (proj1 S') W'). cbn [Z.eqb negb].
  destruct (accepted s r) eqn:A; cbn [negb andb].
  - assert (match snd r with
            | Delete q => negb (delete_guard_ok s (step s r) (fst r) q)
            | _ => false
            end = false) as DG.
    { destruct r as [pods [q|o n|q]]; cbn [fst snd]; try reflexivity.
      apply negb_false_iff. apply delete_guard_okb; [exact W|exact (proj1 S)|exact A]. }
    rewrite DG, (nsbound_accepted s r W A).
    destruct (cn && consistent1 st true r) eqn:C; cbn [andb].
    + apply andb_true_iff in C. destruct C as [-> C].
      assert (NsOK (store_step st true r) (step s r)) as N'.
      { rewrite <- A. apply NsOK_step; [now apply N|now rewrite A]. }
      rewrite ns_okb_complete; [|now apply ksorted_store_step|exact (proj2 (proj2 S'))|exact N'].
      cbn [negb]. apply IH; auto. now apply ksorted_store_step.
    + apply IH; auto; [now apply ksorted_store_step|discriminate].
  - pose proof (reject_frame _ _ A) as RF.
    assert (same_topo s (step s r) = true) as ST by (rewrite RF; apply same_topo_refl).
    rewrite ST. cbn [negb].
    unfold consistent1, store_step. cbn [negb orb]. rewrite andb_true_r.
    destruct cn; cbn [andb].
    + rewrite ns_okb_complete;
        [|exact SS|exact (proj2 (proj2 S'))|rewrite RF; now apply N].
      cbn [negb]. apply IH; auto. rewrite RF. exact N.
    + apply IH; auto. discriminate.
Qed.

Lemma prop_code_trace g rs : prop_code g rs (trace (init_topo g) rs) = 0.
Proof.
  unfold prop_code. apply hist_code_trace.
  - apply WF_init.
  - apply sorted_init.
  - constructor.
  - intros _. apply NsOK_init.
Qed.
