(* C15 — the informer handlers, one delivery at a time:
   - [Applied w s]: the record already shows the write w; then the handler for w changes no
     lookup ([applied_noop]) — the replica's own echo, and any repeated delivery;
   - whatever the record, after the handler ran (without panicking) the write is applied
     ([applied_after]);
   - a write this replica would admit itself, with the stored old object, is written by the
     handler exactly as the validating path writes it ([peer_update], [peer_delete], [WF_on_add]);
   - the delivery of an update that was admitted unchecked only refreshes the recorded info
     ([refresh_update], [WF_refresh]). *)
From Coq Require Import List ZArith Bool Lia.
From Verif Require Import Lib.Wire C15.Model C15.Spec C15.Informer C15.SpecInf C15.Proofs C15.Proofs_maps
     C15.Proofs_reach C15.Proofs_checks C15.Proofs_inv C15.Proofs_spec C15.Proofs_ns C15.Proofs_inf_base.
Import ListNotations.
Open Scope Z_scope.

(* ------------------------------------------------------------------ small facts *)
Lemma kids_In_mem h k c : In c (kids h k) -> mem k h = true.
Proof. unfold kids, mem. destruct (find k h); [reflexivity|intros []]. Qed.

Lemma i_parent_info_of q : i_parent (info_of q) = parent_name q.
Proof. reflexivity. Qed.

Lemma eq_listZ_false a b : eq_listZ a b = false -> a <> b.
Proof. intros H ->. rewrite eq_listZ_refl in H. discriminate. Qed.

Lemma memZ_true_In x l : In x l -> memZ x l = true.
Proof. apply memZ_In. Qed.

Lemma memZ_false_In x l : ~ In x l -> memZ x l = false.
Proof. apply memZ_false. Qed.

Lemma text_sym a b : text a b -> text b a.
Proof.
  intros [A1 [A2 [A3 [A4 A5]]]]. repeat split; try congruence; try (intro; symmetry; auto).
  - apply A4.
  - apply A4.
Qed.

Lemma parent_name_fields o n : q_name o = q_name n -> q_plabel o = q_plabel n -> parent_name o = parent_name n.
Proof. intros E1 E2. unfold parent_name. now rewrite E1, E2. Qed.

Lemma fields_eq_facts o n : fields_eq o n = true ->
  q_plabel o = q_plabel n /\ q_is_parent o = q_is_parent n /\ q_tree o = q_tree n
  /\ ann_ns o = ann_ns n /\ req_ (q_min o) (q_min n) /\ req_ (q_max o) (q_max n).
Proof.
  intro H. pose proof (fields_eq_ns _ _ H) as NS. unfold fields_eq in H.
  repeat (apply andb_true_iff in H; destruct H as [H ?]).
  repeat match goal with
         | E : (_ =? _) = true |- _ => apply Z.eqb_eq in E
         | E : Bool.eqb _ _ = true |- _ => apply eqb_prop in E
         | E : eq_res _ _ = true |- _ => apply eq_res_req in E
         end.
  repeat split; auto.
Qed.

Lemma fields_eq_info_eqv o n : q_name o = q_name n -> fields_eq o n = true ->
  q_force o = q_force n -> q_tree_root o = q_tree_root n -> info_eqv (info_of o) (info_of n).
Proof.
  intros EN H F R. destruct (fields_eq_facts _ _ H) as [P [IP [T [_ [Mn Mx]]]]].
  unfold info_eqv, info_of. cbn. repeat split; auto. now apply parent_name_fields.
Qed.

(* an update that is admitted unchecked keeps the two exempting labels (they are among the
   compared fields since the repair of findings/C15-unchecked-flag-drop.md) *)
Definition flag_stable_op (w : op) : bool :=
  match w with
  | Update o n => negb (fields_eq o n)
                  || (Bool.eqb (q_force o) (q_force n) && Bool.eqb (q_tree_root o) (q_tree_root n))
  | _ => true
  end.
Definition flag_stable_ev (e : event) : bool :=
  match e with EReq r => flag_stable_op (snd r) | EInf r => flag_stable_op (snd r) end.

Lemma flag_stable_op_true w : flag_stable_op w = true.
Proof.
  destruct w as [q|o n|q]; cbn [flag_stable_op]; try reflexivity.
  destruct (fields_eq o n) eqn:FE; [|reflexivity]. cbn [negb orb].
  unfold fields_eq in FE. apply andb_true_iff in FE. destruct FE as [FE R].
  apply andb_true_iff in FE. destruct FE as [_ F]. now rewrite F, R.
Qed.

Lemma flag_stable_all es : forallb flag_stable_ev es = true.
Proof.
  apply forallb_forall. intros e _. destruct e; cbn [flag_stable_ev]; apply flag_stable_op_true.
Qed.

Lemma flag_stable_facts o n : flag_stable_op (Update o n) = true -> fields_eq o n = true ->
  q_force o = q_force n /\ q_tree_root o = q_tree_root n.
Proof.
  cbn [flag_stable_op]. intros H F. rewrite F in H. cbn [negb orb] in H.
  apply andb_true_iff in H. destruct H as [H1 H2]. split; now apply eqb_prop.
Qed.

(* ------------------------------------------------------------------ the record shows a write *)
Definition Applied (w : op) (s : topo) : Prop :=
  match w with
  | Add q =>
      find (q_name q) (infos s) = Some (info_of q)
      /\ mem (q_name q) (hier s) = true
      /\ In (q_name q) (kids (hier s) (parent_name q))
      /\ (forall x, In x (ann_ns q) -> find x (nsmap s) = Some (q_name q))
  | Update o n =>
      find (q_name n) (infos s) = Some (info_of n)
      /\ (parent_name o <> parent_name n ->
            ~ In (q_name o) (kids (hier s) (parent_name o))
            /\ In (q_name n) (kids (hier s) (parent_name n)))
      /\ (ann_ns o <> ann_ns n ->
            (forall x, In x (ann_ns n) -> find x (nsmap s) = Some (q_name n))
            /\ (forall x, In x (ann_ns o) -> ~ In x (ann_ns n) -> find x (nsmap s) = None))
  | Delete q =>
      find (q_name q) (infos s) = None
      /\ find (q_name q) (hier s) = None
      /\ ~ In (q_name q) (kids (hier s) (parent_name q))
      /\ (forall x, In x (ann_ns q) -> find x (nsmap s) = None)
  end.

Lemma mem_find_None {A} k (l : list (Z * A)) : find k l = None <-> mem k l = false.
Proof. symmetry. apply mem_false. Qed.

Lemma Applied_text w a b : text a b -> Applied w a -> Applied w b.
Proof.
  intros [_ [FI [MH [KH FN]]]] H. destruct w as [q|o n|q]; cbn [Applied] in *.
  - destruct H as [H1 [H2 [H3 H4]]]. repeat split.
    + now rewrite <- FI.
    + now rewrite <- MH.
    + now apply KH.
    + intros x Hx. rewrite <- FN. auto.
  - destruct H as [H1 [H2 H3]]. repeat split.
    + now rewrite <- FI.
    + intro Hin. apply KH in Hin. now apply (proj1 (H2 H)).
    + apply KH. now apply (proj2 (H2 H)).
    + intros x Hx. rewrite <- FN. now apply (proj1 (H3 H)).
    + intros x Hx Hn. rewrite <- FN. now apply (proj2 (H3 H)).
  - destruct H as [H1 [H2 [H3 H4]]]. repeat split.
    + now rewrite <- FI.
    + apply mem_find_None. rewrite <- MH. now apply mem_find_None.
    + intro Hin. apply KH in Hin. contradiction.
    + intros x Hx. rewrite <- FN. auto.
Qed.

(* ------------------------------------------------------------------ after the handler ran *)
Lemma applied_after s w s' : wf_op w = true -> inf_apply s w = (s', false) -> Applied w s'.
Proof.
  intros WO E. destruct w as [q|o n|q]; cbn [inf_apply] in E.
  - injection E as <-. unfold on_add. cbn [Applied infos hier nsmap]. repeat split.
    + apply find_mset_eq.
    + rewrite mem_add_child. destruct (mem (q_name q) (hier s)) eqn:M.
      * rewrite M. apply orb_true_r.
      * rewrite mem_mset, Z.eqb_refl. apply orb_true_r.
    + rewrite kids_add_child, i_parent_info_of, Z.eqb_refl. apply In_sadd. now left.
    + intros x Hx. rewrite find_ns_bind. now rewrite (memZ_true_In _ _ Hx).
  - cbn [wf_op] in WO. apply Z.eqb_eq in WO. unfold on_update in E.
    set (nsr := if eq_listZ (ann_ns o) (ann_ns n) then nsmap s
                else ns_bind (q_name n) (ann_ns n) (ns_unbind (ann_ns o) (nsmap s))) in *.
    assert (ann_ns o <> ann_ns n ->
            (forall x, In x (ann_ns n) -> find x nsr = Some (q_name n))
            /\ (forall x, In x (ann_ns o) -> ~ In x (ann_ns n) -> find x nsr = None)) as NSR.
    { intro NE. unfold nsr. destruct (eq_listZ (ann_ns o) (ann_ns n)) eqn:EL.
      - apply eq_listZ_eq in EL. contradiction.
      - split.
        + intros x Hx. rewrite find_ns_bind. now rewrite (memZ_true_In _ _ Hx).
        + intros x Hx Hn. rewrite find_ns_bind, find_ns_unbind.
          now rewrite (memZ_false_In _ _ Hn), (memZ_true_In _ _ Hx). }
    destruct (parent_name o =? parent_name n) eqn:EP.
    + injection E as <-. cbn [Applied infos hier nsmap]. repeat split.
      * apply find_mset_eq.
      * apply Z.eqb_eq in EP. contradiction.
      * apply Z.eqb_eq in EP. contradiction.
      * now apply (proj1 (NSR H)).
      * now apply (proj2 (NSR H)).
    + apply Z.eqb_neq in EP.
      destruct (find (parent_name n) (hier_del_child (parent_name o) (q_name o) (hier s))) as [l|] eqn:FB;
        [|discriminate].
      injection E as <-. cbn [Applied infos hier nsmap]. repeat split.
      * apply find_mset_eq.
      * rewrite kids_mset. rewrite (proj2 (Z.eqb_neq _ _) EP).
        rewrite In_kids_del_child. intros [_ NN]. apply NN. auto.
      * rewrite kids_mset, Z.eqb_refl. apply In_sadd. now left.
      * now apply (proj1 (NSR H)).
      * now apply (proj2 (NSR H)).
  - injection E as <-. unfold on_delete. cbn [Applied infos hier nsmap]. repeat split.
    + apply find_mremove_eq.
    + apply find_mremove_eq.
    + rewrite kids_mremove. destruct (parent_name q =? q_name q); [intros []|].
      rewrite In_kids_del_child. intros [_ NN]. apply NN. auto.
    + intros x Hx. rewrite find_ns_unbind. now rewrite (memZ_true_In _ _ Hx).
Qed.

(* ------------------------------------------------------------------ the echo changes no lookup *)
Lemma find_mset_same {A} k (v : A) l k0 : find k l = Some v -> find k0 (mset k v l) = find k0 l.
Proof.
  intro F. rewrite find_mset. destruct (Z.eqb_spec k0 k) as [->|]; [now rewrite F|reflexivity].
Qed.

Lemma applied_noop s w : Applied w s -> exists s', inf_apply s w = (s', false) /\ text s' s.
Proof.
  intro H. destruct w as [q|o n|q]; cbn [Applied inf_apply] in *.
  - destruct H as [H1 [H2 [H3 H4]]]. eexists. split; [reflexivity|].
    unfold on_add. rewrite H2. unfold text. cbn [gate_keys infos hier nsmap]. rewrite i_parent_info_of.
    split; [reflexivity|]. split; [intro k; now apply find_mset_same|].
    pose proof (kids_In_mem _ _ _ H3) as MP.
    split; [|split].
    + intro k. rewrite mem_add_child. destruct (Z.eqb_spec k (parent_name q)) as [->|]; [now rewrite MP|reflexivity].
    + intros k c. rewrite kids_add_child. destruct (Z.eqb_spec k (parent_name q)) as [->|]; [|reflexivity].
      rewrite In_sadd. split; [intros [->|Hc]; auto|auto].
    + intro x. rewrite find_ns_bind. destruct (memZ x (ann_ns q)) eqn:M; [|reflexivity].
      apply memZ_In in M. now rewrite (H4 x M).
  - destruct H as [H1 [H2 H3]]. unfold on_update.
    set (nsr := if eq_listZ (ann_ns o) (ann_ns n) then nsmap s
                else ns_bind (q_name n) (ann_ns n) (ns_unbind (ann_ns o) (nsmap s))).
    assert (forall x, find x nsr = find x (nsmap s)) as NSR.
    { intro x. unfold nsr. destruct (eq_listZ (ann_ns o) (ann_ns n)) eqn:EL; [reflexivity|].
      destruct (H3 (eq_listZ_false _ _ EL)) as [B U].
      rewrite find_ns_bind, find_ns_unbind. destruct (memZ x (ann_ns n)) eqn:M1.
      - apply memZ_In in M1. now rewrite (B x M1).
      - destruct (memZ x (ann_ns o)) eqn:M2; [|reflexivity].
        apply memZ_In in M2. apply memZ_false in M1. now rewrite (U x M2 M1). }
    destruct (parent_name o =? parent_name n) eqn:EP.
    + eexists. split; [reflexivity|]. unfold text. cbn [gate_keys infos hier nsmap].
      split; [reflexivity|]. split; [intro k; now apply find_mset_same|].
      split; [reflexivity|]. split; [reflexivity|exact NSR].
    + apply Z.eqb_neq in EP. destruct (H2 EP) as [NA INB].
      set (h1 := hier_del_child (parent_name o) (q_name o) (hier s)).
      assert (forall k c, In c (kids h1 k) <-> In c (kids (hier s) k)) as K1.
      { intros k c. unfold h1. rewrite In_kids_del_child. split; [tauto|].
        intro Hc. split; [exact Hc|]. intros [-> ->]. contradiction. }
      assert (In (q_name n) (kids h1 (parent_name n))) as INB1 by now apply K1.
      destruct (find (parent_name n) h1) as [l|] eqn:FB.
      2:{ unfold kids in INB1. rewrite FB in INB1. destruct INB1. }
      assert (kids h1 (parent_name n) = l) as KL by (unfold kids; now rewrite FB).
      eexists. split; [reflexivity|]. unfold text. cbn [gate_keys infos hier nsmap].
      split; [reflexivity|]. split; [intro k; now apply find_mset_same|].
      split; [|split; [|exact NSR]].
      * intro k. rewrite mem_mset. unfold h1. rewrite mem_del_child.
        destruct (Z.eqb_spec k (parent_name n)) as [->|]; [|reflexivity].
        cbn [orb]. symmetry. eapply kids_In_mem; eauto.
      * intros k c. rewrite kids_mset. destruct (Z.eqb_spec k (parent_name n)) as [->|]; [|apply K1].
        rewrite In_sadd, <- KL. rewrite <- K1. split; [intros [->|Hc]; auto|auto].
  - destruct H as [H1 [H2 [H3 H4]]]. eexists. split; [reflexivity|].
    unfold on_delete, text. cbn [gate_keys infos hier nsmap].
    split; [reflexivity|]. split; [|split; [|split]].
    + intro k. rewrite find_mremove. destruct (Z.eqb_spec k (q_name q)) as [->|]; [now rewrite H1|reflexivity].
    + intro k. unfold mem at 1. rewrite find_mremove. destruct (Z.eqb_spec k (q_name q)) as [->|].
      * unfold mem. now rewrite H2.
      * fold (mem k (hier_del_child (parent_name q) (q_name q) (hier s))). apply mem_del_child.
    + intros k c. rewrite kids_mremove. destruct (Z.eqb_spec k (q_name q)) as [->|].
      * unfold kids. rewrite H2. tauto.
      * rewrite In_kids_del_child. split; [tauto|]. intro Hc. split; [exact Hc|].
        intros [-> ->]. contradiction.
    + intro x. rewrite find_ns_unbind. destruct (memZ x (ann_ns q)) eqn:M; [|reflexivity].
      apply memZ_In in M. now rewrite (H4 x M).
Qed.

(* ------------------------------------------------------------------ a peer's create *)
Lemma WF_on_add s pods q : WF s -> add_code s pods q = 0 -> WF (on_add s q).
Proof.
  intros W C. pose proof (WF_add s pods q W C) as W'.
  assert (find (q_name q) (infos s) = None) as NF.
  { unfold add_code in C. destruct (mem (q_name q) (infos s)) eqn:M; [discriminate|]. now apply mem_false. }
  set (X := q_name q) in *. set (i := info_of q) in *.
  set (h0 := if mem X (hier s) then hier s else mset X [] (hier s)).
  assert (forall k, mem k (hier s) = true -> mem k h0 = true) as M0.
  { intros k H. unfold h0. destruct (mem X (hier s)); [exact H|]. rewrite mem_mset, H. apply orb_true_r. }
  assert (mem X h0 = true) as MX.
  { unfold h0. destruct (mem X (hier s)) eqn:M; [exact M|]. rewrite mem_mset, Z.eqb_refl. reflexivity. }
  assert (forall k c, In c (kids h0 k) -> In c (kids (hier s) k)) as K0.
  { intros k c. unfold h0. destruct (mem X (hier s)); [auto|]. rewrite kids_mset.
    destruct (k =? X); [intros []|auto]. }
  assert (forall k c, k <> X -> In c (kids (hier s) k) -> In c (kids h0 k)) as K0'.
  { intros k c N. unfold h0. destruct (mem X (hier s)); [auto|]. rewrite kids_mset.
    now rewrite (proj2 (Z.eqb_neq _ _) N). }
  assert (forall k, find k (infos (on_add s q)) = if k =? X then Some i else find k (infos s)) as FI.
  { intro k. unfold on_add. cbn [infos]. apply find_mset. }
  constructor.
  - exact (wf_parent _ W').
  - exact (wf_reach _ W').
  - exact (wf_self _ W').
  - exact (wf_minsum _ W').
  - exact (wf_keys _ W').
  - exact (wf_tree _ W').
  - intros k ki F. unfold on_add. cbn [hier]. fold X i h0. rewrite mem_add_child.
    rewrite FI in F. destruct (Z.eqb_spec k X) as [->|N].
    + rewrite MX. apply orb_true_r.
    + rewrite (M0 k); [apply orb_true_r|]. eapply wf_index_key; eauto.
  - intros k ki F N NP. unfold children, on_add. cbn [hier]. fold X i h0.
    fold (kids (hier_add_child (i_parent i) X h0) (i_parent ki)). rewrite kids_add_child.
    rewrite FI in F. destruct (Z.eqb_spec k X) as [->|NkX].
    + injection F as <-. rewrite Z.eqb_refl. apply In_sadd. now left.
    + pose proof (wf_index_in s W k ki F N NP) as Hin. unfold children in Hin.
      fold (kids (hier s) (i_parent ki)) in Hin.
      assert (i_parent ki <> X) as NPX.
      { intros E. destruct (wf_parent s W k ki F N NP) as [p [Fp _]]. rewrite E in Fp. congruence. }
      destruct (Z.eqb_spec (i_parent ki) (i_parent i)) as [EP|EP].
      * apply In_sadd. right. rewrite <- EP. now apply K0'.
      * now apply K0'.
  - intros k c Hc Nc. unfold children, on_add in Hc. cbn [hier] in Hc. fold X i h0 in Hc.
    fold (kids (hier_add_child (i_parent i) X h0) k) in Hc. rewrite kids_add_child in Hc.
    assert (c = X /\ k = i_parent i \/ In c (kids (hier s) k)) as D.
    { destruct (Z.eqb_spec k (i_parent i)) as [->|NE].
      - apply In_sadd in Hc. destruct Hc as [->|Hc]; [now left|right; now apply K0].
      - right. now apply K0. }
    destruct D as [[-> ->]|Hc'].
    + split; [exact Nc|]. exists i. rewrite FI, Z.eqb_refl. auto.
    + destruct (wf_index_only s W k c Hc' Nc) as [_ [ic [F E]]].
      split; [exact Nc|]. exists ic. rewrite FI.
      destruct (Z.eqb_spec c X) as [->|]; [congruence|auto].
Qed.

(* ------------------------------------------------------------------ a peer's update / delete *)
Lemma update_code0_facts s pods o n : update_code s pods o n = 0 ->
  q_name n <> ROOT /\ exists oi, find (q_name n) (infos s) = Some oi
  /\ topology_ok s pods (Some oi) (q_name n) (info_of n) (ann_ns o) = true.
Proof.
  unfold update_code. destruct (fields_eq o n); [discriminate|].
  destruct ((q_name n =? SYSTEM) || (q_name n =? ROOT)) eqn:SR; [discriminate|].
  destruct (existsb _ (ann_ns n)); [discriminate|].
  destruct (find (q_name n) (infos s)) as [oi|]; [|discriminate].
  destruct (self_item_ok n); cbn [negb]; [|discriminate].
  destruct (topology_ok s pods (Some oi) (q_name n) (info_of n) (ann_ns o)) eqn:T; cbn [negb]; [|discriminate].
  intros _. apply orb_false_iff in SR. destruct SR as [_ XR]. apply Z.eqb_neq in XR.
  split; [exact XR|]. exists oi. auto.
Qed.

Lemma update_apply_parent_mem s pods o n oi : mem ROOT (hier s) = true ->
  update_code s pods o n = 0 -> find (q_name n) (infos s) = Some oi ->
  mem (parent_name n) (hier s) = true.
Proof.
  intros MR C F. destruct (update_code0_facts _ _ _ _ C) as [XR [oi' [F' T]]].
  rewrite F in F'. injection F' as <-.
  destruct (topology_ok_split _ _ _ _ _ _ XR T) as [_ [_ [[E _]|[PO _]]]].
  - rewrite i_parent_info_of in E. now rewrite E.
  - rewrite i_parent_info_of in PO. destruct (Z.eq_dec (parent_name n) ROOT) as [E|NE]; [now rewrite E|].
    destruct (parent_ok_facts _ _ _ PO NE) as [p [_ [M _]]]. exact M.
Qed.

Lemma peer_update s st pods o n :
  mem ROOT (hier s) = true -> NsOK st s -> StoreOK st s ->
  cons_full st (Update o n) = true -> update_code s pods o n = 0 ->
  exists s', on_update s o n = (s', false) /\ text s' (update_apply s o n).
Proof.
  intros MR [N1 _] SO CF C. cbn [cons_full] in CF. apply andb_true_iff in CF. destruct CF as [EN CF].
  apply Z.eqb_eq in EN.
  destruct (find (q_name n) st) as [o'|] eqn:FS; [|discriminate]. apply eq_quota_eq in CF. subst o'.
  destruct (StoreOK_some _ _ _ _ SO FS) as [oi [FX [PA _]]]. rewrite i_parent_info_of in PA.
  pose proof (update_apply_parent_mem _ _ _ _ _ MR C FX) as MB.
  unfold update_apply. rewrite FX. rewrite PA, i_parent_info_of. unfold on_update.
  set (nsr := if eq_listZ (ann_ns o) (ann_ns n) then nsmap s
              else ns_bind (q_name n) (ann_ns n) (ns_unbind (ann_ns o) (nsmap s))).
  assert (forall x, find x nsr = find x (ns_bind (q_name n) (ann_ns n) (ns_unbind (ann_ns o) (nsmap s)))) as NSR.
  { intro x. unfold nsr. destruct (eq_listZ (ann_ns o) (ann_ns n)) eqn:EL; [|reflexivity].
    apply eq_listZ_eq in EL. rewrite find_ns_bind, find_ns_unbind, EL.
    destruct (memZ x (ann_ns n)) eqn:M; [|reflexivity].
    apply memZ_In in M. rewrite <- EL in M. now apply (N1 _ _ _ FS). }
  destruct (parent_name o =? parent_name n) eqn:EP.
  - eexists. split; [reflexivity|]. unfold text. cbn [gate_keys infos hier nsmap]. repeat split; auto.
  - rewrite EN.
    assert (mem (parent_name n) (hier_del_child (parent_name o) (q_name n) (hier s)) = true) as MB1
      by now rewrite mem_del_child.
    apply mem_true in MB1. destruct MB1 as [l FB]. rewrite FB.
    eexists. split; [reflexivity|]. unfold text. cbn [gate_keys infos hier nsmap].
    unfold hier_add_child. rewrite FB. repeat split; auto.
Qed.

Lemma peer_delete s st pods q :
  StoreOK st s -> cons_full st (Delete q) = true -> delete_code s pods q = 0 ->
  on_delete s q = delete_apply s q.
Proof.
  intros SO CF C. cbn [cons_full] in CF.
  destruct (find (q_name q) st) as [q'|] eqn:FS; [|discriminate]. apply eq_quota_eq in CF. subst q'.
  destruct (StoreOK_some _ _ _ _ SO FS) as [xi [FX [PA _]]]. rewrite i_parent_info_of in PA.
  unfold delete_apply, on_delete. rewrite FX, PA. reflexivity.
Qed.

(* ------------------------------------------------------------------ the unchecked update reaches the record *)
Lemma refresh_update s o n : q_name o = q_name n -> fields_eq o n = true ->
  on_update s o n =
  (mkTopo (gate_keys s) (gate_guar s) (mset (q_name n) (info_of n) (infos s)) (hier s) (nsmap s), false).
Proof.
  intros EN FE. destruct (fields_eq_facts _ _ FE) as [P [_ [_ [NS _]]]].
  unfold on_update. rewrite (parent_name_fields _ _ EN P), Z.eqb_refl, NS, eq_listZ_refl. reflexivity.
Qed.

Lemma opt_eqv_refl a : opt_eqv a a.
Proof. destruct a; cbn; [apply info_eqv_refl|exact I]. Qed.

Lemma WF_refresh s X i oi : WF s -> find X (infos s) = Some oi -> info_eqv i oi ->
  WF (mkTopo (gate_keys s) (gate_guar s) (mset X i (infos s)) (hier s) (nsmap s)).
Proof.
  intros W F V. apply (WF_infos_eqv s); auto. cbn [infos]. intro k. rewrite find_mset.
  destruct (Z.eqb_spec k X) as [->|]; [rewrite F; exact V|apply opt_eqv_refl].
Qed.

(* ------------------------------------------------------------------ the store follows the requests *)
Lemma cons_full_consistent1 st r : cons_full st (snd r) = true -> consistent1 st true r = true.
Proof.
  unfold consistent1. cbn [negb orb]. destruct (snd r) as [q|o n|q]; cbn [cons_full]; auto.
  - intro H. apply andb_true_iff in H. destruct H as [_ H].
    destruct (find (q_name n) st) as [o'|]; [|discriminate]. apply eq_quota_eq in H. subst. apply eq_listZ_refl.
  - intro H. destruct (find (q_name q) st) as [q'|]; [|discriminate]. apply eq_quota_eq in H. subst.
    apply eq_listZ_refl.
Qed.

Lemma StoreOK_step st s r :
  StoreOK st s -> (accepted s r = true -> cons_full st (snd r) = true) ->
  flag_stable_op (snd r) = true ->
  StoreOK (store_step st (accepted s r) r) (step s r).
Proof.
  intros SO CF FS. unfold store_step. destruct (accepted s r) eqn:A.
  2:{ now rewrite (reject_frame _ _ A). }
  specialize (CF eq_refl). unfold accepted in A. apply Z.leb_le in A. unfold step.
  destruct r as [pods [q|o n|q]]; cbn [fst snd code cons_full] in *.
  - apply add_code_range in A. rewrite A. cbn [Z.eqb]. unfold add_apply. intro k. cbn [infos].
    rewrite !find_mset. destruct (k =? q_name q); [apply info_eqv_refl|apply SO].
  - apply andb_true_iff in CF. destruct CF as [EN CF]. apply Z.eqb_eq in EN.
    destruct (find (q_name n) st) as [o'|] eqn:FO; [|discriminate]. apply eq_quota_eq in CF. subst o'.
    destruct (StoreOK_some _ _ _ _ SO FO) as [oi [FX V]].
    destruct (update_code_range _ _ _ _ A) as [Z0|[ZM FE]].
    + rewrite Z0. cbn [Z.eqb]. unfold update_apply. rewrite FX. intro k. cbn [infos].
      rewrite !find_mset. destruct (k =? q_name n); [apply info_eqv_refl|apply SO].
    + rewrite ZM. cbn [Z.eqb]. intro k. rewrite find_mset.
      destruct (Z.eqb_spec k (q_name n)) as [->|]; [|apply SO]. rewrite FX.
      destruct (flag_stable_facts _ _ FS FE) as [F1 F2].
      eapply info_eqv_trans; [exact V|]. now apply fields_eq_info_eqv.
  - destruct (find (q_name q) st) as [q'|] eqn:FO; [|discriminate].
    apply delete_code_range in A. rewrite A. cbn [Z.eqb].
    destruct (delete_code_facts _ _ _ A) as [_ [[xi FX] _]].
    unfold delete_apply. rewrite FX. intro k. cbn [infos]. rewrite !find_mremove.
    destruct (k =? q_name q); [exact I|apply SO].
Qed.

(* ------------------------------------------------------------------ the root's index entry stays *)
Lemma memroot_step s r : mem ROOT (hier s) = true -> mem ROOT (hier (step s r)) = true.
Proof.
  intro M. unfold step. destruct (code s r =? 0) eqn:E; [|exact M]. apply Z.eqb_eq in E.
  destruct r as [pods [q|o n|q]]; cbn [fst snd code] in *.
  - unfold add_apply. cbn [hier]. rewrite mem_add_child, mem_mset, M. now rewrite !orb_true_r.
  - unfold update_apply. destruct (find (q_name n) (infos s)); [|exact M]. cbn [hier].
    destruct (_ =? _); [exact M|]. rewrite mem_add_child, mem_del_child, M. apply orb_true_r.
  - destruct (delete_code_facts _ _ _ E) as [XR [[xi FX] _]].
    unfold delete_apply. rewrite FX. cbn [hier]. unfold mem. rewrite find_mremove_neq by congruence.
    fold (mem ROOT (hier_del_child (i_parent xi) (q_name q) (hier s))). now rewrite mem_del_child.
Qed.

Lemma memroot_on_add s q : mem ROOT (hier s) = true -> mem ROOT (hier (on_add s q)) = true.
Proof.
  intro M. unfold on_add. cbn [hier]. rewrite mem_add_child.
  destruct (mem (q_name q) (hier s)); [rewrite M|rewrite mem_mset, M]; now rewrite !orb_true_r.
Qed.

(* the validating path leaves the write applied *)
Lemma add_apply_applied s q : Applied (Add q) (add_apply s q).
Proof.
  unfold add_apply. cbn [Applied infos hier nsmap]. repeat split.
  - apply find_mset_eq.
  - rewrite mem_add_child, mem_mset, Z.eqb_refl. apply orb_true_r.
  - rewrite kids_add_child, i_parent_info_of, Z.eqb_refl. apply In_sadd. now left.
  - intros x Hx. rewrite find_ns_bind. now rewrite (memZ_true_In _ _ Hx).
Qed.
