(* C15 — reachability of the root along parent links: the Prop [Reach], the fuel-bounded
   walks of the code ([anc_ok], the check added by commit 5dea414) and of the decision
   procedure ([reach_b]), and the pigeonhole bound that makes [length infos] enough fuel. *)
From Coq Require Import List ZArith Bool Lia.
From Verif Require Import C15.Model C15.Spec C15.Proofs_maps.
Import ListNotations.
Open Scope Z_scope.

Section Reach.
Variable m : list (Z * info).

(* the non-root nodes visited on the way from n to the root *)
Inductive RP : Z -> list Z -> Prop :=
| RP_root : RP ROOT []
| RP_step n i l : n <> ROOT -> find n m = Some i -> RP (i_parent i) l -> RP n (n :: l).

Lemma Reach_RP n : Reach m n -> exists l, RP n l.
Proof.
  induction 1 as [|n i Hn Hf _ [l IH]].
  - exists []. constructor.
  - exists (n :: l). econstructor; eauto.
Qed.

Lemma RP_Reach n l : RP n l -> Reach m n.
Proof. induction 1; [constructor|econstructor; eauto]. Qed.

Lemma RP_fun n l1 : RP n l1 -> forall l2, RP n l2 -> l1 = l2.
Proof.
  induction 1 as [|n i l Hn Hf _ IH]; intros l2 H2; inversion H2; subst; try congruence.
  f_equal. apply IH. congruence.
Qed.

Lemma RP_suffix n l : RP n l -> forall x, In x l ->
  exists l2, RP x l2 /\ (length l2 <= length l)%nat.
Proof.
  induction 1 as [|n i l Hn Hf Hp IH]; intros x Hx; [destruct Hx|].
  destruct Hx as [<-|Hx].
  - exists (n :: l). split; [econstructor; eauto|lia].
  - destruct (IH x Hx) as [l2 [H2 L]]. exists l2. split; [exact H2|cbn [length]; lia].
Qed.

Lemma RP_NoDup n l : RP n l -> NoDup l.
Proof.
  induction 1 as [|n i l Hn Hf Hp IH]; constructor; [|exact IH].
  intro Hin. destruct (RP_suffix _ _ Hp n Hin) as [l2 [H2 L]].
  assert (RP n (n :: l)) as H1 by (econstructor; eauto).
  assert (l2 = n :: l) as E by (symmetry; eapply RP_fun; eauto).
  subst l2. cbn [length] in L. lia.
Qed.

Lemma RP_incl n l : RP n l -> incl l (map fst m).
Proof.
  induction 1 as [|n i l Hn Hf Hp IH]; intros x Hx; [destruct Hx|].
  destruct Hx as [<-|Hx]; [eapply find_In_key; eauto|now apply IH].
Qed.

Lemma RP_length n l : RP n l -> (length l <= length m)%nat.
Proof.
  intro H. rewrite <- (map_length fst m).
  apply NoDup_incl_length; [eapply RP_NoDup|eapply RP_incl]; eauto.
Qed.

Lemma RP_reach_b n l : RP n l -> forall fuel, (length l <= fuel)%nat -> reach_b m fuel n = true.
Proof.
  induction 1 as [|n i l Hn Hf Hp IH]; intros fuel L.
  - destruct fuel; reflexivity.
  - cbn [length] in L. destruct fuel as [|f]; [lia|]. cbn [reach_b].
    apply Z.eqb_neq in Hn. rewrite Hn, Hf. apply IH. lia.
Qed.

(* pigeonhole: a node that reaches the root does so within [length m] steps *)
Lemma Reach_reach_b n : Reach m n -> reach_b m (length m) n = true.
Proof.
  intro H. destruct (Reach_RP _ H) as [l Hl].
  eapply RP_reach_b; [exact Hl|eapply RP_length; eauto].
Qed.

Lemma reach_b_Reach fuel : forall n, reach_b m fuel n = true -> Reach m n.
Proof.
  induction fuel as [|f IH]; intros n H; cbn [reach_b] in H;
    destruct (n =? ROOT) eqn:E; try (apply Z.eqb_eq in E; subst; constructor); try discriminate.
  destruct (find n m) as [i|] eqn:F; [|discriminate].
  apply Z.eqb_neq in E. econstructor; eauto.
Qed.

(* reaching the root without passing through X *)
Inductive ReachAvoid (X : Z) : Z -> Prop :=
| RA_root : ReachAvoid X ROOT
| RA_step n i : n <> ROOT -> n <> X -> find n m = Some i -> ReachAvoid X (i_parent i) ->
    ReachAvoid X n.

(* the ancestor walk of checkParentQuotaInfo, run with at least as much fuel as the path is
   long, certifies that the path avoids X *)
Lemma anc_ok_avoid X f : forall n, reach_b m f n = true ->
  forall f', (f <= f')%nat -> anc_ok m f' X n = true -> n <> ROOT -> ReachAvoid X n.
Proof.
  induction f as [|f IH]; intros n H f' L HA Hn; cbn [reach_b] in H;
    apply Z.eqb_neq in Hn; rewrite Hn in H; [discriminate|].
  destruct (find n m) as [i|] eqn:F; [|discriminate].
  destruct f' as [|f'']; [lia|]. cbn [anc_ok] in HA. rewrite Hn in HA.
  destruct (n =? X) eqn:EX; [discriminate|]. rewrite F in HA.
  apply Z.eqb_neq in Hn. apply Z.eqb_neq in EX.
  econstructor; eauto.
  destruct (Z.eq_dec (i_parent i) ROOT) as [->|Hp]; [constructor|].
  apply (IH _ H f''); [lia|exact HA|exact Hp].
Qed.

Lemma ReachAvoid_find_None X n : find X m = None -> Reach m n -> ReachAvoid X n.
Proof.
  intro HX. induction 1 as [|n i Hn Hf _ IH]; [constructor|].
  econstructor; eauto. intros ->. congruence.
Qed.
End Reach.

(* ------------------------------------------------------------------ changing the map *)

Lemma ReachAvoid_redirect m m' X n :
  (forall k, k <> X -> find k m' = find k m) -> ReachAvoid m X n -> Reach m' n.
Proof.
  intro H. induction 1 as [|n i Hn HX Hf _ IH]; [constructor|].
  econstructor; eauto. rewrite H; auto.
Qed.

(* if X itself reaches the root in the new map, and every other node kept its parent link,
   everything that reached the root still does *)
Lemma Reach_redirect m m' X :
  (forall k, k <> X -> find k m' = find k m) -> Reach m' X ->
  forall n, Reach m n -> Reach m' n.
Proof.
  intros H HX n. induction 1 as [|n i Hn Hf _ IH]; [constructor|].
  destruct (Z.eq_dec n X) as [->|N]; [exact HX|].
  econstructor; eauto. rewrite H; auto.
Qed.

(* removing a node nobody points to *)
Lemma Reach_remove m X :
  (forall c ic, find c m = Some ic -> c <> ROOT -> i_parent ic <> X) ->
  forall n, n <> X -> Reach m n -> Reach (mremove X m) n.
Proof.
  intros H n N R. induction R as [|n i Hn Hf _ IH]; [constructor|].
  apply Reach_step with i; [exact Hn|rewrite find_mremove_neq; auto|].
  apply IH. eapply H; eauto.
Qed.
