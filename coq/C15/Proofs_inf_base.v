(* C15 — informer histories, groundwork: equality of payloads, records that agree on every
   lookup ([text]) or on every lookup up to the representation of resource lists and the
   guaranteed annotation ([infos_eqv]) are equally well formed; the record/store agreement
   [StoreOK] and its decision procedure (clause 22). *)
From Coq Require Import List ZArith Bool Lia.
From Verif Require Import Lib.Wire C15.Model C15.Spec C15.Informer C15.SpecInf C15.Proofs C15.Proofs_maps
     C15.Proofs_reach C15.Proofs_checks C15.Proofs_inv C15.Proofs_spec C15.Proofs_ns.
Import ListNotations.
Open Scope Z_scope.

(* ------------------------------------------------------------------ payload equality *)
Lemma eq_opt_eq x y : eq_opt x y = true -> x = y.
Proof.
  destruct x, y; cbn [eq_opt]; intro H; try discriminate; [|reflexivity].
  apply Z.eqb_eq in H. now subst.
Qed.

Lemma eq_opt_refl x : eq_opt x x = true.
Proof. destruct x; cbn [eq_opt]; [apply Z.eqb_refl|reflexivity]. Qed.

Lemma eq_reslist_eq a : forall b, eq_reslist a b = true -> a = b.
Proof.
  induction a as [|x a IH]; intros [|y b] H; cbn [eq_reslist] in H; try discriminate; [reflexivity|].
  apply andb_true_iff in H. destruct H as [H1 H2]. apply eq_opt_eq in H1. subst.
  f_equal. now apply IH.
Qed.

Lemma eq_reslist_refl a : eq_reslist a a = true.
Proof. induction a as [|x a IH]; cbn [eq_reslist]; [reflexivity|]. now rewrite eq_opt_refl, IH. Qed.

Lemma eq_quota_eq a b : eq_quota a b = true -> a = b.
Proof.
  destruct a, b. unfold eq_quota. cbn. intro H.
  repeat (apply andb_true_iff in H; destruct H as [H ?]).
  repeat match goal with
         | E : (_ =? _) = true |- _ => apply Z.eqb_eq in E
         | E : Bool.eqb _ _ = true |- _ => apply eqb_prop in E
         | E : eq_listZ _ _ = true |- _ => apply eq_listZ_eq in E
         | E : eq_reslist _ _ = true |- _ => apply eq_reslist_eq in E
         end.
  subst. reflexivity.
Qed.

Lemma eq_quota_refl a : eq_quota a a = true.
Proof.
  unfold eq_quota. rewrite !Z.eqb_refl, !eqb_reflx, !eq_listZ_refl, !eq_reslist_refl. reflexivity.
Qed.

Lemma eq_op_eq a b : eq_op a b = true -> a = b.
Proof.
  destruct a, b; cbn [eq_op]; intro H; try discriminate.
  - apply eq_quota_eq in H. now subst.
  - apply andb_true_iff in H. destruct H as [H1 H2].
    apply eq_quota_eq in H1. apply eq_quota_eq in H2. now subst.
  - apply eq_quota_eq in H. now subst.
Qed.

(* ------------------------------------------------------------------ resource lists up to representation *)
Definition req_ (a b : reslist) : Prop := forall k, rget k a = rget k b.

Lemma eq_res_req a b : eq_res a b = true <-> req_ a b.
Proof.
  unfold eq_res, req_. rewrite rall2_spec by reflexivity. split; intros H k; specialize (H k).
  - now apply eq_opt_eq.
  - rewrite H. apply eq_opt_refl.
Qed.

Lemma req_refl a : req_ a a.
Proof. intro k. reflexivity. Qed.

Lemma rall2_req f a b a' b' : f None None = true -> req_ a a' -> req_ b b' ->
  rall2 f a b = rall2 f a' b'.
Proof.
  intros Hd Ha Hb.
  destruct (rall2 f a b) eqn:E1; destruct (rall2 f a' b') eqn:E2; try reflexivity.
  - rewrite rall2_spec in E1 by exact Hd.
    assert (rall2 f a' b' = true); [|congruence].
    apply rall2_spec; [exact Hd|]. intro k. rewrite <- Ha, <- Hb. apply E1.
  - rewrite rall2_spec in E2 by exact Hd.
    assert (rall2 f a b = true); [|congruence].
    apply rall2_spec; [exact Hd|]. intro k. rewrite Ha, Hb. apply E2.
Qed.

Lemma val_req a b k : req_ a b -> val k a = val k b.
Proof. intro H. unfold val. now rewrite H. Qed.

(* ------------------------------------------------------------------ infos that agree up to representation *)
Definition info_eqv (i j : info) : Prop :=
  i_parent i = i_parent j /\ i_is_parent i = i_is_parent j /\ i_force i = i_force j
  /\ i_tree i = i_tree j /\ i_tree_root i = i_tree_root j
  /\ req_ (i_min i) (i_min j) /\ req_ (i_max i) (i_max j).

Lemma info_eqv_refl i : info_eqv i i.
Proof. repeat split. Qed.

Lemma info_eqv_sym i j : info_eqv i j -> info_eqv j i.
Proof.
  intros [H1 [H2 [H3 [H4 [H5 [H6 H7]]]]]]. repeat split; try congruence; intro k; symmetry; auto.
Qed.

Lemma info_eqv_trans i j l : info_eqv i j -> info_eqv j l -> info_eqv i l.
Proof.
  intros [H1 [H2 [H3 [H4 [H5 [H6 H7]]]]]] [G1 [G2 [G3 [G4 [G5 [G6 G7]]]]]].
  repeat split; try congruence; intro k; first [now rewrite H6|now rewrite H7].
Qed.

Definition opt_eqv (a b : option info) : Prop :=
  match a, b with
  | Some i, Some j => info_eqv i j
  | None, None => True
  | _, _ => False
  end.

(* m' looks like m *)
Definition infos_eqv (m' m : list (Z * info)) : Prop := forall k, opt_eqv (find k m') (find k m).

Lemma infos_eqv_some m' m k i' : infos_eqv m' m -> find k m' = Some i' ->
  exists i, find k m = Some i /\ info_eqv i' i.
Proof.
  intros H F. specialize (H k). rewrite F in H. unfold opt_eqv in H.
  destruct (find k m) as [i|]; [eauto|contradiction].
Qed.

Lemma infos_eqv_some_r m' m k i : infos_eqv m' m -> find k m = Some i ->
  exists i', find k m' = Some i' /\ info_eqv i' i.
Proof.
  intros H F. specialize (H k). rewrite F in H. unfold opt_eqv in H.
  destruct (find k m') as [i'|]; [eauto|contradiction].
Qed.

Lemma Reach_eqv m' m : infos_eqv m' m -> forall n, Reach m n -> Reach m' n.
Proof.
  intros H n. induction 1 as [|n i Hn Hf _ IH]; [constructor|].
  destruct (infos_eqv_some_r _ _ _ _ H Hf) as [i' [F' [EP _]]].
  apply Reach_step with i'; [exact Hn|exact F'|]. now rewrite EP.
Qed.

Lemma self_ok_eqv i' i : info_eqv i' i -> self_ok i -> self_ok i'.
Proof.
  intros [_ [_ [_ [_ [_ [Hm Hx]]]]]] [N1 [N2 N3]]. repeat split.
  - intros k v G. rewrite Hm in G. eapply N1; eauto.
  - intros k v G. rewrite Hx in G. eapply N2; eauto.
  - intros k v G. rewrite Hm in G. destruct (N3 k v G) as [mx [G' L]].
    exists mx. rewrite Hx. auto.
Qed.

Lemma unflagged_eqv i' i : info_eqv i' i -> unflagged i' = unflagged i.
Proof. intros [_ [_ [H3 [_ [H5 _]]]]]. unfold unflagged. now rewrite H3, H5. Qed.

Lemma min_of_eqv m' m k c : infos_eqv m' m -> min_of m' k c = min_of m k c.
Proof.
  intro H. unfold min_of. specialize (H c). unfold opt_eqv in H.
  destruct (find c m') as [i'|], (find c m) as [i|]; try contradiction; [|reflexivity].
  destruct H as [_ [_ [_ [_ [_ [Hm _]]]]]]. now apply val_req.
Qed.

Lemma max_keys_ok_req g p c p' c' : req_ p p' -> req_ c c' ->
  max_keys_ok g p c = max_keys_ok g p' c'.
Proof.
  intros Hp Hc. unfold max_keys_ok, keys_incl, keys_same.
  destruct g; apply rall2_req; auto.
Qed.

Lemma keys_incl_req p c p' c' : req_ p p' -> req_ c c' -> keys_incl p c = keys_incl p' c'.
Proof. intros Hp Hc. unfold keys_incl. apply rall2_req; auto. Qed.

(* a record whose quota map looks like that of a well-formed record, with the same children
   index and gate, is well formed *)
Lemma WF_infos_eqv s s' :
  WF s -> infos_eqv (infos s') (infos s) -> hier s' = hier s -> gate_keys s' = gate_keys s -> WF s'.
Proof.
  intros W E EH EG.
  assert (forall k c, child_of (infos s') k c <-> child_of (infos s) k c) as CO.
  { intros k c. split; intros [Nc [ic [F EP]]].
    - destruct (infos_eqv_some _ _ _ _ E F) as [i [F0 [P _]]]. split; [exact Nc|]. exists i.
      split; [exact F0|congruence].
    - destruct (infos_eqv_some_r _ _ _ _ E F) as [i [F0 [P _]]]. split; [exact Nc|]. exists i.
      split; [exact F0|congruence]. }
  constructor.
  - intros n i' F N NP. destruct (infos_eqv_some _ _ _ _ E F) as [i [F0 V]].
    pose proof V as [P _]. rewrite P in NP |- *.
    destruct (wf_parent s W n i F0 N NP) as [p [Fp IP]].
    destruct (infos_eqv_some_r _ _ _ _ E Fp) as [p' [Fp' [_ [IP' _]]]]. exists p'.
    split; [exact Fp'|congruence].
  - intros n i' F. destruct (infos_eqv_some _ _ _ _ E F) as [i [F0 V]].
    apply (Reach_eqv _ _ E). eapply wf_reach; eauto.
  - intros n i' F. destruct (infos_eqv_some _ _ _ _ E F) as [i [F0 V]].
    apply (self_ok_eqv _ _ V). eapply wf_self; eauto.
  - intros p pi' Fp Np Up L ND HL k.
    destruct (infos_eqv_some _ _ _ _ E Fp) as [pi [Fp0 V]].
    rewrite (sumf_ext _ (min_of (infos s) k)) by (intros; now apply min_of_eqv).
    pose proof V as [_ [_ [_ [_ [_ [Hm _]]]]]]. rewrite (val_req _ _ k Hm).
    apply (wf_minsum s W p pi Fp0 Np); [now rewrite <- (unflagged_eqv _ _ V)|exact ND|].
    intros c Hc. destruct (HL c Hc) as [Nc [ic' [F [EP U]]]].
    destruct (infos_eqv_some _ _ _ _ E F) as [ic [F0 Vc]].
    split; [exact Nc|]. exists ic. pose proof Vc as [P _].
    repeat split; [exact F0|congruence|now rewrite <- (unflagged_eqv _ _ Vc)].
  - intros n i' p' F N NP Fp. destruct (infos_eqv_some _ _ _ _ E F) as [i [F0 V]].
    pose proof V as [P [_ [_ [_ [_ [Hm Hx]]]]]]. rewrite P in NP, Fp.
    destruct (infos_eqv_some _ _ _ _ E Fp) as [p [Fp0 [_ [_ [_ [_ [_ [Pm Px]]]]]]]].
    rewrite EG. rewrite (max_keys_ok_req _ _ _ _ _ Px Hx), (keys_incl_req _ _ _ _ Pm Hm).
    eapply wf_keys; eauto.
  - intros n i' p' F N NP Fp. destruct (infos_eqv_some _ _ _ _ E F) as [i [F0 V]].
    pose proof V as [P [_ [_ [T _]]]]. rewrite P in NP, Fp.
    destruct (infos_eqv_some _ _ _ _ E Fp) as [p [Fp0 [_ [_ [_ [Tp _]]]]]].
    rewrite T, Tp. eapply wf_tree; eauto.
  - intros n i' F. destruct (infos_eqv_some _ _ _ _ E F) as [i [F0 V]].
    rewrite EH. eapply wf_index_key; eauto.
  - intros n i' F N NP. destruct (infos_eqv_some _ _ _ _ E F) as [i [F0 V]].
    pose proof V as [P _]. rewrite P in NP |- *. unfold children. rewrite EH.
    eapply (wf_index_in s W); eauto.
  - intros k c Hc Nc. apply CO. unfold children in Hc. rewrite EH in Hc.
    eapply (wf_index_only s W); eauto.
Qed.

(* ------------------------------------------------------------------ records that agree on every lookup *)
Definition text (a b : topo) : Prop :=
  gate_keys a = gate_keys b
  /\ (forall k, find k (infos a) = find k (infos b))
  /\ (forall k, mem k (hier a) = mem k (hier b))
  /\ (forall k c, In c (kids (hier a) k) <-> In c (kids (hier b) k))
  /\ (forall x, find x (nsmap a) = find x (nsmap b)).

Lemma text_refl a : text a a.
Proof. repeat split; auto. Qed.

Lemma text_trans a b c : text a b -> text b c -> text a c.
Proof.
  intros [A1 [A2 [A3 [A4 A5]]]] [B1 [B2 [B3 [B4 B5]]]].
  split; [congruence|]. split; [intro k; now rewrite A2|]. split; [intro k; now rewrite A3|].
  split; [|intro x; now rewrite A5].
  intros k x. rewrite A4. apply B4.
Qed.

Lemma Reach_ext m' m : (forall k, find k m' = find k m) -> forall n, Reach m n -> Reach m' n.
Proof.
  intros H n. induction 1 as [|n i Hn Hf _ IH]; [constructor|].
  apply Reach_step with i; auto. now rewrite H.
Qed.

Lemma WF_text a b : text a b -> WF b -> WF a.
Proof.
  intros [G [FI [MH [KH _]]]] W.
  assert (forall k c, child_of (infos a) k c <-> child_of (infos b) k c) as CO.
  { intros k c. unfold child_of. now rewrite FI. }
  assert (forall k c, uchild_of (infos a) k c <-> uchild_of (infos b) k c) as UO.
  { intros k c. unfold uchild_of. now rewrite FI. }
  constructor.
  - intros n i F N NP. rewrite FI in F. rewrite FI. eapply wf_parent; eauto.
  - intros n i F. rewrite FI in F. apply (Reach_ext _ _ FI). eapply wf_reach; eauto.
  - intros n i F. rewrite FI in F. eapply wf_self; eauto.
  - intros p pi Fp Np Up L ND HL k. rewrite FI in Fp.
    rewrite (sumf_ext _ (min_of (infos b) k)) by (intros; unfold min_of; now rewrite FI).
    apply (wf_minsum b W p pi Fp Np Up L ND). intros c Hc. now apply UO, HL.
  - intros n i p F N NP Fp. rewrite FI in F, Fp. rewrite G. eapply wf_keys; eauto.
  - intros n i p F N NP Fp. rewrite FI in F, Fp. eapply wf_tree; eauto.
  - intros n i F. rewrite FI in F. rewrite MH. eapply wf_index_key; eauto.
  - intros n i F N NP. rewrite FI in F. unfold children. fold (kids (hier a) (i_parent i)).
    apply KH. eapply (wf_index_in b W); eauto.
  - intros k c Hc Nc. apply CO. unfold children in Hc. fold (kids (hier a) k) in Hc.
    apply KH in Hc. eapply (wf_index_only b W); eauto.
Qed.

Lemma NsOK_nsmap st a b : (forall x, find x (nsmap a) = find x (nsmap b)) -> NsOK st b -> NsOK st a.
Proof.
  intros H [N1 N2]. split.
  - intros name q x F Hx. rewrite H. eauto.
  - intros x owner F. rewrite H in F. eauto.
Qed.

(* ------------------------------------------------------------------ the record shows the admitted objects *)
Definition StoreOK (st : store) (s : topo) : Prop :=
  forall name, match find name st, find name (infos s) with
               | Some q, Some i => info_eqv i (info_of q)
               | None, None => True
               | _, _ => False
               end.

Lemma StoreOK_infos st a b : (forall k, find k (infos a) = find k (infos b)) -> StoreOK st b -> StoreOK st a.
Proof. intros H S name. rewrite H. apply S. Qed.

Lemma StoreOK_init g : StoreOK [] (init_topo g).
Proof. intro name. exact I. Qed.

Lemma StoreOK_some st s name q : StoreOK st s -> find name st = Some q ->
  exists i, find name (infos s) = Some i /\ info_eqv i (info_of q).
Proof.
  intros S F. specialize (S name). rewrite F in S.
  destruct (find name (infos s)) as [i|]; [eauto|contradiction].
Qed.

Lemma StoreOK_none st s name : StoreOK st s -> find name st = None -> find name (infos s) = None.
Proof.
  intros S F. specialize (S name). rewrite F in S.
  destruct (find name (infos s)); [contradiction|reflexivity].
Qed.

Lemma StoreOK_info st s name i : StoreOK st s -> find name (infos s) = Some i ->
  exists q, find name st = Some q /\ info_eqv i (info_of q).
Proof.
  intros S F. specialize (S name). rewrite F in S.
  destruct (find name st) as [q|]; [eauto|contradiction].
Qed.

Lemma shows_eqv i q : info_eqv i (info_of q) -> shows i q = true.
Proof.
  intros [H1 [H2 [_ [H4 [_ [H6 H7]]]]]]. unfold shows. cbn [info_of i_parent i_is_parent i_tree i_min i_max] in *.
  rewrite H1, H2, H4, Z.eqb_refl, eqb_reflx, Z.eqb_refl.
  rewrite (proj2 (eq_res_req _ _) H6), (proj2 (eq_res_req _ _) H7). reflexivity.
Qed.

Lemma infos_okb_complete st s : ksorted st -> ksorted (infos s) -> StoreOK st s -> infos_okb st s = true.
Proof.
  intros S1 S2 S. unfold infos_okb. apply andb_true_iff. split; apply forallb_forall.
  - intros [name q] Hin. cbn [fst snd].
    destruct (StoreOK_some _ _ _ _ S (ksorted_find _ _ _ S1 Hin)) as [i [-> V]].
    now apply shows_eqv.
  - intros [name i] Hin. cbn [fst].
    destruct (StoreOK_info _ _ _ _ S (ksorted_find _ _ _ S2 Hin)) as [q [F _]].
    unfold mem. now rewrite F.
Qed.

(* ------------------------------------------------------------------ the handlers keep the key order *)
Lemma sorted_on_add s q : sorted_topo s -> sorted_topo (on_add s q).
Proof.
  intros [S1 [S2 S3]]. unfold on_add. repeat split; cbn [infos hier nsmap].
  - now apply ksorted_mset.
  - apply ksorted_add_child. destruct (mem (q_name q) (hier s)); [exact S2|now apply ksorted_mset].
  - now apply ksorted_ns_bind.
Qed.

Lemma sorted_on_update s o n : sorted_topo s -> sorted_topo (fst (on_update s o n)).
Proof.
  intros [S1 [S2 S3]]. unfold on_update.
  assert (ksorted (if eq_listZ (ann_ns o) (ann_ns n) then nsmap s
                   else ns_bind (q_name n) (ann_ns n) (ns_unbind (ann_ns o) (nsmap s)))) as S3'.
  { destruct (eq_listZ _ _); [exact S3|]. now apply ksorted_ns_bind, ksorted_ns_unbind. }
  destruct (parent_name o =? parent_name n); cbn [fst].
  - repeat split; cbn [infos hier nsmap]; auto. now apply ksorted_mset.
  - destruct (find (parent_name n) _); cbn [fst]; repeat split; cbn [infos hier nsmap]; auto;
      try (now apply ksorted_mset); try (now apply ksorted_del_child).
    now apply ksorted_mset, ksorted_del_child.
Qed.

Lemma sorted_on_delete s q : sorted_topo s -> sorted_topo (on_delete s q).
Proof.
  intros [S1 [S2 S3]]. unfold on_delete. repeat split; cbn [infos hier nsmap].
  - now apply ksorted_mremove.
  - now apply ksorted_mremove, ksorted_del_child.
  - now apply ksorted_ns_unbind.
Qed.

Lemma sorted_inf s w : sorted_topo s -> sorted_topo (fst (inf_apply s w)).
Proof.
  intro S. destruct w as [q|o n|q]; cbn [inf_apply fst].
  - now apply sorted_on_add.
  - now apply sorted_on_update.
  - now apply sorted_on_delete.
Qed.

(* clause 22, read back: every admitted object is recorded with its parent, is-parent flag,
   tree id, min and max, and nothing else is recorded *)
Lemma infos_okb_sound st s : infos_okb st s = true ->
  (forall name q, find name st = Some q ->
     exists i, find name (infos s) = Some i /\ shows i q = true)
  /\ (forall name i, find name (infos s) = Some i -> mem name st = true).
Proof.
  unfold infos_okb. intro H. apply andb_true_iff in H. destruct H as [H1 H2].
  rewrite forallb_forall in H1, H2. split.
  - intros name q F. specialize (H1 _ (find_In _ _ _ F)). cbn [fst snd] in H1.
    destruct (find name (infos s)) as [i|]; [eauto|discriminate].
  - intros name i F. exact (H2 _ (find_In _ _ _ F)).
Qed.
