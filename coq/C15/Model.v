(* C15 — model of the elastic-quota admission webhook's topology record
   (pkg/webhook/elasticquota/quota_topology.go, quota_topology_check.go, pod_check.go,
   apis/extension/elastic_quota.go). The feature gate ElasticQuotaEnableUpdateResourceKey is a
   constant component of the state ([gate_keys]), and so is ElasticQuotaGuaranteeUsage ([gate_guar]).
   Executable, total, no proofs in this file.

   Names are integers (the harness maps them to strings injectively):
     0 = koordinator-root-quota, 1 = koordinator-system-quota, 2 = koordinator-default-quota,
     n >= 3 = "q<n>", -1 = the empty string (only the root object can have it as parent name).
   Namespaces are integers too (a namespace named like a quota has the quota's number).
   A ResourceList is a positional list: slot k holds [Some v] when dimension k is declared. *)
From Coq Require Import List ZArith Bool.
Import ListNotations.
Open Scope Z_scope.

Definition ROOT : Z := 0.
Definition SYSTEM : Z := 1.
Definition DEFAULTQ : Z := 2.
Definition NONAME : Z := -1.

(* ---------- association lists keyed by Z, kept in ascending key order ---------- *)
Fixpoint find {A} (k : Z) (l : list (Z * A)) : option A :=
  match l with
  | [] => None
  | (k', v) :: t => if k =? k' then Some v else find k t
  end.

Fixpoint mset {A} (k : Z) (v : A) (l : list (Z * A)) : list (Z * A) :=
  match l with
  | [] => [(k, v)]
  | (k', v') :: t =>
      if k <? k' then (k, v) :: l
      else if k =? k' then (k, v) :: t
      else (k', v') :: mset k v t
  end.

Definition mremove {A} (k : Z) (l : list (Z * A)) : list (Z * A) :=
  filter (fun e => negb (fst e =? k)) l.

Definition mem {A} (k : Z) (l : list (Z * A)) : bool :=
  match find k l with Some _ => true | None => false end.

(* sets of names: ascending lists without repetition *)
Fixpoint sadd (x : Z) (l : list Z) : list Z :=
  match l with
  | [] => [x]
  | y :: t => if x <? y then x :: l else if x =? y then l else y :: sadd x t
  end.
Definition sremove (x : Z) (l : list Z) : list Z := filter (fun y => negb (y =? x)) l.
Definition memZ (x : Z) (l : list Z) : bool := existsb (Z.eqb x) l.

(* ---------- ResourceList ---------- *)
Notation reslist := (list (option Z)).

Definition rget (k : nat) (r : reslist) : option Z := nth k r None.

Fixpoint rset (k : nat) (v : Z) (r : reslist) : reslist :=
  match k, r with
  | O, [] => [Some v]
  | O, _ :: t => Some v :: t
  | S k', [] => None :: rset k' v []
  | S k', x :: t => x :: rset k' v t
  end.

(* pointwise combination, the shorter list padded with "absent" *)
Fixpoint rzip {B} (f : option Z -> option Z -> B) (a b : reslist) : list B :=
  match a with
  | [] => map (f None) b
  | x :: a' => match b with
               | [] => f x None :: rzip f a' []
               | y :: b' => f x y :: rzip f a' b'
               end
  end.

Definition rall2 (f : option Z -> option Z -> bool) (a b : reslist) : bool :=
  forallb (fun x => x) (rzip f a b).

(* quotav1.Add: union of the keys, values added *)
Definition oadd (x y : option Z) : option Z :=
  match x, y with
  | None, None => None
  | Some a, None => Some a
  | None, Some b => Some b
  | Some a, Some b => Some (a + b)
  end.
Definition radd (a b : reslist) : reslist := rzip oadd a b.

(* quotav1.Max: union of the keys, the larger value *)
Definition omax (x y : option Z) : option Z :=
  match x, y with
  | None, None => None
  | Some a, None => Some a
  | None, Some b => Some b
  | Some a, Some b => Some (Z.max a b)
  end.
Definition rmax (a b : reslist) : reslist := rzip omax a b.

(* quotav1.IsNegative: some declared value below zero *)
Definition is_neg (o : option Z) : bool := match o with Some v => v <? 0 | None => false end.
Definition rnegative (r : reslist) : bool := existsb is_neg r.

(* util.LessThanOrEqualCompletely a b: no positive entry in quotav1.Subtract a b
   (keys of a: a-b with b absent read as 0; keys only in b: -b) *)
Definition lec1 (x y : option Z) : bool :=
  match x, y with
  | Some a, Some b => a - b <=? 0
  | Some a, None => a <=? 0
  | None, Some b => - b <=? 0
  | None, None => true
  end.
Definition rlec (a b : reslist) : bool := rall2 lec1 a b.

(* validateQuotaSelfItem: every key of min is a key of max, and max >= min there *)
Definition minmax1 (mn mx : option Z) : bool :=
  match mn, mx with
  | Some a, Some b => a <=? b
  | Some _, None => false
  | None, _ => true
  end.
Definition min_within_max (mn mx : reslist) : bool := rall2 minmax1 mn mx.

Definition has (o : option Z) : bool := match o with Some _ => true | None => false end.
(* checkQuotaKeySame / checkQuotaKeyIncluded parent child *)
Definition keys_same (p c : reslist) : bool := rall2 (fun x y => Bool.eqb (has x) (has y)) p c.
Definition keys_incl (p c : reslist) : bool := rall2 (fun x y => has x || negb (has y)) p c.

(* ---------- request payload: the fields of an ElasticQuota object the webhook reads ---------- *)
Record quota := mkQuota {
  q_name : Z;
  q_plabel : Z;          (* parent label; -1 = absent or "" *)
  q_is_parent : bool;    (* is-parent label == "true" *)
  q_tree : Z;            (* tree-id label; 0 = "" *)
  q_tree_root : bool;    (* is-root label == "true" *)
  q_force : bool;        (* allow-force-update label == "true" *)
  q_sw : Z;              (* shared-weight annotation: 0 absent, 1 valid non-negative, 2 has a negative value, 3 not JSON *)
  q_ns_bad : bool;       (* namespaces annotation present but not a JSON string list *)
  q_ns : list Z;         (* namespaces annotation *)
  q_strict_bad : bool;   (* max-strict-check-resource-keys annotation present but not JSON *)
  q_strict : list Z;     (* its keys *)
  q_used : reslist;      (* status.used *)
  q_min : reslist;
  q_max : reslist;
  q_guar : reslist }.    (* guaranteed annotation (written by the scheduler) *)

(* extension.GetAnnotationQuotaNamespaces: unparsable -> none *)
Definition ann_ns (q : quota) : list Z := if q_ns_bad q then [] else q_ns q.

(* extension.GetParentQuotaName *)
Definition parent_name (q : quota) : Z :=
  if q_plabel q =? NONAME then (if q_name q =? ROOT then NONAME else ROOT) else q_plabel q.

(* QuotaInfo (the fields the checks and the summary use) *)
Record info := mkInfo {
  i_parent : Z; i_is_parent : bool; i_force : bool; i_tree : Z; i_tree_root : bool;
  i_min : reslist; i_max : reslist; i_guar : reslist }.

Definition info_of (q : quota) : info :=
  mkInfo (parent_name q) (q_is_parent q) (q_force q) (q_tree q) (q_tree_root q) (q_min q) (q_max q)
         (q_guar q).

(* quotaTopology *)
Record topo := mkTopo {
  gate_keys : bool;               (* feature gate ElasticQuotaEnableUpdateResourceKey (never changes) *)
  gate_guar : bool;               (* feature gate ElasticQuotaGuaranteeUsage (never changes) *)
  infos : list (Z * info);        (* quotaInfoMap *)
  hier : list (Z * list Z);       (* quotaHierarchyInfo *)
  nsmap : list (Z * Z) }.         (* namespaceToQuotaMap *)

Definition init_topo (g : bool * bool) : topo := mkTopo (fst g) (snd g) [] [(ROOT, [])] [].

(* a pod of the environment: quota-name label (-1 = none) and namespace *)
Notation pod := (Z * Z)%type.

Definition children (s : topo) (n : Z) : list Z :=
  match find n (hier s) with Some l => l | None => [] end.
Definition nonempty {A} (l : list A) : bool := match l with [] => false | _ => true end.

(* ---------- validateQuotaSelfItem ---------- *)
Definition strict_ok1 (used mx : reslist) (k : Z) : bool :=
  match rget (Z.to_nat k) used with
  | None => true
  | Some u => match rget (Z.to_nat k) mx with None => false | Some m => u <=? m end
  end.

Definition self_item_ok (q : quota) : bool :=
  negb (rnegative (q_max q)) && negb (rnegative (q_min q))
  && ((q_sw q =? 0) || (q_sw q =? 1))
  && min_within_max (q_min q) (q_max q)
  && negb (q_strict_bad q)
  && forallb (strict_ok1 (q_used q) (q_max q)) (q_strict q).

(* ---------- hasQuotaBoundedPods ---------- *)
Definition has_pods (pods : list pod) (name : Z) (old_ns : list Z) : bool :=
  existsb (fun p => fst p =? name) pods
  || existsb (fun p => snd p =? name) pods
  || existsb (fun n => existsb (fun p => snd p =? n) pods) old_ns.

(* ---------- checkIsParentChange ---------- *)
Definition is_parent_change_ok (s : topo) (pods : list pod) (old : option info) (name : Z)
           (new : info) (old_ns : list Z) : bool :=
  match old with
  | None => true
  | Some o =>
      if Bool.eqb (i_is_parent o) (i_is_parent new) then true
      else if nonempty (children s name) && negb (i_is_parent new) then false
      else if i_is_parent new then negb (has_pods pods name old_ns)
      else true
  end.

(* ---------- checkTreeID ---------- *)
Definition tree_ok (s : topo) (old : option info) (name : Z) (new : info) : bool :=
  match old with Some o => i_tree o =? i_tree new | None => true end
  && (if i_parent new =? ROOT then true
      else match find (i_parent new) (infos s) with
           | Some p => i_tree new =? i_tree p
           | None => true
           end)
  && forallb (fun c => match find c (infos s) with
                       | Some ci => i_tree ci =? i_tree new
                       | None => true
                       end) (children s name).

(* ---------- checkParentQuotaInfo (with the ancestor walk of commit 5dea414) ---------- *)
Fixpoint anc_ok (m : list (Z * info)) (fuel : nat) (name anc : Z) : bool :=
  if anc =? ROOT then true
  else match fuel with
       | O => true
       | S f =>
           if anc =? name then false
           else match find anc m with
                | None => true
                | Some a => anc_ok m f name (i_parent a)
                end
       end.

Definition parent_ok (s : topo) (name parent : Z) : bool :=
  if parent =? ROOT then true
  else match find parent (infos s) with
       | None => false
       | Some p =>
           mem parent (hier s) && i_is_parent p
           && anc_ok (infos s) (S (length (infos s))) name parent
       end.

(* ---------- checkSubAndParentGroupQuotaKey ---------- *)
(* gate off: the max keys of parent and child are the same; gate on: the child's are included *)
Definition max_keys_ok (g : bool) (p c : reslist) : bool :=
  if g then keys_incl p c else keys_same p c.

Definition keys_ok (s : topo) (name : Z) (new : info) : bool :=
  (if i_parent new =? ROOT then true
   else match find (i_parent new) (infos s) with
        | None => false
        | Some p => max_keys_ok (gate_keys s) (i_max p) (i_max new) && keys_incl (i_min p) (i_min new)
        end)
  && forallb (fun c => match find c (infos s) with
                       | Some ci => max_keys_ok (gate_keys s) (i_max new) (i_max ci) && keys_incl (i_min new) (i_min ci)
                       | None => false
                       end) (children s name).

(* ---------- getChildMinQuotaSumExceptSpecificChild ---------- *)
Fixpoint min_sum (m : list (Z * info)) (cs : list Z) (acc : reslist) : option reslist :=
  match cs with
  | [] => Some acc
  | c :: t => match find c m with
              | None => None
              | Some ci => min_sum m t (radd acc (i_min ci))
              end
  end.

Definition child_min_sum (s : topo) (parent : Z) (skip : option Z) : option reslist :=
  if parent =? ROOT then Some []
  else match find parent (hier s) with
       | None => None
       | Some cs =>
           min_sum (infos s)
                   (match skip with Some x => sremove x cs | None => cs end) []
       end.

(* ---------- checkMinQuotaValidate ---------- *)
Definition min_ok (s : topo) (name : Z) (new : info) : bool :=
  if i_force new then true
  else if i_tree_root new then true
  else
    (if i_parent new =? ROOT then true
     else match child_min_sum s (i_parent new) (Some name), find (i_parent new) (infos s) with
          | Some sum, Some p => rlec (radd sum (i_min new)) (i_min p)
          | _, _ => false
          end)
    && (if nonempty (children s name)
        then match child_min_sum s name None with
             | Some sum => rlec sum (i_min new)
             | None => false
             end
        else true).

(* ---------- checkGuaranteedForMin / checkParentGuaranteed (gate ElasticQuotaGuaranteeUsage) ---------- *)
Fixpoint guar_sum (m : list (Z * info)) (cs : list Z) (acc : reslist) : option reslist :=
  match cs with
  | [] => Some acc
  | c :: t => match find c m with
              | None => None
              | Some ci => guar_sum m t (radd acc (i_guar ci))
              end
  end.

(* the code recurses up the parent links without a bound; the fuel (more than the number of
   quotas) is never exhausted on a record whose parent links reach the root *)
Fixpoint parent_guar_ok (s : topo) (fuel : nat) (newg : reslist) (self parent : Z) : bool :=
  match fuel with
  | O => false
  | S f =>
      if parent =? ROOT then false
      else match find parent (infos s), find parent (hier s) with
           | Some p, Some cs =>
               match guar_sum (infos s) (sremove self cs) newg with
               | None => false
               | Some all =>
                   let npg := rmax (i_min p) all in
                   if rlec npg (i_guar p) then true
                   else parent_guar_ok s f npg parent (i_parent p)
               end
           | _, _ => false
           end
  end.

Definition guar_ok (s : topo) (name : Z) (new : info) : bool :=
  if i_force new then true
  else if i_tree new =? 0 then true
  else if i_tree_root new then true
  else if rlec (i_min new) (i_guar new) then true
  else parent_guar_ok s (S (length (infos s))) (rmax (i_min new) (i_guar new)) name (i_parent new).

(* ---------- validateQuotaTopology ---------- *)
Definition topology_ok (s : topo) (pods : list pod) (old : option info) (name : Z) (new : info)
           (old_ns : list Z) : bool :=
  if name =? ROOT then true
  else
    is_parent_change_ok s pods old name new old_ns
    && tree_ok s old name new
    && (if (i_parent new =? ROOT) && negb (i_is_parent new) then true
        else parent_ok s name (i_parent new) && keys_ok s name new && min_ok s name new
             && (negb (gate_guar s) || guar_ok s name new)).

(* ---------- state updates ---------- *)
Definition hier_add_child (p c : Z) (h : list (Z * list Z)) : list (Z * list Z) :=
  mset p (sadd c (match find p h with Some l => l | None => [] end)) h.
Definition hier_del_child (p c : Z) (h : list (Z * list Z)) : list (Z * list Z) :=
  match find p h with Some l => mset p (sremove c l) h | None => h end.

Definition ns_bind (name : Z) (nss : list Z) (m : list (Z * Z)) : list (Z * Z) :=
  fold_left (fun acc n => mset n name acc) nss m.
Definition ns_unbind (nss : list Z) (m : list (Z * Z)) : list (Z * Z) :=
  fold_left (fun acc n => mremove n acc) nss m.

(* ---------- ValidAddQuota: 0 = accepted, otherwise the number of the failing check ---------- *)
Definition add_code (s : topo) (pods : list pod) (q : quota) : Z :=
  if mem (q_name q) (infos s) then 1
  else if existsb (fun n => mem n (nsmap s)) (ann_ns q) then 2
  else if negb (self_item_ok q) then 3
  else if negb (topology_ok s pods None (q_name q) (info_of q) []) then 4
  else 0.

Definition add_apply (s : topo) (q : quota) : topo :=
  let i := info_of q in
  mkTopo (gate_keys s) (gate_guar s) (mset (q_name q) i (infos s))
         (hier_add_child (i_parent i) (q_name q) (mset (q_name q) [] (hier s)))
         (ns_bind (q_name q) (ann_ns q) (nsmap s)).

(* ---------- ValidUpdateQuota ---------- *)
Fixpoint eq_listZ (a b : list Z) : bool :=
  match a, b with
  | [], [] => true
  | x :: a', y :: b' => (x =? y) && eq_listZ a' b'
  | _, _ => false
  end.
Definition eq_opt (x y : option Z) : bool :=
  match x, y with
  | Some a, Some b => a =? b
  | None, None => true
  | _, _ => false
  end.
Definition eq_res (a b : reslist) : bool := rall2 eq_opt a b.

(* reflect.DeepEqual(quotaFieldsCopy(old), quotaFieldsCopy(new)): raw parent / is-parent /
   tree-id labels, raw namespaces annotation, spec.min, spec.max, and (since the repair of
   findings/C15-unchecked-flag-drop.md) the allow-force-update and is-root labels *)
Definition fields_eq (o n : quota) : bool :=
  (q_plabel o =? q_plabel n) && Bool.eqb (q_is_parent o) (q_is_parent n)
  && (q_tree o =? q_tree n)
  && (if q_ns_bad o then q_ns_bad n else negb (q_ns_bad n) && eq_listZ (q_ns o) (q_ns n))
  && eq_res (q_min o) (q_min n) && eq_res (q_max o) (q_max n)
  && Bool.eqb (q_force o) (q_force n) && Bool.eqb (q_tree_root o) (q_tree_root n).

(* 0 = accepted and applied, -1 = accepted without any change (nothing relevant differs),
   otherwise the number of the failing check *)
Definition update_code (s : topo) (pods : list pod) (o n : quota) : Z :=
  if fields_eq o n then -1
  else if (q_name n =? SYSTEM) || (q_name n =? ROOT) then 1
  else if existsb (fun x => match find x (nsmap s) with
                            | Some owner => negb (owner =? q_name n)
                            | None => false
                            end) (ann_ns n) then 2
  else match find (q_name n) (infos s) with
       | None => 3
       | Some oi =>
           if negb (self_item_ok n) then 4
           else if negb (topology_ok s pods (Some oi) (q_name n) (info_of n) (ann_ns o)) then 5
           else 0
       end.

Definition update_apply (s : topo) (o n : quota) : topo :=
  match find (q_name n) (infos s) with
  | None => s
  | Some oi =>
      let i := info_of n in
      mkTopo (gate_keys s) (gate_guar s) (mset (q_name n) i (infos s))
             (if i_parent oi =? i_parent i then hier s
              else hier_add_child (i_parent i) (q_name n) (hier_del_child (i_parent oi) (q_name n) (hier s)))
             (ns_bind (q_name n) (ann_ns n) (ns_unbind (ann_ns o) (nsmap s)))
  end.

(* ---------- ValidDeleteQuota ---------- *)
Definition delete_code (s : topo) (pods : list pod) (q : quota) : Z :=
  if (q_name q =? SYSTEM) || (q_name q =? ROOT) || (q_name q =? DEFAULTQ) then 1
  else match find (q_name q) (infos s) with
       | None => 2
       | Some _ =>
           match find (q_name q) (hier s) with
           | None => 3
           | Some cs =>
               if nonempty cs then 4
               else if existsb (fun p => fst p =? q_name q) pods then 5
               (* commit 4aec535: pods bound through the quota's namespaces count as well *)
               else if has_pods pods (q_name q) (ann_ns q) then 6
               else 0
           end
       end.

Definition delete_apply (s : topo) (q : quota) : topo :=
  match find (q_name q) (infos s) with
  | None => s
  | Some i =>
      mkTopo (gate_keys s) (gate_guar s) (mremove (q_name q) (infos s))
             (mremove (q_name q) (hier_del_child (i_parent i) (q_name q) (hier s)))
             (ns_unbind (ann_ns q) (nsmap s))
  end.

(* ---------- requests and histories ---------- *)
Inductive op :=
| Add (q : quota)
| Update (o n : quota)
| Delete (q : quota).

(* a request: the environment's pods at that moment, and the operation *)
Notation req := (list pod * op)%type.

Definition code (s : topo) (r : req) : Z :=
  match snd r with
  | Add q => add_code s (fst r) q
  | Update o n => update_code s (fst r) o n
  | Delete q => delete_code s (fst r) q
  end.

Definition accepted (s : topo) (r : req) : bool := code s r <=? 0.

(* the recorded topology after the request: changed only when code = 0 *)
Definition step (s : topo) (r : req) : topo :=
  if code s r =? 0
  then match snd r with
       | Add q => add_apply s q
       | Update o n => update_apply s o n
       | Delete q => delete_apply s q
       end
  else s.

Definition run (g : bool * bool) (rs : list req) : topo := fold_left step rs (init_topo g).

(* the list of (accepted?, topology after) for every request, in order *)
Fixpoint trace (s : topo) (rs : list req) : list (bool * topo) :=
  match rs with
  | [] => []
  | r :: t => (accepted s r, step s r) :: trace (step s r) t
  end.
