(* C15 — the property: what a well-formed recorded quota tree is ([WF], a Prop stated through
   [find] only), its executable decision procedure ([wf_code]; 0 = holds, otherwise the number
   of the first failing clause), and the decision procedure for a whole observed history
   ([prop_code]: every state well formed, rejected requests change nothing, accepted deletions
   had neither children nor pods, namespaces bound exactly as the admitted objects declare).
   The lemmas connecting the two are in Proofs_spec.v. *)
From Coq Require Import List ZArith Bool.
From Verif Require Import Lib.Wire C15.Model.
Import ListNotations.
Open Scope Z_scope.

Definition val (k : nat) (r : reslist) : Z := match rget k r with Some v => v | None => 0 end.
Definition unflagged (i : info) : bool := negb (i_force i) && negb (i_tree_root i).

(* ------------------------------------------------------------------ the Prop *)

(* following parent links from n reaches the root *)
Inductive Reach (m : list (Z * info)) : Z -> Prop :=
| Reach_root : Reach m ROOT
| Reach_step : forall n i, n <> ROOT -> find n m = Some i -> Reach m (i_parent i) -> Reach m n.

Definition nonneg (r : reslist) : Prop := forall k v, rget k r = Some v -> 0 <= v.

(* min/max of one quota: nothing negative, min declared only where max is, and min <= max *)
Definition self_ok (i : info) : Prop :=
  nonneg (i_min i) /\ nonneg (i_max i) /\
  forall k v, rget k (i_min i) = Some v -> exists m, rget k (i_max i) = Some m /\ v <= m.

(* c is an (unflagged) child of p in the map m *)
Definition child_of (m : list (Z * info)) (p c : Z) : Prop :=
  c <> ROOT /\ exists i, find c m = Some i /\ i_parent i = p.
Definition uchild_of (m : list (Z * info)) (p c : Z) : Prop :=
  c <> ROOT /\ exists i, find c m = Some i /\ i_parent i = p /\ unflagged i = true.

Definition min_of (m : list (Z * info)) (k : nat) (c : Z) : Z :=
  match find c m with Some i => val k (i_min i) | None => 0 end.

Fixpoint sumf (f : Z -> Z) (l : list Z) : Z :=
  match l with [] => 0 | x :: t => f x + sumf f t end.

Record WF (s : topo) : Prop := mkWF {
  (* 11: the parent of every quota exists and is marked as a parent *)
  wf_parent : forall n i, find n (infos s) = Some i -> n <> ROOT -> i_parent i <> ROOT ->
      exists p, find (i_parent i) (infos s) = Some p /\ i_is_parent p = true;
  (* 12: parent links lead to the root (no cycles) *)
  wf_reach : forall n i, find n (infos s) = Some i -> Reach (infos s) n;
  (* 13: min/max of every recorded quota *)
  wf_self : forall n i, find n (infos s) = Some i -> self_ok i;
  (* 14: the mins of any set of children sum to at most the parent's min, in every dimension
         (children and parent not exempted by allow-force-update / is-root) *)
  wf_minsum : forall p pi, find p (infos s) = Some pi -> p <> ROOT -> unflagged pi = true ->
      forall L, NoDup L -> (forall c, In c L -> uchild_of (infos s) p c) ->
      forall k, sumf (min_of (infos s) k) L <= val k (i_min pi);
  (* 15: resource dimensions agree along every edge: same max keys (included ones when the gate
         ElasticQuotaEnableUpdateResourceKey is on), child's min keys within the parent's *)
  wf_keys : forall n i p, find n (infos s) = Some i -> n <> ROOT -> i_parent i <> ROOT ->
      find (i_parent i) (infos s) = Some p ->
      max_keys_ok (gate_keys s) (i_max p) (i_max i) = true /\ keys_incl (i_min p) (i_min i) = true;
  (* 16: a quota is in its parent's tree *)
  wf_tree : forall n i p, find n (infos s) = Some i -> n <> ROOT -> i_parent i <> ROOT ->
      find (i_parent i) (infos s) = Some p -> i_tree i = i_tree p;
  (* 17: the children index: every quota has an entry, is listed under its parent, and
         nothing else is listed *)
  wf_index_key : forall n i, find n (infos s) = Some i -> mem n (hier s) = true;
  wf_index_in : forall n i, find n (infos s) = Some i -> n <> ROOT -> i_parent i <> ROOT ->
      In n (children s (i_parent i));
  wf_index_only : forall k c, In c (children s k) -> c <> ROOT -> child_of (infos s) k c
}.

(* ------------------------------------------------------------------ the decision procedure *)

Fixpoint reach_b (m : list (Z * info)) (fuel : nat) (n : Z) : bool :=
  if n =? ROOT then true
  else match fuel with
       | O => false
       | S f => match find n m with
                | None => false
                | Some i => reach_b m f (i_parent i)
                end
       end.

Definition is_nonneg (o : option Z) : bool := match o with Some v => 0 <=? v | None => true end.
Definition self_okb (i : info) : bool :=
  forallb is_nonneg (i_min i) && forallb is_nonneg (i_max i) && min_within_max (i_min i) (i_max i).

Definition is_uchild (p : Z) (e : Z * info) : bool :=
  negb (fst e =? ROOT) && (i_parent (snd e) =? p) && unflagged (snd e).

Definition uchild_min_sum (m : list (Z * info)) (p : Z) : reslist :=
  fold_left (fun acc e => radd acc (i_min (snd e))) (filter (is_uchild p) m) [].

Definition all_entries {A} (f : Z * A -> bool) (l : list (Z * A)) : bool := forallb f l.

Definition c11 (s : topo) (e : Z * info) : bool :=
  (fst e =? ROOT) || (i_parent (snd e) =? ROOT)
  || match find (i_parent (snd e)) (infos s) with Some p => i_is_parent p | None => false end.
Definition c12 (s : topo) (e : Z * info) : bool := reach_b (infos s) (length (infos s)) (fst e).
Definition c13 (e : Z * info) : bool := self_okb (snd e).
Definition c14 (s : topo) (e : Z * info) : bool :=
  (fst e =? ROOT) || negb (unflagged (snd e))
  || rlec (uchild_min_sum (infos s) (fst e)) (i_min (snd e)).
Definition c15 (s : topo) (e : Z * info) : bool :=
  (fst e =? ROOT) || (i_parent (snd e) =? ROOT)
  || match find (i_parent (snd e)) (infos s) with
     | Some p => max_keys_ok (gate_keys s) (i_max p) (i_max (snd e)) && keys_incl (i_min p) (i_min (snd e))
     | None => true
     end.
Definition c16 (s : topo) (e : Z * info) : bool :=
  (fst e =? ROOT) || (i_parent (snd e) =? ROOT)
  || match find (i_parent (snd e)) (infos s) with
     | Some p => i_tree (snd e) =? i_tree p
     | None => true
     end.
Definition c17a (s : topo) (e : Z * info) : bool :=
  mem (fst e) (hier s)
  && ((fst e =? ROOT) || (i_parent (snd e) =? ROOT) || memZ (fst e) (children s (i_parent (snd e)))).
Definition c17b (s : topo) (h : Z * list Z) : bool :=
  forallb (fun c => (c =? ROOT)
                    || match find c (infos s) with
                       | Some i => i_parent i =? fst h
                       | None => false
                       end) (children s (fst h)).

Definition wf_code (s : topo) : Z :=
  if negb (all_entries (c11 s) (infos s)) then 11
  else if negb (all_entries (c12 s) (infos s)) then 12
  else if negb (all_entries c13 (infos s)) then 13
  else if negb (all_entries (c14 s) (infos s)) then 14
  else if negb (all_entries (c15 s) (infos s)) then 15
  else if negb (all_entries (c16 s) (infos s)) then 16
  else if negb (all_entries (c17a s) (infos s)) then 17
  else if negb (all_entries (c17b s) (hier s)) then 17
  else 0.

(* ------------------------------------------------------------------ namespaces: the admitted objects *)

(* the objects the API server holds: the last admitted version of every quota *)
Notation store := (list (Z * quota)).

Definition store_step (st : store) (acc : bool) (r : req) : store :=
  if acc
  then match snd r with
       | Add q => mset (q_name q) q st
       | Update o n => mset (q_name n) n st
       | Delete q => mremove (q_name q) st
       end
  else st.

(* an accepted update / delete is consistent when the old object it carries declares the
   namespaces of the stored one (the API server always sends the stored object) *)
Definition consistent1 (st : store) (acc : bool) (r : req) : bool :=
  negb acc ||
  match snd r with
  | Add q => negb (mem (q_name q) st)
  | Update o n => match find (q_name n) st with
                  | Some o' => eq_listZ (ann_ns o') (ann_ns o)
                  | None => false
                  end
  | Delete q => match find (q_name q) st with
                | Some o' => eq_listZ (ann_ns o') (ann_ns q)
                | None => false
                end
  end.

(* the recorded topology, the admitted objects and the consistency flag along a history *)
Fixpoint hist_state (s : topo) (st : store) (cons : bool) (rs : list req) : topo * store * bool :=
  match rs with
  | [] => (s, st, cons)
  | r :: t => hist_state (step s r) (store_step st (accepted s r) r)
                         (cons && consistent1 st (accepted s r) r) t
  end.

(* N1: every namespace an admitted object declares is bound to that object;
   N2: every binding is declared by the admitted object it points to *)
Definition NsOK (st : store) (s : topo) : Prop :=
  (forall name q n, find name st = Some q -> In n (ann_ns q) -> find n (nsmap s) = Some name)
  /\ (forall n owner, find n (nsmap s) = Some owner ->
        exists q, find owner st = Some q /\ In n (ann_ns q)).

Definition ns_okb (st : store) (s : topo) : bool :=
  forallb (fun e => forallb (fun n => match find n (nsmap s) with
                                       | Some owner => owner =? fst e
                                       | None => false
                                       end) (ann_ns (snd e))) st
  && forallb (fun b => match find (snd b) st with
                       | Some q => memZ (fst b) (ann_ns q)
                       | None => false
                       end) (nsmap s).

(* ------------------------------------------------------------------ whole histories *)

(* flat rendering of a topology (also the wire format of the observable, see Extract.v) *)
Definition DIMS : nat := 3.
Definition enc_res (r : reslist) : list Z :=
  map (fun k => match rget k r with Some v => v | None => -1 end) (seq 0 DIMS).
Definition enc_info (e : Z * info) : list Z :=
  [fst e; i_parent (snd e); bz (i_is_parent (snd e)); bz (i_force (snd e));
   bz (i_tree_root (snd e)); i_tree (snd e)] ++ enc_res (i_min (snd e)) ++ enc_res (i_max (snd e)).
Definition enc_topo (s : topo) : list Z :=
  Z.of_nat (length (infos s)) :: flat_map enc_info (infos s)
  ++ Z.of_nat (length (hier s))
     :: flat_map (fun h => fst h :: Z.of_nat (length (snd h)) :: snd h) (hier s)
  ++ Z.of_nat (length (nsmap s)) :: flat_map (fun b => [fst b; snd b]) (nsmap s).

Definition same_topo (a b : topo) : bool := eq_listZ (enc_topo a) (enc_topo b).

(* an accepted deletion: the quota had no child (by parent link) and no pod, and is gone *)
Definition delete_guard_ok (prev cur : topo) (pods : list pod) (q : quota) : bool :=
  forallb (fun e => (fst e =? ROOT) || negb (i_parent (snd e) =? q_name q)) (infos prev)
  && negb (existsb (fun p => fst p =? q_name q) pods)
  && negb (mem (q_name q) (infos cur)).

(* pods bound to the quota a deletion request names, the way hasQuotaBoundedPods counts them:
   carrying its label, in the namespace named like it, or in a namespace it declares *)
Definition nsbound_delete (r : req) : bool :=
  match snd r with
  | Delete q => has_pods (fst r) (q_name q) (ann_ns q)
  | _ => false
  end.

(* [cons] = the history so far was consistent (see [consistent1]) *)
Fixpoint hist_code (prev : topo) (st : store) (cons : bool) (rs : list req)
         (tr : list (bool * topo)) : Z :=
  match rs, tr with
  | [], [] => 0
  | r :: rs', (acc, cur) :: tr' =>
      let w := wf_code cur in
      if negb (w =? 0) then w
      else if negb acc && negb (same_topo prev cur) then 20
      else if acc && match snd r with
                     | Delete q => negb (delete_guard_ok prev cur (fst r) q)
                     | _ => false
                     end then 19
      else if acc && nsbound_delete r then 21
      else
        let cons' := cons && consistent1 st acc r in
        let st' := store_step st acc r in
        if cons' && negb (ns_okb st' cur) then 18
        else hist_code cur st' cons' rs' tr'
  | _, _ => 9
  end.

Definition prop_code (g : bool * bool) (rs : list req) (tr : list (bool * topo)) : Z :=
  hist_code (init_topo g) [] true rs tr.
